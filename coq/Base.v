(* Base.v -- shared list-of-bytes utilities and the universal observation type V
   used by every correspondence check.  Executable definitions only; lemmas about
   them live in BaseLemmas.v so that the model still runs when a proof breaks. *)
From Coq Require Export List NArith ZArith Bool Lia.
Export ListNotations.

Definition byte := N.
Definition bytes := list N.

(* ---- universal observation value (what the Python harness and the model are compared on) ---- *)
Inductive V : Type :=
| VN (n : Z)
| VB (b : list N)
| VL (l : list V).

Fixpoint list_N_eqb (a b : list N) : bool :=
  match a, b with
  | [], [] => true
  | x :: a', y :: b' => N.eqb x y && list_N_eqb a' b'
  | _, _ => false
  end.

Fixpoint V_eqb (a b : V) {struct a} : bool :=
  match a, b with
  | VN x, VN y => Z.eqb x y
  | VB x, VB y => list_N_eqb x y
  | VL x, VL y =>
      (fix go (x y : list V) {struct x} : bool :=
         match x, y with
         | [], [] => true
         | v :: x', w :: y' => V_eqb v w && go x' y'
         | _, _ => false
         end) x y
  | _, _ => false
  end.

(* indices of the cases on which the model's observation differs from the implementation's *)
Fixpoint mismatches_from {A} (model : A -> V) (i : nat) (cases : list (A * V)) : list nat :=
  match cases with
  | [] => []
  | (a, v) :: rest =>
      if V_eqb (model a) v then mismatches_from model (S i) rest
      else i :: mismatches_from model (S i) rest
  end.
Definition mismatches {A} (model : A -> V) (cases : list (A * V)) : list nat :=
  mismatches_from model 0 cases.

Definition VBool (b : bool) : V := VN (if b then 1 else 0)%Z.
Definition VNat (n : nat) : V := VN (Z.of_nat n).
Definition VNn (n : N) : V := VN (Z.of_N n).
Definition VOpt {A} (f : A -> V) (o : option A) : V :=
  match o with None => VL [] | Some a => VL [f a] end.

(* ---- prefix / suffix / sub-list search on byte lists ---- *)
Fixpoint is_prefix (p s : list N) : bool :=
  match p, s with
  | [], _ => true
  | x :: p', y :: s' => N.eqb x y && is_prefix p' s'
  | _ :: _, [] => false
  end.

(* bytes.endswith *)
Definition is_suffix (p s : list N) : bool :=
  (length p <=? length s) && list_N_eqb (skipn (length s - length p) s) p.

(* bytes.find: index of the first occurrence *)
Fixpoint find_sub (p s : list N) : option nat :=
  if is_prefix p s then Some 0
  else match s with
       | [] => None
       | _ :: s' => match find_sub p s' with Some i => Some (S i) | None => None end
       end.

Definition contains (p s : list N) : bool :=
  match find_sub p s with Some _ => true | None => false end.

Fixpoint mem_N (x : N) (l : list N) : bool :=
  match l with [] => false | y :: l' => N.eqb x y || mem_N x l' end.

Fixpoint count_N (x : N) (l : list N) : nat :=
  match l with [] => 0 | y :: l' => (if N.eqb x y then 1 else 0) + count_N x l' end.

(* python slices *)
Definition take_last (n : nat) (l : list N) : list N := skipn (length l - n) l.   (* l[-n:] for n>0 *)
Definition drop_last (n : nat) (l : list N) : list N := firstn (length l - n) l.  (* l[:-n] for n>0 *)

(* bytes.replace for a two-byte pattern by a one-byte replacement (left-to-right, non-overlapping) *)
Fixpoint replace2 (a b r : N) (l : list N) : list N :=
  match l with
  | x :: ((y :: l'') as l') =>
      if N.eqb x a && N.eqb y b then r :: replace2 a b r l''
      else x :: replace2 a b r l'
  | _ => l
  end.

Definition CR : N := 13.
Definition LF : N := 10.

(* .replace("\r\n", "\n").replace("\n\r", "\n") -- on code points or bytes *)
Definition norm (l : list N) : list N := replace2 LF CR LF (replace2 CR LF LF l).

Fixpoint sum_len (ps : list (list N)) : nat :=
  match ps with [] => 0 | p :: ps' => length p + sum_len ps' end.

Fixpoint chunks_fuel (fuel n : nat) (l : list N) : list (list N) :=
  match fuel with
  | O => []
  | S f => match l with
           | [] => []
           | _ => firstn n l :: chunks_fuel f n (skipn n l)
           end
  end.
(* [l[i:i+n] for i in range(0, len(l), n)], n > 0 *)
Definition chunks (n : nat) (l : list N) : list (list N) := chunks_fuel (length l) n l.
