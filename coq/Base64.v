(* Base64.v -- base64 as used by Path.write_bytes / read_bytes: base64.b64encode on the sending side, the remote
   `base64 -d` (and base64.b64decode on the way back), which skip everything outside the alphabet.
   Tied to CPython's base64 module by correspondence (props/C11.py). *)
From TV Require Import Base.

Local Open Scope N_scope.

Definition idx2chr (i : N) : N :=
  if i <? 26 then 65 + i else if i <? 52 then 71 + i else if i <? 62 then i - 4 else if i =? 62 then 43 else 47.

Definition chr2idx (c : N) : option N :=
  if (65 <=? c) && (c <=? 90) then Some (c - 65)
  else if (97 <=? c) && (c <=? 122) then Some (c - 71)
  else if (48 <=? c) && (c <=? 57) then Some (c + 4)
  else if c =? 43 then Some 62
  else if c =? 47 then Some 63
  else None.

Definition PAD : N := 61.

Fixpoint b64enc (d : list N) : list N :=
  match d with
  | [] => []
  | [a] => [idx2chr (a / 4); idx2chr ((a mod 4) * 16); PAD; PAD]
  | [a; b] => [idx2chr (a / 4); idx2chr ((a mod 4) * 16 + b / 16); idx2chr ((b mod 16) * 4); PAD]
  | a :: b :: c :: r =>
      idx2chr (a / 4) :: idx2chr ((a mod 4) * 16 + b / 16) :: idx2chr ((b mod 16) * 4 + c / 64) :: idx2chr (c mod 64)
      :: b64enc r
  end.

(* the sextets of the alphabet characters; everything else (newlines, padding, garbage) is skipped *)
Definition sextets (l : list N) : list N :=
  flat_map (fun c => match chr2idx c with Some i => [i] | None => [] end) l.

Fixpoint dec_sextets (s : list N) : list N :=
  match s with
  | a :: b :: c :: d :: r => (a * 4 + b / 16) :: ((b mod 16) * 16 + c / 4) :: ((c mod 4) * 64 + d) :: dec_sextets r
  | [a; b; c] => [a * 4 + b / 16; (b mod 16) * 16 + c / 4]
  | [a; b] => [a * 4 + b / 16]
  | _ => []
  end.

Definition b64dec (l : list N) : list N := dec_sextets (sextets l).

(* write_bytes sends the encoding in lines of 76 characters (each followed by CR through sendline) *)
Definition b64_lines (d : list N) : list (list N) := chunks 76 (b64enc d).

(* `base64 FILE` on the remote wraps its output at 76 columns with LF *)
Definition b64_wrapped (d : list N) : list N := flat_map (fun l => l ++ [LF]) (b64_lines d).

Definition b64_model (case : list N) : V :=
  VL [VB (b64enc case); VL (map VB (b64_lines case)); VB (b64dec (b64_wrapped case))].
Definition b64dec_model (case : list N) : V := VB (b64dec case).
