(* BaseLemmas.v -- facts about the list utilities of Base.v *)
From TV Require Import Base.

Lemma list_N_eqb_eq a b : list_N_eqb a b = true <-> a = b.
Proof.
  revert b; induction a as [|x a IH]; intros [|y b]; simpl; split; intro H; try congruence; auto.
  - apply andb_true_iff in H as [H1 H2]. apply N.eqb_eq in H1. apply IH in H2. congruence.
  - inversion H; subst. apply andb_true_iff; split; [apply N.eqb_refl | apply IH; reflexivity].
Qed.

Lemma list_N_eqb_refl a : list_N_eqb a a = true.
Proof. apply list_N_eqb_eq; reflexivity. Qed.

Lemma is_prefix_spec p s : is_prefix p s = true <-> exists t, s = p ++ t.
Proof.
  revert s; induction p as [|x p IH]; intros s; simpl.
  - split; [intros _; exists s; reflexivity | reflexivity].
  - destruct s as [|y s]; split; intro H.
    + discriminate.
    + destruct H as [t Ht]; discriminate.
    + apply andb_true_iff in H as [H1 H2]. apply N.eqb_eq in H1; subst y.
      apply IH in H2 as [t ->]. exists t; reflexivity.
    + destruct H as [t Ht]. inversion Ht; subst. apply andb_true_iff; split.
      * apply N.eqb_refl.
      * apply IH. exists t; reflexivity.
Qed.

Lemma is_prefix_app p t : is_prefix p (p ++ t) = true.
Proof. apply is_prefix_spec; eauto. Qed.

Lemma skipn_app_exact {A} (a b : list A) : skipn (length a) (a ++ b) = b.
Proof. induction a; simpl; auto. Qed.

Lemma firstn_app_exact {A} (a b : list A) : firstn (length a) (a ++ b) = a.
Proof. induction a; simpl; [destruct b|]; auto. f_equal; auto. Qed.

Lemma is_suffix_spec p s : is_suffix p s = true <-> exists t, s = t ++ p.
Proof.
  unfold is_suffix; split.
  - intros H. apply andb_true_iff in H as [H1 H2]. apply Nat.leb_le in H1.
    apply list_N_eqb_eq in H2. exists (firstn (length s - length p) s).
    rewrite <- H2 at 2. symmetry; apply firstn_skipn.
  - intros [t ->]. rewrite app_length. apply andb_true_iff; split.
    + apply Nat.leb_le; lia.
    + replace (length t + length p - length p) with (length t) by lia.
      rewrite skipn_app_exact. apply list_N_eqb_refl.
Qed.

Lemma is_suffix_app t p : is_suffix p (t ++ p) = true.
Proof. apply is_suffix_spec; eauto. Qed.

Lemma is_suffix_false p s : is_suffix p s = false -> forall t, s <> t ++ p.
Proof.
  intros H t E. assert (is_suffix p s = true) by (apply is_suffix_spec; eauto). congruence.
Qed.

(* ---- find_sub / contains ---- *)
Lemma find_sub_Some p s i :
  find_sub p s = Some i -> exists a b, s = a ++ p ++ b /\ length a = i.
Proof.
  revert i; induction s as [|y s IH]; intros i; simpl.
  - destruct (is_prefix p []) eqn:E; [|discriminate].
    intros [= <-]. apply is_prefix_spec in E as [t Ht]. exists [], t; auto.
  - destruct (is_prefix p (y :: s)) eqn:E.
    + intros [= <-]. apply is_prefix_spec in E as [t Ht]. exists [], t; auto.
    + destruct (find_sub p s) as [j|] eqn:F; [|discriminate].
      intros [= <-]. destruct (IH j eq_refl) as (a & b & -> & Hl).
      exists (y :: a), b; simpl; split; [reflexivity | lia].
Qed.

Lemma find_sub_None p s : find_sub p s = None -> forall a b, s <> a ++ p ++ b.
Proof.
  induction s as [|y s IH]; simpl.
  - destruct (is_prefix p []) eqn:E; [discriminate|]. intros _ a b H.
    destruct a; simpl in H.
    + assert (is_prefix p [] = true) by (apply is_prefix_spec; eauto). congruence.
    + discriminate.
  - destruct (is_prefix p (y :: s)) eqn:E; [discriminate|].
    destruct (find_sub p s) eqn:F; [discriminate|]. intros _ a b H.
    destruct a as [|x a]; simpl in H.
    + assert (is_prefix p (y :: s) = true) by (apply is_prefix_spec; eauto). congruence.
    + inversion H; subst. eapply IH; eauto.
Qed.

(* the index found is the FIRST occurrence *)
Lemma find_sub_first p s i :
  find_sub p s = Some i -> forall a b, s = a ++ p ++ b -> i <= length a.
Proof.
  revert i; induction s as [|y s IH]; intros i; simpl.
  - destruct (is_prefix p []); [|discriminate]. intros [= <-]; intros; lia.
  - destruct (is_prefix p (y :: s)) eqn:E.
    + intros [= <-]; intros; lia.
    + destruct (find_sub p s) as [j|] eqn:F; [|discriminate].
      intros [= <-] a b H. destruct a as [|x a]; simpl in H.
      * assert (is_prefix p (y :: s) = true) by (apply is_prefix_spec; eauto). congruence.
      * inversion H; subst. simpl. specialize (IH j eq_refl a b eq_refl). lia.
Qed.

Lemma contains_spec p s : contains p s = true <-> exists a b, s = a ++ p ++ b.
Proof.
  unfold contains; split.
  - destruct (find_sub p s) as [i|] eqn:E; [|discriminate]. intros _.
    apply find_sub_Some in E as (a & b & H & _); eauto.
  - intros (a & b & H). destruct (find_sub p s) eqn:E; auto.
    exfalso; eapply find_sub_None; eauto.
Qed.

Lemma contains_false p s : contains p s = false -> forall a b, s <> a ++ p ++ b.
Proof.
  intros H a b E. assert (contains p s = true) by (apply contains_spec; eauto). congruence.
Qed.

(* ---- take_last / drop_last ---- *)
Lemma take_last_app_drop n l : drop_last n l ++ take_last n l = l.
Proof. unfold drop_last, take_last. apply firstn_skipn. Qed.

Lemma take_last_length n l : length (take_last n l) = Nat.min n (length l).
Proof. unfold take_last. rewrite skipn_length. lia. Qed.

Lemma take_last_all n l : length l <= n -> take_last n l = l.
Proof. intros H. unfold take_last. replace (length l - n) with 0 by lia. reflexivity. Qed.

Lemma take_last_app n a b : n <= length b -> take_last n (a ++ b) = take_last n b.
Proof.
  intros H. unfold take_last. rewrite app_length.
  replace (length a + length b - n) with (length a + (length b - n)) by lia.
  rewrite skipn_app. rewrite skipn_all2 by lia. simpl.
  replace (length a + (length b - n) - length a) with (length b - n) by lia. reflexivity.
Qed.

Lemma take_last_app_ge n a b : length b <= n -> take_last n (a ++ b) = take_last (n - length b) a ++ b.
Proof.
  intros H. unfold take_last. rewrite app_length.
  rewrite skipn_app.
  replace (length a + length b - n - length a) with 0 by lia. simpl.
  f_equal. f_equal. lia.
Qed.

Lemma take_last_suffix n l : exists t, l = t ++ take_last n l.
Proof. exists (drop_last n l). symmetry; apply take_last_app_drop. Qed.

Lemma take_last_nested m n a : m <= n -> take_last m (take_last n a) = take_last m a.
Proof.
  intros H. destruct (Nat.le_gt_cases (length a) n) as [Hl|Hl].
  - rewrite (take_last_all n a) by assumption. reflexivity.
  - destruct (take_last_suffix n a) as [t Ht]. rewrite Ht at 2.
    rewrite take_last_app; [reflexivity|]. rewrite take_last_length. lia.
Qed.

Lemma take_last_take_last n a b :
  take_last n (take_last n a ++ b) = take_last n (a ++ b).
Proof.
  destruct (Nat.le_gt_cases n (length b)) as [H|H].
  - rewrite !take_last_app by assumption. reflexivity.
  - rewrite !take_last_app_ge by lia. f_equal.
    apply take_last_nested. lia.
Qed.

Lemma sum_len_app a b : sum_len (a ++ b) = sum_len a + sum_len b.
Proof. induction a; simpl; lia. Qed.

Lemma length_concat (ps : list (list N)) : length (concat ps) = sum_len ps.
Proof. induction ps; simpl; auto. rewrite app_length; lia. Qed.

Lemma firstn_app_exact2 {A} (a b : list A) n : length a = n -> firstn n (a ++ b) = a.
Proof. intros <-. apply firstn_app_exact. Qed.

(* two splittings of one list: the shorter first part is a prefix of the other *)
Lemma app_split_len {T} (a : list T) : forall b c d, a ++ b = c ++ d -> length a <= length c ->
  exists q, c = a ++ q /\ b = q ++ d.
Proof.
  induction a as [|x a IH]; intros b c d E L; simpl in *.
  - exists c. auto.
  - destruct c as [|y c]; simpl in *; [lia|]. injection E as -> E.
    destruct (IH b c d E ltac:(lia)) as (q & -> & ->). exists q. auto.
Qed.
