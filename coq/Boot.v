(* Boot.v -- board bring-up on a Linux console: AskfirstInitializer and LinuxBootLogin._init_machine as
   compositions of channel operations with the deadline arithmetic of _boot_start / _timeout_remaining.
   Hand-written from tbot/machine/board/linux.py; tied to /repo by correspondence (props/C18.py runs the real
   classes over a reactive scripted console under the virtual clock).  Times are Z in units of 2^-10 s.
   The console's reaction to the k-th line sent is stage k (times relative to the moment the line is sent). *)
From TV Require Import Base Utf8 Regex Channel Hush Session.

Record bcfg : Type := mkB {
  b_askfirst : bool;
  b_user : list N;
  b_password : option (list N);
  b_timeout : option Z;               (* boot_timeout *)
  b_login_delay : Z;
  b_nopw : option Z                   (* no_password_timeout *)
}.

Definition LOGIN_P : list N := [108; 111; 103; 105; 110; 58; 32]%N.                       (* login:  *)
Definition PASSWORD_P : list N := [97; 115; 115; 119; 111; 114; 100; 58; 32]%N.           (* assword:  *)
Definition ASKFIRST_P : list N :=
  [80;108;101;97;115;101;32;112;114;101;115;115;32;69;110;116;101;114;32;116;111;32;97;99;116;105;118;97;116;101;32;
   116;104;105;115;32;99;111;110;115;111;108;101;46]%N.                                    (* Please press Enter to activate this console. *)

Inductive bres : Type :=
| BOk
| BTimeout                            (* TimeoutError *)
| BErr (e : res unit).

(* _timeout_remaining(): None = raises TimeoutError; Some None = no boot timeout; Some (Some r) = r > 0 left *)
Definition remaining (cfg : bcfg) (start : Z) (c : chan) : option (option Z) :=
  match b_timeout cfg with
  | None => Some None
  | Some T => let r := (T - (now (io c) - start))%Z in if (r <=? 0)%Z then None else Some (Some r)
  end.

Definition line_noback (s : list N) (sts : list stage) (c : chan) : res unit * chan * list stage :=
  let (r, c') := sendline s false None (load (hd_stage sts) c) in (r, c', tl sts).

Definition berr {A} (e : res A) : bres :=
  match e with ETimeout => BTimeout | x => BErr (lift_err x) end.

(* AskfirstInitializer._init_machine; start = _boot_start (set here) *)
Definition askfirst_step (cfg : bcfg) (sts : list stage) (c : chan) : bres * chan * list stage :=
  match expect [SLit ASKFIRST_P] (b_timeout cfg) c with
  | (Ret _, c1) =>
      match line_noback [] sts c1 with
      | (Ret _, c2, sts') => (BOk, c2, sts')
      | (e, c2, sts') => (berr e, c2, sts')
      end
  | (e, c1) => (berr e, c1, sts)
  end.

(* LinuxBootLogin._init_machine; start = _boot_start *)
Definition login_step (cfg : bcfg) (start : Z) (sts : list stage) (c : chan) : bres * chan * list stage :=
  match remaining cfg start c with
  | None => (BTimeout, c, sts)
  | Some rem0 =>
  match read_until_prompt (Some (SLit LOGIN_P)) rem0 c with
  | (Ret _, c1) =>
      let after_delay (k : chan -> list stage -> bres * chan * list stage) :=
        if (b_login_delay cfg =? 0)%Z then k c1 sts
        else
          match remaining cfg start c1 with
          | None => (BTimeout, c1, sts)
          | Some rem =>
              if match rem with Some r => (r <? b_login_delay cfg)%Z | None => false end then (BTimeout, c1, sts)
              else
                match read_until_timeout (Some (b_login_delay cfg)) c1 with
                | (Ret _, c2) =>
                    match line_noback [] sts c2 with
                    | (Ret _, c3, sts1) =>
                        match remaining cfg start c3 with
                        | None => (BTimeout, c3, sts1)
                        | Some rem2 =>
                            match read_until_prompt (Some (SLit LOGIN_P)) rem2 c3 with
                            | (Ret _, c4) => k c4 sts1
                            | (e, c4) => (berr e, c4, sts1)
                            end
                        end
                    | (e, c3, sts1) => (berr e, c3, sts1)
                    end
                | (e, c2) => (berr e, c2, sts)
                end
          end in
      after_delay (fun c5 sts5 =>
        match line_noback (utf8_enc (b_user cfg)) sts5 c5 with
        | (Ret _, c6, sts6) =>
            match b_password cfg with
            | None => (BOk, c6, sts6)
            | Some pw =>
                match remaining cfg start c6 with
                | None => (BTimeout, c6, sts6)
                | Some rem =>
                    let tmo := match b_nopw cfg, rem with
                               | None, _ => rem
                               | Some n, None => Some n
                               | Some n, Some r => Some (Z.min r n)
                               end in
                    match read_until_prompt (Some (SLit PASSWORD_P)) tmo c6 with
                    | (Ret _, c7) =>
                        match line_noback (utf8_enc pw) sts6 c7 with
                        | (Ret _, c8, sts8) => (BOk, c8, sts8)
                        | (e, c8, sts8) => (berr e, c8, sts8)
                        end
                    | (ETimeout, c7) =>
                        match remaining cfg start c7 with
                        | None => (BTimeout, c7, sts6)
                        | Some _ => (BOk, c7, sts6)          (* optimistically continuing without a password *)
                        end
                    | (e, c7) => (berr e, c7, sts6)
                    end
                end
            end
        | (e, c6, sts6) => (berr e, c6, sts6)
        end)
  | (e, c1) => (berr e, c1, sts)
  end
  end.

Definition bringup (cfg : bcfg) (sts : list stage) (c : chan) : bres * chan * list stage :=
  let start := now (io c) in
  if b_askfirst cfg then
    match askfirst_step cfg sts c with
    | (BOk, c1, sts1) => login_step cfg start sts1 c1
    | r => r
    end
  else login_step cfg start sts c.

Definition V_bres (r : bres) : V :=
  match r with BOk => VL [VN 0] | BTimeout => VL [VN 1] | BErr e => VL [VN 2; V_res_unit e] end.

(* case: configuration and the console's stages (stage 0 = what the console prints by itself from power-on) *)
Definition boot_model (case : bcfg * list stage) : V :=
  let (cfg, sts) := case in
  let c0 := load (hd_stage sts) (chan_init [] []) in
  let '(r, c, _) := bringup cfg (tl sts) c0 in
  VL [V_bres r; VN (now (io c)); VB (wr (io c))].

(* ================================================================== the U-Boot stage *)
(* UBootAutobootIntercept._init_machine and UBootShell._init_shell.  Every write (the autoboot keys, each ^C of
   the poll loop) consumes one stage: the console's reaction to it. *)
Record ucfg : Type := mkU {
  u_autoboot : bool;                  (* autoboot_prompt is not None *)
  u_keys : list N;                    (* autoboot_keys *)
  u_prompt : list N;                  (* the U-Boot prompt *)
  u_timeout : option Z                (* boot_timeout *)
}.

(* autoboot:\s{0,5}\d{0,3}\s{0,3}.{0,80} *)
Definition WS : re := RCls false [(9, 13); (32, 32)]%N.
Definition AUTOBOOT_RE : re :=
  RSeq (RChr 97) (RSeq (RChr 117) (RSeq (RChr 116) (RSeq (RChr 111) (RSeq (RChr 98) (RSeq (RChr 111) (RSeq (RChr 111)
  (RSeq (RChr 116) (RSeq (RChr 58)
  (RSeq (RRep WS 0 5) (RSeq (RRep (RCls false [(48, 57)]%N) 0 3) (RSeq (RRep WS 0 3) (RRep RAny 0 80)))))))))))).

Definition HALF : Z := 512.            (* 0.5 s *)

Definition write_raw (s : list N) (sts : list stage) (c : chan) : res unit * chan * list stage :=
  match s with
  | [] => (Ret tt, c, sts)
  | _ => let (r, c') := write s true (load (hd_stage sts) c) in (r, c', tl sts)
  end.

(* the poll loop of _init_shell: the deadline is looked at only at the head of an iteration *)
Fixpoint poll_loop (fuel : nat) (cfg : ucfg) (start : Z) (sts : list stage) (c : chan) : bres * chan * list stage :=
  match fuel with
  | O => (BErr EFuel, c, sts)
  | S f =>
      if match u_timeout cfg with Some T => (T <? now (io c) - start)%Z | None => false end then (BTimeout, c, sts)
      else
        match read_until_prompt None (Some HALF) c with
        | (Ret _, c1) => (BOk, c1, sts)
        | (ETimeout, c1) =>
            match write_raw [3%N] sts c1 with                       (* sendintr *)
            | (Ret _, c2, sts2) => poll_loop f cfg start sts2 (with_io c2 (io_sleep HALF (io c2)))
            | (e, c2, sts2) => (berr e, c2, sts2)
            end
        | (e, c1) => (berr e, c1, sts)
        end
  end.

Definition uboot_bringup (fuel : nat) (cfg : ucfg) (sts : list stage) (c : chan) : bres * chan * list stage :=
  let start := now (io c) in
  let shell (c1 : chan) (sts1 : list stage) :=
    poll_loop fuel cfg start sts1 (with_prompt c1 (Some (SLit (u_prompt cfg)))) in
  if u_autoboot cfg then
    let tmo := match u_timeout cfg with Some T => Some (T - (now (io c) - start))%Z | None => None end in
    match read_until_prompt (Some (SRe AUTOBOOT_RE)) tmo c with
    | (Ret _, c1) =>
        match write_raw (u_keys cfg) sts c1 with
        | (Ret _, c2, sts2) => shell c2 sts2
        | (e, c2, sts2) => (berr e, c2, sts2)
        end
    | (e, c1) => (berr e, c1, sts)
    end
  else shell c sts.

Definition uboot_model (case : ucfg * nat * list stage) : V :=
  match case with
  | (cfg, fuel, sts) =>
      let c0 := load (hd_stage sts) (chan_init [] []) in
      let '(r, c, _) := uboot_bringup fuel cfg (tl sts) c0 in
      VL [V_bres r; VN (now (io c)); VB (wr (io c))]
  end.
