(* Channel.v -- executable model of tbot.machine.channel.Channel over a scripted, timed transport.
   Hand-written from tbot/machine/channel/channel.py; tied to the code by the correspondence
   check (props/chan_common.py runs the real Channel on a scripted ChannelIO with a virtual clock).
   Time is Z in units of 2^-10 s. *)
From TV Require Import Base Utf8 Regex.

(* ------------------------------------------------------------------ search strings *)
Inductive sstr : Type := SLit (l : list N) | SRe (r : re).
Definition slen (s : sstr) : nat := match s with SLit l => length l | SRe r => maxwidth r end.

(* ------------------------------------------------------------------ transport *)
Record tio : Type := mkTio {
  pend : list (Z * list N);     (* (arrival time, data), data non-empty, in arrival order *)
  now : Z;
  accept : list nat;            (* partial-write oracle: one entry per ChannelIO.write call *)
  iolog : list V;               (* ChannelIO calls of the current operation, newest first *)
  wr : list N                   (* every byte the transport has accepted so far, in order *)
}.

Inductive rres : Type := RData (d : list N) | RTimeout | RBlocked.

Definition log_read (n : nat) (timeout : option Z) (t : tio) : tio :=
  mkTio (pend t) (now t) (accept t)
        (VL [VN 0; VNat n; VOpt VN timeout] :: iolog t) (wr t).

Definition deliver (n : nat) (at_ : Z) (d : list N) (rest : list (Z * list N)) (t : tio) : rres * tio :=
  let got := firstn n d in
  let left := skipn n d in
  let tm := Z.max (now t) at_ in
  (RData got, mkTio (match left with [] => rest | _ => (at_, left) :: rest end) tm (accept t) (iolog t) (wr t)).

(* ChannelIO.read(n, timeout) of the scripted transport *)
Definition io_read (n : nat) (timeout : option Z) (t0 : tio) : rres * tio :=
  let t := log_read n timeout t0 in
  match n with
  | O => (RData [], t)
  | _ =>
    match pend t with
    | [] => match timeout with
            | None => (RBlocked, t)
            | Some T => (RTimeout, mkTio [] (now t + Z.max T 0) (accept t) (iolog t) (wr t))
            end
    | (at_, d) :: rest =>
        if (at_ <=? now t)%Z then deliver n at_ d rest t
        else match timeout with
             | None => deliver n at_ d rest t
             | Some T => if (at_ <? now t + T)%Z then deliver n at_ d rest t
                         else (RTimeout, mkTio (pend t) (now t + Z.max T 0) (accept t) (iolog t) (wr t))
             end
    end
  end.

(* ChannelIO.write(buf) -> number of bytes accepted (1..len) *)
Definition io_write (buf : list N) (t : tio) : nat * tio :=
  let k := match accept t with
           | [] => length buf
           | a :: _ => Nat.min (length buf) (Nat.max 1 a)
           end in
  (k, mkTio (pend t) (now t) (tl (accept t)) (VL [VN 1; VB buf; VNat k] :: iolog t) (wr t ++ firstn k buf)).

Definition io_sleep (d : Z) (t : tio) : tio := mkTio (pend t) (now t + d) (accept t) (iolog t) (wr t).

(* ------------------------------------------------------------------ channel state *)
Record dentry : Type := mkD { d_id : nat; d_str : sstr; d_exc : Z; d_ring : list N }.

Inductive frame : Type :=
| FPrompt (prev : option sstr)
| FDeath (id : nat)
| FStream (sid : Z) (prev_log_prompt : bool).

Record lg : Type := mkLg {
  streams : list Z;
  streambuf : list N;
  log_prompt : bool;
  sout : list (Z * list N);     (* stream.write calls of the current operation, newest first *)
  fwdb : list N                 (* ghost: raw bytes handed to the attached streams so far *)
}.

Record chan : Type := mkChan {
  io : tio;
  prompt : option sstr;
  deaths : list dentry;
  lgs : lg;
  blacklist : list N;
  slow : option (Z * nat);
  ctx : list frame;
  nextid : nat
}.

Definition with_io (c : chan) (x : tio) : chan :=
  mkChan x (prompt c) (deaths c) (lgs c) (blacklist c) (slow c) (ctx c) (nextid c).
Definition with_prompt (c : chan) (x : option sstr) : chan :=
  mkChan (io c) x (deaths c) (lgs c) (blacklist c) (slow c) (ctx c) (nextid c).
Definition with_deaths (c : chan) (x : list dentry) : chan :=
  mkChan (io c) (prompt c) x (lgs c) (blacklist c) (slow c) (ctx c) (nextid c).
Definition with_lgs (c : chan) (x : lg) : chan :=
  mkChan (io c) (prompt c) (deaths c) x (blacklist c) (slow c) (ctx c) (nextid c).
Definition with_ctx (c : chan) (x : list frame) : chan :=
  mkChan (io c) (prompt c) (deaths c) (lgs c) (blacklist c) (slow c) x (nextid c).

Definition chan_init (pend0 : list (Z * list N)) (acc : list nat) : chan :=
  mkChan (mkTio pend0 0 acc [] []) None [] (mkLg [] [] true [] []) [] None [] 0.

Definition READ_CHUNK_SIZE : nat := 4096.
Definition SEND_SLICE : nat := 512.

(* ------------------------------------------------------------------ _write_stream *)
(* largest i <= bound with buf[-i:] == p[:i]  (the reversed for-loop of _write_stream) *)
Fixpoint overlap_from (i : nat) (p buf : list N) : nat :=
  match i with
  | O => O
  | S i' => if list_N_eqb (take_last i buf) (firstn i p) then i else overlap_from i' p buf
  end.
Definition overlap (p buf : list N) : nat := overlap_from (Nat.min (length p) (length buf)) p buf.

Definition emit (frag : list N) (l : lg) : lg :=
  mkLg (streams l) (streambuf l) (log_prompt l)
       (rev (map (fun sid => (sid, utf8_dec frag)) (streams l)) ++ sout l) (fwdb l ++ frag).

Definition write_stream (buf : list N) (c : chan) : chan :=
  let l := lgs c in
  match streams l with
  | [] => c
  | _ =>
    match (if log_prompt l then None else prompt c) with
    | None => with_lgs c (emit buf l)
    | Some p =>
        let sb := streambuf l ++ buf in
        let keep := match p with
                    | SLit pl => overlap pl sb
                    | SRe _ => Nat.min (slen p) (length sb)
                    end in
        let frag := drop_last keep sb in
        let l1 := emit frag l in
        with_lgs c (mkLg (streams l1) (take_last keep sb) (log_prompt l1) (sout l1) (fwdb l1))
    end
  end.

(* ------------------------------------------------------------------ death strings: _check *)
Definition sublist (a b : nat) (l : list N) : list N := firstn (b - a) (skipn a l).

Definition ds_hit (s : sstr) (ring : list N) : option (list N) :=
  match s with
  | SLit l => if contains l ring then Some l else None
  | SRe r => match search r ring with Some (a, b) => Some (sublist a b ring) | None => None end
  end.

(* one window through all entries, in list order; stops at the first hit *)
Fixpoint check_entries (chunk : list N) (ds : list dentry) : option (Z * list N) * list dentry :=
  match ds with
  | [] => (None, [])
  | e :: ds' =>
      let ring' := take_last (2 * slen (d_str e)) (d_ring e ++ chunk) in
      let e' := mkD (d_id e) (d_str e) (d_exc e) ring' in
      match ds_hit (d_str e) ring' with
      | Some mt => (Some (d_exc e, mt), e' :: ds')
      | None => let (r, ds'') := check_entries chunk ds' in (r, e' :: ds'')
      end
  end.

Fixpoint check_chunks (cs : list (list N)) (ds : list dentry) : option (Z * list N) * list dentry :=
  match cs with
  | [] => (None, ds)
  | ch :: cs' =>
      match check_entries ch ds with
      | (Some h, ds') => (Some h, ds')
      | (None, ds') => check_chunks cs' ds'
      end
  end.

Fixpoint min_slen (ds : list dentry) : nat :=
  match ds with
  | [] => 0
  | [e] => slen (d_str e)
  | e :: ds' => Nat.min (slen (d_str e)) (min_slen ds')
  end.

Definition check (incoming : list N) (c : chan) : option (Z * list N) * chan :=
  match deaths c with
  | [] => (None, c)
  | ds => let (r, ds') := check_chunks (chunks (min_slen ds) incoming) ds in (r, with_deaths c ds')
  end.

(* ------------------------------------------------------------------ read_iter: one loop iteration *)
Inductive sres : Type :=
| SData (new : list N)
| STimeout
| SBlocked
| SDeath (exc : Z) (mt : list N).

Definition iter_step (start : Z) (timeout : option Z) (maxread : nat) (c : chan) : sres * chan :=
  let rem := match timeout with None => None | Some T => Some (T - (now (io c) - start))%Z end in
  if match rem with Some r => (r <=? 0)%Z | None => false end then (STimeout, c)
  else
    let (res, io') := io_read maxread rem (io c) in
    let c' := with_io c io' in
    match res with
    | RTimeout => (STimeout, c')
    | RBlocked => (SBlocked, c')
    | RData new =>
        let c1 := write_stream new c' in
        match check new c1 with
        | (Some (exc, mt), c2) => (SDeath exc mt, c2)
        | (None, c2) => (SData new, c2)
        end
    end.

Definition total_pending (c : chan) : nat := sum_len (map snd (pend (io c))) + length (pend (io c)).
Definition fuel_of (c : chan) : nat := S (S (total_pending c)).

(* results of channel operations *)
Inductive res (A : Type) : Type :=
| Ret (a : A)
| ETimeout
| EBlocked
| EDeath (exc : Z) (mt : list N)
| EIllegal
| EAssert
| EFuel.
Arguments Ret {A} a.
Arguments ETimeout {A}.
Arguments EBlocked {A}.
Arguments EDeath {A} exc mt.
Arguments EIllegal {A}.
Arguments EAssert {A}.
Arguments EFuel {A}.

Definition maxread_of (max : option nat) (got : nat) : nat :=
  match max with None => READ_CHUNK_SIZE | Some mx => Nat.min READ_CHUNK_SIZE (mx - got) end.

(* list(read_iter(max, timeout)): the chunks yielded, and how the iteration ended.
   acc is reversed. *)
Fixpoint read_iter_loop (fuel : nat) (start : Z) (timeout : option Z) (max : option nat)
         (got : nat) (acc : list (list N)) (c : chan) : list (list N) * res unit * chan :=
  match fuel with
  | O => (rev acc, EFuel, c)
  | S f =>
      match iter_step start timeout (maxread_of max got) c with
      | (STimeout, c') => (rev acc, ETimeout, c')
      | (SBlocked, c') => (rev acc, EBlocked, c')
      | (SDeath e mt, c') => (rev acc, EDeath e mt, c')
      | (SData new, c') =>
          let got' := got + length new in
          if match max with Some mx => Nat.eqb got' mx | None => false end
          then (rev (new :: acc), Ret tt, c')
          else read_iter_loop f start timeout max got' (new :: acc) c'
      end
  end.

Definition read_iter (max : option nat) (timeout : option Z) (c : chan) : list (list N) * res unit * chan :=
  read_iter_loop (fuel_of c) (now (io c)) timeout max 0 [] c.

Definition lift_err {A B} (r : res A) : res B :=
  match r with
  | Ret _ => EFuel
  | ETimeout => ETimeout | EBlocked => EBlocked | EDeath e mt => EDeath e mt
  | EIllegal => EIllegal | EAssert => EAssert | EFuel => EFuel
  end.

(* Channel.read(n, timeout) *)
Definition read (n : Z) (timeout : option Z) (c : chan) : res (list N) * chan :=
  if (n <? 0)%Z then
    let (r, io') := io_read READ_CHUNK_SIZE timeout (io c) in
    let c' := with_io c io' in
    match r with
    | RTimeout => (ETimeout, c')
    | RBlocked => (EBlocked, c')
    | RData buf =>
        let c1 := write_stream buf c' in
        match check buf c1 with
        | (Some (e, mt), c2) => (EDeath e mt, c2)
        | (None, c2) =>
            (* read_iter(timeout=0.0) raises TimeoutError at once; swallowed only for n = -1 *)
            if (n =? -1)%Z then (Ret buf, c2) else (ETimeout, c2)
        end
    end
  else
    match read_iter (Some (Z.to_nat n)) timeout c with
    | (chs, Ret _, c') => (Ret (concat chs), c')
    | (_, e, c') => (lift_err e, c')
    end.

(* ------------------------------------------------------------------ write / send *)
Fixpoint write_loop (fuel : nat) (buf : list N) (c : chan) : res unit * chan :=
  match buf with
  | [] => (Ret tt, c)
  | _ =>
    match fuel with
    | O => (EFuel, c)
    | S f =>
        match slow c with
        | None => let (k, io') := io_write buf (io c) in
                  write_loop f (skipn k buf) (with_io c io')
        | Some (delay, csz) =>
                  let (k, io') := io_write (firstn csz buf) (io c) in
                  write_loop f (skipn k buf) (with_io c (io_sleep delay io'))
        end
    end
  end.

Fixpoint any_in (bl buf : list N) : bool :=
  match bl with [] => false | b :: bl' => mem_N b buf || any_in bl' buf end.

Definition write (buf : list N) (ignore_bl : bool) (c : chan) : res unit * chan :=
  if negb ignore_bl && any_in (blacklist c) buf then (EIllegal, c)
  else write_loop (S (length buf)) buf c.

Definition readback_len (chunk : list N) : nat :=
  length chunk + count_N CR chunk + count_N LF chunk.

(* send(): 512-byte slices; with read_back each slice's echo is read under ONE overall deadline *)
Fixpoint send_loop (fuel : nat) (start : Z) (s : list N) (rb : bool) (timeout : option Z) (c : chan)
  : res unit * chan :=
  match s with
  | [] => (Ret tt, c)
  | _ =>
    match fuel with
    | O => (EFuel, c)
    | S f =>
        let chunk := firstn SEND_SLICE s in
        match write chunk false c with
        | (Ret _, c1) =>
            if rb then
              let rem := match timeout with
                         | None => None
                         | Some T => Some (T - (now (io c1) - start))%Z
                         end in
              match read (Z.of_nat (readback_len chunk)) rem c1 with
              | (Ret _, c2) => send_loop f start (skipn SEND_SLICE s) rb timeout c2
              | (e, c2) => (lift_err e, c2)
              end
            else send_loop f start (skipn SEND_SLICE s) rb timeout c1
        | (e, c1) => (e, c1)
        end
    end
  end.

(* the whole payload is checked against the black-list before the first slice is sent *)
Definition send (s : list N) (rb : bool) (timeout : option Z) (c : chan) : res unit * chan :=
  if any_in (blacklist c) s then (EIllegal, c)
  else send_loop (S (length s)) (now (io c)) s rb timeout c.

Definition sendline (s : list N) (rb : bool) (timeout : option Z) (c : chan) : res unit * chan :=
  send (s ++ [CR]) rb timeout c.

Definition sendcontrol (ch : N) (c : chan) : res unit * chan :=
  if (64 <=? ch)%N && (ch <=? 95)%N then write [(ch - 64)%N] true c else (EAssert, c).

(* ------------------------------------------------------------------ readline *)
Fixpoint readline_loop (fuel : nat) (start : Z) (timeout : option Z) (le line : list N) (c : chan)
  : res (list N) * chan :=
  match fuel with
  | O => (EFuel, c)
  | S f =>
      let rem := match timeout with None => None | Some T => Some (T - (now (io c) - start))%Z end in
      match read 1 rem c with
      | (Ret b, c') =>
          let line' := line ++ b in
          if is_suffix le line' then (Ret (text line'), c')
          else readline_loop f start timeout le line' c'
      | (e, c') => (lift_err e, c')
      end
  end.
Definition readline (timeout : option Z) (le : list N) (c : chan) : res (list N) * chan :=
  readline_loop (fuel_of c) (now (io c)) timeout le [] c.

(* ------------------------------------------------------------------ expect *)
Record expect_result : Type := mkER { er_idx : nat; er_match : list N; er_before : list N; er_after : list N }.

(* where a pattern matches in the buffer: bytes.find for literals, pattern.search for regexes *)
Definition pat_hit (p : sstr) (buf : list N) : option (nat * nat) :=
  match p with
  | SLit l => match find_sub l buf with
              | Some a => Some (a, a + length l)
              | None => None
              end
  | SRe r => search r buf
  end.

Fixpoint try_patterns (i : nat) (pats : list sstr) (buf : list N) : option expect_result :=
  match pats with
  | [] => None
  | p :: ps =>
      match pat_hit p buf with
      | Some (a, b) => Some (mkER i (sublist a b buf) (text (firstn a buf)) (text (skipn b buf)))
      | None => try_patterns (S i) ps buf
      end
  end.

Fixpoint expect_loop (fuel : nat) (start : Z) (timeout : option Z) (pats : list sstr) (buf : list N) (c : chan)
  : res expect_result * chan :=
  match fuel with
  | O => (EFuel, c)
  | S f =>
      match iter_step start timeout READ_CHUNK_SIZE c with
      | (STimeout, c') => (ETimeout, c')
      | (SBlocked, c') => (EBlocked, c')
      | (SDeath e mt, c') => (EDeath e mt, c')
      | (SData new, c') =>
          let buf' := buf ++ new in
          match try_patterns 0 pats buf' with
          | Some r => (Ret r, c')
          | None => expect_loop f start timeout pats buf' c'
          end
      end
  end.
Definition expect (pats : list sstr) (timeout : option Z) (c : chan) : res expect_result * chan :=
  expect_loop (fuel_of c) (now (io c)) timeout pats [] c.

(* ------------------------------------------------------------------ read_until_prompt *)
(* the prompt test applied to the whole buffer after every piece: Some k = number of bytes
   of the buffer that precede the prompt *)
Definition prompt_split (p : option sstr) (buf : list N) : option nat :=
  match p with
  | None => None
  | Some (SLit pl) => if is_suffix pl buf then Some (length buf - length pl) else None
  | Some (SRe r) => match search_end r buf with Some (a, _) => Some a | None => None end
  end.

Fixpoint rup_loop (fuel : nat) (start : Z) (timeout : option Z) (buf : list N) (c : chan)
  : res (list N) * chan :=
  match fuel with
  | O => (EFuel, c)
  | S f =>
      match iter_step start timeout READ_CHUNK_SIZE c with
      | (STimeout, c') => (ETimeout, c')
      | (SBlocked, c') => (EBlocked, c')
      | (SDeath e mt, c') => (EDeath e mt, c')
      | (SData new, c') =>
          let buf' := buf ++ new in
          match prompt_split (prompt c') buf' with
          | Some k => (Ret (text (firstn k buf')), c')
          | None => rup_loop f start timeout buf' c'
          end
      end
  end.

Definition read_until_prompt (p : option sstr) (timeout : option Z) (c : chan) : res (list N) * chan :=
  match p with
  | None => rup_loop (fuel_of c) (now (io c)) timeout [] c
  | Some p' =>
      let prev := prompt c in
      let (r, c') := rup_loop (fuel_of c) (now (io c)) timeout [] (with_prompt c (Some p')) in
      (r, with_prompt c' prev)
  end.

(* ------------------------------------------------------------------ read_until_timeout *)
Fixpoint rut_loop (fuel : nat) (start : Z) (timeout : option Z) (buf : list N) (c : chan)
  : res (list N) * chan :=
  match fuel with
  | O => (EFuel, c)
  | S f =>
      match iter_step start timeout READ_CHUNK_SIZE c with
      | (STimeout, c') => (Ret (text buf), c')
      | (SBlocked, c') => (EBlocked, c')
      | (SDeath e mt, c') => (EDeath e mt, c')
      | (SData new, c') => rut_loop f start timeout (buf ++ new) c'
      end
  end.
Definition read_until_timeout (timeout : option Z) (c : chan) : res (list N) * chan :=
  rut_loop (fuel_of c) (now (io c)) timeout [] c.

(* ------------------------------------------------------------------ context managers (flattened) *)
Definition push_prompt (p : sstr) (c : chan) : chan :=
  with_ctx (with_prompt c (Some p)) (FPrompt (prompt c) :: ctx c).

Definition push_death (s : sstr) (exc : Z) (c : chan) : chan :=
  let e := mkD (nextid c) s exc [] in
  mkChan (io c) (prompt c) (e :: deaths c) (lgs c) (blacklist c) (slow c)
         (FDeath (nextid c) :: ctx c) (S (nextid c)).

Definition push_stream (sid : Z) (show : bool) (c : chan) : chan :=
  let l := lgs c in
  with_ctx (with_lgs c (mkLg (streams l ++ [sid]) (streambuf l) show (sout l) (fwdb l)))
           (FStream sid (log_prompt l) :: ctx c).

Fixpoint remove_first_Z (x : Z) (l : list Z) : list Z :=
  match l with [] => [] | y :: l' => if Z.eqb x y then l' else y :: remove_first_Z x l' end.

Fixpoint remove_id (id : nat) (ds : list dentry) : list dentry :=
  match ds with [] => [] | e :: ds' => if Nat.eqb (d_id e) id then ds' else e :: remove_id id ds' end.

(* leaving one context manager: frame f has already been removed from the stack `rest` *)
Definition exit_frame (f : frame) (rest : list frame) (c : chan) : chan :=
  match f with
  | FPrompt prev => with_ctx (with_prompt c prev) rest
  | FDeath id => with_ctx (with_deaths c (remove_id id (deaths c))) rest
  | FStream sid prevlp =>
      let l := lgs c in
      let sb := if negb (log_prompt l) then
                  match prompt c with
                  | Some p => skipn (slen p) (streambuf l)
                  | None => streambuf l
                  end
                else streambuf l in
      with_ctx (with_lgs c (mkLg (remove_first_Z sid (streams l)) sb prevlp (sout l) (fwdb l))) rest
  end.

Definition pop (c : chan) : chan :=
  match ctx c with
  | [] => c
  | f :: rest => exit_frame f rest c
  end.

(* leaving the k-th innermost context out of order (k = 0 is pop) *)
Definition pop_at (k : nat) (c : chan) : chan :=
  match nth_error (ctx c) k with
  | None => c
  | Some f => exit_frame f (firstn k (ctx c) ++ skipn (S k) (ctx c)) c
  end.

(* add_death_string(): a registration that is never undone *)
Definition add_death (s : sstr) (exc : Z) (c : chan) : chan :=
  let e := mkD (nextid c) s exc [] in
  mkChan (io c) (prompt c) (e :: deaths c) (lgs c) (blacklist c) (slow c) (ctx c) (S (nextid c)).

(* keep tactics from unfolding the nat literals 4096 / 512 (vm_compute is not affected) *)
Global Opaque READ_CHUNK_SIZE SEND_SLICE.
