(* ChannelCorr.v -- operation scripts over the Channel model and their observations (as V),
   the Coq side of the channel correspondence check. *)
From TV Require Import Base Utf8 Regex Channel.

Inductive op : Type :=
| ORead (n : Z) (t : option Z)
| OReadIter (max : option nat) (t : option Z)
| OReadline (t : option Z) (le : list N)
| OExpect (pats : list sstr) (t : option Z)
| ORup (p : option sstr) (t : option Z)
| ORut (t : option Z)
| OWrite (b : list N)
| OSend (isstr : bool) (b : list N) (rb : bool) (t : option Z)
| OSendline (isstr : bool) (b : list N) (rb : bool) (t : option Z)
| OSendctl (c : N)
| OPushPrompt (p : sstr)
| OPushDeath (s : sstr) (exc : Z)
| OPushStream (sid : Z) (show : bool)
| OPop
| OPopAt (k : nat)
| OAddDeath (s : sstr) (exc : Z)
| OSetBlacklist (l : list N)
| OSetSlow (o : option (Z * nat)).

Definition V_err {A} (f : A -> V) (r : res A) : V :=
  match r with
  | Ret a => f a
  | ETimeout => VL [VN 2]
  | EBlocked => VL [VN 3]
  | EDeath e mt => VL [VN 4; VN e; VB mt]
  | EIllegal => VL [VN 5]
  | EAssert => VL [VN 6]
  | EFuel => VL [VN 99]
  end.

Definition V_unit (_ : unit) : V := VL [VN 0].
Definition V_data (d : list N) : V := VL [VN 1; VB d].
Definition V_er (r : expect_result) : V :=
  VL [VN 7; VNat (er_idx r); VB (er_match r); VB (er_before r); VB (er_after r)].

Definition clear_logs (c : chan) : chan :=
  let t := io c in let l := lgs c in
  with_lgs (with_io c (mkTio (pend t) (now t) (accept t) [] (wr t)))
           (mkLg (streams l) (streambuf l) (log_prompt l) [] (fwdb l)).

Definition payload (isstr : bool) (b : list N) : list N := if isstr then utf8_enc b else b.

Definition run_op (o : op) (c : chan) : V * chan :=
  match o with
  | ORead n t => let (r, c') := read n t c in (V_err V_data r, c')
  | OReadIter mx t =>
      match read_iter mx t c with
      | (chs, r, c') => (VL [VN 8; VL (map VB chs); V_err V_unit r], c')
      end
  | OReadline t le => let (r, c') := readline t le c in (V_err V_data r, c')
  | OExpect pats t => let (r, c') := expect pats t c in (V_err V_er r, c')
  | ORup p t => let (r, c') := read_until_prompt p t c in (V_err V_data r, c')
  | ORut t => let (r, c') := read_until_timeout t c in (V_err V_data r, c')
  | OWrite b => let (r, c') := write b false c in (V_err V_unit r, c')
  | OSend isstr b rb t =>
      match payload isstr b with
      | [] => (VL [VN 0], c)
      | s => let (r, c') := send s rb t c in (V_err V_unit r, c')
      end
  | OSendline isstr b rb t => let (r, c') := sendline (payload isstr b) rb t c in (V_err V_unit r, c')
  | OSendctl ch => let (r, c') := sendcontrol ch c in (V_err V_unit r, c')
  | OPushPrompt p => (VL [VN 0], push_prompt p c)
  | OPushDeath s e => (VL [VN 0], push_death s e c)
  | OPushStream sid show => (VL [VN 0], push_stream sid show c)
  | OPop => (VL [VN 0], pop c)
  | OPopAt k => (VL [VN 0], pop_at k c)
  | OAddDeath s e => (VL [VN 0], add_death s e c)
  | OSetBlacklist l =>
      (VL [VN 0], mkChan (io c) (prompt c) (deaths c) (lgs c) l (slow c) (ctx c) (nextid c))
  | OSetSlow o =>
      (VL [VN 0], mkChan (io c) (prompt c) (deaths c) (lgs c) (blacklist c) o (ctx c) (nextid c))
  end.

Definition stream_text (sid : Z) (c : chan) : V :=
  VB (concat (map snd (filter (fun e => Z.eqb (fst e) sid) (rev (sout (lgs c)))))).

Definition obs_op (o : op) (c : chan) : V * chan :=
  let (r, c') := run_op o (clear_logs c) in
  (VL [r; VN (now (io c')); VL (map (fun sid => stream_text sid c') [0; 1; 2]%Z); VL (rev (iolog (io c')))], c').

Fixpoint run_ops (ops : list op) (c : chan) : list V * chan :=
  match ops with
  | [] => ([], c)
  | o :: ops' => let (v, c') := obs_op o c in
                 let (vs, c'') := run_ops ops' c' in (v :: vs, c'')
  end.

Definition final_obs (c : chan) : V :=
  VL [VB (concat (map snd (pend (io c)))); VB (streambuf (lgs c)); VNat (length (deaths c));
      VNat (length (streams (lgs c))); VBool (log_prompt (lgs c)); VB (wr (io c))].

(* a correspondence case: scripted transport (timed pieces, partial-write oracle) and a script *)
Definition chan_model (case : list (Z * list N) * list nat * list op) : V :=
  match case with
  | (pieces, acc, ops) =>
      let (vs, c) := run_ops ops (chan_init pieces acc) in
      VL [VL vs; final_obs c]
  end.
