(* ChannelLemmas.v -- the transport and the read_iter loop iteration: conservation, progress, framing, time *)
From TV Require Import Base BaseLemmas Utf8 Regex Channel.

Definition cat (p : list (Z * list N)) : list N := concat (map snd p).
Definition tot (p : list (Z * list N)) : nat := sum_len (map snd p) + length p.
Definition wf_pend (p : list (Z * list N)) : Prop := Forall (fun e => snd e <> []) p.
Definition cpend (c : chan) : list N := cat (pend (io c)).
Definition wfc (c : chan) : Prop := wf_pend (pend (io c)).

Lemma total_pending_tot c : total_pending c = tot (pend (io c)).
Proof. reflexivity. Qed.

(* ------------------------------------------------------------------ deliver / io_read *)
Lemma deliver_spec n at_ d rest t r t' :
  deliver n at_ d rest t = (r, t') -> 0 < n -> d <> [] -> wf_pend rest ->
  exists got, r = RData got /\ got <> [] /\ length got <= n /\
    d ++ cat rest = got ++ cat (pend t') /\ wf_pend (pend t') /\
    tot (pend t') < tot ((at_, d) :: rest) /\
    now t' = Z.max (now t) at_ /\ accept t' = accept t /\ wr t' = wr t /\ iolog t' = iolog t.
Proof.
  unfold deliver. intros [= <- <-] Hn Hd Hw. exists (firstn n d). simpl.
  split; [reflexivity|]. split.
  { destruct d; [congruence|]. destruct n; [lia|]. simpl; congruence. }
  split. { apply firstn_le_length. }
  assert (Hlen : length (firstn n d) + length (skipn n d) = length d).
  { rewrite <- (firstn_skipn n d) at 3. rewrite app_length; lia. }
  assert (Hpos : 0 < length (firstn n d)).
  { destruct d; [congruence|]. destruct n; [lia|]. simpl; lia. }
  destruct (skipn n d) as [|x l] eqn:E.
  - split. { unfold cat. rewrite <- (firstn_skipn n d) at 1. rewrite E, app_nil_r. reflexivity. }
    split; [assumption|]. split.
    { unfold tot; simpl. lia. }
    auto.
  - split. { rewrite <- E. unfold cat; simpl. rewrite app_assoc, firstn_skipn. reflexivity. }
    split. { constructor; [simpl; congruence | assumption]. }
    split. { unfold tot; simpl. simpl in Hlen. lia. }
    auto.
Qed.

Lemma io_read_data n tmo t d t' :
  io_read n tmo t = (RData d, t') -> 0 < n -> wf_pend (pend t) ->
  d <> [] /\ length d <= n /\ cat (pend t) = d ++ cat (pend t') /\ wf_pend (pend t') /\
  tot (pend t') < tot (pend t) /\ (now t <= now t')%Z /\
  (forall T, tmo = Some T -> (0 < T)%Z -> (now t' < now t + T)%Z) /\
  accept t' = accept t /\ wr t' = wr t.
Proof.
  unfold io_read. intros H Hn Hw. destruct n as [|n']; [lia|].
  set (n := S n') in *. simpl in H.
  destruct (pend t) as [|[at_ dd] rest] eqn:Ep.
  { destruct tmo; discriminate. }
  inversion Hw as [|? ? Hd Hrest]; subst. simpl in Hd.
  assert (G : forall t1, deliver n at_ dd rest t1 = (RData d, t') ->
              now t1 = now t -> accept t1 = accept t -> wr t1 = wr t ->
              d <> [] /\ length d <= n /\ cat ((at_, dd) :: rest) = d ++ cat (pend t') /\ wf_pend (pend t') /\
              tot (pend t') < tot ((at_, dd) :: rest) /\ (now t <= now t')%Z /\
              now t' = Z.max (now t) at_ /\ accept t' = accept t /\ wr t' = wr t).
  { intros t1 Hdel E1 E2 E3.
    destruct (deliver_spec _ _ _ _ _ _ _ Hdel) as (got & Hr & H1 & H2 & H3 & H4 & H5 & H6 & H7 & H8 & _); auto; try lia.
    injection Hr as <-. unfold cat at 1; simpl. fold (cat rest).
    repeat split; auto; try congruence; rewrite H6, E1; lia. }
  destruct (at_ <=? now t)%Z eqn:Eat.
  - apply Z.leb_le in Eat.
    destruct (G _ H) as (A1 & A2 & A3 & A4 & A5 & A6 & A7 & A8 & A9); auto.
    repeat split; auto. intros T _ HT. rewrite A7. lia.
  - apply Z.leb_gt in Eat. destruct tmo as [T|].
    + destruct (at_ <? now t + T)%Z eqn:El; [|discriminate].
      apply Z.ltb_lt in El.
      destruct (G _ H) as (A1 & A2 & A3 & A4 & A5 & A6 & A7 & A8 & A9); auto.
      repeat split; auto. intros T0 [= <-] HT. rewrite A7. lia.
    + destruct (G _ H) as (A1 & A2 & A3 & A4 & A5 & A6 & A7 & A8 & A9); auto.
      repeat split; auto. intros T0 HT0; discriminate.
Qed.

Lemma io_read_timeout n tmo t t' :
  io_read n tmo t = (RTimeout, t') -> 0 < n ->
  exists T, tmo = Some T /\ pend t' = pend t /\ now t' = (now t + Z.max T 0)%Z /\
            accept t' = accept t /\ wr t' = wr t.
Proof.
  unfold io_read. intros H Hn. destruct n as [|n']; [lia|]. simpl in H.
  destruct (pend t) as [|[at_ dd] rest] eqn:Ep.
  - destruct tmo as [T|]; [|discriminate]. injection H as <-. exists T; simpl; repeat split; auto.
  - unfold deliver in H. destruct (at_ <=? now t)%Z; [discriminate|].
    destruct tmo as [T|]; [|discriminate].
    destruct (at_ <? now t + T)%Z; [discriminate|]. injection H as <-. exists T; simpl; repeat split; auto.
Qed.

Lemma io_read_blocked n tmo t t' :
  io_read n tmo t = (RBlocked, t') -> 0 < n ->
  tmo = None /\ pend t = [] /\ pend t' = [] /\ now t' = now t /\ accept t' = accept t /\ wr t' = wr t.
Proof.
  unfold io_read. intros H Hn. destruct n as [|n']; [lia|]. simpl in H.
  destruct (pend t) as [|[at_ dd] rest] eqn:Ep.
  - destruct tmo as [T|]; [discriminate|]. injection H as <-. simpl; repeat split; auto.
  - unfold deliver in H. destruct (at_ <=? now t)%Z; [discriminate|].
    destruct tmo as [T|]; [|discriminate].
    destruct (at_ <? now t + T)%Z; discriminate.
Qed.

(* with data pending and no timeout the transport always delivers *)
Lemma io_read_none_data n t :
  0 < n -> pend t <> [] -> exists d t', io_read n None t = (RData d, t').
Proof.
  intros Hn Hp. unfold io_read. destruct n as [|n']; [lia|]. simpl.
  destruct (pend t) as [|[at_ dd] rest]; [congruence|].
  unfold deliver. destruct (at_ <=? now t)%Z; eauto.
Qed.

(* ------------------------------------------------------------------ framing of write_stream / check *)
Lemma write_stream_frame buf c :
  io (write_stream buf c) = io c /\ prompt (write_stream buf c) = prompt c /\
  deaths (write_stream buf c) = deaths c /\ blacklist (write_stream buf c) = blacklist c /\
  slow (write_stream buf c) = slow c /\ ctx (write_stream buf c) = ctx c.
Proof.
  unfold write_stream. destruct (streams (lgs c)); [repeat split; reflexivity|].
  destruct (if log_prompt (lgs c) then None else prompt c); simpl; repeat split; reflexivity.
Qed.

Lemma check_frame buf c r c' :
  check buf c = (r, c') ->
  io c' = io c /\ prompt c' = prompt c /\ lgs c' = lgs c /\ blacklist c' = blacklist c /\
  slow c' = slow c /\ ctx c' = ctx c.
Proof.
  unfold check. destruct (deaths c) as [|e ds]; [intros [= <- <-]; repeat split; reflexivity|].
  destruct (check_chunks _ _) as [r0 ds']. intros [= <- <-]. simpl; repeat split; reflexivity.
Qed.

Lemma check_no_deaths buf c : deaths c = [] -> check buf c = (None, c).
Proof. unfold check. intros ->. reflexivity. Qed.

(* ------------------------------------------------------------------ one read_iter iteration *)
Definition same_cfg (c c' : chan) : Prop :=
  prompt c' = prompt c /\ blacklist c' = blacklist c /\ slow c' = slow c /\ ctx c' = ctx c /\
  accept (io c') = accept (io c) /\ wr (io c') = wr (io c).

Lemma same_cfg_refl c : same_cfg c c.
Proof. unfold same_cfg; repeat split; reflexivity. Qed.

Lemma same_cfg_trans a b c : same_cfg a b -> same_cfg b c -> same_cfg a c.
Proof. unfold same_cfg; intuition congruence. Qed.

Lemma iter_step_spec start tmo n c r c' :
  iter_step start tmo n c = (r, c') -> 0 < n -> wfc c ->
  same_cfg c c' /\ wfc c' /\ (now (io c) <= now (io c'))%Z /\
  match r with
  | SData new => new <> [] /\ length new <= n /\ cpend c = new ++ cpend c' /\
                 tot (pend (io c')) < tot (pend (io c))
  | SDeath _ _ => exists new, new <> [] /\ cpend c = new ++ cpend c' /\
                              tot (pend (io c')) < tot (pend (io c))
  | STimeout => pend (io c') = pend (io c) /\ tmo <> None
  | SBlocked => pend (io c') = [] /\ pend (io c) = [] /\ tmo = None
  end.
Proof.
  unfold iter_step. intros H Hn Hw.
  set (rem := match tmo with None => None | Some T => Some (T - (now (io c) - start))%Z end) in *.
  destruct (match rem with Some r0 => (r0 <=? 0)%Z | None => false end) eqn:Erem.
  { injection H as <- <-. repeat split; try apply same_cfg_refl; auto; try lia.
    destruct tmo; [congruence|]. simpl in Erem. discriminate. }
  destruct (io_read n rem (io c)) as [res io'] eqn:Eio.
  destruct res as [new| |].
  - destruct (io_read_data _ _ _ _ _ Eio Hn Hw) as (D1 & D2 & D3 & D4 & D5 & D6 & _ & D8 & D9).
    destruct (write_stream_frame new (with_io c io')) as (W1 & W2 & W3 & W4 & W5 & W6).
    destruct (check new (write_stream new (with_io c io'))) as [[[e mt]|] c2] eqn:Ec;
      destruct (check_frame _ _ _ _ Ec) as (C1 & C2 & C3 & C4 & C5 & C6);
      injection H as <- <-;
      (assert (Eio' : io c2 = io') by (rewrite C1, W1; reflexivity));
      (split; [unfold same_cfg; rewrite C2, C4, C5, C6, W2, W4, W5, W6, Eio'; simpl; repeat split; auto|]);
      (split; [unfold wfc; rewrite Eio'; assumption|]);
      (split; [rewrite Eio'; assumption|]);
      unfold cpend; rewrite Eio'.
    + exists new; auto.
    + auto.
  - destruct (io_read_timeout _ _ _ _ Eio Hn) as (T & E1 & E2 & E3 & E4 & E5).
    injection H as <- <-. simpl.
    split; [unfold same_cfg; simpl; repeat split; auto|].
    split; [unfold wfc; simpl; rewrite E2; assumption|].
    split; [rewrite E3; lia|].
    split; [assumption|]. subst rem. destruct tmo; congruence.
  - destruct (io_read_blocked _ _ _ _ Eio Hn) as (E1 & E2 & E3 & E4 & E5 & E6).
    injection H as <- <-. simpl.
    split; [unfold same_cfg; simpl; repeat split; auto|].
    split; [unfold wfc; simpl; rewrite E3; constructor|].
    split; [lia|].
    split; [assumption|]. split; [assumption|]. subst rem. destruct tmo; congruence.
Qed.

(* without a timeout and without death strings, an iteration with data pending yields data *)
Lemma iter_step_none_data start n c :
  0 < n -> wfc c -> pend (io c) <> [] -> deaths c = [] ->
  exists new c', iter_step start None n c = (SData new, c').
Proof.
  intros Hn Hw Hp Hd. unfold iter_step. simpl.
  destruct (io_read_none_data n (io c) Hn Hp) as (d & t' & E). rewrite E.
  destruct (write_stream_frame d (with_io c t')) as (_ & _ & W3 & _).
  rewrite check_no_deaths; [eauto|]. rewrite W3. exact Hd.
Qed.

Lemma iter_step_deaths_nil start tmo n c r c' :
  iter_step start tmo n c = (r, c') -> deaths c = [] -> deaths c' = [] /\ (forall e mt, r <> SDeath e mt).
Proof.
  unfold iter_step. intros H Hd.
  destruct (match _ with Some r0 => (r0 <=? 0)%Z | None => false end).
  { injection H as <- <-. split; [assumption | congruence]. }
  destruct (io_read _ _ _) as [res io']. destruct res.
  - destruct (write_stream_frame d (with_io c io')) as (_ & _ & W3 & _).
    rewrite check_no_deaths in H by (rewrite W3; exact Hd).
    injection H as <- <-. split; [rewrite W3; exact Hd | congruence].
  - injection H as <- <-. split; [exact Hd | congruence].
  - injection H as <- <-. split; [exact Hd | congruence].
Qed.

(* ------------------------------------------------------------------ time: the deadline invariant *)
(* while now <= start + T holds on entry it holds on exit; a timeout is raised exactly AT start + T *)
Lemma iter_step_time start T n c r c' :
  iter_step start (Some T) n c = (r, c') -> 0 < n ->
  (now (io c) <= start + T)%Z ->
  (now (io c') <= start + T)%Z /\
  (r = STimeout -> now (io c') = (start + T)%Z) /\
  (forall new, r = SData new -> (now (io c') < start + T)%Z) /\
  r <> SBlocked.
Proof.
  unfold iter_step. intros H Hn Hle.
  destruct (T - (now (io c) - start) <=? 0)%Z eqn:Erem.
  { apply Z.leb_le in Erem. injection H as <- <-.
    repeat split; try lia; try congruence. }
  apply Z.leb_gt in Erem.
  destruct (io_read n (Some (T - (now (io c) - start))%Z) (io c)) as [res io'] eqn:Eio.
  destruct res as [new| |].
  - assert (Hnow : (now io' < now (io c) + (T - (now (io c) - start)))%Z).
    { unfold io_read in Eio. destruct n as [|n']; [lia|]. simpl in Eio.
      destruct (pend (io c)) as [|[at_ dd] rest]; [discriminate|].
      unfold deliver in Eio.
      destruct (at_ <=? now (io c))%Z eqn:Eat.
      - injection Eio as _ <-. simpl. apply Z.leb_le in Eat. lia.
      - destruct (at_ <? now (io c) + (T - (now (io c) - start)))%Z eqn:El; [|discriminate].
        injection Eio as _ <-. simpl. apply Z.ltb_lt in El. apply Z.leb_gt in Eat. lia. }
    destruct (write_stream_frame new (with_io c io')) as (W1 & _).
    destruct (check new (write_stream new (with_io c io'))) as [[[e mt]|] c2] eqn:Ec;
      destruct (check_frame _ _ _ _ Ec) as (C1 & _); injection H as <- <-;
      rewrite C1, W1; simpl; repeat split; try lia; try congruence.
    all: intros; lia.
  - destruct (io_read_timeout _ _ _ _ Eio Hn) as (T0 & E1 & E2 & E3 & _).
    injection E1 as <-. injection H as <- <-. simpl. rewrite E3.
    repeat split; try lia; try congruence.
  - destruct (io_read_blocked _ _ _ _ Eio Hn) as (E1 & _). discriminate.
Qed.

Lemma iter_step_none_no_timeout start n c r c' :
  iter_step start None n c = (r, c') -> 0 < n -> r <> STimeout.
Proof.
  unfold iter_step. simpl. intros H Hn.
  destruct (io_read n None (io c)) as [res io'] eqn:Eio. destruct res.
  - destruct (check _ _) as [[[e mt]|] c2]; injection H as <- <-; congruence.
  - destruct (io_read_timeout _ _ _ _ Eio Hn) as (T0 & E1 & _). discriminate.
  - injection H as <- <-. congruence.
Qed.

(* ------------------------------------------------------------------ one-step unfoldings of the loops *)
Lemma read_iter_loop_step f start tmo mx got acc c :
  read_iter_loop (S f) start tmo mx got acc c =
  match iter_step start tmo (maxread_of mx got) c with
  | (STimeout, c') => (rev acc, ETimeout, c')
  | (SBlocked, c') => (rev acc, EBlocked, c')
  | (SDeath e mt, c') => (rev acc, EDeath e mt, c')
  | (SData new, c') =>
      if match mx with Some m0 => Nat.eqb (got + length new) m0 | None => false end
      then (rev (new :: acc), Ret tt, c')
      else read_iter_loop f start tmo mx (got + length new) (new :: acc) c'
  end.
Proof. reflexivity. Qed.

Lemma expect_loop_step f start tmo pats buf c :
  expect_loop (S f) start tmo pats buf c =
  match iter_step start tmo READ_CHUNK_SIZE c with
  | (STimeout, c') => (ETimeout, c')
  | (SBlocked, c') => (EBlocked, c')
  | (SDeath e mt, c') => (EDeath e mt, c')
  | (SData new, c') =>
      match try_patterns 0 pats (buf ++ new) with
      | Some r => (Ret r, c')
      | None => expect_loop f start tmo pats (buf ++ new) c'
      end
  end.
Proof. reflexivity. Qed.

Lemma rut_loop_step f start tmo buf c :
  rut_loop (S f) start tmo buf c =
  match iter_step start tmo READ_CHUNK_SIZE c with
  | (STimeout, c') => (Ret (text buf), c')
  | (SBlocked, c') => (EBlocked, c')
  | (SDeath e mt, c') => (EDeath e mt, c')
  | (SData new, c') => rut_loop f start tmo (buf ++ new) c'
  end.
Proof. reflexivity. Qed.

Lemma readline_loop_step f start tmo le line c :
  readline_loop (S f) start tmo le line c =
  match read 1 (match tmo with None => None | Some T => Some (T - (now (io c) - start))%Z end) c with
  | (Ret b, c') =>
      if is_suffix le (line ++ b) then (Ret (text (line ++ b)), c')
      else readline_loop f start tmo le (line ++ b) c'
  | (e, c') => (lift_err e, c')
  end.
Proof. reflexivity. Qed.

Lemma chunk_pos : 0 < READ_CHUNK_SIZE.
Proof. apply Nat.ltb_lt. vm_compute. reflexivity. Qed.

(* the transport never returns more than requested (no well-formedness needed) *)
Lemma io_read_len n tmo t d t' : io_read n tmo t = (RData d, t') -> length d <= n.
Proof.
  unfold io_read. destruct n as [|n'].
  - intros [= <- _]. simpl. lia.
  - cbv zeta. destruct (pend (log_read (S n') tmo t)) as [|[at_ dd] rest].
    + destruct tmo; discriminate.
    + unfold deliver. destruct (at_ <=? _)%Z.
      * intros [= <- _]. exact (firstn_le_length (S n') dd).
      * destruct tmo as [T|].
        -- destruct (at_ <? _)%Z; [|discriminate]. intros [= <- _]. exact (firstn_le_length (S n') dd).
        -- intros [= <- _]. exact (firstn_le_length (S n') dd).
Qed.

Lemma iter_step_len start tmo n c new c' :
  iter_step start tmo n c = (SData new, c') -> length new <= n.
Proof.
  unfold iter_step.
  destruct (match match tmo with Some T => Some (T - (now (io c) - start))%Z | None => None end with
            | Some r0 => (r0 <=? 0)%Z | None => false end); [discriminate|].
  destruct (io_read _ _ (io c)) as [res io'] eqn:Eio. destruct res as [d| |]; try discriminate.
  destruct (check d _) as [[[e mt]|] c2]; [discriminate|].
  intros [= <- _]. eapply io_read_len; eauto.
Qed.
