(* Context.v -- executable model of tbot.Context / InstanceManager (context.py) over a table of machine
   classes whose from_context() requests at most one prerequisite role (lab-host <- board <- u-boot <- linux
   style), with a fault oracle for machine initialisation and machine teardown.
   Hand-written from context.py, board.py:from_context, linux.py:from_context, connector/common.py;
   tied to the code by props/C14.py (instrumented dummy machine classes in a real tbot.Context). *)
From TV Require Import Base.

(* exceptions *)
Inductive cexn : Type :=
| XBody                 (* an ordinary exception raised by a request body *)
| XSkip                 (* pytest.skip() *)
| XFault (n : nat)      (* raised by a machine's init / teardown (oracle check point n) *)
| XCtx                  (* tbot.error.ContextError *)
| XFuel.

Definition exn := option cexn.

Inductive cevent : Type :=
| CInit (c i : nat)         (* machine of class c, instance i initialised *)
| CTeardown (c i : nat)     (* its teardown ran *)
| CYield (c i : nat)        (* a request handed instance i to its body *)
| CBodyEv (n : nat)
| CLeft (c : nat)             (* a request on class c has been left completely *)
| CCtxExit.                  (* the body of a `with ctx:` block is over, Context.__exit__ starts *)

(* the suspended ctx.request(dep) generator inside a machine's from_context: flags it captured *)
Record hold : Type := mkHold { h_dep : nat; h_excl : bool; h_ka : bool; h_roe : bool }.

Record mgr : Type := mkMgr {
  m_inst : option nat;
  m_users : nat;
  m_avail : bool;
  m_hold : option hold
}.

Record cstate : Type := mkC {
  mgrs : list mgr;               (* one InstanceManager per class *)
  ka : bool;                     (* Context._keep_alive *)
  roe_def : bool;                (* Context._reset_on_error_default *)
  opn : nat;                     (* Context._open_contexts *)
  order : list nat;              (* Context._teardown_order (first-request order) *)
  nxt : nat;                     (* next fresh instance id *)
  cfl : list bool;               (* fault oracle *)
  cn : nat;                      (* check points passed *)
  ctr : list cevent              (* trace, newest first *)
}.

Definition mgr0 : mgr := mkMgr None 0 false None.

(* class table: dependency requested by from_context: (class, exclusive) *)
Definition ctable := list (option (nat * bool)).
Definition dep_of (tb : ctable) (c : nat) : option (nat * bool) := nth c tb None.

Definition getm (s : cstate) (c : nat) : mgr := nth c (mgrs s) mgr0.
Fixpoint set_nth {A} (n : nat) (x : A) (l : list A) : list A :=
  match l, n with
  | [], _ => []
  | _ :: l', O => x :: l'
  | y :: l', S n' => y :: set_nth n' x l'
  end.
Definition setm (s : cstate) (c : nat) (m : mgr) : cstate :=
  mkC (set_nth c m (mgrs s)) (ka s) (roe_def s) (opn s) (order s) (nxt s) (cfl s) (cn s) (ctr s).
Definition cev (e : cevent) (s : cstate) : cstate :=
  mkC (mgrs s) (ka s) (roe_def s) (opn s) (order s) (nxt s) (cfl s) (cn s) (e :: ctr s).
Definition cchk (s : cstate) : bool * cstate :=
  (match cfl s with b :: _ => b | [] => false end,
   mkC (mgrs s) (ka s) (roe_def s) (opn s) (order s) (nxt s) (tl (cfl s)) (S (cn s)) (ctr s)).

Definition alive (s : cstate) (c : nat) : bool :=
  match m_inst (getm s c) with Some _ => true | None => false end.

(* what a successfully entered request remembers until it is left *)
Record entered : Type := mkEnt { e_cls : nat; e_inst : nat; e_excl : bool; e_ka : bool; e_roe : bool }.

Section Sem.
Variable tb : ctable.

(* teardown / leaving a request / entering a request are mutually recursive through the dependency
   chain; d bounds the recursion depth (number of classes + 1 is always enough) *)
Fixpoint teardown (d : nat) (c : nat) (s : cstate) : exn * cstate :=
  match d with
  | O => (Some XFuel, s)
  | S d' =>
      let m := getm s c in
      match m_inst m with
      | None => (Some XCtx, s)
      | Some i =>
          (* InstanceManager.teardown: _cx.close() unwinds the from_context generator:
             first the machine itself, then the request it holds on its prerequisite;
             finally (fix D7) _instance = None whatever happened *)
          let s1 := cev (CTeardown c i) s in
          let (f, s2) := cchk s1 in
          let pend := if f then Some (XFault (cn s1)) else None in
          let s3 := setm s2 c (mkMgr None (m_users (getm s2 c)) (m_avail (getm s2 c)) None) in
          match m_hold m with
          | None => (pend, s3)
          | Some h => leave d' (mkEnt (h_dep h) 0 (h_excl h) (h_ka h) (h_roe h)) pend s3
          end
      end
  end

(* the part of Context.request after the body: the `except BaseException` clause and the finally of
   InstanceManager.request; pend is the exception the body was left with *)
with leave (d : nat) (e : entered) (pend : exn) (s : cstate) : exn * cstate :=
  match d with
  | O => (Some XFuel, s)
  | S d' =>
      let c := e_cls e in
      (* except BaseException: reset_on_error *)
      let '(pend1, s1) :=
        match pend with
        | Some x =>
            if e_roe e && negb (match x with XSkip => true | _ => false end) && alive s c then
              match teardown d' c s with
              | (Some x', s') => (Some x', s')        (* raised inside the except clause: replaces *)
              | (None, s') => (pend, s')
              end
            else (pend, s)
        | None => (None, s)
        end in
      (* finally: *)
      let m := getm s1 c in
      let users' := Nat.pred (m_users m) in
      let s2 := setm s1 c (mkMgr (m_inst m) users' (m_avail m) (m_hold m)) in
      if (e_excl e || (negb (e_ka e) && Nat.eqb users' 0)) && alive s2 c then
        match teardown d' c s2 with
        | (Some x', s') => (Some x', s')
        | (None, s') => (pend1, s')
        end
      else (pend1, s2)
  end.

(* InstanceManager.request + the _teardown_order bookkeeping of Context.request, up to the yield *)
Definition req_block (top : bool) (c : nat) (excl roe' : bool) (s1 : cstate) : (cexn + entered) * cstate :=
  let m := getm s1 c in
  match m_inst m with
  | None => (inl XCtx, s1)
  | Some i =>
      if negb (m_avail m) then (inl XCtx, s1)
      else
        let s2 := setm s1 c (mkMgr (m_inst m) (S (m_users m)) (if excl then false else m_avail m) (m_hold m)) in
        let s3 := if existsb (Nat.eqb c) (order s2) then s2
                  else mkC (mgrs s2) (ka s2) (roe_def s2) (opn s2) (order s2 ++ [c]) (nxt s2) (cfl s2) (cn s2) (ctr s2) in
        (inr (mkEnt c i excl (ka s1) roe'), if top then cev (CYield c i) s3 else s3)
  end.

(* a machine has just been initialised: event, fresh instance id, the manager records it together with
   the request its from_context holds on the prerequisite *)
Definition birth (c : nat) (hd : option hold) (s2 : cstate) : cstate :=
  let i := nxt s2 in
  let s3 := cev (CInit c i)
              (mkC (mgrs s2) (ka s2) (roe_def s2) (opn s2) (order s2) (S i) (cfl s2) (cn s2) (ctr s2)) in
  setm s3 c (mkMgr (Some i) (m_users (getm s3 c)) (m_avail (getm s3 c)) hd).

(* Context.request up to the yield *)
Fixpoint enter (d : nat) (top : bool) (c : nat) (reset excl : bool) (roe : option bool) (s : cstate)
  : (cexn + entered) * cstate :=
  match d with
  | O => (inl XFuel, s)
  | S d' =>
      let roe' := match roe with Some b => b | None => roe_def s end in
      if ka s && Nat.eqb (opn s) 0 then (inl XCtx, s)
      else
        (* reset: tear a live instance down first *)
        let '(r0, s0) :=
          if alive s c && reset then teardown (S d') c s else (None, s) in
        match r0 with
        | Some x => (inl x, s0)
        | None =>
            (* init if not alive *)
            let '(r1, s1) :=
              if alive s0 c then (None, s0)
              else
                (* InstanceManager.init: _available = True, then enter from_context *)
                let sa := setm s0 c (mkMgr (m_inst (getm s0 c)) (m_users (getm s0 c)) true (m_hold (getm s0 c))) in
                let '(rd, sd, hd) :=
                  match dep_of tb c with
                  | None => (None, sa, None)
                  | Some (dc, dexcl) =>
                      match enter d' false dc false dexcl None sa with
                      | (inl x, s') => (Some x, s', None)
                      | (inr en, s') => (None, s', Some (mkHold dc (e_excl en) (e_ka en) (e_roe en)))
                      end
                  end in
                match rd with
                | Some x => (Some x, sd)
                | None =>
                    (* the machine's own __enter__ *)
                    let (f, s2) := cchk sd in
                    if f then
                      (* from_context's ExitStack releases the prerequisite again *)
                      match hd with
                      | None => (Some (XFault (cn sd)), s2)
                      | Some h =>
                          match leave (S d') (mkEnt (h_dep h) 0 (h_excl h) (h_ka h) (h_roe h))
                                      (Some (XFault (cn sd))) s2 with
                          | (Some x, s') => (Some x, s')
                          | (None, s') => (Some (XFault (cn sd)), s')
                          end
                      end
                    else (None, birth c hd s2)
                end in
            match r1 with
            | Some x => (inl x, s1)
            | None => req_block top c excl roe' s1
            end
        end
  end.

(* tear down, in reverse first-request order, every live instance satisfying `sel`; an error does not
   stop the loop (fix D7); the last error is raised at the end *)
Fixpoint teardown_all (d : nat) (sel : cstate -> nat -> bool) (cls : list nat) (pend : exn) (s : cstate)
  : exn * cstate :=
  match cls with
  | [] => (pend, s)
  | c :: rest =>
      if alive s c && sel s c then
        match teardown d c s with
        | (Some x, s') => teardown_all d sel rest (Some x) s'
        | (None, s') => teardown_all d sel rest pend s'
        end
      else teardown_all d sel rest pend s
  end.

Inductive cprog : Type :=
| CSkip
| CBody (n : nat)
| CSeq (a b : cprog)
| CRaise (skip : bool)
| CTry (body : cprog)
| CRequest (c : nat) (reset excl : bool) (roe : option bool) (body : cprog)
| CReconf (nka nroe : option bool) (body : cprog)
| CTeardownIfAlive (c : nat)
| CWithCtx (body : cprog).

Definition set_flags (s : cstate) (k r : bool) : cstate :=
  mkC (mgrs s) k r (opn s) (order s) (nxt s) (cfl s) (cn s) (ctr s).
Definition set_opn (s : cstate) (n : nat) : cstate :=
  mkC (mgrs s) (ka s) (roe_def s) n (order s) (nxt s) (cfl s) (cn s) (ctr s).

Fixpoint crun (d : nat) (p : cprog) (s : cstate) : exn * cstate :=
  match p with
  | CSkip => (None, s)
  | CBody n => (None, cev (CBodyEv n) s)
  | CSeq a b =>
      match crun d a s with
      | (Some x, s1) => (Some x, s1)
      | (None, s1) => crun d b s1
      end
  | CRaise sk => (Some (if sk then XSkip else XBody), s)
  | CTry body => let (_, s1) := crun d body s in (None, s1)
  | CRequest c reset excl roe body =>
      match enter d true c reset excl roe s with
      | (inl x, s1) => (Some x, s1)
      | (inr en, s1) =>
          let (r, s2) := crun d body s1 in
          let (r3, s3) := leave d en r s2 in
          (r3, cev (CLeft c) s3)
      end
  | CReconf nka nroe body =>
      let k0 := ka s in let r0 := roe_def s in
      let s1 := set_flags s (match nka with Some b => b | None => k0 end)
                            (match nroe with Some b => b | None => r0 end) in
      let (r, s2) := crun d body s1 in
      let s3 := set_flags s2 k0 r0 in
      if negb k0 && (match nka with Some true => true | _ => false end) then
        teardown_all d (fun st c => Nat.eqb (m_users (getm st c)) 0) (rev (order s3)) r s3
      else (r, s3)
  | CTeardownIfAlive c =>
      if alive s c then teardown d c s else (None, s)
  | CWithCtx body =>
      let s1 := set_opn s (S (opn s)) in
      let (r, s2') := crun d body s1 in
      let s2 := cev CCtxExit s2' in
      let '(r3, s3) :=
        if Nat.eqb (opn s2) 1 && ka s2 then teardown_all d (fun _ _ => true) (rev (order s2)) r s2
        else (r, s2) in
      (r3, set_opn s3 (Nat.pred (opn s3)))
  end.

End Sem.

Definition cstate0 (ncls : nat) (k r : bool) (fl : list bool) : cstate :=
  mkC (repeat mgr0 ncls) k r 0 [] 0 fl 0 [].

(* ---- observation ---- *)
Definition V_cexn (x : cexn) : V :=
  match x with
  | XBody => VL [VN 1] | XSkip => VL [VN 2] | XFault n => VL [VN 3; VNat n] | XCtx => VL [VN 4] | XFuel => VL [VN 99]
  end.
Definition V_cevent (e : cevent) : V :=
  match e with
  | CInit c i => VL [VN 1; VNat c; VNat i]
  | CTeardown c i => VL [VN 2; VNat c; VNat i]
  | CYield c i => VL [VN 3; VNat c; VNat i]
  | CBodyEv n => VL [VN 4; VNat n]
  | CLeft c => VL [VN 5; VNat c]
  | CCtxExit => VL [VN 6]
  end.

Definition ctx_model (case : ctable * (bool * bool) * cprog * list bool) : V :=
  match case with
  | (tb, (k, r), p, fl) =>
      let d := 3 * length tb + 4 in
      let (res, s) := crun tb d p (cstate0 (length tb) k r fl) in
      VL [VL (map V_cevent (rev (ctr s))); VOpt V_cexn res;
          VL (map (fun m => VBool (match m_inst m with Some _ => true | None => false end)) (mgrs s))]
  end.
