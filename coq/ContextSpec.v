(* ContextSpec.v -- an executable REFERENCE model of tbot's Context, written from the documentation
   (docstrings of Context.request / Context.__init__ / reconfigure / teardown_if_alive and
   Documentation/context.rst), deliberately in other terms than the implementation: requests are
   first-class "holders" (a list per machine), an exclusive request puts a lock on the instance.
   No machine faults here: C15 quantifies over bodies that complete, raise, or raise a skip.

   Rules (D = documented, U = the documentation is silent; the observed behaviour is specified):
   D1  a request for a machine that is live and not exclusively held is handed the SAME instance, nothing is
       (re)initialised; the requester becomes one more holder.
   D2  a request for a machine that is not live creates it: its prerequisites are requested first
       (from_context), then the machine is initialised.
   D3  reset=True: a live instance is torn down and a fresh one initialised (earlier holders lose access).
   D4  exclusive=True: while the request is active every other request (without reset) fails with
       ContextError and leaves the instance alone; when the request ends the instance is torn down, also
       under keep_alive.
   D5  when the last holder leaves and keep_alive is off the instance is torn down; under keep_alive it stays.
   D6  a body left by an exception with reset_on_error in effect (explicitly or by the context default),
       pytest.skip excepted: the instance is torn down before the same exception propagates.
   D7  tearing a machine down ends the requests it holds on its prerequisites (normally).
   D8  keep_alive needs an entered context (ContextError otherwise); leaving the outermost context tears
       down, in reverse first-request order, whatever is still alive.
   D9  reconfigure restores the flags; if it had switched keep_alive on, instances without holders are torn
       down (reverse first-request order) on leaving.
   D10 teardown_if_alive tears a live instance down.
   U1  earlier holders of an instance that was reset stay holders of the MACHINE: when they leave they count
       like any other holder (and may thereby tear down the fresh instance).
   U2  an exclusive request is granted although shared holders exist; the lock is per instance: a fresh
       instance (after a reset or a teardown) is unlocked again.
   U3  a prerequisite request made by from_context captures keep_alive / reset_on_error at creation time. *)
From TV Require Import Base Context.

Record sreq : Type := mkReq { q_cls : nat; q_excl : bool; q_ka : bool; q_roe : bool }.

Record smach : Type := mkSM {
  sm_live : option nat;              (* the live instance *)
  sm_holders : nat;                  (* number of active requests for this machine (incl. from_context's) *)
  sm_locked : bool;                  (* an exclusive request was granted on the current instance *)
  sm_built : option sreq             (* the request the live instance holds on its prerequisite *)
}.

Record sstate : Type := mkS {
  machs : list smach;
  s_ka : bool; s_roe : bool; s_open : nat;
  s_order : list nat;
  s_next : nat;
  s_tr : list cevent
}.

Definition sm0 : smach := mkSM None 0 false None.
Definition sget (s : sstate) (c : nat) : smach := nth c (machs s) sm0.
Definition sset (s : sstate) (c : nat) (m : smach) : sstate :=
  mkS (set_nth c m (machs s)) (s_ka s) (s_roe s) (s_open s) (s_order s) (s_next s) (s_tr s).
Definition sev (e : cevent) (s : sstate) : sstate :=
  mkS (machs s) (s_ka s) (s_roe s) (s_open s) (s_order s) (s_next s) (e :: s_tr s).
Definition slive (s : sstate) (c : nat) : bool :=
  match sm_live (sget s c) with Some _ => true | None => false end.

Section Spec.
Variable tb : ctable.

(* D7 + D4/D5/D6 for the prerequisite request: mutual recursion along the dependency chain *)
Fixpoint s_teardown (d : nat) (c : nat) (s : sstate) : sstate :=
  match d with
  | O => s
  | S d' =>
      match sm_live (sget s c) with
      | None => s
      | Some i =>
          let m := sget s c in
          let s1 := sev (CTeardown c i) s in
          let s2 := sset s1 c (mkSM None (sm_holders m) (sm_locked m) None) in
          match sm_built m with
          | None => s2
          | Some q => s_release d' q false false s2       (* D7: the prerequisite request ends normally *)
          end
      end
  end
(* a request ends; err = it ends by an exception, skip = that exception is pytest.skip *)
with s_release (d : nat) (q : sreq) (err skip : bool) (s : sstate) : sstate :=
  match d with
  | O => s
  | S d' =>
      let c := q_cls q in
      (* D6 *)
      let s1 := if err && q_roe q && negb skip && slive s c then s_teardown d' c s else s in
      (* the holder leaves *)
      let m := sget s1 c in
      let s2 := sset s1 c (mkSM (sm_live m) (Nat.pred (sm_holders m)) (sm_locked m) (sm_built m)) in
      (* D4 / D5 *)
      if (q_excl q || (negb (q_ka q) && Nat.eqb (Nat.pred (sm_holders m)) 0)) && slive s2 c
      then s_teardown d' c s2 else s2
  end.

(* D1..D4, D8: result = the granted request, or ContextError *)
Fixpoint s_acquire (d : nat) (top : bool) (c : nat) (reset excl : bool) (roe : option bool) (s : sstate)
  : option (sreq * nat) * sstate :=
  match d with
  | O => (None, s)
  | S d' =>
      if s_ka s && Nat.eqb (s_open s) 0 then (None, s)                               (* D8 *)
      else
        let s0 := if slive s c && reset then s_teardown (S d') c s else s in          (* D3 *)
        (* D2: create *)
        let '(ok, s1) :=
          if slive s0 c then (true, s0)
          else
            let sa := sset s0 c (mkSM None (sm_holders (sget s0 c)) false None) in    (* U2: fresh instance, no lock *)
            match dep_of tb c with
            | None =>
                let i := s_next sa in
                let sb := sev (CInit c i) (mkS (machs sa) (s_ka sa) (s_roe sa) (s_open sa) (s_order sa) (S i) (s_tr sa)) in
                (true, sset sb c (mkSM (Some i) (sm_holders (sget sb c)) false None))
            | Some (dc, dexcl) =>
                match s_acquire d' false dc false dexcl None sa with
                | (None, s') => (false, s')
                | (Some (q, _), s') =>
                    let i := s_next s' in
                    let sb := sev (CInit c i) (mkS (machs s') (s_ka s') (s_roe s') (s_open s') (s_order s') (S i) (s_tr s')) in
                    (true, sset sb c (mkSM (Some i) (sm_holders (sget sb c)) false (Some q)))
                end
            end in
        if negb ok then (None, s1)
        else
          let m := sget s1 c in
          match sm_live m with
          | None => (None, s1)
          | Some i =>
              if sm_locked m then (None, s1)                                            (* D4 *)
              else
                let s2 := sset s1 c (mkSM (sm_live m) (S (sm_holders m)) (excl || sm_locked m) (sm_built m)) in
                let s3 := if existsb (Nat.eqb c) (s_order s2) then s2
                          else mkS (machs s2) (s_ka s2) (s_roe s2) (s_open s2) (s_order s2 ++ [c]) (s_next s2) (s_tr s2) in
                let roe' := match roe with Some b => b | None => s_roe s end in
                (Some (mkReq c excl (s_ka s1) roe', i), if top then sev (CYield c i) s3 else s3)   (* D1 *)
          end
  end.

Fixpoint s_teardown_all (d : nat) (only_idle : bool) (cls : list nat) (s : sstate) : sstate :=
  match cls with
  | [] => s
  | c :: rest =>
      if slive s c && (negb only_idle || Nat.eqb (sm_holders (sget s c)) 0)
      then s_teardown_all d only_idle rest (s_teardown d c s)
      else s_teardown_all d only_idle rest s
  end.

(* outcome: None = completed, Some true = pytest.skip propagates, Some false = an ordinary exception
   (a body's or a ContextError: kind kept separately) *)
Inductive sout : Type := SOk | SBodyErr | SSkipErr | SCtxErr.

Definition s_flags (s : sstate) (k r : bool) : sstate :=
  mkS (machs s) k r (s_open s) (s_order s) (s_next s) (s_tr s).
Definition s_setopen (s : sstate) (n : nat) : sstate :=
  mkS (machs s) (s_ka s) (s_roe s) n (s_order s) (s_next s) (s_tr s).

Fixpoint srun (d : nat) (p : cprog) (s : sstate) : sout * sstate :=
  match p with
  | CSkip => (SOk, s)
  | CBody n => (SOk, sev (CBodyEv n) s)
  | CSeq a b => match srun d a s with
                | (SOk, s1) => srun d b s1
                | (e, s1) => (e, s1)
                end
  | CRaise sk => (if sk then SSkipErr else SBodyErr, s)
  | CTry body => let (_, s1) := srun d body s in (SOk, s1)
  | CRequest c reset excl roe body =>
      match s_acquire d true c reset excl roe s with
      | (None, s1) => (SCtxErr, s1)
      | (Some (q, _), s1) =>
          let (r, s2) := srun d body s1 in
          let err := match r with SOk => false | _ => true end in
          let skip := match r with SSkipErr => true | _ => false end in
          (r, sev (CLeft c) (s_release d q err skip s2))
      end
  | CReconf nka nroe body =>
      let k0 := s_ka s in let r0 := s_roe s in
      let s1 := s_flags s (match nka with Some b => b | None => k0 end) (match nroe with Some b => b | None => r0 end) in
      let (r, s2) := srun d body s1 in
      let s3 := s_flags s2 k0 r0 in
      (r, if negb k0 && (match nka with Some true => true | _ => false end)
          then s_teardown_all d true (rev (s_order s3)) s3 else s3)               (* D9 *)
  | CTeardownIfAlive c => (SOk, s_teardown d c s)                                  (* D10 *)
  | CWithCtx body =>
      let s1 := s_setopen s (S (s_open s)) in
      let (r, s2') := srun d body s1 in
      let s2 := sev CCtxExit s2' in
      let s3 := if Nat.eqb (s_open s2) 1 && s_ka s2 then s_teardown_all d false (rev (s_order s2)) s2 else s2 in
      (r, s_setopen s3 (Nat.pred (s_open s3)))                                      (* D8 *)
  end.
End Spec.

Definition sstate0 (ncls : nat) (k r : bool) : sstate := mkS (repeat sm0 ncls) k r 0 [] 0 [].

Definition V_sout (o : sout) : V :=
  match o with
  | SOk => VL [] | SBodyErr => VL [VL [VN 1]] | SSkipErr => VL [VL [VN 2]] | SCtxErr => VL [VL [VN 4]]
  end.

Definition spec_model (case : ctable * (bool * bool) * cprog * list bool) : V :=
  match case with
  | (tb, (k, r), p, _) =>
      let d := 3 * length tb + 4 in
      let (res, s) := srun tb d p (sstate0 (length tb) k r) in
      VL [VL (map V_cevent (rev (s_tr s))); V_sout res;
          VL (map (fun m => VBool (match sm_live m with Some _ => true | None => false end)) (machs s))]
  end.
