(* Hush.v -- tbot.machine.board.uboot._hush_quote and a model of what U-Boot's classic hush parser
   (common/cli_hush.c: parse_stream, b_addqchr, done_word) makes of one command line.
   _hush_quote is tied to /repo by correspondence (props/C19.py).  The hush model is an ENVIRONMENT model
   transcribed from cli_hush.c: there is no U-Boot in the sandbox to validate it against.
   Symbols are N: bytes for hush, code points for _hush_quote (lemma quote_utf8 connects the two). *)
From TV Require Import Base Utf8.

(* ------------------------------------------------------------------ _hush_quote *)
(* re.compile(r"[^\w@%+=:,./-]", re.ASCII) finds nothing *)
Definition is_safe (c : N) : bool :=
  (((48 <=? c) && (c <=? 57)) || ((65 <=? c) && (c <=? 90)) || ((97 <=? c) && (c <=? 122)))%N
  || mem_N c [95; 64; 37; 43; 61; 58; 44; 46; 47; 45]%N.

(* s.replace("\\", "\\\\").replace("'", "'\\''"), character by character *)
Definition esc_char (c : N) : list N :=
  if (c =? 92)%N then [92; 92]%N else if (c =? 39)%N then [39; 92; 39; 39]%N else [c].

Definition hush_quote (s : list N) : list N :=
  match s with
  | [] => [34; 34]%N
  | _ => if forallb is_safe s then s else [39%N] ++ flat_map esc_char s ++ [39%N]
  end.

Fixpoint join_sp (ws : list (list N)) : list N :=
  match ws with
  | [] => []
  | [w] => w
  | w :: ws' => w ++ [32%N] ++ join_sp ws'
  end.

(* UBootShell.escape for str arguments *)
Definition ub_escape (args : list (list N)) : list N := join_sp (map hush_quote args).

(* ------------------------------------------------------------------ hush *)
(* done_word copies the word dropping every backslash and keeping the byte after it *)
Fixpoint strip (s : list N) : list N :=
  match s with
  | [] => []
  | c :: r =>
      if (c =? 92)%N then match r with [] => [] | d :: r' => d :: strip r' end
      else c :: strip r
  end.

Definition done_word (cur : list N) (nonnull : bool) (acc : list (list N)) : list (list N) :=
  match cur, nonnull with
  | [], false => acc                (* a true null word is ignored *)
  | _, _ => acc ++ [strip cur]
  end.

(* b_addqchr: inside double quotes the glob characters and the backslash get a backslash *)
Definition addq (c : N) (dq : bool) : list N :=
  if dq && mem_N c [42; 63; 91; 92]%N then [92%N; c] else [c].

Definition is_ifs (c : N) : bool := mem_N c [32; 9; 10]%N.

(* parse_stream for one simple command.  None = anything else happens: a syntax error, a variable
   expansion ($), a command separator (; & |), a comment (# at the start of a word), an open quote. *)
Fixpoint hparse (inp : list N) (sq dq : bool) (cur : list N) (nn : bool) (acc : list (list N))
  : option (list (list N)) :=
  match inp with
  | [] => if sq || dq then None else Some (done_word cur nn acc)
  | c :: r =>
      if sq then
        if (c =? 39)%N then hparse r false dq cur nn acc else hparse r true dq (cur ++ [c]) nn acc
      else if (c =? 92)%N then
        match r with
        | [] => None
        | d :: r' => hparse r' false dq (cur ++ addq 92 dq ++ addq d dq) nn acc
        end
      else if (c =? 36)%N then None
      else if (c =? 39)%N then hparse r true dq cur true acc
      else if (c =? 34)%N then hparse r false (negb dq) cur true acc
      else if dq then hparse r false true (cur ++ addq c true) nn acc
      else if is_ifs c then hparse r false false [] false (done_word cur nn acc)
      else if (c =? 35)%N then
        match cur with [] => None | _ => hparse r false false (cur ++ [c]) nn acc end
      else if (c =? 59)%N || (c =? 38)%N || (c =? 124)%N then None
      else hparse r false false (cur ++ [c]) nn acc
  end.

(* bytes the console's line editor or the parser's variable markers give a meaning of their own: the line ends
   at CR / LF; 0x03 and 0x04 are hush's SPECIAL_VAR_SYMBOL / SUBSTED_VAR_SYMBOL *)
Definition line_special (c : N) : bool := mem_N c [10; 13; 3; 4]%N.

Definition hush_words (line : list N) : option (list (list N)) :=
  if existsb line_special line then None else hparse line false false [] false [].

(* ------------------------------------------------------------------ observation for the correspondence *)
Definition quote_model (case : list (list N)) : V :=
  VL [VB (ub_escape case); VOpt (fun ws => VL (map VB ws)) (hush_words (utf8_enc (ub_escape case)))].

Definition hush_model (line : list N) : V := VOpt (fun ws => VL (map VB ws)) (hush_words line).
