(* LogEvent.v -- model of tbot.log.EventIO (write / _print_stdout / close) and of generators/logparser.logfile.
   Hand-written from tbot/log.py and generators/logparser.py; tied to the code by props/C17.py.
   Text is a list of code points. *)
From TV Require Import Base.

(* ------------------------------------------------------------------ str.replace *)
Fixpoint replace_fuel (fuel : nat) (pat rep s : list N) : list N :=
  match fuel with
  | O => s
  | S f =>
      match s with
      | [] => []
      | c :: s' =>
          if is_prefix pat s then rep ++ replace_fuel f pat rep (skipn (length pat) s)
          else c :: replace_fuel f pat rep s'
      end
  end.
(* s.replace(pat, rep) for a non-empty pattern *)
Definition replace_all (pat rep s : list N) : list N := replace_fuel (S (length s)) pat rep s.

Definition ESC : N := 27.
(* the chain of EventIO.write: terminal-control sequences are dropped, CRLF / LFCR become LF *)
Definition sanitize (s : list N) : list N :=
  let s1 := replace_all [ESC; 91; 72]%N [] s in                                (* ESC [ H *)
  let s2 := replace_all [ESC; 91; 57; 57; 57; 59; 57; 57; 57; 72]%N [] s1 in   (* ESC [ 999;999 H *)
  let s3 := replace_all [ESC; 91; 54; 110]%N [] s2 in                          (* ESC [ 6n *)
  let s4 := replace_all [ESC; 91; 50; 74]%N [] s3 in                           (* ESC [ 2J *)
  let s5 := replace_all [ESC; 91; 114]%N [] s4 in                              (* ESC [ r *)
  let s6 := replace_all [ESC; 91; 117]%N [] s5 in                              (* ESC [ u *)
  let s7 := replace_all [ESC; 55]%N [] s6 in                                   (* ESC 7 *)
  let s8 := replace_all [CR; LF] [LF] s7 in
  replace_all [LF; CR] [LF] s8.

(* ------------------------------------------------------------------ EventIO *)
Record evio : Type := mkEv {
  stored : list N;        (* getvalue() *)
  cursor : nat;
  nextline : bool;
  printed : list N        (* what went to sys.stdout *)
}.

Definition ev0 : evio := mkEv [] 0 true [].

Definition is_nl (c : N) : bool := N.eqb c CR || N.eqb c LF.

(* _print_stdout over the not-yet-printed part, character by character: a prefix whenever something is
   printed while at the start of a line; CR and LF both start a new line *)
Fixpoint emit (pfx : list N) (buf : list N) (nl : bool) (out : list N) : bool * list N :=
  match buf with
  | [] => (nl, out)
  | c :: buf' =>
      let out1 := if nl then out ++ pfx else out in
      emit pfx buf' (is_nl c) (out1 ++ [c])
  end.

Definition print_stdout (enabled : bool) (pfx : list N) (last : bool) (e : evio) : evio :=
  if negb enabled then e
  else
    let buf := skipn (cursor e) (stored e) in
    let (nl, out) := emit pfx buf (nextline e) (printed e) in
    let (nl2, out2) := if last && negb nl then (true, out ++ [LF]) else (nl, out) in
    mkEv (stored e) (cursor e + length buf) nl2 out2.

Definition ev_write (enabled : bool) (pfx : list N) (s : list N) (e : evio) : evio :=
  print_stdout enabled pfx false (mkEv (stored e ++ sanitize s) (cursor e) (nextline e) (printed e)).

Definition ev_close (enabled : bool) (pfx : list N) (e : evio) : evio := print_stdout enabled pfx true e.

Definition ev_run (enabled : bool) (pfx : list N) (ws : list (list N)) : evio :=
  ev_close enabled pfx (fold_left (fun e s => ev_write enabled pfx s e) ws ev0).

(* what the terminal should show for a stored text: the same characters, a prefix at every line start *)
Definition render (pfx : list N) (text : list N) : list N := snd (emit pfx text true []).

Definition evio_model (case : bool * list N * list (list N)) : V :=
  match case with
  | (enabled, pfx, ws) =>
      let e := ev_run enabled pfx ws in
      VL [VB (stored e); VB (printed e)]
  end.

(* the nesting level (or the event's own prefix) may change while the event is open: every write -- and the closing --
   prints with the prefix in force at that moment *)
Definition ev_run_var (enabled : bool) (pws : list (list N * list N)) (cpfx : list N) : evio :=
  ev_close enabled cpfx (fold_left (fun e pw => ev_write enabled (fst pw) (snd pw) e) pws ev0).

Definition evio_var_model (case : bool * list N * list (list N * list N)) : V :=
  match case with
  | (enabled, cpfx, pws) =>
      let e := ev_run_var enabled pws cpfx in
      VL [VB (stored e); VB (printed e)]
  end.

(* ------------------------------------------------------------------ the log parser *)
Section Parser.
(* raw_decode: Some (value, index just past it) or None (JSONDecodeError) *)
Variable A : Type.
Variable dec : list N -> option (A * nat).
Variable is_ws : N -> bool.

Fixpoint lstrip (s : list N) : list N :=
  match s with c :: s' => if is_ws c then lstrip s' else s | [] => [] end.

(* file.read(n): the next n characters *)
Fixpoint parse_loop (fuel : nat) (n : nat) (buf rest : list N) (acc : list A) : list A :=
  match fuel with
  | O => rev acc
  | S f =>
      match dec buf with
      | Some (v, idx) => parse_loop f n (lstrip (skipn idx buf)) rest (v :: acc)
      | None =>
          match rest with
          | [] => rev acc
          | _ => parse_loop f n (lstrip (buf ++ firstn n rest)) (skipn n rest) acc
          end
      end
  end.

Definition parse_file (n : nat) (file : list N) : list A :=
  parse_loop (S (2 * length file)) n (firstn n file) (skipn n file) [].
End Parser.

(* a concrete raw_decode for objects: find the matching closing brace, strings and escapes respected;
   the value returned is the raw text of the object *)
Fixpoint scan (fuel : nat) (s : list N) (depth : nat) (instr esc : bool) (pos : nat) : option nat :=
  match fuel with
  | O => None
  | S f =>
      match s with
      | [] => None
      | c :: s' =>
          if instr then
            if esc then scan f s' depth true false (S pos)
            else if N.eqb c 92%N then scan f s' depth true true (S pos)
            else if N.eqb c 34%N then scan f s' depth false false (S pos)
            else scan f s' depth true false (S pos)
          else if N.eqb c 34%N then scan f s' depth true false (S pos)
          else if N.eqb c 123%N then scan f s' (S depth) false false (S pos)
          else if N.eqb c 125%N then
            match depth with
            | 1 => Some (S pos)
            | O => None
            | S d => scan f s' d false false (S pos)
            end
          else scan f s' depth false false (S pos)
      end
  end.

Definition dec_obj (buf : list N) : option (list N * nat) :=
  match buf with
  | c :: _ => if N.eqb c 123%N then
                match scan (S (length buf)) buf 0 false false 0 with
                | Some idx => Some (firstn idx buf, idx)
                | None => None
                end
              else None
  | [] => None
  end.

Definition ws_json (c : N) : bool :=
  N.eqb c 32%N || N.eqb c 10%N || N.eqb c 13%N || N.eqb c 9%N || N.eqb c 11%N || N.eqb c 12%N.

Definition parser_model (case : nat * list N) : V :=
  VL (map VB (parse_file (list N) dec_obj ws_json (fst case) (snd case))).
