(* Machine.v -- executable model of tbot.machine.Machine.__enter__/__exit__ (re-entrancy counter,
   ExitStack of init steps, the inner guard stack), board.PowerControl._init_machine and
   ConsoleConnector._connect, with a fault oracle.
   The fault oracle is a list of booleans consumed one per check point (enter / exit of every step,
   power_check, poweron, poweroff, the init() hook, raising bodies): every fault pattern is some list. *)
From TV Require Import Base.

Inductive step : Type :=
| SPlain (k : nat)               (* a context manager: begin k / end k *)
| SPower                         (* board.PowerControl: power_check, poweron | poweroff *)
| SConsole (k1 k2 : nat).        (* ConsoleConnector._connect: with host.clone() [k1], connect() [k2] *)

Inductive event : Type :=
| EAttempt (k : nat)             (* enter of step k started *)
| EBegin (k : nat)               (* enter of step k completed *)
| EEnd (k : nat)                 (* exit of step k ran *)
| ECheck | EOn | EOff            (* power_check / poweron attempted / poweroff called *)
| EHook                          (* the user's init() hook ran *)
| EBody (n : nat).               (* a body statement of the test ran *)

(* what is on the machine's ExitStack: one entry per successfully entered step *)
Record mstate : Type := mkM {
  rc : nat;
  cx : list step;                (* entered steps, innermost (last entered) first *)
  faults : list bool;            (* remaining oracle *)
  nchk : nat;                    (* number of check points passed so far = id of the next exception *)
  tr : list event                (* trace, newest first *)
}.

(* consult the oracle at a check point *)
Definition chk (s : mstate) : bool * mstate :=
  (match faults s with b :: _ => b | [] => false end,
   mkM (rc s) (cx s) (tl (faults s)) (S (nchk s)) (tr s)).

Definition ev (e : event) (s : mstate) : mstate := mkM (rc s) (cx s) (faults s) (nchk s) (e :: tr s).
Definition set_cx (l : list step) (s : mstate) : mstate := mkM (rc s) l (faults s) (nchk s) (tr s).
Definition set_rc (n : nat) (s : mstate) : mstate := mkM n (cx s) (faults s) (nchk s) (tr s).

(* the exception in flight: None, or Some id *)
Definition exn := option nat.

(* exit of one entered step; a raising exit replaces the exception in flight *)
Definition exit_plain (k : nat) (pend : exn) (s : mstate) : exn * mstate :=
  let s1 := ev (EEnd k) s in
  let (f, s2) := chk s1 in
  (if f then Some (nchk s1) else pend, s2).

Definition exit_step (st : step) (pend : exn) (s : mstate) : exn * mstate :=
  match st with
  | SPlain k => exit_plain k pend s
  | SPower =>
      let s1 := ev EOff s in
      let (f, s2) := chk s1 in
      (if f then Some (nchk s1) else pend, s2)
  | SConsole k1 k2 =>
      let (p1, s1) := exit_plain k2 pend s in
      exit_plain k1 p1 s1
  end.

(* ExitStack.__exit__: all callbacks, LIFO, whatever they raise *)
Fixpoint unwind (stack : list step) (pend : exn) (s : mstate) : exn * mstate :=
  match stack with
  | [] => (pend, s)
  | st :: rest => let (p1, s1) := exit_step st pend s in unwind rest p1 s1
  end.

(* enter of one step: Some id = it raised (and is NOT on the stack) *)
Definition enter_plain (k : nat) (s : mstate) : exn * mstate :=
  let s1 := ev (EAttempt k) s in
  let (f, s2) := chk s1 in
  if f then (Some (nchk s1), s2) else (None, ev (EBegin k) s2).

Definition enter_step (st : step) (s : mstate) : exn * mstate :=
  match st with
  | SPlain k => enter_plain k s
  | SPower =>
      let s1 := ev ECheck s in
      let (f, s2) := chk s1 in
      if f then (Some (nchk s1), s2)                 (* power_check failed: power-on is not attempted *)
      else
        let s3 := ev EOn s2 in
        let (f2, s4) := chk s3 in
        if f2 then                                   (* poweron raised: the finally clause powers off *)
          let s5 := ev EOff s4 in
          let (f3, s6) := chk s5 in
          (Some (if f3 then nchk s5 else nchk s3), s6)
        else (None, s4)
  | SConsole k1 k2 =>
      match enter_plain k1 s with
      | (Some e, s1) => (Some e, s1)
      | (None, s1) =>
          match enter_plain k2 s1 with
          | (Some e, s2) => let (p, s3) := exit_plain k1 (Some e) s2 in (p, s3)
          | (None, s2) => (None, s2)
          end
      end
  end.

(* the loop of enter_context calls in Machine.__enter__; on failure returns the exception *)
Fixpoint enter_steps (steps : list step) (s : mstate) : exn * mstate :=
  match steps with
  | [] => (None, s)
  | st :: rest =>
      match enter_step st s with
      | (Some e, s1) => (Some e, s1)
      | (None, s1) => enter_steps rest (set_cx (st :: cx s1) s1)
      end
  end.

(* Machine.__exit__(exc) *)
Definition m_exit (pend : exn) (s : mstate) : exn * mstate :=
  let s1 := set_rc (Nat.pred (rc s)) s in
  if Nat.eqb (rc s1) 0 then
    let (p, s2) := unwind (cx s1) pend s1 in (p, set_cx [] s2)
  else (pend, s1).

(* Machine.__enter__ *)
Definition m_enter (steps : list step) (s : mstate) : exn * mstate :=
  let s1 := set_rc (S (rc s)) s in
  if Nat.ltb 1 (rc s1) then (None, s1)
  else
    let s2 := set_cx [] s1 in
    match enter_steps steps s2 with
    | (Some e, s3) => m_exit (Some e) s3               (* the guard stack calls self.__exit__ *)
    | (None, s3) =>
        let s4 := ev EHook s3 in
        let (f, s5) := chk s4 in
        if f then m_exit (Some (nchk s4)) s5 else (None, s5)
    end.

(* test programs using ONE machine object *)
Inductive prog : Type :=
| PSkip
| PBody (n : nat)              (* a statement that may raise (oracle) *)
| PSeq (a b : prog)
| PWith (body : prog)          (* with m: body *)
| PTry (body : prog).          (* try: body  except Exception: pass *)

Fixpoint run (steps : list step) (p : prog) (s : mstate) : exn * mstate :=
  match p with
  | PSkip => (None, s)
  | PBody n =>
      let s1 := ev (EBody n) s in
      let (f, s2) := chk s1 in
      (if f then Some (nchk s1) else None, s2)
  | PSeq a b =>
      match run steps a s with
      | (Some e, s1) => (Some e, s1)
      | (None, s1) => run steps b s1
      end
  | PWith body =>
      match m_enter steps s with
      | (Some e, s1) => (Some e, s1)
      | (None, s1) =>
          let (r, s2) := run steps body s1 in
          m_exit r s2
      end
  | PTry body => let (_, s1) := run steps body s in (None, s1)
  end.

Definition m0 (fl : list bool) : mstate := mkM 0 [] fl 0 [].

(* ---- observation for the correspondence check ---- *)
Definition V_event (e : event) : V :=
  match e with
  | EAttempt k => VL [VN 1; VNat k]
  | EBegin k => VL [VN 2; VNat k]
  | EEnd k => VL [VN 3; VNat k]
  | ECheck => VL [VN 4]
  | EOn => VL [VN 5]
  | EOff => VL [VN 6]
  | EHook => VL [VN 7]
  | EBody n => VL [VN 8; VNat n]
  end.

Definition machine_model (case : list step * prog * list bool) : V :=
  match case with
  | (steps, p, fl) =>
      let (r, s) := run steps p (m0 fl) in
      VL [VL (map V_event (rev (tr s))); VOpt VNat r; VNat (rc s)]
  end.
