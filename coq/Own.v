(* Own.v -- channel ownership: borrow() / take() over all handles ever created for one transport.
   Hand-written from channel.py:borrow/take/ChannelBorrowed/ChannelTaken; I/O is abstracted to
   "reaches the transport or raises".  Tied to the code by props/C07.py. *)
From TV Require Import Base.

Inductive iost : Type := Live | Borrowed | Taken.     (* what handle._c is *)

Record cfg : Type := mkCfg {
  c_prompt : option (list N);
  c_deaths : list (list N);
  c_black : list N;
  c_slow : option Z;
  c_chunk : nat
}.

Record handle : Type := mkH { h_io : iost; h_cfg : cfg }.

Record world : Type := mkW {
  handles : list handle;              (* index = handle number; never shrinks *)
  frames : list (nat * iost);         (* active borrow contexts, innermost first: (lender, what to restore) *)
  tclosed : bool                      (* ChannelIO.closed of the shared transport *)
}.

Definition cfg0 : cfg := mkCfg None [] [] None 32.
Definition world0 : world := mkW [mkH Live cfg0] [] false.

Fixpoint set_nth {A} (n : nat) (x : A) (l : list A) : list A :=
  match l, n with
  | [], _ => []
  | _ :: l', O => x :: l'
  | y :: l', S n' => y :: set_nth n' x l'
  end.

Definition get_h (w : world) (h : nat) : handle := nth h (handles w) (mkH Taken cfg0).
Definition set_io (w : world) (h : nat) (s : iost) : world :=
  mkW (set_nth h (mkH s (h_cfg (get_h w h))) (handles w)) (frames w) (tclosed w).
Definition set_cfg (w : world) (h : nat) (c : cfg) : world :=
  mkW (set_nth h (mkH (h_io (get_h w h)) c) (handles w)) (frames w) (tclosed w).

(* results *)
Inductive ores : Type :=
| ROk                      (* returned normally *)
| RVal (b : bool)          (* returned a boolean *)
| RBorrowedErr
| RTakenErr.

Inductive iokind : Type :=
| KRead | KWrite | KSend | KSendctl | KExpect | KFileno   (* reach the transport *)
| KClosed                                                  (* the `closed` property *)
| KClose                                                   (* close() *)
| KExit.                                                   (* __exit__: if not self.closed: self.close() *)

Inductive cfgop : Type :=
| CSetPrompt (p : option (list N))
| CAddDeath (s : list N)          (* add_death_string: inserts at the front, in place *)
| CBlackAppend (b : N)            (* _write_blacklist.append: in place *)
| CBlackSet (l : list N)          (* rebinding *)
| CSlow (d : option Z) (n : nat).

Inductive oop : Type :=
| OBorrow (h : nat)
| OEnd (raising : bool)           (* leave the innermost borrow context, normally or by an exception *)
| OTake (h : nat)
| OIO (h : nat) (k : iokind)
| OCfg (h : nat) (c : cfgop)
| OGet (h : nat).

Definition err_of (s : iost) : ores :=
  match s with Live => ROk | Borrowed => RBorrowedErr | Taken => RTakenErr end.

Definition apply_cfg (c : cfg) (o : cfgop) : cfg :=
  match o with
  | CSetPrompt p => mkCfg p (c_deaths c) (c_black c) (c_slow c) (c_chunk c)
  | CAddDeath s => mkCfg (c_prompt c) (s :: c_deaths c) (c_black c) (c_slow c) (c_chunk c)
  | CBlackAppend b => mkCfg (c_prompt c) (c_deaths c) (c_black c ++ [b]) (c_slow c) (c_chunk c)
  | CBlackSet l => mkCfg (c_prompt c) (c_deaths c) l (c_slow c) (c_chunk c)
  | CSlow d n => mkCfg (c_prompt c) (c_deaths c) (c_black c) d n
  end.

Definition V_cfg (c : cfg) : V :=
  VL [VOpt VB (c_prompt c); VL (map VB (c_deaths c)); VB (c_black c); VOpt VN (c_slow c); VNat (c_chunk c)].

Definition V_res (r : ores) : V :=
  match r with
  | ROk => VL [VN 0]
  | RVal b => VL [VN 1; VBool b]
  | RBorrowedErr => VL [VN 10]
  | RTakenErr => VL [VN 11]
  end.

(* one step: result value (as V, so that OGet can return a snapshot) and the new world *)
Definition ostep (o : oop) (w : world) : V * world :=
  match o with
  | OBorrow h =>
      let hd := get_h w h in
      match h_io hd with
      | Live =>
          (V_res ROk,
           mkW (set_nth h (mkH Borrowed (h_cfg hd)) (handles w) ++ [mkH Live (h_cfg hd)])
               ((h, Live) :: frames w) (tclosed w))
      | s => (V_res (err_of s), w)        (* borrowing a borrowed / taken channel raises *)
      end
  | OEnd _ =>
      match frames w with
      | [] => (V_res ROk, w)
      | (h, s) :: rest =>
          (V_res ROk, mkW (set_nth h (mkH s (h_cfg (get_h w h))) (handles w)) rest (tclosed w))
      end
  | OTake h =>
      let hd := get_h w h in
      match h_io hd with
      | Live =>
          (V_res ROk,
           mkW (set_nth h (mkH Taken (h_cfg hd)) (handles w) ++ [mkH Live (h_cfg hd)])
               (frames w) (tclosed w))
      | s => (V_res (err_of s), w)
      end
  | OIO h k =>
      let s := h_io (get_h w h) in
      match k with
      | KClosed => match s with
                   | Live => (V_res (RVal (tclosed w)), w)
                   | Borrowed => (V_res RBorrowedErr, w)
                   | Taken => (V_res (RVal true), w)
                   end
      | KClose => match s with
                  | Live => (V_res ROk, mkW (handles w) (frames w) true)
                  | Borrowed => (V_res RBorrowedErr, w)
                  | Taken => (V_res ROk, w)               (* closing a stale handle leaves the transport open *)
                  end
      | KExit => match s with
                 | Live => (V_res ROk, mkW (handles w) (frames w) true)
                 | Borrowed => (V_res RBorrowedErr, w)
                 | Taken => (V_res ROk, w)
                 end
      | _ => (V_res (err_of s), w)
      end
  | OCfg h c => (V_res ROk, set_cfg w h (apply_cfg (h_cfg (get_h w h)) c))
  | OGet h => (V_cfg (h_cfg (get_h w h)), w)
  end.

Fixpoint orun (ops : list oop) (w : world) : list V * world :=
  match ops with
  | [] => ([], w)
  | o :: ops' => let (v, w1) := ostep o w in
                 let (vs, w2) := orun ops' w1 in
                 (VL [v; VBool (tclosed w1); VNat (length (handles w1))] :: vs, w2)
  end.

Definition own_model (ops : list oop) : V := VL (fst (orun ops world0)).
