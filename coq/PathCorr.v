(* PathCorr.v -- operation scripts over the tbot Path model and their observations *)
From TV Require Import Base PosixPath.

Inductive parg : Type := PS (s : list N) | PP (host : nat) (segs : list (list N)).

Inductive pop : Type :=
| PJoin (args : list parg)
| PRdiv (key : list N)
| PParent
| PWithName (s : list N)
| PWithStem (s : list N)
| PWithSuffix (s : list N)
| PRelTo (args : list parg)
| PIsRelTo (args : list parg)
| PParentsGet (idx : Z)
| PAtHost (h : nat)
| PCmp (other : list (list N))
| PEqHost (h : nat) (other : list (list N)).

Definition to_targ (a : parg) : targ :=
  match a with PS s => AStr s | PP h segs => APath (mkTP h (pp_make segs)) end.

Definition V_strs (l : list (list N)) : V := VL (map VB l).

Fixpoint parents_strs (fuel : nat) (p : ppath) : list (list N) :=
  match fuel with
  | O => []
  | S f => match pp_tail p with
           | [] => []
           | _ => pp_str (pp_parent p) :: parents_strs f (pp_parent p)
           end
  end.

Definition snapshot (p : tpath) : V :=
  let q := tp_pp p in
  VL [VB (pp_str q); V_strs (pp_parts q); VB (pp_name q); VB (pp_suffix q); V_strs (pp_suffixes q);
      VB (pp_stem q); VBool (pp_is_absolute q); VNat (pp_parents_len q);
      V_strs (parents_strs (S (length (pp_tail q))) q)].

Definition V_tres {A} (f : A -> V) (r : tres A) : V :=
  match r with
  | TOk a => VL [VN 0; f a]
  | TWrongHost => VL [VN 1]
  | TValueError => VL [VN 2]
  | TIndexError => VL [VN 3]
  end.

Definition step_p (o : pop) (p : tpath) : V * tpath :=
  let upd (r : tres tpath) := match r with TOk q => (V_tres snapshot r, q) | _ => (V_tres snapshot r, p) end in
  match o with
  | PJoin args => upd (t_joinpath p (map to_targ args))
  | PRdiv key => upd (t_rtruediv p (AStr key))
  | PParent => upd (TOk (t_parent p))
  | PWithName s => upd (t_with_name p s)
  | PWithStem s => upd (t_with_stem p s)
  | PWithSuffix s => upd (t_with_suffix p s)
  | PRelTo args => upd (t_relative_to p (map to_targ args))
  | PIsRelTo args => (V_tres VBool (t_is_relative_to p (map to_targ args)), p)
  | PParentsGet idx => (V_tres (fun q => VB (pp_str (tp_pp q))) (t_parents_get p idx), p)
  | PAtHost h => (V_tres VB (t_at_host p h), p)
  | PCmp other =>
      let q := pp_make other in
      (VL [VN 0; VL [VBool (pp_eqb (tp_pp p) q); VBool (pp_ltb (tp_pp p) q); VBool (pp_ltb q (tp_pp p))]], p)
  | PEqHost h other =>
      (VL [VN 0; VL [VBool (t_eqb p (mkTP h (pp_make other))); VBool true]], p)
  end.

Fixpoint run_p (ops : list pop) (p : tpath) : list V :=
  match ops with
  | [] => []
  | o :: ops' => let (v, p') := step_p o p in v :: run_p ops' p'
  end.

Definition path_model (case : list parg * list pop) : V :=
  match case with
  | (init, ops) =>
      match t_make 0 (map to_targ init) with
      | TOk p => VL (V_tres snapshot (TOk p) :: run_p ops p)
      | r => VL [V_tres snapshot r]
      end
  end.
