(* PathIO.v -- Path.write_bytes and Path.read_bytes as sessions: the run() proxy with the extra death string "tee: ",
   one sendline (with read-back) per 76-character base64 line, ^D, terminate0; and exec0("base64", path) decoded.
   Hand-written from tbot/machine/linux/path.py; tied to /repo by correspondence (props/C11.py runs the real methods
   over the staged console with a simulated `base64 -d | tee`). *)
From TV Require Import Base Utf8 Regex Channel ChannelCorr Hush Session Sh Base64 Proxy.

Definition TEE_EXC : Z := 98.
Definition TEE_STR : list N := [116; 101; 101; 58; 32]%N.          (* tee:  *)

Inductive wres : Type :=
| WOk (n : nat)                       (* the number of bytes written *)
| WFailure                            (* CommandFailure from terminate0 *)
| WEnded                              (* CommandEndedException escaped *)
| WOther (v : V).

(* is this observation the "tee: " death string exception? *)
Definition tee_died (v : V) : bool :=
  match v with VL [VN 4; VN e; _] => Z.eqb e TEE_EXC | _ => false end.

(* the loop over the lines; stages: one reaction per line *)
Fixpoint send_lines (lines : list (list N)) (sts : list stage) (p : proxy) : option V * proxy * list stage :=
  match lines with
  | [] => (None, p, sts)
  | l :: ls =>
      let (v, p1) := proxy_io (OSendline false l true None) [hd_stage sts] p in
      match v with
      | VL [VN 0] => send_lines ls (tl sts) p1
      | _ => (Some v, p1, tl sts)
      end
  end.

Definition with_pc (p : proxy) (c : chan) : proxy := mkP c (st p) (alive p) (early p) (gdone p).

(* stages: the reaction to the command line, to every base64 line, to ^D, to `echo $?` *)
Definition write_bytes_model (cmd data : list N) (stages : stage * list stage * stage * stage) (parent : chan) : wres * chan :=
  let '(st_cmd, st_lines, st_eof, st_status) := stages in
  let (v0, p0) := run_start cmd [st_cmd] parent in
  match st p0 with
  | PRunning =>
      let p1 := with_pc p0 (push_death (SLit TEE_STR) TEE_EXC (pc p0)) in
      let '(stop, p2, sts2) := send_lines (b64_lines data) st_lines p1 in
      let continue (p3 : proxy) (sts3 : list stage) :=
        let p4 := with_pc p3 (pop (pc p3)) in                      (* leaving with_death_string("tee: ") *)
        let (vd, p5) := proxy_io (OSendctl 68%N) [st_eof] p4 in
        match vd with
        | VL [VN 0] =>
            match terminate true [st_status] p5 with
            | (TOk _ _, p6) => (WOk (length data), after parent p6)
            | (TFailure, p6) => (WFailure, after parent p6)
            | (r, p6) => (WOther (V_tres r), after parent p6)
            end
        | _ => (if died vd || match vd with VL [VN 10] => true | _ => false end then WEnded else WOther vd, after parent p5)
        end in
      match stop with
      | None => continue p2 sts2
      | Some v =>
          if tee_died v then continue p2 sts2                      (* PathWriteDeathStringException is swallowed *)
          else (match v with VL [VN 10] => WEnded | _ => WOther v end, after parent (with_pc p2 (pop (pc p2))))
      end
  | _ => (WOther v0, parent)
  end.

Definition V_wres (r : wres) : V :=
  match r with
  | WOk n => VL [VN 0; VNat n]
  | WFailure => VL [VN 1]
  | WEnded => VL [VN 10]
  | WOther v => VL [VN 2; v]
  end.

(* read_bytes: base64.b64decode(exec0("base64", path)) *)
Definition read_bytes_model (cmd : list N) (sts : list stage) (c : chan) : x0res * chan :=
  match lx_exec0_line cmd sts c with
  | (X0Ok out, c', _) => (X0Ok (b64dec out), c')
  | (r, c', _) => (r, c')
  end.

(* case: ash?, write command line, data, stages of the write, read command line, stages of the read *)
Definition pathio_model (case : bool * list N * list N * (stage * list stage * stage * stage) * list N * list stage) : V :=
  match case with
  | (ash, wcmd, data, wsts, rcmd, rsts) =>
      let parent := lx_chan ash [] in
      let (w, c1) := write_bytes_model wcmd data wsts parent in
      let (r, c2) := read_bytes_model rcmd rsts c1 in
      VL [V_wres w; V_x0res r; VB (wr (io c2)); VB (unread c2)]
  end.
