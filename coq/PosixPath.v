(* PosixPath.v -- environment model of pathlib.PurePosixPath (CPython 3.12) for the pure operations tbot's
   Path delegates to, and the model of tbot.machine.linux.Path's pure (non-I/O) API on top of it.
   Validated against the real pathlib / the real tbot Path by props/C12.py.  Strings are lists of code points. *)
From TV Require Import Base.

Definition SL : N := 47.   (* / *)
Definition DOT : N := 46.  (* . *)

Definition starts_slash (s : list N) : bool := match s with c :: _ => N.eqb c SL | [] => false end.
Definition ends_slash (s : list N) : bool := match rev s with c :: _ => N.eqb c SL | [] => false end.

(* posixpath.join *)
Fixpoint pjoin (path : list N) (ps : list (list N)) : list N :=
  match ps with
  | [] => path
  | b :: ps' =>
      if starts_slash b then pjoin b ps'
      else if (match path with [] => true | _ => false end) || ends_slash path then pjoin (path ++ b) ps'
      else pjoin (path ++ SL :: b) ps'
  end.

(* str.split('/') *)
Fixpoint split_sl_aux (cur : list N) (s : list N) : list (list N) :=
  match s with
  | [] => [rev cur]
  | c :: s' => if N.eqb c SL then rev cur :: split_sl_aux [] s' else split_sl_aux (c :: cur) s'
  end.
Definition split_sl (s : list N) : list (list N) := split_sl_aux [] s.

Record ppath : Type := mkPP { pp_root : list N; pp_tail : list (list N) }.

Definition is_dot (x : list N) : bool := match x with [c] => N.eqb c DOT | _ => false end.
Definition keep_part (x : list N) : bool := negb (match x with [] => true | _ => false end) && negb (is_dot x).

(* posixpath.splitroot + PurePath._parse_path *)
Definition pp_parse (p : list N) : ppath :=
  match p with
  | [] => mkPP [] []
  | c1 :: r1 =>
      if negb (N.eqb c1 SL) then mkPP [] (filter keep_part (split_sl p))
      else match r1 with
           | c2 :: r2 =>
               if N.eqb c2 SL then
                 match r2 with
                 | c3 :: _ => if N.eqb c3 SL then mkPP [SL] (filter keep_part (split_sl r1))        (* ///... *)
                              else mkPP [SL; SL] (filter keep_part (split_sl r2))                    (* //x *)
                 | [] => mkPP [SL; SL] (filter keep_part (split_sl r2))                              (* // *)
                 end
               else mkPP [SL] (filter keep_part (split_sl r1))
           | [] => mkPP [SL] []
           end
  end.

(* PurePosixPath of several segments *)
Definition pp_make (segs : list (list N)) : ppath :=
  match segs with
  | [] => pp_parse []
  | [x] => pp_parse x
  | x :: rest => pp_parse (pjoin x rest)
  end.

Fixpoint join_sl (parts : list (list N)) : list N :=
  match parts with
  | [] => []
  | [x] => x
  | x :: rest => x ++ SL :: join_sl rest
  end.

(* str(path) *)
Definition pp_str (p : ppath) : list N :=
  match pp_root p, pp_tail p with
  | [], [] => [DOT]
  | r, t => r ++ join_sl t
  end.

Definition pp_parts (p : ppath) : list (list N) :=
  match pp_root p with [] => pp_tail p | r => r :: pp_tail p end.

Definition pp_name (p : ppath) : list N := last (pp_tail p) [].

(* name.rfind('.') *)
Fixpoint rfind_dot_aux (i : nat) (best : option nat) (s : list N) : option nat :=
  match s with
  | [] => best
  | c :: s' => rfind_dot_aux (S i) (if N.eqb c DOT then Some i else best) s'
  end.
Definition rfind_dot (s : list N) : option nat := rfind_dot_aux 0 None s.

Definition pp_suffix (p : ppath) : list N :=
  let nm := pp_name p in
  match rfind_dot nm with
  | Some i => if (0 <? i) && (i <? length nm - 1) then skipn i nm else []
  | None => []
  end.
Definition pp_stem (p : ppath) : list N :=
  let nm := pp_name p in
  match rfind_dot nm with
  | Some i => if (0 <? i) && (i <? length nm - 1) then firstn i nm else nm
  | None => nm
  end.

Fixpoint lstrip_dot (s : list N) : list N :=
  match s with c :: s' => if N.eqb c DOT then lstrip_dot s' else s | [] => [] end.
Fixpoint split_dot_aux (cur : list N) (s : list N) : list (list N) :=
  match s with
  | [] => [rev cur]
  | c :: s' => if N.eqb c DOT then rev cur :: split_dot_aux [] s' else split_dot_aux (c :: cur) s'
  end.
Definition pp_suffixes (p : ppath) : list (list N) :=
  let nm := pp_name p in
  match rev nm with
  | c :: _ => if N.eqb c DOT then [] else map (fun x => DOT :: x) (tl (split_dot_aux [] (lstrip_dot nm)))
  | [] => map (fun x => DOT :: x) (tl (split_dot_aux [] (lstrip_dot nm)))
  end.

Definition pp_parent (p : ppath) : ppath :=
  match pp_tail p with [] => p | t => mkPP (pp_root p) (removelast t) end.

Definition pp_parents_len (p : ppath) : nat := length (pp_tail p).
(* parents[idx]; None = IndexError *)
Definition pp_parents_get (p : ppath) (idx : Z) : option ppath :=
  let n := Z.of_nat (length (pp_tail p)) in
  if (idx >=? n)%Z || (idx <? - n)%Z then None
  else let i := if (idx <? 0)%Z then (idx + n)%Z else idx in
       Some (mkPP (pp_root p) (firstn (length (pp_tail p) - Z.to_nat i - 1) (pp_tail p))).

Definition pp_is_absolute (p : ppath) : bool := match pp_root p with [] => false | _ => true end.

Definition pp_joinpath (p : ppath) (segs : list (list N)) : ppath := pp_make (pp_str p :: segs).

Definition has_slash (s : list N) : bool := mem_N SL s.

(* with_name; None = ValueError *)
Definition pp_with_name (p : ppath) (nm : list N) : option ppath :=
  match pp_name p with
  | [] => None
  | _ => if (match nm with [] => true | _ => false end) || has_slash nm || is_dot nm then None
         else Some (mkPP (pp_root p) (removelast (pp_tail p) ++ [nm]))
  end.

Definition pp_with_suffix (p : ppath) (sf : list N) : option ppath :=
  if has_slash sf then None
  else if (negb (match sf with [] => true | _ => false end) && negb (match sf with c :: _ => N.eqb c DOT | [] => false end))
          || is_dot sf then None
  else match pp_name p with
       | [] => None
       | nm => let old := pp_suffix p in
               let nm' := match old with [] => nm ++ sf | _ => firstn (length nm - length old) nm ++ sf end in
               Some (mkPP (pp_root p) (removelast (pp_tail p) ++ [nm']))
       end.

Fixpoint list_list_eqb (a b : list (list N)) : bool :=
  match a, b with
  | [], [] => true
  | x :: a', y :: b' => list_N_eqb x y && list_list_eqb a' b'
  | _, _ => false
  end.

Definition pp_eqb (a b : ppath) : bool := list_N_eqb (pp_str a) (pp_str b).

Fixpoint is_prefix_ll (p s : list (list N)) : bool :=
  match p, s with
  | [], _ => true
  | x :: p', y :: s' => list_N_eqb x y && is_prefix_ll p' s'
  | _ :: _, [] => false
  end.

(* relative_to(other) without walk_up; None = ValueError.  other == self or other in self.parents
   <=> same root and other's tail is a prefix of self's tail *)
Definition pp_relative_to (p other : ppath) : option ppath :=
  if list_N_eqb (pp_root p) (pp_root other) && is_prefix_ll (pp_tail other) (pp_tail p)
  then Some (mkPP [] (skipn (length (pp_tail other)) (pp_tail p)))
  else None.

(* ordering: str(path).split('/') compared as lists of strings *)
Fixpoint str_ltb (a b : list N) : bool :=
  match a, b with
  | _, [] => false
  | [], _ :: _ => true
  | x :: a', y :: b' => (x <? y)%N || (N.eqb x y && str_ltb a' b')
  end.
Fixpoint strs_ltb (a b : list (list N)) : bool :=
  match a, b with
  | _, [] => false
  | [], _ :: _ => true
  | x :: a', y :: b' => str_ltb x y || (list_N_eqb x y && strs_ltb a' b')
  end.
Definition pp_ltb (a b : ppath) : bool := strs_ltb (split_sl (pp_str a)) (split_sl (pp_str b)).

(* ------------------------------------------------------------------ tbot's Path on top *)
(* machines: a machine value carries the identity of its "original" (clones share it) *)
Record tpath : Type := mkTP { tp_host : nat; tp_pp : ppath }.

Inductive targ : Type := AStr (s : list N) | APath (p : tpath).

Inductive tres (A : Type) : Type := TOk (a : A) | TWrongHost | TValueError | TIndexError.
Arguments TOk {A} a. Arguments TWrongHost {A}. Arguments TValueError {A}. Arguments TIndexError {A}.

(* Path._prepare_args_list: unwrap Path arguments after checking their host *)
Fixpoint prepare (h : nat) (args : list targ) : option (list (list N)) :=
  match args with
  | [] => Some []
  | AStr s :: rest => match prepare h rest with Some l => Some (s :: l) | None => None end
  | APath p :: rest =>
      if Nat.eqb (tp_host p) h then
        match prepare h rest with Some l => Some (pp_str (tp_pp p) :: l) | None => None end
      else None
  end.

(* every result is wrapped again: Path(host, result) hands the PurePosixPath to PurePosixPath(...), which
   parses its string form once more *)
Definition renorm (r : ppath) : ppath := pp_parse (pp_str r).

Definition t_make (h : nat) (args : list targ) : tres tpath :=
  match prepare h args with Some segs => TOk (mkTP h (pp_make segs)) | None => TWrongHost end.
Definition t_joinpath (p : tpath) (args : list targ) : tres tpath :=
  match prepare (tp_host p) args with
  | Some segs => TOk (mkTP (tp_host p) (pp_joinpath (tp_pp p) segs))
  | None => TWrongHost
  end.
Definition t_rtruediv (p : tpath) (key : targ) : tres tpath :=
  match prepare (tp_host p) [key] with
  | Some segs => TOk (mkTP (tp_host p) (pp_make (segs ++ [pp_str (tp_pp p)])))
  | None => TWrongHost
  end.
Definition t_relative_to (p : tpath) (args : list targ) : tres tpath :=
  match prepare (tp_host p) args with
  | Some segs => match pp_relative_to (tp_pp p) (pp_make segs) with
                 | Some r => TOk (mkTP (tp_host p) (renorm r))
                 | None => TValueError
                 end
  | None => TWrongHost
  end.
Definition t_is_relative_to (p : tpath) (args : list targ) : tres bool :=
  match t_relative_to p args with
  | TOk _ => TOk true | TValueError => TOk false | TWrongHost => TWrongHost | TIndexError => TIndexError
  end.
Definition t_with_name (p : tpath) (nm : list N) : tres tpath :=
  match pp_with_name (tp_pp p) nm with Some r => TOk (mkTP (tp_host p) (renorm r)) | None => TValueError end.
Definition t_with_stem (p : tpath) (st : list N) : tres tpath := t_with_name p (st ++ pp_suffix (tp_pp p)).
Definition t_with_suffix (p : tpath) (sf : list N) : tres tpath :=
  match pp_with_suffix (tp_pp p) sf with Some r => TOk (mkTP (tp_host p) (renorm r)) | None => TValueError end.
Definition t_parent (p : tpath) : tpath := mkTP (tp_host p) (renorm (pp_parent (tp_pp p))).
Definition t_parents_len (p : tpath) : nat := pp_parents_len (tp_pp p).
Definition t_parents_get (p : tpath) (idx : Z) : tres tpath :=
  match pp_parents_get (tp_pp p) idx with Some r => TOk (mkTP (tp_host p) (renorm r)) | None => TIndexError end.
Definition t_at_host (p : tpath) (h : nat) : tres (list N) :=
  if Nat.eqb (tp_host p) h then TOk (pp_str (tp_pp p)) else TWrongHost.
Definition t_eqb (a b : tpath) : bool := Nat.eqb (tp_host a) (tp_host b) && pp_eqb (tp_pp a) (tp_pp b).
