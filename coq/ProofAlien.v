(* ProofAlien.v -- reading a stream in which the registered death strings cannot occur (each has a character that
   the stream does not use): nothing is raised, the reads are exact, the death-string histories grow with the data. *)
From TV Require Import Base BaseLemmas Utf8 Regex Channel ChannelLemmas ProofC02 ProofC03 ProofC05 ProofSession.

Section Alien.
Variable ok : N -> Prop.                         (* the characters the stream uses *)

Definition alien (l : list N) : Prop := exists x, In x l /\ ~ ok x.

Lemma alien_not_contained l s : alien l -> Forall ok s -> contains l s = false.
Proof.
  intros (x & Hx & Hn) Hs. destruct (contains l s) eqn:E; [|reflexivity]. exfalso.
  apply contains_spec in E. destruct E as (a & b & ->).
  rewrite Forall_forall in Hs. apply Hn, Hs. apply in_or_app. right. apply in_or_app. left. exact Hx.
Qed.

(* all registered strings are alien; all histories and the pending stream use ok characters only *)
Definition calm (c : chan) (hs : list (list N)) : Prop :=
  wfc c /\ dinv (deaths c) hs /\ Forall (Forall ok) hs /\ Forall ok (cpend c) /\
  Forall (fun e => exists l, d_str e = SLit l /\ alien l) (deaths c).

Lemma iter_step_death_occ start tmo n c exc mt c' hs :
  wfc c -> 0 < n -> dinv (deaths c) hs -> iter_step start tmo n c = (SDeath exc mt, c') ->
  exists new e h, cpend c = new ++ cpend c' /\ In e (deaths c) /\ In h hs /\ d_str e = SLit mt /\
                  contains mt (h ++ new) = true.
Proof.
  intros Hw Hn Hinv H.
  pose proof (iter_step_checks _ _ _ _ _ _ H) as (new & io' & c2 & Eio & Eck & ->).
  destruct (io_read_data _ _ _ _ _ Eio Hn Hw) as (_ & _ & Hcat & _).
  destruct (write_stream_frame new (with_io c io')) as (W1 & _ & W3 & _).
  destruct (check_frame _ _ _ _ Eck) as (C1 & _).
  assert (Hinv' : dinv (deaths (write_stream new (with_io c io'))) hs) by (rewrite W3; exact Hinv).
  destruct (ds_sound _ _ _ _ _ _ Hinv' Eck) as (e & h & J1 & J2 & J3 & _ & J5).
  rewrite W3 in J1. exists new, e, h. split; [unfold cpend; rewrite C1, W1; exact Hcat | auto].
Qed.

Lemma str_meta_forall c c' :
  map d_str (deaths c') = map d_str (deaths c) ->
  Forall (fun e => exists l, d_str e = SLit l /\ alien l) (deaths c) ->
  Forall (fun e => exists l, d_str e = SLit l /\ alien l) (deaths c').
Proof.
  intros M H. rewrite Forall_forall in *. intros e' Hin.
  apply (in_map d_str) in Hin. rewrite M in Hin. apply in_map_iff in Hin. destruct Hin as (e & E & Hin).
  destruct (H e Hin) as (l & A & B). exists l. split; [congruence | exact B].
Qed.

Lemma check_entries_str chunk : forall ds r ds', check_entries chunk ds = (r, ds') -> map d_str ds' = map d_str ds.
Proof. exact (check_entries_strs chunk). Qed.

Lemma check_chunks_strs : forall cs l r l', check_chunks cs l = (r, l') -> map d_str l' = map d_str l.
Proof.
  induction cs as [|ch cs IH]; intros l r l' E; cbn [check_chunks] in E; [injection E as _ <-; reflexivity|].
  destruct (check_entries ch l) as [[hh|] l1] eqn:E1; pose proof (check_entries_strs _ _ _ _ E1) as M1.
  - injection E as _ <-. exact M1.
  - rewrite (IH _ _ _ E). exact M1.
Qed.

Lemma check_strs incoming c r c' : check incoming c = (r, c') -> map d_str (deaths c') = map d_str (deaths c).
Proof.
  unfold check. destruct (deaths c) as [|e ds] eqn:Ed; [intros [= <- <-]; rewrite Ed; reflexivity|].
  destruct (check_chunks _ _) as [r1 ds'] eqn:E. intros [= <- <-]. cbn [deaths with_deaths].
  exact (check_chunks_strs _ _ _ _ E).
Qed.

Lemma iter_step_strs start tmo n c r c' : iter_step start tmo n c = (r, c') -> map d_str (deaths c') = map d_str (deaths c).
Proof.
  unfold iter_step. destruct (match _ with Some r0 => (r0 <=? 0)%Z | None => false end); [intros [= <- <-]; auto|].
  destruct (io_read _ _ _) as [res io']. destruct res as [new| |]; try (intros [= <- <-]; auto).
  destruct (write_stream_frame new (with_io c io')) as (_ & _ & W3 & _).
  destruct (check new (write_stream new (with_io c io'))) as [[[e mt]|] c2] eqn:Ec; pose proof (check_strs _ _ _ _ Ec) as M;
    intros [= <- <-]; rewrite M, W3; reflexivity.
Qed.

(* one iteration without a timeout on a calm channel with data pending: data, and the channel stays calm *)
Lemma iter_step_calm start n c hs :
  0 < n -> calm c hs -> pend (io c) <> [] ->
  exists new c', iter_step start None n c = (SData new, c') /\
    new <> [] /\ length new <= n /\ cpend c = new ++ cpend c' /\ same_cfg c c' /\
    tot (pend (io c')) < tot (pend (io c)) /\ calm c' (map (fun h => h ++ new) hs).
Proof.
  intros Hn (Hw & Hd & Hh & Hp & Ha) Hne.
  destruct (iter_step start None n c) as [r c'] eqn:E.
  destruct (iter_step_spec _ _ _ _ _ _ E Hn Hw) as (Hcfg & Hw' & _ & Hr).
  pose proof (iter_step_strs _ _ _ _ _ _ E) as M.
  destruct r as [new| | |exc mt].
  - destruct Hr as (N1 & N2 & N3 & N4). exists new, c'. split; [reflexivity|].
    split; [exact N1|]. split; [exact N2|]. split; [exact N3|]. split; [exact Hcfg|]. split; [exact N4|].
    assert (Hnew : Forall ok new /\ Forall ok (cpend c')) by (rewrite N3 in Hp; apply Forall_app in Hp; exact Hp).
    unfold calm. split; [exact Hw'|]. split; [exact (iter_step_deaths _ _ _ _ _ _ hs Hd E)|].
    split; [rewrite Forall_map; eapply Forall_impl; [|exact Hh]; intros h Hh0; apply Forall_app; tauto|].
    split; [tauto|]. apply (str_meta_forall c c' M Ha).
  - destruct Hr as [_ X]. congruence.
  - destruct Hr as (_ & X & _). congruence.
  - exfalso. destruct (iter_step_death_occ _ _ _ _ _ _ _ hs Hw Hn Hd E) as (new & e & h & C & I1 & I2 & I3 & I5).
    rewrite Forall_forall in Ha. destruct (Ha e I1) as (l & A & B). rewrite I3 in A. injection A as <-.
    assert (F : Forall ok (h ++ new)).
    { apply Forall_app. split; [rewrite Forall_forall in Hh; exact (Hh h I2)|].
      rewrite C in Hp. apply Forall_app in Hp. tauto. }
    rewrite (alien_not_contained _ _ B F) in I5. discriminate.
Qed.

(* read(n) on a calm channel with at least n bytes coming: exactly the next n bytes, channel calm afterwards *)
Lemma read_iter_calm fuel : forall start mx got acc c hs,
  calm c hs -> got < mx -> mx - got <= length (cpend c) -> tot (pend (io c)) < fuel ->
  exists chs c' d, read_iter_loop fuel start None (Some mx) got acc c = (rev acc ++ chs, Ret tt, c') /\
    d = concat chs /\ length d = mx - got /\ cpend c = d ++ cpend c' /\ same_cfg c c' /\ calm c' (map (fun h => h ++ d) hs).
Proof.
  induction fuel as [|f IH]; intros start mx got acc c hs Hc Hg Hl Hf; [lia|].
  rewrite read_iter_loop_step.
  assert (Hp : pend (io c) <> []).
  { intros E. unfold cpend in Hl. rewrite E in Hl. unfold cat in Hl. simpl in Hl. lia. }
  pose proof (maxread_pos mx got Hg) as Hn.
  destruct (iter_step_calm start (maxread_of (Some mx) got) c hs Hn Hc Hp) as (new & c1 & Es & N1 & N2 & N3 & Scfg & Htot & Hc1).
  rewrite Es. pose proof (maxread_le mx got) as Hm.
  destruct (Nat.eqb (got + length new) mx) eqn:Eq.
  - apply Nat.eqb_eq in Eq. exists [new], c1, new. cbn [rev concat]. rewrite app_nil_r.
    split; [reflexivity|]. split; [reflexivity|]. split; [lia|]. auto.
  - apply Nat.eqb_neq in Eq.
    assert (Hl1 : mx - (got + length new) <= length (cpend c1)) by (rewrite N3, app_length in Hl; lia).
    destruct (IH start mx (got + length new) (new :: acc) c1 _ Hc1 ltac:(lia) Hl1 ltac:(lia)) as (chs & c' & d & R & Ed & Ld & Cd & Sc & Cc).
    exists (new :: chs), c', (new ++ d). cbn [rev] in R. rewrite <- app_assoc in R. cbn [app] in R.
    split; [exact R|]. split; [cbn [concat]; rewrite Ed; reflexivity|]. split; [rewrite app_length; lia|].
    split; [rewrite N3, Cd, app_assoc; reflexivity|]. split; [eapply same_cfg_trans; eauto|].
    rewrite map_map in Cc. erewrite map_ext; [exact Cc|]. intros h. cbn. rewrite app_assoc. reflexivity.
Qed.

Lemma read_n_calm n c hs :
  calm c hs -> 0 < n -> n <= length (cpend c) ->
  exists d c', read (Z.of_nat n) None c = (Ret d, c') /\ length d = n /\ cpend c = d ++ cpend c' /\
               same_cfg c c' /\ calm c' (map (fun h => h ++ d) hs).
Proof.
  intros Hc Hn Hl. unfold read.
  destruct (Z.of_nat n <? 0)%Z eqn:E; [apply Z.ltb_lt in E; lia|].
  rewrite Nat2Z.id. unfold read_iter.
  assert (Hl0 : n - 0 <= length (cpend c)) by lia.
  destruct (read_iter_calm (fuel_of c) (now (io c)) n 0 [] c hs Hc Hn Hl0 (fuel_of_enough c))
    as (chs & c' & d & R & Ed & Ld & Cd & Sc & Cc).
  cbn [rev app] in R. rewrite R. exists d, c'. rewrite Ed. split; [reflexivity|]. split; [rewrite <- Ed; lia|]. rewrite <- Ed. auto.
Qed.
End Alien.
