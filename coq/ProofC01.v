(* ProofC01.v -- Linux shells: shlex.quote is lossless through the shell's word splitting, the read-back length
   equals the tty's echo, exec returns exactly output and status for every fragmentation. *)
From TV Require Import Base BaseLemmas Utf8 Regex Channel ChannelLemmas ProofC02 ProofC03 Hush Session ProofSession ProofC19 Sh.
From Coq Require Import ZifyBool ZifyN.

Local Open Scope N_scope.

(* ------------------------------------------------------------------ quoting *)
Lemma safe_ordinary c : is_safe c = true -> sh_ordinary c = true.
Proof. intros H. unfold sh_ordinary. rewrite H. reflexivity. Qed.

Lemma shp_step_safe c r cur has acc : is_safe c = true ->
  shparse (c :: r) QN cur has acc = shparse r QN (cur ++ [c]) true acc.
Proof.
  intros Hc. destruct (is_safe_range c Hc) as (_ & A1 & _ & A3 & A4 & A5 & A6 & _).
  cbn [shparse]. rewrite (eqb_false _ _ A3), (eqb_false _ _ A4), (eqb_false _ _ A5), (eqb_false _ _ A6), (eqb_false _ _ A1).
  cbn [orb]. rewrite (safe_ordinary c Hc). reflexivity.
Qed.

Lemma shp_safe s : forall c rest cur has acc, forallb is_safe (c :: s) = true ->
  shparse ((c :: s) ++ rest) QN cur has acc = shparse rest QN (cur ++ c :: s) true acc.
Proof.
  induction s as [|d s IH]; intros c rest cur has acc H; cbn [forallb] in H; apply andb_prop in H; destruct H as [Hc Hs];
    cbn [app]; rewrite (shp_step_safe c _ cur has acc Hc).
  - reflexivity.
  - change (d :: s ++ rest) with ((d :: s) ++ rest). rewrite IH by exact Hs. rewrite <- app_assoc. reflexivity.
Qed.

Lemma shp_sq_body s : forall rest cur acc,
  shparse (flat_map shq_char s ++ 39 :: rest) QS cur true acc = shparse rest QN (cur ++ s) true acc.
Proof.
  induction s as [|c s IH]; intros rest cur acc; cbn [flat_map app].
  - cbn [shparse]. rewrite N.eqb_refl, app_nil_r. reflexivity.
  - unfold shq_char at 1. destruct (N.eqb_spec c 39) as [->|N39].
    + cbn [app shparse]. change (39 =? 39) with true. change (34 =? 39) with false. change (34 =? 34) with true.
      change (39 =? 34) with false. change (39 =? 36) with false. change (39 =? 96) with false. change (39 =? 92) with false.
      cbv iota. cbn [orb]. cbv iota. rewrite IH, <- app_assoc. reflexivity.
    + cbn [app shparse]. rewrite (eqb_false _ _ N39). rewrite IH, <- app_assoc. reflexivity.
Qed.

Lemma shp_quote_word a rest acc :
  shparse (sh_quote a ++ rest) QN [] false acc = shparse rest QN a true acc.
Proof.
  unfold sh_quote. destruct a as [|c a'].
  - reflexivity.
  - destruct (forallb is_safe (c :: a')) eqn:Hs.
    + apply (shp_safe a' c rest [] false acc Hs).
    + rewrite <- !app_assoc. cbn [app shparse]. change (39 =? 39) with true. cbv iota.
      apply (shp_sq_body (c :: a') rest [] acc).
Qed.

Lemma shp_words_go args : forall acc,
  shparse (join_sp (map sh_quote args)) QN [] false acc = Some (acc ++ args).
Proof.
  induction args as [|a args IH]; intros acc.
  - cbn. rewrite app_nil_r. reflexivity.
  - destruct args as [|b args'].
    + cbn [map join_sp]. rewrite <- (app_nil_r (sh_quote a)), shp_quote_word. reflexivity.
    + change (join_sp (map sh_quote (a :: b :: args')))
        with (sh_quote a ++ [32] ++ join_sp (map sh_quote (b :: args'))).
      rewrite shp_quote_word. cbn [app shparse]. change (32 =? 39) with false. change (32 =? 34) with false.
      change (32 =? 32) with true. cbn [orb]. cbv iota. rewrite IH, <- app_assoc. reflexivity.
Qed.

Definition nonul (s : list N) : Prop := mem_N 0 s = false.

Lemma mem_N_app x a b : mem_N x (a ++ b) = mem_N x a || mem_N x b.
Proof. induction a as [|y a IH]; cbn [app mem_N]; [reflexivity|]. rewrite IH. apply orb_assoc. Qed.

Lemma nonul_app a b : nonul (a ++ b) <-> nonul a /\ nonul b.
Proof. unfold nonul. rewrite mem_N_app, orb_false_iff. tauto. Qed.

Lemma nonul_quote a : nonul a -> nonul (sh_quote a).
Proof.
  intros H. unfold sh_quote. destruct a as [|c a']; [reflexivity|]. remember (c :: a') as a.
  destruct (forallb is_safe a); [exact H|].
  apply nonul_app. split; [reflexivity|]. apply nonul_app. split; [|reflexivity].
  clear Heqa. induction a as [|x a IH]; [reflexivity|]. cbn [flat_map].
  change (x :: a) with ([x] ++ a) in H. apply nonul_app in H. destruct H as [Hx Ha].
  apply nonul_app. split; [|apply IH; exact Ha]. unfold shq_char. destruct (x =? 39); [reflexivity | exact Hx].
Qed.

Lemma nonul_join ws : Forall nonul ws -> nonul (join_sp ws).
Proof.
  induction 1 as [|w ws Hw Hws IH]; [reflexivity|]. destruct ws as [|w2 ws']; [exact Hw|].
  change (join_sp (w :: w2 :: ws')) with (w ++ [32] ++ join_sp (w2 :: ws')).
  apply nonul_app. split; [exact Hw|]. apply nonul_app. split; [reflexivity | exact IH].
Qed.

(* every list of strings without NUL is split by the shell into exactly those strings: one word per argument,
   no field splitting, globbing, expansion or injection *)
Theorem sh_quote_roundtrip args : Forall nonul args -> sh_words (sh_escape args) = Some args.
Proof.
  intros H. unfold sh_words, sh_escape.
  assert (P : nonul (join_sp (map sh_quote args))).
  { apply nonul_join. rewrite Forall_map. eapply Forall_impl; [|exact H]. intros a. apply nonul_quote. }
  unfold nonul in P. rewrite P. apply (shp_words_go args []).
Qed.

(* ---- the bytes sent *)
Lemma shq_high l : Forall (fun b => 128 <= b) l -> flat_map shq_char l = l.
Proof.
  induction 1 as [|b l Hb _ IH]; [reflexivity|]. cbn [flat_map]. rewrite IH. unfold shq_char.
  rewrite (eqb_false b 39) by lia. reflexivity.
Qed.

Lemma shq_enc s : flat_map shq_char (utf8_enc s) = utf8_enc (flat_map shq_char s).
Proof.
  induction s as [|c s IH]; [reflexivity|]. unfold utf8_enc in *. cbn [flat_map]. rewrite !flat_map_app, IH. f_equal.
  destruct (N.lt_ge_cases c 128) as [L|G].
  - rewrite enc1_ascii by exact L. cbn [flat_map]. rewrite app_nil_r. unfold shq_char.
    destruct (c =? 39); [reflexivity|]. cbn [flat_map]. rewrite enc1_ascii by exact L. reflexivity.
  - destruct (enc1_high c G) as [_ Hh]. rewrite (shq_high _ Hh). unfold shq_char.
    rewrite (eqb_false c 39) by lia. cbn [flat_map]. rewrite app_nil_r. reflexivity.
Qed.

Lemma sh_quote_utf8 s : utf8_enc (sh_quote s) = sh_quote (utf8_enc s).
Proof.
  unfold sh_quote. destruct s as [|c s']; [reflexivity|]. remember (c :: s') as s eqn:Es.
  destruct (utf8_enc s) as [|b r] eqn:Ee; [apply enc_nil in Ee; subst; discriminate|]. rewrite <- Ee.
  rewrite forallb_safe_enc. destruct (forallb is_safe s); [reflexivity|].
  rewrite !enc_app, shq_enc. reflexivity.
Qed.

Lemma sh_escape_utf8 args : utf8_enc (sh_escape args) = sh_escape (map utf8_enc args).
Proof.
  unfold sh_escape. induction args as [|a args IH]; [reflexivity|]. destruct args as [|b args'].
  - cbn [map join_sp]. apply sh_quote_utf8.
  - change (join_sp (map sh_quote (a :: b :: args'))) with (sh_quote a ++ [32] ++ join_sp (map sh_quote (b :: args'))).
    change (join_sp (map sh_quote (map utf8_enc (a :: b :: args'))))
      with (sh_quote (utf8_enc a) ++ [32] ++ join_sp (map sh_quote (map utf8_enc (b :: args')))).
    rewrite !enc_app, sh_quote_utf8, IH. reflexivity.
Qed.

Lemma nonul_enc s : nonul s -> nonul (utf8_enc s).
Proof.
  induction s as [|c s IH]; intros H; [reflexivity|]. change (c :: s) with ([c] ++ s) in H. apply nonul_app in H. destruct H as [Hc Hs].
  unfold utf8_enc. cbn [flat_map]. apply nonul_app. split; [|apply IH; exact Hs].
  destruct (N.lt_ge_cases c 128) as [L|G]; [rewrite enc1_ascii by exact L; exact Hc|].
  destruct (enc1_high c G) as [_ Hh]. unfold nonul. clear -Hh. induction Hh as [|b l Hb _ IH]; [reflexivity|].
  cbn [mem_N]. rewrite IH. cbn beta in Hb. rewrite (proj2 (N.eqb_neq 0 b)) by lia. reflexivity.
Qed.

Theorem sh_sent_roundtrip args :
  Forall nonul args -> sh_words (utf8_enc (sh_escape args)) = Some (map utf8_enc args).
Proof.
  intros H. rewrite sh_escape_utf8. apply sh_quote_roundtrip. rewrite Forall_map.
  eapply Forall_impl; [|exact H]. intros a. apply nonul_enc.
Qed.

(* ------------------------------------------------------------------ the echo and the read-back length *)
Local Close Scope N_scope.

Lemma echo_len_noctl s : length (tty_echo false s) = readback_len s.
Proof.
  unfold tty_echo, readback_len. induction s as [|c s IH]; [reflexivity|].
  cbn [flat_map count_N length]. rewrite app_length, IH. unfold echo1, CR, LF, TAB.
  destruct (N.eqb_spec c 13) as [->|N13]; [cbn; lia|].
  destruct (N.eqb_spec c 10) as [->|N10]; [cbn; lia|].
  rewrite (proj2 (N.eqb_neq 13 c)) by congruence. rewrite (proj2 (N.eqb_neq 10 c)) by congruence.
  cbn [orb]. destruct (c =? 9)%N; [cbn; lia|]. destruct ((c <? 32) || (c =? 127))%N; cbn; lia.
Qed.

(* with ECHOCTL the same holds only for lines free of control characters ... *)
Definition no_ctl (s : list N) : Prop := Forall (fun c => (c = 9 \/ c = 10 \/ c = 13 \/ (32 <= c /\ c <> 127))%N) s.

Lemma echo_len_ctl s : no_ctl s -> length (tty_echo true s) = readback_len s.
Proof.
  intros H. rewrite <- echo_len_noctl. unfold tty_echo. induction H as [|c s Hc _ IH]; [reflexivity|].
  cbn [flat_map]. rewrite !app_length, IH. f_equal. unfold echo1, CR, LF, TAB.
  destruct ((c =? 13) || (c =? 10))%N eqn:E0; [reflexivity|]. destruct (c =? 9)%N eqn:E9; [reflexivity|].
  destruct ((c <? 32) || (c =? 127))%N eqn:E; [|reflexivity]. exfalso. cbn beta in Hc. lia.
Qed.

(* ... and fails otherwise: the defect of the tree before the stty -echoctl fix (one byte of echo is left over) *)
Example echo_len_ctl_refuted : exists s, length (tty_echo true s) <> readback_len s.
Proof. exists [1%N]. vm_compute. discriminate. Qed.

(* ------------------------------------------------------------------ exec over the session *)
Theorem lx_exec_exact args P c st1 st2 sts out ds :
  insync c -> prompt c = Some (SLit P) -> P <> [] ->
  Forall nonul args ->
  any_in (blacklist c) (utf8_enc (sh_escape args) ++ [CR]) = false ->
  any_in (blacklist c) (ECHO_Q ++ [CR]) = false ->
  (* the tty echoes the line (ECHOCTL off), the program prints out (ONLCR applied), the shell prints PS1 *)
  wf_pend st1 -> cat st1 = tty_echo false (utf8_enc (sh_escape args) ++ [CR]) ++ onlcr out ++ P ->
  prompt_only_at_end P (onlcr out) ->
  wf_pend st2 -> cat st2 = tty_echo false (ECHO_Q ++ [CR]) ++ (ds ++ [CR; LF]) ++ P ->
  all_digits ds -> ds <> [] -> prompt_only_at_end P (ds ++ [CR; LF]) ->
  exists c',
    lx_exec args (st1 :: st2 :: sts) c = (XOk (dec_val ds) (text (onlcr out)), c', sts) /\
    insync c' /\
    wr (io c') = wr (io c) ++ (utf8_enc (sh_escape args) ++ [CR]) ++ (ECHO_Q ++ [CR]) /\
    sh_words (utf8_enc (sh_escape args)) = Some (map utf8_enc args) /\
    prompt c' = prompt c /\ blacklist c' = blacklist c.
Proof.
  intros Hin Hpr HP Hargs Hb1 Hb2 Hw1 Hc1 Ho1 Hw2 Hc2 Hds Hne Ho2.
  unfold lx_exec.
  assert (St : py_int (text (ds ++ [CR; LF])) = Some (dec_val ds)).
  { rewrite text_line by (apply digits_ascii; exact Hds). apply py_int_status; assumption. }
  destruct (exec_exact (utf8_enc (sh_escape args)) P c st1 st2 sts
              (tty_echo false (utf8_enc (sh_escape args) ++ [CR])) (onlcr out)
              (tty_echo false (ECHO_Q ++ [CR])) (ds ++ [CR; LF]) (dec_val ds)
              Hin Hpr HP Hb1 Hb2 Hw1 Hc1 (echo_len_noctl _) Ho1 Hw2 Hc2 (echo_len_noctl _) Ho2 St)
    as (c' & E & A & B & C & D).
  exists c'. split; [exact E|]. split; [exact A|]. split; [exact B|].
  split; [apply sh_sent_roundtrip; exact Hargs | auto].
Qed.

Theorem lx_exec0_iff args sts c st out c' sts' :
  lx_exec args sts c = (XOk st out, c', sts') ->
  lx_exec0 args sts c = (if (st =? 0)%Z then X0Ok out else X0Failure st, c', sts') /\
  lx_test args sts c = (TBool (st =? 0)%Z, c', sts').
Proof. intros H. unfold lx_exec0, lx_test. rewrite H. split; reflexivity. Qed.

(* an argument with a forbidden byte: IllegalDataException, nothing is sent, the channel is untouched *)
Theorem lx_blacklist_rejects args sts c :
  any_in (blacklist c) (utf8_enc (sh_escape args) ++ [CR]) = true ->
  lx_exec args sts c = (XErr EIllegal, c, sts).
Proof. intros H. unfold lx_exec, exec_model. rewrite H. reflexivity. Qed.

(* ---- CR LF normalisation gives back what the program printed (ASCII output without CR) *)
Lemma replace2_absent a b r l : Forall (fun x => x <> b) l -> replace2 a b r l = l.
Proof.
  induction l as [|x l IH]; intros H; [reflexivity|]. inversion H as [|? ? Hx Hl]; subst.
  destruct l as [|y u]; [reflexivity|].
  change (replace2 a b r (x :: y :: u)) with (if N.eqb x a && N.eqb y b then r :: replace2 a b r u else x :: replace2 a b r (y :: u)).
  inversion Hl as [|? ? Hy _]; subst. rewrite (proj2 (N.eqb_neq y b) Hy), andb_false_r, IH by exact Hl. reflexivity.
Qed.

Lemma onlcr_ascii out : Forall (fun b => (b < 128)%N /\ b <> CR) out -> Forall (fun b => (b < 128)%N) (onlcr out).
Proof.
  intros H. unfold onlcr. induction H as [|b l [Hb _] _ IH]; [constructor|]. cbn [flat_map]. apply Forall_app. split; [|exact IH].
  destruct (b =? LF)%N; repeat constructor; unfold CR, LF; try lia.
Qed.

Lemma crlf_onlcr out : Forall (fun b => (b < 128)%N /\ b <> CR) out -> replace2 CR LF LF (onlcr out) = out.
Proof.
  intros H. unfold onlcr. induction H as [|b l [_ Hb] _ IH]; [reflexivity|]. cbn [flat_map].
  destruct (N.eqb_spec b LF) as [->|NLF].
  - cbn [app]. change (replace2 CR LF LF (CR :: LF :: flat_map (fun c : N => if (c =? LF)%N then [CR; LF] else [c]) l))
      with (LF :: replace2 CR LF LF (flat_map (fun c : N => if (c =? LF)%N then [CR; LF] else [c]) l)).
    rewrite IH. reflexivity.
  - cbn [app]. rewrite replace2_cons_no by exact Hb. rewrite IH. reflexivity.
Qed.

Lemma text_onlcr_ascii out : Forall (fun b => (b < 128)%N /\ b <> CR) out -> text (onlcr out) = out.
Proof.
  intros H. unfold text, norm. rewrite utf8_dec_ascii by (apply onlcr_ascii; exact H). rewrite crlf_onlcr by exact H.
  apply replace2_absent. eapply Forall_impl; [|exact H]. cbn. intros a [_ Ha]. exact Ha.
Qed.

(* the channels of the correspondence suites `exec` and `exec_slow` meet the hypotheses of lx_exec_exact: whatever the
   transport's accept pattern, and for every slow-send configuration with a positive chunk size *)
Lemma lx_chan_insync ash acc : insync (lx_chan ash acc) /\ prompt (lx_chan ash acc) = Some (SLit TBOT_PROMPT).
Proof. unfold insync, quiet, wfc, wf_pend, slow_ok, lx_chan. cbn. repeat split; constructor. Qed.

Lemma lx_chan_slow_insync ash acc delay csz : 0 < csz ->
  insync (lx_chan_slow ash acc (delay, csz)) /\ prompt (lx_chan_slow ash acc (delay, csz)) = Some (SLit TBOT_PROMPT).
Proof. intros H. unfold insync, quiet, wfc, wf_pend, slow_ok, lx_chan_slow, lx_chan. cbn. repeat split; try constructor; exact H. Qed.

(* ... so exec is exact on them: in particular slow sending (chunks of at most csz bytes, a pause after each) over a
   transport that accepts fewer bytes than offered sends exactly the same two lines *)
Theorem lx_exec_exact_slow ash acc delay csz args st1 st2 sts out ds :
  0 < csz ->
  let c := lx_chan_slow ash acc (delay, csz) in
  Forall nonul args ->
  any_in (blacklist c) (utf8_enc (sh_escape args) ++ [CR]) = false ->
  any_in (blacklist c) (ECHO_Q ++ [CR]) = false ->
  wf_pend st1 -> cat st1 = tty_echo false (utf8_enc (sh_escape args) ++ [CR]) ++ onlcr out ++ TBOT_PROMPT ->
  prompt_only_at_end TBOT_PROMPT (onlcr out) ->
  wf_pend st2 -> cat st2 = tty_echo false (ECHO_Q ++ [CR]) ++ (ds ++ [CR; LF]) ++ TBOT_PROMPT ->
  all_digits ds -> ds <> [] -> prompt_only_at_end TBOT_PROMPT (ds ++ [CR; LF]) ->
  exists c',
    lx_exec args (st1 :: st2 :: sts) c = (XOk (dec_val ds) (text (onlcr out)), c', sts) /\
    insync c' /\
    wr (io c') = (utf8_enc (sh_escape args) ++ [CR]) ++ (ECHO_Q ++ [CR]) /\
    sh_words (utf8_enc (sh_escape args)) = Some (map utf8_enc args).
Proof.
  intros Hc c Hargs Hb1 Hb2 Hw1 Hc1 Ho1 Hw2 Hc2 Hds Hne Ho2.
  destruct (lx_chan_slow_insync ash acc delay csz Hc) as [Hin Hpr].
  destruct (lx_exec_exact args TBOT_PROMPT c st1 st2 sts out ds Hin Hpr ltac:(discriminate) Hargs Hb1 Hb2 Hw1 Hc1 Ho1 Hw2 Hc2 Hds Hne Ho2)
    as (c' & E & Hin' & Hwr & Hsw & Hp' & Hbl').
  exists c'. split; [exact E|]. split; [exact Hin'|]. split; [|exact Hsw].
  rewrite Hwr. reflexivity.
Qed.
