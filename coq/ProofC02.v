(* ProofC02.v -- read_until_prompt: soundness of the return, exactness of the result,
   independence of the fragmentation. *)
From TV Require Import Base BaseLemmas Utf8 Regex Channel ChannelLemmas.

(* one-step unfolding: the loop looks at the WHOLE buffer after every piece and returns at once *)
Lemma rup_loop_step f start tmo buf c :
  rup_loop (S f) start tmo buf c =
  match iter_step start tmo READ_CHUNK_SIZE c with
  | (STimeout, c') => (ETimeout, c')
  | (SBlocked, c') => (EBlocked, c')
  | (SDeath e mt, c') => (EDeath e mt, c')
  | (SData new, c') =>
      match prompt_split (prompt c') (buf ++ new) with
      | Some k => (Ret (text (firstn k (buf ++ new))), c')
      | None => rup_loop f start tmo (buf ++ new) c'
      end
  end.
Proof. reflexivity. Qed.


(* whenever the loop returns normally: what it consumed is exactly `data`, everything received
   (buf ++ data) satisfies the prompt test at position k, the result is the text before k,
   and nothing else of the channel changed *)
Lemma rup_loop_sound fuel : forall start tmo buf c out c',
  wfc c -> rup_loop fuel start tmo buf c = (Ret out, c') ->
  exists data k,
    data <> [] /\ cpend c = data ++ cpend c' /\
    prompt_split (prompt c) (buf ++ data) = Some k /\
    out = text (firstn k (buf ++ data)) /\ same_cfg c c' /\ wfc c'.
Proof.
  induction fuel as [|f IH]; intros start tmo buf c out c' Hw H; [discriminate|].
  rewrite rup_loop_step in H.
  destruct (iter_step start tmo READ_CHUNK_SIZE c) as [r c1] eqn:Es.
  destruct (iter_step_spec _ _ _ _ _ _ Es chunk_pos Hw) as (Hcfg & Hw1 & _ & Hr).
  destruct r as [new| | |e mt]; try discriminate.
  destruct Hr as (Hne & _ & Hcat & _).
  assert (Hp : prompt c1 = prompt c) by (destruct Hcfg; assumption).
  destruct (prompt_split (prompt c1) (buf ++ new)) as [k|] eqn:Eps.
  - injection H as <- <-. exists new, k. rewrite <- Hp. auto 10.
  - destruct (IH _ _ _ _ _ _ Hw1 H) as (data & k & D1 & D2 & D3 & D4 & D5 & D6).
    exists (new ++ data), k. rewrite Hp in D3. rewrite <- app_assoc in D3, D4.
    split; [destruct new; simpl; congruence|].
    split; [rewrite Hcat, D2, app_assoc; reflexivity|].
    split; [rewrite app_assoc; rewrite <- app_assoc; exact D3|].
    split; [exact D4|]. split; [eapply same_cfg_trans; eauto | exact D6].
Qed.

(* "the only prompt occurrence is the tail": the prompt test succeeds on the whole stream (k bytes
   precede the prompt) and fails on every proper prefix of it *)
Definition only_tail (test : list N -> option nat) (S : list N) (k : nat) : Prop :=
  test S = Some k /\ forall b c, S = b ++ c -> c <> [] -> test b = None.

Lemma rup_loop_split_independent fuel : forall start buf c S k,
  wfc c -> deaths c = [] -> pend (io c) <> [] -> buf ++ cpend c = S ->
  only_tail (prompt_split (prompt c)) S k ->
  tot (pend (io c)) < fuel ->
  exists c', rup_loop fuel start None buf c = (Ret (text (firstn k S)), c') /\
             pend (io c') = [] /\ same_cfg c c' /\ deaths c' = [].
Proof.
  induction fuel as [|f IH]; intros start buf c S k Hw Hd Hp HS [Hk Hpre] Hfuel; [lia|].
  rewrite rup_loop_step.
  destruct (iter_step_none_data start READ_CHUNK_SIZE c chunk_pos Hw Hp Hd) as (new & c1 & Es).
  rewrite Es.
  destruct (iter_step_spec _ _ _ _ _ _ Es chunk_pos Hw) as (Hcfg & Hw1 & _ & Hne & _ & Hcat & Htot).
  destruct (iter_step_deaths_nil _ _ _ _ _ _ Es Hd) as (Hd1 & _).
  assert (Hpr : prompt c1 = prompt c) by (destruct Hcfg; assumption).
  rewrite Hpr.
  destruct (pend (io c1)) as [|e rest] eqn:Ep1.
  - (* everything has been received: buf ++ new = S *)
    assert (E : buf ++ new = S).
    { rewrite <- HS, Hcat. unfold cpend. rewrite Ep1. unfold cat; simpl. rewrite app_nil_r. reflexivity. }
    rewrite E, Hk. exists c1. auto.
  - (* a proper prefix: the test fails, the loop goes on *)
    assert (Hrest : cpend c1 <> []).
    { unfold cpend, wfc in *. rewrite Ep1 in *. inversion Hw1 as [|? ? Hx _]; subst.
      unfold cat; simpl. destruct (snd e); [congruence | simpl; congruence]. }
    assert (E : S = (buf ++ new) ++ cpend c1).
    { rewrite <- HS, Hcat, app_assoc. reflexivity. }
    rewrite (Hpre _ _ E Hrest).
    destruct (IH start (buf ++ new) c1 S k) as (c' & R1 & R2 & R3 & R4); auto.
    + rewrite Ep1; congruence.
    + rewrite Hpr. split; assumption.
    + rewrite Ep1. lia.
    + exists c'. split; [exact R1|]. split; [exact R2|]. split; [eapply same_cfg_trans; eauto | exact R4].
Qed.

Lemma fuel_of_enough c : tot (pend (io c)) < fuel_of c.
Proof. unfold fuel_of. rewrite total_pending_tot. lia. Qed.

(* ---- the statement for the public operation, prompt set on the channel ---- *)
Theorem rup_split_independent_channel c1 c2 S k :
  wfc c1 -> wfc c2 -> deaths c1 = [] -> deaths c2 = [] ->
  prompt c1 = prompt c2 ->
  cpend c1 = S -> cpend c2 = S -> S <> [] ->
  only_tail (prompt_split (prompt c1)) S k ->
  exists c1' c2',
    read_until_prompt None None c1 = (Ret (text (firstn k S)), c1') /\
    read_until_prompt None None c2 = (Ret (text (firstn k S)), c2') /\
    pend (io c1') = [] /\ pend (io c2') = [].
Proof.
  intros Hw1 Hw2 Hd1 Hd2 Hp E1 E2 HS Ht. unfold read_until_prompt.
  assert (P1 : pend (io c1) <> []).
  { intro X. unfold cpend in E1. rewrite X in E1. unfold cat in E1; simpl in E1. congruence. }
  assert (P2 : pend (io c2) <> []).
  { intro X. unfold cpend in E2. rewrite X in E2. unfold cat in E2; simpl in E2. congruence. }
  assert (Ht2 : only_tail (prompt_split (prompt c2)) S k) by (rewrite <- Hp; exact Ht).
  destruct (rup_loop_split_independent (fuel_of c1) (now (io c1)) [] c1 S k
              Hw1 Hd1 P1 E1 Ht (fuel_of_enough c1)) as (c1' & A1 & A2 & _).
  destruct (rup_loop_split_independent (fuel_of c2) (now (io c2)) [] c2 S k
              Hw2 Hd2 P2 E2 Ht2 (fuel_of_enough c2)) as (c2' & B1 & B2 & _).
  exists c1', c2'. auto.
Qed.

(* ---- prompt passed per call ---- *)
Theorem rup_split_independent_per_call p c1 c2 S k :
  wfc c1 -> wfc c2 -> deaths c1 = [] -> deaths c2 = [] ->
  cpend c1 = S -> cpend c2 = S -> S <> [] ->
  only_tail (prompt_split (Some p)) S k ->
  exists c1' c2',
    read_until_prompt (Some p) None c1 = (Ret (text (firstn k S)), c1') /\
    read_until_prompt (Some p) None c2 = (Ret (text (firstn k S)), c2') /\
    pend (io c1') = [] /\ pend (io c2') = [] /\
    prompt c1' = prompt c1 /\ prompt c2' = prompt c2.
Proof.
  intros Hw1 Hw2 Hd1 Hd2 E1 E2 HS Ht. unfold read_until_prompt.
  assert (P1 : pend (io c1) <> []).
  { intro X. unfold cpend in E1. rewrite X in E1. unfold cat in E1; simpl in E1. congruence. }
  assert (P2 : pend (io c2) <> []).
  { intro X. unfold cpend in E2. rewrite X in E2. unfold cat in E2; simpl in E2. congruence. }
  destruct (rup_loop_split_independent (fuel_of c1) (now (io c1)) [] (with_prompt c1 (Some p)) S k
              Hw1 Hd1 P1 E1 Ht (fuel_of_enough c1)) as (c1' & A1 & A2 & _).
  destruct (rup_loop_split_independent (fuel_of c2) (now (io c2)) [] (with_prompt c2 (Some p)) S k
              Hw2 Hd2 P2 E2 Ht (fuel_of_enough c2)) as (c2' & B1 & B2 & _).
  rewrite A1, B1. exists (with_prompt c1' (prompt c1)), (with_prompt c2' (prompt c2)). simpl. auto 10.
Qed.

(* ---- what the prompt test means ---- *)
Lemma prompt_split_literal pl buf k :
  prompt_split (Some (SLit pl)) buf = Some k <-> buf = firstn k buf ++ pl /\ k = length buf - length pl.
Proof.
  simpl. destruct (is_suffix pl buf) eqn:E; split.
  - intros [= <-]. apply is_suffix_spec in E as [t ->]. rewrite app_length.
    replace (length t + length pl - length pl) with (length t) by lia.
    rewrite firstn_app_exact. auto.
  - intros [_ ->]. reflexivity.
  - discriminate.
  - intros [H _]. assert (is_suffix pl buf = true) by (apply is_suffix_spec; eauto). congruence.
Qed.

(* a stream whose only occurrence of the literal prompt is its tail *)
Lemma only_tail_literal pl O :
  pl <> [] ->
  (forall b c, O ++ pl = b ++ c -> c <> [] -> is_suffix pl b = false) ->
  only_tail (prompt_split (Some (SLit pl))) (O ++ pl) (length O).
Proof.
  intros Hne H. split.
  - simpl. rewrite is_suffix_app, app_length. f_equal. lia.
  - intros b c E Hc. simpl. rewrite (H b c E Hc). reflexivity.
Qed.

(* with no timeout, read_until_prompt never raises TimeoutError *)
Lemma rup_loop_none_no_timeout fuel : forall start buf c c',
  rup_loop fuel start None buf c <> (ETimeout, c').
Proof.
  induction fuel as [|f IH]; intros start buf c c'; [discriminate|].
  rewrite rup_loop_step.
  destruct (iter_step start None READ_CHUNK_SIZE c) as [r c1] eqn:Es.
  pose proof (iter_step_none_no_timeout _ _ _ _ _ Es chunk_pos) as Hnt.
  destruct r; try congruence; try discriminate.
  destruct (prompt_split _ _); [discriminate | apply IH].
Qed.

From TV Require Import RegexLemmas.

(* regex prompts: the test succeeds exactly at the least k from which the REST OF THE BUFFER is a
   word of the prompt's language -- i.e. everything received so far ends with the prompt *)
Lemma prompt_split_regex r buf k :
  prompt_split (Some (SRe r)) buf = Some k ->
  k <= length buf /\ lang r (skipn k buf) /\ forall j, j < k -> ~ lang r (skipn j buf).
Proof.
  simpl. destruct (search_end r buf) as [[a b]|] eqn:E; [|discriminate].
  intros [= <-]. eapply search_end_spec; eauto.
Qed.

Lemma prompt_split_regex_none r buf :
  prompt_split (Some (SRe r)) buf = None -> forall j, j <= length buf -> ~ lang r (skipn j buf).
Proof.
  simpl. destruct (search_end r buf) as [[a b]|] eqn:E; [discriminate|].
  intros _. eapply search_end_none; eauto.
Qed.

(* non-vacuity: a concrete stream "ab=> x=> " cut into three pieces satisfies the hypotheses of the
   split-independence theorems, for a literal and for a regex prompt *)
Definition ex_prompt : list N := [61; 62; 32]%N.
Definition ex_stream : list N := [97; 98; 61; 62; 120; 61; 62; 32]%N.   (* ab=>x=>_ *)
Definition ex_chan (p : sstr) : chan :=
  with_prompt (chan_init [(0%Z, [97; 98; 61]%N); (5%Z, [62; 120; 61; 62]%N); (9%Z, [32]%N)] []) (Some p).

Fixpoint all_prefixes_fail (test : list N -> option nat) (pre rest : list N) : bool :=
  match rest with
  | [] => true
  | x :: rest' => match test pre with None => all_prefixes_fail test (pre ++ [x]) rest' | Some _ => false end
  end.

Lemma all_prefixes_fail_spec test : forall rest pre,
  all_prefixes_fail test pre rest = true ->
  forall b c, pre ++ rest = b ++ c -> c <> [] -> length pre <= length b -> test b = None.
Proof.
  induction rest as [|x rest IH]; intros pre H b c E Hc Hl.
  - rewrite app_nil_r in E. subst pre. rewrite app_length in Hl. destruct c; [congruence | simpl in Hl; lia].
  - simpl in H. destruct (test pre) eqn:Et; [discriminate|].
    destruct (Nat.eq_dec (length b) (length pre)) as [El|El].
    + assert (b = pre).
      { apply (f_equal (firstn (length pre))) in E. rewrite firstn_app_exact in E.
        rewrite <- El, firstn_app_exact in E. congruence. }
      subst b. exact Et.
    + apply (IH (pre ++ [x]) H b c); auto.
      * rewrite <- app_assoc. exact E.
      * rewrite app_length; simpl. lia.
Qed.

Example only_tail_example_literal :
  only_tail (prompt_split (Some (SLit ex_prompt))) ex_stream 5.
Proof.
  split; [vm_compute; reflexivity|]. intros b c E Hc.
  assert (H : all_prefixes_fail (prompt_split (Some (SLit ex_prompt))) [] ex_stream = true) by (vm_compute; reflexivity).
  apply (all_prefixes_fail_spec _ _ _ H b c E Hc). simpl; lia.
Qed.

Definition ex_re : re := RSeq (RRep (RCls false [(48, 57)]%N) 0 3) (RSeq (RChr 62) (RChr 32)).
Definition ex_stream_re : list N := [97; 62; 120; 49; 50; 62; 32]%N.   (* a>x12>_ *)
Example only_tail_example_regex :
  only_tail (prompt_split (Some (SRe ex_re))) ex_stream_re 3.
Proof.
  split; [vm_compute; reflexivity|]. intros b c E Hc.
  assert (H : all_prefixes_fail (prompt_split (Some (SRe ex_re))) [] ex_stream_re = true) by (vm_compute; reflexivity).
  apply (all_prefixes_fail_spec _ _ _ H b c E Hc). simpl; lia.
Qed.

Example rup_example_runs :
  fst (read_until_prompt None None (ex_chan (SLit ex_prompt))) = Ret [97; 98; 61; 62; 120]%N.
Proof. vm_compute. reflexivity. Qed.
