(* ProofC03.v -- raw channel I/O: conservation of the byte stream on the read side,
   completeness / prefix property of the write side. *)
From TV Require Import Base BaseLemmas Utf8 Regex Channel ChannelLemmas ProofC02.

(* ------------------------------------------------------------------ read_iter with a maximum *)
Lemma maxread_pos mx got : got < mx -> 0 < maxread_of (Some mx) got.
Proof. unfold maxread_of. intros; apply Nat.min_glb_lt; [apply chunk_pos | lia]. Qed.

Lemma maxread_le mx got : maxread_of (Some mx) got <= mx - got.
Proof. unfold maxread_of. apply Nat.le_min_r. Qed.

Lemma maxread_le_chunk mx got : maxread_of mx got <= READ_CHUNK_SIZE.
Proof. unfold maxread_of. destruct mx; [apply Nat.le_min_l | lia]. Qed.

(* The loop never takes more than mx - got bytes from the transport, whatever happens; what it yields
   is a prefix of what it took; on normal termination it yielded everything it took and exactly
   mx - got bytes. *)
Lemma read_iter_loop_spec fuel : forall start tmo mx got acc c chs r c',
  wfc c -> got < mx ->
  read_iter_loop fuel start tmo (Some mx) got acc c = (chs, r, c') ->
  exists yielded lost,
    concat chs = concat (rev acc) ++ yielded /\
    cpend c = (yielded ++ lost) ++ cpend c' /\
    got + length (yielded ++ lost) <= mx /\
    (r = Ret tt -> lost = [] /\ got + length yielded = mx) /\
    same_cfg c c' /\ wfc c'.
Proof.
  induction fuel as [|f IH]; intros start tmo mx got acc c chs r c' Hw Hlt H.
  { simpl in H. injection H as <- <- <-. exists [], []. rewrite app_nil_r. simpl.
    split; [reflexivity|]. split; [reflexivity|]. split; [lia|]. split; [discriminate|].
    split; [apply same_cfg_refl | assumption]. }
  rewrite read_iter_loop_step in H.
  destruct (iter_step start tmo (maxread_of (Some mx) got) c) as [sr c1] eqn:Es.
  destruct (iter_step_spec _ _ _ _ _ _ Es (maxread_pos _ _ Hlt) Hw) as (Hcfg & Hw1 & _ & Hr).
  pose proof (maxread_le mx got) as Hmr.
  destruct sr as [new| | |e mt].
  - destruct Hr as (Hne & Hlen & Hcat & _).
    destruct (Nat.eqb (got + length new) mx) eqn:Eq.
    + apply Nat.eqb_eq in Eq. injection H as <- <- <-.
      exists new, []. rewrite app_nil_r.
      split; [simpl; rewrite concat_app; simpl; rewrite app_nil_r; reflexivity|].
      split; [exact Hcat|]. split; [lia|]. split; [intros _; split; [reflexivity | exact Eq]|].
      split; assumption.
    + apply Nat.eqb_neq in Eq.
      assert (Hlt2 : got + length new < mx) by lia.
      destruct (IH _ _ _ _ _ _ _ _ _ Hw1 Hlt2 H) as (y & l & A1 & A2 & A3 & A4 & A5 & A6).
      exists (new ++ y), l. simpl in A1. rewrite concat_app in A1. simpl in A1. rewrite app_nil_r in A1.
      split; [rewrite A1, app_assoc; reflexivity|].
      split; [rewrite Hcat, A2, !app_assoc; reflexivity|].
      split; [rewrite <- app_assoc, app_length; lia|].
      split; [intros Hret; destruct (A4 Hret) as [-> A4']; split; [reflexivity | rewrite app_length; lia]|].
      split; [eapply same_cfg_trans; eauto | exact A6].
  - destruct Hr as (Hp & _). injection H as <- <- <-. exists [], [].
    rewrite app_nil_r. simpl. unfold cpend. rewrite Hp.
    split; [reflexivity|]. split; [reflexivity|]. split; [lia|]. split; [discriminate|]. split; assumption.
  - destruct Hr as (Hp & Hp0 & _). injection H as <- <- <-. exists [], [].
    rewrite app_nil_r. simpl. unfold cpend. rewrite Hp, Hp0.
    split; [reflexivity|]. split; [reflexivity|]. split; [lia|]. split; [discriminate|]. split; assumption.
  - destruct Hr as (new & Hne & Hcat & _). injection H as <- <- <-.
    (* bytes consumed by the iteration in which a death string fires are lost with the exception *)
    assert (Hlen : length new <= maxread_of (Some mx) got).
    { (* re-derive the size bound from the transport *)
      unfold iter_step in Es.
      destruct (match match tmo with Some T => Some (T - (now (io c) - start))%Z | None => None end with
                | Some r0 => (r0 <=? 0)%Z | None => false end); [discriminate|].
      destruct (io_read _ _ (io c)) as [res io'] eqn:Eio. destruct res as [d| |]; try discriminate.
      destruct (io_read_data _ _ _ _ _ Eio (maxread_pos _ _ Hlt) Hw) as (_ & D2 & D3 & _).
      destruct (write_stream_frame d (with_io c io')) as (W1 & _).
      destruct (check d (write_stream d (with_io c io'))) as [[[e' mt']|] c2] eqn:Ec; [|discriminate].
      destruct (check_frame _ _ _ _ Ec) as (C1 & _). injection Es as _ _ <-.
      unfold cpend in Hcat. rewrite C1, W1 in Hcat. simpl in Hcat. rewrite D3 in Hcat.
      apply app_inv_tail in Hcat. subst. exact D2. }
    exists [], new. rewrite app_nil_r. simpl.
    split; [reflexivity|]. split; [exact Hcat|]. split; [lia|]. split; [discriminate|]. split; assumption.
Qed.

(* Channel.read(n), n > 0: exactly n bytes, exactly what was taken from the transport *)
Lemma read_n_exact n tmo c d c' :
  wfc c -> 0 < n -> read (Z.of_nat n) tmo c = (Ret d, c') ->
  length d = n /\ cpend c = d ++ cpend c' /\ same_cfg c c' /\ wfc c'.
Proof.
  intros Hw Hn. unfold read.
  destruct (Z.of_nat n <? 0)%Z eqn:E; [apply Z.ltb_lt in E; lia|].
  rewrite Nat2Z.id. unfold read_iter.
  destruct (read_iter_loop _ _ _ _ _ _ _) as [[chs r] c1] eqn:El.
  destruct (read_iter_loop_spec _ _ _ _ _ _ _ _ _ _ Hw Hn El) as (y & l & A1 & A2 & A3 & A4 & A5 & A6).
  destruct r; simpl; try discriminate. intros [= <- <-].
  destruct a. destruct (A4 eq_refl) as [-> A4']. simpl in A1. rewrite app_nil_r in A2.
  rewrite A1. auto.
Qed.

(* whatever happens (timeout, death string, blocked), read(n) never takes more than n bytes *)
Lemma read_n_never_overreads n tmo c r c' :
  wfc c -> 0 < n -> read (Z.of_nat n) tmo c = (r, c') ->
  exists taken, cpend c = taken ++ cpend c' /\ length taken <= n.
Proof.
  intros Hw Hn. unfold read.
  destruct (Z.of_nat n <? 0)%Z eqn:E; [apply Z.ltb_lt in E; lia|].
  rewrite Nat2Z.id. unfold read_iter.
  destruct (read_iter_loop _ _ _ _ _ _ _) as [[chs r1] c1] eqn:El.
  destruct (read_iter_loop_spec _ _ _ _ _ _ _ _ _ _ Hw Hn El) as (y & l & A1 & A2 & A3 & A4 & A5 & A6).
  intros H. assert (c' = c1) by (destruct r1; injection H; auto). subst c1.
  exists (y ++ l). split; [exact A2 | lia].
Qed.

(* Channel.read() (n = -1): one piece, exactly what was taken *)
Lemma read_any_exact tmo c d c' :
  wfc c -> read (-1) tmo c = (Ret d, c') ->
  d <> [] /\ cpend c = d ++ cpend c' /\ same_cfg c c' /\ wfc c'.
Proof.
  intros Hw. unfold read. replace (-1 <? 0)%Z with true by reflexivity. cbv iota.
  destruct (io_read READ_CHUNK_SIZE tmo (io c)) as [res io'] eqn:Eio.
  destruct res as [buf| |]; try (intros X; discriminate X).
  destruct (io_read_data _ _ _ _ _ Eio chunk_pos Hw) as (D1 & D2 & D3 & D4 & _ & _ & _ & D8 & D9).
  destruct (write_stream_frame buf (with_io c io')) as (W1 & W2 & W3 & W4 & W5 & W6).
  destruct (check buf (write_stream buf (with_io c io'))) as [[[e mt]|] c2] eqn:Ec; [intros X; discriminate X|].
  destruct (check_frame _ _ _ _ Ec) as (C1 & C2 & C3 & C4 & C5 & C6).
  intros X; cbn in X; injection X as <- <-.
  assert (Eio' : io c2 = io') by (rewrite C1, W1; reflexivity).
  split; [exact D1|]. split; [unfold cpend; rewrite Eio'; exact D3|].
  split; [unfold same_cfg; rewrite C2, C4, C5, C6, W2, W4, W5, W6, Eio'; simpl; repeat split; auto|].
  unfold wfc; rewrite Eio'; exact D4.
Qed.

(* ------------------------------------------------------------------ readline *)
(* no proper prefix of the line (beyond what was there initially) ends with the line ending *)
Lemma readline_loop_spec fuel : forall start tmo le line c out c',
  wfc c -> readline_loop fuel start tmo le line c = (Ret out, c') ->
  exists data,
    data <> [] /\ cpend c = data ++ cpend c' /\ out = text (line ++ data) /\
    is_suffix le (line ++ data) = true /\
    (forall a b, data = a ++ b -> a <> [] -> b <> [] -> is_suffix le (line ++ a) = false) /\
    same_cfg c c' /\ wfc c'.
Proof.
  induction fuel as [|f IH]; intros start tmo le line c out c' Hw H; [discriminate|].
  rewrite readline_loop_step in H.
  destruct (read 1 _ c) as [r c1] eqn:Er.
  destruct r as [b| | | | | |]; try discriminate.
  change 1%Z with (Z.of_nat 1) in Er.
  destruct (read_n_exact 1 _ _ _ _ Hw ltac:(lia) Er) as (Hl & Hcat & Hcfg & Hw1).
  destruct b as [|x [|? ?]]; try discriminate.
  destruct (is_suffix le (line ++ [x])) eqn:Es.
  - injection H as <- <-. exists [x].
    split; [congruence|]. split; [exact Hcat|]. split; [reflexivity|]. split; [exact Es|].
    split. { intros a b E Ha Hb. destruct a as [|? [|? ?]]; destruct b; simpl in E; try congruence; discriminate. }
    split; assumption.
  - destruct (IH _ _ _ _ _ _ _ Hw1 H) as (data & D1 & D2 & D3 & D4 & D5 & D6 & D7).
    exists (x :: data). rewrite <- app_assoc in D3, D4. simpl in D3, D4.
    split; [congruence|]. split; [rewrite Hcat, D2; reflexivity|].
    split; [exact D3|]. split; [exact D4|].
    split.
    { intros a b E Ha Hb. destruct a as [|y a]; [congruence|]. simpl in E. injection E as <- E.
      destruct a as [|z a].
      - exact Es.
      - specialize (D5 (z :: a) b E ltac:(congruence) Hb).
        rewrite <- app_assoc in D5. exact D5. }
    split; [eapply same_cfg_trans; eauto | exact D7].
Qed.

(* ------------------------------------------------------------------ sequences of read calls *)
Inductive rdop : Type :=
| RdN (n : nat)                 (* read(n), n > 0 *)
| RdAny                         (* read() *)
| RdIter (mx : nat)             (* list(read_iter(max=mx)), mx > 0 *)
| RdLine (le : list N).         (* readline(lineending=le) *)

Definition rd_ok (o : rdop) : Prop :=
  match o with RdN n => 0 < n | RdIter mx => 0 < mx | _ => True end.

(* result: the value handed to the caller (bytes; for readline the decoded, normalised text) *)
Definition run_rd (tmo : option Z) (o : rdop) (c : chan) : res (list N) * chan :=
  match o with
  | RdN n => read (Z.of_nat n) tmo c
  | RdAny => read (-1) tmo c
  | RdIter mx => match read_iter (Some mx) tmo c with
                 | (chs, Ret _, c') => (Ret (concat chs), c')
                 | (_, e, c') => (lift_err e, c')
                 end
  | RdLine le => readline tmo le c
  end.

(* the raw bytes behind a returned value *)
Definition returned (o : rdop) (out data : list N) : Prop :=
  match o with RdLine _ => out = text data | _ => out = data end.

Lemma run_rd_conserves tmo o c out c' :
  wfc c -> rd_ok o -> run_rd tmo o c = (Ret out, c') ->
  exists data, returned o out data /\ cpend c = data ++ cpend c' /\ same_cfg c c' /\ wfc c'.
Proof.
  intros Hw Hok. destruct o as [n| |mx|le]; simpl in *.
  - intros H. destruct (read_n_exact _ _ _ _ _ Hw Hok H) as (_ & A & B & C). exists out; auto.
  - intros H. destruct (read_any_exact _ _ _ _ Hw H) as (_ & A & B & C). exists out; auto.
  - unfold read_iter. destruct (read_iter_loop _ _ _ _ _ _ _) as [[chs r] c1] eqn:El.
    destruct (read_iter_loop_spec _ _ _ _ _ _ _ _ _ _ Hw Hok El) as (y & l & A1 & A2 & A3 & A4 & A5 & A6).
    destruct r; simpl; try discriminate. intros [= <- <-]. destruct a.
    destruct (A4 eq_refl) as [-> _]. rewrite app_nil_r in A2. simpl in A1. exists y. rewrite A1. auto.
  - unfold readline. intros H.
    destruct (readline_loop_spec _ _ _ _ _ _ _ _ Hw H) as (data & _ & D2 & D3 & _ & _ & D6 & D7).
    exists data. auto.
Qed.

Fixpoint run_rds (tmo : option Z) (ops : list rdop) (c : chan) : option (list (list N)) * chan :=
  match ops with
  | [] => (Some [], c)
  | o :: ops' =>
      match run_rd tmo o c with
      | (Ret out, c1) => match run_rds tmo ops' c1 with
                         | (Some outs, c2) => (Some (out :: outs), c2)
                         | (None, c2) => (None, c2)
                         end
      | (_, c1) => (None, c1)
      end
  end.

(* any interleaving of successful read calls hands out the transport's bytes in order, each exactly
   once, and leaves exactly the rest unread -- for every fragmentation of the stream *)
Theorem reads_conserve tmo : forall ops c outs c',
  wfc c -> Forall rd_ok ops -> run_rds tmo ops c = (Some outs, c') ->
  exists datas, Forall2 (fun o_out d => returned (fst o_out) (snd o_out) d) (combine ops outs) datas /\
                length outs = length ops /\
                cpend c = concat datas ++ cpend c'.
Proof.
  induction ops as [|o ops IH]; intros c outs c' Hw Hok H; simpl in H.
  - injection H as <- <-. exists []. simpl. auto.
  - inversion Hok as [|? ? Ho Hoks]; subst.
    destruct (run_rd tmo o c) as [r c1] eqn:Er. destruct r as [out| | | | | |]; try discriminate.
    destruct (run_rds tmo ops c1) as [[outs1|] c2] eqn:Ers; try discriminate.
    injection H as <- <-.
    destruct (run_rd_conserves _ _ _ _ _ Hw Ho Er) as (data & R1 & R2 & _ & Hw1).
    destruct (IH _ _ _ Hw1 Hoks Ers) as (datas & F & L & Hc).
    exists (data :: datas). simpl. split; [constructor; auto|]. split; [lia|].
    rewrite R2, Hc, app_assoc. reflexivity.
Qed.

(* ------------------------------------------------------------------ write side *)
Lemma io_write_spec buf t k t' :
  io_write buf t = (k, t') -> buf <> [] ->
  1 <= k <= length buf /\ wr t' = wr t ++ firstn k buf /\ pend t' = pend t /\ now t' = now t.
Proof.
  unfold io_write. intros [= <- <-] Hne. cbn [wr pend now].
  assert (0 < length buf) by (destruct buf; [congruence | simpl; lia]).
  destruct (accept t) as [|[|n] ?]; repeat split; auto; lia.
Qed.

Lemma write_loop_cons f x buf c :
  write_loop (S f) (x :: buf) c =
  match slow c with
  | None => let (k, io') := io_write (x :: buf) (io c) in
            write_loop f (skipn k (x :: buf)) (with_io c io')
  | Some (delay, csz) =>
            let (k, io') := io_write (firstn csz (x :: buf)) (io c) in
            write_loop f (skipn k (x :: buf)) (with_io c (io_sleep delay io'))
  end.
Proof. reflexivity. Qed.

Definition slow_ok (c : chan) : Prop :=
  match slow c with Some (_, csz) => 0 < csz | None => True end.

Lemma write_loop_spec fuel : forall buf c r c',
  slow_ok c -> length buf < fuel -> write_loop fuel buf c = (r, c') ->
  r = Ret tt /\ wr (io c') = wr (io c) ++ buf /\ pend (io c') = pend (io c) /\
  prompt c' = prompt c /\ deaths c' = deaths c /\ lgs c' = lgs c /\ blacklist c' = blacklist c /\
  slow c' = slow c /\ ctx c' = ctx c.
Proof.
  induction fuel as [|f IH]; intros buf c r c' Hs Hf H; [lia|].
  destruct buf as [|x buf0].
  { simpl in H. injection H as <- <-. rewrite app_nil_r. repeat split; reflexivity. }
  rewrite write_loop_cons in H.
  simpl in Hf.
  remember (x :: buf0) as buf eqn:Eb.
  assert (Hlb : length buf = S (length buf0)) by (subst buf; reflexivity).
  assert (Hnb : buf <> []) by (subst buf; discriminate).
  unfold slow_ok in Hs.
  destruct (slow c) as [[delay csz]|] eqn:Esl.
  - destruct (io_write (firstn csz buf) (io c)) as [k io'] eqn:Ew.
    assert (Hne : firstn csz buf <> []) by (destruct csz; [lia | subst buf; simpl; congruence]).
    destruct (io_write_spec _ _ _ _ Ew Hne) as ((K1 & K2) & W1 & W2 & W3).
    assert (K3 : k <= length buf) by (rewrite firstn_length in K2; lia).
    destruct (IH (skipn k buf) (with_io c (io_sleep delay io')) r c') as (R1 & R2 & R3 & R4 & R5 & R6 & R7 & R8 & R9).
    + unfold slow_ok; simpl. rewrite Esl. exact Hs.
    + rewrite skipn_length. lia.
    + exact H.
    + simpl in *. split; [exact R1|].
      split. { rewrite R2, W1, <- app_assoc. f_equal.
               rewrite firstn_firstn. replace (Nat.min k csz) with k.
               - apply firstn_skipn.
               - rewrite firstn_length in K2. lia. }
      repeat split; congruence.
  - destruct (io_write buf (io c)) as [k io'] eqn:Ew.
    destruct (io_write_spec _ _ _ _ Ew Hnb) as ((K1 & K2) & W1 & W2 & W3).
    destruct (IH (skipn k buf) (with_io c io') r c') as (R1 & R2 & R3 & R4 & R5 & R6 & R7 & R8 & R9).
    + unfold slow_ok; simpl. rewrite Esl. exact I.
    + rewrite skipn_length. lia.
    + exact H.
    + simpl in *. split; [exact R1|].
      split. { rewrite R2, W1, <- app_assoc. f_equal. apply firstn_skipn. }
      repeat split; congruence.
Qed.

Definition wcfg (c c' : chan) : Prop :=
  pend (io c') = pend (io c) /\ prompt c' = prompt c /\ deaths c' = deaths c /\ lgs c' = lgs c /\
  blacklist c' = blacklist c /\ slow c' = slow c /\ ctx c' = ctx c.

(* write(): for EVERY partial-write behaviour the transport ends up with exactly buf, in order;
   a buffer containing a forbidden byte is rejected before anything is sent *)
Theorem write_complete buf ign c r c' :
  slow_ok c -> write buf ign c = (r, c') ->
  (r = Ret tt /\ wr (io c') = wr (io c) ++ buf /\ wcfg c c' /\
     (ign = false -> any_in (blacklist c) buf = false)) \/
  (r = EIllegal /\ c' = c /\ ign = false /\ any_in (blacklist c) buf = true).
Proof.
  intros Hs. unfold write.
  destruct (negb ign && any_in (blacklist c) buf) eqn:E.
  - intros [= <- <-]. right. apply andb_true_iff in E as [E1 E2].
    destruct ign; [discriminate|]. auto.
  - intros H. left.
    destruct (write_loop_spec _ _ _ _ _ Hs (Nat.lt_succ_diag_r _) H) as (R1 & R2 & R3 & R4 & R5 & R6 & R7 & R8 & R9).
    split; [exact R1|]. split; [exact R2|]. split; [unfold wcfg; auto 10|].
    intros ->. simpl in E. exact E.
Qed.

Lemma any_in_app bl a b : any_in bl (a ++ b) = any_in bl a || any_in bl b.
Proof.
  induction bl as [|x bl IH]; simpl; [reflexivity|].
  assert (M : mem_N x (a ++ b) = mem_N x a || mem_N x b).
  { clear IH. induction a as [|y a IHa]; simpl; [reflexivity|]. rewrite IHa. apply orb_assoc. }
  rewrite M, IH. destruct (mem_N x a), (mem_N x b), (any_in bl a), (any_in bl b); reflexivity.
Qed.

(* send() without read-back: what reaches the transport is always a prefix of the payload free of
   forbidden bytes; it is the whole payload unless IllegalDataException is raised *)
Lemma any_in_nil bl : any_in bl [] = false.
Proof. induction bl; simpl; auto. Qed.

Lemma send_loop_cons_nrb f start x s tmo c :
  send_loop (S f) start (x :: s) false tmo c =
  match write (firstn SEND_SLICE (x :: s)) false c with
  | (Ret _, c1) => send_loop f start (skipn SEND_SLICE (x :: s)) false tmo c1
  | (e, c1) => (e, c1)
  end.
Proof. reflexivity. Qed.

Lemma slice_pos : 0 < SEND_SLICE.
Proof. apply Nat.ltb_lt. vm_compute. reflexivity. Qed.

Lemma send_loop_nrb_spec fuel : forall start s tmo c r c',
  slow_ok c -> length s < fuel -> send_loop fuel start s false tmo c = (r, c') ->
  exists sent rest,
    s = sent ++ rest /\ wr (io c') = wr (io c) ++ sent /\ any_in (blacklist c) sent = false /\
    wcfg c c' /\
    ((r = Ret tt /\ rest = []) \/
     (r = EIllegal /\ any_in (blacklist c) (firstn SEND_SLICE rest) = true)).
Proof.
  induction fuel as [|f IH]; intros start s tmo c r c' Hs Hf H; [lia|].
  destruct s as [|x s0].
  { simpl in H. injection H as <- <-. exists [], [].
    split; [reflexivity|]. split; [rewrite app_nil_r; reflexivity|]. split; [apply any_in_nil|].
    split; [unfold wcfg; repeat split; reflexivity|]. left; auto. }
  rewrite send_loop_cons_nrb in H.
  remember (x :: s0) as s eqn:Eb.
  assert (Hlb : length s = S (length s0)) by (subst s; reflexivity).
  destruct (write (firstn SEND_SLICE s) false c) as [wr1 c1] eqn:Ew.
  destruct (write_complete _ _ _ _ _ Hs Ew) as [(-> & W2 & W3 & W4) | (-> & -> & _ & W4)].
  - destruct W3 as (P1 & P2 & P3 & P4 & P5 & P6 & P7).
    assert (Hs1 : slow_ok c1) by (unfold slow_ok; rewrite P6; exact Hs).
    assert (Hlen : length (skipn SEND_SLICE s) < f).
    { rewrite skipn_length. pose proof slice_pos. simpl in Hf. lia. }
    destruct (IH start (skipn SEND_SLICE s) tmo c1 r c' Hs1 Hlen H) as (sent & rest & E & S2 & S3 & S4 & S5).
    exists (firstn SEND_SLICE s ++ sent), rest.
    split; [rewrite <- app_assoc, <- E; symmetry; apply firstn_skipn|].
    split; [rewrite S2, W2, app_assoc; reflexivity|].
    split; [rewrite any_in_app, (W4 eq_refl); rewrite P5 in S3; exact S3|].
    split. { destruct S4 as (Q1 & Q2 & Q3 & Q4 & Q5 & Q6 & Q7). unfold wcfg. repeat split; congruence. }
    rewrite P5 in S5. exact S5.
  - injection H as <- <-. exists [], s.
    split; [reflexivity|]. split; [rewrite app_nil_r; reflexivity|]. split; [apply any_in_nil|].
    split; [unfold wcfg; repeat split; reflexivity|]. right; auto.
Qed.

Theorem send_prefix s c r c' :
  slow_ok c -> send s false None c = (r, c') ->
  (r = Ret tt /\ wr (io c') = wr (io c) ++ s /\ any_in (blacklist c) s = false) \/
  (r = EIllegal /\ c' = c /\ any_in (blacklist c) s = true).
Proof.
  intros Hs H. unfold send in H. destruct (any_in (blacklist c) s) eqn:Ebl.
  - injection H as <- <-. right. auto.
  - left.
    destruct (send_loop_nrb_spec _ _ _ _ _ _ _ Hs (Nat.lt_succ_diag_r _) H) as (sent & rest & A & B & C & _ & D).
    destruct D as [[-> ->] | [-> D]].
    + rewrite app_nil_r in A. subst sent. auto.
    + exfalso. rewrite A, any_in_app in Ebl. apply orb_false_iff in Ebl. destruct Ebl as [_ E2].
      rewrite <- (firstn_skipn SEND_SLICE rest), any_in_app in E2. apply orb_false_iff in E2. destruct E2 as [E2 _]. congruence.
Qed.

(* sendcontrol: exactly one byte, ord(c) - 64, bypassing the black-list *)
Theorem sendcontrol_one_byte ch c r c' :
  slow_ok c -> sendcontrol ch c = (r, c') ->
  (r = Ret tt /\ wr (io c') = wr (io c) ++ [(ch - 64)%N] /\ (64 <= ch <= 95)%N) \/
  (r = EAssert /\ c' = c).
Proof.
  intros Hs. unfold sendcontrol.
  destruct ((64 <=? ch)%N && (ch <=? 95)%N) eqn:E.
  - intros H. left. destruct (write_complete _ _ _ _ _ Hs H) as [(A & B & _) | (_ & _ & X & _)]; [|discriminate].
    apply andb_true_iff in E as [E1 E2]. apply N.leb_le in E1, E2. auto.
  - intros [= <- <-]. right. auto.
Qed.

(* sendline appends exactly one CR *)
Lemma sendline_is_send s rb tmo c : sendline s rb tmo c = send (s ++ [CR]) rb tmo c.
Proof. reflexivity. Qed.

(* under slow-send every request to the transport is at most slow_send_chunksize bytes and is
   followed by one sleep *)
Lemma write_loop_slow_step f x buf c delay csz :
  slow c = Some (delay, csz) ->
  write_loop (S f) (x :: buf) c =
  let (k, io') := io_write (firstn csz (x :: buf)) (io c) in
  write_loop f (skipn k (x :: buf)) (with_io c (io_sleep delay io')).
Proof. intros E. simpl. rewrite E. reflexivity. Qed.

(* non-vacuity *)
Example reads_conserve_example :
  let c := chan_init [(0%Z, [97; 13; 10]%N); (0%Z, [98; 10; 99]%N)] [] in
  fst (run_rds None [RdN 1; RdLine [13; 10]%N; RdIter 2; RdAny] c) = Some [[97]; [10]; [98; 10]; [99]]%N.
Proof. vm_compute. reflexivity. Qed.
