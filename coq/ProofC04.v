(* ProofC04.v -- expect(): first match, lowest pattern index, every consumed byte accounted for. *)
From TV Require Import Base BaseLemmas Utf8 Regex RegexLemmas Channel ChannelLemmas ProofC02.

(* a hit is a well-formed span of the buffer *)
Lemma pat_hit_span p buf a b : pat_hit p buf = Some (a, b) -> a <= b <= length buf.
Proof.
  destruct p as [l|r]; simpl.
  - destruct (find_sub l buf) as [i|] eqn:E; [|discriminate]. intros [= <- <-].
    apply find_sub_Some in E as (x & y & -> & <-). rewrite !app_length. lia.
  - unfold search. intros H.
    assert (G : forall s st a0 b0, search_k r k_any s st = Some (a0, b0) -> a0 <= b0 <= st + length s).
    { clear. induction s as [|y s IH]; intros st a0 b0 H.
      - simpl in H. destruct (m r [] k_any); [|discriminate]. injection H as <- <-. lia.
      - assert (Hstep : search_k r k_any (y :: s) st =
                        match m r (y :: s) k_any with
                        | Some rest => Some (st, st + (length (y :: s) - length rest))
                        | None => search_k r k_any s (S st)
                        end) by reflexivity.
        rewrite Hstep in H. clear Hstep. destruct (m r (y :: s) k_any) as [rest|].
        + remember (length (y :: s) - length rest) as q eqn:Eq in H. injection H as <- <-. lia.
        + apply IH in H. cbn [length]. lia. }
    apply G in H. lia.
Qed.

(* literal patterns: the hit is the FIRST occurrence *)
Lemma pat_hit_literal l buf a b :
  pat_hit (SLit l) buf = Some (a, b) ->
  b = a + length l /\ (exists x y, buf = x ++ l ++ y /\ length x = a) /\
  (forall x y, buf = x ++ l ++ y -> a <= length x).
Proof.
  simpl. destruct (find_sub l buf) as [i|] eqn:E; [|discriminate]. intros [= <- <-].
  split; [reflexivity|]. split.
  - apply find_sub_Some in E as (x & y & H1 & H2). eauto.
  - intros x y H. eapply find_sub_first; eauto.
Qed.

Lemma pat_hit_literal_none l buf : pat_hit (SLit l) buf = None -> forall x y, buf <> x ++ l ++ y.
Proof. simpl. destruct (find_sub l buf) eqn:E; [discriminate|]. intros _. apply find_sub_None; exact E. Qed.

(* regex patterns: the hit starts at the LEFTMOST position where a word of the language begins,
   and what it spans is such a word *)
Lemma pat_hit_regex r buf a b :
  pat_hit (SRe r) buf = Some (a, b) ->
  (exists w rest, skipn a buf = w ++ rest /\ lang r w) /\
  (forall j w rest, j < a -> skipn j buf = w ++ rest -> ~ lang r w).
Proof.
  simpl. unfold search. intros H. apply search_k_spec in H as (i & -> & Hi & (rest & Hm) & Hl). simpl.
  split.
  - apply m_sound in Hm as (s1 & s2 & E & L & _). eauto.
  - intros j w rest' Hj E L. specialize (Hl j Hj).
    destruct (m_complete _ _ L rest' k_any rest' eq_refl) as [y Hy]. rewrite <- E in Hy. congruence.
Qed.

Lemma pat_hit_regex_none r buf :
  pat_hit (SRe r) buf = None -> forall j w rest, j <= length buf -> skipn j buf = w ++ rest -> ~ lang r w.
Proof.
  simpl. unfold search. intros H j w rest Hj E L.
  pose proof (search_k_none _ _ _ _ H j Hj) as Hn.
  destruct (m_complete _ _ L rest k_any rest eq_refl) as [y Hy]. rewrite <- E in Hy. congruence.
Qed.

(* byte-level accounting: before ++ match ++ after is the whole consumed buffer *)
Lemma span_partition a b (buf : list N) :
  a <= b <= length buf -> firstn a buf ++ sublist a b buf ++ skipn b buf = buf.
Proof.
  intros [H1 H2]. unfold sublist.
  rewrite <- (firstn_skipn a buf) at 4. f_equal.
  rewrite <- (firstn_skipn (b - a) (skipn a buf)) at 2. f_equal.
  clear H2. revert a b H1. induction buf as [|x buf IH]; intros a b H1.
  - rewrite !skipn_nil. reflexivity.
  - destruct a as [|a]; simpl.
    + rewrite Nat.sub_0_r. reflexivity.
    + destruct b as [|b]; [lia|]. simpl. apply IH. lia.
Qed.

(* the result names the lowest-indexed pattern that matches the consumed data *)
Lemma try_patterns_spec pats : forall i buf r,
  try_patterns i pats buf = Some r ->
  exists j p a b,
    nth_error pats j = Some p /\ er_idx r = i + j /\
    (forall j' p', j' < j -> nth_error pats j' = Some p' -> pat_hit p' buf = None) /\
    pat_hit p buf = Some (a, b) /\ a <= b <= length buf /\
    er_match r = sublist a b buf /\
    er_before r = text (firstn a buf) /\ er_after r = text (skipn b buf) /\
    firstn a buf ++ er_match r ++ skipn b buf = buf.
Proof.
  induction pats as [|p ps IH]; intros i buf r H; simpl in H; [discriminate|].
  destruct (pat_hit p buf) as [[a b]|] eqn:E.
  - injection H as <-. exists 0, p, a, b. simpl.
    pose proof (pat_hit_span _ _ _ _ E) as Hs.
    split; [reflexivity|]. split; [lia|]. split; [intros; lia|]. split; [exact E|]. split; [exact Hs|].
    split; [reflexivity|]. split; [reflexivity|]. split; [reflexivity|]. apply span_partition; exact Hs.
  - destruct (IH _ _ _ H) as (j & q & a & b & A1 & A2 & A3 & A4 & A5 & A6 & A7 & A8 & A9).
    exists (S j), q, a, b. simpl. split; [exact A1|]. split; [lia|].
    split. { intros [|j'] p' Hj Hn; simpl in Hn; [injection Hn as <-; exact E | eapply A3; eauto; lia]. }
    auto 10.
Qed.

Lemma try_patterns_none pats : forall i buf,
  try_patterns i pats buf = None -> forall p, In p pats -> pat_hit p buf = None.
Proof.
  induction pats as [|q ps IH]; intros i buf H p Hin; simpl in *; [contradiction|].
  destruct (pat_hit q buf) as [[a b]|] eqn:E; [discriminate|].
  destruct Hin as [<-|Hin]; [exact E | eapply IH; eauto].
Qed.

(* when expect returns: it consumed exactly `data`, and the result is computed from ALL of the
   consumed data (buf ++ data); nothing else of the channel changed *)
Lemma expect_loop_sound fuel : forall start tmo pats buf c r c',
  wfc c -> expect_loop fuel start tmo pats buf c = (Ret r, c') ->
  exists data,
    data <> [] /\ cpend c = data ++ cpend c' /\
    try_patterns 0 pats (buf ++ data) = Some r /\ same_cfg c c' /\ wfc c'.
Proof.
  induction fuel as [|f IH]; intros start tmo pats buf c r c' Hw H; [discriminate|].
  rewrite expect_loop_step in H.
  destruct (iter_step start tmo READ_CHUNK_SIZE c) as [sr c1] eqn:Es.
  destruct (iter_step_spec _ _ _ _ _ _ Es chunk_pos Hw) as (Hcfg & Hw1 & _ & Hr).
  destruct sr as [new| | |e mt]; try discriminate.
  destruct Hr as (Hne & _ & Hcat & _).
  destruct (try_patterns 0 pats (buf ++ new)) as [r0|] eqn:Et.
  - injection H as <- <-. exists new. auto.
  - destruct (IH _ _ _ _ _ _ _ Hw1 H) as (data & D1 & D2 & D3 & D4 & D5).
    exists (new ++ data). rewrite <- app_assoc in D3.
    split; [destruct new; simpl; congruence|].
    split; [rewrite Hcat, D2, app_assoc; reflexivity|].
    split; [exact D3|]. split; [eapply same_cfg_trans; eauto | exact D5].
Qed.

(* "and not before": as long as the loop goes on, no pattern matched what had been consumed.
   Stated on the run: every strict prefix of the consumed data that ends at a piece boundary is
   match-free.  We phrase it through the loop itself: if no pattern matches buf ++ new the loop
   continues, if one does it returns at once (expect_loop_step), hence by induction: *)
Lemma expect_loop_not_before fuel : forall start tmo pats buf c r c',
  wfc c -> expect_loop fuel start tmo pats buf c = (Ret r, c') ->
  exists pieces,
    pieces <> [] /\ Forall (fun p => p <> []) pieces /\
    cpend c = concat pieces ++ cpend c' /\
    try_patterns 0 pats (buf ++ concat pieces) = Some r /\
    (forall k, k < length pieces - 0 -> 0 < k ->
               try_patterns 0 pats (buf ++ concat (firstn k pieces)) = None).
Proof.
  induction fuel as [|f IH]; intros start tmo pats buf c r c' Hw H; [discriminate|].
  rewrite expect_loop_step in H.
  destruct (iter_step start tmo READ_CHUNK_SIZE c) as [sr c1] eqn:Es.
  destruct (iter_step_spec _ _ _ _ _ _ Es chunk_pos Hw) as (Hcfg & Hw1 & _ & Hr).
  destruct sr as [new| | |e mt]; try discriminate.
  destruct Hr as (Hne & _ & Hcat & _).
  destruct (try_patterns 0 pats (buf ++ new)) as [r0|] eqn:Et.
  - injection H as <- <-. exists [new]. simpl. rewrite app_nil_r.
    split; [discriminate|]. split; [constructor; auto|]. split; [exact Hcat|]. split; [exact Et|].
    intros k Hk Hk0. lia.
  - destruct (IH _ _ _ _ _ _ _ Hw1 H) as (ps & P1 & P2 & P3 & P4 & P5).
    exists (new :: ps). simpl. rewrite <- app_assoc in P4.
    split; [discriminate|]. split; [constructor; auto|].
    split; [rewrite Hcat, P3, app_assoc; reflexivity|]. split; [exact P4|].
    intros k Hk Hk0. destruct k as [|k]; [lia|]. simpl.
    destruct k as [|k].
    + simpl. rewrite app_nil_r. exact Et.
    + rewrite app_assoc. apply P5; lia.
Qed.

(* non-vacuity *)
Example expect_example :
  let c := chan_init [(0%Z, [120; 97]%N); (0%Z, [98; 99; 121]%N); (0%Z, [122]%N)] [] in
  match fst (expect [SLit [98; 99]%N; SLit [97; 98]%N] None c) with
  | Ret r => (er_idx r, er_match r, er_before r, er_after r) = (0%nat, [98; 99]%N, [120; 97]%N, [121]%N)
  | _ => False
  end.
Proof. vm_compute. reflexivity. Qed.
