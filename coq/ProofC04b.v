(* ProofC04b.v -- expect() finds the match whenever it arrives in time: liveness, for every fragmentation and timing.
   (ProofC04.v says what the result is when expect returns; ProofC06.v bounds the time.) *)
From TV Require Import Base BaseLemmas Utf8 Regex Channel ChannelLemmas ProofC02 ProofC03 ProofC04 ProofSession.
From Coq Require Import ZifyBool.

Local Open Scope Z_scope.

(* the number of bytes of the pending stream that arrive strictly before the deadline *)
Fixpoint ready_before (dl : Z) (p : list (Z * list N)) : nat :=
  match p with
  | [] => 0%nat
  | (a, d) :: r => if a <? dl then (length d + ready_before dl r)%nat else 0%nat
  end.

Definition ready (dl : option Z) (p : list (Z * list N)) : nat :=
  match dl with None => length (cat p) | Some d => ready_before d p end.

Definition deadline (start : Z) (tmo : option Z) : option Z := option_map (fun T => start + T) tmo.

Definition in_time (start : Z) (tmo : option Z) (c : chan) : Prop :=
  match tmo with Some T => now (io c) < start + T | None => True end.

Lemma ready_before_le dl p : (ready_before dl p <= length (cat p))%nat.
Proof.
  induction p as [|[a d] r IH]; [cbn; lia|]. cbn [ready_before]. unfold cat in *. cbn [map concat snd].
  rewrite app_length. destruct (a <? dl); lia.
Qed.

Lemma ready_le dl p : (ready dl p <= length (cat p))%nat.
Proof. destruct dl; [apply ready_before_le | cbn; lia]. Qed.

(* the moment at which everything that is pending will have arrived *)
Fixpoint last_from (t : Z) (p : list (Z * list N)) : Z :=
  match p with [] => t | (a, _) :: r => last_from (Z.max t a) r end.
Definition last_time (c : chan) : Z := last_from (now (io c)) (pend (io c)).

(* one loop iteration when something arrives in time *)
Lemma iter_step_live start tmo n c :
  (0 < n)%nat -> wfc c -> deaths c = [] -> in_time start tmo c ->
  (0 < ready (deadline start tmo) (pend (io c)))%nat ->
  exists new c', iter_step start tmo n c = (SData new, c') /\
    new <> [] /\ cpend c = new ++ cpend c' /\
    (length new <= ready (deadline start tmo) (pend (io c)))%nat /\
    ready (deadline start tmo) (pend (io c')) = (ready (deadline start tmo) (pend (io c)) - length new)%nat /\
    wfc c' /\ deaths c' = [] /\ in_time start tmo c' /\ (tot (pend (io c')) < tot (pend (io c)))%nat /\
    last_time c' = last_time c.
Proof.
  intros Hn Hw Hd Ht Hr.
  destruct (iter_step start tmo n c) as [r c'] eqn:E.
  pose proof (iter_step_spec _ _ _ _ _ _ E Hn Hw) as (Hcfg & Hw' & _ & Hres).
  unfold iter_step in E.
  set (rem := match tmo with None => None | Some T => Some (T - (now (io c) - start)) end) in *.
  assert (Erem : match rem with Some r0 => r0 <=? 0 | None => false end = false).
  { unfold rem. destruct tmo as [T|]; [|reflexivity]. cbn in Ht. lia. }
  rewrite Erem in E.
  destruct (pend (io c)) as [|[a d] rest] eqn:Ep.
  { destruct tmo; cbn in Hr; lia. }
  assert (Hdne : d <> []).
  { unfold wfc, wf_pend in Hw. rewrite Ep in Hw. inversion Hw; subst; assumption. }
  assert (Ha : match tmo with Some T => a < start + T | None => True end).
  { destruct tmo as [T|]; [|exact I]. cbn in Hr. destruct (a <? start + T) eqn:Q; lia. }
  (* the transport delivers a prefix of the head piece *)
  assert (Eio : io_read n rem (io c) =
                deliver n a d rest (log_read n rem (io c))).
  { unfold io_read. destruct n as [|n']; [lia|]. cbn [log_read pend now]. rewrite Ep.
    destruct (a <=? now (io c)) eqn:Q1; [reflexivity|].
    unfold rem. destruct tmo as [T|]; [|reflexivity].
    assert (Q2 : a <? now (io c) + (T - (now (io c) - start)) = true) by lia. rewrite Q2. reflexivity. }
  rewrite Eio in E. unfold deliver in E. cbn [log_read now accept iolog wr] in E.
  set (io' := mkTio _ _ _ _ _) in E.
  destruct (write_stream_frame (firstn n d) (with_io c io')) as (W1 & _ & W3 & _).
  unfold check in E. rewrite W3 in E. cbn [deaths with_io] in E. rewrite Hd in E.
  injection E as <- <-.
  destruct Hres as (N1 & N2 & N3 & N4).
  exists (firstn n d), (write_stream (firstn n d) (with_io c io')).
  split; [reflexivity|]. split; [exact N1|]. split; [exact N3|].
  assert (Hlen : (length (firstn n d) <= length d)%nat) by (rewrite firstn_length; lia).
  assert (Hpend' : pend (io (write_stream (firstn n d) (with_io c io'))) =
                   match skipn n d with [] => rest | _ => (a, skipn n d) :: rest end) by (rewrite W1; reflexivity).
  assert (Hsk : (length (skipn n d) = length d - length (firstn n d))%nat) by (rewrite skipn_length, firstn_length; lia).
  split.
  { destruct tmo as [T|]; cbn [deadline option_map ready ready_before].
    - assert (Q : a <? start + T = true) by lia. rewrite Q. lia.
    - unfold cat. cbn [map concat snd]. rewrite app_length. lia. }
  split.
  { rewrite Hpend'. destruct tmo as [T|]; cbn [deadline option_map ready ready_before].
    - assert (Q : a <? start + T = true) by lia. rewrite Q.
      destruct (skipn n d) eqn:Es; cbn [ready_before length] in *; [lia|]. rewrite Q. cbn [length]. lia.
    - unfold cat. destruct (skipn n d) eqn:Es; cbn [map concat snd length] in *; rewrite ?app_length; cbn [length]; lia. }
  split; [exact Hw'|]. split; [rewrite W3; exact Hd|].
  split; [|split; [exact N4|]].
  - unfold in_time. rewrite W1. destruct tmo as [T|]; [|exact I]. subst io'. cbn [now io with_io]. cbn in Ht. lia.
  - unfold last_time. rewrite Hpend', W1, Ep. subst io'. cbn [now io with_io last_from].
    destruct (skipn n d); cbn [last_from]; [reflexivity|]. f_equal. lia.
Qed.

(* patterns for which a match never disappears when more data arrives (all literals are) *)
Definition monotone (pats : list sstr) : Prop :=
  forall b1 b2, try_patterns 0 pats b1 <> None -> try_patterns 0 pats (b1 ++ b2) <> None.

Lemma try_patterns_none_iff pats : forall i buf,
  try_patterns i pats buf = None <-> Forall (fun p => pat_hit p buf = None) pats.
Proof.
  induction pats as [|p ps IH]; intros i buf; cbn [try_patterns]; [split; [constructor | reflexivity]|].
  destruct (pat_hit p buf) as [[a b]|] eqn:E.
  - split; [discriminate|]. intros H. inversion H; congruence.
  - rewrite IH. split; [intros H; constructor; assumption | intros H; inversion H; assumption].
Qed.

Lemma literals_monotone pats : Forall (fun p => exists l, p = SLit l) pats -> monotone pats.
Proof.
  intros Hl b1 b2 H1 H2. apply H1. rewrite try_patterns_none_iff in *.
  rewrite Forall_forall in *. intros p Hp. specialize (H2 p Hp). destruct (Hl p Hp) as (l & ->).
  cbn [pat_hit] in *. destruct (find_sub l b1) as [i|] eqn:F; [|reflexivity]. exfalso.
  apply find_sub_Some in F as (x & y & -> & _).
  destruct (find_sub l ((x ++ l ++ y) ++ b2)) eqn:G; [discriminate|].
  apply (find_sub_None _ _ G x (y ++ b2)). rewrite <- !app_assoc. reflexivity.
Qed.

Lemma expect_loop_live fuel : forall start tmo pats buf c,
  wfc c -> deaths c = [] -> in_time start tmo c -> monotone pats ->
  try_patterns 0 pats buf = None ->
  try_patterns 0 pats (buf ++ firstn (ready (deadline start tmo) (pend (io c))) (cpend c)) <> None ->
  (tot (pend (io c)) < fuel)%nat ->
  exists r c', expect_loop fuel start tmo pats buf c = (Ret r, c') /\ deaths c' = [].
Proof.
  induction fuel as [|f IH]; intros start tmo pats buf c Hw Hd Ht Hm Hb Hr Hf; [lia|].
  assert (Hpos : (0 < ready (deadline start tmo) (pend (io c)))%nat).
  { destruct (ready (deadline start tmo) (pend (io c))) eqn:E; [|lia]. cbn [firstn] in Hr. rewrite app_nil_r in Hr. congruence. }
  destruct (iter_step_live start tmo READ_CHUNK_SIZE c chunk_pos Hw Hd Ht Hpos)
    as (new & c1 & Es & N1 & N2 & N3 & N4 & Hw1 & Hd1 & Ht1 & Htot & _).
  cbn [expect_loop]. rewrite Es.
  destruct (try_patterns 0 pats (buf ++ new)) as [r|] eqn:Etp; [eauto|].
  apply IH; auto; [|lia].
  rewrite N4. rewrite N2 in Hr.
  set (k := ready (deadline start tmo) (pend (io c))) in *.
  assert (F : firstn k (new ++ cpend c1) = new ++ firstn (k - length new) (cpend c1)).
  { rewrite firstn_app. rewrite firstn_all2 by lia. reflexivity. }
  rewrite F, app_assoc in Hr. exact Hr.
Qed.

Local Close Scope Z_scope.

(* ---- the position of the first occurrence does not depend on how much more of the stream is known ---- *)
Lemma find_sub_char p s i :
  (exists a b, s = a ++ p ++ b /\ length a = i) -> (forall a b, s = a ++ p ++ b -> i <= length a) ->
  find_sub p s = Some i.
Proof.
  intros (a & b & E & La) Hmin. destruct (find_sub p s) as [j|] eqn:F.
  - f_equal. pose proof (find_sub_first _ _ _ F a b E) as H1.
    apply find_sub_Some in F as (a' & b' & E' & La'). specialize (Hmin a' b' E'). lia.
  - exfalso. exact (find_sub_None _ _ F a b E).
Qed.

Lemma find_sub_app p s e i : find_sub p s = Some i -> find_sub p (s ++ e) = Some i.
Proof.
  intros F. apply find_sub_char.
  - apply find_sub_Some in F as (a & b & -> & La). exists a, (b ++ e). rewrite <- !app_assoc. auto.
  - intros a b E. pose proof (find_sub_Some _ _ _ F) as (a0 & b0 & E0 & La0).
    destruct (Nat.le_gt_cases i (length a)) as [|Hlt]; [assumption|]. exfalso.
    (* an occurrence starting before i ends before i + |p| <= |s|: it lies inside s *)
    assert (Hfit : length a + length p <= length s).
    { rewrite E0, !app_length. lia. }
    assert (Es : s = a ++ p ++ firstn (length s - length a - length p) b).
    { assert (Q : firstn (length s) (s ++ e) = s) by apply firstn_app_exact.
      rewrite E in Q. rewrite firstn_app, firstn_all2 in Q by lia.
      rewrite firstn_app, firstn_all2 in Q by lia.
      replace (length s - length a - length p) with (length s - length a - length p) by lia.
      rewrite <- Q at 1. reflexivity. }
    pose proof (find_sub_first _ _ _ F _ _ Es). lia.
Qed.

Lemma find_sub_firstn p s i k : find_sub p s = Some i -> i + length p <= k -> find_sub p (firstn k s) = Some i.
Proof.
  intros F Hk. pose proof (find_sub_Some _ _ _ F) as (a & b & E & La).
  apply find_sub_char.
  - exists a, (firstn (k - length a - length p) b). split; [|exact La].
    rewrite E, firstn_app, firstn_all2 by lia. rewrite firstn_app, firstn_all2 by lia. reflexivity.
  - intros a' b' E'. apply (find_sub_first _ _ _ F a' (b' ++ skipn k s)).
    rewrite <- (firstn_skipn k s) at 1. rewrite E', <- !app_assoc. reflexivity.
Qed.

(* expect(literal, timeout): when the first occurrence of the literal arrives in time, expect returns it -- for EVERY
   fragmentation and timing of the stream; what precedes the match is exactly what precedes the first occurrence in
   the whole stream.  (What follows the match in the result is the rest of the piece that completed it: that part,
   and only that part, depends on the fragmentation.) *)
Theorem expect_literal_live l tmo c a :
  wfc c -> deaths c = [] -> match tmo with Some T => (0 < T)%Z | None => True end ->
  l <> [] -> find_sub l (cpend c) = Some a ->
  a + length l <= ready (deadline (now (io c)) tmo) (pend (io c)) ->
  exists r c' data,
    expect [SLit l] tmo c = (Ret r, c') /\
    er_idx r = 0 /\ er_match r = l /\ er_before r = text (firstn a (cpend c)) /\
    cpend c = data ++ cpend c' /\ firstn (a + length l) data = firstn a (cpend c) ++ l /\
    er_after r = text (skipn (a + length l) data) /\ wfc c' /\ same_cfg c c' /\ deaths c' = [].
Proof.
  intros Hw Hd HT Hl F Hr.
  assert (Ht : in_time (now (io c)) tmo c) by (unfold in_time; destruct tmo; [lia | exact I]).
  assert (Hm : monotone [SLit l]) by (apply literals_monotone; repeat constructor; eauto).
  assert (Hb : try_patterns 0 [SLit l] [] = None).
  { cbn [try_patterns pat_hit]. destruct (find_sub l []) eqn:G; [|reflexivity].
    apply find_sub_Some in G as (x & y & G & _). destruct x; [destruct l; [congruence | discriminate] | discriminate]. }
  assert (Hr2 : try_patterns 0 [SLit l] ([] ++ firstn (ready (deadline (now (io c)) tmo) (pend (io c))) (cpend c)) <> None).
  { cbn [app try_patterns pat_hit]. rewrite (find_sub_firstn _ _ _ _ F Hr). discriminate. }
  destruct (expect_loop_live (fuel_of c) (now (io c)) tmo [SLit l] [] c Hw Hd Ht Hm Hb Hr2 (fuel_of_enough c)) as (r & c' & E & Dd).
  destruct (expect_loop_sound _ _ _ _ _ _ _ _ Hw E) as (data & Dne & Dcat & Dtp & Dcfg & Dw).
  cbn [app] in Dtp. cbn [try_patterns pat_hit] in Dtp.
  destruct (find_sub l data) as [a'|] eqn:G; [|discriminate]. injection Dtp as <-.
  assert (Ea : a' = a).
  { pose proof (find_sub_app _ _ (cpend c') _ G) as G2. rewrite <- Dcat in G2. congruence. }
  subst a'.
  pose proof (find_sub_Some _ _ _ G) as (x & y & Ed & Lx).
  assert (Fx : firstn a data = x) by (rewrite Ed, <- Lx; apply firstn_app_exact).
  assert (Fc : firstn a (cpend c) = x).
  { rewrite Dcat, Ed, <- !app_assoc, <- Lx. apply firstn_app_exact. }
  exists {| er_idx := 0; er_match := sublist a (a + length l) data; er_before := text (firstn a data);
            er_after := text (skipn (a + length l) data) |}, c', data.
  split; [exact E|]. cbn [er_idx er_match er_before er_after].
  split; [reflexivity|].
  assert (Sub : sublist a (a + length l) data = l).
  { unfold sublist. rewrite Ed, <- Lx, skipn_app_exact.
    replace (length x + length l - length x) with (length l) by lia. apply firstn_app_exact. }
  split; [exact Sub|]. split; [rewrite Fx, Fc; reflexivity|]. split; [exact Dcat|].
  split; [|auto].
  rewrite Fc, Ed, <- Lx, app_assoc. rewrite <- app_length. apply firstn_app_exact.
Qed.

(* non-vacuity: two fragmentations of the same stream, a deadline, the same result up to `after` *)
(* non-vacuity: two fragmentations of the same stream, a deadline, the same result up to `after` *)
Example expect_literal_live_example :
  let c1 := chan_init [(0%Z, [120; 97]%N); (3%Z, [98; 99; 121]%N); (9%Z, [122]%N)] [] in
  let c2 := chan_init [(1%Z, [120]%N); (2%Z, [97; 98]%N); (4%Z, [99]%N); (50%Z, [121; 122]%N)] [] in
  find_sub [98; 99]%N (cpend c1) = Some 2 /\ find_sub [98; 99]%N (cpend c2) = Some 2 /\
  2 + 2 <= ready (deadline 0 (Some 5%Z)) (pend (io c1)) /\ 2 + 2 <= ready (deadline 0 (Some 5%Z)) (pend (io c2)) /\
  (match fst (expect [SLit [98; 99]%N] (Some 5%Z) c1), fst (expect [SLit [98; 99]%N] (Some 5%Z) c2) with
   | Ret r1, Ret r2 => er_before r1 = er_before r2 /\ er_match r1 = er_match r2 /\ er_after r1 = [121]%N /\ er_after r2 = []
   | _, _ => False
   end).
Proof. vm_compute. repeat split; lia. Qed.

(* ================================================================== the converse: expect with a timeout is decided by
   what arrives before the deadline *)
Local Open Scope Z_scope.

Lemma iter_step_data_pos start T n c new c' :
  iter_step start (Some T) n c = (SData new, c') -> (0 < n)%nat -> wfc c ->
  in_time start (Some T) c /\ (0 < ready (deadline start (Some T)) (pend (io c)))%nat.
Proof.
  intros H Hn Hw. unfold iter_step in H.
  destruct (T - (now (io c) - start) <=? 0) eqn:Erem; [discriminate|].
  assert (Ht : now (io c) < start + T) by lia.
  split; [exact Ht|]. cbn [deadline option_map ready].
  unfold io_read in H. destruct n as [|n']; [lia|].
  cbn [log_read pend now] in H.
  destruct (pend (io c)) as [|[a d] rest] eqn:Ep; [discriminate|].
  assert (Hd : d <> []) by (unfold wfc, wf_pend in Hw; rewrite Ep in Hw; inversion Hw; subst; assumption).
  cbn [ready_before].
  assert (Ha : a <? start + T = true).
  { destruct (a <=? now (io c)) eqn:Q1; [lia|].
    destruct (a <? now (io c) + (T - (now (io c) - start))) eqn:Q2; [lia | discriminate]. }
  rewrite Ha. destruct d; [congruence | cbn [length]; lia].
Qed.

Lemma expect_loop_timed_total fuel : forall start T pats buf c,
  wfc c -> deaths c = [] -> (tot (pend (io c)) < fuel)%nat -> now (io c) <= start + T ->
  match expect_loop fuel start (Some T) pats buf c with
  | (Ret r, c') => exists data, data <> [] /\ cpend c = data ++ cpend c' /\ try_patterns 0 pats (buf ++ data) = Some r /\
                                (length data <= ready (Some (start + T)%Z) (pend (io c)))%nat
  | (ETimeout, c') => now (io c') = start + T
  | _ => False
  end.
Proof.
  induction fuel as [|f IH]; intros start T pats buf c Hw Hd Hf Hle; [lia|].
  rewrite expect_loop_step.
  destruct (iter_step start (Some T) READ_CHUNK_SIZE c) as [sr c1] eqn:Es.
  destruct (iter_step_time _ _ _ _ _ _ Es chunk_pos Hle) as (T1 & T2 & T3 & T4).
  destruct (iter_step_deaths_nil _ _ _ _ _ _ Es Hd) as (Hd1 & Hnd).
  destruct sr as [new| | |e mt]; [|auto|congruence|exfalso; eapply Hnd; reflexivity].
  destruct (iter_step_data_pos _ _ _ _ _ _ Es chunk_pos Hw) as [Ht Hpos].
  destruct (iter_step_live start (Some T) READ_CHUNK_SIZE c chunk_pos Hw Hd Ht Hpos)
    as (new' & c1' & Es' & N1 & N2 & N3 & N4 & Hw1 & _ & Ht1 & Htot & _).
  rewrite Es in Es'. injection Es' as <- <-.
  cbn [deadline option_map] in N3, N4.
  destruct (try_patterns 0 pats (buf ++ new)) as [r|] eqn:Etp.
  - exists new. auto.
  - specialize (IH start T pats (buf ++ new) c1 Hw1 Hd1 ltac:(lia) T1).
    destruct (expect_loop f start (Some T) pats (buf ++ new) c1) as [[r| | | | | |] c'] eqn:El; try exact IH.
    destruct IH as (data & D1 & D2 & D3 & D4).
    exists (new ++ data). split; [destruct new; [congruence | discriminate]|].
    split; [rewrite N2, D2, app_assoc; reflexivity|]. split; [rewrite app_assoc; exact D3|].
    cbn [ready] in D4, N3, N4 |- *. rewrite app_length. rewrite N4 in D4. lia.
Qed.

Local Close Scope Z_scope.

(* expect(literal, timeout=T) on a channel without death strings is decided by the bytes that arrive strictly before
   the deadline, for every fragmentation and timing: it returns iff the literal occurs among them; otherwise it raises
   TimeoutError exactly at the deadline *)
Theorem expect_literal_timed_iff l T c :
  wfc c -> deaths c = [] -> (0 < T)%Z -> l <> [] ->
  let R := firstn (ready (Some (now (io c) + T)%Z) (pend (io c))) (cpend c) in
  match expect [SLit l] (Some T) c with
  | (Ret r, c') => contains l R = true /\ er_idx r = 0 /\ er_match r = l
  | (ETimeout, c') => contains l R = false /\ now (io c') = (now (io c) + T)%Z
  | _ => False
  end.
Proof.
  intros Hw Hd HT Hl R.
  pose proof (expect_loop_timed_total (fuel_of c) (now (io c)) T [SLit l] [] c Hw Hd (fuel_of_enough c) ltac:(lia)) as Tot.
  unfold expect. destruct (expect_loop (fuel_of c) (now (io c)) (Some T) [SLit l] [] c) as [[r| | | | | |] c'] eqn:E; try exact Tot.
  - destruct Tot as (data & D1 & D2 & D3 & D4). cbn [app try_patterns pat_hit] in D3.
    destruct (find_sub l data) as [a|] eqn:F; [|discriminate]. injection D3 as <-. cbn [er_idx er_match].
    pose proof (find_sub_Some _ _ _ F) as (x & y & Ed & Lx).
    split; [|split; [reflexivity|]].
    + apply contains_spec. unfold R. rewrite D2.
      exists x, (y ++ firstn (ready (Some (now (io c) + T)%Z) (pend (io c)) - length data) (cpend c')).
      rewrite firstn_app, firstn_all2 by lia. rewrite Ed, <- !app_assoc. reflexivity.
    + unfold sublist. rewrite Ed, <- Lx, skipn_app_exact.
      replace (length x + length l - length x) with (length l) by lia. apply firstn_app_exact.
  - split; [|exact Tot]. destruct (contains l R) eqn:C; [|reflexivity]. exfalso.
    unfold contains in C. destruct (find_sub l R) as [a|] eqn:F; [|discriminate].
    (* the first occurrence in the whole stream lies within the bytes that arrive in time *)
    pose proof (find_sub_Some _ _ _ F) as (x & y & ER & Lx).
    assert (Fs : find_sub l (cpend c) = Some a).
    { unfold R in F. rewrite <- (firstn_skipn (ready (Some (now (io c) + T)%Z) (pend (io c))) (cpend c)).
      apply find_sub_app. exact F. }
    assert (Hfit : a + length l <= ready (deadline (now (io c)) (Some T)) (pend (io c))).
    { cbn [deadline option_map]. apply (f_equal (@length N)) in ER. unfold R in ER. rewrite firstn_length, !app_length in ER. lia. }
    destruct (expect_literal_live l (Some T) c a Hw Hd HT Hl Fs Hfit) as (r & c2 & data & Ex & _).
    unfold expect in Ex. rewrite E in Ex. discriminate.
Qed.
