(* ProofC05.v -- death strings: a registered literal string raises in exactly the _check call during
   which the data received since its registration first contains it -- never earlier, never missed,
   whatever the piece/window boundaries and whatever other strings are registered. *)
From TV Require Import Base BaseLemmas Utf8 Regex RegexLemmas Channel ChannelLemmas.

(* ------------------------------------------------------------------ chunks *)
Lemma chunks_fuel_spec n : 0 < n -> forall fuel l, length l <= fuel ->
  concat (chunks_fuel fuel n l) = l /\ Forall (fun c => length c <= n /\ c <> []) (chunks_fuel fuel n l).
Proof.
  intros Hn. induction fuel as [|f IH]; intros l Hl.
  - destruct l; [simpl; auto | simpl in Hl; lia].
  - destruct l as [|x l]; [simpl; auto|].
    cbn [chunks_fuel]. remember (x :: l) as xl eqn:E.
    destruct (IH (skipn n xl)) as [C1 C2].
    { rewrite skipn_length. subst xl. cbn [length] in *. lia. }
    split.
    + cbn [concat]. rewrite C1. apply firstn_skipn.
    + constructor; [|exact C2]. split; [apply firstn_le_length|].
      subst xl. destruct n; [lia | simpl; discriminate].
Qed.

Lemma chunks_spec n l : 0 < n ->
  concat (chunks n l) = l /\ Forall (fun c => length c <= n /\ c <> []) (chunks n l).
Proof. intros Hn. apply chunks_fuel_spec; auto. Qed.

(* ------------------------------------------------------------------ contains *)
Lemma contains_app_l p a b : contains p a = true -> contains p (a ++ b) = true.
Proof.
  intros H. apply contains_spec in H as (x & y & ->). apply contains_spec.
  exists x, (y ++ b). rewrite <- !app_assoc. reflexivity.
Qed.

Lemma contains_suffix p t a : contains p a = true -> contains p (t ++ a) = true.
Proof.
  intros H. apply contains_spec in H as (x & y & ->). apply contains_spec.
  exists (t ++ x), y. rewrite <- !app_assoc. reflexivity.
Qed.

Lemma contains_take_last p n a : contains p (take_last n a) = true -> contains p a = true.
Proof. intros H. destruct (take_last_suffix n a) as [t Ht]. rewrite Ht. apply contains_suffix. exact H. Qed.

Lemma app_eq_split {A} (a b x y : list A) :
  a ++ b = x ++ y -> length a <= length x -> exists m, x = a ++ m /\ b = m ++ y.
Proof.
  revert x. induction a as [|h a IH]; intros x E Hl; simpl in *.
  - exists x. auto.
  - destruct x as [|h' x]; simpl in *; [lia|]. injection E as <- E.
    destruct (IH x E ltac:(lia)) as (m & -> & ->). exists m. auto.
Qed.

(* the key fact: an occurrence that is new in a ++ w, with w no longer than the string, lies within
   the last 2*|l| bytes *)
Lemma window_detect l a w :
  contains l a = false -> contains l (a ++ w) = true -> length w <= length l ->
  contains l (take_last (2 * length l) (a ++ w)) = true.
Proof.
  intros Hno Hyes Hw. apply contains_spec in Hyes as (x & y & E).
  (* the occurrence must reach into w: |y| < |w| *)
  assert (Hy : length y < length w).
  { destruct (Nat.lt_ge_cases (length y) (length w)) as [H|H]; [exact H|]. exfalso.
    (* then x ++ l fits inside a *)
    assert (E2 : a ++ w = (x ++ l) ++ y) by (rewrite <- app_assoc; exact E).
    assert (Hlen : length a + length w = length x + length l + length y).
    { apply (f_equal (@length N)) in E. rewrite !app_length in E. lia. }
    destruct (app_eq_split (x ++ l) y a w (eq_sym E2)) as (m0 & Ha & _).
    { rewrite app_length. lia. }
    assert (contains l a = true) by (apply contains_spec; exists x, m0; rewrite Ha, <- app_assoc; reflexivity).
    congruence. }
  rewrite E.
  assert (Hsuf : take_last (2 * length l) (x ++ l ++ y) = take_last (2 * length l - length (l ++ y)) x ++ l ++ y).
  { apply take_last_app_ge. rewrite app_length. lia. }
  rewrite Hsuf. apply contains_spec. eexists _, y. reflexivity.
Qed.

(* ------------------------------------------------------------------ the invariant of one literal entry *)
(* hist = the data that passed through _check since the entry was registered *)
Definition lit_inv (e : dentry) (hist : list N) : Prop :=
  exists l, d_str e = SLit l /\ l <> [] /\
            d_ring e = take_last (2 * length l) hist /\ contains l hist = false.

Definition dinv (ds : list dentry) (hs : list (list N)) : Prop := Forall2 lit_inv ds hs.

Lemma min_slen_le ds : forall e, In e ds -> min_slen ds <= slen (d_str e).
Proof.
  induction ds as [|d ds IH]; intros e Hin; [contradiction|].
  destruct ds as [|d2 ds2].
  - destruct Hin as [<-|[]]. simpl. lia.
  - cbn [min_slen]. destruct Hin as [<-|Hin].
    + apply Nat.le_min_l.
    + etransitivity; [apply Nat.le_min_r | apply IH; exact Hin].
Qed.

Lemma min_slen_pos ds hs : dinv ds hs -> ds <> [] -> 0 < min_slen ds.
Proof.
  induction 1 as [|e h ds hs He Hrest IH]; intros Hne; [congruence|].
  destruct He as (l & Hs & Hl & _).
  assert (0 < slen (d_str e)) by (rewrite Hs; simpl; destruct l; [congruence | simpl; lia]).
  destruct ds as [|d2 ds2]; [simpl; lia|].
  cbn [min_slen]. apply Nat.min_glb_lt; [lia | apply IH; discriminate].
Qed.

(* one window through the entries *)
Lemma check_entries_spec chunk : forall ds hs,
  dinv ds hs -> (forall e, In e ds -> length chunk <= slen (d_str e)) ->
  match check_entries chunk ds with
  | (None, ds') => dinv ds' (map (fun h => h ++ chunk) hs)
  | (Some (exc, mt), ds') =>
      exists e h, In e ds /\ In h hs /\ lit_inv e h /\
                  d_str e = SLit mt /\ d_exc e = exc /\ contains mt (h ++ chunk) = true
  end.
Proof.
  induction ds as [|e ds IH]; intros hs Hinv Hlen.
  - inversion Hinv; subst. simpl. constructor.
  - inversion Hinv as [|? h ? hs' He Hrest]; subst. cbn [check_entries].
    destruct He as (l & Hs & Hl & Hring & Hno). rewrite Hs. cbn [slen ds_hit].
    assert (Hw : length chunk <= length l).
    { specialize (Hlen e (or_introl eq_refl)). rewrite Hs in Hlen. exact Hlen. }
    rewrite Hring, take_last_take_last.
    destruct (contains l (take_last (2 * length l) (h ++ chunk))) eqn:Ec.
    + exists e, h. split; [left; reflexivity|]. split; [left; reflexivity|].
      split; [exists l; auto|]. split; [exact Hs|]. split; [reflexivity|].
      eapply contains_take_last; eauto.
    + assert (Hno' : contains l (h ++ chunk) = false).
      { destruct (contains l (h ++ chunk)) eqn:E2; [|reflexivity].
        rewrite (window_detect l h chunk Hno E2 Hw) in Ec. discriminate. }
      specialize (IH hs' Hrest (fun e0 H0 => Hlen e0 (or_intror H0))).
      destruct (check_entries chunk ds) as [[[exc mt]|] ds'].
      * destruct IH as (e0 & h0 & I1 & I2 & I3). exists e0, h0.
        split; [right; exact I1|]. split; [right; exact I2|]. exact I3.
      * cbn [map]. constructor; [|exact IH].
        exists l. cbn [d_str d_ring]. auto.
Qed.

Lemma dinv_slen_stable ds hs ds' hs' :
  dinv ds hs -> dinv ds' hs' -> map d_str ds' = map d_str ds ->
  forall e, In e ds' -> exists e0, In e0 ds /\ d_str e0 = d_str e.
Proof.
  intros _ _ Hmap e Hin. apply (in_map d_str) in Hin. rewrite Hmap in Hin.
  apply in_map_iff in Hin as (e0 & E & Hin). eauto.
Qed.

Lemma check_entries_strs chunk : forall ds r ds',
  check_entries chunk ds = (r, ds') -> map d_str ds' = map d_str ds.
Proof.
  induction ds as [|e ds IH]; intros r ds' H; cbn [check_entries] in H.
  - injection H as <- <-. reflexivity.
  - destruct (ds_hit _ _).
    + injection H as <- <-. reflexivity.
    + destruct (check_entries chunk ds) as [r0 ds0] eqn:E. injection H as <- <-.
      cbn [map d_str]. f_equal. eapply IH; eauto.
Qed.

Lemma check_entries_in chunk : forall ds ds1 e,
  check_entries chunk ds = (None, ds1) -> In e ds1 ->
  exists e1, In e1 ds /\ d_str e1 = d_str e /\ d_exc e1 = d_exc e.
Proof.
  induction ds as [|d ds IHd]; intros ds1 e Ece I1; cbn [check_entries] in Ece.
  - injection Ece as <-. contradiction.
  - destruct (ds_hit _ _); [discriminate|].
    destruct (check_entries chunk ds) as [r0 ds0] eqn:E0. injection Ece as -> <-.
    destruct I1 as [<-|I1].
    + exists d. cbn [d_str d_exc]. split; [left; reflexivity | split; reflexivity].
    + destruct (IHd ds0 e eq_refl I1) as (e1 & A & B & C). exists e1.
      split; [right; exact A | split; assumption].
Qed.

(* all windows of one incoming piece *)
Lemma check_chunks_spec : forall cs ds hs n,
  dinv ds hs -> Forall (fun c => length c <= n /\ c <> []) cs ->
  (forall e, In e ds -> n <= slen (d_str e)) ->
  match check_chunks cs ds with
  | (None, ds') => dinv ds' (map (fun h => h ++ concat cs) hs)
  | (Some (exc, mt), ds') =>
      exists e h k, In e ds /\ In h hs /\ nth_error ds 0 <> None /\
                    d_str e = SLit mt /\ d_exc e = exc /\
                    contains mt (h ++ concat (firstn k cs)) = true /\ k <= length cs
  end.
Proof.
  induction cs as [|ch cs IH]; intros ds hs n Hinv Hcs Hn.
  - simpl. rewrite map_ext with (g := fun h => h) by (intros; apply app_nil_r). rewrite map_id. exact Hinv.
  - inversion Hcs as [|? ? [Hlen _] Hcs']; subst. cbn [check_chunks].
    pose proof (check_entries_spec ch ds hs Hinv (fun e He => Nat.le_trans _ _ _ Hlen (Hn e He))) as Hspec.
    destruct (check_entries ch ds) as [[[exc mt]|] ds1] eqn:Ece.
    + destruct Hspec as (e & h & I1 & I2 & I3 & I4 & I5 & I6).
      exists e, h, 1. split; [exact I1|]. split; [exact I2|].
      split; [destruct ds; [contradiction | discriminate]|].
      split; [exact I4|]. split; [exact I5|]. split; [|simpl; lia].
      cbn [firstn concat]. rewrite app_nil_r. exact I6.
    + pose proof (check_entries_strs _ _ _ _ Ece) as Hstr.
      assert (Hn1 : forall e, In e ds1 -> n <= slen (d_str e)).
      { intros e He. destruct (dinv_slen_stable _ _ _ _ Hinv Hspec Hstr e He) as (e0 & H0 & <-). auto. }
      specialize (IH ds1 _ n Hspec Hcs' Hn1).
      destruct (check_chunks cs ds1) as [[[exc mt]|] ds2].
      * destruct IH as (e & h1 & k & I1 & I2 & I3 & I4 & I5 & I6 & I7).
        apply in_map_iff in I2 as (h & <- & Hh).
        destruct (dinv_slen_stable _ _ _ _ Hinv Hspec Hstr e I1) as (e0 & H0 & Hs0).
        (* the entry in ds with the same id/string: report through the original list *)
        assert (Hexc : exists e1, In e1 ds /\ d_str e1 = SLit mt /\ d_exc e1 = exc).
        { destruct (check_entries_in _ _ _ _ Ece I1) as (e1 & A & B & C). exists e1.
          split; [exact A|]. split; congruence. }
        destruct Hexc as (e1 & A & B & C).
        exists e1, h, (S k). split; [exact A|]. split; [exact Hh|].
        split; [destruct ds; [contradiction | discriminate]|].
        split; [exact B|]. split; [exact C|]. split; [|simpl; lia].
        cbn [firstn concat]. rewrite app_assoc. exact I6.
      * rewrite map_map in IH. cbn [concat].
        rewrite map_ext with (g := fun h => (h ++ ch) ++ concat cs) by (intros; apply app_assoc). exact IH.
Qed.

(* ------------------------------------------------------------------ _check as a whole *)
Theorem check_literals incoming c hs :
  dinv (deaths c) hs ->
  match check incoming c with
  | (None, c') => dinv (deaths c') (map (fun h => h ++ incoming) hs)
  | (Some (exc, mt), c') =>
      exists e h p q, In e (deaths c) /\ In h hs /\ incoming = p ++ q /\
                      d_str e = SLit mt /\ d_exc e = exc /\ contains mt (h ++ p) = true
  end.
Proof.
  intros Hinv. unfold check. destruct (deaths c) as [|e0 ds0] eqn:Ed.
  - inversion Hinv; subst. simpl. rewrite Ed. constructor.
  - rewrite <- Ed in *.
    assert (Hpos : 0 < min_slen (deaths c)) by (eapply min_slen_pos; eauto; rewrite Ed; discriminate).
    destruct (chunks_spec (min_slen (deaths c)) incoming Hpos) as [Hcat Hall].
    pose proof (check_chunks_spec _ _ _ _ Hinv Hall (min_slen_le (deaths c))) as Hspec.
    destruct (check_chunks _ _) as [[[exc mt]|] ds'].
    + destruct Hspec as (e & h & k & I1 & I2 & _ & I4 & I5 & I6 & I7).
      exists e, h, (concat (firstn k (chunks (min_slen (deaths c)) incoming))),
             (concat (skipn k (chunks (min_slen (deaths c)) incoming))).
      split; [exact I1|]. split; [exact I2|].
      split; [rewrite <- concat_app, firstn_skipn; symmetry; exact Hcat|]. auto.
    + simpl. rewrite Hcat in Hspec. exact Hspec.
Qed.

(* consequences, in the words of the property *)
(* never earlier: an exception means a registered string occurs in the data received since ITS registration *)
Corollary ds_sound incoming c hs exc mt c' :
  dinv (deaths c) hs -> check incoming c = (Some (exc, mt), c') ->
  exists e h, In e (deaths c) /\ In h hs /\ d_str e = SLit mt /\ d_exc e = exc /\
              contains mt (h ++ incoming) = true.
Proof.
  intros Hinv H. pose proof (check_literals incoming c hs Hinv) as S. rewrite H in S.
  destruct S as (e & h & p & q & I1 & I2 & -> & I4 & I5 & I6).
  exists e, h. repeat split; auto. rewrite app_assoc. apply contains_app_l. exact I6.
Qed.

(* never missed: if nothing is raised, then afterwards NO registered string occurs in the data received
   since its registration (and the rings are again exact windows of that data) *)
Corollary ds_complete incoming c hs c' :
  dinv (deaths c) hs -> check incoming c = (None, c') ->
  dinv (deaths c') (map (fun h => h ++ incoming) hs).
Proof.
  intros Hinv H. pose proof (check_literals incoming c hs Hinv) as S. rewrite H in S. exact S.
Qed.

Lemma dinv_no_occurrence ds hs : dinv ds hs ->
  Forall2 (fun e h => exists l, d_str e = SLit l /\ contains l h = false) ds hs.
Proof.
  induction 1 as [|e h ds hs (l & A & B & C & D) _ IH]; constructor; [exists l; auto | exact IH].
Qed.

(* registration starts with an empty history; un-registration removes the entry *)
Lemma push_death_inv l exc c hs :
  l <> [] -> dinv (deaths c) hs -> dinv (deaths (push_death (SLit l) exc c)) ([] :: hs).
Proof.
  intros Hl Hinv. unfold push_death. cbn [deaths]. constructor; [|exact Hinv].
  exists l. cbn [d_str d_ring]. repeat split; auto.
  destruct l; [congruence|]. reflexivity.
Qed.

Lemma no_deaths_never_raises incoming c : deaths c = [] -> check incoming c = (None, c).
Proof. exact (check_no_deaths incoming c). Qed.

(* every read method funnels each received piece through write_stream and then _check *)
Lemma iter_step_checks start tmo n c r c' :
  iter_step start tmo n c = (r, c') ->
  match r with
  | SDeath e mt => exists new io' c2, io_read n (match tmo with None => None | Some T => Some (T - (now (io c) - start))%Z end) (io c) = (RData new, io') /\
                                      check new (write_stream new (with_io c io')) = (Some (e, mt), c2) /\ c' = c2
  | SData new => exists io', io_read n (match tmo with None => None | Some T => Some (T - (now (io c) - start))%Z end) (io c) = (RData new, io') /\
                             check new (write_stream new (with_io c io')) = (None, c')
  | _ => True
  end.
Proof.
  unfold iter_step.
  destruct (match match tmo with Some T => Some (T - (now (io c) - start))%Z | None => None end with
            | Some r0 => (r0 <=? 0)%Z | None => false end); [intros [= <- <-]; exact I|].
  destruct (io_read _ _ (io c)) as [res io'] eqn:Eio. destruct res as [d| |].
  - destruct (check d _) as [[[e mt]|] c2] eqn:Ec; intros [= <- <-]; eauto 6.
  - intros [= <- <-]. exact I.
  - intros [= <- <-]. exact I.
Qed.

(* regex death strings: soundness -- what is reported is a word of the pattern's language found in the
   ring, which holds only bytes received since registration *)
Lemma ds_hit_regex_sound r ring mt :
  ds_hit (SRe r) ring = Some mt -> exists a b, mt = sublist a b ring /\ exists w rest, skipn a ring = w ++ rest /\ lang r w.
Proof.
  simpl. destruct (search r ring) as [[a b]|] eqn:E; [|discriminate]. intros [= <-].
  exists a, b. split; [reflexivity|].
  unfold search in E. apply search_k_spec in E as (i & -> & _ & (rest & Hm) & _). simpl.
  apply m_sound in Hm as (s1 & s2 & E1 & L & _). eauto.
Qed.

(* non-vacuity / the D1 witness: 'ab' inside the single piece 'xxxabyyy' is detected *)
Example d1_witness_detected :
  let c := push_death (SLit [97; 98]%N) 7 (chan_init [(0%Z, [120; 120; 120; 97; 98; 121; 121; 121]%N)] []) in
  fst (read (-1) None c) = EDeath 7 [97; 98]%N.
Proof. vm_compute. reflexivity. Qed.

(* the same at the level of one read_iter iteration -- which every read method is built from *)
Lemma iter_step_deaths start tmo n c r c' hs :
  dinv (deaths c) hs -> iter_step start tmo n c = (r, c') ->
  match r with
  | SData new => dinv (deaths c') (map (fun h => h ++ new) hs)
  | SDeath exc mt => exists new e h, In e (deaths c) /\ In h hs /\ d_str e = SLit mt /\ d_exc e = exc /\
                                     contains mt (h ++ new) = true
  | _ => deaths c' = deaths c
  end.
Proof.
  intros Hinv H. pose proof (iter_step_checks _ _ _ _ _ _ H) as Hc.
  destruct r as [new| | |exc mt].
  - destruct Hc as (io' & _ & Hck).
    destruct (write_stream_frame new (with_io c io')) as (_ & _ & W3 & _).
    assert (Hinv' : dinv (deaths (write_stream new (with_io c io'))) hs) by (rewrite W3; exact Hinv).
    exact (ds_complete _ _ _ _ Hinv' Hck).
  - unfold iter_step in H.
    destruct (match match tmo with Some T => Some (T - (now (io c) - start))%Z | None => None end with
              | Some r0 => (r0 <=? 0)%Z | None => false end); [injection H as <-; reflexivity|].
    destruct (io_read _ _ (io c)) as [res io']. destruct res.
    + destruct (check d _) as [[[e mt]|] c2]; discriminate.
    + injection H as <-. reflexivity.
    + discriminate.
  - unfold iter_step in H.
    destruct (match match tmo with Some T => Some (T - (now (io c) - start))%Z | None => None end with
              | Some r0 => (r0 <=? 0)%Z | None => false end); [discriminate|].
    destruct (io_read _ _ (io c)) as [res io']. destruct res.
    + destruct (check d _) as [[[e mt]|] c2]; discriminate.
    + discriminate.
    + injection H as <-. reflexivity.
  - destruct Hc as (new & io' & c2 & _ & Hck & ->).
    destruct (write_stream_frame new (with_io c io')) as (_ & _ & W3 & _).
    assert (Hinv' : dinv (deaths (write_stream new (with_io c io'))) hs) by (rewrite W3; exact Hinv).
    destruct (ds_sound _ _ _ _ _ _ Hinv' Hck) as (e & h & I1 & I2 & I3 & I4 & I5).
    rewrite W3 in I1. exists new, e, h. auto 10.
Qed.
