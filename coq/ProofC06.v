(* ProofC06.v -- timeouts are overall deadlines (virtual time of the scripted transport). *)
From TV Require Import Base BaseLemmas Utf8 Regex Channel ChannelLemmas ProofC02 ProofC03.

Definition nowc (c : chan) : Z := now (io c).

(* ---- loops built directly on iter_step ---- *)
Lemma rup_loop_deadline fuel : forall start T buf c r c',
  (nowc c <= start + T)%Z -> rup_loop fuel start (Some T) buf c = (r, c') ->
  (nowc c' <= start + T)%Z /\ (r = ETimeout -> nowc c' = (start + T)%Z) /\ r <> EBlocked.
Proof.
  induction fuel as [|f IH]; intros start T buf c r c' Hle H.
  { simpl in H. injection H as <- <-. repeat split; auto; discriminate. }
  rewrite rup_loop_step in H.
  destruct (iter_step start (Some T) READ_CHUNK_SIZE c) as [sr c1] eqn:Es.
  destruct (iter_step_time _ _ _ _ _ _ Es chunk_pos Hle) as (T1 & T2 & T3 & T4).
  destruct sr as [new| | |e mt].
  - destruct (prompt_split _ _).
    + injection H as <- <-. repeat split; auto; discriminate.
    + eapply IH; eauto.
  - injection H as <- <-. repeat split; auto; discriminate.
  - congruence.
  - injection H as <- <-. repeat split; auto; discriminate.
Qed.

Lemma expect_loop_deadline fuel : forall start T pats buf c r c',
  (nowc c <= start + T)%Z -> expect_loop fuel start (Some T) pats buf c = (r, c') ->
  (nowc c' <= start + T)%Z /\ (r = ETimeout -> nowc c' = (start + T)%Z) /\ r <> EBlocked.
Proof.
  induction fuel as [|f IH]; intros start T pats buf c r c' Hle H.
  { simpl in H. injection H as <- <-. repeat split; auto; discriminate. }
  rewrite expect_loop_step in H.
  destruct (iter_step start (Some T) READ_CHUNK_SIZE c) as [sr c1] eqn:Es.
  destruct (iter_step_time _ _ _ _ _ _ Es chunk_pos Hle) as (T1 & T2 & T3 & T4).
  destruct sr as [new| | |e mt].
  - destruct (try_patterns _ _ _).
    + injection H as <- <-. repeat split; auto; discriminate.
    + eapply IH; eauto.
  - injection H as <- <-. repeat split; auto; discriminate.
  - congruence.
  - injection H as <- <-. repeat split; auto; discriminate.
Qed.

(* read_until_timeout: returns (never raises TimeoutError) and does so exactly AT the deadline *)
Lemma rut_loop_deadline fuel : forall start T buf c r c',
  (nowc c <= start + T)%Z -> rut_loop fuel start (Some T) buf c = (r, c') ->
  (nowc c' <= start + T)%Z /\ r <> ETimeout /\ r <> EBlocked /\
  (forall out, r = Ret out -> nowc c' = (start + T)%Z).
Proof.
  induction fuel as [|f IH]; intros start T buf c r c' Hle H.
  { simpl in H. injection H as <- <-. repeat split; auto; discriminate. }
  rewrite rut_loop_step in H.
  destruct (iter_step start (Some T) READ_CHUNK_SIZE c) as [sr c1] eqn:Es.
  destruct (iter_step_time _ _ _ _ _ _ Es chunk_pos Hle) as (T1 & T2 & T3 & T4).
  destruct sr as [new| | |e mt].
  - eapply IH; eauto.
  - injection H as <- <-. repeat split; auto; discriminate.
  - congruence.
  - injection H as <- <-. repeat split; auto; discriminate.
Qed.

Lemma read_iter_loop_deadline fuel : forall start T mx got acc c chs r c',
  (forall m0, mx = Some m0 -> got < m0) ->
  (nowc c <= start + T)%Z -> read_iter_loop fuel start (Some T) mx got acc c = (chs, r, c') ->
  (nowc c' <= start + T)%Z /\ (r = ETimeout -> nowc c' = (start + T)%Z) /\ r <> EBlocked.
Proof.
  induction fuel as [|f IH]; intros start T mx got acc c chs r c' Hmx Hle H.
  { simpl in H. injection H as <- <- <-. repeat split; auto; discriminate. }
  rewrite read_iter_loop_step in H.
  assert (Hpos : 0 < maxread_of mx got).
  { destruct mx as [m0|]; [apply maxread_pos; auto | apply chunk_pos]. }
  destruct (iter_step start (Some T) (maxread_of mx got) c) as [sr c1] eqn:Es.
  pose proof (iter_step_spec _ _ _ _ _ _ Es Hpos) as Hspec.
  destruct (iter_step_time _ _ _ _ _ _ Es Hpos Hle) as (T1 & T2 & T3 & T4).
  destruct sr as [new| | |e mt].
  - destruct (match mx with Some m0 => Nat.eqb (got + length new) m0 | None => false end) eqn:Eq.
    + injection H as <- <- <-. repeat split; auto; discriminate.
    + eapply (IH start T mx (got + length new)); eauto.
      intros m0 ->. apply Nat.eqb_neq in Eq.
      pose proof (iter_step_len _ _ _ _ _ _ Es) as Hd.
      pose proof (maxread_le m0 got). specialize (Hmx m0 eq_refl). lia.
  - injection H as <- <- <-. repeat split; auto; discriminate.
  - congruence.
  - injection H as <- <- <-. repeat split; auto; discriminate.
Qed.

(* ---- the public operations, called at time now with timeout T >= 0 ---- *)
Theorem deadline_read_until_prompt p T c r c' :
  (0 <= T)%Z -> read_until_prompt p (Some T) c = (r, c') ->
  (nowc c' <= nowc c + T)%Z /\ (r = ETimeout -> nowc c' = (nowc c + T)%Z) /\ r <> EBlocked.
Proof.
  intros HT. unfold read_until_prompt. destruct p as [p'|].
  - destruct (rup_loop _ _ _ _ _) as [r1 c1] eqn:E. intros [= <- <-].
    apply rup_loop_deadline in E; [|unfold nowc; simpl; lia]. unfold nowc in *; simpl in *. exact E.
  - intros E. apply rup_loop_deadline in E; [|unfold nowc; lia]. exact E.
Qed.

Theorem deadline_expect pats T c r c' :
  (0 <= T)%Z -> expect pats (Some T) c = (r, c') ->
  (nowc c' <= nowc c + T)%Z /\ (r = ETimeout -> nowc c' = (nowc c + T)%Z) /\ r <> EBlocked.
Proof. intros HT E. apply expect_loop_deadline in E; [exact E | unfold nowc; lia]. Qed.

Theorem deadline_read_until_timeout T c r c' :
  (0 <= T)%Z -> read_until_timeout (Some T) c = (r, c') ->
  (nowc c' <= nowc c + T)%Z /\ r <> ETimeout /\ r <> EBlocked /\
  (forall out, r = Ret out -> nowc c' = (nowc c + T)%Z).
Proof. intros HT E. apply rut_loop_deadline in E; [exact E | unfold nowc; lia]. Qed.

Lemma read_deadline_gen n start T c r c' :
  (nowc c <= start + T)%Z ->
  read (Z.of_nat (S n)) (Some (T - (nowc c - start))%Z) c = (r, c') ->
  (nowc c' <= start + T)%Z /\ (r = ETimeout -> nowc c' = (start + T)%Z) /\ r <> EBlocked.
Proof.
  intros Hle. unfold read.
  destruct (Z.of_nat (S n) <? 0)%Z eqn:E; [apply Z.ltb_lt in E; lia|].
  rewrite Nat2Z.id. unfold read_iter.
  destruct (read_iter_loop _ _ _ _ _ _ _) as [[chs r1] c1] eqn:El.
  apply read_iter_loop_deadline in El.
  - replace (now (io c) + (T - (nowc c - start)))%Z with (start + T)%Z in El by (unfold nowc; lia).
    intros H. destruct r1; injection H as <- <-; simpl;
      destruct El as (A & B & C); repeat split; auto; try discriminate.
  - intros m0 [= <-]. lia.
  - unfold nowc in *. lia.
Qed.

Theorem deadline_read_n n T c r c' :
  (0 <= T)%Z -> read (Z.of_nat (S n)) (Some T) c = (r, c') ->
  (nowc c' <= nowc c + T)%Z /\ (r = ETimeout -> nowc c' = (nowc c + T)%Z) /\ r <> EBlocked.
Proof.
  intros HT H. apply (read_deadline_gen n (nowc c) T c r c'); [lia|].
  replace (T - (nowc c - nowc c))%Z with T by lia. exact H.
Qed.

Lemma readline_loop_deadline fuel : forall start T le line c r c',
  (nowc c <= start + T)%Z -> readline_loop fuel start (Some T) le line c = (r, c') ->
  (nowc c' <= start + T)%Z /\ (r = ETimeout -> nowc c' = (start + T)%Z) /\ r <> EBlocked.
Proof.
  induction fuel as [|f IH]; intros start T le line c r c' Hle H.
  { simpl in H. injection H as <- <-. repeat split; auto; discriminate. }
  rewrite readline_loop_step in H.
  destruct (read 1 _ c) as [r1 c1] eqn:Er.
  change 1%Z with (Z.of_nat 1) in Er.
  destruct (read_deadline_gen 0 start T c r1 c1 Hle Er) as (A & B & C).
  destruct r1 as [b| | | | | |]; simpl in H.
  - destruct (is_suffix le (line ++ b)).
    + injection H as <- <-. repeat split; auto; discriminate.
    + eapply IH; eauto.
  - injection H as <- <-. repeat split; auto; discriminate.
  - congruence.
  - injection H as <- <-. repeat split; auto; discriminate.
  - injection H as <- <-. repeat split; auto; discriminate.
  - injection H as <- <-. repeat split; auto; discriminate.
  - injection H as <- <-. repeat split; auto; discriminate.
Qed.

Theorem deadline_readline T le c r c' :
  (0 <= T)%Z -> readline (Some T) le c = (r, c') ->
  (nowc c' <= nowc c + T)%Z /\ (r = ETimeout -> nowc c' = (nowc c + T)%Z) /\ r <> EBlocked.
Proof. intros HT E. apply readline_loop_deadline in E; [exact E | unfold nowc; lia]. Qed.

(* ---- send with read-back: ONE deadline for the whole payload (no slow-send: writes take no time) ---- *)
Lemma write_keeps_time buf ign c r c' :
  slow c = None -> write buf ign c = (r, c') -> nowc c' = nowc c /\ slow c' = None.
Proof.
  intros Hs H. assert (Hok : slow_ok c) by (unfold slow_ok; rewrite Hs; exact I).
  assert (G : forall fuel b c0 r0 c0', slow c0 = None -> write_loop fuel b c0 = (r0, c0') ->
              nowc c0' = nowc c0 /\ slow c0' = None).
  { induction fuel as [|f IHf]; intros b c0 r0 c0' Hs0 Hw.
    - destruct b; simpl in Hw; injection Hw as <- <-; auto.
    - destruct b as [|x b]; [simpl in Hw; injection Hw as <- <-; auto|].
      rewrite write_loop_cons, Hs0 in Hw.
      destruct (io_write (x :: b) (io c0)) as [k io'] eqn:Ew.
      apply IHf in Hw; [|exact Hs0]. destruct Hw as [Hn Hsl]. split; [|exact Hsl].
      rewrite Hn. unfold nowc; simpl. unfold io_write in Ew. injection Ew as _ <-. reflexivity. }
  unfold write in H. destruct (negb ign && any_in (blacklist c) buf).
  - injection H as <- <-. auto.
  - eapply G; eauto.
Qed.

Lemma send_loop_cons_rb f start x s tmo c :
  send_loop (S f) start (x :: s) true tmo c =
  match write (firstn SEND_SLICE (x :: s)) false c with
  | (Ret _, c1) =>
      match read (Z.of_nat (readback_len (firstn SEND_SLICE (x :: s))))
                 (match tmo with None => None | Some T => Some (T - (now (io c1) - start))%Z end) c1 with
      | (Ret _, c2) => send_loop f start (skipn SEND_SLICE (x :: s)) true tmo c2
      | (e, c2) => (lift_err e, c2)
      end
  | (e, c1) => (e, c1)
  end.
Proof. reflexivity. Qed.

Lemma send_loop_deadline fuel : forall start T s c r c',
  slow c = None -> (nowc c <= start + T)%Z ->
  send_loop fuel start s true (Some T) c = (r, c') ->
  (nowc c' <= start + T)%Z /\ (r = ETimeout -> nowc c' = (start + T)%Z) /\ r <> EBlocked.
Proof.
  induction fuel as [|f IH]; intros start T s c r c' Hs Hle H.
  { destruct s; simpl in H; injection H as <- <-; repeat split; auto; discriminate. }
  destruct s as [|x s0]; [simpl in H; injection H as <- <-; repeat split; auto; discriminate|].
  rewrite send_loop_cons_rb in H.
  destruct (write _ false c) as [r1 c1] eqn:Ew.
  destruct (write_keeps_time _ _ _ _ _ Hs Ew) as [Hn Hs1].
  assert (Hok : slow_ok c) by (unfold slow_ok; rewrite Hs; exact I).
  destruct (write_complete _ _ _ _ _ Hok Ew) as [(-> & _)|(-> & _)]; cbv beta iota in H;
    [|injection H as <- <-; rewrite Hn; repeat split; auto; discriminate].
  assert (Hrb : exists n, readback_len (firstn SEND_SLICE (x :: s0)) = S n).
  { unfold readback_len. pose proof slice_pos. destruct SEND_SLICE; [lia|]. simpl. eauto. }
  destruct Hrb as [n Hrb]. rewrite Hrb in H.
  destruct (read _ _ c1) as [r2 c2] eqn:Er.
  assert (Hle1 : (nowc c1 <= start + T)%Z) by lia.
  destruct (read_deadline_gen n start T c1 r2 c2 Hle1 Er) as (A & B & C).
  assert (Hs2 : slow c2 = None).
  { unfold read in Er. destruct (Z.of_nat (S n) <? 0)%Z eqn:E; [apply Z.ltb_lt in E; lia|].
    rewrite Nat2Z.id in Er. unfold read_iter in Er.
    destruct (read_iter_loop _ _ _ _ _ _ _) as [[chs r3] c3] eqn:El.
    (* the read loop does not touch the slow-send configuration *)
    assert (Hw : slow c3 = slow c1).
    { clear - El. revert El. generalize (fuel_of c1) (now (io c1)) 0 (@nil (list N)).
      intros fu st. revert c1. induction fu as [|fu IHfu]; intros c1 got acc El.
      - simpl in El. injection El as _ _ <-. reflexivity.
      - rewrite read_iter_loop_step in El.
        destruct (iter_step _ _ _ c1) as [sr c4] eqn:Es.
        assert (Hfr : slow c4 = slow c1).
        { unfold iter_step in Es. destruct (_ <=? 0)%Z; [injection Es as _ <-; reflexivity|].
          destruct (io_read _ _ _) as [res io']. destruct res.
          - destruct (write_stream_frame d (with_io c1 io')) as (_ & _ & _ & _ & W5 & _).
            destruct (check d _) as [[[e' mt']|] c5] eqn:Ec;
              destruct (check_frame _ _ _ _ Ec) as (_ & _ & _ & _ & C5 & _);
              injection Es as _ <-; rewrite C5, W5; reflexivity.
          - injection Es as _ <-. reflexivity.
          - injection Es as _ <-. reflexivity. }
        destruct sr.
        + destruct (Nat.eqb _ _); [injection El as _ _ <-; exact Hfr|].
          apply IHfu in El. congruence.
        + injection El as _ _ <-. exact Hfr.
        + injection El as _ _ <-. exact Hfr.
        + injection El as _ _ <-. exact Hfr. }
    destruct r3; injection Er as _ <-; congruence. }
  destruct r2 as [b| | | | | |]; cbv beta iota in H; unfold lift_err in H.
  - eapply IH; eauto.
  - injection H as <- <-. repeat split; auto; discriminate.
  - congruence.
  - injection H as <- <-. repeat split; auto; discriminate.
  - injection H as <- <-. repeat split; auto; discriminate.
  - injection H as <- <-. repeat split; auto; discriminate.
  - injection H as <- <-. repeat split; auto; discriminate.
Qed.

Theorem deadline_send_readback s T c r c' :
  (0 <= T)%Z -> slow c = None -> send s true (Some T) c = (r, c') ->
  (nowc c' <= nowc c + T)%Z /\ (r = ETimeout -> nowc c' = (nowc c + T)%Z) /\ r <> EBlocked.
Proof.
  intros HT Hs E. unfold send in E. destruct (any_in (blacklist c) s).
  - injection E as <- <-. split; [lia|]. split; [discriminate | discriminate].
  - apply send_loop_deadline in E; auto. unfold nowc; lia.
Qed.

(* ---- no timeout given: TimeoutError is never raised ---- *)
Lemma expect_loop_none_no_timeout fuel : forall start pats buf c c',
  expect_loop fuel start None pats buf c <> (ETimeout, c').
Proof.
  induction fuel as [|f IH]; intros start pats buf c c'; [discriminate|].
  rewrite expect_loop_step.
  destruct (iter_step start None READ_CHUNK_SIZE c) as [r c1] eqn:Es.
  pose proof (iter_step_none_no_timeout _ _ _ _ _ Es chunk_pos) as Hnt.
  destruct r; try congruence; try discriminate.
  destruct (try_patterns _ _ _); [discriminate | apply IH].
Qed.

Lemma rut_loop_none_never_returns fuel : forall start buf c out c',
  rut_loop fuel start None buf c <> (Ret out, c') /\ rut_loop fuel start None buf c <> (ETimeout, c').
Proof.
  induction fuel as [|f IH]; intros start buf c out c'; [split; discriminate|].
  rewrite rut_loop_step.
  destruct (iter_step start None READ_CHUNK_SIZE c) as [r c1] eqn:Es.
  pose proof (iter_step_none_no_timeout _ _ _ _ _ Es chunk_pos) as Hnt.
  destruct r; try congruence; try (split; discriminate). apply IH.
Qed.

(* ---- read_until_timeout hands out exactly the data that arrived before the deadline ---- *)
Lemma io_read_timeout_head n T t t' :
  io_read n (Some T) t = (RTimeout, t') -> 0 < n ->
  match pend t' with [] => True | (at_, _) :: _ => (now t + T <= at_)%Z end.
Proof.
  unfold io_read. intros H Hn. destruct n as [|n']; [lia|]. simpl in H.
  destruct (pend t) as [|[at_ dd] rest] eqn:Ep.
  - injection H as <-. simpl. exact I.
  - unfold deliver in H. destruct (at_ <=? now t)%Z; [discriminate|].
    destruct (at_ <? now t + T)%Z eqn:El; [discriminate|]. injection H as <-. simpl.
    apply Z.ltb_ge in El. exact El.
Qed.

Lemma rut_loop_data fuel : forall start T buf c out c',
  wfc c -> (nowc c < start + T)%Z ->
  rut_loop fuel start (Some T) buf c = (Ret out, c') ->
  exists data, cpend c = data ++ cpend c' /\ out = text (buf ++ data) /\
               nowc c' = (start + T)%Z /\
               match pend (io c') with [] => True | (at_, _) :: _ => (start + T <= at_)%Z end.
Proof.
  induction fuel as [|f IH]; intros start T buf c out c' Hw Hlt H; [discriminate|].
  rewrite rut_loop_step in H.
  destruct (iter_step start (Some T) READ_CHUNK_SIZE c) as [sr c1] eqn:Es.
  destruct (iter_step_spec _ _ _ _ _ _ Es chunk_pos Hw) as (_ & Hw1 & _ & Hr).
  assert (Hle : (nowc c <= start + T)%Z) by lia.
  destruct (iter_step_time _ _ _ _ _ _ Es chunk_pos Hle) as (T1 & T2 & T3 & T4).
  destruct sr as [new| | |e mt]; try discriminate.
  - destruct Hr as (_ & _ & Hcat & _).
    destruct (IH _ _ _ _ _ _ Hw1 (T3 new eq_refl) H) as (data & D1 & D2 & D3 & D4).
    exists (new ++ data). rewrite <- app_assoc in D2. rewrite Hcat, D1, app_assoc. auto.
  - injection H as <- <-. exists []. rewrite app_nil_r. destruct Hr as (Hp & _).
    split; [unfold cpend; rewrite Hp; reflexivity|]. split; [reflexivity|]. split; [apply T2; reflexivity|].
    unfold iter_step in Es.
    destruct (T - (now (io c) - start) <=? 0)%Z eqn:Erem.
    + apply Z.leb_le in Erem. unfold nowc in Hlt. lia.
    + destruct (io_read _ _ (io c)) as [res io'] eqn:Eio. destruct res as [d| |].
      * destruct (check d _) as [[[e' mt']|] c2]; discriminate.
      * injection Es as <-. simpl.
        pose proof (io_read_timeout_head _ _ _ _ Eio chunk_pos) as Hh.
        destruct (pend io') as [|[at_ dd] rest]; [exact I|]. lia.
      * discriminate.
Qed.

(* read_until_timeout(T), T > 0: returns exactly at the deadline, with exactly the data the transport
   delivered before it; the first piece left unread (if any) arrives at or after the deadline *)
Theorem rut_returns_data_before_deadline T c out c' :
  wfc c -> (0 < T)%Z -> read_until_timeout (Some T) c = (Ret out, c') ->
  exists data, cpend c = data ++ cpend c' /\ out = text data /\
               nowc c' = (nowc c + T)%Z /\
               match pend (io c') with [] => True | (at_, _) :: _ => (nowc c + T <= at_)%Z end.
Proof.
  intros Hw HT H. unfold read_until_timeout in H.
  apply rut_loop_data in H; [exact H | exact Hw | unfold nowc; lia].
Qed.
