(* ProofC06b.v -- the select loop of SubprocessChannelIO.read respects the deadline exactly. *)
From TV Require Import Base SubIO.
From Coq Require Import ZifyBool.
Ltac Zify.zify_post_hook ::= Z.to_euclidean_division_equations.

Local Open Scope Z_scope.

Lemma minw_pos : 0 < MINW. Proof. reflexivity. Qed.

(* with an end time: the loop ends at the data (if it is readable no later than the end time -- also exactly at it),
   at the exit of the process, or with TimeoutError exactly at the end time and only if nothing became readable *)
Lemma sel_loop_spec fuel : forall e now ready dies,
  now <= e -> (now < e \/ forall a, ready = Some a -> now < a) ->
  (Z.to_nat ((e - now + MINW - 1) / MINW) + 1 <= fuel)%nat ->
  match sel_loop fuel (Some e) now ready dies with
  | SRead t => exists a, ready = Some a /\ a <= e /\ t = Z.max now a
  | STimeoutAt t => t = e /\ (forall a, ready = Some a -> e < a)
  | SClosedAt t => t <= e /\ (exists d, dies = Some d /\ d <= t) /\ (forall a, ready = Some a -> t < a)
  | SNoData _ | SFuel => False
  end.
Proof.
  induction fuel as [|f IH]; intros e now ready dies Hle Hinv Hf; [lia|].
  cbn [sel_loop]. pose proof minw_pos as HM.
  destruct (Z.min MINW (e - now) <=? 0) eqn:Er.
  - apply Z.leb_le in Er. assert (now = e) by lia. subst now.
    split; [reflexivity|]. destruct Hinv as [H|H]; [lia | exact H].
  - apply Z.leb_gt in Er. set (w := Z.min MINW (e - now)) in *.
    assert (Hfuel : (Z.to_nat ((e - (now + w) + MINW - 1) / MINW) + 1 <= f)%nat).
    { unfold w in *. destruct (Z.min_spec MINW (e - now)) as [[Hlt Hw]|[Hlt Hw]]; rewrite Hw in *.
      - assert (Q : (e - (now + MINW) + MINW - 1) / MINW = (e - now + MINW - 1) / MINW - 1) by (unfold MINW in *; lia).
        rewrite Q. assert (Q2 : 0 <= (e - now + MINW - 1) / MINW - 1) by (unfold MINW in *; lia).
        clear Q. generalize dependent ((e - now + MINW - 1) / MINW). intros q Hq Hq2.
        assert (E : Z.to_nat (q - 1) = (Z.to_nat q - 1)%nat) by (rewrite Z2Nat.inj_sub by lia; reflexivity).
        assert (1 <= Z.to_nat q)%nat by (change 1%nat with (Z.to_nat 1); apply Z2Nat.inj_le; lia). rewrite E.
        set (n := Z.to_nat q) in *. clearbody n. clear -Hq H. lia.
      - replace (e - (now + (e - now)) + MINW - 1) with (MINW - 1) by lia. change ((MINW - 1) / MINW) with 0. cbn [Z.to_nat].
        assert (Q3 : 1 <= (e - now + MINW - 1) / MINW) by (unfold MINW in *; lia).
        assert (1 <= Z.to_nat ((e - now + MINW - 1) / MINW))%nat by (change 1%nat with (Z.to_nat 1); apply Z2Nat.inj_le; lia).
        set (n := Z.to_nat ((e - now + MINW - 1) / MINW)) in *. clearbody n. clear -Hf H. lia. }
    assert (Hle' : now + w <= e) by (unfold w; lia).
    destruct ready as [a|].
    + destruct (a <=? now + w) eqn:Ea.
      * apply Z.leb_le in Ea. exists a. split; [reflexivity|]. split; [unfold w in *; lia | reflexivity].
      * apply Z.leb_gt in Ea.
        assert (Hinv' : now + w < e \/ (forall a0, Some a = Some a0 -> now + w < a0)) by (right; intros a0 [= <-]; exact Ea).
        destruct (is_closed dies (now + w)) eqn:Ec.
        -- unfold is_closed in Ec. destruct dies as [d|]; [|discriminate]. apply Z.leb_le in Ec.
           split; [exact Hle'|]. split; [exists d; auto|]. intros a0 [= <-]. exact Ea.
        -- pose proof (IH e (now + w) (Some a) dies Hle' Hinv' Hfuel) as R.
           destruct (sel_loop f (Some e) (now + w) (Some a) dies); try exact R.
           destruct R as (a0 & Ha0 & A & ->). injection Ha0 as <-. exists a. split; [reflexivity|]. split; [exact A | lia].
    + assert (Hinv' : now + w < e \/ (forall a0, @None Z = Some a0 -> now + w < a0)) by (right; discriminate).
      destruct (is_closed dies (now + w)) eqn:Ec.
      * unfold is_closed in Ec. destruct dies as [d|]; [|discriminate]. apply Z.leb_le in Ec.
        split; [exact Hle'|]. split; [exists d; auto | discriminate].
      * pose proof (IH e (now + w) None dies Hle' Hinv' Hfuel) as R.
        destruct (sel_loop f (Some e) (now + w) None dies); try exact R.
        destruct R as (a0 & Ha0 & _). discriminate.
Qed.

(* SubprocessChannelIO.read(n, timeout=T), T > 0, process alive at the call *)
Theorem sub_read_deadline T now ready dies :
  0 < T -> is_closed dies now = false ->
  match sub_read (fuel_for (Some T) now ready dies) (Some T) now ready dies with
  | SRead t => exists a, ready = Some a /\ a <= now + T /\ t = Z.max now a       (* immediately when readable; never later than T *)
  | STimeoutAt t => t = now + T /\ (forall a, ready = Some a -> now + T < a)       (* exactly at T, and only if nothing arrived by then *)
  | SClosedAt t => t <= now + T /\ (forall a, ready = Some a -> t < a)
  | SNoData _ | SFuel => False
  end.
Proof.
  intros HT Hc. unfold sub_read. rewrite Hc. cbn [option_map].
  pose proof (sel_loop_spec (fuel_for (Some T) now ready dies) (now + T) now ready dies) as S.
  pose proof minw_pos as HM.
  assert (Hf : (Z.to_nat ((now + T - now + MINW - 1) / MINW) + 1 <= fuel_for (Some T) now ready dies)%nat).
  { unfold fuel_for, horizon. replace (now + T - now + MINW - 1) with (T + MINW - 1) by lia.
    set (h := Z.max T _). assert (HTh : T <= h) by (unfold h; lia).
    assert (Q : (T + MINW - 1) / MINW <= h / MINW + 1).
    { assert ((T + MINW - 1) / MINW <= (h + MINW) / MINW) by (apply Z.div_le_mono; lia).
      assert ((h + MINW) / MINW = h / MINW + 1) by (unfold MINW; lia). lia. }
    assert (0 <= h / MINW) by (apply Z.div_pos; lia).
    assert (Z.to_nat ((T + MINW - 1) / MINW) <= Z.to_nat (h / MINW + 1))%nat by (apply Z2Nat.inj_le; try lia; apply Z.div_pos; lia).
    rewrite Z2Nat.inj_add in H0 by lia. change (Z.to_nat 1) with 1%nat in H0.
    set (a1 := Z.to_nat ((T + MINW - 1) / MINW)) in *. set (a2 := Z.to_nat (h / MINW)) in *. clearbody a1 a2. lia. }
  assert (L1 : now <= now + T) by lia.
  assert (L2 : now < now + T \/ (forall a, ready = Some a -> now < a)) by (left; lia).
  specialize (S L1 L2 Hf).
  destruct (sel_loop _ _ _ _ _); auto.
  destruct S as (A & _ & C). split; [exact A | exact C].
Qed.

(* without a timeout the loop never raises TimeoutError *)
Theorem sub_read_no_timeout fuel now ready dies t :
  sub_read fuel None now ready dies <> STimeoutAt t.
Proof.
  unfold sub_read. destruct (is_closed dies now); [destruct (match ready with Some a => a <=? now | None => false end); discriminate|].
  cbn [option_map]. revert now. induction fuel as [|f IH]; intros now; cbn [sel_loop]; [discriminate|].
  destruct (match ready with Some a => a <=? now + MINW | None => false end); [discriminate|].
  destruct (is_closed dies (now + MINW)); [discriminate | apply IH].
Qed.
