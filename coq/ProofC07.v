(* ProofC07.v -- ownership invariants over all histories of borrow / end-of-borrow / take / I/O / config writes *)
From TV Require Import Base Own.

(* ------------------------------------------------------------------ list plumbing *)
Lemma set_nth_length {A} n (x : A) l : length (set_nth n x l) = length l.
Proof. revert n; induction l as [|y l IH]; intros [|n]; simpl; auto. Qed.

Lemma nth_set_nth_same {A} n (x d : A) l : n < length l -> nth n (set_nth n x l) d = x.
Proof. revert n; induction l as [|y l IH]; intros [|n] H; simpl in *; try lia; auto. apply IH; lia. Qed.

Lemma nth_set_nth_other {A} n m (x d : A) l : n <> m -> nth m (set_nth n x l) d = nth m l d.
Proof.
  revert n m; induction l as [|y l IH]; intros [|n] [|m] H; simpl; auto; try congruence.
Qed.

Lemma nth_app_l {A} n (l l' : list A) d : n < length l -> nth n (l ++ l') d = nth n l d.
Proof. intros. apply app_nth1; assumption. Qed.

Lemma nth_app_new {A} (l : list A) x d : nth (length l) (l ++ [x]) d = x.
Proof. rewrite app_nth2 by lia. rewrite Nat.sub_diag. reflexivity. Qed.

(* ------------------------------------------------------------------ the world invariant *)
(* every active borrow frame names an existing handle that is currently Borrowed and will be restored to
   Live; no handle lends twice *)
Definition frame_ok (w : world) (f : nat * iost) : Prop :=
  fst f < length (handles w) /\ snd f = Live /\ h_io (get_h w (fst f)) = Borrowed.

Definition winv (w : world) : Prop :=
  Forall (frame_ok w) (frames w) /\ NoDup (map fst (frames w)) /\
  (forall h, h < length (handles w) -> h_io (get_h w h) = Borrowed -> In h (map fst (frames w))).

Lemma winv0 : winv world0.
Proof.
  unfold winv, world0; simpl. split; [constructor|]. split; [constructor|].
  intros [|h] Hh Hb; simpl in *; [discriminate | lia].
Qed.

Lemma get_h_set_io_other w h s j : j <> h -> get_h (set_io w h s) j = get_h w j.
Proof. intros H. unfold get_h, set_io; simpl. apply nth_set_nth_other; auto. Qed.

Definition ostep_w (o : oop) (w : world) : world := snd (ostep o w).
Definition ostep_r (o : oop) (w : world) : V := fst (ostep o w).

(* handles are never removed *)
Lemma ostep_handles_grow o w : length (handles w) <= length (handles (ostep_w o w)).
Proof.
  unfold ostep_w. destruct o as [h|r|h|h k|h c|h]; simpl.
  - destruct (h_io (get_h w h)); simpl; try lia. rewrite app_length, set_nth_length; simpl; lia.
  - destruct (frames w) as [|[h s] rest]; simpl; [lia|]. rewrite set_nth_length; lia.
  - destruct (h_io (get_h w h)); simpl; try lia. rewrite app_length, set_nth_length; simpl; lia.
  - destruct k, (h_io (get_h w h)); simpl; lia.
  - rewrite set_nth_length; lia.
  - lia.
Qed.

(* the state of a handle other than the ones an operation names is untouched; config is touched only by
   a config write on that very handle *)
Lemma ostep_cfg_frame o w j :
  j < length (handles w) ->
  (forall c, o <> OCfg j c) ->
  h_cfg (get_h (ostep_w o w) j) = h_cfg (get_h w j).
Proof.
  intros Hj Hno. unfold ostep_w. destruct o as [h|r|h|h k|h c|h]; simpl.
  - destruct (h_io (get_h w h)) eqn:E; simpl; auto. unfold get_h; simpl.
    rewrite nth_app_l by (rewrite set_nth_length; exact Hj).
    destruct (Nat.eq_dec h j) as [->|Hne].
    + rewrite nth_set_nth_same by exact Hj. reflexivity.
    + rewrite nth_set_nth_other by exact Hne. reflexivity.
  - destruct (frames w) as [|[h s] rest]; simpl; auto. unfold get_h; simpl.
    destruct (Nat.eq_dec h j) as [->|Hne].
    + rewrite nth_set_nth_same by exact Hj. reflexivity.
    + rewrite nth_set_nth_other by exact Hne. reflexivity.
  - destruct (h_io (get_h w h)) eqn:E; simpl; auto. unfold get_h; simpl.
    rewrite nth_app_l by (rewrite set_nth_length; exact Hj).
    destruct (Nat.eq_dec h j) as [->|Hne].
    + rewrite nth_set_nth_same by exact Hj. reflexivity.
    + rewrite nth_set_nth_other by exact Hne. reflexivity.
  - destruct k, (h_io (get_h w h)); simpl; reflexivity.
  - destruct (Nat.eq_dec h j) as [->|Hne]; [exfalso; eapply Hno; reflexivity|].
    unfold get_h; simpl. rewrite nth_set_nth_other by exact Hne. reflexivity.
  - reflexivity.
Qed.

(* a successful borrow / take hands out a Live handle with the SAME configuration (a copy) *)
Lemma borrow_new_handle w h :
  h < length (handles w) -> h_io (get_h w h) = Live ->
  let w' := ostep_w (OBorrow h) w in
  ostep_r (OBorrow h) w = V_res ROk /\
  length (handles w') = S (length (handles w)) /\
  get_h w' (length (handles w)) = mkH Live (h_cfg (get_h w h)) /\
  h_io (get_h w' h) = Borrowed /\ h_cfg (get_h w' h) = h_cfg (get_h w h) /\
  frames w' = (h, Live) :: frames w.
Proof.
  intros Hh Hl. unfold ostep_w, ostep_r. simpl. rewrite Hl. simpl.
  split; [reflexivity|]. split; [rewrite app_length, set_nth_length; simpl; lia|].
  unfold get_h; simpl.
  split. { rewrite <- (set_nth_length h (mkH Borrowed (h_cfg (nth h (handles w) (mkH Taken cfg0)))) (handles w)) at 1.
           apply nth_app_new. }
  rewrite nth_app_l by (rewrite set_nth_length; exact Hh).
  rewrite nth_set_nth_same by exact Hh. auto.
Qed.

Lemma take_new_handle w h :
  h < length (handles w) -> h_io (get_h w h) = Live ->
  let w' := ostep_w (OTake h) w in
  ostep_r (OTake h) w = V_res ROk /\
  length (handles w') = S (length (handles w)) /\
  get_h w' (length (handles w)) = mkH Live (h_cfg (get_h w h)) /\
  h_io (get_h w' h) = Taken /\ h_cfg (get_h w' h) = h_cfg (get_h w h) /\
  frames w' = frames w.
Proof.
  intros Hh Hl. unfold ostep_w, ostep_r. simpl. rewrite Hl. simpl.
  split; [reflexivity|]. split; [rewrite app_length, set_nth_length; simpl; lia|].
  unfold get_h; simpl.
  split. { rewrite <- (set_nth_length h (mkH Taken (h_cfg (nth h (handles w) (mkH Taken cfg0)))) (handles w)) at 1.
           apply nth_app_new. }
  rewrite nth_app_l by (rewrite set_nth_length; exact Hh).
  rewrite nth_set_nth_same by exact Hh. auto.
Qed.

(* borrow / take of a handle that is lending or was taken raises and changes nothing *)
Lemma nonlive_borrow_take_raise w h :
  h_io (get_h w h) <> Live ->
  ostep (OBorrow h) w = (V_res (err_of (h_io (get_h w h))), w) /\
  ostep (OTake h) w = (V_res (err_of (h_io (get_h w h))), w).
Proof. intros H. simpl. destruct (h_io (get_h w h)); [congruence| |]; auto. Qed.

(* while it lends, every I/O or state call on a handle raises ChannelBorrowedError and changes nothing;
   on a taken handle I/O raises ChannelTakenError, `closed` is True, close()/__exit__ leave the transport alone *)
Lemma io_on_borrowed w h k :
  h_io (get_h w h) = Borrowed -> ostep (OIO h k) w = (V_res RBorrowedErr, w).
Proof. intros H. simpl. rewrite H. destruct k; reflexivity. Qed.

Lemma io_on_taken w h k :
  h_io (get_h w h) = Taken ->
  ostep (OIO h k) w =
  (V_res (match k with KClosed => RVal true | KClose | KExit => ROk | _ => RTakenErr end), w).
Proof. intros H. simpl. rewrite H. destruct k; reflexivity. Qed.

Lemma io_on_live w h k :
  h_io (get_h w h) = Live ->
  fst (ostep (OIO h k) w) =
    V_res (match k with KClosed => RVal (tclosed w) | _ => ROk end) /\
  handles (snd (ostep (OIO h k) w)) = handles w /\ frames (snd (ostep (OIO h k) w)) = frames w.
Proof. intros H. simpl. rewrite H. destruct k; simpl; auto. Qed.

(* ------------------------------------------------------------------ invariant preservation *)
Lemma frame_ok_mono w w' f :
  frame_ok w f -> length (handles w) <= length (handles w') ->
  h_io (get_h w' (fst f)) = h_io (get_h w (fst f)) -> frame_ok w' f.
Proof. intros (A & B & C) Hl He. unfold frame_ok. rewrite He. repeat split; auto; lia. Qed.

Lemma winv_step o w : winv w -> winv (ostep_w o w).
Proof.
  intros (Hf & Hnd & Hb). unfold ostep_w.
  destruct o as [h|r|h|h k|h c|h].
  - (* borrow *)
    simpl. destruct (h_io (get_h w h)) eqn:El; simpl; try (split; [exact Hf | split; [exact Hnd | exact Hb]]).
    destruct (Nat.lt_ge_cases h (length (handles w))) as [Hh|Hh].
    2:{ unfold get_h in El. rewrite nth_overflow in El by exact Hh. discriminate. }
    set (w' := mkW _ _ _).
    assert (Hg : forall j, j < length (handles w) -> j <> h -> get_h w' j = get_h w j).
    { intros j Hj Hne. unfold get_h, w'; simpl. rewrite nth_app_l by (rewrite set_nth_length; exact Hj).
      apply nth_set_nth_other; auto. }
    assert (Hgh : h_io (get_h w' h) = Borrowed).
    { unfold get_h, w'; simpl. rewrite nth_app_l by (rewrite set_nth_length; exact Hh).
      rewrite nth_set_nth_same by exact Hh. reflexivity. }
    assert (Hlen : length (handles w') = S (length (handles w))).
    { unfold w'; simpl. rewrite app_length, set_nth_length; simpl; lia. }
    assert (Hnotin : ~ In h (map fst (frames w))).
    { intros Hin. apply in_map_iff in Hin as ((h0 & s0) & E & Hin). simpl in E; subst h0.
      rewrite Forall_forall in Hf. destruct (Hf _ Hin) as (_ & _ & C). simpl in C. congruence. }
    split; [|split].
    + constructor.
      * unfold frame_ok. cbn [fst snd]. split; [rewrite Hlen; lia | split; [reflexivity | exact Hgh]].
      * rewrite Forall_forall in *. intros f Hin. specialize (Hf f Hin).
        destruct Hf as (A & B & C). unfold frame_ok. split; [rewrite Hlen; lia|]. split; [exact B|].
        rewrite Hg; auto. intros E. apply Hnotin. rewrite <- E. apply in_map. exact Hin.
    + simpl. constructor; assumption.
    + intros j Hj Hbj. simpl. rewrite Hlen in Hj.
      destruct (Nat.eq_dec j h) as [->|Hne]; [left; reflexivity|]. right.
      destruct (Nat.eq_dec j (length (handles w))) as [->|Hne2].
      * exfalso. unfold get_h, w' in Hbj; simpl in Hbj.
        rewrite <- (set_nth_length h (mkH Borrowed (h_cfg (get_h w h))) (handles w)) in Hbj at 1.
        rewrite nth_app_new in Hbj. discriminate.
      * apply Hb; [lia|]. rewrite <- Hg; auto; lia.
  - (* end of borrow *)
    simpl. destruct (frames w) as [|[h s] rest] eqn:Ef; simpl.
    { unfold winv. try rewrite Ef. split; [exact Hf | split; [exact Hnd | exact Hb]]. }
    inversion Hf as [|? ? (A & B & C) Hrest]; subst. simpl in *.
    inversion Hnd as [|? ? Hnotin Hnd']; subst.
    set (w' := mkW _ _ _).
    assert (Hg : forall j, j <> h -> get_h w' j = get_h w j).
    { intros j Hne. unfold get_h, w'; simpl. apply nth_set_nth_other; auto. }
    assert (Hlen : length (handles w') = length (handles w)) by (unfold w'; simpl; apply set_nth_length).
    split; [|split].
    + rewrite Forall_forall in *. intros f Hin. specialize (Hrest f Hin).
      destruct Hrest as (A' & B' & C'). unfold frame_ok. rewrite Hlen. split; [exact A'|]. split; [exact B'|].
      rewrite Hg; auto. intros E. apply Hnotin. rewrite <- E. apply in_map. exact Hin.
    + exact Hnd'.
    + intros j Hj Hbj. rewrite Hlen in Hj.
      destruct (Nat.eq_dec j h) as [->|Hne].
      * exfalso. unfold get_h, w' in Hbj; simpl in Hbj. rewrite nth_set_nth_same in Hbj by exact A.
        simpl in Hbj. congruence.
      * rewrite Hg in Hbj by exact Hne. destruct (Hb j Hj Hbj) as [E|Hin]; [congruence | exact Hin].
  - (* take *)
    simpl. destruct (h_io (get_h w h)) eqn:El; simpl; try (split; [exact Hf | split; [exact Hnd | exact Hb]]).
    destruct (Nat.lt_ge_cases h (length (handles w))) as [Hh|Hh].
    2:{ unfold get_h in El. rewrite nth_overflow in El by exact Hh. discriminate. }
    set (w' := mkW _ _ _).
    assert (Hg : forall j, j < length (handles w) -> j <> h -> get_h w' j = get_h w j).
    { intros j Hj Hne. unfold get_h, w'; simpl. rewrite nth_app_l by (rewrite set_nth_length; exact Hj).
      apply nth_set_nth_other; auto. }
    assert (Hlen : length (handles w') = S (length (handles w))).
    { unfold w'; simpl. rewrite app_length, set_nth_length; simpl; lia. }
    assert (Hnotin : ~ In h (map fst (frames w))).
    { intros Hin. apply in_map_iff in Hin as ((h0 & s0) & E & Hin). simpl in E; subst h0.
      rewrite Forall_forall in Hf. destruct (Hf _ Hin) as (_ & _ & C). simpl in C. congruence. }
    split; [|split].
    + rewrite Forall_forall in *. intros f Hin. specialize (Hf f Hin).
      destruct Hf as (A & B & C). unfold frame_ok. split; [rewrite Hlen; lia|]. split; [exact B|].
      rewrite Hg; auto. intros E. apply Hnotin. rewrite <- E. apply in_map. exact Hin.
    + exact Hnd.
    + intros j Hj Hbj. simpl. rewrite Hlen in Hj.
      destruct (Nat.eq_dec j h) as [->|Hne].
      * exfalso. unfold get_h, w' in Hbj; simpl in Hbj.
        rewrite nth_app_l in Hbj by (rewrite set_nth_length; exact Hh).
        rewrite nth_set_nth_same in Hbj by exact Hh. discriminate.
      * destruct (Nat.eq_dec j (length (handles w))) as [->|Hne2].
        -- exfalso. unfold get_h, w' in Hbj; simpl in Hbj.
           rewrite <- (set_nth_length h (mkH Taken (h_cfg (get_h w h))) (handles w)) in Hbj at 1.
           rewrite nth_app_new in Hbj. discriminate.
        -- apply Hb; [lia|]. rewrite <- Hg; auto; lia.
  - (* I/O: never changes handles or frames *)
    assert (E : handles (snd (ostep (OIO h k) w)) = handles w /\ frames (snd (ostep (OIO h k) w)) = frames w).
    { simpl. destruct k, (h_io (get_h w h)); simpl; auto. }
    destruct E as [E1 E2]. unfold winv, frame_ok, get_h in *. rewrite E1, E2. auto.
  - (* config write: io states and frames unchanged *)
    simpl. unfold set_cfg.
    assert (Hio : forall j, h_io (get_h (mkW (set_nth h (mkH (h_io (get_h w h)) (apply_cfg (h_cfg (get_h w h)) c)) (handles w))
                                              (frames w) (tclosed w)) j) = h_io (get_h w j)).
    { intros j. unfold get_h; simpl. destruct (Nat.eq_dec h j) as [->|Hne].
      - destruct (Nat.lt_ge_cases j (length (handles w))) as [Hj|Hj].
        + rewrite nth_set_nth_same by exact Hj. reflexivity.
        + rewrite !nth_overflow; auto. rewrite set_nth_length; exact Hj.
      - rewrite nth_set_nth_other by exact Hne. reflexivity. }
    unfold winv, frame_ok. simpl. rewrite set_nth_length.
    split; [|split; [exact Hnd|]].
    + rewrite Forall_forall in *. intros f Hin. destruct (Hf f Hin) as (A & B & C).
      rewrite Hio. auto.
    + intros j Hj Hbj. rewrite Hio in Hbj. apply Hb; assumption.
  - simpl. split; [exact Hf | split; [exact Hnd | exact Hb]].
Qed.

Fixpoint orun_w (ops : list oop) (w : world) : world :=
  match ops with [] => w | o :: ops' => orun_w ops' (ostep_w o w) end.

Lemma winv_run ops : forall w, winv w -> winv (orun_w ops w).
Proof. induction ops as [|o ops IH]; intros w H; simpl; [exact H | apply IH, winv_step, H]. Qed.

(* ------------------------------------------------------------------ the statements of the property *)
(* (A) a taken handle stays taken, for ever, whatever happens afterwards on any handle *)
Lemma taken_step o w h : winv w -> h < length (handles w) -> h_io (get_h w h) = Taken ->
  h_io (get_h (ostep_w o w) h) = Taken.
Proof.
  intros (Hf & Hnd & Hb) Hh Ht. unfold ostep_w.
  destruct o as [h0|r|h0|h0 k|h0 c|h0]; simpl.
  - destruct (h_io (get_h w h0)) eqn:El; simpl; auto.
    unfold get_h; simpl. rewrite nth_app_l by (rewrite set_nth_length; exact Hh).
    destruct (Nat.eq_dec h0 h) as [->|Hne]; [congruence|].
    rewrite nth_set_nth_other by exact Hne. exact Ht.
  - destruct (frames w) as [|[h0 s] rest] eqn:Ef; simpl; auto.
    inversion Hf as [|? ? (A & B & C) _]; subst. simpl in *.
    destruct (Nat.eq_dec h0 h) as [->|Hne]; [congruence|].
    unfold get_h; simpl. rewrite nth_set_nth_other by exact Hne. exact Ht.
  - destruct (h_io (get_h w h0)) eqn:El; simpl; auto.
    unfold get_h; simpl. rewrite nth_app_l by (rewrite set_nth_length; exact Hh).
    destruct (Nat.eq_dec h0 h) as [->|Hne]; [congruence|].
    rewrite nth_set_nth_other by exact Hne. exact Ht.
  - destruct k, (h_io (get_h w h0)); simpl; exact Ht.
  - unfold get_h; simpl. destruct (Nat.eq_dec h0 h) as [->|Hne].
    + rewrite nth_set_nth_same by exact Hh. simpl. exact Ht.
    + rewrite nth_set_nth_other by exact Hne. exact Ht.
  - exact Ht.
Qed.

Theorem taken_forever ops : forall w h,
  winv w -> h < length (handles w) -> h_io (get_h w h) = Taken ->
  h_io (get_h (orun_w ops w) h) = Taken.
Proof.
  induction ops as [|o ops IH]; intros w h Hi Hh Ht; simpl; [exact Ht|].
  apply IH; [apply winv_step; exact Hi | | apply taken_step; assumption].
  pose proof (ostep_handles_grow o w). lia.
Qed.

(* (B) while a borrow is active (its frame is on the stack) the lender is Borrowed; when the borrow ends --
   normally or by an exception -- the lender is Live again, on the same transport *)
Lemma lender_is_borrowed w h s : winv w -> In (h, s) (frames w) -> h_io (get_h w h) = Borrowed /\ s = Live.
Proof.
  intros (Hf & _) Hin. rewrite Forall_forall in Hf. destruct (Hf _ Hin) as (_ & B & C). auto.
Qed.

Lemma end_restores_lender w h s rest raising :
  winv w -> frames w = (h, s) :: rest ->
  let w' := ostep_w (OEnd raising) w in
  h_io (get_h w' h) = Live /\ h_cfg (get_h w' h) = h_cfg (get_h w h) /\ frames w' = rest /\
  tclosed w' = tclosed w.
Proof.
  intros Hi Ef. destruct Hi as (Hf & _). rewrite Ef in Hf.
  inversion Hf as [|? ? (A & B & C) _]; subst. simpl in *.
  unfold ostep_w; simpl. rewrite Ef. simpl. unfold get_h; simpl.
  rewrite nth_set_nth_same by exact A. simpl. auto.
Qed.

(* frames below the top are untouched by any operation other than OEnd, so the statement above applies to
   every borrow when ITS context is left (contexts nest) *)
Lemma frames_step o w : (forall r, o <> OEnd r) ->
  exists pre, frames (ostep_w o w) = pre ++ frames w.
Proof.
  intros Hno. unfold ostep_w. destruct o as [h|r|h|h k|h c|h]; simpl.
  - destruct (h_io (get_h w h)); simpl; [exists [(h, Live)] | exists [] | exists []]; reflexivity.
  - exfalso; eapply Hno; reflexivity.
  - destruct (h_io (get_h w h)); simpl; exists []; reflexivity.
  - exists []. destruct k, (h_io (get_h w h)); reflexivity.
  - exists []. reflexivity.
  - exists []. reflexivity.
Qed.

(* non-vacuity *)
Example own_example :
  own_model [OBorrow 0; OIO 0 KRead; OIO 1 KWrite; OTake 1; OEnd true; OIO 0 KSend; OIO 1 KRead; OIO 1 KClosed; OIO 1 KClose; OIO 2 KClosed] =
  VL [VL [VL [VN 0]; VN 0; VN 2]; VL [VL [VN 10]; VN 0; VN 2]; VL [VL [VN 0]; VN 0; VN 2];
      VL [VL [VN 0]; VN 0; VN 3]; VL [VL [VN 0]; VN 0; VN 3]; VL [VL [VN 0]; VN 0; VN 3];
      VL [VL [VN 11]; VN 0; VN 3]; VL [VL [VN 1; VN 1]; VN 0; VN 3]; VL [VL [VN 0]; VN 0; VN 3];
      VL [VL [VN 1; VN 0]; VN 0; VN 3]]%Z.
Proof. vm_compute. reflexivity. Qed.
