(* ProofC08.v -- attached log streams: what is forwarded is a prefix of what was read; with prompt
   suppression exactly the longest suffix that could still become the (literal) prompt is held back. *)
From TV Require Import Base BaseLemmas Utf8 Regex Channel ChannelLemmas.

(* ------------------------------------------------------------------ overlap = the reversed for-loop *)
Definition valid (p b : list N) (j : nat) : Prop :=
  j <= length p /\ j <= length b /\ take_last j b = firstn j p.

Lemma overlap_from_S i p b :
  overlap_from (S i) p b =
  if list_N_eqb (take_last (S i) b) (firstn (S i) p) then S i else overlap_from i p b.
Proof. reflexivity. Qed.

Lemma overlap_from_spec p b : forall i,
  i <= length p -> i <= length b ->
  let r := overlap_from i p b in
  r <= i /\ valid p b r /\ forall j, r < j -> j <= i -> ~ valid p b j.
Proof.
  induction i as [|i IH]; intros Hp Hb; cbv zeta.
  - simpl. split; [lia|]. split; [|intros; lia].
    unfold valid. split; [lia|]. split; [lia|].
    unfold take_last. rewrite Nat.sub_0_r, skipn_all. reflexivity.
  - rewrite overlap_from_S.
    destruct (list_N_eqb (take_last (S i) b) (firstn (S i) p)) eqn:E.
    + apply list_N_eqb_eq in E. split; [lia|]. split; [unfold valid; auto|]. intros j H1 H2; exfalso; lia.
    + destruct (IH ltac:(lia) ltac:(lia)) as (A & B & C). split; [lia|]. split; [exact B|].
      intros j Hj Hji. destruct (Nat.eq_dec j (S i)) as [->|Hne].
      * intros (_ & _ & V). rewrite V, list_N_eqb_refl in E. discriminate.
      * apply C; lia.
Qed.

Lemma overlap_spec p b :
  valid p b (overlap p b) /\ forall j, overlap p b < j -> ~ valid p b j.
Proof.
  unfold overlap.
  destruct (overlap_from_spec p b (Nat.min (length p) (length b)) (Nat.le_min_l _ _) (Nat.le_min_r _ _))
    as (A & B & C).
  split; [exact B|]. intros j Hj V.
  destruct V as (V1 & V2 & V3).
  apply (C j Hj); [apply Nat.min_glb; assumption | unfold valid; auto].
Qed.

Lemma overlap_max p b j : valid p b j -> j <= overlap p b.
Proof.
  intros V. destruct (Nat.le_gt_cases j (overlap p b)) as [H|H]; [exact H|].
  exfalso. destruct (overlap_spec p b) as [_ C]. exact (C j H V).
Qed.

Lemma firstn_prefix_of_prefix {A} (l : list A) i k : k <= i -> firstn k (firstn i l) = firstn k l.
Proof. intros H. rewrite firstn_firstn. f_equal. lia. Qed.

(* the held-back part can be computed incrementally (the KMP-style fact) *)
Lemma overlap_incremental p d buf :
  overlap p (take_last (overlap p d) d ++ buf) = overlap p (d ++ buf).
Proof.
  set (h := take_last (overlap p d) d).
  destruct (take_last_suffix (overlap p d) d) as [t Ht]. fold h in Ht.
  assert (Hlenh : length h = overlap p d).
  { unfold h. rewrite take_last_length. destruct (overlap_spec p d) as [(_ & V2 & _) _]. lia. }
  apply Nat.le_antisymm.
  - (* every candidate for h ++ buf is a candidate for d ++ buf *)
    apply overlap_max. destruct (overlap_spec p (h ++ buf)) as [(V1 & V2 & V3) _].
    unfold valid. split; [exact V1|]. split.
    + rewrite app_length in *. rewrite Ht, app_length. lia.
    + rewrite Ht, <- app_assoc. rewrite take_last_app; [exact V3 | exact V2].
  - apply overlap_max. destruct (overlap_spec p (d ++ buf)) as [(V1 & V2 & V3) _].
    set (i := overlap p (d ++ buf)) in *.
    destruct (Nat.le_gt_cases i (length buf)) as [Hi|Hi].
    + unfold valid. split; [exact V1|]. split; [rewrite app_length; lia|].
      rewrite take_last_app by exact Hi. rewrite take_last_app in V3 by exact Hi. exact V3.
    + (* the candidate reaches into d: its part in d is a candidate for d, hence inside h *)
      assert (Hd : valid p d (i - length buf)).
      { unfold valid. rewrite app_length in V2. split; [lia|]. split; [lia|].
        rewrite take_last_app_ge in V3 by lia.
        apply (f_equal (firstn (i - length buf))) in V3.
        rewrite firstn_app_exact2 in V3.
        - rewrite V3. apply firstn_prefix_of_prefix. lia.
        - rewrite take_last_length. lia. }
      pose proof (overlap_max _ _ _ Hd) as Hmax.
      unfold valid. split; [exact V1|]. split; [rewrite app_length; lia|].
      rewrite Ht, <- app_assoc in V3. rewrite take_last_app in V3; [exact V3 | rewrite app_length; lia].
Qed.

(* ------------------------------------------------------------------ _write_stream, suppression on, literal prompt *)
(* d    = bytes read since the stream(s) were attached
   fwdb = bytes handed to the streams (ghost field of the model)
   Inv: fwdb ++ streambuf = d   and   streambuf = the longest suffix of d that is a prefix of the prompt *)
Definition held (p d : list N) : list N := take_last (overlap p d) d.

Definition sinv (p : list N) (f0 d : list N) (l : lg) : Prop :=
  fwdb l ++ streambuf l = f0 ++ d /\ streambuf l = held p d.

Lemma write_stream_suppress p buf c f0 d :
  streams (lgs c) <> [] -> log_prompt (lgs c) = false -> prompt c = Some (SLit p) ->
  sinv p f0 d (lgs c) ->
  sinv p f0 (d ++ buf) (lgs (write_stream buf c)) /\
  streams (lgs (write_stream buf c)) = streams (lgs c) /\
  log_prompt (lgs (write_stream buf c)) = false.
Proof.
  intros Hs Hl Hp [I1 I2]. unfold write_stream.
  destruct (streams (lgs c)) as [|s0 ss] eqn:Es; [congruence|].
  rewrite Hl, Hp. cbn [lgs with_lgs streams log_prompt streambuf fwdb emit sout].
  rewrite Es. split; [|split; [reflexivity | exact Hl]].
  unfold sinv. cbn [fwdb streambuf].
  set (sb := streambuf (lgs c) ++ buf).
  assert (Hk : overlap p sb = overlap p (d ++ buf)).
  { unfold sb. rewrite I2. apply overlap_incremental. }
  split.
  - rewrite <- app_assoc, take_last_app_drop. unfold sb. rewrite app_assoc, I1, <- app_assoc. reflexivity.
  - unfold held. rewrite Hk.
    destruct (take_last_suffix (overlap p d) d) as [t Ht].
    unfold sb. rewrite I2. unfold held.
    assert (E : d ++ buf = t ++ (take_last (overlap p d) d ++ buf)) by (rewrite app_assoc, <- Ht; reflexivity).
    transitivity (take_last (overlap p (d ++ buf)) (t ++ (take_last (overlap p d) d ++ buf))).
    + symmetry. apply take_last_app.
      destruct (overlap_spec p (take_last (overlap p d) d ++ buf)) as [(_ & V2 & _) _].
      rewrite overlap_incremental in V2. exact V2.
    + rewrite <- E. reflexivity.
Qed.

(* hence: what has been forwarded is a prefix of what was read, and everything except the longest
   suffix that could still become the prompt has been forwarded *)
Corollary forwarded_is_all_but_held p f0 d l :
  sinv p f0 d l -> f0 ++ d = fwdb l ++ held p d.
Proof. intros [I1 I2]. rewrite <- I2. symmetry. exact I1. Qed.

(* a held-back suffix never exceeds the prompt and really is a prompt prefix *)
Lemma held_is_prompt_prefix p d : exists k, k <= length p /\ held p d = firstn k p.
Proof.
  destruct (overlap_spec p d) as [(V1 & V2 & V3) _]. exists (overlap p d). split; [exact V1 | exact V3].
Qed.

(* ... and it is the LONGEST such suffix: any longer suffix of d is not a prefix of the prompt *)
Lemma held_is_longest p d j :
  length (held p d) < j -> j <= length d -> j <= length p -> take_last j d <> firstn j p.
Proof.
  intros H1 H2 H3 E. unfold held in H1. rewrite take_last_length in H1.
  destruct (overlap_spec p d) as [(_ & V2 & _) C].
  apply (C j); [lia | unfold valid; auto].
Qed.

(* when the data read ends with the prompt, exactly the output is forwarded and exactly the prompt is
   held back; detaching drops it, so nothing leaks into a later attachment *)
Lemma held_at_prompt p O : held p (O ++ p) = p.
Proof.
  unfold held.
  assert (V : valid p (O ++ p) (length p)).
  { unfold valid. split; [lia|]. split; [rewrite app_length; lia|].
    rewrite take_last_app by lia. rewrite take_last_all by lia. rewrite firstn_all. reflexivity. }
  pose proof (overlap_max _ _ _ V) as H1.
  destruct (overlap_spec p (O ++ p)) as [(V1 & _ & _) _].
  replace (overlap p (O ++ p)) with (length p) by lia.
  rewrite take_last_app by lia. apply take_last_all. lia.
Qed.

Corollary forwarded_at_prompt p f0 O l :
  sinv p f0 (O ++ p) l -> fwdb l = f0 ++ O /\ streambuf l = p.
Proof.
  intros [I1 I2]. rewrite held_at_prompt in I2. split; [|exact I2].
  rewrite I2, app_assoc in I1. apply app_inv_tail in I1. exact I1.
Qed.

Lemma pop_stream_drops_held sid prevlp rest c p :
  ctx c = FStream sid prevlp :: rest -> log_prompt (lgs c) = false -> prompt c = Some (SLit p) ->
  streambuf (lgs c) = p ->
  streambuf (lgs (pop c)) = [] /\ fwdb (lgs (pop c)) = fwdb (lgs c) /\
  log_prompt (lgs (pop c)) = prevlp.
Proof.
  intros Hc Hl Hp Hsb. unfold pop. rewrite Hc. unfold exit_frame. rewrite Hl, Hp. cbn. rewrite Hsb.
  split; [apply skipn_all | split; reflexivity].
Qed.

(* more generally whatever is held back at detach time is at most a prompt prefix, and all of it is
   dropped: nothing held back leaks into a later attachment *)
Lemma pop_stream_drops_any_held sid prevlp rest c p d f0 :
  ctx c = FStream sid prevlp :: rest -> log_prompt (lgs c) = false -> prompt c = Some (SLit p) ->
  sinv p f0 d (lgs c) -> streambuf (lgs (pop c)) = [].
Proof.
  intros Hc Hl Hp [_ I2]. unfold pop. rewrite Hc. unfold exit_frame. rewrite Hl, Hp. cbn. rewrite I2.
  destruct (held_is_prompt_prefix p d) as (k & Hk & ->).
  apply skipn_all2. rewrite firstn_length. lia.
Qed.

(* ------------------------------------------------------------------ suppression off / no prompt / no stream *)
Lemma write_stream_show buf c :
  streams (lgs c) <> [] -> (log_prompt (lgs c) = true \/ prompt c = None) ->
  fwdb (lgs (write_stream buf c)) = fwdb (lgs c) ++ buf /\
  streambuf (lgs (write_stream buf c)) = streambuf (lgs c).
Proof.
  intros Hs Hm. unfold write_stream. destruct (streams (lgs c)) eqn:Es; [congruence|].
  destruct Hm as [Hm|Hm]; rewrite Hm.
  - cbn. split; reflexivity.
  - destruct (log_prompt (lgs c)); cbn; split; reflexivity.
Qed.

Lemma write_stream_detached buf c : streams (lgs c) = [] -> write_stream buf c = c.
Proof. intros H. unfold write_stream. rewrite H. reflexivity. Qed.

(* every fragment is handed to ALL attached streams, as the same text *)
Lemma emit_same_text frag l :
  sout (emit frag l) = rev (map (fun sid => (sid, utf8_dec frag)) (streams l)) ++ sout l /\
  fwdb (emit frag l) = fwdb l ++ frag.
Proof. split; reflexivity. Qed.

(* for ASCII data the text handed to the streams is the bytes themselves *)
Lemma utf8_dec_fuel_ascii : forall fuel l,
  length l <= fuel -> Forall (fun b => (b < 128)%N) l -> utf8_dec_fuel fuel l = l.
Proof.
  induction fuel as [|f IH]; intros l Hl Ha.
  - destruct l; [reflexivity | simpl in Hl; lia].
  - destruct l as [|b l]; [reflexivity|]. inversion Ha as [|? ? Hb Ha']; subst.
    cbn [utf8_dec_fuel]. apply N.ltb_lt in Hb. rewrite Hb. f_equal. apply IH; [simpl in Hl; lia | exact Ha'].
Qed.

Lemma utf8_dec_ascii l : Forall (fun b => (b < 128)%N) l -> utf8_dec l = l.
Proof. intros H. unfold utf8_dec. apply utf8_dec_fuel_ascii; [lia | exact H]. Qed.

(* non-vacuity: the prompt arrives split over three pieces, output "x=" precedes it *)
Example suppress_example :
  let c0 := push_stream 0 false (push_prompt (SLit [61; 62; 32]%N)
              (chan_init [(0%Z, [120; 61; 61]%N); (0%Z, [62]%N); (0%Z, [32]%N)] [])) in
  let (r, c1) := read_until_prompt None None c0 in
  (r, fwdb (lgs c1), streambuf (lgs c1), streambuf (lgs (pop c1))) =
  (Ret [120; 61]%N, [120; 61]%N, [61; 62; 32]%N, []).
Proof. vm_compute. reflexivity. Qed.

(* ------------------------------------------------------------------ lifted to the read loop *)
From TV Require Import ProofC02 ProofC05.

Lemma iter_step_sinv start tmo n c r c' p f0 d :
  streams (lgs c) <> [] -> log_prompt (lgs c) = false -> prompt c = Some (SLit p) ->
  sinv p f0 d (lgs c) -> iter_step start tmo n c = (r, c') ->
  streams (lgs c') = streams (lgs c) /\ log_prompt (lgs c') = false /\
  match r with
  | SData new => sinv p f0 (d ++ new) (lgs c')
  | SDeath _ _ => exists new, sinv p f0 (d ++ new) (lgs c')
  | _ => lgs c' = lgs c
  end.
Proof.
  intros Hs Hl Hp Hinv H. pose proof (iter_step_checks _ _ _ _ _ _ H) as Hc.
  assert (G : forall new io' c2 x, check new (write_stream new (with_io c io')) = (x, c2) ->
              streams (lgs c2) = streams (lgs c) /\ log_prompt (lgs c2) = false /\ sinv p f0 (d ++ new) (lgs c2)).
  { intros new io' c2 x Hck. destruct (check_frame _ _ _ _ Hck) as (_ & _ & C3 & _).
    destruct (write_stream_suppress p new (with_io c io') f0 d Hs Hl Hp Hinv) as (W1 & W2 & W3).
    rewrite C3. auto. }
  destruct r as [new| | |exc mt].
  - destruct Hc as (io' & _ & Hck). apply G in Hck. exact Hck.
  - unfold iter_step in H.
    destruct (match match tmo with Some T => Some (T - (now (io c) - start))%Z | None => None end with
              | Some r0 => (r0 <=? 0)%Z | None => false end); [injection H as <-; auto|].
    destruct (io_read _ _ (io c)) as [res io']. destruct res.
    + destruct (check d0 _) as [[[e mt]|] c2]; discriminate.
    + injection H as <-. auto.
    + discriminate.
  - unfold iter_step in H.
    destruct (match match tmo with Some T => Some (T - (now (io c) - start))%Z | None => None end with
              | Some r0 => (r0 <=? 0)%Z | None => false end); [discriminate|].
    destruct (io_read _ _ (io c)) as [res io']. destruct res.
    + destruct (check d0 _) as [[[e mt]|] c2]; discriminate.
    + discriminate.
    + injection H as <-. auto.
  - destruct Hc as (new & io' & c2 & _ & Hck & ->). apply G in Hck.
    destruct Hck as (A & B & C). eauto.
Qed.

(* a prompt-delimited read with a suppressing stream attached: on return the stream has received
   exactly the consumed data minus the prompt *)
Lemma rup_loop_sinv fuel : forall start tmo buf c out c' p f0 d,
  wfc c -> streams (lgs c) <> [] -> log_prompt (lgs c) = false -> prompt c = Some (SLit p) ->
  sinv p f0 d (lgs c) ->
  rup_loop fuel start tmo buf c = (Ret out, c') ->
  exists data, cpend c = data ++ cpend c' /\
               is_suffix p (buf ++ data) = true /\
               out = text (firstn (length (buf ++ data) - length p) (buf ++ data)) /\
               sinv p f0 (d ++ data) (lgs c') /\
               streams (lgs c') = streams (lgs c) /\ log_prompt (lgs c') = false /\ prompt c' = Some (SLit p).
Proof.
  induction fuel as [|f IH]; intros start tmo buf c out c' p f0 d Hw Hs Hl Hp Hinv H; [discriminate|].
  rewrite rup_loop_step in H.
  destruct (iter_step start tmo READ_CHUNK_SIZE c) as [r c1] eqn:Es.
  destruct (iter_step_spec _ _ _ _ _ _ Es chunk_pos Hw) as (Hcfg & Hw1 & _ & Hr).
  destruct (iter_step_sinv _ _ _ _ _ _ _ _ _ Hs Hl Hp Hinv Es) as (S1 & S2 & S3).
  destruct r as [new| | |e mt]; try discriminate.
  destruct Hr as (Hne & _ & Hcat & _).
  assert (Hp1 : prompt c1 = Some (SLit p)) by (destruct Hcfg as (-> & _); exact Hp).
  rewrite Hp1 in H. cbn [prompt_split] in H.
  destruct (is_suffix p (buf ++ new)) eqn:Esuf.
  - injection H as <- <-. exists new. auto 10.
  - assert (Hs1 : streams (lgs c1) <> []) by (rewrite S1; exact Hs).
    destruct (IH _ _ _ _ _ _ _ _ _ Hw1 Hs1 S2 Hp1 S3 H) as (data & D1 & D2 & D3 & D4 & D5 & D6 & D7).
    exists (new ++ data). rewrite <- app_assoc in D2, D3, D4.
    split; [rewrite Hcat, D1, app_assoc; reflexivity|].
    split; [exact D2|]. split; [exact D3|]. split; [exact D4|].
    split; [congruence|]. auto.
Qed.

(* attach a suppressing stream, read to the prompt: the stream holds exactly the output, the prompt is
   what is held back, and detaching clears it *)
Theorem stream_gets_output_without_prompt sid c out c' p :
  wfc c -> prompt c = Some (SLit p) -> streams (lgs c) = [] -> streambuf (lgs c) = [] ->
  read_until_prompt None None (push_stream sid false c) = (Ret out, c') ->
  exists O, fwdb (lgs c') = fwdb (lgs c) ++ O /\ out = text O /\
            streambuf (lgs c') = p /\ streambuf (lgs (pop c')) = [] /\
            cpend c = (O ++ p) ++ cpend c'.
Proof.
  intros Hw Hp Hs Hsb H. unfold read_until_prompt in H.
  set (c0 := push_stream sid false c) in *.
  assert (Hinv0 : sinv p (fwdb (lgs c)) [] (lgs c0)).
  { unfold sinv, c0, push_stream. cbn. rewrite Hsb, app_nil_r. split; [reflexivity|].
    reflexivity. }
  assert (Hs0 : streams (lgs c0) <> []).
  { unfold c0, push_stream. cbn. rewrite Hs. discriminate. }
  destruct (rup_loop_sinv (fuel_of c0) (now (io c0)) None [] c0 out c' p (fwdb (lgs c)) [] Hw Hs0 eq_refl Hp Hinv0 H)
    as (data & D1 & D2 & D3 & D4 & D5 & D6 & D7).
  simpl in D2, D3, D4. apply is_suffix_spec in D2 as [O ->].
  destruct (forwarded_at_prompt _ _ _ _ D4) as [F1 F2].
  exists O. split; [exact F1|].
  split. { rewrite D3. rewrite app_length. replace (length O + length p - length p) with (length O) by lia.
           rewrite firstn_app_exact. reflexivity. }
  split; [exact F2|]. split; [|exact D1].
  (* detaching: the frame pushed by push_stream is still on top (the read loop does not touch ctx) *)
  assert (Hctx : ctx c' = FStream sid (log_prompt (lgs c)) :: ctx c).
  { assert (G : forall fuel start tmo buf c1 r c2, rup_loop fuel start tmo buf c1 = (r, c2) -> ctx c2 = ctx c1).
    { clear. induction fuel as [|f IH]; intros start tmo buf c1 r c2 H.
      - simpl in H. injection H as _ <-. reflexivity.
      - rewrite rup_loop_step in H.
        destruct (iter_step start tmo READ_CHUNK_SIZE c1) as [sr c3] eqn:Es.
        assert (Hc3 : ctx c3 = ctx c1).
        { unfold iter_step in Es.
          destruct (match match tmo with Some T => Some (T - (now (io c1) - start))%Z | None => None end with
                    | Some r0 => (r0 <=? 0)%Z | None => false end); [injection Es as _ <-; reflexivity|].
          destruct (io_read _ _ (io c1)) as [res io']. destruct res.
          - destruct (write_stream_frame d (with_io c1 io')) as (_ & _ & _ & _ & _ & W6).
            destruct (check d _) as [[[e mt]|] c4] eqn:Ec;
              destruct (check_frame _ _ _ _ Ec) as (_ & _ & _ & _ & _ & C6);
              injection Es as _ <-; rewrite C6, W6; reflexivity.
          - injection Es as _ <-. reflexivity.
          - injection Es as _ <-. reflexivity. }
        destruct sr.
        + destruct (prompt_split _ _); [injection H as _ <-; exact Hc3 | apply IH in H; congruence].
        + injection H as _ <-. exact Hc3.
        + injection H as _ <-. exact Hc3.
        + injection H as _ <-. exact Hc3. }
    apply G in H. rewrite H. reflexivity. }
  destruct (pop_stream_drops_held _ _ _ _ _ Hctx D6 D7 F2) as (P1 & _). exact P1.
Qed.

(* ------------------------------------------------------------------ the two recorded findings (D11), as witnesses *)
(* (a) regex prompt + suppression: the stream ends up with LESS than the output.
       prompt \d{0,3}>_ ; data  a b 1 2 > _  in one piece: output is "ab", the stream gets "a" *)
Definition d11_re : re := RSeq (RRep (RCls false [(48, 57)]%N) 0 3) (RSeq (RChr 62) (RChr 32)).
Example regex_holdback_refuted :
  let c0 := push_stream 0 false (push_prompt (SRe d11_re)
              (chan_init [(0%Z, [97; 98; 49; 50; 62; 32]%N)] [])) in
  let (r, c1) := read_until_prompt None None c0 in
  r = Ret [97; 98]%N /\ fwdb (lgs (pop c1)) = [97]%N.
Proof. vm_compute. split; reflexivity. Qed.

(* (b) a show_prompt=True stream nested inside a suppressing one while bytes are held back: the outer
       stream sees the data reordered.  data "=" , "x" : forwarded is "x" then later "=" *)
Example nested_modes_refuted :
  let c0 := push_stream 0 false (push_prompt (SLit [61; 62; 32]%N)
              (chan_init [(0%Z, [61]%N); (0%Z, [120]%N); (0%Z, [121; 61; 62; 32]%N)] [])) in
  let c1 := snd (read 1 None c0) in                     (* "=" is held back *)
  let c2 := snd (read 1 None (push_stream 1 true c1)) in   (* inner stream, show_prompt=True: "x" is written at once *)
  let c3 := snd (read_until_prompt None None (pop c2)) in
  fwdb (lgs c2) = [120]%N /\ fwdb (lgs c3) = [120; 61; 121]%N.
Proof. vm_compute. split; reflexivity. Qed.
