(* ProofC09.v -- environment variables: the export line assigns exactly the value, the read-back returns it. *)
From TV Require Import Base BaseLemmas Utf8 Regex Channel ChannelLemmas ProofC02 ProofC03 Hush Session ProofSession ProofC19 Sh ProofC01.
From Coq Require Import ZifyBool ZifyN.

Local Open Scope N_scope.

(* a quoted string appended to a word under construction extends that word *)
Lemma shp_quote_word_gen a rest cur has acc :
  shparse (sh_quote a ++ rest) QN cur has acc = shparse rest QN (cur ++ a) true acc.
Proof.
  unfold sh_quote. destruct a as [|c a'].
  - cbn [app shparse]. change (39 =? 39) with true. cbv iota. cbn [shparse]. change (39 =? 39) with true. cbv iota.
    rewrite app_nil_r. reflexivity.
  - destruct (forallb is_safe (c :: a')) eqn:Hs.
    + apply (shp_safe a' c rest cur has acc Hs).
    + rewrite <- !app_assoc. cbn [app shparse]. change (39 =? 39) with true. cbv iota.
      apply (shp_sq_body (c :: a') rest cur acc).
Qed.

Lemma export_safe : forallb is_safe EXPORT = true. Proof. reflexivity. Qed.

(* the shell reads the export line as the two words  export  and  NAME=VALUE  with exactly the given value *)
Theorem export_words var value :
  nonul var -> nonul value ->
  sh_words (export_line var value) = Some [EXPORT; var ++ [61] ++ value].
Proof.
  intros Hv Hval. unfold sh_words.
  assert (P : nonul (export_line var value)).
  { unfold export_line. apply nonul_app. split; [reflexivity|]. apply nonul_app. split; [reflexivity|].
    apply nonul_app. split; [apply nonul_quote; exact Hv|]. apply nonul_app. split; [reflexivity | apply nonul_quote; exact Hval]. }
  unfold nonul in P. rewrite P. unfold export_line.
  change EXPORT with (101 :: [120; 112; 111; 114; 116]) at 1.
  rewrite (shp_safe [120; 112; 111; 114; 116] 101 _ [] false [] export_safe).
  cbn [app shparse]. change (32 =? 39) with false. change (32 =? 34) with false. change (32 =? 32) with true. cbn [orb]. cbv iota.
  rewrite shp_quote_word_gen. cbn [app].
  rewrite (shp_step_safe 61 _ var true _ eq_refl).
  rewrite <- (app_nil_r (sh_quote value)), shp_quote_word_gen. cbn [shparse].
  rewrite <- app_assoc. reflexivity.
Qed.

Lemma export_line_utf8 var value : utf8_enc (export_line var value) = export_line (utf8_enc var) (utf8_enc value).
Proof. unfold export_line. rewrite !enc_app, !sh_quote_utf8. reflexivity. Qed.

Theorem export_words_sent var value :
  nonul var -> nonul value ->
  sh_words (utf8_enc (export_line var value)) = Some [EXPORT; utf8_enc var ++ [61] ++ utf8_enc value].
Proof. intros A B. rewrite export_line_utf8. apply export_words; apply nonul_enc; assumption. Qed.

(* ------------------------------------------------------------------ the sessions *)
Local Close Scope N_scope.

Lemma lx_exec_line_exact line P c st1 st2 sts out ds :
  insync c -> prompt c = Some (SLit P) -> P <> [] ->
  any_in (blacklist c) (utf8_enc line ++ [CR]) = false ->
  any_in (blacklist c) (ECHO_Q ++ [CR]) = false ->
  wf_pend st1 -> cat st1 = tty_echo false (utf8_enc line ++ [CR]) ++ onlcr out ++ P ->
  prompt_only_at_end P (onlcr out) ->
  wf_pend st2 -> cat st2 = tty_echo false (ECHO_Q ++ [CR]) ++ (ds ++ [CR; LF]) ++ P ->
  all_digits ds -> ds <> [] -> prompt_only_at_end P (ds ++ [CR; LF]) ->
  exists c',
    lx_exec_line line (st1 :: st2 :: sts) c = (XOk (dec_val ds) (text (onlcr out)), c', sts) /\
    insync c' /\ wr (io c') = wr (io c) ++ (utf8_enc line ++ [CR]) ++ (ECHO_Q ++ [CR]) /\
    prompt c' = prompt c /\ blacklist c' = blacklist c.
Proof.
  intros Hin Hpr HP Hb1 Hb2 Hw1 Hc1 Ho1 Hw2 Hc2 Hds Hne Ho2. unfold lx_exec_line.
  assert (St : py_int (text (ds ++ [CR; LF])) = Some (dec_val ds)).
  { rewrite text_line by (apply digits_ascii; exact Hds). apply py_int_status; assumption. }
  exact (exec_exact (utf8_enc line) P c st1 st2 sts _ (onlcr out) _ (ds ++ [CR; LF]) (dec_val ds)
           Hin Hpr HP Hb1 Hb2 Hw1 Hc1 (echo_len_noctl _) Ho1 Hw2 Hc2 (echo_len_noctl _) Ho2 St).
Qed.

(* reading a variable: the shell prints the value and a newline (printf '%s\n' "${VAR}"); env() returns exactly
   the value -- for every fragmentation of the console's reaction (ASCII values without CR; other values by the
   correspondence and end-to-end runs) *)
Theorem env_get_exact var v P c st1 st2 sts :
  insync c -> prompt c = Some (SLit P) -> P <> [] ->
  Forall (fun b => (b < 128)%N /\ b <> CR) v ->
  any_in (blacklist c) (utf8_enc (get_line var) ++ [CR]) = false ->
  any_in (blacklist c) (ECHO_Q ++ [CR]) = false ->
  wf_pend st1 -> cat st1 = tty_echo false (utf8_enc (get_line var) ++ [CR]) ++ onlcr (v ++ [LF]) ++ P ->
  prompt_only_at_end P (onlcr (v ++ [LF])) ->
  wf_pend st2 -> cat st2 = tty_echo false (ECHO_Q ++ [CR]) ++ (ZERO ++ [CR; LF]) ++ P ->
  prompt_only_at_end P (ZERO ++ [CR; LF]) ->
  exists c', lx_env_get var (st1 :: st2 :: sts) c = (X0Ok v, c', sts) /\ insync c'.
Proof.
  intros Hin Hpr HP Hv Hb1 Hb2 Hw1 Hc1 Ho1 Hw2 Hc2 Ho2.
  destruct (lx_exec_line_exact (get_line var) P c st1 st2 sts (v ++ [LF]) ZERO Hin Hpr HP Hb1 Hb2 Hw1 Hc1 Ho1 Hw2 Hc2
              ltac:(repeat constructor) ltac:(discriminate) Ho2) as (c' & E & A & _).
  unfold lx_env_get, lx_exec0_line. rewrite E. change (dec_val ZERO =? 0)%Z with true. cbv iota.
  exists c'. split; [|exact A]. f_equal. f_equal. f_equal.
  assert (Hv2 : Forall (fun b => (b < 128)%N /\ b <> CR) (v ++ [LF])).
  { apply Forall_app. split; [exact Hv|]. constructor; [split; [unfold LF; lia | discriminate] | constructor]. }
  rewrite text_onlcr_ascii by exact Hv2. unfold get_slice. apply drop_last_one.
Qed.

(* setting a variable: the export line is sent, the shell prints nothing and succeeds; env() returns the value and
   the shell has assigned exactly the value (export_words_sent) *)
Theorem env_set_exact var v P c st1 st2 sts :
  insync c -> prompt c = Some (SLit P) -> P <> [] ->
  nonul var -> nonul v ->
  any_in (blacklist c) (utf8_enc (export_line var v) ++ [CR]) = false ->
  any_in (blacklist c) (ECHO_Q ++ [CR]) = false ->
  wf_pend st1 -> cat st1 = tty_echo false (utf8_enc (export_line var v) ++ [CR]) ++ onlcr [] ++ P ->
  wf_pend st2 -> cat st2 = tty_echo false (ECHO_Q ++ [CR]) ++ (ZERO ++ [CR; LF]) ++ P ->
  prompt_only_at_end P (ZERO ++ [CR; LF]) ->
  exists c', lx_env_set var v (st1 :: st2 :: sts) c = (X0Ok v, c', sts) /\ insync c' /\
             sh_words (utf8_enc (export_line var v)) = Some [EXPORT; utf8_enc var ++ [61%N] ++ utf8_enc v].
Proof.
  intros Hin Hpr HP Nvar Nv Hb1 Hb2 Hw1 Hc1 Hw2 Hc2 Ho2.
  destruct (lx_exec_line_exact (export_line var v) P c st1 st2 sts [] ZERO Hin Hpr HP Hb1 Hb2 Hw1 Hc1
              (prompt_only_at_end_nil P HP) Hw2 Hc2 ltac:(repeat constructor) ltac:(discriminate) Ho2) as (c' & E & A & _).
  unfold lx_env_set, lx_exec0_line. rewrite E. change (dec_val ZERO =? 0)%Z with true. cbv iota.
  exists c'. split; [reflexivity|]. split; [exact A|]. apply export_words_sent; assumption.
Qed.

(* the read-back through echo (the code before dc1a7bc) was wrong on dash: its echo interprets backslashes *)
Example dash_echo_refuted :
  exists v, drop_last 1 (skipn 1 (echo_out true (32%N :: v))) <> v.
Proof. exists [97; 92; 116; 98]%N. vm_compute. discriminate. Qed.

Lemma bash_echo_verbatim arg : echo_out false arg = arg ++ [LF].
Proof. reflexivity. Qed.
