(* ProofC09b.v -- leaving a subshell context re-synchronises the machine; the PS1 trick of _init_shell. *)
From TV Require Import Base BaseLemmas Utf8 Regex Channel ChannelLemmas ProofC02 ProofC03 Hush Session ProofSession Sh ProofC01.

(* a line sent without read-back, then read_until_prompt: everything the console sends (echo included) up to the
   prompt is consumed -- for every fragmentation *)
Lemma exchange_nrb line P c (stg : stage) rest k :
  insync c -> prompt c = Some (SLit P) -> wf_pend stg ->
  any_in (blacklist c) (line ++ [CR]) = false ->
  cat stg = rest -> rest <> [] -> only_tail (prompt_split (Some (SLit P))) rest k ->
  exists c1 c2 sts',
    line_nrb line [stg] c = (Ret tt, c1, sts') /\
    read_until_prompt None None c1 = (Ret (text (firstn k rest)), c2) /\
    insync c2 /\ wr (io c2) = wr (io c) ++ line ++ [CR] /\ prompt c2 = prompt c /\ blacklist c2 = blacklist c.
Proof.
  intros Hin Hpr Hst Hbl Hcat Hrest Hot.
  destruct (load_spec stg c Hin Hst) as (L1 & (Lw & Ld & Ls) & L3 & L4 & L5).
  unfold line_nrb. cbn [hd_stage tl]. unfold sendline.
  destruct (send (line ++ [CR]) false None (load stg c)) as [r c1] eqn:E.
  destruct (send_prefix _ _ _ _ Ls E) as [(-> & W & _) | (_ & _ & X)]; [|rewrite L5 in X; congruence].
  (* sending does not touch what is pending, nor the configuration *)
  unfold send in E. rewrite L5, Hbl in E.
  destruct (send_loop_nrb_spec _ _ _ _ _ _ _ Ls (Nat.lt_succ_diag_r _) E) as (sent & rst & _ & _ & _ & Wc & _).
  destruct Wc as (P1 & P2 & P3 & P4 & P5 & P6 & P7).
  assert (Hw1 : wfc c1) by (unfold wfc; rewrite P1; exact Lw).
  assert (Hd1 : deaths c1 = []) by congruence.
  assert (Hc1 : cpend c1 = rest) by (unfold cpend; rewrite P1; fold (cpend (load stg c)); rewrite L1; exact Hcat).
  assert (Hp1 : pend (io c1) <> []) by (apply pend_of_cpend; rewrite Hc1; exact Hrest).
  unfold read_until_prompt.
  destruct (rup_loop_split_independent (fuel_of c1) (now (io c1)) [] c1 rest k Hw1 Hd1 Hp1 Hc1) as (c2 & R1 & R2 & R3 & R4).
  { rewrite P2, L4, Hpr. exact Hot. }
  { apply fuel_of_enough. }
  exists c1, c2, []. split; [reflexivity|]. split; [exact R1|].
  destruct R3 as (Q1 & Q2 & Q3 & Q4 & Q5 & Q6).
  split.
  { split; [|exact R2]. split; [unfold wfc; rewrite R2; constructor|]. split; [exact R4|].
    unfold slow_ok in *. rewrite Q3, P6. exact Ls. }
  split; [rewrite Q6, W, L3; reflexivity|]. split; congruence.
Qed.

(* leaving a subshell: `exit` is sent; whatever the inner shell still prints (echo, "exit", job messages) the machine
   is in sync with the OUTER shell as soon as its prompt has arrived -- so by C01_exec_exact the next command's
   output and status are exact *)
Theorem subshell_leave_resyncs P c (stg : stage) noise :
  insync c -> prompt c = Some (SLit P) -> P <> [] -> wf_pend stg ->
  any_in (blacklist c) (EXIT_CMD ++ [CR]) = false ->
  cat stg = noise ++ P -> prompt_only_at_end P noise ->
  exists c', subshell_leave [stg] c = (IOk, c', []) /\ insync c' /\
             wr (io c') = wr (io c) ++ EXIT_CMD ++ [CR] /\ prompt c' = prompt c.
Proof.
  intros Hin Hpr HP Hst Hbl Hcat Ho.
  assert (Hr : noise ++ P <> []) by (destruct noise; [exact HP | discriminate]).
  destruct (exchange_nrb EXIT_CMD P c stg (noise ++ P) (length noise) Hin Hpr Hst Hbl Hcat Hr
              (only_tail_literal P noise HP Ho)) as (c1 & c2 & sts' & E1 & E2 & Hin2 & W & Pr & _).
  unfold subshell_leave. rewrite E1, E2. exists c2. unfold line_nrb in E1. cbn [hd_stage tl] in E1.
  destruct (sendline _ _ _ _) in E1. injection E1 as _ _ <-. auto.
Qed.

(* the PS1 trick: the shell reads the assignment word as  PS1=<prompt>  ... *)
Theorem ps1_word_sets_the_prompt : sh_words PS1_WORD = Some [[80; 83; 49; 61]%N ++ TBOT_PROMPT].
Proof. vm_compute. reflexivity. Qed.

(* ... while the echo of the line that sets it does not contain the prompt (with or without caret notation), so
   read_until_prompt cannot return on the echo of its own command *)
Theorem ps1_echo_has_no_prompt :
  contains TBOT_PROMPT (tty_echo true (PS1_LINE ++ [CR])) = false /\
  contains TBOT_PROMPT (tty_echo false (PS1_LINE ++ [CR])) = false.
Proof. vm_compute. split; reflexivity. Qed.
