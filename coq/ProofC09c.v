(* ProofC09c.v -- entering a subshell: the spawn command is sent, then the inner shell is initialised like any shell
   (ProofInit.v); for every fragmentation the machine ends up in sync with the inner shell.  Together with
   subshell_leave_resyncs (ProofC09b.v) this covers both ends of the subshell() context. *)
From TV Require Import Base BaseLemmas Utf8 Regex Channel ChannelLemmas ProofC02 ProofC03 ProofC04 ProofC06 Hush Session ProofSession
  ProofC04b ProofLive Boot ProofC18 ProofC18b ProofC18c ProofC19 Sh ProofC01 ProofC09b ProofInit.

Lemma line_nrb_is_line_noback s sts c : line_nrb s sts c = line_noback s sts c.
Proof. reflexivity. Qed.

Theorem subshell_enter_ok fuel tmo bl cfg spawn c (st_spawn st0 st_ps1 : stage) (stgs : list stage) (st_san : stage) a noise1 :
  insync c -> slow c = None -> (0 < tmo)%Z ->
  wf_pend st_spawn -> any_in (blacklist c) (spawn ++ [CR]) = false ->
  wf_pend st0 -> any_in (blacklist c) (PROBE ++ [CR]) = false ->
  (* the probe's answer shows up in what the console prints after the spawn command and the probe, in time *)
  find_sub PROBE_ANSWER (cat st_spawn ++ cat st0) = Some a ->
  a + length PROBE_ANSWER <= ready (Some (now (io c) + tmo)%Z) (shift (now (io c)) st_spawn ++ shift (now (io c)) st0) ->
  any_in bl (PS1_LINE ++ [CR]) = false ->
  Forall (fun l => any_in bl (l ++ [CR]) = false) cfg ->
  any_in bl (SANITY ++ [CR]) = false ->
  wf_pend st_ps1 -> cat st_ps1 = noise1 ++ TBOT_PROMPT ->
  prompt_only_at_end TBOT_PROMPT (skipn (a + length PROBE_ANSWER) (cat st_spawn ++ cat st0) ++ noise1) ->
  Forall2 (fun l stg => wf_pend stg /\ exists noise, cat stg = noise ++ TBOT_PROMPT /\ prompt_only_at_end TBOT_PROMPT noise) cfg stgs ->
  wf_pend st_san -> cat st_san = tty_echo false (SANITY ++ [CR]) ++ onlcr SANITY_ANSWER ++ TBOT_PROMPT ->
  exists c', subshell_enter (S fuel) tmo bl PS1_LINE cfg spawn (st_spawn :: st0 :: st_ps1 :: stgs ++ [st_san]) c = (IOk, c', []) /\
             insync c' /\ prompt c' = Some (SLit TBOT_PROMPT) /\ blacklist c' = bl.
Proof.
  intros [(Hw & Hd & Hs) Hp] Hslow Htmo Hwsp Hbsp Hw0 Hbp Hf Hr Hb1 Hbc Hbs Hw1 Hc1 Ho1 Hstgs Hws Hcs.
  unfold subshell_enter. rewrite line_nrb_is_line_noback.
  destruct (line_noback_ok spawn st_spawn (st0 :: st_ps1 :: stgs ++ [st_san]) c Hw Hd Hslow Hwsp Hbsp)
    as (c1 & E1 & P1 & N1 & W1 & D1 & S1 & B1 & Wr1).
  rewrite E1. rewrite Hp in P1. cbn [app] in P1.
  assert (Hq1 : quiet c1) by (split; [exact W1|]; split; [exact D1|]; unfold slow_ok; rewrite S1; exact I).
  assert (Hc : cpend c1 = cat st_spawn) by (unfold cpend; rewrite P1; apply cat_shift).
  assert (Hbp1 : any_in (blacklist c1) (PROBE ++ [CR]) = false) by (rewrite B1; exact Hbp).
  apply (init_shell_ok fuel tmo bl cfg c1 st0 st_ps1 stgs st_san a noise1); auto.
  - rewrite Hc. exact Hf.
  - rewrite N1. unfold load. cbn [io with_io pend]. rewrite P1, N1. exact Hr.
  - rewrite Hc. exact Ho1.
Qed.
