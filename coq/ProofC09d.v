(* ProofC09d.v -- entering a subshell whose inner shell is slow to come up: the first probe (and possibly further
   ones) goes unanswered, then the inner shell answers; the machine still ends up in sync with the inner shell. *)
From TV Require Import Base BaseLemmas Utf8 Regex Channel ChannelLemmas ProofC02 ProofC03 ProofC04 ProofC06 Hush Session ProofSession
  ProofC04b ProofLive Boot ProofC18 ProofC18b ProofC18c ProofC19 Sh ProofC01 ProofC09b ProofInit ProofInitRetry ProofC09c.

Lemma cat_app_st (a b : list (Z * list N)) : cat (a ++ b) = cat a ++ cat b.
Proof. unfold cat. rewrite map_app, concat_app. reflexivity. Qed.

Lemma shift_app t (a b : stage) : shift t (a ++ b) = shift t a ++ shift t b.
Proof. unfold shift. apply map_app. Qed.

Theorem subshell_enter_ok_after_retries fuel tmo bl cfg spawn c (st_spawn s1 : stage) (r : list stage)
        (st0 st_ps1 : stage) (stgs : list stage) (st_san : stage) a noise1 :
  insync c -> slow c = None -> (0 < tmo)%Z ->
  wf_pend st_spawn -> any_in (blacklist c) (spawn ++ [CR]) = false ->
  any_in (blacklist c) (PROBE ++ [CR]) = false ->
  (* first round: what is printed after the spawn command and the first probe arrives within the first wait and
     does not contain the answer *)
  wf_pend s1 -> within (Some tmo) st_spawn -> within (Some tmo) s1 ->
  contains PROBE_ANSWER (cat st_spawn ++ cat s1) = false ->
  (* further unanswered rounds, then the answer within the 3 s wait *)
  silent_rounds 3072%Z r -> wf_pend st0 ->
  find_sub PROBE_ANSWER (cat st0) = Some a ->
  a + length PROBE_ANSWER <= ready_before 3072%Z st0 ->
  S (length r) < fuel ->
  any_in bl (PS1_LINE ++ [CR]) = false ->
  Forall (fun l => any_in bl (l ++ [CR]) = false) cfg ->
  any_in bl (SANITY ++ [CR]) = false ->
  wf_pend st_ps1 -> cat st_ps1 = noise1 ++ TBOT_PROMPT ->
  prompt_only_at_end TBOT_PROMPT (skipn (a + length PROBE_ANSWER) (cat st0) ++ noise1) ->
  Forall2 (fun l stg => wf_pend stg /\ exists noise, cat stg = noise ++ TBOT_PROMPT /\ prompt_only_at_end TBOT_PROMPT noise) cfg stgs ->
  wf_pend st_san -> cat st_san = tty_echo false (SANITY ++ [CR]) ++ onlcr SANITY_ANSWER ++ TBOT_PROMPT ->
  exists c', subshell_enter fuel tmo bl PS1_LINE cfg spawn (st_spawn :: s1 :: r ++ st0 :: st_ps1 :: stgs ++ [st_san]) c = (IOk, c', []) /\
             insync c' /\ prompt c' = Some (SLit TBOT_PROMPT) /\ blacklist c' = bl.
Proof.
  intros [(Hw & Hd & Hs) Hp] Hslow Htmo Hwsp Hbsp Hbp Hws1 Hwi0 Hwi1 Hno Hsil Hw0 Hf Hr Hfuel Hb1 Hbc Hbs Hw1 Hc1 Ho1 Hstgs Hws Hcs.
  destruct fuel as [|f]; [lia|].
  unfold subshell_enter. rewrite line_nrb_is_line_noback.
  destruct (line_noback_ok spawn st_spawn (s1 :: r ++ st0 :: st_ps1 :: stgs ++ [st_san]) c Hw Hd Hslow Hwsp Hbsp)
    as (c1 & E1 & P1 & N1 & W1 & D1 & S1 & B1 & Wr1).
  rewrite E1. rewrite Hp in P1. cbn [app] in P1.
  assert (Hq1 : quiet c1) by (split; [exact W1|]; split; [exact D1|]; unfold slow_ok; rewrite S1; exact I).
  assert (Hc : cpend c1 = cat st_spawn) by (unfold cpend; rewrite P1; apply cat_shift).
  assert (Hbp1 : any_in (blacklist c1) (PROBE ++ [CR]) = false) by (rewrite B1; exact Hbp).
  assert (Hall : ready (Some (now (io c1) + tmo)%Z) (pend (io (load s1 c1))) = length (cpend c1 ++ cat s1)).
  { unfold load. cbn [io with_io pend]. rewrite P1. fold (shift (now (io c1)) s1). rewrite N1, <- shift_app, Hc, <- cat_app_st.
    apply (ready_shift (Some tmo) (now (io c)) (st_spawn ++ s1)). cbn [within]. apply Forall_app. split; assumption. }
  destruct (probe_round_timeout_gen f tmo c1 s1 (r ++ st0 :: st_ps1 :: stgs ++ [st_san]) Hq1 S1 Htmo Hws1 Hbp1 Hall
              ltac:(rewrite Hc; exact Hno)) as (c2 & E2 & Hin2 & Hs2 & _ & _ & _ & B2).
  rewrite init_shell_unfold, E2, <- init_shell_unfold.
  apply (init_shell_ok_after_retries r f 3072%Z bl cfg c2 st0 st_ps1 stgs st_san a noise1); auto; try lia.
  - rewrite B2. exact Hbp1.
  - destruct r; exact Hr.
Qed.

(* the hypotheses of the first round can be met: the echo of `bash --norc` 3 ms after it was written, a start-up
   message 8 ms after the first probe - both within the 205-tick wait, neither containing the answer *)
Example first_round_hypotheses_satisfiable :
  let spawn := [98; 97; 115; 104; 32; 45; 45; 110; 111; 114; 99]%N in
  let st_spawn : stage := [(3%Z, tty_echo true (spawn ++ [CR]))] in
  let s1 : stage := [(8%Z, [108; 111; 97; 100; 105; 110; 103; 46; 46; 46; 13; 10]%N)] in
  wf_pend st_spawn /\ wf_pend s1 /\ within (Some 205%Z) st_spawn /\ within (Some 205%Z) s1 /\
  contains PROBE_ANSWER (cat st_spawn ++ cat s1) = false.
Proof.
  cbv zeta. split; [repeat constructor; discriminate|]. split; [repeat constructor; discriminate|].
  split; [repeat constructor; cbn; lia|]. split; [repeat constructor; cbn; lia|]. vm_compute. reflexivity.
Qed.
