(* ProofC09e.v -- a whole `with m.subshell(): m.exec(...)` session: entering (spawn + _init_shell of the inner shell),
   one command inside, leaving (`exit` + the outer prompt).  The three theorems compose: for every fragmentation and
   timing of every reaction the command's output and status are exact and the machine is in sync with the outer shell
   again, having written exactly the command line, `echo $?` and `exit` after the initialisation. *)
From TV Require Import Base BaseLemmas Utf8 Regex Channel ChannelLemmas ProofC02 ProofC03 ProofC04 ProofC06 Hush Session ProofSession
  ProofC04b ProofLive Boot ProofC18 ProofC18b ProofC18c ProofC19 Sh ProofC01 ProofC09b ProofInit ProofC09c.

Theorem subshell_session_exact fuel tmo bl cfg spawn c (st_spawn st0 st_ps1 : stage) (stgs : list stage) (st_san : stage) a noise1
        args (st1 st2 st_exit : stage) out ds noise_exit :
  insync c -> slow c = None -> (0 < tmo)%Z ->
  wf_pend st_spawn -> any_in (blacklist c) (spawn ++ [CR]) = false ->
  wf_pend st0 -> any_in (blacklist c) (PROBE ++ [CR]) = false ->
  find_sub PROBE_ANSWER (cat st_spawn ++ cat st0) = Some a ->
  a + length PROBE_ANSWER <= ready (Some (now (io c) + tmo)%Z) (shift (now (io c)) st_spawn ++ shift (now (io c)) st0) ->
  any_in bl (PS1_LINE ++ [CR]) = false ->
  Forall (fun l => any_in bl (l ++ [CR]) = false) cfg ->
  any_in bl (SANITY ++ [CR]) = false ->
  wf_pend st_ps1 -> cat st_ps1 = noise1 ++ TBOT_PROMPT ->
  prompt_only_at_end TBOT_PROMPT (skipn (a + length PROBE_ANSWER) (cat st_spawn ++ cat st0) ++ noise1) ->
  Forall2 (fun l stg => wf_pend stg /\ exists noise, cat stg = noise ++ TBOT_PROMPT /\ prompt_only_at_end TBOT_PROMPT noise) cfg stgs ->
  wf_pend st_san -> cat st_san = tty_echo false (SANITY ++ [CR]) ++ onlcr SANITY_ANSWER ++ TBOT_PROMPT ->
  (* the command inside *)
  Forall nonul args ->
  any_in bl (utf8_enc (sh_escape args) ++ [CR]) = false ->
  any_in bl (ECHO_Q ++ [CR]) = false ->
  wf_pend st1 -> cat st1 = tty_echo false (utf8_enc (sh_escape args) ++ [CR]) ++ onlcr out ++ TBOT_PROMPT ->
  prompt_only_at_end TBOT_PROMPT (onlcr out) ->
  wf_pend st2 -> cat st2 = tty_echo false (ECHO_Q ++ [CR]) ++ (ds ++ [CR; LF]) ++ TBOT_PROMPT ->
  all_digits ds -> ds <> [] -> prompt_only_at_end TBOT_PROMPT (ds ++ [CR; LF]) ->
  (* leaving: the outer shell's prompt (the same sentinel) after whatever `exit` prints *)
  any_in bl (EXIT_CMD ++ [CR]) = false ->
  wf_pend st_exit -> cat st_exit = noise_exit ++ TBOT_PROMPT -> prompt_only_at_end TBOT_PROMPT noise_exit ->
  exists c1 c2 c3,
    subshell_enter (S fuel) tmo bl PS1_LINE cfg spawn (st_spawn :: st0 :: st_ps1 :: stgs ++ [st_san]) c = (IOk, c1, []) /\
    lx_exec args [st1; st2] c1 = (XOk (dec_val ds) (text (onlcr out)), c2, []) /\
    subshell_leave [st_exit] c2 = (IOk, c3, []) /\
    insync c3 /\ prompt c3 = Some (SLit TBOT_PROMPT) /\
    wr (io c3) = wr (io c1) ++ (utf8_enc (sh_escape args) ++ [CR]) ++ (ECHO_Q ++ [CR]) ++ (EXIT_CMD ++ [CR]) /\
    sh_words (utf8_enc (sh_escape args)) = Some (map utf8_enc args).
Proof.
  intros Hin Hslow Htmo Hwsp Hbsp Hw0 Hbp Hf Hr Hb1 Hbc Hbs Hw1 Hc1 Ho1 Hstgs Hws Hcs
         Hargs Hba Hbe Hwf1 Hcat1 Hpo1 Hwf2 Hcat2 Hds Hne Hpo2 Hbx Hwx Hcx Hpox.
  destruct (subshell_enter_ok fuel tmo bl cfg spawn c st_spawn st0 st_ps1 stgs st_san a noise1
              Hin Hslow Htmo Hwsp Hbsp Hw0 Hbp Hf Hr Hb1 Hbc Hbs Hw1 Hc1 Ho1 Hstgs Hws Hcs) as (c1 & E1 & I1 & P1 & B1).
  assert (HP : TBOT_PROMPT <> []) by discriminate.
  destruct (lx_exec_exact args TBOT_PROMPT c1 st1 st2 [] out ds I1 P1 HP Hargs
              ltac:(rewrite B1; exact Hba) ltac:(rewrite B1; exact Hbe) Hwf1 Hcat1 Hpo1 Hwf2 Hcat2 Hds Hne Hpo2)
    as (c2 & E2 & I2 & W2 & Sw & P2 & B2).
  destruct (subshell_leave_resyncs TBOT_PROMPT c2 st_exit noise_exit I2 ltac:(congruence) HP Hwx
              ltac:(rewrite B2, B1; exact Hbx) Hcx Hpox) as (c3 & E3 & I3 & W3 & P3).
  exists c1, c2, c3. split; [exact E1|]. split; [exact E2|]. split; [exact E3|]. split; [exact I3|].
  split; [congruence|]. split; [|exact Sw].
  rewrite W3, W2, <- !app_assoc. reflexivity.
Qed.
