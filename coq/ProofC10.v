(* ProofC10.v -- the run-command proxy: a terminated or ended proxy is silent, terminate() is exact for every
   fragmentation, leaving without terminate is refused. *)
From TV Require Import Base BaseLemmas Utf8 Regex Channel ChannelCorr ChannelLemmas ProofC02 ProofC03 Hush Session ProofSession ProofC19 Sh ProofC01 Proxy.

(* ------------------------------------------------------------------ after the end: every operation raises, nothing moves *)
Lemma dead_proxy_silent o sts p : st p <> PRunning -> proxy_io o sts p = (V_CE, p).
Proof. intros H. unfold proxy_io. destruct (st p); [congruence | reflexivity | reflexivity]. Qed.

Definition only_io (ss : list pstep) : Prop := Forall (fun s => match s with PIo _ _ => True | PTerm _ _ => False end) ss.

(* for EVERY sequence of proxy operations after termination (or after an early exit was noticed): all of them raise
   CommandEndedException and the proxy -- hence the transport -- is exactly as before *)
Theorem ended_proxy_stays_silent ss : forall p acc,
  only_io ss -> st p <> PRunning ->
  run_script ss p acc = (rev acc ++ map (fun _ => V_CE) ss, p).
Proof.
  induction ss as [|s ss IH]; intros p acc Hio Hst.
  - cbn. rewrite app_nil_r. reflexivity.
  - inversion Hio as [|? ? Hs Hss]; subst. destruct s as [o sts | z sts]; [|contradiction].
    cbn [run_script]. rewrite dead_proxy_silent by exact Hst. rewrite IH by assumption.
    cbn [rev map]. rewrite <- app_assoc. reflexivity.
Qed.

(* terminating twice is refused *)
Theorem terminate_twice z sts p : alive p = false -> terminate z sts p = (TAssert, p).
Proof. intros H. unfold terminate. rewrite H. reflexivity. Qed.

(* leaving the context: RuntimeError exactly when the proxy was not terminated *)
Theorem leave_refused_iff_alive p : leave p = VL [VN 11] <-> alive p = true.
Proof. unfold leave. destruct (alive p); split; intros H; try reflexivity; congruence. Qed.

(* an interaction turns a running proxy into an ended one exactly when the channel operation raised the
   death-string exception registered for the shell prompt; the caller then sees CommandEndedException *)
Theorem ends_iff_prompt_exception o sts p v p' :
  st p = PRunning -> proxy_io o sts p = (v, p') ->
  let c0 := if writes o (pc p) then load (hd_stage sts) (pc p) else pc p in
  (st p' = PEnded <-> died (fst (run_op o c0)) = true) /\
  (st p' = PEnded -> v = V_CE /\ early p' = true) /\
  (st p' <> PEnded -> v = fst (run_op o c0) /\ st p' = PRunning).
Proof.
  intros Hst. unfold proxy_io. rewrite Hst. cbn zeta.
  destruct (run_op o _) as [v0 c1] eqn:E. cbn [fst]. destruct (died v0) eqn:D; intros [= <- <-]; cbn.
  - split; [split; reflexivity|]. split; [auto | congruence].
  - split; [split; discriminate|]. split; [discriminate | auto].
Qed.

(* ------------------------------------------------------------------ terminate() is exact *)
(* a running proxy in sync with its console: only the prompt's death string is registered *)
Definition proxy_ok (P : list N) (p : proxy) : Prop :=
  wfc (pc p) /\ slow_ok (pc p) /\ prompt (pc p) = Some (SLit P) /\ P <> [] /\
  alive p = true /\ gdone p = false /\
  exists id ring rest, deaths (pc p) = [mkD id (SLit P) CE ring] /\ ctx (pc p) = FDeath id :: rest.

Lemma pop_proxy P p : proxy_ok P p ->
  quiet (pop (pc p)) /\ io (pop (pc p)) = io (pc p) /\ prompt (pop (pc p)) = Some (SLit P) /\
  blacklist (pop (pc p)) = blacklist (pc p).
Proof.
  intros (Hw & Hs & Hp & _ & _ & _ & id & ring & rest & Hd & Hc). unfold pop. rewrite Hc. unfold exit_frame.
  rewrite Hd. cbn [remove_id d_id]. rewrite Nat.eqb_refl. unfold quiet, wfc, slow_ok in *. cbn. auto.
Qed.

(* the program has ended by itself: what is left of its output, then the shell prompt, is on its way.  For EVERY
   fragmentation terminate() returns exactly that output and the status the shell reports; the proxy is terminated
   and the channel is in sync *)
Theorem terminate_exact z P p st2 sts out ds :
  proxy_ok P p -> early p = false ->
  cpend (pc p) = out ++ P -> prompt_only_at_end P out ->
  any_in (blacklist (pc p)) (ECHO_Q ++ [CR]) = false ->
  wf_pend st2 -> cat st2 = tty_echo false (ECHO_Q ++ [CR]) ++ (ds ++ [CR; LF]) ++ P ->
  all_digits ds -> ds <> [] -> prompt_only_at_end P (ds ++ [CR; LF]) ->
  exists p',
    terminate z (st2 :: sts) p =
      (if z && negb (dec_val ds =? 0)%Z then TFailure else TOk (dec_val ds) (text out), p') /\
    st p' = PTerminated /\ alive p' = false /\ insync (pc p').
Proof.
  intros Hok Hearly Hpend Ho Hbl Hw2 Hc2 Hds Hne Ho2.
  destruct (pop_proxy P p Hok) as ((Qw & Qd & Qs) & Qio & Qp & Qb).
  destruct Hok as (_ & _ & _ & HP & Hal & Hg & _).
  unfold terminate. rewrite Hal, Hg, Hearly. cbn [negb].
  set (c1 := pop (pc p)) in *.
  assert (Hc1 : cpend c1 = out ++ P) by (unfold cpend; rewrite Qio; exact Hpend).
  assert (Hne1 : pend (io c1) <> []).
  { apply pend_of_cpend. rewrite Hc1. destruct out; [exact HP | discriminate]. }
  unfold read_until_prompt.
  destruct (rup_loop_split_independent (fuel_of c1) (now (io c1)) [] c1 (out ++ P) (length out) Qw Qd Hne1 Hc1)
    as (c2 & R1 & R2 & R3 & R4).
  { rewrite Qp. apply only_tail_literal; assumption. }
  { apply fuel_of_enough. }
  rewrite R1, firstn_app_exact.
  destruct R3 as (S1 & S2 & S3 & S4 & S5 & S6).
  assert (Hin2 : insync c2).
  { split; [|exact R2]. split; [unfold wfc; rewrite R2; constructor|]. split; [exact R4|].
    unfold slow_ok in *. rewrite S3. exact Qs. }
  assert (St : py_int (text (ds ++ [CR; LF])) = Some (dec_val ds)).
  { rewrite text_line by (eapply Forall_impl; [|exact Hds]; cbn; intros d Hd; unfold is_digit in Hd; unfold CR, LF; lia).
    apply py_int_status; assumption. }
  assert (B1 : any_in (blacklist c2) (ECHO_Q ++ [CR]) = false) by (rewrite S2, Qb; exact Hbl).
  assert (Hr2 : (ds ++ [CR; LF]) ++ P <> []) by (destruct ds; [congruence | discriminate]).
  assert (B2 : only_tail (prompt_split (Some (SLit P))) ((ds ++ [CR; LF]) ++ P) (length (ds ++ [CR; LF])))
    by (apply only_tail_literal; assumption).
  assert (B3 : (@None sstr = None /\ prompt c2 = Some (SLit P)) \/ @None sstr = Some (SLit P))
    by (left; split; [reflexivity | congruence]).
  destruct (exchange ECHO_Q None P c2 st2 (tty_echo false (ECHO_Q ++ [CR])) ((ds ++ [CR; LF]) ++ P) (length (ds ++ [CR; LF]))
              Hin2 Hw2 B1 Hc2 (echo_len_noctl _) Hr2 B2 B3) as (c4 & c5 & Y1 & Y2 & Hin5 & _).
  cbn [hd_stage]. rewrite Y1. unfold read_until_prompt in Y2. rewrite Y2, firstn_app_exact, St.
  eexists. split; [reflexivity|]. cbn. auto.
Qed.

(* after an early exit was noticed (the prompt has been consumed by the interaction that raised): terminate() returns
   no output and still the real status *)
Theorem terminate_after_early_exit z P p st2 sts ds :
  proxy_ok P p -> early p = true -> pend (io (pc p)) = [] ->
  any_in (blacklist (pc p)) (ECHO_Q ++ [CR]) = false ->
  wf_pend st2 -> cat st2 = tty_echo false (ECHO_Q ++ [CR]) ++ (ds ++ [CR; LF]) ++ P ->
  all_digits ds -> ds <> [] -> prompt_only_at_end P (ds ++ [CR; LF]) ->
  exists p',
    terminate z (st2 :: sts) p = (if z && negb (dec_val ds =? 0)%Z then TFailure else TOk (dec_val ds) [], p') /\
    st p' = PTerminated /\ alive p' = false /\ insync (pc p').
Proof.
  intros Hok Hearly Hpend Hbl Hw2 Hc2 Hds Hne Ho2.
  destruct (pop_proxy P p Hok) as (Qq & Qio & Qp & Qb).
  destruct Hok as (_ & _ & _ & HP & Hal & Hg & _).
  unfold terminate. rewrite Hal, Hg, Hearly. cbn [negb].
  set (c1 := pop (pc p)) in *.
  assert (Hin1 : insync c1) by (split; [exact Qq | rewrite Qio; exact Hpend]).
  assert (St : py_int (text (ds ++ [CR; LF])) = Some (dec_val ds)).
  { rewrite text_line by (eapply Forall_impl; [|exact Hds]; cbn; intros d Hd; unfold is_digit in Hd; unfold CR, LF; lia).
    apply py_int_status; assumption. }
  assert (B1 : any_in (blacklist c1) (ECHO_Q ++ [CR]) = false) by (rewrite Qb; exact Hbl).
  assert (Hr2 : (ds ++ [CR; LF]) ++ P <> []) by (destruct ds; [congruence | discriminate]).
  assert (B2 : only_tail (prompt_split (Some (SLit P))) ((ds ++ [CR; LF]) ++ P) (length (ds ++ [CR; LF])))
    by (apply only_tail_literal; assumption).
  assert (B3 : (@None sstr = None /\ prompt c1 = Some (SLit P)) \/ @None sstr = Some (SLit P))
    by (left; split; [reflexivity | exact Qp]).
  destruct (exchange ECHO_Q None P c1 st2 (tty_echo false (ECHO_Q ++ [CR])) ((ds ++ [CR; LF]) ++ P) (length (ds ++ [CR; LF]))
              Hin1 Hw2 B1 Hc2 (echo_len_noctl _) Hr2 B2 B3) as (c4 & c5 & Y1 & Y2 & Hin5 & _).
  cbn [hd_stage]. rewrite Y1, Y2, firstn_app_exact, St.
  eexists. split; [reflexivity|]. cbn. auto.
Qed.
