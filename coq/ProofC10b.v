(* ProofC10b.v -- while the command runs, an interaction raises CommandEndedException exactly when the shell prompt
   has been received: never on other data, never missed -- whatever the fragmentation. *)
From TV Require Import Base BaseLemmas Utf8 Regex Channel ChannelCorr ChannelLemmas ProofC02 ProofC03 ProofC05 Hush Session Sh Proxy.

(* the death strings of the proxy's channel: only the shell prompt, raising CE *)
Definition only_prompt (P : list N) (c : chan) : Prop :=
  map d_str (deaths c) = [SLit P] /\ map d_exc (deaths c) = [CE].

Lemma check_entries_meta chunk : forall ds r ds',
  check_entries chunk ds = (r, ds') -> map d_str ds' = map d_str ds /\ map d_exc ds' = map d_exc ds.
Proof.
  induction ds as [|e ds IH]; intros r ds' H; cbn [check_entries] in H.
  - injection H as <- <-. auto.
  - destruct (ds_hit _ _).
    + injection H as <- <-. cbn. auto.
    + destruct (check_entries chunk ds) as [r0 ds0] eqn:E. injection H as <- <-. destruct (IH _ _ eq_refl) as [A B].
      cbn. rewrite A, B. auto.
Qed.

Lemma check_chunks_meta : forall cs ds r ds',
  check_chunks cs ds = (r, ds') -> map d_str ds' = map d_str ds /\ map d_exc ds' = map d_exc ds.
Proof.
  induction cs as [|ch cs IH]; intros ds r ds' H; cbn [check_chunks] in H.
  - injection H as <- <-. auto.
  - destruct (check_entries ch ds) as [[h|] ds1] eqn:E; destruct (check_entries_meta _ _ _ _ E) as [A B].
    + injection H as <- <-. auto.
    + destruct (IH _ _ _ H) as [A' B']. split; congruence.
Qed.

Lemma check_meta incoming c r c' :
  check incoming c = (r, c') -> map d_str (deaths c') = map d_str (deaths c) /\ map d_exc (deaths c') = map d_exc (deaths c).
Proof.
  unfold check. destruct (deaths c) as [|e ds] eqn:Ed; [intros [= <- <-]; rewrite Ed; auto|].
  destruct (check_chunks _ _) as [r0 ds'] eqn:E. intros [= <- <-]. cbn. rewrite <- Ed in E.
  apply check_chunks_meta in E. rewrite Ed in E. exact E.
Qed.

Lemma iter_step_meta start tmo n c r c' :
  iter_step start tmo n c = (r, c') ->
  map d_str (deaths c') = map d_str (deaths c) /\ map d_exc (deaths c') = map d_exc (deaths c).
Proof.
  unfold iter_step. destruct (match _ with Some r0 => (r0 <=? 0)%Z | None => false end); [intros [= <- <-]; auto|].
  destruct (io_read _ _ _) as [res io']. destruct res as [new| |]; try (intros [= <- <-]; auto).
  destruct (write_stream_frame new (with_io c io')) as (_ & _ & W3 & _).
  destruct (check new (write_stream new (with_io c io'))) as [[[e mt]|] c2] eqn:Ec; destruct (check_meta _ _ _ _ Ec) as [A B];
    intros [= <- <-]; rewrite A, B, W3; auto.
Qed.

(* one read iteration on the proxy's channel: data is handed on iff the prompt has not been completed by it; the
   death exception is the prompt's; h = the bytes received since the command was started *)
Lemma iter_step_prompt start tmo n c r c' P h :
  wfc c -> 0 < n -> only_prompt P c -> dinv (deaths c) [h] ->
  iter_step start tmo n c = (r, c') ->
  only_prompt P c' /\ wfc c' /\
  match r with
  | SData new => cpend c = new ++ cpend c' /\ contains P (h ++ new) = false /\ dinv (deaths c') [h ++ new]
  | SDeath exc mt => exc = CE /\ mt = P /\ exists new, cpend c = new ++ cpend c' /\ contains P (h ++ new) = true
  | _ => dinv (deaths c') [h] /\ pend (io c') = pend (io c) \/ pend (io c') = []
  end.
Proof.
  intros Hw Hn [Ps Pe] Hinv H.
  destruct (iter_step_meta _ _ _ _ _ _ H) as [M1 M2].
  destruct (iter_step_spec _ _ _ _ _ _ H Hn Hw) as (_ & Hw' & _ & Hr).
  split; [unfold only_prompt; split; congruence|]. split; [exact Hw'|].
  pose proof (iter_step_deaths _ _ _ _ _ _ [h] Hinv H) as D.
  destruct r as [new| | |exc mt].
  - destruct Hr as (_ & _ & Hc & _). cbn [map] in D. split; [exact Hc|]. split; [|exact D].
    pose proof (dinv_no_occurrence _ _ D) as F. rewrite <- M1 in Ps.
    destruct (deaths c') as [|e' ds'] eqn:Ed; [discriminate|]. inversion F as [|? ? ? ? (l & A & B) _]; subst.
    cbn [map] in Ps. injection Ps as Ps _. rewrite A in Ps. injection Ps as <-. exact B.
  - left. split; [rewrite D; exact Hinv | tauto].
  - right. tauto.
  - destruct D as (new0 & e & h0 & I1 & I2 & I3 & I4 & I5).
    destruct (deaths c) as [|e0 ds0] eqn:Ed; [contradiction|]. cbn [map] in Ps, Pe.
    destruct ds0; [|discriminate]. cbn [map] in Ps, Pe. destruct I1 as [<-|[]]. destruct I2 as [<-|[]].
    assert (Ps' : d_str e0 = SLit P) by congruence. assert (Pe' : d_exc e0 = CE) by congruence. clear Ps Pe. rename Ps' into Ps. rename Pe' into Pe. rewrite I3 in Ps. injection Ps as ->. rewrite Pe in I4.
    split; [congruence|]. split; [reflexivity|].
    (* the data of this iteration is what was taken from the transport *)
    pose proof (iter_step_checks _ _ _ _ _ _ H) as (new & io' & c2 & Eio & Eck & ->).
    destruct (io_read_data _ _ _ _ _ Eio Hn Hw) as (_ & _ & Hcat & _).
    destruct (write_stream_frame new (with_io c io')) as (W1 & _ & W3 & _).
    destruct (check_frame _ _ _ _ Eck) as (C1 & _).
    exists new. split; [unfold cpend; rewrite C1, W1; exact Hcat|].
    assert (Hinv' : dinv (deaths (write_stream new (with_io c io'))) [h]) by (rewrite W3; cbn; rewrite Ed; exact Hinv).
    destruct (ds_sound _ _ _ _ _ _ Hinv' Eck) as (e1 & h1 & J1 & J2 & J3 & _ & J5).
    destruct J2 as [<-|[]]. rewrite W3 in J1. cbn in J1. rewrite Ed in J1. destruct J1 as [<-|[]].
    exact J5.
Qed.

(* the same for a whole read_until_prompt loop (whatever prompt it waits for): data = everything it consumed *)
Lemma rup_loop_prompt P fuel : forall start tmo buf c h r c',
  wfc c -> only_prompt P c -> dinv (deaths c) [h] ->
  rup_loop fuel start tmo buf c = (r, c') ->
  only_prompt P c' /\ wfc c' /\
  match r with
  | Ret _ => exists data, cpend c = data ++ cpend c' /\ contains P (h ++ data) = false /\ dinv (deaths c') [h ++ data]
  | EDeath exc mt => exc = CE /\ mt = P /\ exists data, cpend c = data ++ cpend c' /\ contains P (h ++ data) = true
  | _ => True
  end.
Proof.
  induction fuel as [|f IH]; intros start tmo buf c h r c' Hw Ho Hd H.
  - cbn in H. injection H as <- <-. auto.
  - rewrite rup_loop_step in H.
    destruct (iter_step start tmo READ_CHUNK_SIZE c) as [s c1] eqn:Es.
    destruct (iter_step_prompt _ _ _ _ _ _ P h Hw chunk_pos Ho Hd Es) as (Ho1 & Hw1 & R).
    destruct s as [new| | |exc mt].
    + destruct R as (Hc & Hn & Hd1).
      destruct (prompt_split (prompt c1) (buf ++ new)).
      * injection H as <- <-. split; [exact Ho1|]. split; [exact Hw1|]. exists new. auto.
      * destruct (IH _ _ _ _ _ _ _ Hw1 Ho1 Hd1 H) as (Ho2 & Hw2 & R2). split; [exact Ho2|]. split; [exact Hw2|].
        destruct r as [out| | |exc mt| | |]; try exact I.
        -- destruct R2 as (d2 & C2 & N2 & D2). exists (new ++ d2).
           rewrite Hc, C2, <- !app_assoc. rewrite <- app_assoc in N2, D2. auto.
        -- destruct R2 as (E1 & E2 & d2 & C2 & N2). split; [exact E1|]. split; [exact E2|]. exists (new ++ d2).
           rewrite Hc, C2, <- !app_assoc. rewrite <- app_assoc in N2. auto.
    + injection H as <- <-. auto.
    + injection H as <- <-. auto.
    + injection H as <- <-. split; [exact Ho1|]. split; [exact Hw1|]. exact R.
Qed.

(* ---- on the proxy: read_until_prompt (the program's own prompt) while the command runs ---- *)
(* h = everything received since the command line's echo was read back.  The interaction raises
   CommandEndedException iff the data it consumed completes the shell prompt; otherwise the caller gets the data and
   the prompt still has not been seen.  For EVERY fragmentation and timing. *)
Theorem proxy_rup_raises_iff_prompt_received P h own tmo sts p v p' :
  st p = PRunning -> wfc (pc p) -> only_prompt P (pc p) -> dinv (deaths (pc p)) [h] ->
  proxy_io (ORup (Some (SLit own)) tmo) sts p = (v, p') ->
  (st p' = PEnded ->
     v = V_CE /\ exists data, cpend (pc p) = data ++ cpend (pc p') /\ contains P (h ++ data) = true) /\
  (st p' <> PEnded ->
     st p' = PRunning /\ wfc (pc p') /\ only_prompt P (pc p') /\
     forall out, v = V_data out ->
       exists data, cpend (pc p) = data ++ cpend (pc p') /\ contains P (h ++ data) = false /\
                    dinv (deaths (pc p')) [h ++ data]).
Proof.
  intros Hst Hw Ho Hd. unfold proxy_io. rewrite Hst. cbn [writes run_op].
  unfold read_until_prompt.
  destruct (rup_loop (fuel_of (pc p)) (now (io (pc p))) tmo [] (with_prompt (pc p) (Some (SLit own)))) as [r c1] eqn:E.
  assert (Hw0 : wfc (with_prompt (pc p) (Some (SLit own)))) by exact Hw.
  assert (Ho0 : only_prompt P (with_prompt (pc p) (Some (SLit own)))) by exact Ho.
  assert (Hd0 : dinv (deaths (with_prompt (pc p) (Some (SLit own)))) [h]) by exact Hd.
  destruct (rup_loop_prompt P _ _ _ _ _ h _ _ Hw0 Ho0 Hd0 E) as (Ho1 & Hw1 & R).
  assert (Hc0 : cpend (with_prompt (pc p) (Some (SLit own))) = cpend (pc p)) by reflexivity.
  assert (Hc1 : forall x, cpend (with_prompt c1 x) = cpend c1) by reflexivity.
  destruct r as [out| | |exc mt| | |].
  all: try (cbn; intros HX; injection HX as <- <-; cbn [st pc];
            split; [discriminate|]; intros _; split; [reflexivity|]; split; [exact Hw1|]; split; [exact Ho1|];
            intros out0 HV; try discriminate HV).
  - injection HV as <-. destruct R as (data & C & N & D). exists data. rewrite Hc1, <- Hc0. auto.
  - destruct R as (-> & -> & data & C & N). cbn. intros HX; injection HX as <- <-. cbn [st pc].
    split; [intros _; split; [reflexivity|]; exists data; rewrite Hc1, <- Hc0; auto | congruence].
Qed.

(* ---- run(): the invariant holds from the start, with an empty history ---- *)
From TV Require Import ProofSession.

Theorem run_start_establishes cmd P parent stg rest echo sts :
  insync parent -> prompt parent = Some (SLit P) -> P <> [] ->
  any_in (blacklist parent) (cmd ++ [CR]) = false ->
  wf_pend stg -> cat stg = echo ++ rest -> length echo = readback_len (cmd ++ [CR]) ->
  exists p, run_start cmd (stg :: sts) parent = (VL [VN 0], p) /\
    Proxy.st p = PRunning /\ alive p = true /\ early p = false /\ gdone p = false /\
    wfc (pc p) /\ only_prompt P (pc p) /\ dinv (deaths (pc p)) [[]] /\ cpend (pc p) = rest.
Proof.
  intros Hin Hpr HP Hbl Hst Hcat Hecho. unfold run_start. rewrite Hbl. cbn [hd_stage tl].
  destruct (load_spec stg parent Hin Hst) as (L1 & L2 & L3 & L4 & L5).
  unfold sendline, send. rewrite L5, Hbl.
  assert (A1 : any_in (blacklist (load stg parent)) (cmd ++ [CR]) = false) by (rewrite L5; exact Hbl).
  assert (A2 : cpend (load stg parent) = echo ++ rest) by (rewrite L1; exact Hcat).
  destruct (send_rb_exact (S (length (cmd ++ [CR]))) (now (io (load stg parent))) (cmd ++ [CR]) (load stg parent) echo rest
              L2 A1 A2 Hecho (Nat.lt_succ_diag_r _)) as (c2 & S1 & S2 & S3 & (Hw2 & Hd2 & Hs2) & S5 & S6).
  rewrite S1, S5, L4, Hpr.
  eexists. split; [reflexivity|]. cbn [Proxy.st alive early gdone pc].
  repeat split; auto.
  - unfold push_death. cbn. rewrite Hd2. reflexivity.
  - unfold push_death. cbn. rewrite Hd2. reflexivity.
  - pose proof (push_death_inv P CE c2 [] HP) as D. rewrite Hd2 in D. apply D. constructor.
Qed.
