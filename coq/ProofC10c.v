(* ProofC10c.v -- conservation for run(): what the test obtains through the proxy, exchange by exchange, followed by what
   terminate() returns, is exactly what the command printed -- for EVERY fragmentation of the console output, as long as
   the shell prompt does not occur in it.  Built on ProofCalm.v (reads under a registered death string that does not
   occur) and ProofC10.v (terminate_exact). *)
From TV Require Import Base BaseLemmas Utf8 Regex Channel ChannelCorr ChannelLemmas ProofC02 ProofC03 ProofC05 Hush Session
  ProofSession Sh ProofC01 Proxy ProofC10 ProofAlien ProofCalm.

(* a running command whose proxy is where the test left it: h = what has been received since run() registered the shell
   prompt P as death string; R = what the console has already sent and the proxy has not read yet *)
Definition runningp (P : list N) (p : proxy) (h R : list N) : Prop :=
  st p = PRunning /\ alive p = true /\ early p = false /\ gdone p = false /\
  wfc (pc p) /\ slow_ok (pc p) /\ prompt (pc p) = Some (SLit P) /\ P <> [] /\
  dinv (deaths (pc p)) [h] /\ cpend (pc p) = R /\
  exists id rest, map dmeta (deaths (pc p)) = [(id, SLit P, CE)] /\ ctx (pc p) = FDeath id :: rest.

Lemma only_entry P c id (e : dentry) l :
  map dmeta (deaths c) = [(id, SLit P, CE)] -> In e (deaths c) -> d_str e = SLit l -> l = P.
Proof.
  intros M He Hl. destruct (deaths c) as [|e0 [|e1 r]]; cbn in M; try discriminate.
  destruct He as [<-|[]]. unfold dmeta in M. injection M as _ M _. rewrite Hl in M. congruence.
Qed.

Lemma runningp_ok P p h R : runningp P p h R -> proxy_ok P p.
Proof.
  intros (_ & A & _ & G & Hw & Hs & Hp & HP & _ & _ & id & rest & M & X).
  unfold proxy_ok. repeat (split; [assumption|]).
  destruct (deaths (pc p)) as [|e0 [|e1 r]] eqn:Ed; cbn in M; try discriminate.
  unfold dmeta in M. injection M as M1 M2 M3. exists id, (d_ring e0), rest. split; [|exact X].
  destruct e0; cbn in *. congruence.
Qed.

(* sendline(line, read_back=True) on the proxy: the line goes out, exactly its echo is consumed *)
Lemma proxy_sendline_rb P p h line (stg : stage) echo rest :
  runningp P p h [] -> wf_pend stg ->
  any_in (blacklist (pc p)) (line ++ [CR]) = false ->
  cat stg = echo ++ rest -> length echo = readback_len (line ++ [CR]) ->
  contains P (h ++ echo) = false ->
  exists p1,
    proxy_io (OSendline false line true None) [stg] p = (VL [VN 0], p1) /\
    runningp P p1 (h ++ echo) rest /\ wr (io (pc p1)) = wr (io (pc p)) ++ line ++ [CR] /\
    blacklist (pc p1) = blacklist (pc p).
Proof.
  intros (Hst & Ha & He & Hg & Hw & Hs & Hp & HP & Hd & Hc & id & rs & M & X) Hwf Hbl Hcat Hecho Hfree.
  assert (Hp0 : pend (io (pc p)) = []) by (apply cpend_nil_pend; assumption).
  assert (Hfree' : forall e h' l, In e (deaths (pc p)) -> In h' [h] -> d_str e = SLit l -> contains l (h' ++ echo) = false).
  { intros e h' l Ie [<-|[]] Hl. rewrite (only_entry P (pc p) id e l M Ie Hl). exact Hfree. }
  destruct (sendline_rb_nocc line (pc p) [h] stg echo rest Hw Hd Hs Hp0 Hwf Hbl Hcat Hecho Hfree')
    as (c2 & E2 & C2 & (W2 & D2 & _) & S2 & Wr2 & P2 & B2 & X2 & SD2).
  unfold proxy_io. rewrite Hst. cbn [writes payload]. rewrite Hbl. cbn [negb hd_stage run_op payload]. rewrite E2.
  cbn [V_err V_unit died]. eexists. split; [reflexivity|]. cbn [pc].
  split; [|auto].
  unfold runningp. cbn [st alive early gdone pc]. cbn [map] in D2.
  repeat (split; [first [assumption | reflexivity | congruence]|]).
  exists id, rs. unfold same_deaths in SD2. split; congruence.
Qed.

(* read_until_prompt(own) on the proxy: everything pending, which ends in the program's own prompt *)
Lemma proxy_rup_own P p h own answer :
  runningp P p h (answer ++ own) -> own <> [] -> prompt_only_at_end own answer ->
  contains P (h ++ answer ++ own) = false ->
  exists p1,
    proxy_io (ORup (Some (SLit own)) None) [] p = (V_data (text answer), p1) /\
    runningp P p1 (h ++ answer ++ own) [] /\ wr (io (pc p1)) = wr (io (pc p)) /\ blacklist (pc p1) = blacklist (pc p).
Proof.
  intros (Hst & Ha & He & Hg & Hw & Hs & Hp & HP & Hd & Hc & id & rs & M & X) Hown Hpoe Hfree.
  assert (Hfree' : forall e h' l, In e (deaths (pc p)) -> In h' [h] -> d_str e = SLit l -> contains l (h' ++ answer ++ own) = false).
  { intros e h' l Ie [<-|[]] Hl. rewrite (only_entry P (pc p) id e l M Ie Hl). exact Hfree. }
  destruct (rup_own_nocc own (pc p) [h] answer Hw Hd Hs Hc Hown Hpoe Hfree')
    as (c3 & E3 & (W3 & D3 & _) & S3 & P3 & Wr3 & Pr3 & B3 & X3 & SD3).
  unfold proxy_io. rewrite Hst. cbn [writes run_op]. rewrite E3. cbn [V_err V_data died].
  eexists. split; [reflexivity|]. cbn [pc]. split; [|auto].
  unfold runningp. cbn [st alive early gdone pc]. cbn [map] in D3.
  assert (C3 : cpend c3 = []) by (unfold cpend; rewrite P3; reflexivity).
  repeat (split; [first [assumption | reflexivity | congruence]|]).
  exists id, rs. unfold same_deaths in SD3. split; congruence.
Qed.

(* ------------------------------------------------------------------ a whole interaction *)
(* one exchange: the line the test sends, the console's reaction to it (stage), the program's answer *)
Record exch : Type := mkX { x_line : list N; x_stage : stage; x_answer : list N }.

Definition exch_steps (own : list N) (x : exch) : list pstep :=
  [PIo (OSendline false (x_line x) true None) [x_stage x]; PIo (ORup (Some (SLit own)) None) []].

(* the reaction to a line is its echo, the program's answer and the program's prompt *)
Definition exch_ok (own : list N) (bl : list N) (x : exch) : Prop :=
  wf_pend (x_stage x) /\ any_in bl (x_line x ++ [CR]) = false /\
  cat (x_stage x) = tty_echo false (x_line x ++ [CR]) ++ x_answer x ++ own /\
  prompt_only_at_end own (x_answer x).

Fixpoint received (xs : list exch) : list N :=
  match xs with [] => [] | x :: r => cat (x_stage x) ++ received r end.

Fixpoint answers (xs : list exch) : list V :=
  match xs with [] => [] | x :: r => VL [VN 0] :: V_data (text (x_answer x)) :: answers r end.

Fixpoint sent (xs : list exch) : list N :=
  match xs with [] => [] | x :: r => (x_line x ++ [CR]) ++ sent r end.

Lemma run_script_acc : forall ss p acc,
  run_script ss p acc = (rev acc ++ fst (run_script ss p []), snd (run_script ss p [])).
Proof.
  induction ss as [|s ss IH]; intros p acc; [cbn; rewrite app_nil_r; reflexivity|].
  destruct s as [o sts|z sts]; cbn [run_script].
  - destruct (proxy_io o sts p) as [v p1]. rewrite (IH p1 (v :: acc)), (IH p1 [v]). cbn [rev app fst snd].
    rewrite <- app_assoc. reflexivity.
  - destruct (terminate z sts p) as [r p1]. rewrite (IH p1 (V_tres r :: acc)), (IH p1 [V_tres r]). cbn [rev app fst snd].
    rewrite <- app_assoc. reflexivity.
Qed.

Lemma run_script_app a : forall b p,
  run_script (a ++ b) p [] =
  (fst (run_script a p []) ++ fst (run_script b (snd (run_script a p [])) []), snd (run_script b (snd (run_script a p [])) [])).
Proof.
  induction a as [|s a IH]; intros b p.
  - cbn [app run_script rev fst snd]. destruct (run_script b p []); reflexivity.
  - destruct s as [o sts|z sts]; cbn [app run_script].
    + destruct (proxy_io o sts p) as [v p1]. rewrite (run_script_acc (a ++ b) p1 [v]), (run_script_acc a p1 [v]), IH.
      cbn [rev app fst snd]. reflexivity.
    + destruct (terminate z sts p) as [r p1]. rewrite (run_script_acc (a ++ b) p1 [V_tres r]), (run_script_acc a p1 [V_tres r]), IH.
      cbn [rev app fst snd]. reflexivity.
Qed.

Theorem exchanges_exact P own : forall xs p h,
  runningp P p h [] -> own <> [] ->
  Forall (exch_ok own (blacklist (pc p))) xs ->
  contains P (h ++ received xs) = false ->
  exists p',
    run_script (flat_map (exch_steps own) xs) p [] = (answers xs, p') /\
    runningp P p' (h ++ received xs) [] /\ wr (io (pc p')) = wr (io (pc p)) ++ sent xs /\
    blacklist (pc p') = blacklist (pc p).
Proof.
  induction xs as [|x xs IH]; intros p h Hr Hown Hok Hfree.
  - exists p. cbn. rewrite !app_nil_r. auto.
  - inversion Hok as [|? ? (K1 & K2 & K3 & K4) Hok']; subst.
    cbn [received] in Hfree. rewrite app_assoc in Hfree.
    assert (F1 : contains P (h ++ cat (x_stage x)) = false) by (exact (contains_prefix_false _ _ _ Hfree)).
    assert (F0 : contains P (h ++ tty_echo false (x_line x ++ [CR])) = false).
    { rewrite K3, app_assoc in F1. exact (contains_prefix_false _ _ _ F1). }
    destruct (proxy_sendline_rb P p h (x_line x) (x_stage x) _ _ Hr K1 K2 K3 (echo_len_noctl _) F0) as (p1 & E1 & R1 & W1 & B1).
    assert (F2 : contains P ((h ++ tty_echo false (x_line x ++ [CR])) ++ x_answer x ++ own) = false).
    { rewrite <- app_assoc, <- K3. exact F1. }
    destruct (proxy_rup_own P p1 _ own (x_answer x) R1 Hown K4 F2) as (p2 & E2 & R2 & W2 & B2).
    rewrite <- app_assoc, <- K3 in R2.
    assert (Hok2 : Forall (exch_ok own (blacklist (pc p2))) xs) by (rewrite B2, B1; exact Hok').
    destruct (IH p2 _ R2 Hown Hok2 Hfree) as (p' & E' & R' & W' & B').
    assert (Ex : run_script (exch_steps own x) p [] = ([VL [VN 0]; V_data (text (x_answer x))], p2)).
    { unfold exch_steps. cbn [run_script]. rewrite E1, E2. reflexivity. }
    exists p'. cbn [flat_map]. rewrite run_script_app, Ex. cbn [fst snd]. rewrite E'. cbn [fst snd answers app].
    split; [reflexivity|]. split; [cbn [received]; rewrite app_assoc; exact R'|].
    split; [rewrite W', W2, W1; cbn [sent]; rewrite <- !app_assoc; reflexivity | congruence].
Qed.

(* the whole run: exchanges with the running program, then the line that makes it exit (read back), then terminate():
   the test obtains exactly the program's answers, terminate() exactly the remaining output and the real status *)
Theorem run_conservation P own xs p h exit_line (st_exit st_status : stage) (sts : list stage) out ds z :
  runningp P p h [] -> own <> [] ->
  Forall (exch_ok own (blacklist (pc p))) xs ->
  wf_pend st_exit -> any_in (blacklist (pc p)) (exit_line ++ [CR]) = false ->
  cat st_exit = tty_echo false (exit_line ++ [CR]) ++ out ++ P -> prompt_only_at_end P out ->
  (* the shell prompt does not show up while the command runs *)
  contains P (h ++ received xs ++ tty_echo false (exit_line ++ [CR])) = false ->
  any_in (blacklist (pc p)) (ECHO_Q ++ [CR]) = false ->
  wf_pend st_status -> cat st_status = tty_echo false (ECHO_Q ++ [CR]) ++ (ds ++ [CR; LF]) ++ P ->
  all_digits ds -> ds <> [] -> prompt_only_at_end P (ds ++ [CR; LF]) ->
  exists p',
    run_script (flat_map (exch_steps own) xs ++
                [PIo (OSendline false exit_line true None) [st_exit]; PTerm z (st_status :: sts)]) p [] =
      (answers xs ++ [VL [VN 0]; V_tres (if z && negb (dec_val ds =? 0)%Z then TFailure else TOk (dec_val ds) (text out))], p') /\
    st p' = PTerminated /\ alive p' = false /\ insync (pc p').
Proof.
  intros Hr Hown Hok Hwe Hble Hce Hpo Hfree Hblq Hws Hcs Hds Hne Hpo2.
  assert (F1 : contains P (h ++ received xs) = false).
  { rewrite app_assoc in Hfree. exact (contains_prefix_false _ _ _ Hfree). }
  destruct (exchanges_exact P own xs p h Hr Hown Hok F1) as (p1 & E1 & R1 & W1 & B1).
  assert (Hble1 : any_in (blacklist (pc p1)) (exit_line ++ [CR]) = false) by (rewrite B1; exact Hble).
  rewrite app_assoc in Hfree.
  destruct (proxy_sendline_rb P p1 _ exit_line st_exit _ _ R1 Hwe Hble1 Hce (echo_len_noctl _) Hfree) as (p2 & E2 & R2 & W2 & B2).
  pose proof (runningp_ok _ _ _ _ R2) as Hok2.
  destruct R2 as (_ & _ & He2 & _ & _ & _ & _ & _ & _ & Hc2 & _).
  assert (Hblq2 : any_in (blacklist (pc p2)) (ECHO_Q ++ [CR]) = false) by (rewrite B2, B1; exact Hblq).
  destruct (terminate_exact z P p2 st_status sts out ds Hok2 He2 Hc2 Hpo Hblq2 Hws Hcs Hds Hne Hpo2) as (p3 & E3 & T1 & T2 & T3).
  assert (Et : run_script [PIo (OSendline false exit_line true None) [st_exit]; PTerm z (st_status :: sts)] p1 [] =
               ([VL [VN 0]; V_tres (if z && negb (dec_val ds =? 0)%Z then TFailure else TOk (dec_val ds) (text out))], p3)).
  { cbn [run_script]. rewrite E2. cbv beta iota.
    match goal with |- context [terminate z ?s p2] =>
      replace (terminate z s p2) with (if z && negb (dec_val ds =? 0)%Z then TFailure else TOk (dec_val ds) (text out), p3) by (symmetry; exact E3)
    end. reflexivity. }
  exists p3. rewrite run_script_app, E1. cbn [fst snd]. rewrite Et. cbn [fst snd].
  split; [reflexivity|]. split; [exact T1|]. split; [exact T2|]. exact T3.
Qed.

(* run() itself establishes the invariant: the command line is sent and read back, the prompt registered *)
Theorem run_start_runningp cmd P parent (stg : stage) (sts : list stage) rest :
  insync parent -> prompt parent = Some (SLit P) -> P <> [] ->
  any_in (blacklist parent) (cmd ++ [CR]) = false ->
  wf_pend stg -> cat stg = tty_echo false (cmd ++ [CR]) ++ rest ->
  exists p, run_start cmd (stg :: sts) parent = (VL [VN 0], p) /\ runningp P p [] rest /\
            wr (io (pc p)) = wr (io parent) ++ cmd ++ [CR] /\ blacklist (pc p) = blacklist parent.
Proof.
  intros Hin Hpr HP Hbl Hst Hcat. unfold run_start. rewrite Hbl. cbn [hd_stage tl].
  destruct (load_spec stg parent Hin Hst) as (L1 & L2 & L3 & L4 & L5).
  unfold sendline, send. rewrite L5, Hbl.
  assert (A1 : any_in (blacklist (load stg parent)) (cmd ++ [CR]) = false) by (rewrite L5; exact Hbl).
  assert (A2 : cpend (load stg parent) = tty_echo false (cmd ++ [CR]) ++ rest) by (rewrite L1; exact Hcat).
  destruct (send_rb_exact (S (length (cmd ++ [CR]))) (now (io (load stg parent))) (cmd ++ [CR]) (load stg parent) _ rest
              L2 A1 A2 (echo_len_noctl _) (Nat.lt_succ_diag_r _)) as (c2 & S1 & S2 & S3 & (Hw2 & Hd2 & Hs2) & S5 & S6).
  rewrite S1, S5, L4, Hpr.
  eexists. split; [reflexivity|]. cbn [pc]. split; [|split; [unfold push_death; cbn; rewrite S2, L3; reflexivity | unfold push_death; cbn; congruence]].
  unfold runningp. cbn [Proxy.st alive early gdone pc].
  split; [reflexivity|]. split; [reflexivity|]. split; [reflexivity|]. split; [reflexivity|].
  split; [exact Hw2|]. split; [unfold slow_ok, push_death in *; cbn; exact Hs2|].
  split; [unfold push_death; cbn; congruence|]. split; [exact HP|].
  split; [pose proof (push_death_inv P CE c2 [] HP) as D; rewrite Hd2 in D; apply D; constructor|].
  split; [exact S3|].
  exists (nextid c2), (ctx c2). unfold push_death. cbn. rewrite Hd2. split; reflexivity.
Qed.

(* from the machine in sync to the machine in sync: run(cmd), read the banner up to the program's prompt, the exchanges,
   the exiting line, terminate() *)
Theorem run_session_exact cmd P own parent (st_cmd : stage) banner xs exit_line (st_exit st_status : stage) (sts : list stage) out ds z :
  insync parent -> prompt parent = Some (SLit P) -> P <> [] -> own <> [] ->
  any_in (blacklist parent) (cmd ++ [CR]) = false ->
  wf_pend st_cmd -> cat st_cmd = tty_echo false (cmd ++ [CR]) ++ banner ++ own -> prompt_only_at_end own banner ->
  Forall (exch_ok own (blacklist parent)) xs ->
  wf_pend st_exit -> any_in (blacklist parent) (exit_line ++ [CR]) = false ->
  cat st_exit = tty_echo false (exit_line ++ [CR]) ++ out ++ P -> prompt_only_at_end P out ->
  contains P ((banner ++ own) ++ received xs ++ tty_echo false (exit_line ++ [CR])) = false ->
  any_in (blacklist parent) (ECHO_Q ++ [CR]) = false ->
  wf_pend st_status -> cat st_status = tty_echo false (ECHO_Q ++ [CR]) ++ (ds ++ [CR; LF]) ++ P ->
  all_digits ds -> ds <> [] -> prompt_only_at_end P (ds ++ [CR; LF]) ->
  exists p0 p',
    run_start cmd [st_cmd] parent = (VL [VN 0], p0) /\
    run_script (PIo (ORup (Some (SLit own)) None) [] :: flat_map (exch_steps own) xs ++
                [PIo (OSendline false exit_line true None) [st_exit]; PTerm z (st_status :: sts)]) p0 [] =
      (V_data (text banner) :: answers xs ++
       [VL [VN 0]; V_tres (if z && negb (dec_val ds =? 0)%Z then TFailure else TOk (dec_val ds) (text out))], p') /\
    st p' = PTerminated /\ alive p' = false /\ insync (pc p').
Proof.
  intros Hin Hpr HP Hown Hbc Hwc Hcc Hpb Hok Hwe Hble Hce Hpo Hfree Hblq Hws Hcs Hds Hne Hpo2.
  destruct (run_start_runningp cmd P parent st_cmd [] (banner ++ own) Hin Hpr HP Hbc Hwc Hcc) as (p0 & E0 & R0 & W0 & B0).
  assert (F0 : contains P ([] ++ banner ++ own) = false).
  { cbn [app]. rewrite <- app_assoc in Hfree. rewrite app_assoc in Hfree. exact (contains_prefix_false _ _ _ Hfree). }
  destruct (proxy_rup_own P p0 [] own banner R0 Hown Hpb F0) as (p1 & E1 & R1 & W1 & B1).
  cbn [app] in R1.
  assert (Hok1 : Forall (exch_ok own (blacklist (pc p1))) xs) by (rewrite B1, B0; exact Hok).
  assert (Hble1 : any_in (blacklist (pc p1)) (exit_line ++ [CR]) = false) by (rewrite B1, B0; exact Hble).
  assert (Hblq1 : any_in (blacklist (pc p1)) (ECHO_Q ++ [CR]) = false) by (rewrite B1, B0; exact Hblq).
  destruct (run_conservation P own xs p1 _ exit_line st_exit st_status sts out ds z R1 Hown Hok1 Hwe Hble1 Hce Hpo Hfree Hblq1 Hws Hcs Hds Hne Hpo2)
    as (p' & E' & T1 & T2 & T3).
  exists p0, p'. split; [exact E0|]. split; [|auto].
  cbn [run_script]. rewrite E1. rewrite run_script_acc, E'. cbn [rev app fst snd]. reflexivity.
Qed.

(* the hypotheses are satisfiable: a helper with the prompt "(hlp) " answering "ping" with "pong" *)
From TV Require Import ProofInit.
Example exchange_hypotheses_satisfiable :
  let own := [40; 104; 108; 112; 41; 32]%N in
  let x := mkX [112; 105; 110; 103]%N
               [(5%Z, tty_echo false ([112; 105; 110; 103; 13]%N) ++ [112; 111]%N); (9%Z, [110; 103; 13; 10]%N ++ own)]
               [112; 111; 110; 103; 13; 10]%N in
  exch_ok own BASH_BLACKLIST x /\ contains TBOT_PROMPT ([] ++ received [x]) = false.
Proof.
  cbv zeta. split; [|vm_compute; reflexivity].
  unfold exch_ok. cbn [x_stage x_line x_answer].
  split; [repeat constructor; discriminate|]. split; [vm_compute; reflexivity|]. split; [vm_compute; reflexivity|].
  apply poe_check. vm_compute. reflexivity.
Qed.
