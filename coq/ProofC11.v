(* ProofC11.v -- base64 transfer: decode (encode d) = d for every byte string, also through 76-column wrapping;
   the lines sent are made of alphabet characters only. *)
From TV Require Import Base BaseLemmas Base64.
From Coq Require Import ZifyBool ZifyN.
Ltac Zify.zify_post_hook ::= Z.to_euclidean_division_equations.

Local Open Scope N_scope.

(* ------------------------------------------------------------------ the alphabet *)
Definition range64 : list N := map N.of_nat (seq 0 64).

Lemma in_range64 i : i < 64 -> In i range64.
Proof.
  intros H. unfold range64. apply in_map_iff. exists (N.to_nat i). split; [apply N2Nat.id|].
  apply in_seq. lia.
Qed.

Lemma chr2idx_idx2chr i : i < 64 -> chr2idx (idx2chr i) = Some i.
Proof.
  intros H.
  assert (A : forallb (fun j => match chr2idx (idx2chr j) with Some k => k =? j | None => false end) range64 = true)
    by (vm_compute; reflexivity).
  rewrite forallb_forall in A. specialize (A i (in_range64 i H)).
  destruct (chr2idx (idx2chr i)) as [k|]; [|discriminate]. apply N.eqb_eq in A. congruence.
Qed.

Lemma chr2idx_pad : chr2idx PAD = None. Proof. reflexivity. Qed.
Lemma chr2idx_lf : chr2idx LF = None. Proof. reflexivity. Qed.

Definition is_byte (b : N) : Prop := b < 256.

(* ------------------------------------------------------------------ sextets of the encoding *)
Fixpoint enc_sextets (d : list N) : list N :=
  match d with
  | [] => []
  | [a] => [a / 4; (a mod 4) * 16]
  | [a; b] => [a / 4; (a mod 4) * 16 + b / 16; (b mod 16) * 4]
  | a :: b :: c :: r => a / 4 :: (a mod 4) * 16 + b / 16 :: (b mod 16) * 4 + c / 64 :: c mod 64 :: enc_sextets r
  end.

(* induction in steps of three *)
Lemma list_ind3 (P : list N -> Prop) :
  P [] -> (forall a, P [a]) -> (forall a b, P [a; b]) -> (forall a b c r, P r -> P (a :: b :: c :: r)) ->
  forall d, P d.
Proof.
  intros H0 H1 H2 H3 d.
  assert (G : forall n d, (length d <= n)%nat -> P d).
  { induction n as [|n IH]; intros l Hl.
    - destruct l; [exact H0 | cbn in Hl; lia].
    - destruct l as [|a [|b [|c r]]]; auto. apply H3. apply IH. cbn in Hl. lia. }
  apply (G (length d)). lia.
Qed.

Lemma sextets_enc d : Forall is_byte d -> sextets (b64enc d) = enc_sextets d.
Proof.
  unfold is_byte. induction d as [|a|a b|a b c r IH] using list_ind3; intros H.
  - reflexivity.
  - inversion H as [|? ? Ha _]; subst. unfold sextets. cbn [b64enc flat_map enc_sextets].
    rewrite !chr2idx_idx2chr by lia. rewrite chr2idx_pad. reflexivity.
  - inversion H as [|? ? Ha H']; subst. inversion H' as [|? ? Hb _]; subst. unfold sextets. cbn [b64enc flat_map enc_sextets].
    rewrite !chr2idx_idx2chr by lia. rewrite chr2idx_pad. reflexivity.
  - inversion H as [|? ? Ha H']; subst. inversion H' as [|? ? Hb H'']; subst. inversion H'' as [|? ? Hc Hr]; subst.
    unfold sextets in *. cbn [b64enc flat_map enc_sextets].
    rewrite !chr2idx_idx2chr by lia. cbn [app]. rewrite (IH Hr). reflexivity.
Qed.

Lemma dec_enc_sextets d : Forall is_byte d -> dec_sextets (enc_sextets d) = d.
Proof.
  unfold is_byte. induction d as [|a|a b|a b c r IH] using list_ind3; intros H.
  - reflexivity.
  - inversion H as [|? ? Ha _]; subst. cbn [enc_sextets dec_sextets]. f_equal. lia.
  - inversion H as [|? ? Ha H']; subst. inversion H' as [|? ? Hb _]; subst. cbn [enc_sextets dec_sextets].
    f_equal; [lia|]. f_equal. lia.
  - inversion H as [|? ? Ha H']; subst. inversion H' as [|? ? Hb H'']; subst. inversion H'' as [|? ? Hc Hr]; subst.
    cbn [enc_sextets dec_sextets]. rewrite (IH Hr). f_equal; [lia|]. f_equal; [lia|]. f_equal. lia.
Qed.

(* decode (encode d) = d for every byte string: all 256 byte values, every length (0, 1, 2 mod 3) *)
Theorem b64_roundtrip d : Forall is_byte d -> b64dec (b64enc d) = d.
Proof. intros H. unfold b64dec. rewrite sextets_enc by exact H. apply dec_enc_sextets. exact H. Qed.

(* ------------------------------------------------------------------ wrapping does not matter *)
Lemma sextets_app a b : sextets (a ++ b) = sextets a ++ sextets b.
Proof. unfold sextets. apply flat_map_app. Qed.

Lemma chunks_fuel_concat fuel n : forall l, (0 < n)%nat -> (length l <= fuel)%nat -> concat (chunks_fuel fuel n l) = l.
Proof.
  induction fuel as [|f IH]; intros l Hn Hl.
  - destruct l; [reflexivity | cbn in Hl; lia].
  - cbn [chunks_fuel]. destruct l as [|x l']; [reflexivity|]. remember (x :: l') as l.
    cbn [concat]. rewrite IH; [apply firstn_skipn | exact Hn |].
    rewrite skipn_length. subst l. cbn [length] in *. lia.
Qed.

Lemma chunks_concat n l : (0 < n)%nat -> concat (chunks n l) = l.
Proof. intros Hn. unfold chunks. apply chunks_fuel_concat; [exact Hn | lia]. Qed.

Lemma sextets_wrapped ls : sextets (flat_map (fun l => l ++ [LF]) ls) = sextets (concat ls).
Proof.
  induction ls as [|l ls IH]; [reflexivity|]. cbn [flat_map concat]. rewrite !sextets_app, IH.
  unfold sextets at 2. cbn [flat_map]. rewrite chr2idx_lf. cbn [app]. rewrite app_nil_r. reflexivity.
Qed.

(* what `base64 FILE` prints (76-column lines) decodes to the file, and the lines write_bytes sends decode,
   concatenated in order, to the data *)
Theorem b64_wrapped_roundtrip d : Forall is_byte d -> b64dec (b64_wrapped d) = d.
Proof.
  intros H. unfold b64dec, b64_wrapped, b64_lines. rewrite sextets_wrapped, chunks_concat by lia.
  rewrite sextets_enc by exact H. apply dec_enc_sextets. exact H.
Qed.

Theorem b64_lines_concat d : concat (b64_lines d) = b64enc d.
Proof. unfold b64_lines. apply chunks_concat. lia. Qed.

(* ------------------------------------------------------------------ what the lines are made of *)
Definition b64_char (c : N) : Prop := (43 <= c /\ c <= 122 /\ c <> 58).

Lemma idx2chr_char i : i < 64 -> b64_char (idx2chr i).
Proof. intros H. unfold b64_char, idx2chr. destruct (i <? 26) eqn:E1; [lia|]. destruct (i <? 52) eqn:E2; [lia|].
  destruct (i <? 62) eqn:E3; [lia|]. destruct (i =? 62); lia. Qed.

Lemma b64enc_chars d : Forall is_byte d -> Forall b64_char (b64enc d).
Proof.
  unfold is_byte. induction d as [|a|a b|a b c r IH] using list_ind3; intros H.
  - constructor.
  - inversion H as [|? ? Ha _]; subst. cbn [b64enc]. repeat constructor; try (apply idx2chr_char; lia); unfold b64_char, PAD; lia.
  - inversion H as [|? ? Ha H']; subst. inversion H' as [|? ? Hb _]; subst. cbn [b64enc].
    repeat constructor; try (apply idx2chr_char; lia); unfold b64_char, PAD; lia.
  - inversion H as [|? ? Ha H']; subst. inversion H' as [|? ? Hb H'']; subst. inversion H'' as [|? ? Hc Hr]; subst.
    cbn [b64enc]. repeat (constructor; [apply idx2chr_char; lia|]). apply IH. exact Hr.
Qed.

(* every line sent is non-empty, at most 76 characters, over the base64 alphabet: no blank, no colon, no control
   character -- so no forbidden byte of any shell class, an echo of exactly len + 2 bytes, and no way to spell "tee: " *)
Lemma chunks_fuel_parts fuel n : forall l, (0 < n)%nat ->
  Forall (fun p => p <> [] /\ (length p <= n)%nat /\ exists a b, l = a ++ p ++ b) (chunks_fuel fuel n l).
Proof.
  induction fuel as [|f IH]; intros l Hn; [constructor|]. cbn [chunks_fuel]. destruct l as [|x l']; [constructor|].
  remember (x :: l') as l. constructor.
  - split; [subst l; destruct n; [lia | discriminate]|]. split; [rewrite firstn_length; lia|].
    exists [], (skipn n l). cbn [app]. symmetry. apply firstn_skipn.
  - eapply Forall_impl; [|apply (IH (skipn n l) Hn)]. cbn beta. intros p (A & B & a & b & E). split; [exact A|]. split; [exact B|].
    exists (firstn n l ++ a), b. rewrite <- app_assoc, <- E. symmetry. apply firstn_skipn.
Qed.

Theorem b64_lines_wellformed d : Forall is_byte d ->
  Forall (fun p => p <> [] /\ (length p <= 76)%nat /\ Forall b64_char p) (b64_lines d).
Proof.
  intros H. unfold b64_lines, chunks.
  eapply Forall_impl; [|apply (chunks_fuel_parts (length (b64enc d)) 76 (b64enc d)); lia].
  cbn beta. intros p (A & B & a & b & E). split; [exact A|]. split; [exact B|].
  pose proof (b64enc_chars d H) as C. rewrite E in C. apply Forall_app in C. destruct C as [_ C].
  apply Forall_app in C. tauto.
Qed.

(* a line over the alphabet contains neither a blank nor a colon: it cannot contain the death string "tee: ",
   nor any byte below 43 (all control characters, the tty's special characters) *)
Theorem b64_line_harmless p c : Forall b64_char p -> In c p -> 43 <= c /\ c <= 122 /\ c <> 58 /\ c <> 32.
Proof. intros H Hin. rewrite Forall_forall in H. destruct (H c Hin) as (A & B & C). lia. Qed.

Example b64_example : b64enc [72; 105; 33; 255] = [83; 71; 107; 104; 47; 119; 61; 61] /\ b64dec [83; 71; 107; 104; 10; 47; 119; 61; 61] = [72; 105; 33; 255].
Proof. vm_compute. split; reflexivity. Qed.
