(* ProofC11b.v -- read_bytes over the session: for every byte string and every fragmentation the decoded output of
   `base64 FILE` is the file. *)
From TV Require Import Base BaseLemmas Utf8 Regex Channel ChannelCorr ChannelLemmas ProofC02 ProofC03 Hush Session ProofSession ProofC19 Sh ProofC01 ProofC09 Base64 ProofC11 Proxy PathIO.
From Coq Require Import ZifyBool ZifyN.

Local Open Scope N_scope.

Lemma b64_char_ascii c : b64_char c -> c < 128 /\ c <> CR.
Proof. unfold b64_char, CR. lia. Qed.

Lemma wrapped_ascii d : Forall is_byte d -> Forall (fun b => b < 128 /\ b <> CR) (b64_wrapped d).
Proof.
  intros H. unfold b64_wrapped. pose proof (b64_lines_wellformed d H) as W.
  induction W as [|l ls (_ & _ & Hl) _ IH]; [constructor|]. cbn [flat_map]. apply Forall_app. split; [|exact IH].
  apply Forall_app. split.
  - eapply Forall_impl; [|exact Hl]. intros a. apply b64_char_ascii.
  - repeat constructor; unfold LF, CR; lia.
Qed.

Local Close Scope N_scope.

(* the remote prints the 76-column base64 text of the file; whatever the fragmentation of the console's reaction,
   read_bytes returns exactly the file's bytes and leaves the channel in sync *)
Theorem read_bytes_exact cmd d P c st1 st2 sts :
  insync c -> prompt c = Some (SLit P) -> P <> [] -> Forall is_byte d ->
  any_in (blacklist c) (utf8_enc cmd ++ [CR]) = false ->
  any_in (blacklist c) (ECHO_Q ++ [CR]) = false ->
  wf_pend st1 -> cat st1 = tty_echo false (utf8_enc cmd ++ [CR]) ++ onlcr (b64_wrapped d) ++ P ->
  prompt_only_at_end P (onlcr (b64_wrapped d)) ->
  wf_pend st2 -> cat st2 = tty_echo false (ECHO_Q ++ [CR]) ++ (ZERO ++ [CR; LF]) ++ P ->
  prompt_only_at_end P (ZERO ++ [CR; LF]) ->
  exists c', read_bytes_model cmd (st1 :: st2 :: sts) c = (X0Ok d, c') /\ insync c'.
Proof.
  intros Hin Hpr HP Hd Hb1 Hb2 Hw1 Hc1 Ho1 Hw2 Hc2 Ho2.
  destruct (lx_exec_line_exact cmd P c st1 st2 sts (b64_wrapped d) ZERO Hin Hpr HP Hb1 Hb2 Hw1 Hc1 Ho1 Hw2 Hc2
              ltac:(repeat constructor) ltac:(discriminate) Ho2) as (c' & E & A & _).
  unfold read_bytes_model, lx_exec0_line. rewrite E. change (dec_val ZERO =? 0)%Z with true. cbv iota.
  exists c'. split; [|exact A]. f_equal. f_equal.
  rewrite text_onlcr_ascii by (apply wrapped_ascii; exact Hd). apply b64_wrapped_roundtrip. exact Hd.
Qed.
