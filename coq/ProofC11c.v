(* ProofC11c.v -- write_bytes, the data phase: every base64 line is sent completely and in order, exactly its echo is
   read back, neither the "tee: " nor the prompt death string fires on the echoes -- for every byte string and every
   fragmentation of the echoes. *)
From TV Require Import Base BaseLemmas Utf8 Regex Channel ChannelCorr ChannelLemmas ProofC02 ProofC03 ProofC05 Hush Session ProofSession Sh Base64 ProofC11 Proxy PathIO ProofAlien.
From Coq Require Import ZifyBool ZifyN.

(* the characters of the echo stream of the data phase *)
Definition okc (x : N) : Prop := b64_char x \/ x = CR \/ x = LF.

Lemma tee_alien : alien okc TEE_STR.
Proof. exists 32%N. split; [cbn; auto 10|]. unfold okc, b64_char, CR, LF. lia. Qed.

Lemma slice_ge_77 : 77 <= SEND_SLICE.
Proof. apply Nat.leb_le. vm_compute. reflexivity. Qed.

(* a payload that fits into one slice: one write, one read-back *)
Lemma send_one_slice s start c :
  s <> [] -> length s <= SEND_SLICE ->
  send_loop (S (length s)) start s true None c =
  match write s false c with
  | (Ret _, c1) =>
      match read (Z.of_nat (readback_len s)) None c1 with
      | (Ret _, c2) => (Ret tt, c2)
      | (e, c2) => (lift_err e, c2)
      end
  | (e, c1) => (e, c1)
  end.
Proof.
  intros Hne Hl. destruct s as [|x s0]; [congruence|]. rewrite send_loop_cons_rb.
  rewrite firstn_all2 by exact Hl. rewrite skipn_all2 by exact Hl.
  destruct (write (x :: s0) false c) as [r1 c1]. destruct r1; try reflexivity.
Qed.

Lemma b64_line_readback l : Forall b64_char l -> readback_len (l ++ [CR]) = length (l ++ [CR; LF]).
Proof.
  intros H. rewrite readback_len_app. unfold readback_len at 1.
  assert (C : count_N CR l = 0 /\ count_N LF l = 0).
  { induction H as [|x l Hx _ IH]; [auto|]. cbn [count_N]. destruct IH as [A B]. rewrite A, B.
    unfold b64_char in Hx. unfold CR, LF.
    destruct (N.eqb_spec 13 x); [lia|]. destruct (N.eqb_spec 10 x); [lia|]. auto. }
  destruct C as [A B]. rewrite A, B, app_length. cbn. lia.
Qed.

(* the state of the proxy between two lines *)
Definition between (p : proxy) (hs : list (list N)) : Prop :=
  st p = PRunning /\ calm okc (pc p) hs /\ pend (io (pc p)) = [] /\ slow_ok (pc p).

Lemma calm_frame c c' hs :
  pend (io c') = pend (io c) -> deaths c' = deaths c -> calm okc c hs -> calm okc c' hs.
Proof.
  intros Hp Hd (A & B & C & D & E). unfold calm, wfc, cpend in *. rewrite Hp, Hd. auto.
Qed.

(* one line: sendline(line, read_back=True) on the proxy *)
Lemma line_exchange l (stg : stage) p hs :
  between p hs -> Forall b64_char l -> l <> [] -> length l <= 76 ->
  any_in (blacklist (pc p)) (l ++ [CR]) = false ->
  wf_pend stg -> cat stg = l ++ [CR; LF] ->
  exists p',
    proxy_io (OSendline false l true None) [stg] p = (VL [VN 0], p') /\
    between p' (map (fun h => h ++ l ++ [CR; LF]) hs) /\
    wr (io (pc p')) = wr (io (pc p)) ++ l ++ [CR] /\
    blacklist (pc p') = blacklist (pc p) /\ alive p' = alive p /\ early p' = early p /\ gdone p' = gdone p /\
    ctx (pc p') = ctx (pc p) /\ prompt (pc p') = prompt (pc p).
Proof.
  intros (Hst & Hcalm & Hpend & Hslow) Hl Hne Hlen Hbl Hw Hcat.
  unfold proxy_io. rewrite Hst. cbn [writes payload]. rewrite Hbl. cbn [negb hd_stage].
  set (c0 := load stg (pc p)).
  assert (L : cpend c0 = l ++ [CR; LF] /\ deaths c0 = deaths (pc p) /\ blacklist c0 = blacklist (pc p) /\
              slow c0 = slow (pc p) /\ wr (io c0) = wr (io (pc p)) /\ ctx c0 = ctx (pc p) /\ prompt c0 = prompt (pc p) /\ wfc c0).
  { unfold c0, load, cpend, wfc. cbn. rewrite Hpend. cbn [app].
    assert (M : map snd (map (fun e : Z * list N => ((now (io (pc p)) + fst e)%Z, snd e)) stg) = map snd stg) by (rewrite map_map; reflexivity).
    split; [unfold cat; rewrite M; exact Hcat|]. repeat (split; [reflexivity|]).
    unfold wf_pend in *. apply Forall_forall. intros e He. apply in_map_iff in He. destruct He as (e0 & <- & Hin).
    cbn. rewrite Forall_forall in Hw. exact (Hw e0 Hin). }
  destruct L as (L1 & L2 & L3 & L4 & L5 & L6 & L7 & L8).
  assert (Hokline : Forall okc (l ++ [CR; LF])).
  { apply Forall_app. split; [eapply Forall_impl; [|exact Hl]; intros a Ha; left; exact Ha|].
    constructor; [right; left; reflexivity | constructor; [right; right; reflexivity | constructor]]. }
  assert (Hcalm0 : calm okc c0 hs).
  { destruct Hcalm as (A & B & C & D & E). unfold calm. rewrite L2. split; [exact L8|]. split; [exact B|]. split; [exact C|].
    split; [rewrite L1; exact Hokline | exact E]. }
  cbn [run_op payload]. unfold sendline, send. rewrite L3, Hbl.
  assert (Hs1 : length (l ++ [CR]) <= SEND_SLICE) by (rewrite app_length; cbn; pose proof slice_ge_77; lia).
  rewrite send_one_slice; [|destruct l; discriminate | exact Hs1].
  destruct (write (l ++ [CR]) false c0) as [r1 c1] eqn:Ew.
  assert (Hslow0 : slow_ok c0) by (unfold slow_ok in *; rewrite L4; exact Hslow).
  destruct (write_complete _ _ _ _ _ Hslow0 Ew) as [(-> & W2 & W3 & _) | (_ & _ & _ & W4)]; [|rewrite L3 in W4; congruence].
  destruct W3 as (P1 & P2 & P3 & P4 & P5 & P6 & P7).
  assert (Hcalm1 : calm okc c1 hs) by (apply (calm_frame c0 c1 hs P1 P3 Hcalm0)).
  assert (Hn : 0 < readback_len (l ++ [CR])) by (rewrite (b64_line_readback l Hl), app_length; cbn; lia).
  assert (Hav : readback_len (l ++ [CR]) <= length (cpend c1)).
  { unfold cpend. rewrite P1. fold (cpend c0). rewrite L1, (b64_line_readback l Hl). lia. }
  destruct (read_n_calm okc (readback_len (l ++ [CR])) c1 hs Hcalm1 Hn Hav) as (d & c2 & Er & Ld & Cd & Scfg & Hcalm2).
  rewrite Er. cbn [V_err V_unit died].
  assert (Hd : d = l ++ [CR; LF] /\ cpend c2 = []).
  { unfold cpend in Cd at 1. rewrite P1 in Cd. fold (cpend c0) in Cd. rewrite L1 in Cd.
    rewrite (b64_line_readback l Hl) in Ld.
    assert (length (cpend c2) = 0) by (apply (f_equal (@length N)) in Cd; rewrite !app_length in Cd; rewrite app_length in Ld; lia).
    destruct (cpend c2); [|discriminate]. rewrite app_nil_r in Cd. auto. }
  destruct Hd as [-> Hc2].
  destruct Scfg as (S1 & S2 & S3 & S4 & S5 & S6).
  eexists. split; [reflexivity|]. cbn [st pc alive early gdone].
  split.
  { split; [reflexivity|]. split; [exact Hcalm2|].
    split; [apply cpend_nil_pend; [destruct Hcalm2 as [A _]; exact A | exact Hc2]|].
    unfold slow_ok in *. cbn [pc]. rewrite S3, P6, L4. exact Hslow. }
  split; [rewrite S6, W2, L5; reflexivity|].
  split; [congruence|]. split; [reflexivity|]. split; [reflexivity|]. split; [reflexivity|].
  split; congruence.
Qed.

(* ---- all lines ---- *)
Fixpoint echoes (lines : list (list N)) : list N :=
  match lines with [] => [] | l :: ls => (l ++ [CR; LF]) ++ echoes ls end.

Fixpoint sent (lines : list (list N)) : list N :=
  match lines with [] => [] | l :: ls => (l ++ [CR]) ++ sent ls end.

Theorem send_lines_exact : forall lines (stgs : list stage) p hs,
  between p hs ->
  Forall (fun l => l <> [] /\ length l <= 76 /\ Forall b64_char l /\ any_in (blacklist (pc p)) (l ++ [CR]) = false) lines ->
  Forall2 (fun l stg => wf_pend stg /\ cat stg = l ++ [CR; LF]) lines stgs ->
  exists p',
    send_lines lines stgs p = (None, p', []) /\
    between p' (map (fun h => h ++ echoes lines) hs) /\
    wr (io (pc p')) = wr (io (pc p)) ++ sent lines /\
    alive p' = alive p /\ early p' = early p /\ gdone p' = gdone p /\
    ctx (pc p') = ctx (pc p) /\ prompt (pc p') = prompt (pc p) /\ blacklist (pc p') = blacklist (pc p).
Proof.
  induction lines as [|l ls IH]; intros stgs p hs Hb Hl Hs.
  - inversion Hs; subst. exists p. cbn [send_lines echoes sent]. rewrite app_nil_r.
    split; [reflexivity|]. split; [|auto 10].
    erewrite map_ext; [rewrite map_id; exact Hb|]. intros h. apply app_nil_r.
  - inversion Hs as [|? stg ? stgs' (Hw & Hc) Hs']; subst. inversion Hl as [|? ? (N1 & N2 & N3 & N4) Hl']; subst.
    destruct (line_exchange l stg p hs Hb N3 N1 N2 N4 Hw Hc) as (p1 & E1 & B1 & W1 & Bl1 & A1 & Ea1 & G1 & C1 & Pr1).
    assert (Hl1 : Forall (fun l0 => l0 <> [] /\ length l0 <= 76 /\ Forall b64_char l0 /\ any_in (blacklist (pc p1)) (l0 ++ [CR]) = false) ls).
    { eapply Forall_impl; [|exact Hl']. cbn. intros a (X1 & X2 & X3 & X4). rewrite Bl1. auto. }
    destruct (IH stgs' p1 _ B1 Hl1 Hs') as (p2 & E2 & B2 & W2 & A2 & Ea2 & G2 & C2 & Pr2 & Bl2).
    exists p2. cbn [send_lines hd_stage tl]. rewrite E1. split; [exact E2|]. split.
    { rewrite map_map in B2. erewrite map_ext; [exact B2|]. intros h. cbn [echoes]. rewrite <- !app_assoc. reflexivity. }
    split; [rewrite W2, W1; cbn [sent]; rewrite <- !app_assoc; reflexivity|].
    repeat split; congruence.
Qed.

(* the data phase of write_bytes for EVERY byte string: the lines sent are, concatenated, the base64 encoding *)
Lemma sent_lines_decode d : Forall is_byte d -> b64dec (sent (b64_lines d)) = d.
Proof.
  intros H. unfold b64dec.
  assert (S : forall ls, sextets (sent ls) = sextets (concat ls)).
  { induction ls as [|l ls IH]; [reflexivity|]. cbn [sent concat]. rewrite !sextets_app, IH.
    unfold sextets at 2. cbn [flat_map]. change (chr2idx CR) with (@None N). cbn [app]. rewrite app_nil_r. reflexivity. }
  rewrite S, b64_lines_concat, sextets_enc by exact H. apply dec_enc_sextets. exact H.
Qed.
