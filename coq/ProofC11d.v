(* ProofC11d.v -- write_bytes as a whole session: for EVERY byte string and EVERY fragmentation of the echoes,
   run(base64 -d - | tee FILE) + the base64 lines + ^D + terminate0 succeeds, what was sent decodes to the data, and the
   machine's channel is back in sync.  Puts together run() (ProofC10c), the data phase (ProofC11c) and terminate()
   (ProofC10). *)
From TV Require Import Base BaseLemmas Utf8 Regex Channel ChannelCorr ChannelLemmas ProofC02 ProofC03 ProofC05 Hush Session
  ProofSession ProofC19 Sh ProofC01 Base64 ProofC11 Proxy PathIO ProofAlien ProofCalm ProofC11c ProofC10 ProofC10c.
From Coq Require Import ZifyBool ZifyN.

(* ---- reading and writing never change which death strings are registered, nor the context stack ---- *)
Definition framed (c c' : chan) : Prop := same_deaths c c' /\ ctx c' = ctx c.

Lemma framed_refl c : framed c c. Proof. split; reflexivity. Qed.
Lemma framed_trans a b c : framed a b -> framed b c -> framed a c.
Proof. intros [A1 A2] [B1 B2]. split; [eapply same_deaths_trans; eauto | congruence]. Qed.

Lemma iter_step_framed start tmo n c r c' : iter_step start tmo n c = (r, c') -> framed c c'.
Proof.
  intros E. split; [exact (iter_step_dmeta _ _ _ _ _ _ E)|].
  unfold iter_step in E. destruct (match _ with Some r0 => (r0 <=? 0)%Z | None => false end); [injection E as _ <-; reflexivity|].
  destruct (io_read _ _ _) as [res io']. destruct res as [new| |]; try (injection E as _ <-; reflexivity).
  destruct (write_stream_frame new (with_io c io')) as (_ & _ & _ & _ & _ & W6).
  destruct (check new (write_stream new (with_io c io'))) as [[[e mt]|] c2] eqn:Ec; destruct (check_frame _ _ _ _ Ec) as (_ & _ & _ & _ & _ & C6);
    injection E as _ <-; rewrite C6, W6; reflexivity.
Qed.

Lemma read_iter_loop_framed fuel : forall start tmo mx got acc c chs r c',
  read_iter_loop fuel start tmo mx got acc c = (chs, r, c') -> framed c c'.
Proof.
  induction fuel as [|f IH]; intros start tmo mx got acc c chs r c' H; [cbn in H; injection H as _ _ <-; apply framed_refl|].
  rewrite read_iter_loop_step in H.
  destruct (iter_step start tmo (maxread_of mx got) c) as [sr c1] eqn:Es. pose proof (iter_step_framed _ _ _ _ _ _ Es) as F1.
  destruct sr as [new| | |e mt]; try (injection H as _ _ <-; exact F1).
  destruct (match mx with Some m0 => Nat.eqb (got + length new) m0 | None => false end).
  - injection H as _ _ <-. exact F1.
  - eapply framed_trans; [exact F1 | eapply IH; exact H].
Qed.

Lemma read_framed n tmo c r c' : (0 <= n)%Z -> read n tmo c = (r, c') -> framed c c'.
Proof.
  intros Hn. unfold read. destruct (n <? 0)%Z eqn:E; [lia|]. unfold read_iter.
  destruct (read_iter_loop _ _ _ _ _ _ _) as [[chs r1] c1] eqn:El. pose proof (read_iter_loop_framed _ _ _ _ _ _ _ _ _ _ El) as F.
  destruct r1; intros [= <- <-]; exact F.
Qed.

Lemma write_loop_framed fuel : forall buf c r c', write_loop fuel buf c = (r, c') -> deaths c' = deaths c /\ ctx c' = ctx c.
Proof.
  induction fuel as [|f IH]; intros buf c r c' H.
  - destruct buf; cbn in H; injection H as _ <-; auto.
  - destruct buf as [|x b]; [cbn in H; injection H as _ <-; auto|].
    rewrite write_loop_cons in H. destruct (slow c) as [[d k]|].
    + destruct (io_write _ _) as [n io']. destruct (IH _ _ _ _ H) as [A B]. cbn in A, B. auto.
    + destruct (io_write _ _) as [n io']. destruct (IH _ _ _ _ H) as [A B]. cbn in A, B. auto.
Qed.

Lemma write_framed buf ign c r c' : write buf ign c = (r, c') -> framed c c'.
Proof.
  unfold write. destruct (negb ign && any_in (blacklist c) buf); [intros [= <- <-]; apply framed_refl|].
  intros H. destruct (write_loop_framed _ _ _ _ _ H) as [A B]. split; [unfold same_deaths; rewrite A; reflexivity | exact B].
Qed.

Lemma send_loop_framed fuel : forall start s rb c r c', send_loop fuel start s rb None c = (r, c') -> framed c c'.
Proof.
  induction fuel as [|f IH]; intros start s rb c r c' H.
  - destruct s; cbn in H; injection H as _ <-; apply framed_refl.
  - destruct s as [|x s0]; [cbn in H; injection H as _ <-; apply framed_refl|].
    cbn [send_loop] in H.
    destruct (write (firstn SEND_SLICE (x :: s0)) false c) as [r1 c1] eqn:Ew. pose proof (write_framed _ _ _ _ _ Ew) as F1.
    destruct r1; try (injection H as _ <-; exact F1).
    destruct rb.
    + destruct (read _ None c1) as [r2 c2] eqn:Er.
      assert (F2 : framed c1 c2) by (eapply read_framed; [|exact Er]; lia).
      destruct r2; try (injection H as _ <-; eapply framed_trans; eauto).
      eapply framed_trans; [exact F1|]. eapply framed_trans; [exact F2|]. eapply IH; exact H.
    + eapply framed_trans; [exact F1|]. eapply IH; exact H.
Qed.

Lemma sendline_framed s rb c r c' : sendline s rb None c = (r, c') -> framed c c'.
Proof.
  unfold sendline, send. destruct (any_in _ _); [intros [= <- <-]; apply framed_refl|]. apply send_loop_framed.
Qed.

Lemma load_framed st c : framed c (load st c).
Proof. split; reflexivity. Qed.

Lemma proxy_sendline_framed l sts p v p' :
  proxy_io (OSendline false l true None) sts p = (v, p') -> framed (pc p) (pc p').
Proof.
  unfold proxy_io. destruct (st p); try (intros [= <- <-]; apply framed_refl).
  cbn [run_op]. set (c0 := if writes _ _ then _ else _).
  assert (F0 : framed (pc p) c0) by (unfold c0; destruct (writes _ _); [apply load_framed | apply framed_refl]).
  destruct (sendline (payload false l) true None c0) as [r c1] eqn:E. pose proof (sendline_framed _ _ _ _ _ E) as F1.
  destruct (died _); intros [= <- <-]; cbn [pc]; eapply framed_trans; eauto.
Qed.

Lemma send_lines_framed : forall lines sts p stop p' sts',
  send_lines lines sts p = (stop, p', sts') -> framed (pc p) (pc p').
Proof.
  induction lines as [|l ls IH]; intros sts p stop p' sts' H; cbn [send_lines] in H; [injection H as _ <- _; apply framed_refl|].
  destruct (proxy_io (OSendline false l true None) [hd_stage sts] p) as [v p1] eqn:E.
  pose proof (proxy_sendline_framed _ _ _ _ _ E) as F1.
  repeat match type of H with (match ?x with _ => _ end) = _ => destruct x end;
    first [ injection H as _ <- _; exact F1 | eapply framed_trans; [exact F1 | eapply IH; exact H] ].
Qed.

(* ------------------------------------------------------------------ the session *)
Lemma two_entries c idt idp P :
  map dmeta (deaths c) = [(idt, SLit TEE_STR, TEE_EXC); (idp, SLit P, CE)] ->
  exists et ep, deaths c = [et; ep] /\ d_id et = idt /\ d_str et = SLit TEE_STR /\ dmeta ep = (idp, SLit P, CE).
Proof.
  intros M. destruct (deaths c) as [|et [|ep [|x r]]]; cbn [map] in M; try discriminate.
  injection M as A B C D E F. exists et, ep. unfold dmeta. repeat split; congruence.
Qed.

Theorem write_bytes_exact cmd data P parent (st_cmd : stage) (st_lines : list stage) (st_eof st_status : stage) :
  insync parent -> prompt parent = Some (SLit P) -> P <> [] -> alien okc P ->
  Forall is_byte data ->
  any_in (blacklist parent) (cmd ++ [CR]) = false ->
  Forall (fun l => any_in (blacklist parent) (l ++ [CR]) = false) (b64_lines data) ->
  any_in (blacklist parent) (ECHO_Q ++ [CR]) = false ->
  (* the console: echo of the command line (tee then waits silently); the echo of every line; on ^D the pipeline ends
     and the shell prompts; the status *)
  wf_pend st_cmd -> cat st_cmd = tty_echo false (cmd ++ [CR]) ->
  Forall2 (fun l stg => wf_pend stg /\ cat stg = l ++ [CR; LF]) (b64_lines data) st_lines ->
  wf_pend st_eof -> cat st_eof = P ->
  wf_pend st_status -> cat st_status = tty_echo false (ECHO_Q ++ [CR]) ++ ([48%N] ++ [CR; LF]) ++ P ->
  prompt_only_at_end P ([48%N] ++ [CR; LF]) ->
  exists c',
    write_bytes_model cmd data (st_cmd, st_lines, st_eof, st_status) parent = (WOk (length data), c') /\
    insync c' /\ prompt c' = prompt parent /\ blacklist c' = blacklist parent /\
    b64dec (ProofC11c.sent (b64_lines data)) = data.
Proof.
  intros Hin Hpr HP Hal Hdata Hbc Hbl Hbq Hwc Hcc Hls Hwe Hce Hws Hcs Hpo.
  (* 1. run() *)
  destruct (run_start_runningp cmd P parent st_cmd [] [] Hin Hpr HP Hbc Hwc ltac:(rewrite app_nil_r; exact Hcc))
    as (p0 & E0 & R0 & W0 & B0).
  unfold write_bytes_model. rewrite E0.
  destruct R0 as (Hst0 & Ha0 & He0 & Hg0 & Hw0 & Hs0 & Hp0 & _ & Hd0 & Hc0 & idp & rs & M0 & X0).
  rewrite Hst0.
  (* 2. with_death_string("tee: ") *)
  set (p1 := with_pc p0 (push_death (SLit TEE_STR) TEE_EXC (pc p0))).
  assert (Hpend0 : pend (io (pc p0)) = []) by (apply cpend_nil_pend; assumption).
  assert (Hb1 : between p1 [[]; []]).
  { unfold between, p1, with_pc. cbn [st pc]. split; [exact Hst0|]. split; [|split; [exact Hpend0 | exact Hs0]].
    unfold calm. split; [exact Hw0|]. split; [apply push_death_inv; [discriminate | exact Hd0]|].
    split; [repeat constructor|]. split; [unfold cpend; cbn; rewrite Hpend0; constructor|].
    unfold push_death. cbn [deaths]. constructor; [exists TEE_STR; split; [reflexivity | exact tee_alien]|].
    destruct (deaths (pc p0)) as [|e0 [|e1 r]] eqn:Ed; cbn in M0; try discriminate.
    unfold dmeta in M0. injection M0 as _ M0 _. constructor; [|constructor]. exists P. auto. }
  assert (Hlines : Forall (fun l => l <> [] /\ length l <= 76 /\ Forall b64_char l /\ any_in (blacklist (pc p1)) (l ++ [CR]) = false) (b64_lines data)).
  { pose proof (b64_lines_wellformed data Hdata) as WF. rewrite Forall_forall in *. intros l Hl.
    destruct (WF l Hl) as (A & B & C). unfold p1, with_pc, push_death. cbn. rewrite B0. auto. }
  (* 3. the data phase *)
  destruct (send_lines_exact (b64_lines data) st_lines p1 [[]; []] Hb1 Hlines Hls)
    as (p2 & E2 & B2 & W2 & A2 & Ea2 & G2 & C2 & Pr2 & Bl2).
  pose proof (send_lines_framed _ _ _ _ _ _ E2) as [SD2 _].
  rewrite E2.
  (* 4. leaving with_death_string: exactly the tee entry goes *)
  set (h := echoes (b64_lines data)).
  assert (M1 : map dmeta (deaths (pc p1)) = [(nextid (pc p0), SLit TEE_STR, TEE_EXC); (idp, SLit P, CE)]).
  { unfold p1, with_pc, push_death. cbn. rewrite M0. reflexivity. }
  assert (M2 : map dmeta (deaths (pc p2)) = [(nextid (pc p0), SLit TEE_STR, TEE_EXC); (idp, SLit P, CE)]) by (rewrite SD2; exact M1).
  destruct (two_entries _ _ _ _ M2) as (et & ep & Ed2 & I1 & I2 & I3).
  assert (X2 : ctx (pc p2) = FDeath (nextid (pc p0)) :: FDeath idp :: rs).
  { rewrite C2. unfold p1, with_pc, push_death. cbn. rewrite X0. reflexivity. }
  set (p4 := with_pc p2 (pop (pc p2))).
  destruct B2 as (Hst2 & (Hw2 & Hd2 & _) & Hpend2 & Hs2).
  assert (Ed4 : deaths (pc p4) = [ep]).
  { unfold p4, with_pc, pop. cbn [pc]. rewrite X2. cbn [exit_frame deaths with_ctx with_deaths]. rewrite Ed2. cbn [remove_id].
    rewrite I1, Nat.eqb_refl. reflexivity. }
  assert (Q1 : alive p1 = true /\ early p1 = false /\ gdone p1 = false) by (unfold p1, with_pc; cbn; auto).
  destruct Q1 as (Q1a & Q1e & Q1g).
  assert (R4 : runningp P p4 ([] ++ h) []).
  { unfold runningp, p4, with_pc. cbn [st alive early gdone pc].
    split; [exact Hst2|]. split; [congruence|]. split; [congruence|]. split; [congruence|].
    assert (Pio : io (pop (pc p2)) = io (pc p2)) by (unfold pop; rewrite X2; reflexivity).
    split; [unfold wfc; rewrite Pio; exact Hw2|].
    split; [unfold slow_ok, pop in *; rewrite X2; cbn; exact Hs2|].
    split; [unfold pop; rewrite X2; cbn; rewrite Pr2; unfold p1, with_pc, push_death; cbn; exact Hp0|].
    split; [exact HP|].
    split.
    { unfold p4, with_pc in Ed4. cbn [pc] in Ed4. rewrite Ed4. rewrite Ed2 in Hd2. cbn [map] in Hd2.
      inversion Hd2 as [|? ? ? ? _ T]; subst. exact T. }
    split; [unfold cpend; rewrite Pio, Hpend2; reflexivity|].
    exists idp, rs. unfold p4, with_pc in Ed4. cbn [pc] in Ed4. rewrite Ed4. cbn [map]. rewrite I3.
    split; [reflexivity|]. unfold pop. rewrite X2. reflexivity. }
  (* 5. ^D *)
  cbn [app] in R4.
  destruct R4 as (Hst4 & Ha4 & He4 & Hg4 & Hw4 & Hs4 & Hp4 & _ & Hd4 & Hc4 & idp' & rs' & M4 & X4).
  assert (Hpend4 : pend (io (pc p4)) = []) by (apply cpend_nil_pend; assumption).
  unfold proxy_io. fold p4. rewrite Hst4. cbn [writes]. change ((64 <=? 68)%N && (68 <=? 95)%N) with true. cbn [hd_stage run_op].
  unfold sendcontrol. change ((64 <=? 68)%N && (68 <=? 95)%N) with true. cbv iota.
  set (c5 := load st_eof (pc p4)).
  assert (S5 : slow_ok c5) by exact Hs4.
  assert (Mm : map snd (map (fun e : Z * list N => ((now (io (pc p4)) + fst e)%Z, snd e)) st_eof) = map snd st_eof) by (rewrite map_map; reflexivity).
  assert (Ep5 : pend (io c5) = map (fun e : Z * list N => ((now (io (pc p4)) + fst e)%Z, snd e)) st_eof).
  { unfold c5, load. cbn [io with_io pend]. rewrite Hpend4. reflexivity. }
  assert (C5 : cpend c5 = P) by (unfold cpend; rewrite Ep5; unfold cat in *; rewrite Mm; exact Hce).
  assert (W5 : wfc c5).
  { unfold wfc. rewrite Ep5. unfold wf_pend in *. rewrite Forall_map. eapply Forall_impl; [|exact Hwe]. intros e He. exact He. }
  destruct (write [(68 - 64)%N] true c5) as [r6 c6] eqn:Ew.
  destruct (write_complete _ _ _ _ _ S5 Ew) as [(-> & Wr6 & Cfg6 & _) | (_ & _ & X & _)]; [|discriminate].
  destruct Cfg6 as (P1 & P2 & P3 & P4 & P5 & P6 & P7).
  cbn [V_err V_unit died].
  (* 6. terminate0 *)
  set (p5 := mkP c6 PRunning (alive p4) (early p4) (gdone p4)).
  assert (Hok5 : proxy_ok P p5).
  { unfold proxy_ok, p5. cbn [pc alive gdone].
    split; [unfold wfc; rewrite P1; exact W5|]. split; [unfold slow_ok in *; rewrite P6; exact S5|].
    split; [rewrite P2; unfold c5, load; cbn; exact Hp4|]. split; [exact HP|]. split; [exact Ha4|]. split; [exact Hg4|].
    exists idp, (d_ring ep), rs. rewrite P3, P7. unfold c5, load. cbn [deaths ctx with_io].
    rewrite Ed4. split; [|unfold p4, with_pc, pop; cbn [pc]; rewrite X2; reflexivity].
    unfold dmeta in I3. injection I3 as J1 J2 J3. destruct ep; cbn in *. congruence. }
  assert (Hc5 : cpend (pc p5) = [] ++ P) by (unfold p5; cbn [pc app]; unfold cpend; rewrite P1; exact C5).
  assert (Hbq5 : any_in (blacklist (pc p5)) (ECHO_Q ++ [CR]) = false).
  { unfold p5. cbn [pc]. rewrite P5. unfold c5, load. cbn [blacklist with_io].
    unfold p4, with_pc, pop. cbn [pc]. rewrite X2. cbn. rewrite Bl2. unfold p1, with_pc, push_death. cbn. rewrite B0. exact Hbq. }
  destruct (terminate_exact true P p5 st_status [] [] [48%N] Hok5 He4 Hc5 (prompt_only_at_end_nil P HP) Hbq5 Hws Hcs
              ltac:(repeat constructor) ltac:(discriminate) Hpo) as (p6 & E6 & T1 & T2 & T3).
  change (dec_val [48%N]) with 0%Z in E6. cbn in E6.
  fold p5.
  match goal with |- context [terminate true ?s p5] => replace (terminate true s p5) with (TOk 0%Z (text []), p6) by (symmetry; exact E6) end.
  eexists. split; [reflexivity|].
  unfold after.
  assert (Hio : pend (io (pc p6)) = []) by (destruct T3 as [_ X]; exact X).
  split.
  { destruct Hin as [(Qw & Qd & Qs) Qp]. destruct T3 as [(Rw & _ & _) Rp]. unfold insync, quiet, wfc, slow_ok in *. cbn. auto. }
  split; [reflexivity|]. split; [reflexivity|]. exact (sent_lines_decode data Hdata).
Qed.

(* for the prompt tbot sets, the side conditions about the prompt are facts *)
From TV Require Import ProofInit.
Lemma tbot_prompt_alien : alien okc TBOT_PROMPT.
Proof.
  exists 32%N. split; [|unfold okc, b64_char, CR, LF; lia].
  apply in_or_app with (l := firstn 22 TBOT_PROMPT) (m := skipn 22 TBOT_PROMPT). right. left. reflexivity.
Qed.

Lemma status0_has_no_prompt : prompt_only_at_end TBOT_PROMPT ([48%N] ++ [CR; LF]).
Proof. apply poe_check. vm_compute. reflexivity. Qed.

Corollary write_bytes_exact_tbot_prompt cmd data parent (st_cmd : stage) (st_lines : list stage) (st_eof st_status : stage) :
  insync parent -> prompt parent = Some (SLit TBOT_PROMPT) ->
  Forall is_byte data ->
  any_in (blacklist parent) (cmd ++ [CR]) = false ->
  Forall (fun l => any_in (blacklist parent) (l ++ [CR]) = false) (b64_lines data) ->
  any_in (blacklist parent) (ECHO_Q ++ [CR]) = false ->
  wf_pend st_cmd -> cat st_cmd = tty_echo false (cmd ++ [CR]) ->
  Forall2 (fun l stg => wf_pend stg /\ cat stg = l ++ [CR; LF]) (b64_lines data) st_lines ->
  wf_pend st_eof -> cat st_eof = TBOT_PROMPT ->
  wf_pend st_status -> cat st_status = tty_echo false (ECHO_Q ++ [CR]) ++ ([48%N] ++ [CR; LF]) ++ TBOT_PROMPT ->
  exists c',
    write_bytes_model cmd data (st_cmd, st_lines, st_eof, st_status) parent = (WOk (length data), c') /\
    insync c' /\ prompt c' = prompt parent /\ blacklist c' = blacklist parent /\
    b64dec (ProofC11c.sent (b64_lines data)) = data.
Proof.
  intros. eapply write_bytes_exact; eauto using tbot_prompt_alien, status0_has_no_prompt. discriminate.
Qed.

(* base64 lines never contain a byte that bash or ash forbid *)
Lemma b64_lines_pass_blacklists d : Forall is_byte d ->
  Forall (fun l => any_in BASH_BLACKLIST (l ++ [CR]) = false /\ any_in ASH_BLACKLIST (l ++ [CR]) = false) (b64_lines d).
Proof.
  intros H. pose proof (b64_lines_wellformed d H) as WF. eapply Forall_impl; [|exact WF]. cbn beta. intros l (_ & _ & C).
  assert (Mm : forall b, ((b < 43 /\ b <> 13) \/ b = 127)%N -> mem_N b (l ++ [CR]) = false).
  { intros b Hb. induction l as [|y l IH]; cbn [app mem_N].
    - unfold CR. destruct (N.eqb_spec b 13); [lia | reflexivity].
    - inversion C as [|? ? Cy Cl]; subst. unfold b64_char in Cy. destruct (N.eqb_spec b y); [lia|]. cbn [orb]. apply IH. exact Cl. }
  assert (G : forall bl, Forall (fun b => ((b < 43 /\ b <> 13) \/ b = 127)%N) bl -> any_in bl (l ++ [CR]) = false).
  { induction bl as [|b bl IH]; intros Hb; [reflexivity|]. inversion Hb; subst. cbn [any_in]. rewrite Mm by assumption. cbn [orb]. apply IH. assumption. }
  split; apply G; unfold BASH_BLACKLIST, ASH_BLACKLIST; rewrite Forall_forall; intros b Hb; cbn [In] in Hb; intuition (subst; lia).
Qed.
