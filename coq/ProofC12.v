(* ProofC12.v -- tbot's Path: the host check is exact at every entry point; results are normal forms
   (re-wrapping a result changes nothing); the delegations are what they claim to be. *)
From TV Require Import Base BaseLemmas PosixPath.
Local Arguments N.eqb : simpl never.
Local Opaque SL DOT.

(* ------------------------------------------------------------------ the host check *)
Lemma prepare_none_iff h args :
  prepare h args = None <-> exists p, In (APath p) args /\ tp_host p <> h.
Proof.
  induction args as [|a args IH]; simpl.
  - split; [discriminate | intros (p & [] & _)].
  - destruct a as [s|p].
    + destruct (prepare h args) as [l|] eqn:E.
      * split; [discriminate|]. intros (q & [Hq|Hq] & Hne); [discriminate|].
        destruct IH as [_ IH2]. assert (X : @None (list (list N)) = None) by reflexivity.
        specialize (IH2 (ex_intro _ q (conj Hq Hne))). discriminate.
      * split; [|reflexivity]. intros _. destruct IH as [IH1 _]. destruct (IH1 eq_refl) as (q & Hq & Hne).
        exists q. auto.
    + destruct (Nat.eqb (tp_host p) h) eqn:Eh.
      * apply Nat.eqb_eq in Eh. destruct (prepare h args) as [l|] eqn:E.
        -- split; [discriminate|]. intros (q & [Hq|Hq] & Hne).
           ++ injection Hq as ->. congruence.
           ++ destruct IH as [_ IH2]. specialize (IH2 (ex_intro _ q (conj Hq Hne))). discriminate.
        -- split; [|reflexivity]. intros _. destruct IH as [IH1 _]. destruct (IH1 eq_refl) as (q & Hq & Hne).
           exists q. auto.
      * apply Nat.eqb_neq in Eh. split; [|reflexivity]. intros _. exists p. auto.
Qed.

Definition foreign (h : nat) (args : list targ) : Prop := exists p, In (APath p) args /\ tp_host p <> h.

(* every entry point that accepts Path arguments raises WrongHostError iff one of them belongs to another host *)
Theorem wrong_host_iff_make h args : t_make h args = TWrongHost <-> foreign h args.
Proof.
  unfold t_make, foreign. rewrite <- prepare_none_iff. destruct (prepare h args); split; congruence.
Qed.

Theorem wrong_host_iff_joinpath p args : t_joinpath p args = TWrongHost <-> foreign (tp_host p) args.
Proof.
  unfold t_joinpath, foreign. rewrite <- prepare_none_iff. destruct (prepare _ args); split; congruence.
Qed.

Theorem wrong_host_iff_relative_to p args : t_relative_to p args = TWrongHost <-> foreign (tp_host p) args.
Proof.
  unfold t_relative_to, foreign. rewrite <- prepare_none_iff. destruct (prepare _ args) as [segs|].
  - destruct (pp_relative_to _ _); split; congruence.
  - split; congruence.
Qed.

Theorem wrong_host_iff_is_relative_to p args : t_is_relative_to p args = TWrongHost <-> foreign (tp_host p) args.
Proof.
  rewrite <- wrong_host_iff_relative_to. unfold t_is_relative_to.
  destruct (t_relative_to p args); split; congruence.
Qed.

Theorem wrong_host_iff_rtruediv p key : t_rtruediv p key = TWrongHost <-> foreign (tp_host p) [key].
Proof.
  unfold t_rtruediv, foreign. rewrite <- prepare_none_iff. destruct (prepare _ [key]); split; congruence.
Qed.

Theorem at_host_spec p h :
  t_at_host p h = (if Nat.eqb (tp_host p) h then TOk (pp_str (tp_pp p)) else TWrongHost).
Proof. reflexivity. Qed.

(* a successful construction / join keeps the host and hands pathlib the unwrapped segments *)
Theorem make_ok h args segs :
  prepare h args = Some segs -> t_make h args = TOk (mkTP h (pp_make segs)).
Proof. intros H. unfold t_make. rewrite H. reflexivity. Qed.

(* ------------------------------------------------------------------ normal forms *)
Definition no_slash (x : list N) : Prop := mem_N SL x = false.
Definition wf_part (x : list N) : Prop := no_slash x /\ keep_part x = true.
Definition wf_pp (p : ppath) : Prop :=
  (pp_root p = [] \/ pp_root p = [SL] \/ pp_root p = [SL; SL]) /\ Forall wf_part (pp_tail p).

Lemma split_aux_noslash x : no_slash x -> forall cur s,
  split_sl_aux cur (x ++ s) = split_sl_aux (rev x ++ cur) s.
Proof.
  induction x as [|c x IH]; intros Hx cur s; simpl; [reflexivity|].
  unfold no_slash in Hx. simpl in Hx. apply orb_false_iff in Hx as [H1 H2].
  rewrite N.eqb_sym in H1. rewrite H1. rewrite IH by exact H2. rewrite <- app_assoc. reflexivity.
Qed.

Lemma split_join t : t <> [] -> Forall no_slash t -> split_sl (join_sl t) = t.
Proof.
  unfold split_sl. induction t as [|x t IH]; intros Hne Hall; [congruence|].
  inversion Hall as [|? ? Hx Ht]; subst. destruct t as [|y r].
  - simpl. rewrite <- (app_nil_r x) at 1. rewrite split_aux_noslash by exact Hx. simpl.
    rewrite app_nil_r, rev_involutive. reflexivity.
  - change (join_sl (x :: y :: r)) with (x ++ SL :: join_sl (y :: r)).
    rewrite split_aux_noslash by exact Hx. simpl. rewrite N.eqb_refl.
    rewrite app_nil_r, rev_involutive. f_equal. apply IH; [discriminate | exact Ht].
Qed.

Lemma filter_keep_id t : Forall wf_part t -> filter keep_part t = t.
Proof.
  induction 1 as [|x t [_ Hk] _ IH]; simpl; [reflexivity|]. rewrite Hk, IH. reflexivity.
Qed.

Lemma wf_first_char x t : wf_part x -> exists c r, join_sl (x :: t) = c :: r /\ N.eqb c SL = false.
Proof.
  intros [Hs Hk]. destruct x as [|c x].
  - unfold keep_part in Hk. simpl in Hk. discriminate.
  - unfold no_slash in Hs. simpl in Hs. apply orb_false_iff in Hs as [H1 _]. rewrite N.eqb_sym in H1.
    destruct t; simpl; eauto.
Qed.

(* Path(host, str(p)) == p for every normal form: re-wrapping a result changes nothing *)
Lemma parse_rel c r : N.eqb c SL = false -> pp_parse (c :: r) = mkPP [] (filter keep_part (split_sl (c :: r))).
Proof. intros H. unfold pp_parse. rewrite H. reflexivity. Qed.

Lemma parse_abs1 c r : N.eqb c SL = false ->
  pp_parse (SL :: c :: r) = mkPP [SL] (filter keep_part (split_sl (c :: r))).
Proof. intros H. unfold pp_parse. rewrite N.eqb_refl, H. reflexivity. Qed.

Lemma parse_abs2 c r : N.eqb c SL = false ->
  pp_parse (SL :: SL :: c :: r) = mkPP [SL; SL] (filter keep_part (split_sl (c :: r))).
Proof. intros H. unfold pp_parse. rewrite !N.eqb_refl, H. reflexivity. Qed.

Theorem parse_str_roundtrip p : wf_pp p -> pp_parse (pp_str p) = p.
Proof.
  destruct p as [root tail]. intros [Hr Ht]. cbn [pp_root pp_tail] in *.
  assert (Hns : Forall no_slash tail) by (eapply Forall_impl; [|exact Ht]; intros a [H _]; exact H).
  destruct tail as [|x t].
  - destruct Hr as [->|[->| ->]]; vm_compute; reflexivity.
  - inversion Ht as [|? ? Hx _]; subst. destruct (wf_first_char x t Hx) as (c & r & E & Hc).
    assert (Hsj : filter keep_part (split_sl (c :: r)) = x :: t).
    { rewrite <- E. rewrite split_join by (try discriminate; exact Hns). apply filter_keep_id; exact Ht. }
    destruct Hr as [->|[->| ->]].
    + change (pp_str (mkPP [] (x :: t))) with (join_sl (x :: t)). rewrite E, parse_rel by exact Hc.
      rewrite Hsj. reflexivity.
    + change (pp_str (mkPP [SL] (x :: t))) with (SL :: join_sl (x :: t)). rewrite E, parse_abs1 by exact Hc.
      rewrite Hsj. reflexivity.
    + change (pp_str (mkPP [SL; SL] (x :: t))) with (SL :: SL :: join_sl (x :: t)). rewrite E, parse_abs2 by exact Hc.
      rewrite Hsj. reflexivity.
Qed.

(* parsing always produces a normal form *)
Lemma split_aux_parts_noslash : forall s cur, no_slash cur -> Forall no_slash (split_sl_aux cur s).
Proof.
  induction s as [|c s IH]; intros cur Hc; simpl.
  - constructor; [|constructor]. unfold no_slash in *. clear - Hc.
    induction cur as [|a cur IHc]; simpl in *; [reflexivity|].
    apply orb_false_iff in Hc as [H1 H2].
    assert (G : forall l x, mem_N x (l ++ [a]) = mem_N x l || N.eqb x a).
    { clear. induction l; intros x; simpl; [rewrite orb_false_r; reflexivity|]. rewrite IHl. rewrite orb_assoc. reflexivity. }
    rewrite G, IHc by exact H2. simpl. exact H1.
  - destruct (N.eqb c SL) eqn:E.
    + constructor; [|apply IH; reflexivity]. unfold no_slash in *. clear - Hc.
      induction cur as [|a cur IHc]; simpl in *; [reflexivity|].
      apply orb_false_iff in Hc as [H1 H2].
      assert (G : forall l x, mem_N x (l ++ [a]) = mem_N x l || N.eqb x a).
      { clear. induction l; intros x; simpl; [rewrite orb_false_r; reflexivity|]. rewrite IHl. rewrite orb_assoc. reflexivity. }
      rewrite G, IHc by exact H2. simpl. exact H1.
    + apply IH. unfold no_slash in *. simpl. rewrite N.eqb_sym, E, Hc. reflexivity.
Qed.

Lemma filter_split_wf s : Forall wf_part (filter keep_part (split_sl s)).
Proof.
  unfold split_sl. pose proof (split_aux_parts_noslash s [] eq_refl) as H.
  induction H as [|x l Hx _ IH]; simpl; [constructor|].
  destruct (keep_part x) eqn:E; [constructor; [split; assumption | exact IH] | exact IH].
Qed.

Theorem parse_is_normal s : wf_pp (pp_parse s).
Proof.
  unfold pp_parse, wf_pp. destruct s as [|c1 r1]; [cbn [pp_root pp_tail]; split; [auto | constructor]|].
  destruct (N.eqb c1 SL); cbn [negb]; cbv iota.
  - destruct r1 as [|c2 r2]; [cbn [pp_root pp_tail]; split; [auto | constructor]|].
    destruct (N.eqb c2 SL).
    + destruct r2 as [|c3 r3]; [cbn [pp_root pp_tail]; split; [auto | apply filter_split_wf]|].
      destruct (N.eqb c3 SL); cbn [pp_root pp_tail]; (split; [auto | apply filter_split_wf]).
    + cbn [pp_root pp_tail]; split; [auto | apply filter_split_wf].
  - cbn [pp_root pp_tail]; split; [auto | apply filter_split_wf].
Qed.

(* hence constructing a Path from the string form of any Path gives the same Path again *)
Corollary renorm_idempotent s : renorm (pp_parse s) = pp_parse s.
Proof. unfold renorm. apply parse_str_roundtrip. apply parse_is_normal. Qed.

Corollary make_is_normal segs : wf_pp (pp_make segs).
Proof. unfold pp_make. destruct segs as [|x [|y r]]; apply parse_is_normal. Qed.

(* ------------------------------------------------------------------ the delegations, spelled out *)
Theorem with_stem_is_with_name p st : t_with_stem p st = t_with_name p (st ++ pp_suffix (tp_pp p)).
Proof. reflexivity. Qed.

Theorem is_relative_to_iff p args :
  t_is_relative_to p args = TOk true <-> exists r, t_relative_to p args = TOk r.
Proof.
  unfold t_is_relative_to. destruct (t_relative_to p args); split; try congruence; try (intros [r H]; congruence); eauto.
Qed.

(* pathlib's own definition of relative_to / parents in terms of the tail, for the record *)
Theorem relative_to_spec p other r :
  pp_relative_to p other = Some r <->
  pp_root p = pp_root other /\ exists rest, pp_tail p = pp_tail other ++ rest /\ r = mkPP [] rest.
Proof.
  unfold pp_relative_to.
  assert (G : forall a b, is_prefix_ll a b = true <-> exists rest, b = a ++ rest).
  { induction a as [|x a IH]; intros b; simpl.
    - split; [intros _; exists b; reflexivity | reflexivity].
    - destruct b as [|y b]; [split; [discriminate | intros [rest H]; discriminate]|].
      rewrite andb_true_iff, list_N_eqb_eq, IH. split.
      + intros [-> [rest ->]]. exists rest. reflexivity.
      + intros [rest H]. injection H as -> ->. split; [reflexivity | exists rest; reflexivity]. }
  destruct (list_N_eqb (pp_root p) (pp_root other)) eqn:Er; simpl.
  - apply list_N_eqb_eq in Er. destruct (is_prefix_ll (pp_tail other) (pp_tail p)) eqn:Ep.
    + apply G in Ep as [rest Hrest]. split.
      * intros [= <-]. split; [exact Er|]. exists rest. split; [exact Hrest|].
        rewrite Hrest, skipn_app_exact. reflexivity.
      * intros (_ & rest' & H1 & ->). f_equal. f_equal. rewrite H1, skipn_app_exact. reflexivity.
    + split; [discriminate|]. intros (_ & rest & H1 & _).
      assert (is_prefix_ll (pp_tail other) (pp_tail p) = true) by (apply G; eauto). congruence.
  - split; [discriminate|]. intros (H & _). rewrite H, list_N_eqb_refl in Er. discriminate.
Qed.

Theorem parents_len_spec p : pp_parents_len p = length (pp_tail p).
Proof. reflexivity. Qed.

Example path_example :
  pp_str (pp_make [[47; 97]; [98; 47; 46; 47; 99; 46; 116; 120; 116]; [46; 46]]%N) =
  [47; 97; 47; 98; 47; 99; 46; 116; 120; 116; 47; 46; 46]%N.   (* /a + b/./c.txt + ..  ->  /a/b/c.txt/.. *)
Proof. vm_compute. reflexivity. Qed.
