(* ProofC13.v -- Machine lifecycle: init once, full reverse unwinding under ANY fault pattern,
   power-off exactly once per attempted power-on. *)
From TV Require Import Base Machine.

(* ------------------------------------------------------------------ bookkeeping of the small steps *)
Definition same_frame (s s' : mstate) : Prop := rc s' = rc s /\ cx s' = cx s.

(* s' extends s by the events evs (oldest first) *)
Definition ext (s s' : mstate) (evs : list event) : Prop := tr s' = rev evs ++ tr s.

Lemma ext_refl s : ext s s [].
Proof. reflexivity. Qed.

Lemma ext_trans s1 s2 s3 a b : ext s1 s2 a -> ext s2 s3 b -> ext s1 s3 (a ++ b).
Proof. unfold ext. intros H1 H2. rewrite H2, H1, rev_app_distr, app_assoc. reflexivity. Qed.

Lemma chk_frame s b s' : chk s = (b, s') -> same_frame s s' /\ ext s s' [] /\ nchk s' = S (nchk s).
Proof. unfold chk. intros [= <- <-]. unfold same_frame, ext; simpl. auto. Qed.

Lemma ev_frame e s : same_frame s (ev e s) /\ ext s (ev e s) [e] /\ nchk (ev e s) = nchk s.
Proof. unfold same_frame, ext, ev; simpl. auto. Qed.

Opaque chk ev.

(* events of leaving / entering a step *)
Definition exit_evs (st : step) : list event :=
  match st with
  | SPlain k => [EEnd k]
  | SPower => [EOff]
  | SConsole k1 k2 => [EEnd k2; EEnd k1]
  end.

Definition enter_evs (st : step) : list event :=
  match st with
  | SPlain k => [EAttempt k; EBegin k]
  | SPower => [ECheck; EOn]
  | SConsole k1 k2 => [EAttempt k1; EBegin k1; EAttempt k2; EBegin k2]
  end.

(* what a FAILED enter leaves in the trace: nothing stays open *)
Inductive failed_enter : step -> list event -> Prop :=
| FPlain k : failed_enter (SPlain k) [EAttempt k]
| FPowerCheck : failed_enter SPower [ECheck]
| FPowerOn : failed_enter SPower [ECheck; EOn; EOff]          (* poweron raised: poweroff still runs *)
| FConsole1 k1 k2 : failed_enter (SConsole k1 k2) [EAttempt k1]
| FConsole2 k1 k2 : failed_enter (SConsole k1 k2) [EAttempt k1; EBegin k1; EAttempt k2; EEnd k1].

Lemma exit_plain_spec k pend s p s' :
  exit_plain k pend s = (p, s') ->
  same_frame s s' /\ ext s s' [EEnd k] /\ (pend <> None -> p <> None).
Proof.
  unfold exit_plain. destruct (chk (ev (EEnd k) s)) as [f s2] eqn:E. intros H; injection H as <- <-.
  destruct (chk_frame _ _ _ E) as ((A1 & A2) & B & _).
  destruct (ev_frame (EEnd k) s) as ((E1 & E2) & E3 & _).
  split; [unfold same_frame in *; split; congruence|].
  split; [apply (ext_trans _ _ _ [EEnd k] [] E3 B)|].
  intros Hp; destruct f; [discriminate | exact Hp].
Qed.

Lemma exit_step_spec st pend s p s' :
  exit_step st pend s = (p, s') ->
  same_frame s s' /\ ext s s' (exit_evs st) /\ (pend <> None -> p <> None).
Proof.
  destruct st as [k| |k1 k2]; simpl.
  - apply exit_plain_spec.
  - destruct (chk (ev EOff s)) as [f s2] eqn:E. intros H; injection H as <- <-.
    destruct (chk_frame _ _ _ E) as ((A1 & A2) & B & _).
    destruct (ev_frame EOff s) as ((E1 & E2) & E3 & _).
    split; [unfold same_frame in *; split; congruence|].
    split; [apply (ext_trans _ _ _ [EOff] [] E3 B)|].
    intros Hp; destruct f; [discriminate | exact Hp].
  - destruct (exit_plain k2 pend s) as [p1 s1] eqn:E1. intros E2.
    destruct (exit_plain_spec _ _ _ _ _ E1) as ((A1 & A2) & B & C).
    destruct (exit_plain_spec _ _ _ _ _ E2) as ((A1' & A2') & B' & C').
    split; [unfold same_frame; split; congruence|].
    split; [apply (ext_trans _ _ _ [EEnd k2] [EEnd k1] B B') | auto].
Qed.

(* ExitStack.__exit__: EVERY entry is left, in LIFO order, exactly once -- whatever raises *)
Lemma unwind_spec : forall stack pend s p s',
  unwind stack pend s = (p, s') ->
  same_frame s s' /\ ext s s' (flat_map exit_evs stack) /\ (pend <> None -> p <> None).
Proof.
  induction stack as [|st rest IH]; intros pend s p s' H; simpl in H.
  - injection H as <- <-. split; [split; reflexivity|]. split; [apply ext_refl | auto].
  - destruct (exit_step st pend s) as [p1 s1] eqn:E.
    destruct (exit_step_spec _ _ _ _ _ E) as ((A1 & A2) & B & C).
    destruct (IH _ _ _ _ H) as ((A1' & A2') & B' & C').
    split; [unfold same_frame; split; congruence|].
    split; [simpl; apply (ext_trans _ _ _ _ _ B B') | auto].
Qed.

Lemma enter_plain_spec k s r s' :
  enter_plain k s = (r, s') ->
  same_frame s s' /\
  match r with
  | None => ext s s' [EAttempt k; EBegin k]
  | Some _ => ext s s' [EAttempt k]
  end.
Proof.
  unfold enter_plain. destruct (chk (ev (EAttempt k) s)) as [f s2] eqn:E.
  destruct (chk_frame _ _ _ E) as ((A1 & A2) & B & _).
  destruct (ev_frame (EAttempt k) s) as ((E1 & E2) & E3 & _).
  pose proof (ext_trans _ _ _ [EAttempt k] [] E3 B) as X.
  destruct f; intros H; injection H as <- <-.
  - split; [unfold same_frame in *; split; congruence | exact X].
  - destruct (ev_frame (EBegin k) s2) as ((F1 & F2) & F3 & _).
    split; [unfold same_frame in *; split; congruence|].
    apply (ext_trans _ _ _ [EAttempt k] [EBegin k] X F3).
Qed.

Lemma enter_step_spec st s r s' :
  enter_step st s = (r, s') ->
  same_frame s s' /\
  match r with
  | None => ext s s' (enter_evs st)
  | Some _ => exists evs, failed_enter st evs /\ ext s s' evs
  end.
Proof.
  destruct st as [k| |k1 k2]; simpl.
  - intros H. destruct (enter_plain_spec _ _ _ _ H) as (A & B). split; [exact A|].
    destruct r; [exists [EAttempt k]; split; [constructor | exact B] | exact B].
  - destruct (chk (ev ECheck s)) as [f s2] eqn:E1.
    destruct (chk_frame _ _ _ E1) as ((A1 & A2) & B1 & _).
    destruct (ev_frame ECheck s) as ((G1 & G2) & G3 & _).
    pose proof (ext_trans _ _ _ [ECheck] [] G3 B1) as X1.
    destruct f.
    + intros H; injection H as <- <-. split; [unfold same_frame in *; split; congruence|].
      exists [ECheck]. split; [constructor | exact X1].
    + destruct (chk (ev EOn s2)) as [f2 s4] eqn:E2.
      destruct (chk_frame _ _ _ E2) as ((A3 & A4) & B2 & _).
      destruct (ev_frame EOn s2) as ((G4 & G5) & G6 & _).
      pose proof (ext_trans _ _ _ [ECheck] [EOn] X1 (ext_trans _ _ _ [EOn] [] G6 B2)) as X2.
      destruct f2.
      * destruct (chk (ev EOff s4)) as [f3 s6] eqn:E3.
        destruct (chk_frame _ _ _ E3) as ((A5 & A6) & B3 & _).
        destruct (ev_frame EOff s4) as ((G7 & G8) & G9 & _).
        intros H; injection H as <- <-. split; [unfold same_frame in *; split; congruence|].
        exists [ECheck; EOn; EOff]. split; [constructor|].
        apply (ext_trans _ _ _ [ECheck; EOn] [EOff] X2 (ext_trans _ _ _ [EOff] [] G9 B3)).
      * intros H; injection H as <- <-. split; [unfold same_frame in *; split; congruence | exact X2].
  - destruct (enter_plain k1 s) as [r1 s1] eqn:E1.
    destruct (enter_plain_spec _ _ _ _ E1) as ((A1 & A2) & B1).
    destruct r1 as [e|].
    + intros H; injection H as <- <-. split; [split; assumption|]. exists [EAttempt k1]. split; [constructor | exact B1].
    + destruct (enter_plain k2 s1) as [r2 s2] eqn:E2.
      destruct (enter_plain_spec _ _ _ _ E2) as ((A3 & A4) & B2).
      destruct r2 as [e|].
      * destruct (exit_plain k1 (Some e) s2) as [p s3] eqn:E3.
        destruct (exit_plain_spec _ _ _ _ _ E3) as ((A5 & A6) & B3 & C3).
        intros H; injection H as <- <-. split; [unfold same_frame; split; congruence|].
        destruct p as [e'|]; [|exfalso; apply C3; congruence].
        exists [EAttempt k1; EBegin k1; EAttempt k2; EEnd k1]. split; [constructor|].
        apply (ext_trans s s2 s3 [EAttempt k1; EBegin k1; EAttempt k2] [EEnd k1]); [|exact B3].
        apply (ext_trans s s1 s2 [EAttempt k1; EBegin k1] [EAttempt k2] B1 B2).
      * intros H; injection H as <- <-. split; [unfold same_frame; split; congruence|].
        apply (ext_trans _ _ _ [EAttempt k1; EBegin k1] [EAttempt k2; EBegin k2] B1 B2).
Qed.

(* the loop of enter_context calls: either all steps were entered in order, or a prefix was, the next
   one failed (leaving nothing open), and the rest was never touched *)
Lemma enter_steps_spec : forall steps s r s',
  enter_steps steps s = (r, s') ->
  rc s' = rc s /\
  match r with
  | None => cx s' = rev steps ++ cx s /\ ext s s' (flat_map enter_evs steps)
  | Some _ => exists pre st post fe,
                steps = pre ++ st :: post /\ cx s' = rev pre ++ cx s /\ failed_enter st fe /\
                ext s s' (flat_map enter_evs pre ++ fe)
  end.
Proof.
  induction steps as [|st rest IH]; intros s r s' H; simpl in H.
  - injection H as <- <-. split; [reflexivity|]. split; [reflexivity | apply ext_refl].
  - destruct (enter_step st s) as [r1 s1] eqn:E.
    destruct (enter_step_spec _ _ _ _ E) as ((A1 & A2) & B).
    destruct r1 as [e|].
    + injection H as <- <-. split; [exact A1|].
      destruct B as (fe & F & X). exists [], st, rest, fe. simpl. auto.
    + destruct (IH _ _ _ H) as (R & C). simpl in R. split; [congruence|].
      destruct r as [e|].
      * destruct C as (pre & st' & post & fe & P1 & P2 & P3 & P4).
        exists (st :: pre), st', post, fe. simpl in *. rewrite P1, P2, A2, <- app_assoc. simpl.
        split; [reflexivity|]. split; [reflexivity|]. split; [exact P3|].
        assert (X : ext s1 (set_cx (st :: cx s) s1) []) by reflexivity.
        rewrite A2 in P4. rewrite <- app_assoc.
        apply (ext_trans _ _ _ _ _ B). exact P4.
      * destruct C as (P2 & P4). simpl in *. rewrite P2, A2, <- app_assoc. simpl.
        split; [reflexivity|]. rewrite A2 in P4. apply (ext_trans _ _ _ _ _ B). exact P4.
Qed.

(* ------------------------------------------------------------------ Machine.__exit__ / __enter__ *)
(* the last exit tears down everything that is on the stack, in reverse order of entering, exactly once,
   whatever raises meanwhile; an error (incoming or raised by a teardown step) propagates *)
Lemma m_exit_last pend s p s' :
  rc s = 1 -> m_exit pend s = (p, s') ->
  rc s' = 0 /\ cx s' = [] /\ ext s s' (flat_map exit_evs (cx s)) /\ (pend <> None -> p <> None).
Proof.
  intros Hrc. unfold m_exit. rewrite Hrc. simpl.
  destruct (unwind (cx s) pend (set_rc 0 s)) as [p1 s2] eqn:E. intros [= <- <-].
  destruct (unwind_spec _ _ _ _ _ E) as ((A1 & A2) & B & C). simpl in *.
  split; [exact A1|]. split; [reflexivity|]. split; [exact B | exact C].
Qed.

(* an inner exit only decrements the counter *)
Lemma m_exit_inner pend s n :
  rc s = S (S n) -> m_exit pend s = (pend, set_rc (S n) s).
Proof. intros Hrc. unfold m_exit. rewrite Hrc. reflexivity. Qed.

(* a nested enter does nothing but count *)
Lemma m_enter_nested steps s n :
  rc s = S n -> m_enter steps s = (None, set_rc (S (S n)) s).
Proof. intros Hrc. unfold m_enter. rewrite Hrc. reflexivity. Qed.

(* the first enter: either the full init sequence in the documented order and the machine is up,
   or a prefix, a failed step, and then every entered step is torn down in reverse order, exactly once,
   the counter is back to 0 and the error propagates *)
Lemma m_enter_first steps s r s' :
  rc s = 0 -> m_enter steps s = (r, s') ->
  match r with
  | None => rc s' = 1 /\ cx s' = rev steps /\ ext s s' (flat_map enter_evs steps ++ [EHook])
  | Some _ =>
      rc s' = 0 /\ cx s' = [] /\
      ((exists pre st post fe, steps = pre ++ st :: post /\ failed_enter st fe /\
          ext s s' (flat_map enter_evs pre ++ fe ++ flat_map exit_evs (rev pre))) \/
       ext s s' (flat_map enter_evs steps ++ [EHook] ++ flat_map exit_evs (rev steps)))
  end.
Proof.
  intros Hrc. unfold m_enter. rewrite Hrc. simpl.
  destruct (enter_steps steps (set_cx [] (set_rc 1 s))) as [r1 s3] eqn:E.
  destruct (enter_steps_spec _ _ _ _ E) as (R & C). simpl in R.
  destruct r1 as [e|].
  - destruct C as (pre & st & post & fe & P1 & P2 & P3 & P4). simpl in P2. rewrite app_nil_r in P2.
    intros H. destruct (m_exit_last _ _ _ _ R H) as (X1 & X2 & X3 & X4).
    destruct r as [e'|]; [|exfalso; apply X4; congruence].
    split; [exact X1|]. split; [exact X2|]. left. exists pre, st, post, fe.
    split; [exact P1|]. split; [exact P3|]. rewrite P2 in X3.
    assert (P4' : ext s s3 (flat_map enter_evs pre ++ fe)) by exact P4.
    pose proof (ext_trans _ _ _ _ _ P4' X3) as Y. rewrite <- app_assoc in Y. exact Y.
  - destruct C as (P2 & P4). simpl in P2. rewrite app_nil_r in P2.
    destruct (chk (ev EHook s3)) as [f s5] eqn:Ec.
    destruct (ev_frame EHook s3) as ((G1 & G2) & G3 & _).
    destruct (chk_frame _ _ _ Ec) as ((A1 & A2) & B & _).
    assert (P4' : ext s s3 (flat_map enter_evs steps)) by exact P4.
    assert (Xh : ext s s5 (flat_map enter_evs steps ++ [EHook])).
    { apply (ext_trans _ _ _ _ _ P4'). apply (ext_trans _ _ _ [EHook] [] G3 B). }
    destruct f.
    + intros H. assert (R5 : rc s5 = 1) by congruence.
      destruct (m_exit_last _ _ _ _ R5 H) as (X1 & X2 & X3 & X4).
      destruct r as [e'|]; [|exfalso; apply X4; congruence].
      split; [exact X1|]. split; [exact X2|]. right.
      rewrite A2, G2, P2 in X3. pose proof (ext_trans _ _ _ _ _ Xh X3) as Y. rewrite <- app_assoc in Y. exact Y.
    + intros H; injection H as <- <-. split; [congruence|]. split; [congruence | exact Xh].
Qed.

(* ------------------------------------------------------------------ whole programs: nothing stays open *)
(* the counting form of "every step that was started is torn down exactly once": for every id k the number
   of completed begins equals the number of ends plus the number of currently entered steps carrying k;
   power-on attempts equal power-offs plus (1 if the power step is currently entered) *)
Fixpoint cnt (p : event -> bool) (l : list event) : nat :=
  match l with [] => 0 | e :: l' => (if p e then 1 else 0) + cnt p l' end.

Lemma cnt_app p a b : cnt p (a ++ b) = cnt p a + cnt p b.
Proof. induction a; simpl; lia. Qed.

Lemma cnt_rev p a : cnt p (rev a) = cnt p a.
Proof. induction a; simpl; auto. rewrite cnt_app; simpl. lia. Qed.

Definition is_begin k e := match e with EBegin j => Nat.eqb j k | _ => false end.
Definition is_end k e := match e with EEnd j => Nat.eqb j k | _ => false end.
Definition is_on e := match e with EOn => true | _ => false end.
Definition is_off e := match e with EOff => true | _ => false end.

Definition opens (k : nat) (stack : list step) : nat := cnt (is_begin k) (flat_map enter_evs stack).
Definition pows (stack : list step) : nat := cnt is_on (flat_map enter_evs stack).

Definition balanced (s : mstate) : Prop :=
  (forall k, cnt (is_begin k) (tr s) = cnt (is_end k) (tr s) + opens k (cx s)) /\
  cnt is_on (tr s) = cnt is_off (tr s) + pows (cx s).

(* per step: entering opens exactly what leaving closes; a failed enter opens nothing *)
Lemma step_balance st k :
  cnt (is_begin k) (enter_evs st) = cnt (is_end k) (exit_evs st) /\
  cnt (is_end k) (enter_evs st) = 0 /\ cnt (is_begin k) (exit_evs st) = 0 /\
  cnt is_on (enter_evs st) = cnt is_off (exit_evs st) /\
  cnt is_off (enter_evs st) = 0 /\ cnt is_on (exit_evs st) = 0.
Proof.
  destruct st as [j| |k1 k2]; simpl; repeat split; auto;
    repeat match goal with |- context [Nat.eqb ?a ?b] => destruct (Nat.eqb a b) end; reflexivity.
Qed.

Lemma failed_balance st fe k : failed_enter st fe ->
  cnt (is_begin k) fe = cnt (is_end k) fe /\ cnt is_on fe = cnt is_off fe.
Proof.
  destruct 1; simpl; split; auto;
    repeat match goal with |- context [Nat.eqb ?a ?b] => destruct (Nat.eqb a b) end; reflexivity.
Qed.

Lemma stack_balance stack k :
  cnt (is_begin k) (flat_map enter_evs stack) = cnt (is_end k) (flat_map exit_evs stack) /\
  cnt (is_end k) (flat_map enter_evs stack) = 0 /\ cnt (is_begin k) (flat_map exit_evs stack) = 0 /\
  cnt is_on (flat_map enter_evs stack) = cnt is_off (flat_map exit_evs stack) /\
  cnt is_off (flat_map enter_evs stack) = 0 /\ cnt is_on (flat_map exit_evs stack) = 0.
Proof.
  induction stack as [|st rest IH]; simpl; [repeat split; reflexivity|].
  rewrite !cnt_app. destruct (step_balance st k) as (A1 & A2 & A3 & A4 & A5 & A6).
  destruct IH as (B1 & B2 & B3 & B4 & B5 & B6). repeat split; lia.
Qed.

Lemma flat_map_rev_cnt {A} (f : A -> list event) p (l : list A) :
  cnt p (flat_map f (rev l)) = cnt p (flat_map f l).
Proof.
  induction l as [|x l IH]; simpl; [reflexivity|].
  rewrite flat_map_app, !cnt_app. simpl. rewrite app_nil_r, IH. lia.
Qed.

(* the state invariant that goes with it *)
Definition minv (steps : list step) (s : mstate) : Prop :=
  (rc s = 0 -> cx s = []) /\ (0 < rc s -> cx s = rev steps) /\ balanced s.

Lemma ext_cnt s s' evs p : ext s s' evs -> cnt p (tr s') = cnt p evs + cnt p (tr s).
Proof. unfold ext. intros ->. rewrite cnt_app, cnt_rev. reflexivity. Qed.

Lemma m_enter_inv steps s r s' :
  minv steps s -> m_enter steps s = (r, s') ->
  minv steps s' /\ rc s' = (match r with None => S (rc s) | Some _ => rc s end).
Proof.
  intros (I0 & I1 & (Ib & Ip)) H. destruct (rc s) as [|n] eqn:Hrc.
  - pose proof (m_enter_first _ _ _ _ Hrc H) as Sp. rewrite (I0 eq_refl) in *.
    destruct r as [e|].
    + destruct Sp as (X1 & X2 & X3). split; [|exact X1].
      split; [intros _; exact X2|]. split; [intros; lia|].
      assert (G : forall p q, (forall st, cnt p (enter_evs st) = cnt q (exit_evs st)) -> True) by auto.
      destruct X3 as [(pre & st & post & fe & P1 & P3 & P4) | P4];
        (split; [intros k|]).
      * rewrite (ext_cnt _ _ _ _ P4), !cnt_app, flat_map_rev_cnt.
        rewrite (ext_cnt _ _ _ (is_end k) P4), !cnt_app, flat_map_rev_cnt.
        destruct (stack_balance pre k) as (B1 & B2 & B3 & _). destruct (failed_balance _ _ k P3) as (F1 & _).
        rewrite X2. unfold opens; simpl. specialize (Ib k). unfold opens in Ib; simpl in Ib. lia.
      * rewrite (ext_cnt _ _ _ _ P4), !cnt_app, flat_map_rev_cnt.
        rewrite (ext_cnt _ _ _ is_off P4), !cnt_app, flat_map_rev_cnt.
        destruct (stack_balance pre 0) as (_ & _ & _ & B4 & B5 & B6). destruct (failed_balance _ _ 0 P3) as (_ & F2).
        rewrite X2. unfold pows in *; simpl in *. lia.
      * rewrite (ext_cnt _ _ _ _ P4), !cnt_app, flat_map_rev_cnt.
        rewrite (ext_cnt _ _ _ (is_end k) P4), !cnt_app, flat_map_rev_cnt.
        destruct (stack_balance steps k) as (B1 & B2 & B3 & _).
        rewrite X2. unfold opens; simpl. specialize (Ib k). unfold opens in Ib; simpl in Ib. lia.
      * rewrite (ext_cnt _ _ _ _ P4), !cnt_app, flat_map_rev_cnt.
        rewrite (ext_cnt _ _ _ is_off P4), !cnt_app, flat_map_rev_cnt.
        destruct (stack_balance steps 0) as (_ & _ & _ & B4 & B5 & B6).
        rewrite X2. unfold pows in *; simpl in *. lia.
    + destruct Sp as (X1 & X2 & X3). split; [|exact X1].
      split; [intros; lia|]. split; [intros _; exact X2|].
      split; [intros k|].
      * rewrite (ext_cnt _ _ _ _ X3), (ext_cnt _ _ _ (is_end k) X3), !cnt_app.
        destruct (stack_balance steps k) as (B1 & B2 & B3 & _).
        rewrite X2. unfold opens. rewrite flat_map_rev_cnt. simpl.
        specialize (Ib k). unfold opens in Ib; simpl in Ib. lia.
      * rewrite (ext_cnt _ _ _ _ X3), (ext_cnt _ _ _ is_off X3), !cnt_app.
        destruct (stack_balance steps 0) as (_ & _ & _ & B4 & B5 & B6).
        rewrite X2. unfold pows in *. rewrite flat_map_rev_cnt. simpl in *. lia.
  - rewrite (m_enter_nested steps s n Hrc) in H. injection H as <- <-. simpl.
    split; [|reflexivity]. split; [intros; discriminate|]. split; [intros _; apply I1; lia|].
    split; [exact Ib | exact Ip].
Qed.

Lemma m_exit_inv steps pend s p s' :
  minv steps s -> 0 < rc s -> m_exit pend s = (p, s') ->
  minv steps s' /\ rc s' = Nat.pred (rc s) /\ (pend <> None -> p <> None).
Proof.
  intros (I0 & I1 & (Ib & Ip)) Hpos H. destruct (rc s) as [|[|n]] eqn:Hrc; [lia| |].
  - destruct (m_exit_last _ _ _ _ Hrc H) as (X1 & X2 & X3 & X4).
    split; [|split; [exact X1 | exact X4]].
    split; [intros _; exact X2|]. split; [intros; lia|].
    split; [intros k|].
    + rewrite (ext_cnt _ _ _ _ X3), (ext_cnt _ _ _ (is_end k) X3).
      destruct (stack_balance (cx s) k) as (B1 & B2 & B3 & _).
      rewrite X2. unfold opens in *. simpl. specialize (Ib k). lia.
    + rewrite (ext_cnt _ _ _ _ X3), (ext_cnt _ _ _ is_off X3).
      destruct (stack_balance (cx s) 0) as (_ & _ & _ & B4 & B5 & B6).
      rewrite X2. unfold pows in *. simpl. lia.
  - rewrite (m_exit_inner pend s n Hrc) in H. injection H as <- <-. simpl.
    split; [|auto]. split; [intros; discriminate|]. split; [intros _; apply I1; lia|].
    split; [exact Ib | exact Ip].
Qed.

Lemma body_inv steps n s :
  minv steps s ->
  let s1 := ev (EBody n) s in
  forall f s2, chk s1 = (f, s2) -> minv steps s2 /\ rc s2 = rc s.
Proof.
  intros (I0 & I1 & (Ib & Ip)) s1 f s2 E.
  destruct (chk_frame _ _ _ E) as ((A1 & A2) & B & _). unfold ext in B. simpl in *.
  split; [|exact A1]. unfold minv, balanced. rewrite A1, A2, B. simpl.
  split; [exact I0|]. split; [exact I1|]. split; [exact Ib | exact Ip].
Qed.

(* every program, every composition, EVERY fault pattern: the re-entrancy counter is restored and the
   begin/end and power-on/power-off books are balanced *)
Theorem run_inv steps : forall p s r s',
  minv steps s -> run steps p s = (r, s') -> minv steps s' /\ rc s' = rc s.
Proof.
  induction p as [|n|a IHa b IHb|body IH|body IH]; intros s r s' Hi H; simpl in H.
  - injection H as <- <-. auto.
  - destruct (chk (ev (EBody n) s)) as [f s2] eqn:E. injection H as <- <-.
    apply (body_inv steps n s Hi f s2 E).
  - destruct (run steps a s) as [ra sa] eqn:Ea. destruct (IHa _ _ _ Hi Ea) as (Ia & Ra).
    destruct ra as [e|].
    + injection H as <- <-. auto.
    + destruct (IHb _ _ _ Ia H) as (Ib & Rb). split; [exact Ib | congruence].
  - destruct (m_enter steps s) as [re se] eqn:Ee. destruct (m_enter_inv _ _ _ _ Hi Ee) as (Ie & Re).
    destruct re as [e|].
    + injection H as <- <-. auto.
    + destruct (run steps body se) as [rb sb] eqn:Eb. destruct (IH _ _ _ Ie Eb) as (Ib & Rb).
      assert (Hpos : 0 < rc sb) by lia.
      destruct (m_exit_inv _ _ _ _ _ Ib Hpos H) as (Ix & Rx & _). split; [exact Ix | lia].
  - destruct (run steps body s) as [rb sb] eqn:Eb. injection H as <- <-. eapply IH; eauto.
Qed.

Lemma minv0 steps fl : minv steps (m0 fl).
Proof. unfold minv, m0, balanced, opens, pows; simpl. repeat split; auto; intros; lia. Qed.

(* the headline: a complete program leaves nothing open and nothing powered *)
Theorem nothing_left_open steps p fl r s' :
  run steps p (m0 fl) = (r, s') ->
  rc s' = 0 /\ cx s' = [] /\
  (forall k, cnt (is_begin k) (tr s') = cnt (is_end k) (tr s')) /\
  cnt is_on (tr s') = cnt is_off (tr s').
Proof.
  intros H. destruct (run_inv steps p _ _ _ (minv0 steps fl) H) as ((I0 & I1 & (Ib & Ip)) & R).
  simpl in R. rewrite (I0 R) in *. unfold opens, pows in *. simpl in *.
  split; [exact R|]. split; [reflexivity|]. split; [intros k; rewrite Ib; lia | lia].
Qed.

(* power-off sits exactly where the property wants it: PowerControl is an initialiser, so in the reverse
   unwinding it comes after every later-started step and before the connector *)
Lemma poweroff_position pre post :
  flat_map exit_evs (rev (pre ++ SPower :: post)) =
  flat_map exit_evs (rev post) ++ [EOff] ++ flat_map exit_evs (rev pre).
Proof. rewrite rev_app_distr. simpl. rewrite <- app_assoc, !flat_map_app. simpl. reflexivity. Qed.

Example machine_example :
  machine_model ([SPlain 1; SConsole 11 12; SPower; SPlain 20], PWith (PBody 0),
                 [false; false; false; false; false; false; true]) =
  VL [VL [VL [VN 1; VN 1]; VL [VN 2; VN 1]; VL [VN 1; VN 11]; VL [VN 2; VN 11]; VL [VN 1; VN 12]; VL [VN 2; VN 12];
          VL [VN 4]; VL [VN 5]; VL [VN 1; VN 20]; VL [VN 2; VN 20]; VL [VN 7];
          VL [VN 3; VN 20]; VL [VN 6]; VL [VN 3; VN 12]; VL [VN 3; VN 11]; VL [VN 3; VN 1]];
      VL [VN 6]; VN 0]%Z.
Proof. vm_compute. reflexivity. Qed.
