(* ProofC14.v -- the context's view of what is alive is the truth, in every reachable state, under every
   fault pattern: hence never two live instances, a handed-over instance is live, and under keep_alive
   nothing survives the outermost exit. *)
From TV Require Import Base Context.

(* which instance of class c is live according to the TRACE (newest event first) *)
Fixpoint live_nf (tr : list cevent) (c : nat) : option nat :=
  match tr with
  | [] => None
  | CInit c' i :: rest => if Nat.eqb c' c then Some i else live_nf rest c
  | CTeardown c' i :: rest => if Nat.eqb c' c then None else live_nf rest c
  | _ :: rest => live_nf rest c
  end.

(* ---- plumbing ---- *)
Lemma set_nth_length {A} k (x : A) l : length (set_nth k x l) = length l.
Proof. revert k; induction l as [|y l IH]; intros [|k]; simpl; auto. Qed.

Lemma nth_set_nth_same {A} k (x d : A) l : k < length l -> nth k (set_nth k x l) d = x.
Proof. revert k; induction l as [|y l IH]; intros [|k] H; simpl in *; try lia; auto. apply IH; lia. Qed.

Lemma nth_set_nth_other {A} k m (x d : A) l : k <> m -> nth m (set_nth k x l) d = nth m l d.
Proof. revert k m; induction l as [|y l IH]; intros [|k] [|m] H; simpl; auto; congruence. Qed.

Lemma getm_setm_same s c m : c < length (mgrs s) -> getm (setm s c m) c = m.
Proof. intros H. unfold getm, setm; simpl. apply nth_set_nth_same; exact H. Qed.

Lemma getm_setm_other s c c' m : c <> c' -> getm (setm s c m) c' = getm s c'.
Proof. intros H. unfold getm, setm; simpl. apply nth_set_nth_other; exact H. Qed.

Section Inv.
Variable tb : ctable.
Variable n : nat.                                   (* number of classes *)
Hypothesis deps_ok : forall c dc de, dep_of tb c = Some (dc, de) -> dc < c.

Definition truth (s : cstate) : Prop :=
  length (mgrs s) = n /\
  (forall c, c < n -> live_nf (ctr s) c = m_inst (getm s c)) /\
  (forall c, c < n -> alive s c = true -> In c (order s)) /\
  (forall c h, c < n -> m_hold (getm s c) = Some h -> h_dep h < c).

(* s' has no live class that s did not have; order and configuration unchanged *)
Definition shrinks (s s' : cstate) : Prop :=
  order s' = order s /\ ka s' = ka s /\ roe_def s' = roe_def s /\ opn s' = opn s /\
  (forall c, alive s' c = true -> alive s c = true).

Lemma shrinks_refl s : shrinks s s.
Proof. unfold shrinks; repeat split; auto. Qed.

Lemma shrinks_trans a b c : shrinks a b -> shrinks b c -> shrinks a c.
Proof. unfold shrinks. intros (A2&A3&A4&A5&A6) (B2&B3&B4&B5&B6). repeat split; try congruence. auto. Qed.

(* managers of classes above c are untouched *)
Definition upper_same (c : nat) (s s' : cstate) : Prop := forall c', c < c' -> getm s' c' = getm s c'.

Lemma upper_same_refl c s : upper_same c s s.
Proof. intros c' _. reflexivity. Qed.

Lemma upper_same_trans c a b d : upper_same c a b -> upper_same c b d -> upper_same c a d.
Proof. intros H1 H2 c' Hc. rewrite H2, H1; auto. Qed.

Lemma upper_same_weaken c c0 a b : c0 <= c -> upper_same c0 a b -> upper_same c a b.
Proof. intros Hle H c' Hc. apply H. lia. Qed.

(* updating a manager without touching its instance / hold *)
Lemma truth_setm_keep s c m :
  truth s -> c < n -> m_inst m = m_inst (getm s c) -> m_hold m = m_hold (getm s c) ->
  truth (setm s c m) /\ shrinks s (setm s c m) /\ (forall c', alive (setm s c m) c' = alive s c') /\
  upper_same c s (setm s c m).
Proof.
  intros (TL & T1 & T3 & T4) Hc Hi Hh.
  assert (Hc' : c < length (mgrs s)) by (rewrite TL; exact Hc).
  assert (Ha : forall c', alive (setm s c m) c' = alive s c').
  { intros c'. unfold alive. destruct (Nat.eq_dec c c') as [->|Hne].
    - rewrite getm_setm_same by exact Hc'. rewrite Hi. reflexivity.
    - rewrite getm_setm_other by exact Hne. reflexivity. }
  split; [|split; [|split; [exact Ha|]]].
  3:{ intros c' Hlt. apply getm_setm_other. lia. }
  - unfold truth. split; [simpl; rewrite set_nth_length; exact TL|]. split; [|split].
    + intros c' Hc2. simpl. destruct (Nat.eq_dec c c') as [->|Hne].
      * rewrite getm_setm_same by exact Hc'. rewrite Hi. apply T1; exact Hc2.
      * rewrite getm_setm_other by exact Hne. apply T1; exact Hc2.
    + intros c' Hc2 Hal. simpl. rewrite Ha in Hal. apply T3; assumption.
    + intros c' h Hc2 Hm. destruct (Nat.eq_dec c c') as [->|Hne].
      * rewrite getm_setm_same in Hm by exact Hc'. rewrite Hh in Hm. eapply T4; eauto.
      * rewrite getm_setm_other in Hm by exact Hne. eapply T4; eauto.
  - unfold shrinks; simpl. repeat split; auto. intros c' H. rewrite Ha in H. exact H.
Qed.

(* the machine-teardown step of InstanceManager.teardown: event, check point, _instance = None *)
Lemma truth_kill s c i f s2 :
  truth s -> c < n -> m_inst (getm s c) = Some i ->
  cchk (cev (CTeardown c i) s) = (f, s2) ->
  let s3 := setm s2 c (mkMgr None (m_users (getm s2 c)) (m_avail (getm s2 c)) None) in
  truth s3 /\ shrinks s s3 /\ alive s3 c = false /\ upper_same c s s3.
Proof.
  intros (TL & T1 & T3 & T4) Hc Ei Ec s3.
  assert (E2 : mgrs s2 = mgrs s /\ order s2 = order s /\ ka s2 = ka s /\ roe_def s2 = roe_def s /\
               opn s2 = opn s /\ ctr s2 = CTeardown c i :: ctr s).
  { unfold cchk, cev in Ec. injection Ec as _ <-. simpl. auto 10. }
  destruct E2 as (M2 & O2 & K2 & R2 & P2 & T2).
  assert (Hc2 : c < length (mgrs s2)) by (rewrite M2, TL; exact Hc).
  assert (G : forall c', c <> c' -> getm s3 c' = getm s c').
  { intros c' Hne. unfold s3. rewrite getm_setm_other by exact Hne. unfold getm. rewrite M2. reflexivity. }
  assert (A3 : alive s3 c = false).
  { unfold alive, s3. rewrite getm_setm_same by exact Hc2. reflexivity. }
  split; [|split; [|split; [exact A3|]]].
  3:{ intros c' Hlt. apply G. lia. }
  - unfold truth. split; [unfold s3; simpl; rewrite set_nth_length, M2; exact TL|]. split; [|split].
    + intros c' Hc'. unfold s3 at 1. simpl. rewrite T2. simpl.
      destruct (Nat.eqb c c') eqn:Eq.
      * apply Nat.eqb_eq in Eq; subst c'. unfold s3. rewrite getm_setm_same by exact Hc2. reflexivity.
      * apply Nat.eqb_neq in Eq. rewrite G by exact Eq. apply T1; exact Hc'.
    + intros c' Hc' Ha. unfold s3 at 1. simpl. rewrite O2.
      destruct (Nat.eq_dec c c') as [->|Hne]; [congruence|].
      unfold alive in Ha. rewrite G in Ha by exact Hne. apply T3; assumption.
    + intros c' h Hc' Hm. destruct (Nat.eq_dec c c') as [->|Hne].
      * unfold s3 in Hm. rewrite getm_setm_same in Hm by exact Hc2. discriminate.
      * rewrite G in Hm by exact Hne. eapply T4; eauto.
  - unfold shrinks, s3; simpl. rewrite O2, K2, R2, P2. repeat split; auto. intros c' Ha.
    destruct (Nat.eq_dec c c') as [->|Hne]; [fold s3 in Ha; congruence|].
    fold s3 in Ha. unfold alive in *. rewrite G in Ha by exact Hne. exact Ha.
Qed.

(* ---- teardown / leave: mutual induction on the depth bound ---- *)
Lemma teardown_leave_inv : forall d,
  (forall c s r s', teardown d c s = (r, s') -> truth s -> c < n ->
     truth s' /\ shrinks s s' /\ upper_same c s s' /\
     (alive s c = true -> r <> Some XFuel -> alive s' c = false)) /\
  (forall e pend s r s', leave d e pend s = (r, s') -> truth s -> e_cls e < n ->
     truth s' /\ shrinks s s' /\ upper_same (e_cls e) s s').
Proof.
  induction d as [|d [IHt IHl]].
  { split.
    - intros c s r s' H. simpl in H. injection H as <- <-. intros T _. split; [exact T|]. split; [apply shrinks_refl|].
      split; [apply upper_same_refl | congruence].
    - intros e pend s r s' H. simpl in H. injection H as <- <-. intros T _. split; [exact T|].
      split; [apply shrinks_refl | apply upper_same_refl]. }
  split.
  - (* teardown *)
    intros c s r s' H T Hc. cbn [teardown] in H.
    destruct (m_inst (getm s c)) as [i|] eqn:Ei.
    2:{ injection H as <- <-. split; [exact T|]. split; [apply shrinks_refl|]. split; [apply upper_same_refl|].
        intros Ha. unfold alive in Ha. rewrite Ei in Ha. discriminate. }
    destruct (cchk (cev (CTeardown c i) s)) as [f s2] eqn:Ec.
    destruct (truth_kill s c i f s2 T Hc Ei Ec) as (T3 & S3 & A3 & U3).
    set (s3 := setm s2 c (mkMgr None (m_users (getm s2 c)) (m_avail (getm s2 c)) None)) in *.
    destruct (m_hold (getm s c)) as [h|] eqn:Eh.
    + assert (Hd : h_dep h < c) by (destruct T as (_ & _ & _ & T4); eapply T4; eauto).
      assert (Hd' : h_dep h < n) by lia.
      destruct (IHl _ _ _ _ _ H T3 Hd') as (T' & S' & U').
      split; [exact T'|]. split; [eapply shrinks_trans; eauto|].
      split. { eapply upper_same_trans; [exact U3|]. eapply upper_same_weaken; [|exact U']. simpl. lia. }
      intros _ _. destruct (alive s' c) eqn:Ea; [|reflexivity].
      destruct S' as (_ & _ & _ & _ & S6). rewrite (S6 c Ea) in A3. discriminate.
    + injection H as <- <-. split; [exact T3|]. split; [exact S3|]. split; [exact U3|]. intros _ _. exact A3.
  - (* leave *)
    intros e pend s r s' H T Hc. cbn [leave] in H.
    set (c := e_cls e) in *.
    (* the except clause *)
    set (step1 := match pend with
                  | Some x =>
                      if e_roe e && negb (match x with XSkip => true | _ => false end) && alive s c then
                        match teardown d c s with
                        | (Some x', s'0) => (Some x', s'0)
                        | (None, s'0) => (pend, s'0)
                        end
                      else (pend, s)
                  | None => (None, s)
                  end) in *.
    assert (H1 : truth (snd step1) /\ shrinks s (snd step1) /\ upper_same c s (snd step1)).
    { unfold step1. destruct pend as [x|]; [|simpl; split; [exact T | split; [apply shrinks_refl | apply upper_same_refl]]].
      destruct (e_roe e && negb _ && alive s c); [|simpl; split; [exact T | split; [apply shrinks_refl | apply upper_same_refl]]].
      destruct (teardown d c s) as [r1 s1] eqn:Et.
      destruct (IHt _ _ _ _ Et T Hc) as (A & B & C & _). destruct r1; simpl; auto. }
    destruct step1 as [pend1 s1]. simpl in H1. destruct H1 as (T1 & S1 & U1).
    set (m := getm s1 c) in *.
    set (s2 := setm s1 c (mkMgr (m_inst m) (Nat.pred (m_users m)) (m_avail m) (m_hold m))) in *.
    destruct (truth_setm_keep s1 c (mkMgr (m_inst m) (Nat.pred (m_users m)) (m_avail m) (m_hold m)) T1 Hc eq_refl eq_refl)
      as (T2 & S2 & _ & U2). fold s2 in T2, S2, U2.
    destruct ((e_excl e || negb (e_ka e) && Nat.eqb (Nat.pred (m_users m)) 0) && alive s2 c).
    + destruct (teardown d c s2) as [r3 s3] eqn:Et.
      destruct (IHt _ _ _ _ Et T2 Hc) as (T3 & S3 & U3 & _).
      assert (E : s' = s3) by (destruct r3; injection H as _ <-; reflexivity). subst s'.
      split; [exact T3|]. split; [eapply shrinks_trans; [exact S1|]; eapply shrinks_trans; eauto|].
      eapply upper_same_trans; [exact U1|]. eapply upper_same_trans; eauto.
    + injection H as _ <-. split; [exact T2|]. split; [eapply shrinks_trans; eauto|].
      eapply upper_same_trans; eauto.
Qed.

Lemma teardown_inv d c s r s' :
  teardown d c s = (r, s') -> truth s -> c < n ->
  truth s' /\ shrinks s s' /\ upper_same c s s' /\
  (alive s c = true -> r <> Some XFuel -> alive s' c = false).
Proof. apply (proj1 (teardown_leave_inv d)). Qed.

Lemma leave_inv d e pend s r s' :
  leave d e pend s = (r, s') -> truth s -> e_cls e < n ->
  truth s' /\ shrinks s s' /\ upper_same (e_cls e) s s'.
Proof. apply (proj2 (teardown_leave_inv d)). Qed.
End Inv.
