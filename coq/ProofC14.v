(* ProofC14.v -- the context's view of what is alive is the truth, in every reachable state, under every
   fault pattern: hence never two live instances, a handed-over instance is live, and under keep_alive
   nothing survives the outermost exit. *)
From TV Require Import Base Context.

(* which instance of class c is live according to the TRACE (newest event first) *)
Fixpoint live_nf (tr : list cevent) (c : nat) : option nat :=
  match tr with
  | [] => None
  | CInit c' i :: rest => if Nat.eqb c' c then Some i else live_nf rest c
  | CTeardown c' i :: rest => if Nat.eqb c' c then None else live_nf rest c
  | _ :: rest => live_nf rest c
  end.

(* the trace is well formed: an Init only when nothing of that class is live, a Teardown / a hand-over
   only of the instance that is live at that moment *)
Fixpoint wf_tr (tr : list cevent) : Prop :=
  match tr with
  | [] => True
  | CInit c i :: rest => live_nf rest c = None /\ wf_tr rest
  | CTeardown c i :: rest => live_nf rest c = Some i /\ wf_tr rest
  | CYield c i :: rest => live_nf rest c = Some i /\ wf_tr rest
  | _ :: rest => wf_tr rest
  end.

(* ---- plumbing ---- *)
Lemma set_nth_length {A} k (x : A) l : length (set_nth k x l) = length l.
Proof. revert k; induction l as [|y l IH]; intros [|k]; simpl; auto. Qed.

Lemma nth_set_nth_same {A} k (x d : A) l : k < length l -> nth k (set_nth k x l) d = x.
Proof. revert k; induction l as [|y l IH]; intros [|k] H; simpl in *; try lia; auto. apply IH; lia. Qed.

Lemma nth_set_nth_other {A} k m (x d : A) l : k <> m -> nth m (set_nth k x l) d = nth m l d.
Proof. revert k m; induction l as [|y l IH]; intros [|k] [|m] H; simpl; auto; congruence. Qed.

Lemma getm_setm_same s c m : c < length (mgrs s) -> getm (setm s c m) c = m.
Proof. intros H. unfold getm, setm; simpl. apply nth_set_nth_same; exact H. Qed.

Lemma getm_setm_other s c c' m : c <> c' -> getm (setm s c m) c' = getm s c'.
Proof. intros H. unfold getm, setm; simpl. apply nth_set_nth_other; exact H. Qed.

Section Inv.
Variable tb : ctable.
Variable n : nat.                                   (* number of classes *)
Hypothesis deps_ok : forall c dc de, dep_of tb c = Some (dc, de) -> dc < c.

Definition truth (s : cstate) : Prop :=
  length (mgrs s) = n /\
  (forall c, c < n -> live_nf (ctr s) c = m_inst (getm s c)) /\
  (forall c, c < n -> alive s c = true -> In c (order s)) /\
  (forall c h, c < n -> m_hold (getm s c) = Some h -> h_dep h < c) /\
  wf_tr (ctr s) /\
  (forall c, In c (order s) -> c < n).

(* s' has no live class that s did not have; order and configuration unchanged *)
Definition shrinks (s s' : cstate) : Prop :=
  order s' = order s /\ ka s' = ka s /\ roe_def s' = roe_def s /\ opn s' = opn s /\
  (forall c, alive s' c = true -> alive s c = true).

Lemma shrinks_refl s : shrinks s s.
Proof. unfold shrinks; repeat split; auto. Qed.

Lemma shrinks_trans a b c : shrinks a b -> shrinks b c -> shrinks a c.
Proof. unfold shrinks. intros (A2&A3&A4&A5&A6) (B2&B3&B4&B5&B6). repeat split; try congruence. auto. Qed.

(* managers of classes above c are untouched *)
Definition upper_same (c : nat) (s s' : cstate) : Prop := forall c', c < c' -> getm s' c' = getm s c'.

Lemma upper_same_refl c s : upper_same c s s.
Proof. intros c' _. reflexivity. Qed.

Lemma upper_same_trans c a b d : upper_same c a b -> upper_same c b d -> upper_same c a d.
Proof. intros H1 H2 c' Hc. rewrite H2, H1; auto. Qed.

Lemma upper_same_weaken c c0 a b : c0 <= c -> upper_same c0 a b -> upper_same c a b.
Proof. intros Hle H c' Hc. apply H. lia. Qed.

(* updating a manager without touching its instance / hold *)
Lemma truth_setm_keep s c m :
  truth s -> c < n -> m_inst m = m_inst (getm s c) -> m_hold m = m_hold (getm s c) ->
  truth (setm s c m) /\ shrinks s (setm s c m) /\ (forall c', alive (setm s c m) c' = alive s c') /\
  upper_same c s (setm s c m).
Proof.
  intros (TL & T1 & T3 & T4 & T5 & T6) Hc Hi Hh.
  assert (Hc' : c < length (mgrs s)) by (rewrite TL; exact Hc).
  assert (Ha : forall c', alive (setm s c m) c' = alive s c').
  { intros c'. unfold alive. destruct (Nat.eq_dec c c') as [->|Hne].
    - rewrite getm_setm_same by exact Hc'. rewrite Hi. reflexivity.
    - rewrite getm_setm_other by exact Hne. reflexivity. }
  split; [|split; [|split; [exact Ha|]]].
  3:{ intros c' Hlt. apply getm_setm_other. lia. }
  - unfold truth. split; [simpl; rewrite set_nth_length; exact TL|]. split; [|split; [|split; [|split; [exact T5 | exact T6]]]].
    + intros c' Hc2. simpl. destruct (Nat.eq_dec c c') as [->|Hne].
      * rewrite getm_setm_same by exact Hc'. rewrite Hi. apply T1; exact Hc2.
      * rewrite getm_setm_other by exact Hne. apply T1; exact Hc2.
    + intros c' Hc2 Hal. simpl. rewrite Ha in Hal. apply T3; assumption.
    + intros c' h Hc2 Hm. destruct (Nat.eq_dec c c') as [->|Hne].
      * rewrite getm_setm_same in Hm by exact Hc'. rewrite Hh in Hm. eapply T4; eauto.
      * rewrite getm_setm_other in Hm by exact Hne. eapply T4; eauto.
  - unfold shrinks; simpl. repeat split; auto. intros c' H. rewrite Ha in H. exact H.
Qed.

(* the machine-teardown step of InstanceManager.teardown: event, check point, _instance = None *)
Lemma truth_kill s c i f s2 :
  truth s -> c < n -> m_inst (getm s c) = Some i ->
  cchk (cev (CTeardown c i) s) = (f, s2) ->
  let s3 := setm s2 c (mkMgr None (m_users (getm s2 c)) (m_avail (getm s2 c)) None) in
  truth s3 /\ shrinks s s3 /\ alive s3 c = false /\ upper_same c s s3.
Proof.
  intros (TL & T1 & T3 & T4 & T5 & T6) Hc Ei Ec s3.
  assert (E2 : mgrs s2 = mgrs s /\ order s2 = order s /\ ka s2 = ka s /\ roe_def s2 = roe_def s /\
               opn s2 = opn s /\ ctr s2 = CTeardown c i :: ctr s).
  { unfold cchk, cev in Ec. injection Ec as _ <-. simpl. auto 10. }
  destruct E2 as (M2 & O2 & K2 & R2 & P2 & T2).
  assert (Hc2 : c < length (mgrs s2)) by (rewrite M2, TL; exact Hc).
  assert (G : forall c', c <> c' -> getm s3 c' = getm s c').
  { intros c' Hne. unfold s3. rewrite getm_setm_other by exact Hne. unfold getm. rewrite M2. reflexivity. }
  assert (A3 : alive s3 c = false).
  { unfold alive, s3. rewrite getm_setm_same by exact Hc2. reflexivity. }
  split; [|split; [|split; [exact A3|]]].
  3:{ intros c' Hlt. apply G. lia. }
  - unfold truth. split; [unfold s3; simpl; rewrite set_nth_length, M2; exact TL|]. split; [|split; [|split; [|split]]].
    4:{ unfold s3; simpl. rewrite T2. simpl. split; [rewrite T1 by exact Hc; exact Ei | exact T5]. }
    4:{ unfold s3; simpl. rewrite O2. exact T6. }
    + intros c' Hc'. unfold s3 at 1. simpl. rewrite T2. simpl.
      destruct (Nat.eqb c c') eqn:Eq.
      * apply Nat.eqb_eq in Eq; subst c'. unfold s3. rewrite getm_setm_same by exact Hc2. reflexivity.
      * apply Nat.eqb_neq in Eq. rewrite G by exact Eq. apply T1; exact Hc'.
    + intros c' Hc' Ha. unfold s3 at 1. simpl. rewrite O2.
      destruct (Nat.eq_dec c c') as [->|Hne]; [congruence|].
      unfold alive in Ha. rewrite G in Ha by exact Hne. apply T3; assumption.
    + intros c' h Hc' Hm. destruct (Nat.eq_dec c c') as [->|Hne].
      * unfold s3 in Hm. rewrite getm_setm_same in Hm by exact Hc2. discriminate.
      * rewrite G in Hm by exact Hne. eapply T4; eauto.
  - unfold shrinks, s3; simpl. rewrite O2, K2, R2, P2. repeat split; auto. intros c' Ha.
    destruct (Nat.eq_dec c c') as [->|Hne]; [fold s3 in Ha; congruence|].
    fold s3 in Ha. unfold alive in *. rewrite G in Ha by exact Hne. exact Ha.
Qed.

(* ---- teardown / leave: mutual induction on the depth bound ---- *)
Lemma teardown_leave_inv : forall d,
  (forall c s r s', teardown d c s = (r, s') -> truth s -> c < n ->
     truth s' /\ shrinks s s' /\ upper_same c s s' /\
     (0 < d -> alive s' c = false)) /\
  (forall e pend s r s', leave d e pend s = (r, s') -> truth s -> e_cls e < n ->
     truth s' /\ shrinks s s' /\ upper_same (e_cls e) s s').
Proof.
  induction d as [|d [IHt IHl]].
  { split.
    - intros c s r s' H. simpl in H. injection H as <- <-. intros T _. split; [exact T|]. split; [apply shrinks_refl|].
      split; [apply upper_same_refl | lia].
    - intros e pend s r s' H. simpl in H. injection H as <- <-. intros T _. split; [exact T|].
      split; [apply shrinks_refl | apply upper_same_refl]. }
  split.
  - (* teardown *)
    intros c s r s' H T Hc. cbn [teardown] in H.
    destruct (m_inst (getm s c)) as [i|] eqn:Ei.
    2:{ injection H as <- <-. split; [exact T|]. split; [apply shrinks_refl|]. split; [apply upper_same_refl|].
        intros _. unfold alive. rewrite Ei. reflexivity. }
    destruct (cchk (cev (CTeardown c i) s)) as [f s2] eqn:Ec.
    destruct (truth_kill s c i f s2 T Hc Ei Ec) as (T3 & S3 & A3 & U3).
    set (s3 := setm s2 c (mkMgr None (m_users (getm s2 c)) (m_avail (getm s2 c)) None)) in *.
    destruct (m_hold (getm s c)) as [h|] eqn:Eh.
    + assert (Hd : h_dep h < c) by (destruct T as (_ & _ & _ & T4 & _ & _); eapply T4; eauto).
      assert (Hd' : h_dep h < n) by lia.
      destruct (IHl _ _ _ _ _ H T3 Hd') as (T' & S' & U').
      split; [exact T'|]. split; [eapply shrinks_trans; eauto|].
      split. { eapply upper_same_trans; [exact U3|]. eapply upper_same_weaken; [|exact U']. simpl. lia. }
      intros _. destruct (alive s' c) eqn:Ea; [|reflexivity].
      destruct S' as (_ & _ & _ & _ & S6). rewrite (S6 c Ea) in A3. discriminate.
    + injection H as <- <-. split; [exact T3|]. split; [exact S3|]. split; [exact U3|]. intros _. exact A3.
  - (* leave *)
    intros e pend s r s' H T Hc. cbn [leave] in H.
    set (c := e_cls e) in *.
    (* the except clause *)
    set (step1 := match pend with
                  | Some x =>
                      if e_roe e && negb (match x with XSkip => true | _ => false end) && alive s c then
                        match teardown d c s with
                        | (Some x', s'0) => (Some x', s'0)
                        | (None, s'0) => (pend, s'0)
                        end
                      else (pend, s)
                  | None => (None, s)
                  end) in *.
    assert (H1 : truth (snd step1) /\ shrinks s (snd step1) /\ upper_same c s (snd step1)).
    { unfold step1. destruct pend as [x|]; [|simpl; split; [exact T | split; [apply shrinks_refl | apply upper_same_refl]]].
      destruct (e_roe e && negb _ && alive s c); [|simpl; split; [exact T | split; [apply shrinks_refl | apply upper_same_refl]]].
      destruct (teardown d c s) as [r1 s1] eqn:Et.
      destruct (IHt _ _ _ _ Et T Hc) as (A & B & C & _). destruct r1; simpl; auto. }
    destruct step1 as [pend1 s1]. simpl in H1. destruct H1 as (T1 & S1 & U1).
    set (m := getm s1 c) in *.
    set (s2 := setm s1 c (mkMgr (m_inst m) (Nat.pred (m_users m)) (m_avail m) (m_hold m))) in *.
    destruct (truth_setm_keep s1 c (mkMgr (m_inst m) (Nat.pred (m_users m)) (m_avail m) (m_hold m)) T1 Hc eq_refl eq_refl)
      as (T2 & S2 & _ & U2). fold s2 in T2, S2, U2.
    destruct ((e_excl e || negb (e_ka e) && Nat.eqb (Nat.pred (m_users m)) 0) && alive s2 c).
    + destruct (teardown d c s2) as [r3 s3] eqn:Et.
      destruct (IHt _ _ _ _ Et T2 Hc) as (T3 & S3 & U3 & _).
      assert (E : s' = s3) by (destruct r3; injection H as _ <-; reflexivity). subst s'.
      split; [exact T3|]. split; [eapply shrinks_trans; [exact S1|]; eapply shrinks_trans; eauto|].
      eapply upper_same_trans; [exact U1|]. eapply upper_same_trans; eauto.
    + injection H as _ <-. split; [exact T2|]. split; [eapply shrinks_trans; eauto|].
      eapply upper_same_trans; eauto.
Qed.

Lemma teardown_inv d c s r s' :
  teardown d c s = (r, s') -> truth s -> c < n ->
  truth s' /\ shrinks s s' /\ upper_same c s s' /\ (0 < d -> alive s' c = false).
Proof. apply (proj1 (teardown_leave_inv d)). Qed.

Lemma leave_inv d e pend s r s' :
  leave d e pend s = (r, s') -> truth s -> e_cls e < n ->
  truth s' /\ shrinks s s' /\ upper_same (e_cls e) s s'.
Proof. apply (proj2 (teardown_leave_inv d)). Qed.

(* ------------------------------------------------------------------ entering a request *)
Definition truth_ex (c : nat) (s : cstate) : Prop :=
  length (mgrs s) = n /\
  (forall c', c' < n -> live_nf (ctr s) c' = m_inst (getm s c')) /\
  (forall c', c' < n -> c' <> c -> alive s c' = true -> In c' (order s)) /\
  (forall c' h, c' < n -> m_hold (getm s c') = Some h -> h_dep h < c') /\
  wf_tr (ctr s) /\
  (forall c', In c' (order s) -> c' < n).

Lemma truth_truth_ex c s : truth s -> truth_ex c s.
Proof. intros (A & B & C & D & E & F). unfold truth_ex. repeat split; auto. Qed.

Lemma truth_ex_dead c s : truth_ex c s -> alive s c = false -> truth s.
Proof.
  intros (A & B & C & D & E & F) Hd. unfold truth. repeat split; auto.
  intros c' Hc' Ha. destruct (Nat.eq_dec c' c) as [->|Hne]; [congruence | auto].
Qed.

Lemma truth_cchk s f s2 : cchk s = (f, s2) -> truth s ->
  truth s2 /\ mgrs s2 = mgrs s /\ order s2 = order s /\ ka s2 = ka s /\ roe_def s2 = roe_def s /\
  opn s2 = opn s /\ ctr s2 = ctr s /\ nxt s2 = nxt s.
Proof.
  unfold cchk. intros [= _ <-] (A & B & C & D & E & F). simpl.
  split; [|repeat split; reflexivity]. unfold truth, alive, getm in *; simpl. repeat split; auto.
Qed.

(* a machine was just initialised: everything of the invariant holds except that c may not be in the order yet *)
Lemma truth_birth c hd s2 :
  truth s2 -> c < n -> alive s2 c = false -> (forall h, hd = Some h -> h_dep h < c) ->
  let s4 := birth c hd s2 in
  truth_ex c s4 /\ m_inst (getm s4 c) = Some (nxt s2) /\ m_avail (getm s4 c) = m_avail (getm s2 c) /\
  order s4 = order s2 /\ ka s4 = ka s2 /\ roe_def s4 = roe_def s2 /\ opn s4 = opn s2 /\ upper_same c s2 s4.
Proof.
  intros (TL & T1 & T3 & T4 & T5 & T6) Hc Hd Hh s4.
  assert (Hc' : c < length (mgrs s2)) by (rewrite TL; exact Hc).
  unfold s4, birth. set (s3 := cev _ _).
  assert (G3 : forall c', getm s3 c' = getm s2 c') by reflexivity.
  assert (Hc3 : c < length (mgrs s3)) by exact Hc'.
  split; [|split; [|split; [|split; [|split; [|split; [|split]]]]]].
  - unfold truth_ex. split; [simpl; rewrite set_nth_length; exact TL|]. split; [|split; [|split; [|split]]].
    5:{ simpl. exact T6. }
    + intros c' Hc2. simpl. destruct (Nat.eqb c c') eqn:Eq.
      * apply Nat.eqb_eq in Eq; subst c'. rewrite getm_setm_same by exact Hc3. reflexivity.
      * apply Nat.eqb_neq in Eq. rewrite getm_setm_other by exact Eq. rewrite G3. apply T1; exact Hc2.
    + intros c' Hc2 Hne Ha. simpl. unfold alive in Ha. rewrite getm_setm_other in Ha by congruence.
      rewrite G3 in Ha. apply T3; assumption.
    + intros c' h Hc2 Hm. destruct (Nat.eq_dec c c') as [->|Hne].
      * rewrite getm_setm_same in Hm by exact Hc3. simpl in Hm. apply Hh; exact Hm.
      * rewrite getm_setm_other in Hm by exact Hne. rewrite G3 in Hm. eapply T4; eauto.
    + simpl. split; [|exact T5]. rewrite T1 by exact Hc. unfold alive in Hd.
      destruct (m_inst (getm s2 c)); [discriminate | reflexivity].
  - rewrite getm_setm_same by exact Hc3. reflexivity.
  - rewrite getm_setm_same by exact Hc3. reflexivity.
  - reflexivity.
  - reflexivity.
  - reflexivity.
  - reflexivity.
  - intros c' Hlt. rewrite getm_setm_other by lia. apply G3.
Qed.

Definition grows (c : nat) (s s' : cstate) : Prop :=
  (exists l, order s' = order s ++ l) /\ ka s' = ka s /\ roe_def s' = roe_def s /\ opn s' = opn s /\
  upper_same c s s'.

Lemma grows_refl c s : grows c s s.
Proof. unfold grows. split; [exists []; rewrite app_nil_r; reflexivity|]. repeat split; auto; try apply upper_same_refl. Qed.

Lemma grows_trans c a b d : grows c a b -> grows c b d -> grows c a d.
Proof.
  intros ((l1 & O1) & A2 & A3 & A4 & A5) ((l2 & O2) & B2 & B3 & B4 & B5). unfold grows.
  split; [exists (l1 ++ l2); rewrite O2, O1, app_assoc; reflexivity|].
  repeat split; try congruence. eapply upper_same_trans; eauto.
Qed.

Lemma shrinks_grows c0 c s s' : shrinks s s' -> upper_same c0 s s' -> c0 <= c -> grows c s s'.
Proof.
  intros (A1 & A2 & A3 & A4 & _) U Hle. unfold grows.
  split; [exists []; rewrite app_nil_r; exact A1|]. repeat split; auto. eapply upper_same_weaken; eauto.
Qed.

Lemma grows_weaken c0 c s s' : grows c0 s s' -> c0 <= c -> grows c s s'.
Proof. intros (A & B & C & D & E) Hle. unfold grows. repeat split; auto. eapply upper_same_weaken; eauto. Qed.

(* InstanceManager.request + teardown-order bookkeeping *)
Lemma req_block_inv top c excl roe' x r s' :
  truth_ex c x -> c < n -> (truth x \/ m_avail (getm x c) = true) ->
  req_block top c excl roe' x = (r, s') ->
  truth s' /\ grows c x s' /\
  match r with
  | inr en => e_cls en = c /\ m_inst (getm s' c) = Some (e_inst en) /\ In c (order s')
  | inl _ => True
  end.
Proof.
  intros Tx Hc Hor H. unfold req_block in H.
  destruct (m_inst (getm x c)) as [i|] eqn:Ei.
  2:{ injection H as <- <-. split; [|split; [apply grows_refl | exact I]].
      apply (truth_ex_dead c); [exact Tx|]. unfold alive. rewrite Ei. reflexivity. }
  destruct (m_avail (getm x c)) eqn:Ea; simpl in H.
  2:{ injection H as <- <-. split; [|split; [apply grows_refl | exact I]].
      destruct Hor as [T|X]; [exact T | discriminate]. }
  destruct Tx as (TL & T1 & T3 & T4 & T5 & T6).
  assert (Hc' : c < length (mgrs x)) by (rewrite TL; exact Hc).
  set (m2 := mkMgr (Some i) (S (m_users (getm x c))) (if excl then false else true) (m_hold (getm x c))) in *.
  set (s2 := setm x c m2) in *.
  assert (G2 : forall c', c' <> c -> getm s2 c' = getm x c').
  { intros c' Hne. unfold s2. apply getm_setm_other. congruence. }
  assert (G2c : getm s2 c = m2) by (unfold s2; apply getm_setm_same; exact Hc').
  set (s3 := if existsb (Nat.eqb c) (order s2) then s2
             else mkC (mgrs s2) (ka s2) (roe_def s2) (opn s2) (order s2 ++ [c]) (nxt s2) (cfl s2) (cn s2) (ctr s2)) in *.
  assert (E3 : mgrs s3 = mgrs s2 /\ ctr s3 = ctr s2 /\ ka s3 = ka x /\ roe_def s3 = roe_def x /\ opn s3 = opn x /\
               In c (order s3) /\ (exists l, order s3 = order x ++ l) /\ (forall c', In c' (order x) -> In c' (order s3))).
  { unfold s3. destruct (existsb (Nat.eqb c) (order s2)) eqn:Ex; simpl.
    - apply existsb_exists in Ex as (c0 & Hin & Heq). apply Nat.eqb_eq in Heq; subst c0.
      repeat split; auto. exists []. rewrite app_nil_r. reflexivity.
    - repeat split; auto.
      + apply in_or_app. right. left. reflexivity.
      + exists [c]. reflexivity.
      + intros c' Hin. apply in_or_app. left. exact Hin. }
  destruct E3 as (M3 & C3 & K3 & R3 & P3 & I3 & (l & O3) & Sub3).
  assert (Tr3 : truth s3).
  { unfold truth. split; [rewrite M3; unfold s2; simpl; rewrite set_nth_length; exact TL|].
    assert (Gm : forall c', getm s3 c' = getm s2 c') by (intros c'; unfold getm; rewrite M3; reflexivity).
    split; [|split; [|split; [|split]]].
    5:{ intros c' Hin. rewrite O3 in Hin. unfold s3 in O3.
        destruct (existsb (Nat.eqb c) (order s2)) eqn:Ex.
        - rewrite <- O3 in Hin. apply T6. exact Hin.
        - simpl in O3. apply app_inv_head in O3. subst l.
          apply in_app_or in Hin as [Hin|[<-|[]]]; [apply T6; exact Hin | exact Hc]. }
    - intros c' Hc2. rewrite C3, Gm. unfold s2 at 1. simpl.
      destruct (Nat.eq_dec c' c) as [->|Hne].
      + rewrite G2c. simpl. rewrite T1 by exact Hc. exact Ei.
      + rewrite G2 by exact Hne. apply T1; exact Hc2.
    - intros c' Hc2 Ha. destruct (Nat.eq_dec c' c) as [->|Hne]; [exact I3|].
      apply Sub3. apply T3; auto. unfold alive in *. rewrite Gm, G2 in Ha by exact Hne. exact Ha.
    - intros c' h Hc2 Hm. rewrite Gm in Hm. destruct (Nat.eq_dec c' c) as [->|Hne].
      + rewrite G2c in Hm. simpl in Hm. eapply T4; eauto.
      + rewrite G2 in Hm by exact Hne. eapply T4; eauto.
    - rewrite C3. exact T5. }
  assert (Gr3 : grows c x s3).
  { unfold grows. split; [exists l; exact O3|]. repeat split; auto.
    intros c' Hlt. unfold getm. rewrite M3. fold (getm s2 c'). apply G2. lia. }
  assert (Hi3 : m_inst (getm s3 c) = Some i).
  { unfold getm. rewrite M3. fold (getm s2 c). rewrite G2c. reflexivity. }
  destruct top; injection H as <- <-.
  - (* the hand-over event: the instance is live *)
    split; [|split].
    + destruct Tr3 as (A & B & C & D & E & F). unfold truth, alive, getm in *; simpl. repeat split; auto.
      rewrite B by exact Hc. exact Hi3.
    + exact Gr3.
    + simpl. auto.
  - split; [exact Tr3|]. split; [exact Gr3|]. simpl. auto.
Qed.

Lemma enter_inv : forall d top c reset excl roe s r s',
  enter tb d top c reset excl roe s = (r, s') -> truth s -> c < n ->
  truth s' /\ grows c s s' /\
  match r with
  | inr en => e_cls en = c /\ m_inst (getm s' c) = Some (e_inst en) /\ In c (order s')
  | inl _ => True
  end.
Proof.
  induction d as [|d IH]; intros top c reset excl roe s r s' H T Hc.
  { simpl in H. injection H as <- <-. split; [exact T|]. split; [apply grows_refl | exact I]. }
  cbn [enter] in H.
  destruct (ka s && Nat.eqb (opn s) 0).
  { injection H as <- <-. split; [exact T|]. split; [apply grows_refl | exact I]. }
  (* reset *)
  set (st0 := if alive s c && reset then teardown (S d) c s else (None, s)) in *.
  assert (H0 : truth (snd st0) /\ grows c s (snd st0) /\ (fst st0 = None -> alive s c && reset = true -> alive (snd st0) c = false)).
  { unfold st0. destruct (alive s c && reset) eqn:Er.
    - destruct (teardown (S d) c s) as [r0 s0] eqn:Et.
      destruct (teardown_inv _ _ _ _ _ Et T Hc) as (A & B & C & D). simpl.
      split; [exact A|]. split; [eapply shrinks_grows; eauto|].
      intros _ _. apply D. lia.
    - simpl. split; [exact T|]. split; [apply grows_refl|]. intros _ X; discriminate. }
  destruct st0 as [r0 s0]. simpl in H0. destruct H0 as (T0 & G0 & _).
  destruct r0 as [x|].
  { injection H as <- <-. split; [exact T0|]. split; [exact G0 | exact I]. }
  destruct (alive s0 c) eqn:Ea0.
  { (* already alive: just the request block *)
    destruct (req_block_inv top c excl _ s0 r s' (truth_truth_ex c s0 T0) Hc (or_introl T0) H) as (A & B & C).
    split; [exact A|]. split; [eapply grows_trans; eauto | exact C]. }
  (* InstanceManager.init *)
  set (sa := setm s0 c (mkMgr (m_inst (getm s0 c)) (m_users (getm s0 c)) true (m_hold (getm s0 c)))) in *.
  destruct (truth_setm_keep s0 c (mkMgr (m_inst (getm s0 c)) (m_users (getm s0 c)) true (m_hold (getm s0 c)))
              T0 Hc eq_refl eq_refl) as (Ta & Sa & Aa & Ua). fold sa in Ta, Sa, Aa, Ua.
  assert (Hca : c < length (mgrs sa)) by (destruct Ta as (TL & _); rewrite TL; exact Hc).
  assert (Ava : m_avail (getm sa c) = true /\ alive sa c = false).
  { split; [unfold sa; rewrite getm_setm_same; [reflexivity|] | rewrite Aa; exact Ea0].
    destruct T0 as (TL & _). rewrite TL. exact Hc. }
  destruct Ava as (Ava & Ala).
  assert (Ga : grows c s sa).
  { eapply grows_trans; [exact G0|]. eapply shrinks_grows; eauto. }
  (* the prerequisite *)
  set (stepd := match dep_of tb c with
                | None => (None, sa, None)
                | Some (dc, dexcl) =>
                    match enter tb d false dc false dexcl None sa with
                    | (inl x, s'0) => (Some x, s'0, None)
                    | (inr en, s'0) => (None, s'0, Some (mkHold dc (e_excl en) (e_ka en) (e_roe en)))
                    end
                end) in *.
  assert (Hd : truth (snd (fst stepd)) /\ grows c sa (snd (fst stepd)) /\
               getm (snd (fst stepd)) c = getm sa c /\
               (forall h, snd stepd = Some h -> h_dep h < c)).
  { unfold stepd. destruct (dep_of tb c) as [[dc dexcl]|] eqn:Ed.
    - pose proof (deps_ok _ _ _ Ed) as Hdc.
      destruct (enter tb d false dc false dexcl None sa) as [rd sd] eqn:Ee.
      destruct (IH _ _ _ _ _ _ _ _ Ee Ta ltac:(lia)) as (A & B & C).
      assert (Gc : getm sd c = getm sa c) by (destruct B as (_ & _ & _ & _ & U); apply U; exact Hdc).
      destruct rd as [x|en]; simpl.
      + split; [exact A|]. split; [eapply grows_weaken; eauto; lia|]. split; [exact Gc|]. intros h X; discriminate.
      + split; [exact A|]. split; [eapply grows_weaken; eauto; lia|]. split; [exact Gc|].
        intros h [= <-]. simpl. exact Hdc.
    - simpl. split; [exact Ta|]. split; [apply grows_refl|]. split; [reflexivity|]. intros h X; discriminate. }
  destruct stepd as [[rd sd] hd]. simpl in Hd. destruct Hd as (Td & Gd & Gcd & Hhd).
  destruct rd as [x|].
  { injection H as <- <-. split; [exact Td|]. split; [eapply grows_trans; eauto | exact I]. }
  destruct (cchk sd) as [f s2] eqn:Ec.
  destruct (truth_cchk _ _ _ Ec Td) as (T2 & M2 & O2 & K2 & R2 & P2 & C2 & N2).
  assert (G2 : grows c sd s2).
  { unfold grows. split; [exists []; rewrite app_nil_r; exact O2|]. repeat split; auto.
    intros c' _. unfold getm. rewrite M2. reflexivity. }
  assert (Gc2 : getm s2 c = getm sa c) by (unfold getm; rewrite M2; exact Gcd).
  destruct f.
  - (* the machine's own init raised: the prerequisite is released again *)
    destruct hd as [h|].
    + pose proof (Hhd h eq_refl) as Hdh.
      destruct (leave (S d) (mkEnt (h_dep h) 0 (h_excl h) (h_ka h) (h_roe h)) (Some (XFault (cn sd))) s2) as [rl sl] eqn:El.
      destruct (leave_inv _ _ _ _ _ _ El T2 ltac:(simpl; lia)) as (Tl & Sl & Ul). simpl in Ul.
      assert (E : s' = sl /\ exists x, r = inl x) by (destruct rl; injection H as <- <-; eauto). destruct E as (-> & x & ->).
      split; [exact Tl|]. split; [|exact I].
      eapply grows_trans; [exact Ga|]. eapply grows_trans; [exact Gd|]. eapply grows_trans; [exact G2|].
      eapply shrinks_grows; eauto. lia.
    + injection H as <- <-. split; [exact T2|]. split; [|exact I].
      eapply grows_trans; [exact Ga|]. eapply grows_trans; eauto.
  - (* the machine is up *)
    assert (Al2 : alive s2 c = false) by (unfold alive; rewrite Gc2; exact Ala).
    destruct (truth_birth c hd s2 T2 Hc Al2 Hhd) as (Tb & Ib & Avb & Ob & Kb & Rb & Pb & Ub).
    assert (Avb' : m_avail (getm (birth c hd s2) c) = true) by (rewrite Avb, Gc2; exact Ava).
    destruct (req_block_inv top c excl _ _ r s' Tb Hc (or_intror Avb') H) as (A & B & C).
    split; [exact A|]. split; [|exact C].
    eapply grows_trans; [exact Ga|]. eapply grows_trans; [exact Gd|]. eapply grows_trans; [exact G2|].
    eapply grows_trans; [|exact B]. unfold grows. split; [exists []; rewrite app_nil_r; exact Ob|]. repeat split; auto.
Qed.

(* tearing down, in reverse first-request order, whatever `sel` selects *)
Lemma teardown_all_inv d sel : forall cls pend s r s',
  teardown_all d sel cls pend s = (r, s') -> truth s -> (forall c, In c cls -> c < n) ->
  truth s' /\ shrinks s s'.
Proof.
  induction cls as [|c rest IH]; intros pend s r s' H T Hin; simpl in H.
  - injection H as <- <-. split; [exact T | apply shrinks_refl].
  - destruct (alive s c && sel s c).
    + destruct (teardown d c s) as [r1 s1] eqn:Et.
      destruct (teardown_inv _ _ _ _ _ Et T (Hin c (or_introl eq_refl))) as (T1 & S1 & _).
      assert (Hr : forall p, teardown_all d sel rest p s1 = (r, s') -> truth s' /\ shrinks s s').
      { intros p Hp. destruct (IH _ _ _ _ Hp T1 (fun c0 H0 => Hin c0 (or_intror H0))) as (A & B).
        split; [exact A | eapply shrinks_trans; eauto]. }
      destruct r1; eapply Hr; eauto.
    + apply (IH _ _ _ _ H T (fun c0 H0 => Hin c0 (or_intror H0))).
Qed.

(* with sel = everything, nothing of the listed classes survives -- whatever the teardowns raise *)
Lemma teardown_all_kills d : forall cls pend s r s',
  0 < d -> teardown_all d (fun _ _ => true) cls pend s = (r, s') -> truth s -> (forall c, In c cls -> c < n) ->
  forall c, In c cls -> alive s' c = false.
Proof.
  induction cls as [|c0 rest IH]; intros pend s r s' Hd H T Hin c Hc; [contradiction|].
  simpl in H. rewrite andb_true_r in H.
  assert (G : forall p s1, truth s1 -> alive s1 c0 = false -> teardown_all d (fun _ _ => true) rest p s1 = (r, s') ->
              alive s' c = false).
  { intros p s1 T1 A1 Hp. destruct Hc as [<-|Hc].
    - destruct (teardown_all_inv d _ _ _ _ _ _ Hp T1 (fun c1 H1 => Hin c1 (or_intror H1))) as (_ & (_ & _ & _ & _ & S6)).
      destruct (alive s' c0) eqn:E; [|reflexivity]. rewrite (S6 _ E) in A1. discriminate.
    - eapply IH; eauto. intros c1 H1. apply Hin. right. exact H1. }
  destruct (alive s c0) eqn:Ea.
  - destruct (teardown d c0 s) as [r1 s1] eqn:Et.
    destruct (teardown_inv _ _ _ _ _ Et T (Hin c0 (or_introl eq_refl))) as (T1 & S1 & _ & D1).
    destruct r1; eapply G; eauto.
  - eapply G; eauto.
Qed.

(* ------------------------------------------------------------------ whole programs *)
Fixpoint wfp (p : cprog) : Prop :=
  match p with
  | CSkip | CBody _ | CRaise _ => True
  | CSeq a b => wfp a /\ wfp b
  | CTry b | CReconf _ _ b | CWithCtx b => wfp b
  | CRequest c _ _ _ b => c < n /\ wfp b
  | CTeardownIfAlive c => c < n
  end.

(* what every program preserves *)
Definition pres (s s' : cstate) : Prop :=
  truth s' /\ (exists l, order s' = order s ++ l) /\ ka s' = ka s /\ roe_def s' = roe_def s /\ opn s' = opn s.

Lemma pres_of_grows c s s' : truth s' -> grows c s s' -> pres s s'.
Proof. intros T (A & B & C & D & _). unfold pres. auto. Qed.

Lemma pres_of_shrinks s s' : truth s' -> shrinks s s' -> pres s s'.
Proof. intros T (A & B & C & D & _). unfold pres. split; [exact T|]. split; [exists []; rewrite app_nil_r; exact A|]. auto. Qed.

Lemma pres_trans a b c : pres a b -> pres b c -> pres a c.
Proof.
  intros (_ & (l1 & O1) & A2 & A3 & A4) (T & (l2 & O2) & B2 & B3 & B4). unfold pres.
  split; [exact T|]. split; [exists (l1 ++ l2); rewrite O2, O1, app_assoc; reflexivity|]. repeat split; congruence.
Qed.

Lemma truth_cev e s : (match e with CInit _ _ | CTeardown _ _ | CYield _ _ => False | _ => True end) ->
  truth s -> truth (cev e s).
Proof.
  intros He (A & B & C & D & E & F). unfold truth, alive, getm in *. simpl.
  destruct e; try contradiction; simpl; repeat split; auto.
Qed.

Lemma truth_flags s k r : truth s -> truth (set_flags s k r).
Proof. intros (A & B & C & D & E & F). unfold truth, alive, getm in *. simpl. repeat split; auto. Qed.

Lemma truth_opn s k : truth s -> truth (set_opn s k).
Proof. intros (A & B & C & D & E & F). unfold truth, alive, getm in *. simpl. repeat split; auto. Qed.

(* every well-formed program preserves the invariant and the configuration, for every fault pattern *)
Theorem crun_inv : forall d p s r s',
  wfp p -> crun tb d p s = (r, s') -> truth s -> pres s s'.
Proof.
  intros d p. induction p as [|k|a IHa b IHb|sk|body IH|c reset excl roe body IH|nka nroe body IH|c|body IH];
    intros s r s' Hw H T; simpl in H.
  - injection H as <- <-. unfold pres. split; [exact T|]. split; [exists []; rewrite app_nil_r; reflexivity|]. auto.
  - injection H as <- <-. unfold pres. split; [apply truth_cev; [exact I | exact T]|].
    split; [exists []; rewrite app_nil_r; reflexivity|]. auto.
  - destruct Hw as [Hwa Hwb]. destruct (crun tb d a s) as [ra sa] eqn:Ea.
    pose proof (IHa _ _ _ Hwa Ea T) as Pa.
    destruct ra as [x|].
    + injection H as <- <-. exact Pa.
    + pose proof (IHb _ _ _ Hwb H (proj1 Pa)) as Pb. eapply pres_trans; eauto.
  - injection H as <- <-. unfold pres. split; [exact T|]. split; [exists []; rewrite app_nil_r; reflexivity|]. auto.
  - destruct (crun tb d body s) as [rb sb] eqn:Eb. injection H as <- <-. eapply IH; eauto.
  - destruct Hw as [Hc Hwb].
    destruct (enter tb d true c reset excl roe s) as [re se] eqn:Ee.
    destruct (enter_inv _ _ _ _ _ _ _ _ _ Ee T Hc) as (Te & Ge & Ce).
    pose proof (pres_of_grows _ _ _ Te Ge) as Pe.
    destruct re as [x|en].
    + injection H as <- <-. exact Pe.
    + destruct (crun tb d body se) as [rb sb] eqn:Eb.
      pose proof (IH _ _ _ Hwb Eb Te) as Pb.
      destruct (leave d en rb sb) as [r3 s3] eqn:El. injection H as <- <-.
      destruct Ce as (Ec & _).
      destruct (leave_inv _ _ _ _ _ _ El (proj1 Pb) ltac:(rewrite Ec; exact Hc)) as (Tl & Sl & _).
      eapply pres_trans; [exact Pe|]. eapply pres_trans; [exact Pb|].
      pose proof (pres_of_shrinks _ _ Tl Sl) as Pl.
      destruct Pl as (P1 & P2 & P3 & P4 & P5). unfold pres. simpl.
      split; [apply truth_cev; [exact I | exact P1]|]. auto.
  - set (s1 := set_flags s (match nka with Some b => b | None => ka s end)
                           (match nroe with Some b => b | None => roe_def s end)) in *.
    destruct (crun tb d body s1) as [rb s2] eqn:Eb.
    pose proof (IH _ _ _ Hw Eb (truth_flags _ _ _ T)) as (T2 & (l & O2) & K2 & R2 & P2).
    set (s3 := set_flags s2 (ka s) (roe_def s)) in *.
    assert (T3 : truth s3) by (apply truth_flags; exact T2).
    assert (P3 : pres s s3).
    { unfold pres. split; [exact T3|]. split; [exists l; exact O2|]. simpl. auto. }
    destruct (negb (ka s) && match nka with Some true => true | _ => false end).
    + destruct (teardown_all_inv d _ _ _ _ _ _ H T3) as (T4 & S4).
      { intros c0 Hin. apply in_rev in Hin. destruct T3 as (_ & _ & _ & _ & _ & F). apply F; exact Hin. }
      eapply pres_trans; [exact P3|]. apply pres_of_shrinks; assumption.
    + injection H as <- <-. exact P3.
  - destruct (alive s c).
    + destruct (teardown_inv _ _ _ _ _ H T Hw) as (T1 & S1 & _). apply pres_of_shrinks; assumption.
    + injection H as <- <-. unfold pres. split; [exact T|]. split; [exists []; rewrite app_nil_r; reflexivity|]. auto.
  - set (s1 := set_opn s (S (opn s))) in *.
    destruct (crun tb d body s1) as [rb s2'] eqn:Eb.
    pose proof (IH _ _ _ Hw Eb (truth_opn _ _ T)) as (T2' & (l & O2) & K2 & R2 & P2).
    set (s2 := cev CCtxExit s2') in *.
    assert (T2 : truth s2) by (apply truth_cev; [exact I | exact T2']).
    set (st := if Nat.eqb (opn s2') 1 && ka s2' then teardown_all d (fun _ _ => true) (rev (order s2')) rb s2 else (rb, s2)) in *.
    assert (Hst : truth (snd st) /\ shrinks s2 (snd st)).
    { unfold st. destruct (Nat.eqb (opn s2') 1 && ka s2').
      - destruct (teardown_all d (fun _ _ => true) (rev (order s2')) rb s2) as [r4 s4] eqn:Et.
        apply (teardown_all_inv d _ _ _ _ _ _ Et T2).
        intros c0 Hin. apply in_rev in Hin. destruct T2 as (_ & _ & _ & _ & _ & F). apply F; exact Hin.
      - simpl. split; [exact T2 | apply shrinks_refl]. }
    destruct st as [r3 s3]. simpl in Hst. destruct Hst as (T3 & (S1 & S2 & S3 & S4 & _)).
    cbv beta iota in H. injection H as <- <-. unfold pres. split; [apply truth_opn; exact T3|]. simpl.
    split; [exists l; rewrite S1; exact O2|].
    split; [rewrite S2; exact K2|]. split; [rewrite S3; exact R2|].
    rewrite S4. simpl. rewrite P2. reflexivity.
Qed.

(* under keep_alive nothing survives the outermost `with ctx:` -- whatever was requested, whatever raised,
   including a machine's own teardown *)
Theorem nothing_alive_after_keepalive_context d body s r s' :
  0 < d -> wfp body -> truth s -> opn s = 0 -> ka s = true ->
  crun tb d (CWithCtx body) s = (r, s') ->
  forall c, c < n -> alive s' c = false.
Proof.
  intros Hd Hw T Ho Hk H c Hc. simpl in H.
  set (s1 := set_opn s (S (opn s))) in *.
  destruct (crun tb d body s1) as [rb s2'] eqn:Eb.
  pose proof (crun_inv _ _ _ _ _ Hw Eb (truth_opn _ _ T)) as (T2' & (l & O2) & K2 & R2 & P2).
  set (s2 := cev CCtxExit s2') in *.
  assert (T2 : truth s2) by (apply truth_cev; [exact I | exact T2']).
  assert (E1 : Nat.eqb (opn s2') 1 && ka s2' = true).
  { rewrite P2, K2. unfold s1; simpl. rewrite Ho, Hk. reflexivity. }
  rewrite E1 in H.
  destruct (teardown_all d (fun _ _ => true) (rev (order s2')) rb s2) as [r4 s4] eqn:Et.
  injection H as _ <-.
  assert (Hin : forall c0, In c0 (rev (order s2')) -> c0 < n).
  { intros c0 Hi. apply in_rev in Hi. destruct T2' as (_ & _ & _ & _ & _ & F). apply F; exact Hi. }
  destruct (teardown_all_inv d _ _ _ _ _ _ Et T2 Hin) as (T4 & (_ & _ & _ & _ & S6)).
  change (alive (set_opn s4 (Nat.pred (opn s4))) c) with (alive s4 c).
  destruct (alive s4 c) eqn:Ea; [|reflexivity].
  (* it was alive before the loop, hence in the order, hence torn down by the loop *)
  pose proof (S6 _ Ea) as Ea2.
  assert (Hord : In c (order s2')).
  { destruct T2 as (_ & _ & I3 & _). exact (I3 c Hc Ea2). }
  assert (K : alive s4 c = false).
  { apply (teardown_all_kills d (rev (order s2')) rb s2 r4 s4 Hd Et T2 Hin).
    apply in_rev. rewrite rev_involutive. exact Hord. }
  congruence.
Qed.

Lemma truth0 k r fl : truth (cstate0 n k r fl).
Proof.
  unfold truth, cstate0, alive, getm; simpl. split; [apply repeat_length|].
  assert (G : forall c, nth c (repeat mgr0 n) mgr0 = mgr0).
  { intros c. destruct (Nat.lt_ge_cases c n) as [H|H]; [apply nth_repeat | apply nth_overflow; rewrite repeat_length; exact H]. }
  repeat split; auto; intros; try rewrite G in *; simpl in *; try discriminate; try contradiction; auto.
Qed.

End Inv.

(* ---- closed statements for the 5-class table used by the correspondence check ---- *)
Definition tb5 : ctable := [None; Some (0, false); Some (1, true); Some (2, true); Some (0, false)].

Lemma tb5_deps_ok : forall c dc de, dep_of tb5 c = Some (dc, de) -> dc < c.
Proof.
  intros c dc de H. unfold dep_of, tb5 in H.
  destruct c as [|[|[|[|[|c]]]]]; simpl in H; try discriminate; try (injection H as <- _; lia).
  destruct c; discriminate.
Qed.

(* the recorded finding D14 as a witness: keep_alive, reset_on_error default; Board (1) and Board2 (4) are
   both built from the lab-host (0); Board2's teardown raises at the outermost exit: the lab-host is torn
   down (event [2;0;0]) BEFORE the board that was built from it (event [2;1;1]) *)
Example d14_witness :
  ctx_model (tb5, (true, true),
             CWithCtx (CRequest 1 false false None (CRequest 4 false false None CSkip)),
             [false; false; false; true]) =
  VL [VL [VL [VN 1; VN 0; VN 0]; VL [VN 1; VN 1; VN 1]; VL [VN 3; VN 1; VN 1]; VL [VN 1; VN 4; VN 2]; VL [VN 3; VN 4; VN 2];
          VL [VN 5; VN 4]; VL [VN 5; VN 1]; VL [VN 6];
          VL [VN 2; VN 4; VN 2]; VL [VN 2; VN 0; VN 0]; VL [VN 2; VN 1; VN 1]];
      VL [VL [VN 3; VN 3]]; VL [VN 0; VN 0; VN 0; VN 0; VN 0]]%Z.
Proof. vm_compute. reflexivity. Qed.
