(* ProofC15.v -- the named clauses of "requests act as documented", proved on the implementation model
   (Context.v).  The equality of the implementation model's trace with the reference model's
   (ContextSpec.v) on whole programs is checked by evaluation in the correspondence run, not proved. *)
From TV Require Import Base Context ContextSpec ProofC14.

Section Clauses.
Variable tb : ctable.
Variable n : nat.
Hypothesis deps_ok : forall c dc de, dep_of tb c = Some (dc, de) -> dc < c.

Definition usable (s : cstate) : Prop := ka s && Nat.eqb (opn s) 0 = false.

(* D1: a request for a machine that is alive and not exclusively held yields the very same instance;
   nothing is initialised or torn down (the only new event is the hand-over), the requester is one more user *)
Lemma shared_same_instance d c excl roe s i :
  usable s -> m_inst (getm s c) = Some i -> m_avail (getm s c) = true ->
  exists en s',
    enter tb (S d) true c false excl roe s = (inr en, s') /\
    e_cls en = c /\ e_inst en = i /\ ctr s' = CYield c i :: ctr s /\ nxt s' = nxt s.
Proof.
  intros Hu Hi Ha. unfold usable in Hu. cbn [enter]. rewrite Hu.
  assert (Al : alive s c = true) by (unfold alive; rewrite Hi; reflexivity).
  rewrite Al. cbn [andb]. rewrite Al. unfold req_block. rewrite Hi, Ha. cbn [negb].
  eexists _, _. split; [reflexivity|]. cbn.
  destruct (existsb (Nat.eqb c) (order s)); cbn; repeat split; reflexivity.
Qed.

(* D4: while an exclusive request holds the instance, every other request (without reset) fails with
   ContextError and NOTHING changes -- the holder's instance is untouched *)
Lemma exclusive_blocks d top c excl roe s i :
  usable s -> m_inst (getm s c) = Some i -> m_avail (getm s c) = false ->
  enter tb (S d) top c false excl roe s = (inl XCtx, s).
Proof.
  intros Hu Hi Ha. unfold usable in Hu. cbn [enter]. rewrite Hu.
  assert (Al : alive s c = true) by (unfold alive; rewrite Hi; reflexivity).
  rewrite Al. cbn [andb]. rewrite Al. unfold req_block. rewrite Hi, Ha. reflexivity.
Qed.

(* an exclusive request makes the instance unavailable for the time it is held *)
Lemma exclusive_latches d c roe s i :
  usable s -> m_inst (getm s c) = Some i -> m_avail (getm s c) = true -> c < length (mgrs s) ->
  exists en s',
    enter tb (S d) true c false true roe s = (inr en, s') /\ e_excl en = true /\
    m_avail (getm s' c) = false /\ m_inst (getm s' c) = Some i.
Proof.
  intros Hu Hi Ha Hc. unfold usable in Hu. cbn [enter]. rewrite Hu.
  assert (Al : alive s c = true) by (unfold alive; rewrite Hi; reflexivity).
  rewrite Al. cbn [andb]. rewrite Al. unfold req_block. rewrite Hi, Ha. cbn [negb].
  eexists _, _. split; [reflexivity|]. split; [reflexivity|].
  set (s2 := setm s c _).
  assert (G : getm s2 c = mkMgr (Some i) (S (m_users (getm s c))) false (m_hold (getm s c))).
  { unfold s2. rewrite getm_setm_same by exact Hc. reflexivity. }
  assert (G' : forall e x, getm (cev e x) c = getm x c) by reflexivity.
  destruct (existsb (Nat.eqb c) (order s2)); rewrite !G'.
  - rewrite G. split; reflexivity.
  - change (getm (mkC (mgrs s2) (ka s2) (roe_def s2) (opn s2) (order s2 ++ [c]) (nxt s2) (cfl s2) (cn s2) (ctr s2)) c)
      with (getm s2 c). rewrite G. split; reflexivity.
Qed.

(* D4 (end) / D5: when an exclusive request ends the instance is torn down -- also under keep_alive *)
Lemma exclusive_end_tears_down d en pend s r s' :
  truth n s -> e_cls en < n -> e_excl en = true ->
  (pend = None \/ e_roe en = false) ->
  alive s (e_cls en) = true ->
  leave (S (S d)) en pend s = (r, s') -> alive s' (e_cls en) = false.
Proof.
  intros T Hc He Hp Ha H. cbn [leave] in H. cbv zeta in H.
  set (c := e_cls en) in *.
  match type of H with (let '(_, _) := ?X in _) = _ => set (st1 := X) in H end.
  assert (E1 : st1 = (pend, s)).
  { unfold st1. destruct Hp as [->|Hr]; [reflexivity|]. destruct pend; [|reflexivity]. rewrite Hr. reflexivity. }
  rewrite E1 in H. rewrite He in H. cbn [orb] in H.
  set (m := getm s c) in *.
  set (s2 := setm s c (mkMgr (m_inst m) (Nat.pred (m_users m)) (m_avail m) (m_hold m))) in *.
  destruct (truth_setm_keep n s c (mkMgr (m_inst m) (Nat.pred (m_users m)) (m_avail m) (m_hold m)) T Hc eq_refl eq_refl)
    as (T2 & _ & A2 & _). fold s2 in T2, A2.
  rewrite A2, Ha in H. cbn [andb] in H.
  destruct (teardown (S d) c s2) as [r3 s3] eqn:Et.
  destruct (teardown_inv n _ _ _ _ _ Et T2 Hc) as (_ & _ & _ & D). 
  assert (s' = s3) by (destruct r3; injection H as _ <-; reflexivity). subst s'. apply D. lia.
Qed.

(* D6: a body left by an exception (not a skip) with reset_on_error in effect: the instance is torn down
   before anything propagates, and SOMETHING still propagates; if no teardown raised, it is the same exception *)
Lemma reset_on_error_tears_down d en x s r s' :
  truth n s -> e_cls en < n -> e_roe en = true -> x <> XSkip ->
  leave (S (S d)) en (Some x) s = (r, s') ->
  alive s' (e_cls en) = false /\ r <> None.
Proof.
  intros T Hc Hr Hx H. cbn [leave] in H. cbv zeta in H. set (c := e_cls en) in *. rewrite Hr in H.
  assert (Hsk : negb (match x with XSkip => true | _ => false end) = true) by (destruct x; try reflexivity; congruence).
  rewrite Hsk in H. cbn [andb] in H.
  (* the except clause *)
  match type of H with (let '(_, _) := ?X in _) = _ => set (st1 := X) in H end.
  assert (H1 : truth n (snd st1) /\ alive (snd st1) c = false /\ fst st1 <> None).
  { unfold st1. destruct (alive s c) eqn:Ea.
    - destruct (teardown (S d) c s) as [r1 s1] eqn:Et.
      destruct (teardown_inv n _ _ _ _ _ Et T Hc) as (A & _ & _ & D).
      destruct r1; simpl; (split; [exact A|]); (split; [apply D; lia | discriminate]).
    - simpl. split; [exact T|]. split; [exact Ea | discriminate]. }
  destruct st1 as [pend1 s1]. simpl in H1. destruct H1 as (T1 & A1 & P1).
  set (m := getm s1 c) in *.
  set (s2 := setm s1 c (mkMgr (m_inst m) (Nat.pred (m_users m)) (m_avail m) (m_hold m))) in *.
  destruct (truth_setm_keep n s1 c (mkMgr (m_inst m) (Nat.pred (m_users m)) (m_avail m) (m_hold m)) T1 Hc eq_refl eq_refl)
    as (T2 & _ & A2 & _). fold s2 in T2, A2.
  rewrite A2, A1, andb_false_r in H. injection H as <- <-.
  split; [rewrite A2; exact A1 | exact P1].
Qed.

(* ... pytest.skip is exempted: the skip does not reset the instance *)
Lemma skip_does_not_reset d en s :
  e_excl en = false -> e_ka en = true ->
  leave (S d) en (Some XSkip) s =
  (Some XSkip, setm s (e_cls en) (mkMgr (m_inst (getm s (e_cls en))) (Nat.pred (m_users (getm s (e_cls en))))
                                        (m_avail (getm s (e_cls en))) (m_hold (getm s (e_cls en))))).
Proof.
  intros He Hk. cbn [leave]. rewrite andb_false_r. cbn [andb]. rewrite He, Hk. reflexivity.
Qed.

(* reset_on_error not in effect: the exception changes nothing about the instance's lifetime -- the request
   is left exactly as it would be left normally (same state), and the same exception propagates *)
Lemma no_reset_on_error_is_like_normal_exit d en x s :
  e_roe en = false ->
  snd (leave (S d) en (Some x) s) = snd (leave (S d) en None s) /\
  (fst (leave (S d) en None s) = None -> fst (leave (S d) en (Some x) s) = Some x).
Proof.
  intros Hr. cbn [leave]. rewrite Hr. cbn [andb].
  destruct ((e_excl en || negb (e_ka en) && Nat.eqb _ 0) && alive _ (e_cls en)).
  - destruct (teardown d (e_cls en) _) as [[x'|] s3]; simpl; split; auto; discriminate.
  - simpl. auto.
Qed.

(* keep_alive: an instance stays alive between requests (a non-exclusive request that ends normally under
   keep_alive only gives up its user count) *)
Lemma keep_alive_keeps d en pend s :
  e_excl en = false -> e_ka en = true -> (pend = None \/ e_roe en = false) ->
  leave (S d) en pend s =
  (pend, setm s (e_cls en) (mkMgr (m_inst (getm s (e_cls en))) (Nat.pred (m_users (getm s (e_cls en))))
                                   (m_avail (getm s (e_cls en))) (m_hold (getm s (e_cls en))))).
Proof.
  intros He Hk Hp. cbn [leave]. rewrite He, Hk. cbn [orb negb andb].
  destruct Hp as [->|Hr]; [reflexivity|]. destruct pend; [rewrite Hr|]; reflexivity.
Qed.

End Clauses.

(* the reference model and the implementation model agree on a concrete non-trivial program
   (the general agreement is exercised by the correspondence run on every generated program) *)
Example spec_agrees_example :
  let case := (tb5, (true, false),
               CWithCtx (CSeq (CTry (CRequest 3 false false (Some true) (CRaise false)))
                              (CRequest 2 true true None (CRequest 0 false false None (CBody 1)))),
               @nil bool) in
  ctx_model case = spec_model case.
Proof. vm_compute. reflexivity. Qed.

(* D3 on a concrete run: reset=True tears the live lab-host (instance 0) down and hands over a fresh one (1),
   although an outer request still holds the machine *)
Example reset_example :
  ctx_model (tb5, (false, false),
             CRequest 0 false false None (CRequest 0 true false None (CBody 7)), @nil bool) =
  VL [VL [VL [VN 1; VN 0; VN 0]; VL [VN 3; VN 0; VN 0]; VL [VN 2; VN 0; VN 0]; VL [VN 1; VN 0; VN 1];
          VL [VN 3; VN 0; VN 1]; VL [VN 4; VN 7]; VL [VN 5; VN 0]; VL [VN 2; VN 0; VN 1]; VL [VN 5; VN 0]];
      VL []; VL [VN 0; VN 0; VN 0; VN 0; VN 0]]%Z.
Proof. vm_compute. reflexivity. Qed.
