(* ProofC16.v -- testcase events are well nested, end events are truthful, the CLI verdict is exact. *)
From TV Require Import Base Testcase.

(* induction over trees (children nested in a list of pairs) *)
Section TreeInd.
Variable P : tnode -> Prop.
Hypothesis Hnode : forall name form cs b, Forall (fun c => P (snd c)) cs -> P (TNode name form cs b).
Fixpoint tnode_ind' (t : tnode) : P t :=
  match t with
  | TNode name form cs b =>
      Hnode name form cs b
        ((fix go (cs : list (bool * tnode)) : Forall (fun c => P (snd c)) cs :=
            match cs with
            | [] => Forall_nil _
            | (fl, c) :: rest => Forall_cons (fl, c) (tnode_ind' c) (go rest)
            end) cs)
  end.
End TreeInd.

(* well-nested event lists *)
Inductive WN : list tev -> Prop :=
| WN_nil : WN []
| WN_node n s k mid : WN mid -> WN (TBegin n :: mid ++ [TEnd n s k])
| WN_app a b : WN a -> WN b -> WN (a ++ b).

Lemma run_node_unfold name form cs b :
  run_node (TNode name form cs b) =
  let (oc, ec) := run_children run_node cs in
  match body_out oc b with (o, s, k) => (o, TBegin name :: ec ++ [TEnd name s k]) end.
Proof. reflexivity. Qed.

Lemma run_children_WN cs :
  Forall (fun c => WN (snd (run_node (snd c)))) cs -> WN (snd (run_children run_node cs)).
Proof.
  induction 1 as [|[fl c] rest Hc _ IH]; simpl; [constructor|].
  simpl in Hc. destruct (run_node c) as [o e]. simpl in Hc.
  destruct o.
  - destruct (run_children run_node rest) as [o2 e2]. simpl in *. apply WN_app; assumption.
  - destruct fl; [|exact Hc]. destruct (run_children run_node rest) as [o2 e2]. simpl in *. apply WN_app; assumption.
  - exact Hc.
Qed.

(* (1) begin / end events are properly nested *)
Theorem events_well_nested t : WN (snd (run_node t)).
Proof.
  induction t as [name form cs b IH] using tnode_ind'. rewrite run_node_unfold.
  pose proof (run_children_WN cs IH) as Hc.
  destruct (run_children run_node cs) as [oc ec]. simpl in Hc.
  destruct (body_out oc b) as [[o s] k]. simpl. apply WN_node. exact Hc.
Qed.

(* (2) the shape of a testcase's events and the truthfulness of its end event *)
Theorem end_event_truthful name form cs b :
  exists mid oc s k,
    run_children run_node cs = (oc, mid) /\
    run_node (TNode name form cs b) = (fst (fst (body_out oc b)), TBegin name :: mid ++ [TEnd name s k]) /\
    (s, k) = (snd (fst (body_out oc b)), snd (body_out oc b)) /\
    (* success is reported exactly when the body finished without an exception (a skip yields success=True
       but is flagged skipped); skipped exactly when the body raised the skip exception itself *)
    (k = true <-> (oc = ONone /\ b = BSkip)) /\
    (s = true <-> (oc = ONone /\ (b = BPass \/ b = BSkip))) /\
    (* what the caller sees: nothing iff success was reported (so a skip yields None instead of propagating) *)
    (fst (fst (body_out oc b)) = ONone <-> s = true).
Proof.
  rewrite run_node_unfold. destruct (run_children run_node cs) as [oc mid].
  exists mid, oc, (snd (fst (body_out oc b))), (snd (body_out oc b)).
  split; [reflexivity|]. split; [destruct (body_out oc b) as [[o s] k]; reflexivity|]. split; [reflexivity|].
  destruct oc, b; simpl; repeat split; intros; try discriminate; try tauto;
    try (destruct H as [H1 H2]; try discriminate; destruct H2; discriminate); auto.
Qed.

(* (3) the log nesting level is back at its initial value: as many end events as begin events *)
Fixpoint depth (evs : list tev) (d : Z) : Z :=
  match evs with
  | [] => d
  | TBegin _ :: r => depth r (d + 1)
  | TEnd _ _ _ :: r => depth r (d - 1)
  | _ :: r => depth r d
  end.

Lemma depth_app a b d : depth (a ++ b) d = depth b (depth a d).
Proof. revert d; induction a as [|e a IH]; intros d; simpl; [reflexivity|]. destruct e; apply IH. Qed.

Lemma WN_depth evs : WN evs -> forall d, depth evs d = d.
Proof.
  induction 1 as [|n s k mid _ IH|a b _ IHa _ IHb]; intros d; simpl.
  - reflexivity.
  - rewrite depth_app, IH. simpl. lia.
  - rewrite depth_app, IHa, IHb. reflexivity.
Qed.

Theorem nesting_restored t d : depth (snd (run_node t)) d = d.
Proof. apply WN_depth. apply events_well_nested. Qed.

(* (4) the command line *)
Definition escapes (t : tnode) : Prop := fst (run_node t) <> ONone.

Theorem cli_verdict : forall ts evs code,
  run_cli ts = (evs, code) ->
  (* exit status 0 and a final SUCCESS event iff no exception escaped a top-level testcase *)
  (code = 0%Z <-> Forall (fun t => fst (run_node t) = ONone) ts) /\
  (code = 0%Z -> exists pre, evs = pre ++ [TTbotEnd true]) /\
  (* otherwise: the testcases up to and including the first failing one were run, none after it; the run ends
     with an exception event and FAILURE; 130 exactly for a keyboard interrupt *)
  (code <> 0%Z ->
     exists before t after,
       ts = before ++ t :: after /\ Forall (fun t0 => fst (run_node t0) = ONone) before /\ escapes t /\
       evs = flat_map (fun t0 => snd (run_node t0)) before ++ snd (run_node t)
             ++ [TExc (match fst (run_node t) with OKbd => true | _ => false end); TTbotEnd false] /\
       code = (match fst (run_node t) with OKbd => 130%Z | _ => 1%Z end)).
Proof.
  induction ts as [|t rest IH]; intros evs code H; simpl in H.
  - injection H as <- <-. split; [split; auto|]. split; [intros _; exists []; reflexivity | intros X; congruence].
  - destruct (run_node t) as [o e] eqn:Et. destruct o.
    + destruct (run_cli rest) as [e2 c2] eqn:Er. injection H as <- <-.
      destruct (IH _ _ eq_refl) as (A & B & C).
      split; [|split].
      * split.
        -- intros Hc. constructor; [rewrite Et; reflexivity | apply A; exact Hc].
        -- intros Hf. inversion Hf; subst. apply A. assumption.
      * intros Hc. destruct (B Hc) as [pre ->]. exists (e ++ pre). rewrite app_assoc. reflexivity.
      * intros Hc. destruct (C Hc) as (before & t0 & after & E1 & E2 & E3 & E4 & E5).
        exists (t :: before), t0, after. rewrite E1. split; [reflexivity|].
        split; [constructor; [rewrite Et; reflexivity | exact E2]|]. split; [exact E3|].
        split; [simpl; rewrite Et; simpl; rewrite E4, <- app_assoc; reflexivity | exact E5].
    + injection H as <- <-. split; [|split].
      * split; [discriminate|]. intros Hf. inversion Hf; subst. rewrite Et in *. discriminate.
      * discriminate.
      * intros _. exists [], t, rest. rewrite Et. simpl. repeat split; auto. unfold escapes. rewrite Et. discriminate.
    + injection H as <- <-. split; [|split].
      * split; [discriminate|]. intros Hf. inversion Hf; subst. rewrite Et in *. discriminate.
      * discriminate.
      * intros _. exists [], t, rest. rewrite Et. simpl. repeat split; auto. unfold escapes. rewrite Et. discriminate.
Qed.

Example cli_example :
  cli_model [TNode 0 0 [(true, TNode 1 2 [] BRaise); (false, TNode 2 1 [] BSkip)] BPass; TNode 3 0 [] BKbd; TNode 4 0 [] BPass] =
  VL [VL [VL [VN 1; VN 0]; VL [VN 1; VN 1]; VL [VN 2; VN 1; VN 0; VN 0]; VL [VN 1; VN 2]; VL [VN 2; VN 2; VN 1; VN 1];
          VL [VN 2; VN 0; VN 1; VN 0]; VL [VN 1; VN 3]; VL [VN 2; VN 3; VN 0; VN 0]; VL [VN 3; VN 1]; VL [VN 4; VN 0]];
      VN 130]%Z.
Proof. vm_compute. reflexivity. Qed.
