(* ProofC17.v -- EventIO stores everything once and prints exactly what it stores; the log parser reads back
   every document for every read size. *)
From TV Require Import Base BaseLemmas LogEvent.

(* ------------------------------------------------------------------ EventIO *)
Lemma emit_app pfx a : forall b nl out,
  emit pfx (a ++ b) nl out = let (nl', out') := emit pfx a nl out in emit pfx b nl' out'.
Proof. induction a as [|c a IH]; intros b nl out; simpl; [reflexivity | apply IH]. Qed.

(* the state of an enabled event after any sequence of writes: everything stored has been printed *)
Definition synced (pfx : list N) (e : evio) : Prop :=
  cursor e = length (stored e) /\ (nextline e, printed e) = emit pfx (stored e) true [].

Lemma synced0 pfx : synced pfx ev0.
Proof. split; reflexivity. Qed.

Lemma write_synced pfx s e :
  synced pfx e -> synced pfx (ev_write true pfx s e) /\ stored (ev_write true pfx s e) = stored e ++ sanitize s.
Proof.
  intros [Hc Hp]. unfold ev_write, print_stdout. cbn [negb cursor stored nextline printed].
  rewrite Hc, skipn_app_exact.
  destruct (emit pfx (sanitize s) (nextline e) (printed e)) as [nl out] eqn:E. cbn [andb].
  split; [|reflexivity]. split; cbn [cursor stored nextline printed].
  - rewrite app_length. reflexivity.
  - rewrite emit_app, <- Hp, E. reflexivity.
Qed.

Lemma writes_synced pfx ws : forall e,
  synced pfx e ->
  synced pfx (fold_left (fun e s => ev_write true pfx s e) ws e) /\
  stored (fold_left (fun e s => ev_write true pfx s e) ws e) = stored e ++ concat (map sanitize ws).
Proof.
  induction ws as [|w ws IH]; intros e H; simpl.
  - rewrite app_nil_r. auto.
  - destruct (write_synced pfx w e H) as [H1 H2]. destruct (IH _ H1) as [A B].
    split; [exact A|]. rewrite B, H2, <- app_assoc. reflexivity.
Qed.

(* everything written is stored once, in order (after the documented sanitising of each write) *)
Theorem stored_is_concat_sanitised en pfx ws :
  stored (ev_run en pfx ws) = concat (map sanitize ws).
Proof.
  unfold ev_run, ev_close.
  assert (G : forall e, stored (fold_left (fun e s => ev_write en pfx s e) ws e) = stored e ++ concat (map sanitize ws)).
  { induction ws as [|w ws IH]; intros e; simpl; [rewrite app_nil_r; reflexivity|].
    rewrite IH. unfold ev_write, print_stdout. destruct (negb en); cbn [stored].
    - rewrite <- app_assoc. reflexivity.
    - destruct (emit _ _ _ _). destruct (_ && _); cbn [stored]; rewrite <- app_assoc; reflexivity. }
  assert (S : forall e, stored (print_stdout en pfx true e) = stored e).
  { intros e. unfold print_stdout. destruct (negb en); [reflexivity|].
    destruct (emit _ _ _ _). destruct (_ && _); reflexivity. }
  rewrite S, G. reflexivity.
Qed.

(* what the terminal shows, for ANY splitting of the text over write calls: the stored text with the prefix at
   the start of every line, plus the final newline close() adds when the text does not end a line *)
Theorem printed_is_rendered pfx ws :
  let text := concat (map sanitize ws) in
  printed (ev_run true pfx ws) =
  (let (nl, out) := emit pfx text true [] in if nl then out else out ++ [LF]).
Proof.
  intros text. unfold ev_run, ev_close.
  destruct (writes_synced pfx ws ev0 (synced0 pfx)) as [[Hc Hp] Hs].
  set (e := fold_left (fun e s => ev_write true pfx s e) ws ev0) in *.
  simpl in Hs. unfold print_stdout. cbn [negb]. rewrite Hc.
  replace (skipn (length (stored e)) (stored e)) with (@nil N) by (symmetry; apply skipn_all).
  cbn [emit length]. rewrite Hs in Hp. fold text in Hp.
  destruct (emit pfx text true []) as [nl out]. injection Hp as -> ->.
  destruct nl; reflexivity.
Qed.

(* a constant prefix is the special case the theorems above speak about *)
Lemma ev_run_var_const en pfx ws : ev_run_var en (map (fun w => (pfx, w)) ws) pfx = ev_run en pfx ws.
Proof.
  unfold ev_run_var, ev_run. f_equal. generalize ev0. induction ws as [|w ws IH]; intros e; [reflexivity|].
  cbn [map fold_left fst snd]. apply IH.
Qed.

Theorem nothing_printed_above_verbosity pfx ws : printed (ev_run false pfx ws) = [].
Proof.
  unfold ev_run, ev_close, print_stdout. cbn [negb].
  assert (G : forall e, printed e = [] -> printed (fold_left (fun e s => ev_write false pfx s e) ws e) = []).
  { induction ws as [|w ws IH]; intros e H; simpl; [exact H|]. apply IH. exact H. }
  apply G. reflexivity.
Qed.

(* each stored character appears exactly once on the terminal: erase the inserted prefixes and the stored text
   is what remains.  The prefixes are tracked with markers (None = a prefix was inserted here). *)
Fixpoint emit_m (buf : list N) (nl : bool) (out : list (option N)) : bool * list (option N) :=
  match buf with
  | [] => (nl, out)
  | c :: buf' => emit_m buf' (is_nl c) ((if nl then out ++ [None] else out) ++ [Some c])
  end.

Definition expand (pfx : list N) (m : list (option N)) : list N :=
  flat_map (fun x => match x with None => pfx | Some c => [c] end) m.
Fixpoint somes (m : list (option N)) : list N :=
  match m with [] => [] | None :: r => somes r | Some c :: r => c :: somes r end.

Lemma expand_app pfx a b : expand pfx (a ++ b) = expand pfx a ++ expand pfx b.
Proof. unfold expand. apply flat_map_app. Qed.

Lemma somes_app a b : somes (a ++ b) = somes a ++ somes b.
Proof. induction a as [|[c|] a IH]; simpl; [reflexivity | rewrite IH; reflexivity | exact IH]. Qed.

Lemma emit_marked pfx buf : forall nl m,
  emit pfx buf nl (expand pfx m) = (fst (emit_m buf nl m), expand pfx (snd (emit_m buf nl m))) /\
  somes (snd (emit_m buf nl m)) = somes m ++ buf.
Proof.
  induction buf as [|c buf IH]; intros nl m; simpl.
  - rewrite app_nil_r. auto.
  - destruct (IH (is_nl c) ((if nl then m ++ [None] else m) ++ [Some c])) as [A B].
    split.
    + rewrite <- A. f_equal. rewrite expand_app. destruct nl; [rewrite expand_app|]; simpl; rewrite ?app_nil_r; reflexivity.
    + rewrite B, somes_app. destruct nl; [rewrite somes_app|]; simpl; rewrite <- ?app_assoc, ?app_nil_r; reflexivity.
Qed.

Theorem printed_characters_once pfx text :
  exists marks, render pfx text = expand pfx marks /\ somes marks = text.
Proof.
  unfold render. destruct (emit_marked pfx text true []) as [A B]. simpl in A, B.
  exists (snd (emit_m text true [])). rewrite A. auto.
Qed.

(* with an empty prefix the terminal shows exactly the stored text *)
Corollary render_without_prefix text : render [] text = text.
Proof.
  destruct (printed_characters_once [] text) as (m & A & B). rewrite A, <- B.
  clear. induction m as [|[c|] m IH]; simpl; [reflexivity | rewrite IH; reflexivity | exact IH].
Qed.

(* ------------------------------------------------------------------ the log parser *)
Section Framing.
Variable A : Type.
Variable enc : A -> list N.
Variable dec : list N -> option (A * nat).
Variable is_ws : N -> bool.

(* what is assumed of the JSON codec *)
Variable good : A -> Prop.          (* the documents the assumptions are made for *)
Hypothesis H1 : forall d rest, good d -> dec (enc d ++ rest) = Some (d, length (enc d)).
Hypothesis H2 : forall d p q, good d -> enc d = p ++ q -> q <> [] -> dec p = None.
Hypothesis H3 : forall d, good d -> exists c r, enc d = c :: r /\ is_ws c = false.
Hypothesis Hws : is_ws LF = true.
Hypothesis H0 : dec [] = None.

Definition file_of (docs : list A) : list N := flat_map (fun d => enc d ++ [LF]) docs.

Lemma lstrip_nonws c r : is_ws c = false -> lstrip is_ws (c :: r) = c :: r.
Proof. intros H. simpl. rewrite H. reflexivity. Qed.

Lemma lstrip_ws_app w s : Forall (fun c => is_ws c = true) w -> lstrip is_ws (w ++ s) = lstrip is_ws s.
Proof. induction 1 as [|c w Hc _ IH]; simpl; [reflexivity|]. rewrite Hc. exact IH. Qed.

Lemma file_starts docs : Forall good docs -> docs <> [] -> exists c r, file_of docs = c :: r /\ is_ws c = false.
Proof.
  destruct docs as [|d docs]; [congruence|]. intros G _. inversion G as [|? ? Gd Gs]; subst.
  destruct (H3 d Gd) as (c & r & E & Hc).
  exists c, (r ++ [LF] ++ file_of docs). simpl. rewrite E. simpl. rewrite <- app_assoc. auto.
Qed.

(* the invariant of the loop: what is still to be consumed (buf ++ rest) is blanks followed by the remaining
   documents; a non-empty buffer starts exactly at a document *)
Definition pinv (buf rest : list N) (docs : list A) : Prop :=
  exists w, buf ++ rest = w ++ file_of docs /\ Forall (fun c => is_ws c = true) w /\ (buf = [] \/ w = []).


Lemma lstrip_all_ws w : Forall (fun c => is_ws c = true) w -> lstrip is_ws w = [].
Proof. intros H. rewrite <- (app_nil_r w). rewrite lstrip_ws_app by exact H. reflexivity. Qed.

Lemma lstrip_len s : length (lstrip is_ws s) <= length s.
Proof. induction s as [|c s IH]; simpl; [lia|]. destruct (is_ws c); simpl; lia. Qed.


Lemma file_nil docs : Forall good docs -> file_of docs = [] -> docs = [].
Proof.
  destruct docs as [|d ds]; [reflexivity|]. intros G E.
  destruct (file_starts (d :: ds) G ltac:(discriminate)) as (c & r & E2 & _). congruence.
Qed.

Lemma Forall_skipn {T} (P : T -> Prop) n : forall l, Forall P l -> Forall P (skipn n l).
Proof. induction n as [|n IH]; intros l H; [exact H|]. destruct l; [constructor|]. inversion H; subst. apply IH; assumption. Qed.

Lemma Forall_firstn {T} (P : T -> Prop) n : forall l, Forall P l -> Forall P (firstn n l).
Proof. induction n as [|n IH]; intros l H; [constructor|]. destruct l; [constructor|]. inversion H; subst. constructor; auto. Qed.

Lemma parse_loop_correct n : 0 < n -> forall fuel buf rest docs acc,
  Forall good docs -> pinv buf rest docs -> length buf + 2 * length rest < fuel ->
  parse_loop A dec is_ws fuel n buf rest acc = rev acc ++ docs.
Proof.
  intros Hn. induction fuel as [|f IH]; intros buf rest docs acc G (w & E & Hw & Hor) Hf; [lia|].
  cbn [parse_loop].
  destruct buf as [|b0 buf0].
  - (* empty buffer: nothing decodes; read on *)
    rewrite H0. simpl in E.
    destruct rest as [|r0 rest0].
    + symmetry in E. apply app_eq_nil in E. destruct E as [_ E]. rewrite (file_nil _ G E), app_nil_r. reflexivity.
    + remember (r0 :: rest0) as rest eqn:Er.
      assert (Lr : 0 < length rest) by (subst rest; simpl; lia).
      apply IH; [exact G | |].
      * simpl. destruct (Nat.le_gt_cases n (length w)) as [Lw|Lw].
        -- exists (skipn n w). rewrite E. rewrite firstn_app, skipn_app.
           replace (n - length w) with 0 by lia. simpl. rewrite app_nil_r.
           rewrite lstrip_all_ws by (apply Forall_firstn; exact Hw).
           split; [reflexivity|]. split; [apply Forall_skipn; exact Hw | auto].
        -- exists []. rewrite E. rewrite firstn_app, skipn_app.
           rewrite (firstn_all2 w) by lia. rewrite (skipn_all2 w) by lia.
           rewrite lstrip_ws_app by exact Hw. simpl.
           split; [|split; [constructor | auto]].
           destruct docs as [|d ds].
           ++ simpl. rewrite firstn_nil, skipn_nil. reflexivity.
           ++ destruct (file_starts (d :: ds) G ltac:(discriminate)) as (c & r & E2 & Hc).
              rewrite E2. destruct (n - length w) as [|k] eqn:Ek; [lia|].
              cbn [firstn]. rewrite lstrip_nonws by exact Hc.
              change (c :: firstn k r) with (firstn (S k) (c :: r)). apply firstn_skipn.
      * pose proof (lstrip_len (firstn n rest)) as L1. simpl.
        rewrite firstn_length in L1. rewrite skipn_length. simpl in Hf. lia.
  - (* the buffer starts at a document *)
    destruct Hor as [Hor | ->]; [discriminate|]. simpl in E.
    destruct docs as [|d ds]; [discriminate|].
    remember (b0 :: buf0) as buf eqn:Eb.
    assert (E' : buf ++ rest = enc d ++ (LF :: file_of ds)).
    { subst buf. simpl. rewrite E. simpl. rewrite <- app_assoc. reflexivity. }
    assert (Gd : good d) by (inversion G; assumption).
    assert (Gs : Forall good ds) by (inversion G; assumption).
    destruct (H3 d Gd) as (c & r & Ec & Hc).
    assert (Hb0 : is_ws b0 = false).
    { subst buf. rewrite Ec in E'. simpl in E'. injection E' as -> _. exact Hc. }
    destruct (Nat.le_gt_cases (length (enc d)) (length buf)) as [L|L].
    + (* a whole document is in the buffer *)
      symmetry in E'. destruct (app_split_len _ _ _ _ E' L) as (tail & Et & Er).
      rewrite Et, H1 by exact Gd. rewrite skipn_app_exact.
      replace (rev acc ++ d :: ds) with (rev (d :: acc) ++ ds) by (simpl; rewrite <- app_assoc; reflexivity).
      assert (Lt : length (lstrip is_ws tail) < length buf).
      { pose proof (lstrip_len tail). rewrite Et, app_length, Ec. simpl. lia. }
      apply IH; [exact Gs | | lia].
      destruct tail as [|t0 t'].
      * exists [LF]. simpl in *. split; [congruence|]. split; [repeat constructor; exact Hws | auto].
      * simpl in Er. injection Er as Et0 Er. subst t0. simpl. rewrite Hws.
        destruct t' as [|t1 t''].
        -- exists []. simpl in *. split; [congruence|]. split; [constructor | auto].
        -- exists []. simpl in Er. destruct ds as [|d2 ds2]; [discriminate|].
           destruct (file_starts (d2 :: ds2) Gs ltac:(discriminate)) as (c2 & r2 & E2 & Hc2).
           assert (t1 = c2) as -> by (rewrite E2 in Er; congruence).
           rewrite lstrip_nonws by exact Hc2. simpl. split; [symmetry; exact Er|]. split; [constructor | auto].
    + (* only part of a document is in the buffer: it does not decode; read on *)
      destruct (app_split_len _ _ _ _ E' ltac:(lia)) as (q & Eq & Er).
      assert (Hq : q <> []) by (intros ->; rewrite app_nil_r in Eq; rewrite Eq in L; lia).
      rewrite (H2 d buf q Gd Eq Hq).
      destruct rest as [|r0 rest0].
      { exfalso. destruct q; [congruence | discriminate]. }
      remember (r0 :: rest0) as rest eqn:Err.
      assert (Lr : 0 < length rest) by (subst rest; simpl; lia).
      assert (Hs : lstrip is_ws (buf ++ firstn n rest) = buf ++ firstn n rest).
      { subst buf. simpl. rewrite Hb0. reflexivity. }
      rewrite Hs. apply IH; [exact G | |].
      * exists []. simpl. rewrite <- app_assoc, firstn_skipn.
        split; [|split; [constructor|auto]]. rewrite E'. simpl. rewrite <- app_assoc. reflexivity.
      * rewrite app_length, firstn_length, skipn_length. lia.
Qed.

(* every document written is read back, for EVERY read size n > 0 *)
Theorem parse_file_all_docs n docs : 0 < n -> Forall good docs -> parse_file A dec is_ws n (file_of docs) = docs.
Proof.
  intros Hn G. unfold parse_file.
  rewrite (parse_loop_correct n Hn _ _ _ docs [] G); [reflexivity | |].
  - exists []. simpl. rewrite firstn_skipn. split; [reflexivity|]. split; [constructor | auto].
  - pose proof (firstn_skipn n (file_of docs)) as E. apply (f_equal (@length N)) in E.
    rewrite app_length in E. lia.
Qed.

(* in particular the result does not depend on the read size *)
Corollary parse_file_chunk_independent n1 n2 docs : 0 < n1 -> 0 < n2 -> Forall good docs ->
  parse_file A dec is_ws n1 (file_of docs) = parse_file A dec is_ws n2 (file_of docs).
Proof. intros A1 A2 G. rewrite !parse_file_all_docs by assumption. reflexivity. Qed.
End Framing.

(* ------------------------------------------------------------------ the concrete object scanner meets the assumptions *)
Fixpoint scan' (s : list N) (depth : nat) (instr esc : bool) (pos : nat) : option nat :=
  match s with
  | [] => None
  | c :: s' =>
      if instr then
        if esc then scan' s' depth true false (S pos)
        else if N.eqb c 92%N then scan' s' depth true true (S pos)
        else if N.eqb c 34%N then scan' s' depth false false (S pos)
        else scan' s' depth true false (S pos)
      else if N.eqb c 34%N then scan' s' depth true false (S pos)
      else if N.eqb c 123%N then scan' s' (S depth) false false (S pos)
      else if N.eqb c 125%N then
        match depth with
        | 1 => Some (S pos)
        | O => None
        | S d => scan' s' d false false (S pos)
        end
      else scan' s' depth false false (S pos)
  end.

Ltac scan_cases c i e dp :=
  destruct i; [destruct e; [| destruct (N.eqb c 92%N); [| destruct (N.eqb c 34%N)]]
              | destruct (N.eqb c 34%N); [| destruct (N.eqb c 123%N); [| destruct (N.eqb c 125%N); [destruct dp as [|[|dp]]|]]]].

Lemma scan_fuel s : forall f dp i e pos, length s < f -> scan f s dp i e pos = scan' s dp i e pos.
Proof.
  induction s as [|c s IH]; intros f dp i e pos L; (destruct f as [|f]; [simpl in L; lia|]); cbn [scan scan']; [reflexivity|].
  simpl in L. scan_cases c i e dp; try reflexivity; apply IH; lia.
Qed.

Lemma scan_extend s : forall dp i e pos idx b, scan' s dp i e pos = Some idx -> scan' (s ++ b) dp i e pos = Some idx.
Proof.
  induction s as [|c s IH]; intros dp i e pos idx b H; cbn [scan' app] in *; [discriminate|].
  scan_cases c i e dp; try (apply IH; exact H); try exact H.
Qed.

Lemma scan_bound s : forall dp i e pos idx, scan' s dp i e pos = Some idx -> idx <= pos + length s.
Proof.
  induction s as [|c s IH]; intros dp i e pos idx H; cbn [scan' length] in *; [discriminate|].
  scan_cases c i e dp; try (apply IH in H; lia); try discriminate. injection H as <-. lia.
Qed.

(* the documents: byte strings the scanner accepts as exactly one object *)
Definition is_doc (s : list N) : Prop := dec_obj s = Some (s, length s).

Lemma is_doc_inv s : is_doc s -> exists r, s = 123%N :: r /\ scan' s 0 false false 0 = Some (length s).
Proof.
  unfold is_doc, dec_obj. destruct s as [|c r]; [discriminate|].
  destruct (N.eqb_spec c 123%N) as [->|]; [|discriminate].
  rewrite scan_fuel by lia. destruct (scan' _ _ _ _ _) as [idx|] eqn:E; [|discriminate].
  intros H. exists r. split; [reflexivity|]. f_equal. congruence.
Qed.

Lemma ws_json_lf : ws_json LF = true. Proof. reflexivity. Qed.

Lemma dec_obj_H1 d rest : is_doc d -> dec_obj (d ++ rest) = Some (d, length d).
Proof.
  intros H. destruct (is_doc_inv d H) as (r & -> & Hs). unfold dec_obj. cbn [app]. rewrite N.eqb_refl.
  change (123%N :: r ++ rest) with ((123%N :: r) ++ rest).
  rewrite scan_fuel by lia. rewrite (scan_extend _ _ _ _ _ _ rest Hs).
  rewrite firstn_app, firstn_all, Nat.sub_diag. simpl. rewrite app_nil_r. reflexivity.
Qed.

Lemma dec_obj_H2 d p q : is_doc d -> d = p ++ q -> q <> [] -> dec_obj p = None.
Proof.
  intros H E Hq. destruct (is_doc_inv d H) as (r & Er & Hs).
  unfold dec_obj. destruct p as [|c p']; [reflexivity|].
  destruct (N.eqb c 123%N); [|reflexivity]. rewrite scan_fuel by lia.
  destruct (scan' (c :: p') 0 false false 0) as [idx|] eqn:Es; [|reflexivity]. exfalso.
  pose proof (scan_bound _ _ _ _ _ _ Es) as B.
  apply (scan_extend _ _ _ _ _ _ q) in Es. rewrite <- E, Hs in Es. injection Es as <-.
  rewrite E, app_length in B. destruct q; [congruence|]. simpl in B. lia.
Qed.

Lemma dec_obj_H3 d : is_doc d -> exists c r, d = c :: r /\ ws_json c = false.
Proof. intros H. destruct (is_doc_inv d H) as (r & -> & _). exists 123%N, r. auto. Qed.

(* the parser of tbot.log's consumers (tools/logparser.py) reads back every object line, whatever the read size *)
Theorem logparser_reads_back n docs : 0 < n -> Forall is_doc docs ->
  parse_file (list N) dec_obj ws_json n (flat_map (fun d => d ++ [LF]) docs) = docs.
Proof.
  intros Hn G.
  exact (parse_file_all_docs (list N) (fun d => d) dec_obj ws_json is_doc dec_obj_H1
           (fun d p q Gd E Hq => dec_obj_H2 d p q Gd E Hq) dec_obj_H3 ws_json_lf eq_refl n docs Hn G).
Qed.

(* the hypotheses are met by real log lines: nested objects, braces and escaped quotes inside strings *)
Example is_doc_example :
  is_doc [123;34;97;34;58;123;34;98;34;58;34;125;92;34;123;34;125;44;34;99;34;58;91;49;93;125]%N.
Proof. vm_compute. reflexivity. Qed.
