(* ProofC18.v -- bring-up of a Linux console: for EVERY console behaviour the configured boot timeout is one
   deadline for the whole login stage, the bring-up never blocks when a timeout is configured, and nothing is
   sent before the prompt it answers has been received. *)
From TV Require Import Base BaseLemmas Utf8 Regex Channel ChannelLemmas ProofC02 ProofC03 ProofC06 Hush Session Boot.

(* ------------------------------------------------------------------ reading never changes the send configuration *)
Lemma iter_step_slow start tmo n c r c' : iter_step start tmo n c = (r, c') -> slow c' = slow c /\ wr (io c') = wr (io c).
Proof.
  unfold iter_step. destruct (match _ with Some r0 => (r0 <=? 0)%Z | None => false end).
  { intros [= <- <-]. auto. }
  destruct (io_read _ _ _) as [res io'] eqn:Eio.
  assert (Hwr : wr io' = wr (io c)).
  { unfold io_read in Eio. destruct n as [|n']; [injection Eio as _ <-; reflexivity|]. cbn [log_read pend now accept iolog wr] in Eio.
    destruct (pend (io c)) as [|[at_ d] rest].
    - destruct (match tmo with None => None | Some T => Some (T - (now (io c) - start))%Z end); injection Eio as _ <-; reflexivity.
    - unfold deliver in Eio. cbn [pend now accept iolog wr] in Eio.
      destruct (at_ <=? now (io c))%Z; [injection Eio as _ <-; reflexivity|].
      destruct (match tmo with None => None | Some T => Some (T - (now (io c) - start))%Z end) as [T0|]; [|injection Eio as _ <-; reflexivity].
      destruct (at_ <? now (io c) + T0)%Z; injection Eio as _ <-; reflexivity. }
  destruct res as [new| |].
  - destruct (write_stream_frame new (with_io c io')) as (W1 & _ & _ & _ & W5 & _).
    destruct (check new (write_stream new (with_io c io'))) as [[[e mt]|] c2] eqn:Ec;
      destruct (check_frame _ _ _ _ Ec) as (C1 & _ & _ & _ & C5 & _); intros [= <- <-];
      rewrite C5, W5, C1, W1; cbn; auto.
  - intros [= <- <-]. cbn. auto.
  - intros [= <- <-]. cbn. auto.
Qed.

Lemma rup_loop_slow fuel : forall start tmo buf c r c',
  rup_loop fuel start tmo buf c = (r, c') -> slow c' = slow c /\ wr (io c') = wr (io c).
Proof.
  induction fuel as [|f IH]; intros start tmo buf c r c' H; [injection H as <- <-; auto|].
  rewrite rup_loop_step in H. destruct (iter_step start tmo READ_CHUNK_SIZE c) as [s c1] eqn:Es.
  destruct (iter_step_slow _ _ _ _ _ _ Es) as [A B].
  destruct s; try (injection H as <- <-; auto).
  destruct (prompt_split _ _); [injection H as <- <-; auto|].
  apply IH in H. destruct H as [A' B']. split; congruence.
Qed.

Lemma rup_slow p tmo c r c' : read_until_prompt p tmo c = (r, c') -> slow c' = slow c /\ wr (io c') = wr (io c).
Proof.
  unfold read_until_prompt. destruct p as [p'|].
  - destruct (rup_loop _ _ _ _ _) as [r1 c1] eqn:E. intros [= <- <-]. apply rup_loop_slow in E. cbn in *. exact E.
  - apply rup_loop_slow.
Qed.

Lemma expect_loop_slow fuel : forall start tmo pats buf c r c',
  expect_loop fuel start tmo pats buf c = (r, c') -> slow c' = slow c /\ wr (io c') = wr (io c).
Proof.
  induction fuel as [|f IH]; intros start tmo pats buf c r c' H; [injection H as <- <-; auto|].
  rewrite expect_loop_step in H. destruct (iter_step start tmo READ_CHUNK_SIZE c) as [s c1] eqn:Es.
  destruct (iter_step_slow _ _ _ _ _ _ Es) as [A B].
  destruct s; try (injection H as <- <-; auto).
  destruct (try_patterns _ _ _); [injection H as <- <-; auto|].
  apply IH in H. destruct H as [A' B']. split; congruence.
Qed.

Lemma rut_loop_slow fuel : forall start tmo buf c r c',
  rut_loop fuel start tmo buf c = (r, c') -> slow c' = slow c /\ wr (io c') = wr (io c).
Proof.
  induction fuel as [|f IH]; intros start tmo buf c r c' H; [injection H as <- <-; auto|].
  rewrite rut_loop_step in H. destruct (iter_step start tmo READ_CHUNK_SIZE c) as [s c1] eqn:Es.
  destruct (iter_step_slow _ _ _ _ _ _ Es) as [A B].
  destruct s; try (injection H as <- <-; auto).
  apply IH in H. destruct H as [A' B']. split; congruence.
Qed.

(* ------------------------------------------------------------------ sending a line takes no time *)
Lemma send_loop_nrb_time fuel : forall start s c r c',
  slow c = None -> send_loop fuel start s false None c = (r, c') -> nowc c' = nowc c /\ slow c' = None.
Proof.
  induction fuel as [|f IH]; intros start s c r c' Hs H.
  - destruct s; cbn in H; injection H as <- <-; auto.
  - destruct s as [|x s0]; [cbn in H; injection H as <- <-; auto|].
    rewrite send_loop_cons_nrb in H.
    destruct (write (firstn SEND_SLICE (x :: s0)) false c) as [r1 c1] eqn:Ew.
    destruct (write_keeps_time _ _ _ _ _ Hs Ew) as [T1 S1].
    destruct r1; try (injection H as <- <-; auto).
    apply IH in H; [|exact S1]. destruct H as [T2 S2]. split; congruence.
Qed.

Lemma line_noback_time s sts c r c' sts' :
  slow c = None -> line_noback s sts c = (r, c', sts') -> nowc c' = nowc c /\ slow c' = None.
Proof.
  intros Hs. unfold line_noback. destruct (sendline _ _ _ _) as [r1 c1] eqn:E. intros [= <- <- <-].
  unfold sendline, send in E. destruct (any_in _ _).
  - injection E as <- <-. cbn. auto.
  - apply send_loop_nrb_time in E; [|exact Hs]. exact E.
Qed.

(* ------------------------------------------------------------------ one deadline for the whole stage *)
Definition never_blocks (r : bres) : Prop := r <> BErr EBlocked.

Lemma berr_blocked {A} (e : res A) : e <> EBlocked -> never_blocks (berr e).
Proof. unfold never_blocks, berr. destruct e; cbn; congruence. Qed.

Lemma remaining_some cfg T start c rem :
  b_timeout cfg = Some T -> remaining cfg start c = Some rem ->
  exists r, rem = Some r /\ (0 < r)%Z /\ (nowc c + r = start + T)%Z.
Proof.
  unfold remaining. intros ->. destruct (T - (now (io c) - start) <=? 0)%Z eqn:E; [discriminate|].
  intros [= <-]. apply Z.leb_gt in E. eexists. split; [reflexivity|]. unfold nowc. lia.
Qed.

Theorem login_deadline cfg T start sts c r c' sts' :
  b_timeout cfg = Some T -> (0 <= b_login_delay cfg)%Z -> (forall n, b_nopw cfg = Some n -> 0 <= n)%Z ->
  slow c = None -> (nowc c <= start + T)%Z ->
  login_step cfg start sts c = (r, c', sts') ->
  (nowc c' <= start + T)%Z /\ never_blocks r.
Proof.
  intros HT Hd Hn Hs Hle. unfold login_step.
  destruct (remaining cfg start c) as [rem0|] eqn:R0; [|intros [= <- <- <-]; split; [exact Hle | unfold never_blocks; congruence]].
  destruct (remaining_some _ _ _ _ _ HT R0) as (r0 & -> & P0 & Q0).
  destruct (read_until_prompt (Some (SLit LOGIN_P)) (Some r0) c) as [e1 c1] eqn:E1.
  assert (H0r : (0 <= r0)%Z) by lia.
  destruct (deadline_read_until_prompt _ r0 _ _ _ H0r E1) as (D1 & _ & B1).
  destruct (rup_slow _ _ _ _ _ E1) as [S1 _]. rewrite Hs in S1.
  destruct e1 as [out1| | | | | |]; try (intros [= <- <- <-]; split; [lia | unfold never_blocks, berr; cbn; congruence]).
  (* the continuation after the (optional) delay *)
  assert (K : forall c5 sts5 r5 c5' sts5',
             slow c5 = None -> (nowc c5 <= start + T)%Z ->
             (match line_noback (utf8_enc (b_user cfg)) sts5 c5 with
              | (Ret _, c6, sts6) =>
                  match b_password cfg with
                  | None => (BOk, c6, sts6)
                  | Some pw =>
                      match remaining cfg start c6 with
                      | None => (BTimeout, c6, sts6)
                      | Some rem =>
                          let tmo := match b_nopw cfg, rem with
                                     | None, _ => rem
                                     | Some n, None => Some n
                                     | Some n, Some r => Some (Z.min r n)
                                     end in
                          match read_until_prompt (Some (SLit PASSWORD_P)) tmo c6 with
                          | (Ret _, c7) =>
                              match line_noback (utf8_enc pw) sts6 c7 with
                              | (Ret _, c8, sts8) => (BOk, c8, sts8)
                              | (e, c8, sts8) => (berr e, c8, sts8)
                              end
                          | (ETimeout, c7) =>
                              match remaining cfg start c7 with
                              | None => (BTimeout, c7, sts6)
                              | Some _ => (BOk, c7, sts6)
                              end
                          | (e, c7) => (berr e, c7, sts6)
                          end
                      end
                  end
              | (e, c6, sts6) => (berr e, c6, sts6)
              end) = (r5, c5', sts5') ->
             (nowc c5' <= start + T)%Z /\ never_blocks r5).
  { intros c5 sts5 r5 c5' sts5' Hs5 Hle5.
    destruct (line_noback (utf8_enc (b_user cfg)) sts5 c5) as [[e6 c6] sts6] eqn:E6.
    destruct (line_noback_time _ _ _ _ _ _ Hs5 E6) as [T6 S6].
    assert (SOK5 : slow_ok (load (hd_stage sts5) c5)) by (unfold slow_ok, load; cbn; rewrite Hs5; exact I).
    assert (NB6 : e6 <> EBlocked).
    { unfold line_noback in E6. destruct (sendline _ _ _ _) as [x y] eqn:Ex. injection E6 as <- <- <-.
      unfold sendline, send in Ex. destruct (any_in _ _); [injection Ex as <- _; discriminate|].
      intros ->. destruct (send_loop_nrb_spec _ _ _ _ _ _ _ SOK5 (Nat.lt_succ_diag_r _) Ex)
        as (? & ? & _ & _ & _ & _ & [[X _]|[X _]]); discriminate. }
    destruct e6 as [u6| | | | | |]; try (intros [= <- <- <-]; split; [lia | unfold never_blocks, berr; cbn; congruence]).
    destruct (b_password cfg) as [pw|]; [|intros [= <- <- <-]; split; [lia | unfold never_blocks; congruence]].
    destruct (remaining cfg start c6) as [rem|] eqn:R6; [|intros [= <- <- <-]; split; [lia | unfold never_blocks; congruence]].
    destruct (remaining_some _ _ _ _ _ HT R6) as (r6 & -> & P6 & Q6).
    set (tmo := match b_nopw cfg with None => Some r6 | Some n => Some (Z.min r6 n) end).
    assert (Htmo : exists t, tmo = Some t /\ (0 <= t <= r6)%Z).
    { unfold tmo. destruct (b_nopw cfg) as [n|] eqn:En; [exists (Z.min r6 n); split; [reflexivity|]; specialize (Hn n eq_refl); lia|].
      exists r6. split; [reflexivity | lia]. }
    destruct Htmo as (t & Et & Ht).
    replace (match b_nopw cfg with None => Some r6 | Some n => Some (Z.min r6 n) end) with tmo by reflexivity.
    rewrite Et. cbv zeta.
    destruct (read_until_prompt (Some (SLit PASSWORD_P)) (Some t) c6) as [e7 c7] eqn:E7.
    assert (H0t : (0 <= t)%Z) by lia.
    destruct (deadline_read_until_prompt _ t _ _ _ H0t E7) as (D7 & _ & B7).
    destruct (rup_slow _ _ _ _ _ E7) as [S7 _]. rewrite S6 in S7.
    destruct e7 as [o7| | | | | |]; try (intros [= <- <- <-]; split; [lia | unfold never_blocks, berr; cbn; congruence]).
    - destruct (line_noback (utf8_enc pw) sts6 c7) as [[e8 c8] sts8] eqn:E8.
      destruct (line_noback_time _ _ _ _ _ _ S7 E8) as [T8 S8].
      assert (SOK7 : slow_ok (load (hd_stage sts6) c7)) by (unfold slow_ok, load; cbn; rewrite S7; exact I).
      assert (NB8 : e8 <> EBlocked).
      { unfold line_noback in E8. destruct (sendline _ _ _ _) as [x y] eqn:Ex. injection E8 as <- <- <-.
        unfold sendline, send in Ex. destruct (any_in _ _); [injection Ex as <- _; discriminate|].
        intros ->. destruct (send_loop_nrb_spec _ _ _ _ _ _ _ SOK7 (Nat.lt_succ_diag_r _) Ex)
          as (? & ? & _ & _ & _ & _ & [[X _]|[X _]]); discriminate. }
      destruct e8 as [u8| | | | | |]; intros HH; injection HH as <- <- <-; (split; [lia | unfold never_blocks, berr; cbn; congruence]).
    - destruct (remaining cfg start c7); intros [= <- <- <-]; (split; [lia | unfold never_blocks; congruence]). }
  destruct (b_login_delay cfg =? 0)%Z eqn:Ed0; [apply K; [exact S1 | lia]|].
  destruct (remaining cfg start c1) as [rem1|] eqn:R1; [|intros [= <- <- <-]; split; [lia | unfold never_blocks; congruence]].
  destruct (remaining_some _ _ _ _ _ HT R1) as (r1 & -> & P1 & Q1).
  destruct (r1 <? b_login_delay cfg)%Z eqn:Elt; [intros [= <- <- <-]; split; [lia | unfold never_blocks; congruence]|].
  apply Z.ltb_ge in Elt.
  destruct (read_until_timeout (Some (b_login_delay cfg)) c1) as [e2 c2] eqn:E2.
  destruct (deadline_read_until_timeout _ _ _ _ Hd E2) as (D2 & _ & B2 & _).
  assert (S2 : slow c2 = None) by (unfold read_until_timeout in E2; apply rut_loop_slow in E2; destruct E2 as [X _]; congruence).
  destruct e2 as [o2| | | | | |]; try (intros [= <- <- <-]; split; [lia | unfold never_blocks, berr; cbn; congruence]).
  destruct (line_noback [] sts c2) as [[e3 c3] sts1] eqn:E3.
  destruct (line_noback_time _ _ _ _ _ _ S2 E3) as [T3 S3].
  assert (SOK2 : slow_ok (load (hd_stage sts) c2)) by (unfold slow_ok, load; cbn; rewrite S2; exact I).
  assert (NB3 : e3 <> EBlocked).
  { unfold line_noback in E3. destruct (sendline _ _ _ _) as [x y] eqn:Ex. injection E3 as <- <- <-.
    unfold sendline, send in Ex. destruct (any_in _ _); [injection Ex as <- _; discriminate|].
    intros ->. destruct (send_loop_nrb_spec _ _ _ _ _ _ _ SOK2 (Nat.lt_succ_diag_r _) Ex)
      as (? & ? & _ & _ & _ & _ & [[X _]|[X _]]); discriminate. }
  destruct e3 as [u3| | | | | |]; try (intros [= <- <- <-]; split; [lia | unfold never_blocks, berr; cbn; congruence]).
  destruct (remaining cfg start c3) as [rem3|] eqn:R3; [|intros [= <- <- <-]; split; [lia | unfold never_blocks; congruence]].
  destruct (remaining_some _ _ _ _ _ HT R3) as (r3 & -> & P3 & Q3).
  destruct (read_until_prompt (Some (SLit LOGIN_P)) (Some r3) c3) as [e4 c4] eqn:E4.
  assert (H0r3 : (0 <= r3)%Z) by lia.
  destruct (deadline_read_until_prompt _ r3 _ _ _ H0r3 E4) as (D4 & _ & B4).
  destruct (rup_slow _ _ _ _ _ E4) as [S4 _]. rewrite S3 in S4.
  destruct e4 as [o4| | | | | |]; try (intros [= <- <- <-]; split; [lia | unfold never_blocks, berr; cbn; congruence]).
  apply K; [exact S4 | lia].
Qed.

Lemma expect_slow pats tmo c r c' : expect pats tmo c = (r, c') -> slow c' = slow c /\ wr (io c') = wr (io c).
Proof. unfold expect. apply expect_loop_slow. Qed.

(* the whole bring-up of the Linux console (askfirst banner, login, password): ONE deadline, and it never blocks *)
Theorem bringup_deadline cfg T sts c r c' sts' :
  b_timeout cfg = Some T -> (0 <= T)%Z -> (0 <= b_login_delay cfg)%Z -> (forall n, b_nopw cfg = Some n -> 0 <= n)%Z ->
  slow c = None ->
  bringup cfg sts c = (r, c', sts') ->
  (nowc c' <= nowc c + T)%Z /\ never_blocks r.
Proof.
  intros HT H0 Hd Hn Hs. unfold bringup. change (now (io c)) with (nowc c).
  destruct (b_askfirst cfg).
  - unfold askfirst_step. rewrite HT.
    destruct (expect [SLit ASKFIRST_P] (Some T) c) as [e1 c1] eqn:E1.
    destruct (deadline_expect _ _ _ _ _ H0 E1) as (D1 & _ & B1).
    destruct (expect_slow _ _ _ _ _ E1) as [S1 _]. rewrite Hs in S1.
    destruct e1 as [o1| | | | | |]; try (intros HH; injection HH as <- <- <-; split; [lia | unfold never_blocks, berr; cbn; congruence]).
    destruct (line_noback [] sts c1) as [[e2 c2] sts2] eqn:E2.
    destruct (line_noback_time _ _ _ _ _ _ S1 E2) as [T2 S2].
    assert (SOK : slow_ok (load (hd_stage sts) c1)) by (unfold slow_ok, load; cbn; rewrite S1; exact I).
    assert (NB2 : e2 <> EBlocked).
    { unfold line_noback in E2. destruct (sendline _ _ _ _) as [x y] eqn:Ex. injection E2 as <- <- <-.
      unfold sendline, send in Ex. destruct (any_in _ _); [injection Ex as <- _; discriminate|].
      intros ->. destruct (send_loop_nrb_spec _ _ _ _ _ _ _ SOK (Nat.lt_succ_diag_r _) Ex)
        as (? & ? & _ & _ & _ & _ & [[X _]|[X _]]); discriminate. }
    destruct e2 as [u2| | | | | |]; try (intros HH; injection HH as <- <- <-; split; [lia | unfold never_blocks, berr; cbn; congruence]).
    intros HL. apply (login_deadline cfg T (nowc c) sts2 c2 r c' sts' HT Hd Hn S2 ltac:(lia) HL).
  - intros HL. apply (login_deadline cfg T (nowc c) sts c r c' sts' HT Hd Hn Hs ltac:(lia) HL).
Qed.

(* nothing is sent before the login prompt has been received: when the wait for the prompt does not return,
   the transport has seen no byte from the login stage *)
Theorem nothing_sent_without_login_prompt cfg start sts c r c' sts' :
  login_step cfg start sts c = (r, c', sts') ->
  (forall rem out c1, remaining cfg start c = Some rem -> read_until_prompt (Some (SLit LOGIN_P)) rem c <> (Ret out, c1)) ->
  wr (io c') = wr (io c) /\ r <> BOk.
Proof.
  unfold login_step. intros H Hno.
  destruct (remaining cfg start c) as [rem0|] eqn:R0; [|injection H as <- <- <-; split; [reflexivity | discriminate]].
  destruct (read_until_prompt (Some (SLit LOGIN_P)) rem0 c) as [e1 c1] eqn:E1.
  destruct (rup_slow _ _ _ _ _ E1) as [_ W1].
  destruct e1 as [o1| | | | | |]; [exfalso; exact (Hno rem0 o1 c1 eq_refl E1)| | | | | |];
    injection H as <- <- <-; (split; [exact W1 | unfold berr; cbn; discriminate]).
Qed.

(* when the wait returns, what was received ends with the login prompt (C02's theorem for the per-call prompt) *)
Theorem login_prompt_was_received rem c out c1 :
  wfc c -> read_until_prompt (Some (SLit LOGIN_P)) rem c = (Ret out, c1) ->
  exists data, data <> [] /\ cpend c = data ++ cpend c1 /\ is_suffix LOGIN_P data = true.
Proof.
  intros Hw. unfold read_until_prompt.
  destruct (rup_loop _ _ _ _ _) as [r1 c2] eqn:E. intros HH. injection HH as -> <-.
  assert (Hw' : wfc (with_prompt c (Some (SLit LOGIN_P)))) by exact Hw.
  destruct (rup_loop_sound _ _ _ _ (with_prompt c (Some (SLit LOGIN_P))) _ _ Hw' E) as (data & k & Hne & Hc & Hk & _).
  exists data. split; [exact Hne|]. split; [exact Hc|]. cbn in Hk.
  destruct (is_suffix LOGIN_P data); [reflexivity | discriminate].
Qed.

(* ================================================================== the U-Boot stage *)
Lemma write_raw_time s sts c r c' sts' :
  slow c = None -> write_raw s sts c = (r, c', sts') -> nowc c' = nowc c /\ slow c' = None /\ r <> EBlocked.
Proof.
  intros Hs. unfold write_raw. destruct s as [|x s0]; [intros [= <- <- <-]; split; [reflexivity|]; split; [exact Hs | discriminate]|].
  destruct (write (x :: s0) true (load (hd_stage sts) c)) as [r1 c1] eqn:E. intros [= <- <- <-].
  assert (Hs' : slow (load (hd_stage sts) c) = None) by exact Hs.
  destruct (write_keeps_time _ _ _ _ _ Hs' E) as [T1 S1]. split; [exact T1|]. split; [exact S1|].
  assert (SOK : slow_ok (load (hd_stage sts) c)) by (unfold slow_ok; rewrite Hs'; exact I).
  destruct (write_complete _ _ _ _ _ SOK E) as [(-> & _) | (-> & _)]; discriminate.
Qed.

(* the prompt poll loop: the deadline is looked at once per iteration (0.5 s wait + 0.5 s sleep), so the loop ends
   no later than one polling interval after the deadline -- whatever the console does *)
Theorem poll_loop_deadline fuel : forall cfg T start sts c r c' sts',
  u_timeout cfg = Some T -> slow c = None ->
  (nowc c <= start + T + 2 * HALF)%Z ->
  poll_loop fuel cfg start sts c = (r, c', sts') ->
  (nowc c' <= start + T + 2 * HALF)%Z /\ never_blocks r.
Proof.
  induction fuel as [|f IH]; intros cfg T start sts c r c' sts' HT Hs Hle; cbn [poll_loop].
  - intros [= <- <- <-]. split; [exact Hle | unfold never_blocks; congruence].
  - rewrite HT. change (now (io c)) with (nowc c).
    destruct (T <? nowc c - start)%Z eqn:Eh; [intros [= <- <- <-]; split; [exact Hle | unfold never_blocks; congruence]|].
    apply Z.ltb_ge in Eh.
    destruct (read_until_prompt None (Some HALF) c) as [e1 c1] eqn:E1.
    assert (HH : (0 <= HALF)%Z) by (unfold HALF; lia).
    destruct (deadline_read_until_prompt _ HALF _ _ _ HH E1) as (D1 & _ & B1).
    destruct (rup_slow _ _ _ _ _ E1) as [S1 _]. rewrite Hs in S1.
    destruct e1 as [o1| | | | | |]; try (intros HX; injection HX as <- <- <-; split; [unfold HALF in *; lia | unfold never_blocks, berr; cbn; congruence]).
    destruct (write_raw [3%N] sts c1) as [[e2 c2] sts2] eqn:E2.
    destruct (write_raw_time _ _ _ _ _ _ S1 E2) as (T2 & S2 & B2).
    destruct e2 as [u2| | | | | |]; try (intros HX; injection HX as <- <- <-; split; [unfold HALF in *; lia | unfold never_blocks, berr; cbn; congruence]).
    intros HL. apply (IH cfg T start sts2 _ r c' sts' HT) in HL; [exact HL | exact S2|].
    unfold nowc, io_sleep. cbn. unfold nowc in *. unfold HALF in *. lia.
Qed.

Theorem uboot_deadline fuel cfg T sts c r c' sts' :
  u_timeout cfg = Some T -> (0 <= T)%Z -> slow c = None ->
  uboot_bringup fuel cfg sts c = (r, c', sts') ->
  (nowc c' <= nowc c + T + 2 * HALF)%Z /\ never_blocks r.
Proof.
  intros HT H0 Hs. unfold uboot_bringup. change (now (io c)) with (nowc c).
  destruct (u_autoboot cfg).
  - rewrite HT. replace (T - (nowc c - nowc c))%Z with T by lia.
    destruct (read_until_prompt (Some (SRe AUTOBOOT_RE)) (Some T) c) as [e1 c1] eqn:E1.
    destruct (deadline_read_until_prompt _ T _ _ _ H0 E1) as (D1 & _ & B1).
    destruct (rup_slow _ _ _ _ _ E1) as [S1 _]. rewrite Hs in S1.
    destruct e1 as [o1| | | | | |]; try (intros HX; injection HX as <- <- <-; split; [unfold HALF; lia | unfold never_blocks, berr; cbn; congruence]).
    destruct (write_raw (u_keys cfg) sts c1) as [[e2 c2] sts2] eqn:E2.
    destruct (write_raw_time _ _ _ _ _ _ S1 E2) as (T2 & S2 & B2).
    destruct e2 as [u2| | | | | |]; try (intros HX; injection HX as <- <- <-; split; [unfold HALF; lia | unfold never_blocks, berr; cbn; congruence]).
    intros HL. apply (poll_loop_deadline fuel cfg T (nowc c) sts2 _ r c' sts' HT) in HL; [exact HL | exact S2|].
    unfold nowc in *. cbn. unfold HALF. lia.
  - intros HL. apply (poll_loop_deadline fuel cfg T (nowc c) sts _ r c' sts' HT) in HL; [exact HL | exact Hs|].
    unfold nowc. cbn. unfold HALF. lia.
Qed.
