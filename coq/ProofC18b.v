(* ProofC18b.v -- what the login stage writes: the password only after the password prompt was received. *)
From TV Require Import Base BaseLemmas Utf8 Regex Channel ChannelLemmas ProofC02 ProofC03 ProofC06 Hush Session Boot ProofC18.

Lemma load_wr st c : wr (io (load st c)) = wr (io c) /\ slow (load st c) = slow c /\ blacklist (load st c) = blacklist c.
Proof. unfold load. cbn. auto. Qed.

(* a line sent without read-back: either the whole line (and its CR) reaches the transport, or nothing does *)
Lemma line_noback_wr s sts c r c' sts' :
  slow_ok c -> line_noback s sts c = (r, c', sts') ->
  (r = Ret tt /\ wr (io c') = wr (io c) ++ s ++ [CR]) \/ (r = EIllegal /\ wr (io c') = wr (io c)).
Proof.
  intros Hs. unfold line_noback. destruct (sendline _ _ _ _) as [r1 c1] eqn:E. intros [= <- <- <-].
  destruct (load_wr (hd_stage sts) c) as (W & S & B).
  assert (Hs' : slow_ok (load (hd_stage sts) c)) by (unfold slow_ok in *; rewrite S; exact Hs).
  unfold sendline in E. destruct (send_prefix _ _ _ _ Hs' E) as [(-> & A & _) | (-> & -> & _)].
  - left. split; [reflexivity|]. rewrite A, W. reflexivity.
  - right. split; [reflexivity | exact W].
Qed.

Lemma rut_slow tmo c r c' : read_until_timeout tmo c = (r, c') -> slow c' = slow c /\ wr (io c') = wr (io c).
Proof. unfold read_until_timeout. apply rut_loop_slow. Qed.

Lemma none_ok c : slow c = None -> slow_ok c.
Proof. intros H. unfold slow_ok. rewrite H. exact I. Qed.

(* on a console where the wait for the password prompt never returns, the login stage writes at most the Enter after
   the login delay and the user name -- never the password *)
Theorem password_only_after_prompt cfg start sts c r c' sts' :
  slow c = None ->
  (forall tmo cx out cy, read_until_prompt (Some (SLit PASSWORD_P)) tmo cx <> (Ret out, cy)) ->
  login_step cfg start sts c = (r, c', sts') ->
  exists pre u, wr (io c') = wr (io c) ++ pre ++ u /\
    (pre = [] \/ pre = [CR]) /\ (u = [] \/ u = utf8_enc (b_user cfg) ++ [CR]).
Proof.
  intros Hs Hno. unfold login_step.
  assert (Z0 : exists pre u, wr (io c) = wr (io c) ++ pre ++ u /\ (pre = [] \/ pre = [CR]) /\ (u = [] \/ u = utf8_enc (b_user cfg) ++ [CR])).
  { exists [], []. rewrite app_nil_r. auto. }
  destruct (remaining cfg start c) as [rem0|]; [|intros [= <- <- <-]; exact Z0].
  destruct (read_until_prompt (Some (SLit LOGIN_P)) rem0 c) as [e1 c1] eqn:E1.
  destruct (rup_slow _ _ _ _ _ E1) as [S1 W1]. rewrite Hs in S1.
  destruct e1 as [o1| | | | | |]; try (intros [= <- <- <-]; rewrite W1; exact Z0).
  assert (K : forall pre c5 sts5 r5 c5' sts5',
             slow c5 = None -> wr (io c5) = wr (io c) ++ pre -> (pre = [] \/ pre = [CR]) ->
             (match line_noback (utf8_enc (b_user cfg)) sts5 c5 with
              | (Ret _, c6, sts6) =>
                  match b_password cfg with
                  | None => (BOk, c6, sts6)
                  | Some pw =>
                      match remaining cfg start c6 with
                      | None => (BTimeout, c6, sts6)
                      | Some rem =>
                          let tmo := match b_nopw cfg, rem with
                                     | None, _ => rem
                                     | Some n, None => Some n
                                     | Some n, Some r => Some (Z.min r n)
                                     end in
                          match read_until_prompt (Some (SLit PASSWORD_P)) tmo c6 with
                          | (Ret _, c7) =>
                              match line_noback (utf8_enc pw) sts6 c7 with
                              | (Ret _, c8, sts8) => (BOk, c8, sts8)
                              | (e, c8, sts8) => (berr e, c8, sts8)
                              end
                          | (ETimeout, c7) =>
                              match remaining cfg start c7 with
                              | None => (BTimeout, c7, sts6)
                              | Some _ => (BOk, c7, sts6)
                              end
                          | (e, c7) => (berr e, c7, sts6)
                          end
                      end
                  end
              | (e, c6, sts6) => (berr e, c6, sts6)
              end) = (r5, c5', sts5') ->
             exists pre' u, wr (io c5') = wr (io c) ++ pre' ++ u /\ (pre' = [] \/ pre' = [CR]) /\
                            (u = [] \/ u = utf8_enc (b_user cfg) ++ [CR])).
  { intros pre c5 sts5 r5 c5' sts5' Hs5 W5 Hpre.
    destruct (line_noback (utf8_enc (b_user cfg)) sts5 c5) as [[e6 c6] sts6] eqn:E6.
    destruct (line_noback_wr _ _ _ _ _ _ (none_ok _ Hs5) E6) as [[-> W6] | [-> W6]].
    - assert (G : exists pre' u, wr (io c6) = wr (io c) ++ pre' ++ u /\ (pre' = [] \/ pre' = [CR]) /\ (u = [] \/ u = utf8_enc (b_user cfg) ++ [CR])).
      { exists pre, (utf8_enc (b_user cfg) ++ [CR]). rewrite W6, W5, <- app_assoc. auto. }
      destruct (b_password cfg) as [pw|]; [|intros [= <- <- <-]; exact G].
      destruct (remaining cfg start c6) as [rem|]; [|intros [= <- <- <-]; exact G].
      cbv zeta.
      destruct (read_until_prompt (Some (SLit PASSWORD_P)) _ c6) as [e7 c7] eqn:E7.
      destruct (rup_slow _ _ _ _ _ E7) as [_ W7].
      destruct e7 as [o7| | | | | |]; [exfalso; exact (Hno _ _ _ _ E7)| | | | | |];
        try (intros [= <- <- <-]; rewrite W7; exact G).
      destruct (remaining cfg start c7); intros [= <- <- <-]; rewrite W7; exact G.
    - intros [= <- <- <-]. exists pre, []. rewrite W6, W5, app_nil_r. auto. }
  destruct (b_login_delay cfg =? 0)%Z.
  - intros H. apply (K [] c1 sts r c' sts' S1); [rewrite W1, app_nil_r; reflexivity | auto | exact H].
  - destruct (remaining cfg start c1) as [rem1|]; [|intros [= <- <- <-]; rewrite W1; exact Z0].
    destruct (match rem1 with Some r0 => (r0 <? b_login_delay cfg)%Z | None => false end); [intros [= <- <- <-]; rewrite W1; exact Z0|].
    destruct (read_until_timeout (Some (b_login_delay cfg)) c1) as [e2 c2] eqn:E2.
    destruct (rut_slow _ _ _ _ E2) as [S2 W2]. rewrite S1 in S2.
    destruct e2 as [o2| | | | | |]; try (intros [= <- <- <-]; rewrite W2, W1; exact Z0).
    destruct (line_noback [] sts c2) as [[e3 c3] sts1] eqn:E3.
    destruct (line_noback_time _ _ _ _ _ _ S2 E3) as [_ S3].
    destruct (line_noback_wr _ _ _ _ _ _ (none_ok _ S2) E3) as [[-> W3] | [-> W3]].
    + assert (G3 : exists pre u, wr (io c3) = wr (io c) ++ pre ++ u /\ (pre = [] \/ pre = [CR]) /\ (u = [] \/ u = utf8_enc (b_user cfg) ++ [CR])).
      { exists [CR], []. rewrite W3, W2, W1. cbn. auto. }
      destruct (remaining cfg start c3) as [rem3|]; [|intros [= <- <- <-]; exact G3].
      destruct (read_until_prompt (Some (SLit LOGIN_P)) rem3 c3) as [e4 c4] eqn:E4.
      destruct (rup_slow _ _ _ _ _ E4) as [S4 W4]. rewrite S3 in S4.
      destruct e4 as [o4| | | | | |]; try (intros [= <- <- <-]; rewrite W4; exact G3).
      intros H. apply (K [CR] c4 sts1 r c' sts' S4); [rewrite W4, W3, W2, W1; reflexivity | auto | exact H].
    + intros [= <- <- <-]. rewrite W3, W2, W1. exact Z0.
Qed.

(* ---- the U-Boot stage: the autoboot keys are sent only after the autoboot prompt has been received ---- *)
Theorem autoboot_keys_only_after_prompt fuel cfg sts c r c' sts' :
  u_autoboot cfg = true ->
  (forall tmo out c1, read_until_prompt (Some (SRe AUTOBOOT_RE)) tmo c <> (Ret out, c1)) ->
  uboot_bringup fuel cfg sts c = (r, c', sts') ->
  wr (io c') = wr (io c) /\ r <> BOk.
Proof.
  intros Ha Hno. unfold uboot_bringup. rewrite Ha.
  destruct (read_until_prompt (Some (SRe AUTOBOOT_RE)) _ c) as [e1 c1] eqn:E1.
  destruct (rup_slow _ _ _ _ _ E1) as [_ W1].
  destruct e1 as [o1| | | | | |]; [exfalso; exact (Hno _ _ _ E1)| | | | | |];
    intros [= <- <- <-]; (split; [exact W1 | unfold berr; cbn; discriminate]).
Qed.
