(* ProofC18c.v -- liveness of the login: when the login prompt arrives within the boot timeout and the password prompt
   within the password wait, LinuxBootLogin sends user name and password and succeeds -- for EVERY fragmentation and
   timing of the console output. *)
From TV Require Import Base BaseLemmas Utf8 Regex Channel ChannelLemmas ProofC02 ProofC03 ProofC04 ProofC06 Hush Session ProofSession
  ProofC04b ProofLive Boot ProofC18 ProofC18b.
From Coq Require Import ZifyBool.

Local Open Scope Z_scope.

(* every piece of a stage arrives less than w after the line that triggers it (always, without a limit) *)
Definition within (w : option Z) (st : stage) : Prop :=
  match w with Some x => Forall (fun e => fst e < x) st | None => True end.

Definition shift (t : Z) (st : stage) : list (Z * list N) := map (fun e => (t + fst e, snd e)) st.

Lemma cat_shift t st : cat (shift t st) = cat st.
Proof. unfold cat, shift. rewrite map_map. reflexivity. Qed.

Lemma ready_before_all dl p : Forall (fun e => fst e < dl) p -> ready_before dl p = length (cat p).
Proof.
  induction p as [|[a d] r IH]; intros H; [reflexivity|]. inversion H as [|? ? Ha Hr]; subst. cbn in Ha.
  cbn [ready_before]. assert (Q : a <? dl = true) by lia. rewrite Q, (IH Hr). unfold cat. cbn [map concat snd].
  rewrite app_length. reflexivity.
Qed.

Lemma ready_shift w t st : within w st ->
  ready (deadline t w) (shift t st) = length (cat st).
Proof.
  destruct w as [x|]; cbn [within deadline option_map ready]; intros H.
  - rewrite ready_before_all; [apply f_equal, cat_shift|]. unfold shift. rewrite Forall_map.
    eapply Forall_impl; [|exact H]. cbn. intros e He. lia.
  - rewrite cat_shift. reflexivity.
Qed.

(* a line without read-back on a channel that is not being slowed down: one stage loaded, the line written, no time
   passes *)
Lemma line_noback_ok s (st : stage) (sts : list stage) c :
  wfc c -> deaths c = [] -> slow c = None -> wf_pend st -> any_in (blacklist c) (s ++ [CR]) = false ->
  exists c', line_noback s (st :: sts) c = (Ret tt, c', sts) /\
    pend (io c') = pend (io c) ++ shift (now (io c)) st /\ now (io c') = now (io c) /\ wfc c' /\ deaths c' = [] /\
    slow c' = None /\ blacklist c' = blacklist c /\ wr (io c') = wr (io c) ++ s ++ [CR].
Proof.
  intros Hw Hd Hs Hst Hbl.
  set (c0 := load st c).
  assert (L : pend (io c0) = pend (io c) ++ shift (now (io c)) st /\ wfc c0 /\ deaths c0 = [] /\ slow c0 = None /\
              blacklist c0 = blacklist c /\ wr (io c0) = wr (io c) /\ now (io c0) = now (io c)).
  { unfold c0, load, wfc, shift in *. cbn.
    split; [reflexivity|].
    split; [unfold wf_pend in *; apply Forall_app; split; [exact Hw|];
            apply Forall_forall; intros e He; apply in_map_iff in He; destruct He as (e0 & <- & Hin); cbn;
            rewrite Forall_forall in Hst; exact (Hst e0 Hin)|].
    auto 10. }
  destruct L as (L1 & L2 & L3 & L4 & L5 & L6 & L7).
  assert (L4' : slow_ok c0) by (unfold slow_ok; rewrite L4; exact I).
  unfold line_noback. cbn [hd_stage tl]. fold c0. unfold sendline.
  destruct (send (s ++ [CR]) false None c0) as [r c1] eqn:E.
  destruct (send_prefix _ _ _ _ L4' E) as [(-> & W & _) | (_ & _ & X)]; [|rewrite L5 in X; congruence].
  unfold send in E. rewrite L5, Hbl in E.
  destruct (send_loop_nrb_time _ _ _ _ _ _ L4 E) as [T1 S1]. unfold nowc in T1.
  destruct (send_loop_nrb_spec _ _ _ _ _ _ _ L4' (Nat.lt_succ_diag_r _) E) as (sent & rst & _ & _ & _ & Wc & _).
  destruct Wc as (P1 & P2 & P3 & P4 & P5 & P6 & P7).
  exists c1. split; [reflexivity|]. split; [congruence|]. split; [congruence|].
  split; [unfold wfc; rewrite P1; exact L2|]. split; [congruence|]. split; [exact S1|]. split; [congruence|].
  rewrite W, L6. reflexivity.
Qed.

Lemma pend_nil_cpend c : pend (io c) = [] -> cpend c = [].
Proof. unfold cpend. intros ->. reflexivity. Qed.

(* LinuxBootLogin without login delay, with a password *)
Theorem login_succeeds_full cfg c pw (st_user st_pw : stage) (sts : list stage) noise0 noise1 :
  b_login_delay cfg = 0 -> b_password cfg = Some pw ->
  match b_timeout cfg with Some T => 0 < T | None => True end ->
  match b_nopw cfg with Some n => 0 < n | None => True end ->
  wfc c -> deaths c = [] -> slow c = None ->
  (* the console's output up to the login prompt arrives before the boot timeout expires *)
  cpend c = noise0 ++ LOGIN_P -> prompt_only_at_end LOGIN_P noise0 ->
  ready (deadline (now (io c)) (b_timeout cfg)) (pend (io c)) = length (cpend c) ->
  any_in (blacklist c) (utf8_enc (b_user cfg) ++ [CR]) = false ->
  any_in (blacklist c) (utf8_enc pw ++ [CR]) = false ->
  (* the reaction to the user name ends with the password prompt and arrives within the password wait *)
  wf_pend st_user -> cat st_user = noise1 ++ PASSWORD_P -> prompt_only_at_end PASSWORD_P noise1 ->
  within (match b_nopw cfg, b_timeout cfg with
          | None, None => None
          | None, Some T => Some (now (io c) + T - last_time c)
          | Some n, None => Some n
          | Some n, Some T => Some (Z.min (now (io c) + T - last_time c) n)
          end) st_user ->
  wf_pend st_pw ->
  exists c',
    login_step cfg (now (io c)) (st_user :: st_pw :: sts) c = (BOk, c', sts) /\
    wr (io c') = wr (io c) ++ (utf8_enc (b_user cfg) ++ [CR]) ++ (utf8_enc pw ++ [CR]) /\
    pend (io c') = shift (now (io c')) st_pw /\ wfc c' /\ deaths c' = [] /\
    match b_timeout cfg with Some T => now (io c') < now (io c) + T | None => True end /\
    slow c' = None /\ blacklist c' = blacklist c.
Proof.
  intros Hdelay Hpw HT Hn Hw Hd Hs Hc0 Ho0 Hr0 Hbu Hbp Hwu Hcu Hou Hwin Hwp.
  unfold login_step.
  (* the remaining time at the start is the whole boot timeout *)
  assert (R0 : remaining cfg (now (io c)) c = Some (b_timeout cfg)).
  { unfold remaining. destruct (b_timeout cfg) as [T|]; [|reflexivity].
    replace (T - (now (io c) - now (io c))) with T by lia. destruct (T <=? 0) eqn:Q; [lia | reflexivity]. }
  rewrite R0.
  assert (Hne0 : cpend c <> []) by (rewrite Hc0; destruct noise0; discriminate).
  assert (HL : LOGIN_P <> []) by discriminate.
  assert (HP : PASSWORD_P <> []) by discriminate.
  destruct (rup_timed_live (SLit LOGIN_P) (b_timeout cfg) c (cpend c) (length noise0) Hw Hd HT eq_refl Hne0
              ltac:(rewrite Hc0; apply only_tail_literal; assumption) Hr0)
    as (c1 & E1 & P1 & Cfg1 & D1 & W1 & T1 & N1).
  rewrite E1, Hdelay. cbn [Z.eqb].
  destruct Cfg1 as (Q1 & Q2 & Q3 & Q4 & Q5 & Q6).
  assert (Hs1 : slow c1 = None) by congruence.
  assert (Hbu1 : any_in (blacklist c1) (utf8_enc (b_user cfg) ++ [CR]) = false) by (rewrite Q2; exact Hbu).
  destruct (line_noback_ok (utf8_enc (b_user cfg)) st_user (st_pw :: sts) c1 W1 D1 Hs1 Hwu Hbu1)
    as (c6 & E6 & P6 & N6 & W6 & D6 & S6 & B6 & Wr6).
  rewrite E6, Hpw.
  (* the time left after the user name has been sent *)
  assert (R6 : remaining cfg (now (io c)) c6 =
               Some (match b_timeout cfg with Some T => Some (now (io c) + T - last_time c) | None => None end)).
  { unfold remaining. destruct (b_timeout cfg) as [T|]; [|reflexivity]. rewrite N6, N1.
    unfold in_time in T1. rewrite N1 in T1.
    destruct (T - (last_time c - now (io c)) <=? 0) eqn:Q; [lia|]. do 2 f_equal. lia. }
  rewrite R6.
  match goal with
  | |- context [read_until_prompt (Some (SLit PASSWORD_P)) ?t c6] => set (tmo := t)
  end.
  assert (Hwin' : within tmo st_user).
  { unfold tmo. destruct (b_nopw cfg), (b_timeout cfg); exact Hwin. }
  assert (Htmo : match tmo with Some T => 0 < T | None => True end).
  { unfold tmo. unfold in_time in T1. rewrite N1 in T1. destruct (b_nopw cfg), (b_timeout cfg); lia. }
  assert (Hc6 : cpend c6 = noise1 ++ PASSWORD_P).
  { unfold cpend. rewrite P6, P1. cbn [app]. rewrite cat_shift. exact Hcu. }
  assert (Hne6 : cpend c6 <> []) by (rewrite Hc6; destruct noise1; discriminate).
  assert (Hr6 : ready (deadline (now (io c6)) tmo) (pend (io c6)) = length (cpend c6)).
  { rewrite P6, P1. cbn [app]. rewrite N6, Hc6, <- Hcu. apply ready_shift. exact Hwin'. }
  destruct (rup_timed_live (SLit PASSWORD_P) tmo c6 (cpend c6) (length noise1) W6 D6 Htmo eq_refl Hne6
              ltac:(rewrite Hc6; apply only_tail_literal; assumption) Hr6)
    as (c7 & E7 & P7 & Cfg7 & D7 & W7 & T7 & N7).
  rewrite E7.
  destruct Cfg7 as (K1 & K2 & K3 & K4 & K5 & K6).
  assert (Hs7 : slow c7 = None) by congruence.
  assert (Hbp7 : any_in (blacklist c7) (utf8_enc pw ++ [CR]) = false) by (rewrite K2, B6, Q2; exact Hbp).
  destruct (line_noback_ok (utf8_enc pw) st_pw sts c7 W7 D7 Hs7 Hwp Hbp7)
    as (c8 & E8 & P8 & N8 & W8 & D8 & S8 & B8 & Wr8).
  rewrite E8. exists c8. split; [reflexivity|].
  split; [rewrite Wr8, K6, Wr6, Q6, <- !app_assoc; reflexivity|].
  split; [rewrite P8, P7, N8; reflexivity|]. split; [exact W8|]. split; [exact D8|].
  split; [|split; [exact S8 | congruence]].
  (* still within the boot timeout *)
  destruct (b_timeout cfg) as [T|] eqn:ET; [|exact I].
  rewrite N8. unfold in_time in T7. unfold tmo in T7. rewrite N6, N1 in T7.
  unfold in_time in T1. rewrite N1 in T1.
  destruct (b_nopw cfg); lia.
Qed.

Theorem login_succeeds cfg c pw (st_user st_pw : stage) (sts : list stage) noise0 noise1 :
  b_login_delay cfg = 0 -> b_password cfg = Some pw ->
  match b_timeout cfg with Some T => 0 < T | None => True end ->
  match b_nopw cfg with Some n => 0 < n | None => True end ->
  wfc c -> deaths c = [] -> slow c = None ->
  (* the console's output up to the login prompt arrives before the boot timeout expires *)
  cpend c = noise0 ++ LOGIN_P -> prompt_only_at_end LOGIN_P noise0 ->
  ready (deadline (now (io c)) (b_timeout cfg)) (pend (io c)) = length (cpend c) ->
  any_in (blacklist c) (utf8_enc (b_user cfg) ++ [CR]) = false ->
  any_in (blacklist c) (utf8_enc pw ++ [CR]) = false ->
  (* the reaction to the user name ends with the password prompt and arrives within the password wait *)
  wf_pend st_user -> cat st_user = noise1 ++ PASSWORD_P -> prompt_only_at_end PASSWORD_P noise1 ->
  within (match b_nopw cfg, b_timeout cfg with
          | None, None => None
          | None, Some T => Some (now (io c) + T - last_time c)
          | Some n, None => Some n
          | Some n, Some T => Some (Z.min (now (io c) + T - last_time c) n)
          end) st_user ->
  wf_pend st_pw ->
  exists c',
    login_step cfg (now (io c)) (st_user :: st_pw :: sts) c = (BOk, c', sts) /\
    wr (io c') = wr (io c) ++ (utf8_enc (b_user cfg) ++ [CR]) ++ (utf8_enc pw ++ [CR]) /\
    pend (io c') = shift (now (io c')) st_pw /\ wfc c' /\ deaths c' = [] /\
    match b_timeout cfg with Some T => now (io c') < now (io c) + T | None => True end.
Proof.
  intros Hdelay Hpw HT Hn Hw Hd Hs Hc0 Ho0 Hr0 Hbu Hbp Hwu Hcu Hou Hwin Hwp.
  destruct (login_succeeds_full cfg c pw st_user st_pw sts noise0 noise1 Hdelay Hpw HT Hn Hw Hd Hs Hc0 Ho0 Hr0 Hbu Hbp Hwu Hcu Hou Hwin Hwp)
    as (c' & A1 & A2 & A3 & A4 & A5 & A6 & _).
  exists c'. auto 10.
Qed.

Corollary bringup_succeeds cfg c pw (st_user st_pw : stage) (sts : list stage) noise0 noise1 :
  b_askfirst cfg = false -> b_login_delay cfg = 0 -> b_password cfg = Some pw ->
  match b_timeout cfg with Some T => 0 < T | None => True end ->
  match b_nopw cfg with Some n => 0 < n | None => True end ->
  wfc c -> deaths c = [] -> slow c = None ->
  cpend c = noise0 ++ LOGIN_P -> prompt_only_at_end LOGIN_P noise0 ->
  ready (deadline (now (io c)) (b_timeout cfg)) (pend (io c)) = length (cpend c) ->
  any_in (blacklist c) (utf8_enc (b_user cfg) ++ [CR]) = false ->
  any_in (blacklist c) (utf8_enc pw ++ [CR]) = false ->
  wf_pend st_user -> cat st_user = noise1 ++ PASSWORD_P -> prompt_only_at_end PASSWORD_P noise1 ->
  within (match b_nopw cfg, b_timeout cfg with
          | None, None => None
          | None, Some T => Some (now (io c) + T - last_time c)
          | Some n, None => Some n
          | Some n, Some T => Some (Z.min (now (io c) + T - last_time c) n)
          end) st_user ->
  wf_pend st_pw ->
  exists c',
    bringup cfg (st_user :: st_pw :: sts) c = (BOk, c', sts) /\
    wr (io c') = wr (io c) ++ (utf8_enc (b_user cfg) ++ [CR]) ++ (utf8_enc pw ++ [CR]) /\
    pend (io c') = shift (now (io c')) st_pw /\ wfc c' /\ deaths c' = [] /\
    match b_timeout cfg with Some T => now (io c') < now (io c) + T | None => True end.
Proof.
  intros Ha. unfold bringup. rewrite Ha. apply login_succeeds.
Qed.

(* the hypotheses are satisfiable: kernel messages and the login prompt in three pieces within 3 s, boot timeout 5 s,
   password prompt 0.25 s after the user name, no_password_timeout 1 s *)
Example login_hypotheses_satisfiable :
  let cfg := mkB false [114; 111; 111; 116]%N (Some [104; 117; 110; 116; 101; 114; 50]%N) (Some 5120) 0 (Some 1024) in
  let c := chan_init [(100, [66; 111; 111; 116; 105; 110; 103; 13; 10]%N); (2000, [108; 111; 103]%N); (3000, [105; 110; 58; 32]%N)] [] in
  let st_user : stage := [(10, [114; 111; 111; 116; 13; 10]%N); (256, PASSWORD_P)] in
  wfc c /\ deaths c = [] /\ slow c = None /\
  cpend c = [66; 111; 111; 116; 105; 110; 103; 13; 10]%N ++ LOGIN_P /\
  ready (deadline (now (io c)) (b_timeout cfg)) (pend (io c)) = length (cpend c) /\
  last_time c = 3000 /\
  within (Some (Z.min (now (io c) + 5120 - last_time c) 1024)) st_user /\
  cat st_user = [114; 111; 111; 116; 13; 10]%N ++ PASSWORD_P.
Proof.
  cbv zeta. split; [repeat constructor; discriminate|]. split; [reflexivity|]. split; [reflexivity|].
  split; [reflexivity|]. split; [reflexivity|]. split; [reflexivity|].
  split; [|reflexivity]. cbn. repeat constructor; cbn; lia.
Qed.
