(* ProofC18e.v -- the login without a password: once the login prompt has arrived within the boot timeout exactly the
   user name is sent and the stage succeeds, still within the timeout. *)
From TV Require Import Base BaseLemmas Utf8 Regex Channel ChannelLemmas ProofC02 ProofC03 ProofC04 ProofC06 Hush Session ProofSession
  ProofC04b ProofLive Boot ProofC18 ProofC18b ProofC18c.
Local Open Scope Z_scope.

Theorem login_without_password_succeeds cfg c (st_user : stage) (sts : list stage) noise0 :
  b_login_delay cfg = 0 -> b_password cfg = None ->
  match b_timeout cfg with Some T => 0 < T | None => True end ->
  wfc c -> deaths c = [] -> slow c = None ->
  cpend c = noise0 ++ LOGIN_P -> prompt_only_at_end LOGIN_P noise0 ->
  ready (deadline (now (io c)) (b_timeout cfg)) (pend (io c)) = length (cpend c) ->
  any_in (blacklist c) (utf8_enc (b_user cfg) ++ [CR]) = false ->
  wf_pend st_user ->
  exists c',
    login_step cfg (now (io c)) (st_user :: sts) c = (BOk, c', sts) /\
    wr (io c') = wr (io c) ++ (utf8_enc (b_user cfg) ++ [CR]) /\
    pend (io c') = shift (now (io c')) st_user /\ wfc c' /\ deaths c' = [] /\
    match b_timeout cfg with Some T => now (io c') < now (io c) + T | None => True end.
Proof.
  intros Hdelay Hpw HT Hw Hd Hs Hc0 Ho0 Hr0 Hbu Hwu.
  unfold login_step.
  assert (R0 : remaining cfg (now (io c)) c = Some (b_timeout cfg)).
  { unfold remaining. destruct (b_timeout cfg) as [T|]; [|reflexivity].
    replace (T - (now (io c) - now (io c))) with T by lia. destruct (T <=? 0) eqn:Q; [lia | reflexivity]. }
  rewrite R0.
  assert (Hne0 : cpend c <> []) by (rewrite Hc0; destruct noise0; discriminate).
  assert (HL : LOGIN_P <> []) by discriminate.
  destruct (rup_timed_live (SLit LOGIN_P) (b_timeout cfg) c (cpend c) (length noise0) Hw Hd HT eq_refl Hne0
              ltac:(rewrite Hc0; apply only_tail_literal; assumption) Hr0)
    as (c1 & E1 & P1 & Cfg1 & D1 & W1 & T1 & N1).
  rewrite E1, Hdelay. cbn [Z.eqb].
  destruct Cfg1 as (Q1 & Q2 & Q3 & Q4 & Q5 & Q6).
  assert (Hs1 : slow c1 = None) by congruence.
  assert (Hbu1 : any_in (blacklist c1) (utf8_enc (b_user cfg) ++ [CR]) = false) by (rewrite Q2; exact Hbu).
  destruct (line_noback_ok (utf8_enc (b_user cfg)) st_user sts c1 W1 D1 Hs1 Hwu Hbu1)
    as (c6 & E6 & P6 & N6 & W6 & D6 & S6 & B6 & Wr6).
  rewrite E6, Hpw. exists c6. split; [reflexivity|].
  split; [rewrite Wr6, Q6; reflexivity|].
  split; [rewrite P6, P1, N6; reflexivity|]. split; [exact W6|]. split; [exact D6|].
  destruct (b_timeout cfg) as [T|] eqn:ET; [|exact I].
  rewrite N6. unfold in_time in T1. rewrite N1 in T1. rewrite N1. lia.
Qed.
