(* ProofC18f.v -- the chain "log in, then initialise the shell": LinuxBootLogin followed by Bash/Ash._init_shell on the
   same channel.  What the console prints after the password (motd, the shell's own prompt) is still pending when
   the probe goes out; the login theorem (ProofC18c.v) and the initialisation theorem (ProofInit.v) compose. *)
From TV Require Import Base BaseLemmas Utf8 Regex Channel ChannelLemmas ProofC02 ProofC03 ProofC04 ProofC06 Hush Session ProofSession
  ProofC04b ProofLive Boot ProofC18 ProofC18b ProofC18c ProofC19 Sh ProofC01 ProofInit ProofInitRetry.
Local Open Scope Z_scope.

Theorem login_then_init_ok fuel tmo bl cfgl cfg c pw (st_user st_pw st0 st_ps1 : stage) (stgs : list stage) (st_san : stage)
        noise0 noise1 a noiseP :
  let rest := st0 :: st_ps1 :: stgs ++ [st_san] in
  b_askfirst cfg = false -> b_login_delay cfg = 0 -> b_password cfg = Some pw ->
  match b_timeout cfg with Some T => 0 < T | None => True end ->
  match b_nopw cfg with Some n => 0 < n | None => True end ->
  wfc c -> deaths c = [] -> slow c = None ->
  cpend c = noise0 ++ LOGIN_P -> prompt_only_at_end LOGIN_P noise0 ->
  ready (deadline (now (io c)) (b_timeout cfg)) (pend (io c)) = length (cpend c) ->
  any_in (blacklist c) (utf8_enc (b_user cfg) ++ [CR]) = false ->
  any_in (blacklist c) (utf8_enc pw ++ [CR]) = false ->
  wf_pend st_user -> cat st_user = noise1 ++ PASSWORD_P -> prompt_only_at_end PASSWORD_P noise1 ->
  within (match b_nopw cfg, b_timeout cfg with
          | None, None => None
          | None, Some T => Some (now (io c) + T - last_time c)
          | Some n, None => Some n
          | Some n, Some T => Some (Z.min (now (io c) + T - last_time c) n)
          end) st_user ->
  wf_pend st_pw ->
  (* the shell's initialisation: the probe's answer shows up, in time, in what the console prints after the password
     and after the probe *)
  0 < tmo -> wf_pend st0 -> any_in (blacklist c) (PROBE ++ [CR]) = false ->
  find_sub PROBE_ANSWER (cat st_pw ++ cat st0) = Some a ->
  (a + length PROBE_ANSWER <= ready_before tmo (st_pw ++ st0))%nat ->
  any_in bl (PS1_LINE ++ [CR]) = false ->
  Forall (fun l => any_in bl (l ++ [CR]) = false) cfgl ->
  any_in bl (SANITY ++ [CR]) = false ->
  wf_pend st_ps1 -> cat st_ps1 = noiseP ++ TBOT_PROMPT ->
  prompt_only_at_end TBOT_PROMPT (skipn (a + length PROBE_ANSWER) (cat st_pw ++ cat st0) ++ noiseP) ->
  Forall2 (fun l stg => wf_pend stg /\ exists noise, cat stg = noise ++ TBOT_PROMPT /\ prompt_only_at_end TBOT_PROMPT noise) cfgl stgs ->
  wf_pend st_san -> cat st_san = tty_echo false (SANITY ++ [CR]) ++ onlcr SANITY_ANSWER ++ TBOT_PROMPT ->
  exists c1 c2,
    bringup cfg (st_user :: st_pw :: rest) c = (BOk, c1, rest) /\
    wr (io c1) = wr (io c) ++ (utf8_enc (b_user cfg) ++ [CR]) ++ (utf8_enc pw ++ [CR]) /\
    match b_timeout cfg with Some T => now (io c1) < now (io c) + T | None => True end /\
    init_shell (S fuel) tmo bl PS1_LINE cfgl rest c1 = (IOk, c2, []) /\
    insync c2 /\ prompt c2 = Some (SLit TBOT_PROMPT) /\ blacklist c2 = bl.
Proof.
  intros rest Ha Hdelay Hpw HT Hn Hw Hd Hs Hc0 Ho0 Hr0 Hbu Hbp Hwu Hcu Hou Hwin Hwp
         Htmo Hw0 Hbprobe Hf Hr Hb1 Hbc Hbs Hw1 Hc1 Ho1 Hstgs Hws Hcs.
  destruct (login_succeeds_full cfg c pw st_user st_pw rest noise0 noise1 Hdelay Hpw HT Hn Hw Hd Hs Hc0 Ho0 Hr0 Hbu Hbp Hwu Hcu Hou Hwin Hwp)
    as (c1 & E & Wr & P1 & W1 & D1 & T1 & S1 & B1).
  assert (Hq1 : quiet c1) by (split; [exact W1|]; split; [exact D1|]; unfold slow_ok; rewrite S1; exact I).
  assert (Hcp : cpend c1 = cat st_pw) by (unfold cpend; rewrite P1; apply cat_shift).
  destruct (init_shell_ok fuel tmo bl cfgl c1 st0 st_ps1 stgs st_san a noiseP Hq1 S1 Htmo Hw0) as (c2 & E2 & I2 & Pr2 & Bl2); auto.
  - rewrite B1. exact Hbprobe.
  - rewrite Hcp. exact Hf.
  - unfold load. cbn [io with_io pend]. rewrite P1. fold (shift (now (io c1)) st0).
    unfold shift at 1 2. rewrite <- map_app. fold (shift (now (io c1)) (st_pw ++ st0)).
    cbn [ready]. rewrite ready_before_shift. exact Hr.
  - rewrite Hcp. exact Ho1.
  - exists c1, c2. unfold bringup. rewrite Ha. auto 10.
Qed.

(* ... and the first command on the board is exact: log in, initialise the shell, exec *)
Theorem login_init_exec_exact fuel tmo bl cfgl cfg c pw (st_user st_pw st0 st_ps1 : stage) (stgs : list stage) (st_san : stage)
        noise0 noise1 a noiseP args (st1 st2 : stage) out ds :
  let rest := st0 :: st_ps1 :: stgs ++ [st_san] in
  b_askfirst cfg = false -> b_login_delay cfg = 0 -> b_password cfg = Some pw ->
  match b_timeout cfg with Some T => 0 < T | None => True end ->
  match b_nopw cfg with Some n => 0 < n | None => True end ->
  wfc c -> deaths c = [] -> slow c = None ->
  cpend c = noise0 ++ LOGIN_P -> prompt_only_at_end LOGIN_P noise0 ->
  ready (deadline (now (io c)) (b_timeout cfg)) (pend (io c)) = length (cpend c) ->
  any_in (blacklist c) (utf8_enc (b_user cfg) ++ [CR]) = false ->
  any_in (blacklist c) (utf8_enc pw ++ [CR]) = false ->
  wf_pend st_user -> cat st_user = noise1 ++ PASSWORD_P -> prompt_only_at_end PASSWORD_P noise1 ->
  within (match b_nopw cfg, b_timeout cfg with
          | None, None => None
          | None, Some T => Some (now (io c) + T - last_time c)
          | Some n, None => Some n
          | Some n, Some T => Some (Z.min (now (io c) + T - last_time c) n)
          end) st_user ->
  wf_pend st_pw ->
  0 < tmo -> wf_pend st0 -> any_in (blacklist c) (PROBE ++ [CR]) = false ->
  find_sub PROBE_ANSWER (cat st_pw ++ cat st0) = Some a ->
  (a + length PROBE_ANSWER <= ready_before tmo (st_pw ++ st0))%nat ->
  any_in bl (PS1_LINE ++ [CR]) = false ->
  Forall (fun l => any_in bl (l ++ [CR]) = false) cfgl ->
  any_in bl (SANITY ++ [CR]) = false ->
  wf_pend st_ps1 -> cat st_ps1 = noiseP ++ TBOT_PROMPT ->
  prompt_only_at_end TBOT_PROMPT (skipn (a + length PROBE_ANSWER) (cat st_pw ++ cat st0) ++ noiseP) ->
  Forall2 (fun l stg => wf_pend stg /\ exists noise, cat stg = noise ++ TBOT_PROMPT /\ prompt_only_at_end TBOT_PROMPT noise) cfgl stgs ->
  wf_pend st_san -> cat st_san = tty_echo false (SANITY ++ [CR]) ++ onlcr SANITY_ANSWER ++ TBOT_PROMPT ->
  (* the first command *)
  Forall nonul args ->
  any_in bl (utf8_enc (sh_escape args) ++ [CR]) = false ->
  any_in bl (ECHO_Q ++ [CR]) = false ->
  wf_pend st1 -> cat st1 = tty_echo false (utf8_enc (sh_escape args) ++ [CR]) ++ onlcr out ++ TBOT_PROMPT ->
  prompt_only_at_end TBOT_PROMPT (onlcr out) ->
  wf_pend st2 -> cat st2 = tty_echo false (ECHO_Q ++ [CR]) ++ (ds ++ [CR; LF]) ++ TBOT_PROMPT ->
  all_digits ds -> ds <> [] -> prompt_only_at_end TBOT_PROMPT (ds ++ [CR; LF]) ->
  exists c1 c2 c3,
    bringup cfg (st_user :: st_pw :: rest) c = (BOk, c1, rest) /\
    init_shell (S fuel) tmo bl PS1_LINE cfgl rest c1 = (IOk, c2, []) /\
    lx_exec args [st1; st2] c2 = (XOk (dec_val ds) (text (onlcr out)), c3, []) /\
    insync c3 /\
    wr (io c3) = wr (io c2) ++ (utf8_enc (sh_escape args) ++ [CR]) ++ (ECHO_Q ++ [CR]) /\
    sh_words (utf8_enc (sh_escape args)) = Some (map utf8_enc args).
Proof.
  intros rest Ha Hdelay Hpw HT Hn Hw Hd Hs Hc0 Ho0 Hr0 Hbu Hbp Hwu Hcu Hou Hwin Hwp
         Htmo Hw0 Hbprobe Hf Hr Hb1 Hbc Hbs Hw1 Hc1 Ho1 Hstgs Hws Hcs
         Hargs Hba Hbe Hwf1 Hcat1 Hpo1 Hwf2 Hcat2 Hds Hne Hpo2.
  destruct (login_then_init_ok fuel tmo bl cfgl cfg c pw st_user st_pw st0 st_ps1 stgs st_san noise0 noise1 a noiseP
              Ha Hdelay Hpw HT Hn Hw Hd Hs Hc0 Ho0 Hr0 Hbu Hbp Hwu Hcu Hou Hwin Hwp
              Htmo Hw0 Hbprobe Hf Hr Hb1 Hbc Hbs Hw1 Hc1 Ho1 Hstgs Hws Hcs)
    as (c1 & c2 & E1 & _ & _ & E2 & I2 & P2 & B2).
  destruct (lx_exec_exact args TBOT_PROMPT c2 st1 st2 [] out ds I2 P2 ltac:(discriminate) Hargs
              ltac:(rewrite B2; exact Hba) ltac:(rewrite B2; exact Hbe) Hwf1 Hcat1 Hpo1 Hwf2 Hcat2 Hds Hne Hpo2)
    as (c3 & E3 & I3 & W3 & Sw & _).
  exists c1, c2, c3. auto 10.
Qed.
