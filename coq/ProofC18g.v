(* ProofC18g.v -- the password prompt that never comes: LinuxBootLogin waits no_password_timeout for it and then goes
   on WITHOUT sending the password (the documented optimistic continuation), as long as the boot timeout has not run
   out -- for every fragmentation and timing of what the console prints meanwhile. *)
From TV Require Import Base BaseLemmas Utf8 Regex Channel ChannelLemmas ProofC02 ProofC03 ProofC04 ProofC06 Hush Session ProofSession
  ProofC04b ProofLive ProofLive2 Boot ProofC18 ProofC18b ProofC18c ProofC19 Sh ProofC01 ProofInit ProofInitRetry.
Local Open Scope Z_scope.

Theorem login_goes_on_without_password_prompt cfg c pw n (st_user : stage) (sts : list stage) noise0 :
  b_login_delay cfg = 0 -> b_password cfg = Some pw -> b_nopw cfg = Some n -> 0 < n ->
  match b_timeout cfg with Some T => 0 < T | None => True end ->
  wfc c -> deaths c = [] -> slow c = None ->
  cpend c = noise0 ++ LOGIN_P -> prompt_only_at_end LOGIN_P noise0 ->
  ready (deadline (now (io c)) (b_timeout cfg)) (pend (io c)) = length (cpend c) ->
  any_in (blacklist c) (utf8_enc (b_user cfg) ++ [CR]) = false ->
  wf_pend st_user ->
  (* the boot timeout leaves more than the password wait *)
  match b_timeout cfg with Some T => n < now (io c) + T - last_time c | None => True end ->
  (* no password prompt among what arrives during the wait *)
  contains PASSWORD_P (firstn (ready_before n st_user) (cat st_user)) = false ->
  exists c',
    login_step cfg (now (io c)) (st_user :: sts) c = (BOk, c', sts) /\
    wr (io c') = wr (io c) ++ (utf8_enc (b_user cfg) ++ [CR]) /\
    now (io c') = last_time c + n /\
    cpend c' = skipn (ready_before n st_user) (cat st_user) /\ wfc c' /\ deaths c' = [].
Proof.
  intros Hdelay Hpw Hnp Hn HT Hw Hd Hs Hc0 Ho0 Hr0 Hbu Hwu Hleft Hno.
  unfold login_step.
  assert (R0 : remaining cfg (now (io c)) c = Some (b_timeout cfg)).
  { unfold remaining. destruct (b_timeout cfg) as [T|]; [|reflexivity].
    replace (T - (now (io c) - now (io c))) with T by lia. destruct (T <=? 0) eqn:Q; [lia | reflexivity]. }
  rewrite R0.
  assert (Hne0 : cpend c <> []) by (rewrite Hc0; destruct noise0; discriminate).
  assert (HL : LOGIN_P <> []) by discriminate.
  destruct (rup_timed_live (SLit LOGIN_P) (b_timeout cfg) c (cpend c) (length noise0) Hw Hd HT eq_refl Hne0
              ltac:(rewrite Hc0; apply only_tail_literal; assumption) Hr0)
    as (c1 & E1 & P1 & Cfg1 & D1 & W1 & T1 & N1).
  rewrite E1, Hdelay. cbn [Z.eqb].
  destruct Cfg1 as (Q1 & Q2 & Q3 & Q4 & Q5 & Q6).
  assert (Hs1 : slow c1 = None) by congruence.
  assert (Hbu1 : any_in (blacklist c1) (utf8_enc (b_user cfg) ++ [CR]) = false) by (rewrite Q2; exact Hbu).
  destruct (line_noback_ok (utf8_enc (b_user cfg)) st_user sts c1 W1 D1 Hs1 Hwu Hbu1)
    as (c6 & E6 & P6 & N6 & W6 & D6 & S6 & B6 & Wr6).
  rewrite E6, Hpw.
  assert (R6 : remaining cfg (now (io c)) c6 =
               Some (match b_timeout cfg with Some T => Some (now (io c) + T - last_time c) | None => None end)).
  { unfold remaining. destruct (b_timeout cfg) as [T|]; [|reflexivity]. rewrite N6, N1.
    unfold in_time in T1. rewrite N1 in T1.
    destruct (T - (last_time c - now (io c)) <=? 0) eqn:Q; [lia|]. do 2 f_equal. lia. }
  rewrite R6, Hnp.
  (* the wait is the whole no_password_timeout *)
  assert (Etmo : match match b_timeout cfg with Some T => Some (now (io c) + T - last_time c) | None => None end with
                 | None => Some n | Some r => Some (Z.min r n) end = Some n).
  { destruct (b_timeout cfg) as [T|]; [f_equal; lia | reflexivity]. }
  rewrite Etmo.
  assert (Hp6 : pend (io c6) = shift (now (io c6)) st_user) by (rewrite P6, P1, N6; reflexivity).
  assert (Hc6 : cpend c6 = cat st_user) by (unfold cpend; rewrite Hp6; apply cat_shift).
  assert (Hr6 : ready (Some (now (io c6) + n)) (pend (io c6)) = ready_before n st_user).
  { rewrite Hp6. cbn [ready]. apply ready_before_shift. }
  destruct (rup_timed_out PASSWORD_P n c6 W6 D6 Hn ltac:(rewrite Hr6, Hc6; exact Hno))
    as (c7 & E7 & T7 & C7 & W7 & D7 & Cfg7).
  rewrite E7.
  assert (R7 : exists x, remaining cfg (now (io c)) c7 = Some x).
  { unfold remaining. destruct (b_timeout cfg) as [T|]; [|eauto]. rewrite T7, N6, N1.
    destruct (T - (last_time c + n - now (io c)) <=? 0) eqn:Q; [lia | eauto]. }
  destruct R7 as (x & R7). rewrite R7.
  exists c7. split; [reflexivity|].
  destruct Cfg7 as (K1 & K2 & K3 & K4 & K5 & K6).
  split; [rewrite K6, Wr6, Q6; reflexivity|]. split; [rewrite T7, N6, N1; reflexivity|].
  split; [rewrite C7, Hr6, Hc6; reflexivity|]. auto.
Qed.

(* the hypotheses about the reaction can be met: the echo of the user name and a shell prompt, no password prompt *)
Example no_password_prompt_satisfiable :
  let st_user : stage := [(10, [114; 111; 111; 116; 13; 10]%N); (50, [35; 32]%N)] in
  wf_pend st_user /\ ready_before 1024 st_user = 8%nat /\
  contains PASSWORD_P (firstn (ready_before 1024 st_user) (cat st_user)) = false.
Proof. cbv zeta. split; [repeat constructor; discriminate|]. split; vm_compute; reflexivity. Qed.
