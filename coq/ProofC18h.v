(* ProofC18h.v -- liveness of AskfirstInitializer: when the "Please press Enter to activate this console." banner
   arrives within the boot timeout, exactly one Enter is sent and the stage succeeds -- every fragmentation. *)
From TV Require Import Base BaseLemmas Utf8 Regex Channel ChannelLemmas ProofC02 ProofC03 ProofC04 ProofC06 Hush Session ProofSession
  ProofC04b ProofLive Boot ProofC18 ProofC18b ProofC18c.
Local Open Scope Z_scope.

Theorem askfirst_succeeds cfg c (st : stage) (sts : list stage) a :
  match b_timeout cfg with Some T => 0 < T | None => True end ->
  wfc c -> deaths c = [] -> slow c = None ->
  find_sub ASKFIRST_P (cpend c) = Some a ->
  (a + length ASKFIRST_P <= ready (deadline (now (io c)) (b_timeout cfg)) (pend (io c)))%nat ->
  any_in (blacklist c) [CR] = false ->
  wf_pend st ->
  exists c' data,
    askfirst_step cfg (st :: sts) c = (BOk, c', sts) /\
    wr (io c') = wr (io c) ++ [CR] /\
    cpend c = data ++ skipn (length data) (cpend c) /\
    firstn (a + length ASKFIRST_P) data = firstn a (cpend c) ++ ASKFIRST_P /\
    cpend c' = skipn (length data) (cpend c) ++ cat st /\
    wfc c' /\ deaths c' = [] /\ slow c' = None /\ blacklist c' = blacklist c.
Proof.
  intros HT Hw Hd Hs Hf Hr Hbl Hst.
  destruct (expect_literal_live ASKFIRST_P (b_timeout cfg) c a Hw Hd HT ltac:(discriminate) Hf Hr)
    as (r & c1 & data & E & _ & _ & _ & Dcat & Dfirst & _ & W1 & Cfg1 & D1).
  unfold askfirst_step. rewrite E.
  destruct Cfg1 as (Q1 & Q2 & Q3 & Q4 & Q5 & Q6).
  assert (Hs1 : slow c1 = None) by congruence.
  destruct (line_noback_ok [] st sts c1 W1 D1 Hs1 Hst ltac:(rewrite Q2; exact Hbl))
    as (c2 & E2 & P2 & N2 & W2 & D2 & S2 & B2 & Wr2).
  rewrite E2. exists c2, data. split; [reflexivity|].
  assert (Sk : skipn (length data) (cpend c) = cpend c1) by (rewrite Dcat at 1; apply skipn_app_exact).
  split; [rewrite Wr2, Q6; reflexivity|].
  split; [rewrite Sk; exact Dcat|]. split; [exact Dfirst|].
  split; [rewrite Sk; unfold cpend at 1; rewrite P2; unfold cat; rewrite map_app, concat_app; fold (cat (pend (io c1))); fold (cat (shift (now (io c1)) st)); rewrite cat_shift; reflexivity|].
  split; [exact W2|]. split; [exact D2|]. split; [exact S2|]. congruence.
Qed.
