(* ProofC18i.v -- the login under a boot timer that is already running (started by an earlier stage: askfirst, or a
   U-Boot stage), and the chain AskfirstInitializer -> LinuxBootLogin under ONE boot timeout. *)
From TV Require Import Base BaseLemmas Utf8 Regex Channel ChannelLemmas ProofC02 ProofC03 ProofC04 ProofC06 Hush Session ProofSession
  ProofC04b ProofLive Boot ProofC18 ProofC18b ProofC18c ProofC18h.
Local Open Scope Z_scope.

(* as login_succeeds (ProofC18c.v), but the timer began at `start` <= now: every deadline is start + T *)
Theorem login_succeeds_running cfg start c pw (st_user st_pw : stage) (sts : list stage) noise0 noise1 :
  b_login_delay cfg = 0 -> b_password cfg = Some pw ->
  start <= now (io c) ->
  match b_timeout cfg with Some T => now (io c) < start + T | None => True end ->
  match b_nopw cfg with Some n => 0 < n | None => True end ->
  wfc c -> deaths c = [] -> slow c = None ->
  cpend c = noise0 ++ LOGIN_P -> prompt_only_at_end LOGIN_P noise0 ->
  ready (deadline start (b_timeout cfg)) (pend (io c)) = length (cpend c) ->
  any_in (blacklist c) (utf8_enc (b_user cfg) ++ [CR]) = false ->
  any_in (blacklist c) (utf8_enc pw ++ [CR]) = false ->
  wf_pend st_user -> cat st_user = noise1 ++ PASSWORD_P -> prompt_only_at_end PASSWORD_P noise1 ->
  within (match b_nopw cfg, b_timeout cfg with
          | None, None => None
          | None, Some T => Some (start + T - last_time c)
          | Some n, None => Some n
          | Some n, Some T => Some (Z.min (start + T - last_time c) n)
          end) st_user ->
  wf_pend st_pw ->
  exists c',
    login_step cfg start (st_user :: st_pw :: sts) c = (BOk, c', sts) /\
    wr (io c') = wr (io c) ++ (utf8_enc (b_user cfg) ++ [CR]) ++ (utf8_enc pw ++ [CR]) /\
    pend (io c') = shift (now (io c')) st_pw /\ wfc c' /\ deaths c' = [] /\
    match b_timeout cfg with Some T => now (io c') < start + T | None => True end /\
    slow c' = None /\ blacklist c' = blacklist c.
Proof.
  intros Hdelay Hpw Hst HT Hn Hw Hd Hs Hc0 Ho0 Hr0 Hbu Hbp Hwu Hcu Hou Hwin Hwp.
  unfold login_step.
  set (rem0 := match b_timeout cfg with Some T => Some (T - (now (io c) - start)) | None => None end).
  assert (R0 : remaining cfg start c = Some rem0).
  { unfold remaining, rem0. destruct (b_timeout cfg) as [T|]; [|reflexivity].
    destruct (T - (now (io c) - start) <=? 0) eqn:Q; [lia | reflexivity]. }
  rewrite R0.
  assert (Hrem0 : match rem0 with Some T => 0 < T | None => True end).
  { unfold rem0. destruct (b_timeout cfg) as [T|]; [lia | exact I]. }
  assert (Hdl : deadline (now (io c)) rem0 = deadline start (b_timeout cfg)).
  { unfold rem0, deadline. destruct (b_timeout cfg) as [T|]; [|reflexivity]. cbn [option_map]. f_equal. lia. }
  assert (Hne0 : cpend c <> []) by (rewrite Hc0; destruct noise0; discriminate).
  assert (HL : LOGIN_P <> []) by discriminate.
  assert (HP : PASSWORD_P <> []) by discriminate.
  destruct (rup_timed_live (SLit LOGIN_P) rem0 c (cpend c) (length noise0) Hw Hd Hrem0 eq_refl Hne0
              ltac:(rewrite Hc0; apply only_tail_literal; assumption) ltac:(rewrite Hdl; exact Hr0))
    as (c1 & E1 & P1 & Cfg1 & D1 & W1 & T1 & N1).
  rewrite E1, Hdelay. cbn [Z.eqb].
  destruct Cfg1 as (Q1 & Q2 & Q3 & Q4 & Q5 & Q6).
  assert (Hs1 : slow c1 = None) by congruence.
  assert (Hbu1 : any_in (blacklist c1) (utf8_enc (b_user cfg) ++ [CR]) = false) by (rewrite Q2; exact Hbu).
  destruct (line_noback_ok (utf8_enc (b_user cfg)) st_user (st_pw :: sts) c1 W1 D1 Hs1 Hwu Hbu1)
    as (c6 & E6 & P6 & N6 & W6 & D6 & S6 & B6 & Wr6).
  rewrite E6, Hpw.
  (* the login prompt was complete before the deadline *)
  assert (T1' : match b_timeout cfg with Some T => last_time c < start + T | None => True end).
  { unfold in_time, rem0 in T1. rewrite N1 in T1. destruct (b_timeout cfg) as [T|]; [lia | exact I]. }
  assert (R6 : remaining cfg start c6 =
               Some (match b_timeout cfg with Some T => Some (start + T - last_time c) | None => None end)).
  { unfold remaining. destruct (b_timeout cfg) as [T|]; [|reflexivity]. rewrite N6, N1.
    destruct (T - (last_time c - start) <=? 0) eqn:Q; [lia|]. do 2 f_equal. lia. }
  rewrite R6.
  match goal with
  | |- context [read_until_prompt (Some (SLit PASSWORD_P)) ?t c6] => set (tmo := t)
  end.
  assert (Hwin' : within tmo st_user).
  { unfold tmo. destruct (b_nopw cfg), (b_timeout cfg); exact Hwin. }
  assert (Htmo : match tmo with Some T => 0 < T | None => True end).
  { unfold tmo. destruct (b_nopw cfg), (b_timeout cfg); lia. }
  assert (Hc6 : cpend c6 = noise1 ++ PASSWORD_P).
  { unfold cpend. rewrite P6, P1. cbn [app]. rewrite cat_shift. exact Hcu. }
  assert (Hne6 : cpend c6 <> []) by (rewrite Hc6; destruct noise1; discriminate).
  assert (Hr6 : ready (deadline (now (io c6)) tmo) (pend (io c6)) = length (cpend c6)).
  { rewrite P6, P1. cbn [app]. rewrite N6, Hc6, <- Hcu. apply ready_shift. exact Hwin'. }
  destruct (rup_timed_live (SLit PASSWORD_P) tmo c6 (cpend c6) (length noise1) W6 D6 Htmo eq_refl Hne6
              ltac:(rewrite Hc6; apply only_tail_literal; assumption) Hr6)
    as (c7 & E7 & P7 & Cfg7 & D7 & W7 & T7 & N7).
  rewrite E7.
  destruct Cfg7 as (K1 & K2 & K3 & K4 & K5 & K6).
  assert (Hs7 : slow c7 = None) by congruence.
  assert (Hbp7 : any_in (blacklist c7) (utf8_enc pw ++ [CR]) = false) by (rewrite K2, B6, Q2; exact Hbp).
  destruct (line_noback_ok (utf8_enc pw) st_pw sts c7 W7 D7 Hs7 Hwp Hbp7)
    as (c8 & E8 & P8 & N8 & W8 & D8 & S8 & B8 & Wr8).
  rewrite E8. exists c8. split; [reflexivity|].
  split; [rewrite Wr8, K6, Wr6, Q6, <- !app_assoc; reflexivity|].
  split; [rewrite P8, P7, N8; reflexivity|]. split; [exact W8|]. split; [exact D8|].
  split; [|split; [exact S8 | congruence]].
  destruct (b_timeout cfg) as [T|] eqn:ET; [|exact I].
  rewrite N8. unfold in_time in T7. unfold tmo in T7. rewrite N6, N1 in T7.
  destruct (b_nopw cfg); lia.
Qed.
