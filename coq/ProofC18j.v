(* ProofC18j.v -- the chain AskfirstInitializer -> LinuxBootLogin under ONE boot timeout (started when the askfirst
   stage begins): banner, Enter, login prompt, user name, password prompt, password. *)
From TV Require Import Base BaseLemmas Utf8 Regex Channel ChannelLemmas ProofC02 ProofC03 ProofC04 ProofC06 Hush Session ProofSession
  ProofC04b ProofLive Boot ProofC18 ProofC18b ProofC18c ProofC18h ProofC18i.
Local Open Scope Z_scope.

(* expect() that returns has not run past its deadline, and the moment at which everything pending will have arrived
   is unchanged *)
Lemma expect_loop_ret_time fuel : forall start tmo pats buf c r c',
  wfc c -> deaths c = [] -> in_time start tmo c ->
  expect_loop fuel start tmo pats buf c = (Ret r, c') ->
  in_time start tmo c' /\ last_time c' = last_time c.
Proof.
  induction fuel as [|f IH]; intros start tmo pats buf c r c' Hw Hd Ht E; [cbn in E; discriminate|].
  rewrite expect_loop_step in E.
  destruct (iter_step start tmo READ_CHUNK_SIZE c) as [sr c1] eqn:Es.
  destruct sr as [new| | |e mt]; try discriminate.
  assert (Hpos : (0 < ready (deadline start tmo) (pend (io c)))%nat).
  { destruct tmo as [T|]; [exact (proj2 (iter_step_data_pos _ _ _ _ _ _ Es chunk_pos Hw))|].
    destruct (iter_step_spec _ _ _ _ _ _ Es chunk_pos Hw) as (_ & _ & _ & Hne & _ & Hc & _).
    cbn [deadline option_map ready]. fold (cpend c). rewrite Hc, app_length. destruct new; [congruence | cbn; lia]. }
  destruct (iter_step_live start tmo READ_CHUNK_SIZE c chunk_pos Hw Hd Ht Hpos)
    as (new' & c1' & Es' & _ & _ & _ & _ & Hw1 & Hd1 & Ht1 & _ & L1).
  rewrite Es in Es'. injection Es' as <- <-.
  destruct (try_patterns 0 pats (buf ++ new)) as [r0|] eqn:Etp.
  - injection E as <- <-. auto.
  - destruct (IH _ _ _ _ _ _ _ Hw1 Hd1 Ht1 E) as [A B]. split; [exact A | congruence].
Qed.

Lemma last_from_ge p : forall t, t <= last_from t p.
Proof. induction p as [|[a d] r IH]; intros t; cbn [last_from]; [lia|]. specialize (IH (Z.max t a)). lia. Qed.

Definition enter_done (c : chan) (st_enter : stage) : Z := last_from (last_time c) (shift (last_time c) st_enter).

Theorem askfirst_then_login_succeeds cfg c pw (st_enter st_user st_pw : stage) (sts : list stage) pre noise0 noise1 :
  b_askfirst cfg = true -> b_login_delay cfg = 0 -> b_password cfg = Some pw ->
  match b_timeout cfg with Some T => 0 < T | None => True end ->
  match b_nopw cfg with Some n => 0 < n | None => True end ->
  wfc c -> deaths c = [] -> slow c = None ->
  (* the banner ends what the console has printed so far, and all of it arrives before the boot timeout *)
  cpend c = pre ++ ASKFIRST_P -> find_sub ASKFIRST_P (cpend c) = Some (length pre) ->
  ready (deadline (now (io c)) (b_timeout cfg)) (pend (io c)) = length (cpend c) ->
  any_in (blacklist c) [CR] = false ->
  any_in (blacklist c) (utf8_enc (b_user cfg) ++ [CR]) = false ->
  any_in (blacklist c) (utf8_enc pw ++ [CR]) = false ->
  (* the reaction to the Enter ends with the login prompt and arrives before the boot timeout *)
  wf_pend st_enter -> cat st_enter = noise0 ++ LOGIN_P -> prompt_only_at_end LOGIN_P noise0 ->
  within (match b_timeout cfg with Some T => Some (now (io c) + T - last_time c) | None => None end) st_enter ->
  (* the reaction to the user name ends with the password prompt and arrives within the password wait *)
  wf_pend st_user -> cat st_user = noise1 ++ PASSWORD_P -> prompt_only_at_end PASSWORD_P noise1 ->
  within (match b_nopw cfg, b_timeout cfg with
          | None, None => None
          | None, Some T => Some (now (io c) + T - enter_done c st_enter)
          | Some n, None => Some n
          | Some n, Some T => Some (Z.min (now (io c) + T - enter_done c st_enter) n)
          end) st_user ->
  wf_pend st_pw ->
  exists c',
    bringup cfg (st_enter :: st_user :: st_pw :: sts) c = (BOk, c', sts) /\
    wr (io c') = wr (io c) ++ [CR] ++ (utf8_enc (b_user cfg) ++ [CR]) ++ (utf8_enc pw ++ [CR]) /\
    pend (io c') = shift (now (io c')) st_pw /\ wfc c' /\ deaths c' = [] /\
    match b_timeout cfg with Some T => now (io c') < now (io c) + T | None => True end.
Proof.
  intros Ha Hdelay Hpw HT Hn Hw Hd Hs Hc0 Hf Hr0 Hbe Hbu Hbp Hwe Hce Hoe Hwine Hwu Hcu Hou Hwinu Hwp.
  unfold bringup. rewrite Ha. unfold askfirst_step.
  assert (Hr : (length pre + length ASKFIRST_P <= ready (deadline (now (io c)) (b_timeout cfg)) (pend (io c)))%nat).
  { rewrite Hr0, Hc0, app_length. lia. }
  destruct (expect_literal_live ASKFIRST_P (b_timeout cfg) c (length pre) Hw Hd HT ltac:(discriminate) Hf Hr)
    as (r & c1 & data & E & _ & _ & _ & Dcat & Dfirst & _ & W1 & Cfg1 & D1).
  assert (Ht0 : in_time (now (io c)) (b_timeout cfg) c) by (unfold in_time; destruct (b_timeout cfg); [lia | exact I]).
  pose proof E as E'. unfold expect in E'.
  destruct (expect_loop_ret_time _ _ _ _ _ _ _ _ Hw Hd Ht0 E') as [Ht1 L1].
  rewrite E.
  (* everything pending was consumed *)
  assert (Hall : cpend c1 = []).
  { assert (Q : firstn (length pre + length ASKFIRST_P) data = cpend c).
    { rewrite Dfirst, Hc0, firstn_app, firstn_all, Nat.sub_diag. cbn [firstn]. rewrite app_nil_r. reflexivity. }
    assert (Ql : (length (cpend c) <= length data)%nat).
    { rewrite <- Q at 1. rewrite firstn_length. lia. }
    apply (f_equal (@length N)) in Dcat. rewrite app_length in Dcat.
    destruct (cpend c1); [reflexivity | cbn in Dcat; lia]. }
  assert (Hp1 : pend (io c1) = []) by (apply cpend_nil_pend; assumption).
  assert (Hn1 : now (io c1) = last_time c) by (rewrite <- L1; unfold last_time; rewrite Hp1; reflexivity).
  destruct Cfg1 as (Q1 & Q2 & Q3 & Q4 & Q5 & Q6).
  assert (Hs1 : slow c1 = None) by congruence.
  destruct (line_noback_ok [] st_enter (st_user :: st_pw :: sts) c1 W1 D1 Hs1 Hwe ltac:(rewrite Q2; exact Hbe))
    as (c2 & E2 & P2 & N2 & W2 & D2 & S2 & B2 & Wr2).
  rewrite E2. rewrite Hp1 in P2. cbn [app] in P2. rewrite Hn1 in P2.
  assert (Hc2 : cpend c2 = noise0 ++ LOGIN_P) by (unfold cpend; rewrite P2, cat_shift; exact Hce).
  assert (Hl2 : last_time c2 = enter_done c st_enter) by (unfold last_time, enter_done; rewrite N2, Hn1, P2; reflexivity).
  destruct (login_succeeds_running cfg (now (io c)) c2 pw st_user st_pw sts noise0 noise1 Hdelay Hpw) as (c' & E3 & Wr3 & P3 & W3 & D3 & T3 & _); try assumption.
  - rewrite N2, Hn1. apply last_from_ge.
  - unfold in_time in Ht1. rewrite N2. destruct (b_timeout cfg); [exact Ht1 | exact I].
  - rewrite Hc2, <- Hce, P2.
    destruct (b_timeout cfg) as [T|]; cbn [deadline option_map ready] in *.
    + replace (now (io c) + T) with (last_time c + (now (io c) + T - last_time c)) by lia.
      exact (ready_shift (Some (now (io c) + T - last_time c)) (last_time c) st_enter Hwine).
    + rewrite cat_shift. reflexivity.
  - rewrite B2, Q2. exact Hbu.
  - rewrite B2, Q2. exact Hbp.
  - rewrite Hl2. exact Hwinu.
  - exists c'. split; [exact E3|]. split; [rewrite Wr3, Wr2, Q6, <- !app_assoc; reflexivity|]. auto.
Qed.

(* the hypotheses can be met: boot messages and the banner within 2 s, the login prompt 0.3 s after the Enter, the
   password prompt 0.25 s after the user name; boot timeout 5 s, no_password_timeout 1 s *)
Example askfirst_chain_hypotheses_satisfiable :
  let cfg := mkB true [114; 111; 111; 116]%N (Some [104; 117; 110; 116; 101; 114; 50]%N) (Some 5120) 0 (Some 1024) in
  let c := chan_init [(100, [66; 111; 111; 116; 13; 10]%N); (2000, ASKFIRST_P)] [] in
  let st_enter : stage := [(5, [13; 10]%N); (300, LOGIN_P)] in
  let st_user : stage := [(10, [114; 111; 111; 116; 13; 10]%N); (256, PASSWORD_P)] in
  wfc c /\ deaths c = [] /\ slow c = None /\
  cpend c = [66; 111; 111; 116; 13; 10]%N ++ ASKFIRST_P /\ find_sub ASKFIRST_P (cpend c) = Some 6%nat /\
  ready (deadline (now (io c)) (b_timeout cfg)) (pend (io c)) = length (cpend c) /\
  last_time c = 2000 /\ enter_done c st_enter = 2300 /\
  within (Some (now (io c) + 5120 - last_time c)) st_enter /\
  within (Some (Z.min (now (io c) + 5120 - enter_done c st_enter) 1024)) st_user.
Proof.
  cbv zeta. split; [repeat constructor; discriminate|]. split; [reflexivity|]. split; [reflexivity|].
  split; [reflexivity|]. split; [vm_compute; reflexivity|]. split; [vm_compute; reflexivity|].
  split; [reflexivity|]. split; [reflexivity|].
  split; repeat constructor; vm_compute; reflexivity.
Qed.
