(* ProofC18k.v -- the U-Boot stage followed by the first U-Boot command: intercept autoboot, reach the prompt, exec.
   uboot_succeeds (ProofC18d.v) is restated with the channel facts the next step needs; C19's exec theorem composes. *)
From TV Require Import Base BaseLemmas Utf8 Regex Channel ChannelLemmas ProofC02 ProofC03 ProofC04 ProofC06 Hush Session ProofSession
  ProofC04b ProofLive Boot ProofC18 ProofC18b ProofC18c ProofC18d ProofC19.
From Coq Require Import ZifyBool.

Local Open Scope Z_scope.

Lemma write_raw_ok_bl s (st : stage) (sts : list stage) c :
  s <> [] -> wfc c -> deaths c = [] -> slow c = None -> wf_pend st ->
  exists c', write_raw s (st :: sts) c = (Ret tt, c', sts) /\
    pend (io c') = pend (io c) ++ shift (now (io c)) st /\ now (io c') = now (io c) /\ wfc c' /\ deaths c' = [] /\
    slow c' = None /\ prompt c' = prompt c /\ wr (io c') = wr (io c) ++ s /\ blacklist c' = blacklist c.
Proof.
  intros Hs Hw Hd Hsl Hst. unfold write_raw. destruct s as [|x s0]; [congruence|]. cbn [hd_stage tl].
  set (c0 := load st c).
  assert (L : pend (io c0) = pend (io c) ++ shift (now (io c)) st /\ wfc c0 /\ deaths c0 = [] /\ slow c0 = None /\
              prompt c0 = prompt c /\ wr (io c0) = wr (io c) /\ now (io c0) = now (io c) /\ blacklist c0 = blacklist c).
  { unfold c0, load, wfc, shift in *. cbn. split; [reflexivity|].
    split; [unfold wf_pend in *; apply Forall_app; split; [exact Hw|];
            apply Forall_forall; intros e He; apply in_map_iff in He; destruct He as (e0 & <- & Hin); cbn;
            rewrite Forall_forall in Hst; exact (Hst e0 Hin)|].
    auto 10. }
  destruct L as (L1 & L2 & L3 & L4 & L5 & L6 & L7 & L8).
  assert (L4' : slow_ok c0) by (unfold slow_ok; rewrite L4; exact I).
  destruct (write (x :: s0) true c0) as [r c1] eqn:Ew.
  destruct (write_complete _ _ _ _ _ L4' Ew) as [(-> & W2 & W3 & _) | (_ & _ & X & _)]; [|discriminate].
  destruct (write_keeps_time _ _ _ _ _ L4 Ew) as [T1 S1]. unfold nowc in T1.
  destruct W3 as (P1 & P2 & P3 & P4 & P5 & P6 & P7).
  exists c1. split; [reflexivity|]. split; [congruence|]. split; [congruence|].
  split; [unfold wfc; rewrite P1; exact L2|]. split; [congruence|]. split; [exact S1|]. split; [congruence|].
  split; [rewrite W2, L6; reflexivity | congruence].
Qed.

Theorem uboot_succeeds_full fuel cfg c S0 k0 (st_keys : stage) (sts : list stage) noise :
  u_autoboot cfg = true -> u_keys cfg <> [] -> u_prompt cfg <> [] ->
  match u_timeout cfg with Some T => 0 < T | None => True end ->
  wfc c -> deaths c = [] -> slow c = None ->
  (* the console's output up to (a match of) the autoboot prompt arrives before the boot timeout expires *)
  cpend c = S0 -> S0 <> [] -> only_tail (prompt_split (Some (SRe AUTOBOOT_RE))) S0 k0 ->
  ready (deadline (now (io c)) (u_timeout cfg)) (pend (io c)) = length S0 ->
  (* the reaction to the keys ends with the U-Boot prompt and arrives within the first poll *)
  wf_pend st_keys -> cat st_keys = noise ++ u_prompt cfg -> prompt_only_at_end (u_prompt cfg) noise ->
  within (Some HALF) st_keys ->
  exists c',
    uboot_bringup (S fuel) cfg (st_keys :: sts) c = (BOk, c', sts) /\
    wr (io c') = wr (io c) ++ u_keys cfg /\ pend (io c') = [] /\ prompt c' = Some (SLit (u_prompt cfg)) /\
    wfc c' /\ deaths c' = [] /\ slow c' = None /\ blacklist c' = blacklist c.
Proof.
  intros Hab Hk Hpr HT Hw Hd Hs Hc0 Hne0 Hot0 Hr0 Hwk Hck Hok Hwin.
  unfold uboot_bringup. rewrite Hab.
  assert (Etmo : match u_timeout cfg with Some T => Some (T - (now (io c) - now (io c))) | None => None end = u_timeout cfg).
  { destruct (u_timeout cfg); [f_equal; lia | reflexivity]. }
  rewrite Etmo.
  destruct (rup_timed_live (SRe AUTOBOOT_RE) (u_timeout cfg) c S0 k0 Hw Hd HT Hc0 Hne0 Hot0 Hr0)
    as (c1 & E1 & P1 & Cfg1 & D1 & W1 & T1 & N1).
  rewrite E1.
  destruct Cfg1 as (Q1 & Q2 & Q3 & Q4 & Q5 & Q6).
  assert (Hs1 : slow c1 = None) by congruence.
  destruct (write_raw_ok_bl (u_keys cfg) st_keys sts c1 Hk W1 D1 Hs1 Hwk) as (c2 & E2 & P2 & N2 & W2 & D2 & S2 & Pr2 & Wr2 & Bl2).
  rewrite E2.
  (* the first poll *)
  set (c3 := with_prompt c2 (Some (SLit (u_prompt cfg)))).
  cbn [poll_loop].
  assert (Hhead : match u_timeout cfg with Some T => T <? now (io c3) - now (io c) | None => false end = false).
  { destruct (u_timeout cfg) as [T|]; [|reflexivity]. change (now (io c3)) with (now (io c2)). rewrite N2.
    unfold in_time in T1. lia. }
  rewrite Hhead.
  assert (Hc3 : cpend c3 = noise ++ u_prompt cfg).
  { change (cpend c3) with (cpend c2). unfold cpend. rewrite P2, P1. cbn [app]. rewrite cat_shift. exact Hck. }
  assert (Hne3 : noise ++ u_prompt cfg <> []) by (destruct noise; [exact Hpr | discriminate]).
  assert (Hr3 : ready (deadline (now (io c3)) (Some HALF)) (pend (io c3)) = length (noise ++ u_prompt cfg)).
  { change (pend (io c3)) with (pend (io c2)). change (now (io c3)) with (now (io c2)). rewrite P2, P1. cbn [app].
    rewrite N2, <- Hck. apply ready_shift. exact Hwin. }
  assert (HT3 : match Some HALF with Some T => 0 < T | None => True end) by (unfold HALF; lia).
  destruct (rup_timed_live_chan (Some HALF) c3 (noise ++ u_prompt cfg) (length noise) W2 D2 HT3 Hc3 Hne3
              ltac:(apply only_tail_literal; assumption) Hr3)
    as (c4 & E4 & P4 & Cfg4 & D4 & W4 & T4 & N4).
  rewrite E4. exists c4. split; [reflexivity|].
  destruct Cfg4 as (K1 & K2 & K3 & K4 & K5 & K6).
  split; [rewrite K6; change (wr (io c3)) with (wr (io c2)); rewrite Wr2, Q6; reflexivity|].
  split; [exact P4|]. split; [exact K1|]. split; [exact W4|]. split; [exact D4|].
  split; [rewrite K3; change (slow c3) with (slow c2); exact S2|].
  rewrite K2. change (blacklist c3) with (blacklist c2). congruence.
Qed.

Theorem uboot_then_exec_exact fuel cfg c S0 k0 (st_keys : stage) noise args (st1 st2 : stage) (sts : list stage) out ds :
  u_autoboot cfg = true -> u_keys cfg <> [] -> u_prompt cfg <> [] ->
  match u_timeout cfg with Some T => 0 < T | None => True end ->
  wfc c -> deaths c = [] -> slow c = None ->
  cpend c = S0 -> S0 <> [] -> only_tail (prompt_split (Some (SRe AUTOBOOT_RE))) S0 k0 ->
  ready (deadline (now (io c)) (u_timeout cfg)) (pend (io c)) = length S0 ->
  wf_pend st_keys -> cat st_keys = noise ++ u_prompt cfg -> prompt_only_at_end (u_prompt cfg) noise ->
  within (Some HALF) st_keys ->
  (* the first command *)
  Forall plain args ->
  (forall c', prompt c' = Some (SLit (u_prompt cfg)) -> ub_override args c' = None) ->
  any_in (blacklist c) (utf8_enc (ub_escape args) ++ [CR]) = false ->
  any_in (blacklist c) (ECHO_Q ++ [CR]) = false ->
  wf_pend st1 -> cat st1 = (utf8_enc (ub_escape args) ++ [CR; LF]) ++ out ++ u_prompt cfg -> prompt_only_at_end (u_prompt cfg) out ->
  wf_pend st2 -> cat st2 = (ECHO_Q ++ [CR; LF]) ++ (ds ++ [CR; LF]) ++ u_prompt cfg ->
  all_digits ds -> ds <> [] -> prompt_only_at_end (u_prompt cfg) (ds ++ [CR; LF]) ->
  exists c1 c2,
    uboot_bringup (S fuel) cfg (st_keys :: st1 :: st2 :: sts) c = (BOk, c1, st1 :: st2 :: sts) /\
    ub_exec args (st1 :: st2 :: sts) c1 = (XOk (dec_val ds) (text out), c2, sts) /\
    insync c2 /\
    wr (io c2) = wr (io c) ++ u_keys cfg ++ (utf8_enc (ub_escape args) ++ [CR]) ++ (ECHO_Q ++ [CR]) /\
    hush_words (utf8_enc (ub_escape args)) = Some (map utf8_enc args).
Proof.
  intros Hab Hk Hpr HT Hw Hd Hs Hc0 Hne0 Hot0 Hr0 Hwk Hck Hok Hwin Hargs Hov Hb1 Hb2 Hw1 Hc1 Ho1 Hw2 Hc2 Hds Hne Ho2.
  destruct (uboot_succeeds_full fuel cfg c S0 k0 st_keys (st1 :: st2 :: sts) noise Hab Hk Hpr HT Hw Hd Hs Hc0 Hne0 Hot0 Hr0 Hwk Hck Hok Hwin)
    as (c1 & E1 & Wr1 & P1 & Pr1 & W1 & D1 & S1 & B1).
  assert (I1 : insync c1).
  { split; [|exact P1]. split; [exact W1|]. split; [exact D1|]. unfold slow_ok. rewrite S1. exact I. }
  destruct (ub_exec_exact args (u_prompt cfg) c1 st1 st2 sts out ds I1 Pr1 Hpr Hargs (Hov c1 Pr1)
              ltac:(rewrite B1; exact Hb1) ltac:(rewrite B1; exact Hb2) Hw1 Hc1 Ho1 Hw2 Hc2 Hds Hne Ho2)
    as (c2 & E2 & I2 & Wr2 & Hwords & _).
  exists c1, c2. split; [exact E1|]. split; [exact E2|]. split; [exact I2|]. split; [|exact Hwords].
  rewrite Wr2, Wr1, <- !app_assoc. reflexivity.
Qed.
