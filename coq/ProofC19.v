(* ProofC19.v -- _hush_quote is lossless through the hush model; exec / env over the console session. *)
From TV Require Import Base BaseLemmas Utf8 Hush.
From Coq Require Import ZifyBool ZifyN.

Local Open Scope N_scope.

(* ------------------------------------------------------------------ safe characters are ordinary *)
Lemma is_safe_range c : is_safe c = true ->
  c < 128 /\ c <> 92 /\ c <> 36 /\ c <> 39 /\ c <> 34 /\ c <> 32 /\ c <> 9 /\ c <> 10 /\ c <> 35 /\
  c <> 59 /\ c <> 38 /\ c <> 124 /\ c <> 13 /\ c <> 3 /\ c <> 4.
Proof. unfold is_safe, mem_N. cbn [existsb]. lia. Qed.

Lemma eqb_false c k : c <> k -> (c =? k) = false.
Proof. intros H. apply N.eqb_neq. exact H. Qed.

Lemma unq_safe s : forall rest cur nn acc, forallb is_safe s = true ->
  hparse (s ++ rest) false false cur nn acc = hparse rest false false (cur ++ s) nn acc.
Proof.
  induction s as [|c s IH]; intros rest cur nn acc H; cbn [app].
  - rewrite app_nil_r. reflexivity.
  - cbn [forallb] in H. apply andb_prop in H. destruct H as [Hc Hs].
    destruct (is_safe_range c Hc) as (_ & A1 & A2 & A3 & A4 & A5 & A6 & A7 & A8 & A9 & A10 & A11 & _).
    cbn [hparse]. rewrite (eqb_false _ _ A1), (eqb_false _ _ A2), (eqb_false _ _ A3), (eqb_false _ _ A4).
    assert (Hifs : is_ifs c = false).
    { unfold is_ifs, mem_N. cbn [existsb]. rewrite (eqb_false _ _ A5), (eqb_false _ _ A6), (eqb_false _ _ A7). reflexivity. }
    rewrite Hifs, (eqb_false _ _ A8), (eqb_false _ _ A9), (eqb_false _ _ A10), (eqb_false _ _ A11). cbn [orb].
    rewrite IH by exact Hs. rewrite <- app_assoc. reflexivity.
Qed.

Lemma strip_safe s : forallb is_safe s = true -> strip s = s.
Proof.
  induction s as [|c s IH]; intros H; [reflexivity|]. cbn [forallb] in H. apply andb_prop in H. destruct H as [Hc Hs].
  destruct (is_safe_range c Hc) as (_ & A1 & _). cbn [strip]. rewrite (eqb_false _ _ A1), IH by exact Hs. reflexivity.
Qed.

(* ------------------------------------------------------------------ the single-quoted form *)
Definition raw_char (c : N) : list N :=
  if (c =? 92) then [92; 92] else if (c =? 39) then [92; 39] else [c].

Lemma sq_body s : forall rest cur acc,
  hparse (flat_map esc_char s ++ 39 :: rest) true false cur true acc =
  hparse rest false false (cur ++ flat_map raw_char s) true acc.
Proof.
  induction s as [|c s IH]; intros rest cur acc; cbn [flat_map app].
  - cbn [hparse]. rewrite N.eqb_refl, app_nil_r. reflexivity.
  - unfold esc_char at 1, raw_char at 1.
    destruct (N.eqb_spec c 92) as [->|N92].
    + cbn [app hparse]. change (92 =? 39) with false. cbv iota.
      rewrite IH, <- !app_assoc. reflexivity.
    + destruct (N.eqb_spec c 39) as [->|N39].
      * cbn [app hparse]. change (39 =? 39) with true. change (92 =? 92) with true. cbv iota.
        unfold addq. cbn [andb]. rewrite IH, <- !app_assoc. reflexivity.
      * cbn [app hparse]. rewrite (eqb_false _ _ N39).
        rewrite IH, <- !app_assoc. reflexivity.
Qed.

Lemma strip_raw s : strip (flat_map raw_char s) = s.
Proof.
  induction s as [|c s IH]; [reflexivity|]. cbn [flat_map]. unfold raw_char at 1.
  destruct (N.eqb_spec c 92) as [->|N92]; [cbn [app strip]; change (92 =? 92) with true; cbv iota; rewrite IH; reflexivity|].
  destruct (N.eqb_spec c 39) as [->|N39]; [cbn [app strip]; change (92 =? 92) with true; cbv iota; rewrite IH; reflexivity|].
  cbn [app strip]. rewrite (eqb_false _ _ N92), IH. reflexivity.
Qed.

(* one quoted argument is read as exactly one word, whatever follows *)
Lemma quote_word a rest acc :
  exists cur nn,
    hparse (hush_quote a ++ rest) false false [] false acc = hparse rest false false cur nn acc /\
    done_word cur nn acc = acc ++ [a].
Proof.
  unfold hush_quote. destruct a as [|c a'].
  - exists [], true. split; reflexivity.
  - remember (c :: a') as a eqn:Ea. destruct (forallb is_safe a) eqn:Hs.
    + exists a, false. split; [apply (unq_safe a rest [] false acc Hs)|].
      unfold done_word. rewrite (strip_safe a Hs). subst a. reflexivity.
    + exists (flat_map raw_char a), true. split.
      * rewrite <- !app_assoc. cbn [app hparse]. change (39 =? 92) with false. change (39 =? 36) with false.
        change (39 =? 39) with true. cbv iota. apply (sq_body a rest [] acc).
      * unfold done_word. rewrite strip_raw. destruct (flat_map raw_char a); reflexivity.
Qed.

Lemma words_go args : forall acc,
  hparse (join_sp (map hush_quote args)) false false [] false acc = Some (acc ++ args).
Proof.
  induction args as [|a args IH]; intros acc.
  - cbn. rewrite app_nil_r. reflexivity.
  - destruct args as [|b args'].
    + cbn [map join_sp]. destruct (quote_word a [] acc) as (cur & nn & E & D).
      rewrite app_nil_r in E. rewrite E. cbn [hparse orb]. rewrite D. reflexivity.
    + change (join_sp (map hush_quote (a :: b :: args')))
        with (hush_quote a ++ [32] ++ join_sp (map hush_quote (b :: args'))).
      destruct (quote_word a ([32] ++ join_sp (map hush_quote (b :: args'))) acc) as (cur & nn & E & D).
      rewrite E. cbn [app hparse]. change (32 =? 92) with false. change (32 =? 36) with false.
      change (32 =? 39) with false. change (32 =? 34) with false. change (is_ifs 32) with true. cbv iota.
      rewrite D, IH, <- app_assoc. reflexivity.
Qed.

(* ------------------------------------------------------------------ bytes with a meaning of their own *)
Definition plain (s : list N) : Prop := existsb line_special s = false.

Lemma plain_app a b : plain (a ++ b) <-> plain a /\ plain b.
Proof. unfold plain. rewrite existsb_app, orb_false_iff. tauto. Qed.

Lemma plain_quote a : plain a -> plain (hush_quote a).
Proof.
  intros H. unfold hush_quote. destruct a as [|c a']; [reflexivity|]. remember (c :: a') as a.
  destruct (forallb is_safe a); [exact H|].
  apply plain_app. split; [reflexivity|]. apply plain_app. split; [|reflexivity].
  clear Heqa. induction a as [|x a IH]; [reflexivity|]. cbn [flat_map].
  change (x :: a) with ([x] ++ a) in H. apply plain_app in H. destruct H as [Hx Ha].
  apply plain_app. split; [|apply IH; exact Ha].
  unfold esc_char. destruct (x =? 92); [reflexivity|]. destruct (x =? 39); [reflexivity | exact Hx].
Qed.

Lemma plain_join ws : Forall plain ws -> plain (join_sp ws).
Proof.
  induction 1 as [|w ws Hw Hws IH]; [reflexivity|]. destruct ws as [|w2 ws']; [exact Hw|].
  change (join_sp (w :: w2 :: ws')) with (w ++ [32] ++ join_sp (w2 :: ws')).
  apply plain_app. split; [exact Hw|]. apply plain_app. split; [reflexivity | exact IH].
Qed.

(* every argument list (no line terminator, no marker byte) comes out of hush exactly as it went in:
   one word per argument, no expansion, separator or comment taking effect *)
Theorem hush_quote_roundtrip args :
  Forall plain args -> hush_words (ub_escape args) = Some args.
Proof.
  intros H. unfold hush_words, ub_escape.
  assert (P : plain (join_sp (map hush_quote args))).
  { apply plain_join. rewrite Forall_map. eapply Forall_impl; [|exact H]. intros a. apply plain_quote. }
  unfold plain in P. rewrite P. apply (words_go args []).
Qed.

(* ------------------------------------------------------------------ from code points to the bytes sent *)
(* tbot quotes the str, the channel sends its UTF-8 encoding, hush reads bytes *)
Lemma enc1_ascii c : c < 128 -> utf8_enc1 c = [c].
Proof. intros H. unfold utf8_enc1. destruct (N.ltb_spec c 128); [reflexivity | lia]. Qed.

Lemma enc1_high c : 128 <= c -> utf8_enc1 c <> [] /\ Forall (fun b => 128 <= b) (utf8_enc1 c).
Proof.
  intros H. unfold utf8_enc1. destruct (N.ltb_spec c 128); [lia|].
  destruct (c <? 2048); [|destruct (c <? 65536)]; (split; [discriminate|]); repeat constructor; lia.
Qed.

Lemma not_safe_high b : 128 <= b -> is_safe b = false.
Proof. intros H. destruct (is_safe b) eqn:E; [|reflexivity]. apply is_safe_range in E. lia. Qed.

Lemma forallb_safe_high l : l <> [] -> Forall (fun b => 128 <= b) l -> forallb is_safe l = false.
Proof. intros Hn H. destruct H as [|b l Hb _]; [congruence|]. cbn [forallb]. rewrite (not_safe_high b Hb). reflexivity. Qed.

Lemma forallb_safe_enc s : forallb is_safe (utf8_enc s) = forallb is_safe s.
Proof.
  induction s as [|c s IH]; [reflexivity|]. unfold utf8_enc in *. cbn [flat_map]. rewrite forallb_app, IH. cbn [forallb].
  f_equal. destruct (N.lt_ge_cases c 128) as [L|G].
  - rewrite enc1_ascii by exact L. cbn [forallb]. apply andb_true_r.
  - destruct (enc1_high c G) as [Hn Hh]. rewrite (forallb_safe_high _ Hn Hh), not_safe_high by exact G. reflexivity.
Qed.

Lemma esc_high l : Forall (fun b => 128 <= b) l -> flat_map esc_char l = l.
Proof.
  induction 1 as [|b l Hb _ IH]; [reflexivity|]. cbn [flat_map]. rewrite IH. unfold esc_char.
  rewrite (eqb_false b 92), (eqb_false b 39) by lia. reflexivity.
Qed.

Lemma enc_app a b : utf8_enc (a ++ b) = utf8_enc a ++ utf8_enc b.
Proof. unfold utf8_enc. apply flat_map_app. Qed.

Lemma esc_enc s : flat_map esc_char (utf8_enc s) = utf8_enc (flat_map esc_char s).
Proof.
  induction s as [|c s IH]; [reflexivity|]. unfold utf8_enc in *. cbn [flat_map]. rewrite !flat_map_app, IH. f_equal.
  destruct (N.lt_ge_cases c 128) as [L|G].
  - rewrite enc1_ascii by exact L. cbn [flat_map]. rewrite app_nil_r. unfold esc_char.
    destruct (c =? 92); [reflexivity|]. destruct (c =? 39); [reflexivity|].
    cbn [flat_map]. rewrite enc1_ascii by exact L. reflexivity.
  - destruct (enc1_high c G) as [_ Hh]. rewrite (esc_high _ Hh). unfold esc_char.
    rewrite (eqb_false c 92), (eqb_false c 39) by lia. cbn [flat_map]. rewrite app_nil_r. reflexivity.
Qed.

Lemma enc_nil s : utf8_enc s = [] -> s = [].
Proof.
  destruct s as [|c s]; [reflexivity|]. unfold utf8_enc. cbn [flat_map]. intros H. apply app_eq_nil in H. destruct H as [H _].
  destruct (N.lt_ge_cases c 128) as [L|G]; [rewrite enc1_ascii in H by exact L; discriminate | destruct (enc1_high c G) as [Hn _]; congruence].
Qed.

Lemma quote_utf8 s : utf8_enc (hush_quote s) = hush_quote (utf8_enc s).
Proof.
  unfold hush_quote. destruct s as [|c s']; [reflexivity|]. remember (c :: s') as s eqn:Es.
  destruct (utf8_enc s) as [|b r] eqn:Ee; [apply enc_nil in Ee; subst; discriminate|]. rewrite <- Ee.
  rewrite forallb_safe_enc. destruct (forallb is_safe s); [reflexivity|].
  rewrite !enc_app, esc_enc. reflexivity.
Qed.

Lemma escape_utf8 args : utf8_enc (ub_escape args) = ub_escape (map utf8_enc args).
Proof.
  unfold ub_escape. induction args as [|a args IH]; [reflexivity|]. destruct args as [|b args'].
  - cbn [map join_sp]. apply quote_utf8.
  - change (join_sp (map hush_quote (a :: b :: args'))) with (hush_quote a ++ [32] ++ join_sp (map hush_quote (b :: args'))).
    change (join_sp (map hush_quote (map utf8_enc (a :: b :: args'))))
      with (hush_quote (utf8_enc a) ++ [32] ++ join_sp (map hush_quote (map utf8_enc (b :: args')))).
    rewrite !enc_app, quote_utf8, IH. reflexivity.
Qed.

Lemma plain_enc s : plain s -> plain (utf8_enc s).
Proof.
  induction s as [|c s IH]; intros H; [reflexivity|]. change (c :: s) with ([c] ++ s) in H. apply plain_app in H. destruct H as [Hc Hs].
  unfold utf8_enc. cbn [flat_map]. apply plain_app. split; [|apply IH; exact Hs].
  destruct (N.lt_ge_cases c 128) as [L|G]; [rewrite enc1_ascii by exact L; exact Hc|].
  destruct (enc1_high c G) as [_ Hh]. unfold plain. clear -Hh. induction Hh as [|b l Hb _ IH]; [reflexivity|].
  cbn [existsb]. rewrite IH. unfold line_special, mem_N. rewrite !(eqb_false b _) by lia. reflexivity.
Qed.

(* what tbot sends for a list of str arguments, read by hush: exactly the arguments' encodings *)
Theorem escape_sent_roundtrip args :
  Forall plain args -> hush_words (utf8_enc (ub_escape args)) = Some (map utf8_enc args).
Proof.
  intros H. rewrite escape_utf8. apply hush_quote_roundtrip. rewrite Forall_map.
  eapply Forall_impl; [|exact H]. intros a. apply plain_enc.
Qed.

(* the hypotheses are met by awkward strings; the result computed by the model *)
Example roundtrip_example :
  hush_words (ub_escape [[36; 39; 92; 98]; []; [35; 59; 38; 124; 32; 34]; [97; 45; 122]]) =
  Some [[36; 39; 92; 98]; []; [35; 59; 38; 124; 32; 34]; [97; 45; 122]].
Proof. vm_compute. reflexivity. Qed.

(* ================================================================== exec / exec0 / env over the console *)
From TV Require Import Regex Channel ChannelLemmas ProofC02 ProofC03 Session ProofSession.
Local Close Scope N_scope.

Lemma plain_counts l : plain l -> count_N CR l = 0%nat /\ count_N LF l = 0%nat.
Proof.
  unfold plain. induction l as [|x l IH]; [auto|]. cbn [existsb count_N]. intros H.
  apply orb_false_iff in H. destruct H as [Hx Hl]. destruct (IH Hl) as [A B]. rewrite A, B.
  unfold line_special, mem_N in Hx. unfold CR, LF.
  destruct (N.eqb_spec 13 x) as [<-|_]; [discriminate|]. destruct (N.eqb_spec 10 x) as [<-|_]; [discriminate|]. auto.
Qed.

Lemma ub_readback line : plain line -> readback_len (line ++ [CR]) = length (line ++ [CR; LF]).
Proof.
  intros H. destruct (plain_counts line H) as [A B]. rewrite readback_len_app. unfold readback_len at 1.
  rewrite A, B, app_length. cbn. lia.
Qed.

Lemma plain_line args : Forall plain args -> plain (utf8_enc (ub_escape args)).
Proof.
  intros H. apply plain_enc. unfold ub_escape. apply plain_join. rewrite Forall_map.
  eapply Forall_impl; [|exact H]. intros a. apply plain_quote.
Qed.

Lemma digits_ascii ds : all_digits ds -> ascii_noeol ds.
Proof.
  intros H. eapply Forall_impl; [|exact H]. cbn. intros d Hd. unfold is_digit in Hd. unfold CR, LF. lia.
Qed.

(* exec on any command but the crc32 special case: exactly the console output between the echoed command and
   the next prompt, the status U-Boot prints for `echo $?`, and hush receives exactly the arguments *)
Theorem ub_exec_exact args P c st1 st2 sts out ds :
  insync c -> prompt c = Some (SLit P) -> P <> [] ->
  Forall plain args -> ub_override args c = None ->
  any_in (blacklist c) (utf8_enc (ub_escape args) ++ [CR]) = false ->
  any_in (blacklist c) (ECHO_Q ++ [CR]) = false ->
  wf_pend st1 -> cat st1 = (utf8_enc (ub_escape args) ++ [CR; LF]) ++ out ++ P -> prompt_only_at_end P out ->
  wf_pend st2 -> cat st2 = (ECHO_Q ++ [CR; LF]) ++ (ds ++ [CR; LF]) ++ P ->
  all_digits ds -> ds <> [] -> prompt_only_at_end P (ds ++ [CR; LF]) ->
  exists c',
    ub_exec args (st1 :: st2 :: sts) c = (XOk (dec_val ds) (text out), c', sts) /\
    insync c' /\
    wr (io c') = wr (io c) ++ (utf8_enc (ub_escape args) ++ [CR]) ++ (ECHO_Q ++ [CR]) /\
    hush_words (utf8_enc (ub_escape args)) = Some (map utf8_enc args) /\
    prompt c' = prompt c /\ blacklist c' = blacklist c.
Proof.
  intros Hin Hpr HP Hargs Hov Hb1 Hb2 Hw1 Hc1 Ho1 Hw2 Hc2 Hds Hne Ho2.
  unfold ub_exec. rewrite Hov.
  assert (St : py_int (text (ds ++ [CR; LF])) = Some (dec_val ds)).
  { rewrite text_line by (apply digits_ascii; exact Hds). apply py_int_status; assumption. }
  destruct (exec_exact (utf8_enc (ub_escape args)) P c st1 st2 sts
              (utf8_enc (ub_escape args) ++ [CR; LF]) out (ECHO_Q ++ [CR; LF]) (ds ++ [CR; LF]) (dec_val ds)
              Hin Hpr HP Hb1 Hb2 Hw1 Hc1 (eq_sym (ub_readback _ (plain_line args Hargs))) Ho1 Hw2 Hc2 eq_refl Ho2 St)
    as (c' & E & A & B & C & D).
  exists c'. split; [exact E|]. split; [exact A|]. split; [exact B|].
  split; [apply escape_sent_roundtrip; exact Hargs | auto].
Qed.

(* exec0 raises CommandFailure iff the status is not 0; test() is status == 0 *)
Theorem ub_exec0_iff args sts c st out c' sts' :
  ub_exec args sts c = (XOk st out, c', sts') ->
  ub_exec0 args sts c = (if (st =? 0)%Z then X0Ok out else X0Failure st, c', sts').
Proof. intros H. unfold ub_exec0. rewrite H. reflexivity. Qed.

(* ---- the crc32 / "=> " special case *)
Lemma no_lf_split o b c :
  Forall (fun x => x <> LF) o ->
  (o ++ [CR]) ++ LF :: UB_ARROW = b ++ c -> c <> [] -> is_suffix (LF :: UB_ARROW) b = false.
Proof.
  intros Ho E Hc. destruct (is_suffix (LF :: UB_ARROW) b) eqn:Es; [|reflexivity]. exfalso.
  apply is_suffix_spec in Es. destruct Es as [t ->].
  assert (L : length t <= length (o ++ [CR])).
  { apply (f_equal (@length N)) in E. rewrite !app_length in E. cbn [length] in E.
    assert (0 < length c)%nat by (destruct c; [congruence | cbn; lia]). rewrite app_length. cbn [length]. lia. }
  assert (E2 : t ++ ((LF :: UB_ARROW) ++ c) = (o ++ [CR]) ++ LF :: UB_ARROW) by (rewrite app_assoc; symmetry; exact E).
  destruct (app_split_len t _ _ _ E2 L) as (q & Eq & Er).
  destruct q as [|x q'].
  - apply (f_equal (@length N)) in Er. cbn [app length] in Er. rewrite app_length in Er.
    assert (0 < length c)%nat by (destruct c; [congruence | cbn; lia]). lia.
  - cbn [app] in Er. injection Er as Ex _. subst x.
    assert (Hin : In LF (o ++ [CR])) by (rewrite Eq; apply in_or_app; right; left; reflexivity).
    apply in_app_or in Hin. destruct Hin as [Hin | [Hin | []]].
    + rewrite Forall_forall in Ho. exact (Ho _ Hin eq_refl).
    + discriminate.
Qed.

Theorem ub_exec_exact_crc32 args c st1 st2 sts o ds :
  insync c -> prompt c = Some (SLit UB_ARROW) ->
  Forall plain args -> ub_override args c = Some (LF :: UB_ARROW) ->
  any_in (blacklist c) (utf8_enc (ub_escape args) ++ [CR]) = false ->
  any_in (blacklist c) (ECHO_Q ++ [CR]) = false ->
  (* the console prints one line containing "==> " and ends it with CR LF *)
  ascii_noeol o ->
  wf_pend st1 -> cat st1 = (utf8_enc (ub_escape args) ++ [CR; LF]) ++ (o ++ [CR; LF]) ++ UB_ARROW ->
  wf_pend st2 -> cat st2 = (ECHO_Q ++ [CR; LF]) ++ (ds ++ [CR; LF]) ++ UB_ARROW ->
  all_digits ds -> ds <> [] -> prompt_only_at_end UB_ARROW (ds ++ [CR; LF]) ->
  exists c',
    ub_exec args (st1 :: st2 :: sts) c = (XOk (dec_val ds) (text (o ++ [CR; LF])), c', sts) /\ insync c'.
Proof.
  intros Hin Hpr Hargs Hov Hb1 Hb2 Ho Hw1 Hc1 Hw2 Hc2 Hds Hne Ho2.
  unfold ub_exec. rewrite Hov.
  assert (St : py_int (text (ds ++ [CR; LF])) = Some (dec_val ds)).
  { rewrite text_line by (apply digits_ascii; exact Hds). apply py_int_status; assumption. }
  destruct (ascii_noeol_parts o Ho) as (_ & _ & HnoLF).
  assert (R1 : (o ++ [CR; LF]) ++ UB_ARROW = (o ++ [CR]) ++ LF :: UB_ARROW) by (rewrite <- !app_assoc; reflexivity).
  assert (OT : only_tail (prompt_split (Some (SLit (LF :: UB_ARROW)))) ((o ++ [CR]) ++ LF :: UB_ARROW) (length (o ++ [CR]))).
  { apply only_tail_literal; [discriminate|]. intros b c0. apply no_lf_split. exact HnoLF. }
  assert (Hr1 : (o ++ [CR]) ++ LF :: UB_ARROW <> []) by (destruct o; discriminate).
  rewrite R1 in Hc1.
  destruct (exec_exact_general (utf8_enc (ub_escape args)) (Some (LF :: UB_ARROW)) UB_ARROW c st1 st2 sts
              (utf8_enc (ub_escape args) ++ [CR; LF]) ((o ++ [CR]) ++ LF :: UB_ARROW) (length (o ++ [CR]))
              (ECHO_Q ++ [CR; LF]) (ds ++ [CR; LF]) (dec_val ds)
              Hin Hpr ltac:(discriminate) Hb1 Hb2 Hw1 Hc1 (eq_sym (ub_readback _ (plain_line args Hargs))) Hr1 OT
              Hw2 Hc2 eq_refl Ho2 St) as (c' & E & A & _).
  exists c'. split; [|exact A]. rewrite E. rewrite firstn_app_exact, text_line_cr, text_line by exact Ho.
  unfold post_out. rewrite is_suffix_app.
  assert (D : drop_last 1 (o ++ [CR]) = o).
  { pose proof (take_last_app_drop 1 (o ++ [CR])) as T. rewrite take_last_app in T by (cbn; lia).
    change (take_last 1 [CR]) with [CR] in T. apply app_inv_tail in T. exact T. }
  rewrite D. reflexivity.
Qed.

(* ---- env: setting a variable and reading it back *)
Lemma utf8_enc_ascii l : Forall (fun b => (b < 128)%N) l -> utf8_enc l = l.
Proof.
  induction 1 as [|a l Ha _ IH]; [reflexivity|]. unfold utf8_enc in *. cbn [flat_map]. rewrite IH.
  rewrite enc1_ascii by exact Ha. reflexivity.
Qed.

Lemma prompt_only_at_end_nil P : P <> [] -> prompt_only_at_end P [].
Proof.
  intros HP b c E Hc. cbn [app] in E. destruct (is_suffix P b) eqn:Es; [|reflexivity]. exfalso.
  apply is_suffix_spec in Es. destruct Es as [t ->]. apply (f_equal (@length N)) in E.
  rewrite !app_length in E. assert (0 < length c) by (destruct c; [congruence | cbn; lia]). lia.
Qed.

Lemma drop_last_one (l : list N) x : drop_last 1 (l ++ [x]) = l.
Proof.
  pose proof (take_last_app_drop 1 (l ++ [x])) as T0. rewrite take_last_app in T0 by (cbn; lia).
  change (take_last 1 [x]) with [x] in T0. apply app_inv_tail in T0. exact T0.
Qed.

Definition ZERO : list N := [48%N].

Theorem ub_env_roundtrip var v P c s1 s2 s3 s4 sts :
  insync c -> prompt c = Some (SLit P) -> P <> [] ->
  plain var -> plain v -> ascii_noeol var -> ascii_noeol v ->
  let setline := utf8_enc (ub_escape [SETENV; var; v]) in
  let getline := utf8_enc (ub_escape [PRINTENV; var]) in
  any_in (blacklist c) (setline ++ [CR]) = false -> any_in (blacklist c) (getline ++ [CR]) = false ->
  any_in (blacklist c) (ECHO_Q ++ [CR]) = false ->
  prompt_only_at_end P (ZERO ++ [CR; LF]) ->
  prompt_only_at_end P ((var ++ [61%N] ++ v) ++ [CR; LF]) ->
  (* setenv prints nothing and succeeds; printenv prints name=value *)
  wf_pend s1 -> cat s1 = (setline ++ [CR; LF]) ++ [] ++ P ->
  wf_pend s2 -> cat s2 = (ECHO_Q ++ [CR; LF]) ++ (ZERO ++ [CR; LF]) ++ P ->
  wf_pend s3 -> cat s3 = (getline ++ [CR; LF]) ++ ((var ++ [61%N] ++ v) ++ [CR; LF]) ++ P ->
  wf_pend s4 -> cat s4 = (ECHO_Q ++ [CR; LF]) ++ (ZERO ++ [CR; LF]) ++ P ->
  exists c', ub_env var (Some v) (s1 :: s2 :: s3 :: s4 :: sts) c = (X0Ok v, c', sts) /\ insync c'.
Proof.
  intros Hin Hpr HP Pvar Pv Avar Av setline getline Hb1 Hb2 Hb3 Hz Hval W1 C1 W2 C2 W3 C3 W4 C4.
  assert (Pset : plain SETENV) by reflexivity. assert (Pget : plain PRINTENV) by reflexivity.
  assert (Dz : all_digits ZERO) by (repeat constructor).
  assert (Ov : forall rest, ub_override (SETENV :: rest) c = None).
  { intros rest. unfold ub_override. change (list_N_eqb SETENV CRC32) with false. reflexivity. }
  assert (Ov2 : forall rest c0, ub_override (PRINTENV :: rest) c0 = None).
  { intros rest c0. unfold ub_override. change (list_N_eqb PRINTENV CRC32) with false. reflexivity. }
  destruct (ub_exec_exact [SETENV; var; v] P c s1 s2 (s3 :: s4 :: sts) [] ZERO Hin Hpr HP
              ltac:(repeat constructor; assumption) (Ov _) Hb1 Hb3 W1 C1 (prompt_only_at_end_nil P HP)
              W2 C2 Dz ltac:(discriminate) Hz) as (c1 & E1 & Hin1 & _ & _ & Pr1 & Bl1).
  unfold ub_env. rewrite (ub_exec0_iff _ _ _ _ _ _ _ E1). change (dec_val ZERO =? 0)%Z with true. cbv iota.
  destruct (ub_exec_exact [PRINTENV; var] P c1 s3 s4 sts ((var ++ [61%N] ++ v) ++ [CR; LF]) ZERO Hin1
              ltac:(congruence) HP ltac:(repeat constructor; assumption) (Ov2 _ _)
              ltac:(rewrite Bl1; exact Hb2) ltac:(rewrite Bl1; exact Hb3) W3 C3 Hval W4 C4 Dz ltac:(discriminate) Hz)
    as (c2 & E2 & Hin2 & _).
  rewrite (ub_exec0_iff _ _ _ _ _ _ _ E2). change (dec_val ZERO =? 0)%Z with true. cbv iota.
  exists c2. split; [|exact Hin2]. f_equal. f_equal. f_equal.
  assert (A : ascii_noeol (var ++ [61%N] ++ v)).
  { apply Forall_app. split; [exact Avar|]. apply Forall_app. split; [|exact Av].
    repeat constructor; unfold CR, LF; lia. }
  rewrite text_line by exact A. unfold env_slice.
  replace ((var ++ [61%N] ++ v) ++ [LF]) with ((var ++ [61%N]) ++ (v ++ [LF])) by (rewrite <- !app_assoc; reflexivity).
  replace (length var + 1) with (length (var ++ [61%N])) by (rewrite app_length; reflexivity).
  rewrite skipn_app_exact. apply drop_last_one.
Qed.

(* the hypotheses of the exec / env theorems are met by a real exchange; the result computed by the model *)
Example ub_env_example :
  let P := UB_ARROW in
  let sl := utf8_enc (ub_escape [SETENV; [102; 111; 111]; [97; 39; 32; 36; 98]])%N in
  let gl := utf8_enc (ub_escape [PRINTENV; [102; 111; 111]])%N in
  fst (fst (ub_env [102; 111; 111]%N (Some [97; 39; 32; 36; 98]%N)
     [ [(0%Z, firstn 7 (sl ++ [CR; LF])); (3%Z, skipn 7 (sl ++ [CR; LF]) ++ firstn 2 P); (9%Z, skipn 2 P)];
       [(0%Z, (ECHO_Q ++ [CR; LF]) ++ (ZERO ++ [CR; LF]) ++ P)];
       [(0%Z, (gl ++ [CR; LF])); (1%Z, ([102; 111; 111; 61; 97; 39; 32; 36; 98]%N ++ [CR; LF]) ++ P)];
       [(0%Z, (ECHO_Q ++ [CR; LF]) ++ (ZERO ++ [CR; LF]) ++ P)] ]
     (ub_chan P []))) = X0Ok [97; 39; 32; 36; 98]%N.
Proof. vm_compute. reflexivity. Qed.
