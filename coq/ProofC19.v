(* ProofC19.v -- _hush_quote is lossless through the hush model; exec / env over the console session. *)
From TV Require Import Base BaseLemmas Utf8 Hush.
From Coq Require Import ZifyBool ZifyN.

Local Open Scope N_scope.

(* ------------------------------------------------------------------ safe characters are ordinary *)
Lemma is_safe_range c : is_safe c = true ->
  c < 128 /\ c <> 92 /\ c <> 36 /\ c <> 39 /\ c <> 34 /\ c <> 32 /\ c <> 9 /\ c <> 10 /\ c <> 35 /\
  c <> 59 /\ c <> 38 /\ c <> 124 /\ c <> 13 /\ c <> 3 /\ c <> 4.
Proof. unfold is_safe, mem_N. cbn [existsb]. lia. Qed.

Lemma eqb_false c k : c <> k -> (c =? k) = false.
Proof. intros H. apply N.eqb_neq. exact H. Qed.

Lemma unq_safe s : forall rest cur nn acc, forallb is_safe s = true ->
  hparse (s ++ rest) false false cur nn acc = hparse rest false false (cur ++ s) nn acc.
Proof.
  induction s as [|c s IH]; intros rest cur nn acc H; cbn [app].
  - rewrite app_nil_r. reflexivity.
  - cbn [forallb] in H. apply andb_prop in H. destruct H as [Hc Hs].
    destruct (is_safe_range c Hc) as (_ & A1 & A2 & A3 & A4 & A5 & A6 & A7 & A8 & A9 & A10 & A11 & _).
    cbn [hparse]. rewrite (eqb_false _ _ A1), (eqb_false _ _ A2), (eqb_false _ _ A3), (eqb_false _ _ A4).
    assert (Hifs : is_ifs c = false).
    { unfold is_ifs, mem_N. cbn [existsb]. rewrite (eqb_false _ _ A5), (eqb_false _ _ A6), (eqb_false _ _ A7). reflexivity. }
    rewrite Hifs, (eqb_false _ _ A8), (eqb_false _ _ A9), (eqb_false _ _ A10), (eqb_false _ _ A11). cbn [orb].
    rewrite IH by exact Hs. rewrite <- app_assoc. reflexivity.
Qed.

Lemma strip_safe s : forallb is_safe s = true -> strip s = s.
Proof.
  induction s as [|c s IH]; intros H; [reflexivity|]. cbn [forallb] in H. apply andb_prop in H. destruct H as [Hc Hs].
  destruct (is_safe_range c Hc) as (_ & A1 & _). cbn [strip]. rewrite (eqb_false _ _ A1), IH by exact Hs. reflexivity.
Qed.

(* ------------------------------------------------------------------ the single-quoted form *)
Definition raw_char (c : N) : list N :=
  if (c =? 92) then [92; 92] else if (c =? 39) then [92; 39] else [c].

Lemma sq_body s : forall rest cur acc,
  hparse (flat_map esc_char s ++ 39 :: rest) true false cur true acc =
  hparse rest false false (cur ++ flat_map raw_char s) true acc.
Proof.
  induction s as [|c s IH]; intros rest cur acc; cbn [flat_map app].
  - cbn [hparse]. rewrite N.eqb_refl, app_nil_r. reflexivity.
  - unfold esc_char at 1, raw_char at 1.
    destruct (N.eqb_spec c 92) as [->|N92].
    + cbn [app hparse]. change (92 =? 39) with false. cbv iota.
      rewrite IH, <- !app_assoc. reflexivity.
    + destruct (N.eqb_spec c 39) as [->|N39].
      * cbn [app hparse]. change (39 =? 39) with true. change (92 =? 92) with true. cbv iota.
        unfold addq. cbn [andb]. rewrite IH, <- !app_assoc. reflexivity.
      * cbn [app hparse]. rewrite (eqb_false _ _ N39).
        rewrite IH, <- !app_assoc. reflexivity.
Qed.

Lemma strip_raw s : strip (flat_map raw_char s) = s.
Proof.
  induction s as [|c s IH]; [reflexivity|]. cbn [flat_map]. unfold raw_char at 1.
  destruct (N.eqb_spec c 92) as [->|N92]; [cbn [app strip]; change (92 =? 92) with true; cbv iota; rewrite IH; reflexivity|].
  destruct (N.eqb_spec c 39) as [->|N39]; [cbn [app strip]; change (92 =? 92) with true; cbv iota; rewrite IH; reflexivity|].
  cbn [app strip]. rewrite (eqb_false _ _ N92), IH. reflexivity.
Qed.

(* one quoted argument is read as exactly one word, whatever follows *)
Lemma quote_word a rest acc :
  exists cur nn,
    hparse (hush_quote a ++ rest) false false [] false acc = hparse rest false false cur nn acc /\
    done_word cur nn acc = acc ++ [a].
Proof.
  unfold hush_quote. destruct a as [|c a'].
  - exists [], true. split; reflexivity.
  - remember (c :: a') as a eqn:Ea. destruct (forallb is_safe a) eqn:Hs.
    + exists a, false. split; [apply (unq_safe a rest [] false acc Hs)|].
      unfold done_word. rewrite (strip_safe a Hs). subst a. reflexivity.
    + exists (flat_map raw_char a), true. split.
      * rewrite <- !app_assoc. cbn [app hparse]. change (39 =? 92) with false. change (39 =? 36) with false.
        change (39 =? 39) with true. cbv iota. apply (sq_body a rest [] acc).
      * unfold done_word. rewrite strip_raw. destruct (flat_map raw_char a); reflexivity.
Qed.

Lemma words_go args : forall acc,
  hparse (join_sp (map hush_quote args)) false false [] false acc = Some (acc ++ args).
Proof.
  induction args as [|a args IH]; intros acc.
  - cbn. rewrite app_nil_r. reflexivity.
  - destruct args as [|b args'].
    + cbn [map join_sp]. destruct (quote_word a [] acc) as (cur & nn & E & D).
      rewrite app_nil_r in E. rewrite E. cbn [hparse orb]. rewrite D. reflexivity.
    + change (join_sp (map hush_quote (a :: b :: args')))
        with (hush_quote a ++ [32] ++ join_sp (map hush_quote (b :: args'))).
      destruct (quote_word a ([32] ++ join_sp (map hush_quote (b :: args'))) acc) as (cur & nn & E & D).
      rewrite E. cbn [app hparse]. change (32 =? 92) with false. change (32 =? 36) with false.
      change (32 =? 39) with false. change (32 =? 34) with false. change (is_ifs 32) with true. cbv iota.
      rewrite D, IH, <- app_assoc. reflexivity.
Qed.

(* ------------------------------------------------------------------ bytes with a meaning of their own *)
Definition plain (s : list N) : Prop := existsb line_special s = false.

Lemma plain_app a b : plain (a ++ b) <-> plain a /\ plain b.
Proof. unfold plain. rewrite existsb_app, orb_false_iff. tauto. Qed.

Lemma plain_quote a : plain a -> plain (hush_quote a).
Proof.
  intros H. unfold hush_quote. destruct a as [|c a']; [reflexivity|]. remember (c :: a') as a.
  destruct (forallb is_safe a); [exact H|].
  apply plain_app. split; [reflexivity|]. apply plain_app. split; [|reflexivity].
  clear Heqa. induction a as [|x a IH]; [reflexivity|]. cbn [flat_map].
  change (x :: a) with ([x] ++ a) in H. apply plain_app in H. destruct H as [Hx Ha].
  apply plain_app. split; [|apply IH; exact Ha].
  unfold esc_char. destruct (x =? 92); [reflexivity|]. destruct (x =? 39); [reflexivity | exact Hx].
Qed.

Lemma plain_join ws : Forall plain ws -> plain (join_sp ws).
Proof.
  induction 1 as [|w ws Hw Hws IH]; [reflexivity|]. destruct ws as [|w2 ws']; [exact Hw|].
  change (join_sp (w :: w2 :: ws')) with (w ++ [32] ++ join_sp (w2 :: ws')).
  apply plain_app. split; [exact Hw|]. apply plain_app. split; [reflexivity | exact IH].
Qed.

(* every argument list (no line terminator, no marker byte) comes out of hush exactly as it went in:
   one word per argument, no expansion, separator or comment taking effect *)
Theorem hush_quote_roundtrip args :
  Forall plain args -> hush_words (ub_escape args) = Some args.
Proof.
  intros H. unfold hush_words, ub_escape.
  assert (P : plain (join_sp (map hush_quote args))).
  { apply plain_join. rewrite Forall_map. eapply Forall_impl; [|exact H]. intros a. apply plain_quote. }
  unfold plain in P. rewrite P. apply (words_go args []).
Qed.

(* ------------------------------------------------------------------ from code points to the bytes sent *)
(* tbot quotes the str, the channel sends its UTF-8 encoding, hush reads bytes *)
Lemma enc1_ascii c : c < 128 -> utf8_enc1 c = [c].
Proof. intros H. unfold utf8_enc1. destruct (N.ltb_spec c 128); [reflexivity | lia]. Qed.

Lemma enc1_high c : 128 <= c -> utf8_enc1 c <> [] /\ Forall (fun b => 128 <= b) (utf8_enc1 c).
Proof.
  intros H. unfold utf8_enc1. destruct (N.ltb_spec c 128); [lia|].
  destruct (c <? 2048); [|destruct (c <? 65536)]; (split; [discriminate|]); repeat constructor; lia.
Qed.

Lemma not_safe_high b : 128 <= b -> is_safe b = false.
Proof. intros H. destruct (is_safe b) eqn:E; [|reflexivity]. apply is_safe_range in E. lia. Qed.

Lemma forallb_safe_high l : l <> [] -> Forall (fun b => 128 <= b) l -> forallb is_safe l = false.
Proof. intros Hn H. destruct H as [|b l Hb _]; [congruence|]. cbn [forallb]. rewrite (not_safe_high b Hb). reflexivity. Qed.

Lemma forallb_safe_enc s : forallb is_safe (utf8_enc s) = forallb is_safe s.
Proof.
  induction s as [|c s IH]; [reflexivity|]. unfold utf8_enc in *. cbn [flat_map]. rewrite forallb_app, IH. cbn [forallb].
  f_equal. destruct (N.lt_ge_cases c 128) as [L|G].
  - rewrite enc1_ascii by exact L. cbn [forallb]. apply andb_true_r.
  - destruct (enc1_high c G) as [Hn Hh]. rewrite (forallb_safe_high _ Hn Hh), not_safe_high by exact G. reflexivity.
Qed.

Lemma esc_high l : Forall (fun b => 128 <= b) l -> flat_map esc_char l = l.
Proof.
  induction 1 as [|b l Hb _ IH]; [reflexivity|]. cbn [flat_map]. rewrite IH. unfold esc_char.
  rewrite (eqb_false b 92), (eqb_false b 39) by lia. reflexivity.
Qed.

Lemma enc_app a b : utf8_enc (a ++ b) = utf8_enc a ++ utf8_enc b.
Proof. unfold utf8_enc. apply flat_map_app. Qed.

Lemma esc_enc s : flat_map esc_char (utf8_enc s) = utf8_enc (flat_map esc_char s).
Proof.
  induction s as [|c s IH]; [reflexivity|]. unfold utf8_enc in *. cbn [flat_map]. rewrite !flat_map_app, IH. f_equal.
  destruct (N.lt_ge_cases c 128) as [L|G].
  - rewrite enc1_ascii by exact L. cbn [flat_map]. rewrite app_nil_r. unfold esc_char.
    destruct (c =? 92); [reflexivity|]. destruct (c =? 39); [reflexivity|].
    cbn [flat_map]. rewrite enc1_ascii by exact L. reflexivity.
  - destruct (enc1_high c G) as [_ Hh]. rewrite (esc_high _ Hh). unfold esc_char.
    rewrite (eqb_false c 92), (eqb_false c 39) by lia. cbn [flat_map]. rewrite app_nil_r. reflexivity.
Qed.

Lemma enc_nil s : utf8_enc s = [] -> s = [].
Proof.
  destruct s as [|c s]; [reflexivity|]. unfold utf8_enc. cbn [flat_map]. intros H. apply app_eq_nil in H. destruct H as [H _].
  destruct (N.lt_ge_cases c 128) as [L|G]; [rewrite enc1_ascii in H by exact L; discriminate | destruct (enc1_high c G) as [Hn _]; congruence].
Qed.

Lemma quote_utf8 s : utf8_enc (hush_quote s) = hush_quote (utf8_enc s).
Proof.
  unfold hush_quote. destruct s as [|c s']; [reflexivity|]. remember (c :: s') as s eqn:Es.
  destruct (utf8_enc s) as [|b r] eqn:Ee; [apply enc_nil in Ee; subst; discriminate|]. rewrite <- Ee.
  rewrite forallb_safe_enc. destruct (forallb is_safe s); [reflexivity|].
  rewrite !enc_app, esc_enc. reflexivity.
Qed.

Lemma escape_utf8 args : utf8_enc (ub_escape args) = ub_escape (map utf8_enc args).
Proof.
  unfold ub_escape. induction args as [|a args IH]; [reflexivity|]. destruct args as [|b args'].
  - cbn [map join_sp]. apply quote_utf8.
  - change (join_sp (map hush_quote (a :: b :: args'))) with (hush_quote a ++ [32] ++ join_sp (map hush_quote (b :: args'))).
    change (join_sp (map hush_quote (map utf8_enc (a :: b :: args'))))
      with (hush_quote (utf8_enc a) ++ [32] ++ join_sp (map hush_quote (map utf8_enc (b :: args')))).
    rewrite !enc_app, quote_utf8, IH. reflexivity.
Qed.

Lemma plain_enc s : plain s -> plain (utf8_enc s).
Proof.
  induction s as [|c s IH]; intros H; [reflexivity|]. change (c :: s) with ([c] ++ s) in H. apply plain_app in H. destruct H as [Hc Hs].
  unfold utf8_enc. cbn [flat_map]. apply plain_app. split; [|apply IH; exact Hs].
  destruct (N.lt_ge_cases c 128) as [L|G]; [rewrite enc1_ascii by exact L; exact Hc|].
  destruct (enc1_high c G) as [_ Hh]. unfold plain. clear -Hh. induction Hh as [|b l Hb _ IH]; [reflexivity|].
  cbn [existsb]. rewrite IH. unfold line_special, mem_N. rewrite !(eqb_false b _) by lia. reflexivity.
Qed.

(* what tbot sends for a list of str arguments, read by hush: exactly the arguments' encodings *)
Theorem escape_sent_roundtrip args :
  Forall plain args -> hush_words (utf8_enc (ub_escape args)) = Some (map utf8_enc args).
Proof.
  intros H. rewrite escape_utf8. apply hush_quote_roundtrip. rewrite Forall_map.
  eapply Forall_impl; [|exact H]. intros a. apply plain_enc.
Qed.

(* the hypotheses are met by awkward strings; the result computed by the model *)
Example roundtrip_example :
  hush_words (ub_escape [[36; 39; 92; 98]; []; [35; 59; 38; 124; 32; 34]; [97; 45; 122]]) =
  Some [[36; 39; 92; 98]; []; [35; 59; 38; 124; 32; 34]; [97; 45; 122]].
Proof. vm_compute. reflexivity. Qed.
