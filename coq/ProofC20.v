(* ProofC20.v -- the ssh and scp command lines carry exactly the machine's connection parameters;
   copy() always forwards the REMOTE machine's parameters. *)
From TV Require Import Base BaseLemmas SshScp.
From Coq Require Import Permutation.
Local Arguments N.eqb : simpl never.

Definition add_o (p : params) (v : list N) : params :=
  mkPar (q_pass p) (q_prog p) (q_port p) (q_ident p) (q_oopts p ++ [v]) (q_pos p).
Definition add_os (p : params) (vs : list (list N)) : params :=
  mkPar (q_pass p) (q_prog p) (q_port p) (q_ident p) (q_oopts p ++ vs) (q_pos p).

Lemma str_eqb_refl s : str_eqb s s = true.
Proof. apply list_N_eqb_refl. Qed.

Lemma parse_o pf v rest p : parse_args pf (s_o :: v :: rest) p = parse_args pf rest (add_o p v).
Proof. cbn [parse_args]. rewrite str_eqb_refl. reflexivity. Qed.

Lemma add_os_nil p : add_os p [] = p.
Proof. destruct p; unfold add_os; simpl. rewrite app_nil_r. reflexivity. Qed.

Lemma add_os_cons p v vs : add_os (add_o p v) vs = add_os p (v :: vs).
Proof. unfold add_os, add_o; simpl. rewrite <- app_assoc. reflexivity. Qed.

Lemma parse_oflat pf opts : forall rest p,
  parse_args pf (oflat opts ++ rest) p = parse_args pf rest (add_os p opts).
Proof.
  induction opts as [|o opts IH]; intros rest p.
  - simpl. rewrite add_os_nil. reflexivity.
  - change (oflat (o :: opts) ++ rest) with (s_o :: o :: (oflat opts ++ rest)).
    rewrite parse_o, IH, add_os_cons. reflexivity.
Qed.

(* flags are distinct strings *)
Lemma flags_distinct :
  str_eqb s_p s_o = false /\ str_eqb s_P s_o = false /\ str_eqb s_i s_o = false /\
  str_eqb s_i s_p = false /\ str_eqb s_i s_P = false /\ str_eqb s_ssh s_sshpass = false /\
  str_eqb s_scp s_sshpass = false /\ str_eqb s_ssh s_scp = false /\ str_eqb s_scp s_scp = true.
Proof. vm_compute. repeat split; reflexivity. Qed.

Lemma parse_port pf v rest p : str_eqb pf s_o = false ->
  parse_args pf (pf :: v :: rest) p =
  parse_args pf rest (mkPar (q_pass p) (q_prog p) (Some v) (q_ident p) (q_oopts p) (q_pos p)).
Proof. intros H. cbn [parse_args]. rewrite H, str_eqb_refl. reflexivity. Qed.

Lemma parse_ident pf v rest p : str_eqb s_i pf = false ->
  parse_args pf (s_i :: v :: rest) p =
  parse_args pf rest (mkPar (q_pass p) (q_prog p) (q_port p) (Some v) (q_oopts p) (q_pos p)).
Proof.
  intros H. cbn [parse_args]. destruct flags_distinct as (_ & _ & F3 & _). rewrite F3, H, str_eqb_refl. reflexivity.
Qed.

Lemma parse_hk pf c rest p :
  parse_args pf (hk_part c ++ rest) p = parse_args pf rest (add_os p (if c_ign c then [s_hk] else [])).
Proof.
  unfold hk_part. destruct (c_ign c).
  - change ([s_o; s_hk] ++ rest) with (s_o :: s_hk :: rest). rewrite parse_o. unfold add_o, add_os. reflexivity.
  - simpl. rewrite add_os_nil. reflexivity.
Qed.

Lemma parse_mux pf c d rest p :
  parse_args pf (mux_part c d ++ rest) p =
  parse_args pf rest (add_os p (if c_mux c then [s_cm; s_cp; s_cpath ++ d ++ s_pc] else [])).
Proof.
  unfold mux_part. destruct (c_mux c).
  - change ([s_o; s_cm; s_o; s_cp; s_o; s_cpath ++ d ++ s_pc] ++ rest)
      with (s_o :: s_cm :: s_o :: s_cp :: s_o :: (s_cpath ++ d ++ s_pc) :: rest).
    rewrite !parse_o. unfold add_o, add_os; simpl. rewrite <- !app_assoc. reflexivity.
  - simpl. rewrite add_os_nil. reflexivity.
Qed.

Lemma parse_last pf x p : parse_args pf [x] p = mkPar (q_pass p) (q_prog p) (q_port p) (q_ident p) (q_oopts p) [x].
Proof. reflexivity. Qed.

(* ------------------------------------------------------------------ ssh *)
Theorem ssh_params c d :
  parse_cmd (ssh_argv c d) =
  Some (mkPar (cfg_pass c) s_ssh (Some (c_port c)) (cfg_ident c) (cfg_oopts c d) [dest c]).
Proof.
  destruct flags_distinct as (F1 & F2 & F3 & F4 & F5 & F6 & F7 & F8 & F9).
  unfold ssh_argv, cfg_oopts, cfg_pass, cfg_ident. destruct (c_auth c) as [|k|pw].
  - cbn [app parse_cmd]. rewrite F6, F8.
    rewrite parse_o. rewrite parse_hk, parse_mux.
    change ([s_p; c_port c] ++ oflat (c_opts c) ++ [dest c]) with (s_p :: c_port c :: (oflat (c_opts c) ++ [dest c])).
    rewrite parse_port by exact F1. rewrite parse_oflat, parse_last.
    unfold add_o, add_os; simpl. rewrite <- !app_assoc. reflexivity.
  - cbn [app parse_cmd]. rewrite F6, F8.
    rewrite parse_o. rewrite parse_ident by exact F4. rewrite parse_hk, parse_mux.
    change ([s_p; c_port c] ++ oflat (c_opts c) ++ [dest c]) with (s_p :: c_port c :: (oflat (c_opts c) ++ [dest c])).
    rewrite parse_port by exact F1. rewrite parse_oflat, parse_last.
    unfold add_o, add_os; simpl. rewrite <- !app_assoc. reflexivity.
  - cbn [app parse_cmd]. rewrite !str_eqb_refl. rewrite F8.
    rewrite parse_hk, parse_mux.
    change ([s_p; c_port c] ++ oflat (c_opts c) ++ [dest c]) with (s_p :: c_port c :: (oflat (c_opts c) ++ [dest c])).
    rewrite parse_port by exact F1. rewrite parse_oflat, parse_last.
    unfold add_o, add_os; simpl. rewrite <- !app_assoc. reflexivity.
Qed.

(* ------------------------------------------------------------------ scp *)
Definition not_flag (x : list N) : Prop :=
  str_eqb x s_o = false /\ str_eqb x s_P = false /\ str_eqb x s_i = false.

Lemma parse_two pf a b p : str_eqb a s_o = false -> str_eqb a pf = false -> str_eqb a s_i = false ->
  parse_args pf [a; b] p = mkPar (q_pass p) (q_prog p) (q_port p) (q_ident p) (q_oopts p) [a; b].
Proof. intros H1 H2 H3. cbn [parse_args]. rewrite H1, H2, H3. reflexivity. Qed.

Definition scp_oopts (c : scfg) (d : list N) : list (list N) :=
  (if c_ign c then [s_hk] else []) ++ c_opts c
  ++ (if c_mux c then [s_cm; s_cp; s_cpath ++ d ++ s_pc] else [])
  ++ (match c_auth c with APass _ => [] | _ => [s_batch] end).

Theorem scp_params c d to_remote l r :
  not_flag l -> not_flag (dest c ++ COLON :: r) ->
  parse_cmd (scp_argv c d to_remote l r) =
  Some (mkPar (cfg_pass c) s_scp (Some (c_port c)) (cfg_ident c) (scp_oopts c d)
              (if to_remote then [l; dest c ++ COLON :: r] else [dest c ++ COLON :: r; l])).
Proof.
  intros (L1 & L2 & L3) (R1 & R2 & R3).
  destruct flags_distinct as (F1 & F2 & F3 & F4 & F5 & F6 & F7 & F8 & F9).
  assert (Hops : forall p, parse_args s_P (if to_remote then [l; dest c ++ COLON :: r] else [dest c ++ COLON :: r; l]) p =
                 mkPar (q_pass p) (q_prog p) (q_port p) (q_ident p) (q_oopts p)
                       (if to_remote then [l; dest c ++ COLON :: r] else [dest c ++ COLON :: r; l])).
  { intros p. destruct to_remote; apply parse_two; assumption. }
  unfold scp_argv, scp_oopts, cfg_pass, cfg_ident. destruct (c_auth c) as [|k|pw].
  - cbn [app parse_cmd]. rewrite F7, F9.
    change ([s_P; c_port c] ++ hk_part c ++ oflat (c_opts c) ++ mux_part c d)
      with (s_P :: c_port c :: (hk_part c ++ oflat (c_opts c) ++ mux_part c d)).
    rewrite <- !app_assoc. cbn [app].
    rewrite parse_port by exact F2. rewrite parse_hk, parse_oflat, parse_mux.
    match goal with |- context [s_o :: s_batch :: ?x] => rewrite (parse_o s_P s_batch x) end.
    rewrite Hops. unfold add_o, add_os; simpl. rewrite <- !app_assoc. reflexivity.
  - cbn [app parse_cmd]. rewrite F7, F9.
    rewrite <- !app_assoc. cbn [app].
    rewrite parse_port by exact F2. rewrite parse_hk, parse_oflat, parse_mux.
    match goal with |- context [s_o :: s_batch :: ?x] => rewrite (parse_o s_P s_batch x) end.
    match goal with |- context [s_i :: k :: ?x] => rewrite (parse_ident s_P k x) by exact F5 end.
    rewrite Hops. unfold add_o, add_os; simpl. rewrite <- !app_assoc. reflexivity.
  - cbn [app parse_cmd]. rewrite !str_eqb_refl. rewrite ?F9.
    rewrite <- !app_assoc. cbn [app].
    rewrite parse_port by exact F2. rewrite parse_hk, parse_oflat, parse_mux.
    rewrite Hops. unfold add_o, add_os; simpl. rewrite <- !app_assoc, ?app_nil_r. reflexivity.
Qed.

(* the -o options of scp are those of ssh in another order *)
Lemma scp_oopts_perm c d : Permutation (scp_oopts c d) (cfg_oopts c d).
Proof.
  unfold scp_oopts, cfg_oopts.
  set (A := match c_auth c with APass _ => [] | _ => [s_batch] end).
  set (H := if c_ign c then [s_hk] else []).
  set (M := if c_mux c then [s_cm; s_cp; s_cpath ++ d ++ s_pc] else []).
  set (O := c_opts c).
  (* H ++ O ++ M ++ A  ~  A ++ H ++ M ++ O *)
  transitivity (A ++ H ++ O ++ M).
  - rewrite (app_assoc H O (M ++ A)), (app_assoc (H ++ O) M A).
    rewrite (app_assoc H O M). apply Permutation_app_comm.
  - apply Permutation_app_head. apply Permutation_app_head. apply Permutation_app_comm.
Qed.

(* ssh and scp carry the same connection parameters *)
Theorem ssh_scp_same_parameters c d to_remote l r ps pc :
  not_flag l -> not_flag (dest c ++ COLON :: r) ->
  parse_cmd (ssh_argv c d) = Some ps -> parse_cmd (scp_argv c d to_remote l r) = Some pc ->
  q_pass ps = q_pass pc /\ q_port ps = q_port pc /\ q_ident ps = q_ident pc /\
  Permutation (q_oopts pc) (q_oopts ps) /\
  q_pos ps = [dest c] /\
  q_pos pc = (if to_remote then [l; dest c ++ COLON :: r] else [dest c ++ COLON :: r; l]).
Proof.
  intros Hl Hr Hs Hc. rewrite ssh_params in Hs. rewrite (scp_params c d to_remote l r Hl Hr) in Hc.
  injection Hs as <-. injection Hc as <-. simpl. repeat split; auto. apply scp_oopts_perm.
Qed.

(* each parameter is there exactly when configured *)
Theorem options_only_when_configured c d :
  (In s_hk (cfg_oopts c d) <-> (c_ign c = true \/ In s_hk (c_opts c) \/ (c_mux c = true /\ s_hk = s_cpath ++ d ++ s_pc))) /\
  (In s_batch (cfg_oopts c d) <-> ((forall pw, c_auth c <> APass pw) \/ In s_batch (c_opts c) \/
                                   (c_mux c = true /\ s_batch = s_cpath ++ d ++ s_pc))) /\
  (forall o, In o (c_opts c) -> In o (cfg_oopts c d)).
Proof.
  assert (D : str_eqb s_hk s_batch = false /\ str_eqb s_hk s_cm = false /\ str_eqb s_hk s_cp = false /\
              str_eqb s_batch s_cm = false /\ str_eqb s_batch s_cp = false) by (vm_compute; auto).
  destruct D as (D1 & D2 & D3 & D4 & D5).
  assert (NE : forall a b, str_eqb a b = false -> a <> b).
  { intros a b H E. subst. rewrite str_eqb_refl in H. discriminate. }
  unfold cfg_oopts. split; [|split].
  - rewrite !in_app_iff. split.
    + intros [H|[H|[H|H]]].
      * destruct (c_auth c); simpl in H; try tauto; destruct H as [H|[]]; exfalso; symmetry in H; revert H; apply NE; exact D1.
      * destruct (c_ign c); [auto | contradiction].
      * destruct (c_mux c); [|contradiction]. simpl in H. destruct H as [H|[H|[H|[]]]].
        -- exfalso. symmetry in H. revert H. apply NE; exact D2.
        -- exfalso. symmetry in H. revert H. apply NE; exact D3.
        -- right. right. auto.
      * auto.
    + intros [H|[H|[H1 H2]]].
      * rewrite H. right. left. left. reflexivity.
      * right. right. right. exact H.
      * rewrite H1. right. right. left. simpl. right. right. left. symmetry. exact H2.
  - rewrite !in_app_iff. split.
    + intros [H|[H|[H|H]]].
      * left. intros pw E. rewrite E in H. contradiction.
      * destruct (c_ign c); [|contradiction]. destruct H as [H|[]]. exfalso. revert H. apply NE; exact D1.
      * destruct (c_mux c); [|contradiction]. simpl in H. destruct H as [H|[H|[H|[]]]].
        -- exfalso. symmetry in H. revert H. apply NE; exact D4.
        -- exfalso. symmetry in H. revert H. apply NE; exact D5.
        -- right. right. auto.
      * auto.
    + intros [H|[H|[H1 H2]]].
      * left. destruct (c_auth c) as [| |pw]; simpl; auto. exfalso. apply (H pw). reflexivity.
      * right. right. right. exact H.
      * rewrite H1. right. right. left. simpl. right. right. left. symmetry. exact H2.
  - intros o H. rewrite !in_app_iff. auto.
Qed.

(* ------------------------------------------------------------------ copy(): whose parameters *)
Theorem copy_uses_the_remote_machines_parameters d h1 h2 p1 p2 lh argv :
  copy_model d h1 h2 p1 p2 = CScp lh argv ->
  (is_remote h2 = true /\ lh = m_id h1 /\ argv = scp_argv (m_cfg h2) d true p1 p2) \/
  (is_remote h1 = true /\ lh = m_id h2 /\ argv = scp_argv (m_cfg h1) d false p2 p1).
Proof.
  unfold copy_model, is_remote.
  destruct (Nat.eqb (m_cls h1) (m_cls h2)); [discriminate|].
  destruct (m_kind h1) eqn:K1, (m_kind h2) eqn:K2; simpl;
    repeat match goal with |- context [if ?b then _ else _] => destruct b end;
    intros H; try discriminate; injection H as <- <-; auto.
Qed.

(* the same transfer: source and target operands and the direction are the caller's *)
Theorem copy_same_host_is_cp d h1 h2 p1 p2 :
  m_cls h1 = m_cls h2 -> copy_model d h1 h2 p1 p2 = CCp (m_id h1).
Proof. intros H. unfold copy_model. rewrite H, Nat.eqb_refl. reflexivity. Qed.

(* unsupported pairings raise *)
Theorem copy_unsupported_raises d h1 h2 p1 p2 :
  m_cls h1 <> m_cls h2 ->
  m_kind h1 <> KLocal -> m_kind h2 <> KLocal ->
  ~ (m_kind h1 = KSsh /\ m_jump h1 = m_id h2) -> ~ (m_kind h2 = KSsh /\ m_jump h2 = m_id h1) ->
  copy_model d h1 h2 p1 p2 = CNotImplemented.
Proof.
  intros Hc H1 H2 J1 J2. unfold copy_model. apply Nat.eqb_neq in Hc. rewrite Hc.
  destruct (m_kind h1) eqn:K1; try congruence; destruct (m_kind h2) eqn:K2; try congruence; simpl;
    repeat match goal with
           | |- context [Nat.eqb ?a ?b] => destruct (Nat.eqb a b) eqn:?; simpl
           end; try reflexivity;
    exfalso;
    repeat match goal with H : Nat.eqb _ _ = true |- _ => apply Nat.eqb_eq in H end;
    try (apply J1; split; [reflexivity | assumption]); try (apply J2; split; [reflexivity | assumption]).
Qed.

Example ssh_example :
  parse_cmd (ssh_argv (mkCfg [50; 50]%N [117]%N [104]%N true [[88; 61; 121]%N] (AKey [47; 107]%N) false) []) =
  Some (mkPar None s_ssh (Some [50; 50]%N) (Some [47; 107]%N) [s_batch; s_hk; [88; 61; 121]%N] [[117; 64; 104]%N]).
Proof. vm_compute. reflexivity. Qed.
