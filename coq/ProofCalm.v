(* ProofCalm.v -- reading while death strings are registered that do NOT occur in what is received (in the histories
   since their registration extended by the stream to come): nothing is raised, every result is the one obtained
   without death strings, and the invariant is kept.  Generalises ProofAlien.v (where non-occurrence was guaranteed by
   a character the stream does not use) and carries ProofSession's exchange lemma to a channel on which run() has
   registered the shell prompt. *)
From TV Require Import Base BaseLemmas Utf8 Regex Channel ChannelLemmas ProofC02 ProofC03 ProofC05 Hush Session ProofSession ProofAlien.

(* identity, string and exception of every registered death string: reading only moves the ring buffers *)
Definition dmeta (e : dentry) : nat * sstr * Z := (d_id e, d_str e, d_exc e).
Definition same_deaths (c c' : chan) : Prop := map dmeta (deaths c') = map dmeta (deaths c).

Lemma same_deaths_refl c : same_deaths c c. Proof. reflexivity. Qed.
Lemma same_deaths_trans a b c : same_deaths a b -> same_deaths b c -> same_deaths a c.
Proof. unfold same_deaths. congruence. Qed.

Lemma check_entries_dmeta chunk : forall ds r ds', check_entries chunk ds = (r, ds') -> map dmeta ds' = map dmeta ds.
Proof.
  induction ds as [|e ds IH]; intros r ds' H; cbn [check_entries] in H.
  - injection H as <- <-. reflexivity.
  - destruct (ds_hit _ _).
    + injection H as <- <-. reflexivity.
    + destruct (check_entries chunk ds) as [r0 ds0] eqn:E. injection H as <- <-. cbn. rewrite (IH _ _ eq_refl). reflexivity.
Qed.

Lemma check_chunks_dmeta : forall cs ds r ds', check_chunks cs ds = (r, ds') -> map dmeta ds' = map dmeta ds.
Proof.
  induction cs as [|ch cs IH]; intros ds r ds' H; cbn [check_chunks] in H.
  - injection H as <- <-. reflexivity.
  - destruct (check_entries ch ds) as [[h|] ds1] eqn:E; pose proof (check_entries_dmeta _ _ _ _ E) as A.
    + injection H as <- <-. exact A.
    + rewrite (IH _ _ _ H). exact A.
Qed.

Lemma check_dmeta incoming c r c' : check incoming c = (r, c') -> same_deaths c c'.
Proof.
  unfold check, same_deaths. destruct (deaths c) as [|e ds] eqn:Ed; [intros [= <- <-]; rewrite Ed; reflexivity|].
  destruct (check_chunks _ _) as [r0 ds'] eqn:E. intros [= <- <-]. cbn [deaths with_deaths].
  exact (check_chunks_dmeta _ _ _ _ E).
Qed.

Lemma iter_step_dmeta start tmo n c r c' : iter_step start tmo n c = (r, c') -> same_deaths c c'.
Proof.
  unfold iter_step, same_deaths. destruct (match _ with Some r0 => (r0 <=? 0)%Z | None => false end); [intros [= <- <-]; reflexivity|].
  destruct (io_read _ _ _) as [res io']. destruct res as [new| |]; try (intros [= <- <-]; reflexivity).
  destruct (write_stream_frame new (with_io c io')) as (_ & _ & W3 & _).
  destruct (check new (write_stream new (with_io c io'))) as [[[e mt]|] c2] eqn:Ec; pose proof (check_dmeta _ _ _ _ Ec) as A;
    intros [= <- <-]; unfold same_deaths in A; rewrite A, W3; reflexivity.
Qed.

(* no registered literal occurs in any history extended by F, the part of the stream to come that will be read *)
Definition nocc (c : chan) (hs : list (list N)) (F : list N) : Prop :=
  wfc c /\ dinv (deaths c) hs /\ (exists rest, cpend c = F ++ rest) /\
  forall e h l, In e (deaths c) -> In h hs -> d_str e = SLit l -> contains l (h ++ F) = false.

Lemma contains_prefix_false l a b : contains l (a ++ b) = false -> contains l a = false.
Proof.
  intros H. destruct (contains l a) eqn:E; [|reflexivity]. apply contains_spec in E as (x & y & ->).
  assert (contains l ((x ++ l ++ y) ++ b) = true) by (apply contains_spec; exists x, (y ++ b); rewrite <- !app_assoc; reflexivity).
  congruence.
Qed.

Lemma in_map_str c c' e' :
  map d_str (deaths c') = map d_str (deaths c) -> In e' (deaths c') -> exists e, In e (deaths c) /\ d_str e = d_str e'.
Proof.
  intros M Hin. apply (in_map d_str) in Hin. rewrite M in Hin. apply in_map_iff in Hin. destruct Hin as (e & E & Hin). eauto.
Qed.

(* a smaller horizon *)
Lemma nocc_shrink c hs F1 F2 : nocc c hs (F1 ++ F2) -> nocc c hs F1.
Proof.
  intros (A & B & (rest & C) & D). split; [exact A|]. split; [exact B|]. split; [exists (F2 ++ rest); rewrite C, app_assoc; reflexivity|].
  intros e h l He Hh Hl. specialize (D e h l He Hh Hl). rewrite app_assoc in D. exact (contains_prefix_false _ _ _ D).
Qed.

(* one iteration without a timeout, data pending, the piece read lies within the horizon: data, and the invariant moves on *)
Lemma iter_step_nocc start n c hs F :
  0 < n -> nocc c hs F -> pend (io c) <> [] -> (n <= length F \/ F = cpend c) ->
  exists new c' F', iter_step start None n c = (SData new, c') /\
    new <> [] /\ length new <= n /\ cpend c = new ++ cpend c' /\ same_cfg c c' /\
    tot (pend (io c')) < tot (pend (io c)) /\ F = new ++ F' /\ (F = cpend c -> F' = cpend c') /\
    nocc c' (map (fun h => h ++ new) hs) F' /\ same_deaths c c'.
Proof.
  intros Hn (Hw & Hd & (rest & HF) & Hno) Hne Hor.
  destruct (iter_step start None n c) as [r c'] eqn:E.
  destruct (iter_step_spec _ _ _ _ _ _ E Hn Hw) as (Hcfg & Hw' & _ & Hr).
  pose proof (iter_step_strs _ _ _ _ _ _ E) as M.
  destruct r as [new| | |exc mt].
  - destruct Hr as (N1 & N2 & N3 & N4).
    assert (HF' : exists F', F = new ++ F' /\ cpend c' = F' ++ rest /\ (F = cpend c -> F' = cpend c')).
    { destruct Hor as [Hle | ->].
      - rewrite HF in N3. destruct (app_split_len new (cpend c') F rest (eq_sym N3) ltac:(lia)) as (F' & E1 & E2).
        exists F'. split; [exact E1|]. split; [exact E2|]. intros EF.
        assert (rest = []).
        { pose proof (f_equal (@length N) EF) as L1. pose proof (f_equal (@length N) HF) as L2. rewrite app_length in L2.
          destruct rest; [reflexivity | cbn in L2; lia]. }
        subst rest. rewrite app_nil_r in E2. congruence.
      - exists (cpend c'). split; [exact N3|]. split; [|reflexivity].
        assert (rest = []).
        { apply (f_equal (@length N)) in HF. rewrite app_length in HF. destruct rest; [reflexivity | cbn in HF; lia]. }
        subst rest. rewrite app_nil_r. reflexivity. }
    destruct HF' as (F' & E1 & E2 & E3).
    exists new, c', F'. split; [reflexivity|].
    split; [exact N1|]. split; [exact N2|]. split; [exact N3|]. split; [exact Hcfg|]. split; [exact N4|].
    split; [exact E1|]. split; [exact E3|].
    split; [|exact (iter_step_dmeta _ _ _ _ _ _ E)].
    split; [exact Hw'|]. split; [exact (iter_step_deaths _ _ _ _ _ _ hs Hd E)|]. split; [exists rest; exact E2|].
    intros e' h' l He' Hh' Hl. apply in_map_iff in Hh'. destruct Hh' as (h & <- & Hh).
    destruct (in_map_str c c' e' M He') as (e & He & Es). rewrite <- app_assoc, <- E1.
    apply (Hno e h l He Hh). congruence.
  - destruct Hr as [_ X]. congruence.
  - destruct Hr as (_ & X & _). congruence.
  - exfalso. destruct (iter_step_death_occ _ _ _ _ _ _ _ hs Hw Hn Hd E) as (new & e & h & C & I1 & I2 & I3 & I5).
    specialize (Hno e h mt I1 I2 I3).
    destruct (iter_step_spec _ _ _ _ _ _ E Hn Hw) as (_ & _ & _ & (new' & _ & C' & _)).
    (* the piece read is a prefix of the horizon *)
    assert (Hpre : exists F', F = new ++ F').
    { destruct Hor as [Hle | ->]; [|eauto].
      assert (Hl : length new <= n).
      { unfold iter_step in E. destruct (io_read n None (io c)) as [res io'] eqn:Eio. destruct res as [d| |]; try discriminate.
        destruct (io_read_data _ _ _ _ _ Eio Hn Hw) as (_ & L & Hcat & _).
        destruct (write_stream_frame d (with_io c io')) as (W1 & _).
        destruct (check d (write_stream d (with_io c io'))) as [[[e0 mt0]|] c2] eqn:Ec; [|discriminate].
        destruct (check_frame _ _ _ _ Ec) as (C1 & _). injection E as _ _ <-.
        assert (cpend c = d ++ cpend c2) by (unfold cpend; rewrite C1, W1; exact Hcat).
        rewrite H in C. apply (f_equal (@length N)) in C. rewrite !app_length in C.
        assert (cpend c2 = cpend c2) by reflexivity. 
        (* new and d are both the consumed prefix *)
        destruct (Nat.le_gt_cases (length new) (length d)); lia. }
      rewrite HF in C. destruct (app_split_len new (cpend c') F rest (eq_sym C) ltac:(lia)) as (F' & E1 & _). eauto. }
    destruct Hpre as (F' & ->). rewrite app_assoc in Hno. apply contains_prefix_false in Hno. congruence.
Qed.

(* read(n): exactly the next n bytes; the horizon covers them *)
Lemma read_iter_nocc fuel : forall start mx got acc c hs F,
  nocc c hs F -> got < mx -> mx - got <= length F -> tot (pend (io c)) < fuel ->
  exists chs c' d F', read_iter_loop fuel start None (Some mx) got acc c = (rev acc ++ chs, Ret tt, c') /\
    d = concat chs /\ length d = mx - got /\ cpend c = d ++ cpend c' /\ F = d ++ F' /\ same_cfg c c' /\
    nocc c' (map (fun h => h ++ d) hs) F' /\ same_deaths c c'.
Proof.
  induction fuel as [|f IH]; intros start mx got acc c hs F Hc Hg Hl Hf; [lia|].
  rewrite read_iter_loop_step.
  assert (Hp : pend (io c) <> []).
  { destruct Hc as (_ & _ & (rest & HF) & _). intros E. unfold cpend in HF. rewrite E in HF. unfold cat in HF. simpl in HF.
    destruct F; [cbn in Hl; lia | discriminate]. }
  pose proof (maxread_pos mx got Hg) as Hn. pose proof (maxread_le mx got) as Hm.
  destruct (iter_step_nocc start (maxread_of (Some mx) got) c hs F Hn Hc Hp ltac:(left; lia))
    as (new & c1 & F1 & Es & N1 & N2 & N3 & Scfg & Htot & EF & _ & Hc1 & Sd1).
  rewrite Es.
  destruct (Nat.eqb (got + length new) mx) eqn:Eq.
  - apply Nat.eqb_eq in Eq. exists [new], c1, new, F1. cbn [rev concat]. rewrite app_nil_r.
    split; [reflexivity|]. split; [reflexivity|]. split; [lia|]. auto 10.
  - apply Nat.eqb_neq in Eq.
    assert (Hl1 : mx - (got + length new) <= length F1) by (rewrite EF, app_length in Hl; lia).
    destruct (IH start mx (got + length new) (new :: acc) c1 _ F1 Hc1 ltac:(lia) Hl1 ltac:(lia))
      as (chs & c' & d & F' & R & Ed & Ld & Cd & EF' & Sc & Cc & Sd2).
    exists (new :: chs), c', (new ++ d), F'. cbn [rev] in R. rewrite <- app_assoc in R. cbn [app] in R.
    split; [exact R|]. split; [cbn [concat]; rewrite Ed; reflexivity|]. split; [rewrite app_length; lia|].
    split; [rewrite N3, Cd, app_assoc; reflexivity|]. split; [rewrite EF, EF', app_assoc; reflexivity|].
    split; [eapply same_cfg_trans; eauto|]. split; [|eapply same_deaths_trans; eauto].
    rewrite map_map in Cc. erewrite map_ext; [exact Cc|]. intros h. cbn. rewrite app_assoc. reflexivity.
Qed.

Lemma read_n_nocc n c hs F :
  nocc c hs F -> 0 < n -> n <= length F ->
  exists d c' F', read (Z.of_nat n) None c = (Ret d, c') /\ length d = n /\ cpend c = d ++ cpend c' /\ F = d ++ F' /\
               same_cfg c c' /\ nocc c' (map (fun h => h ++ d) hs) F' /\ same_deaths c c'.
Proof.
  intros Hc Hn Hl. unfold read.
  destruct (Z.of_nat n <? 0)%Z eqn:E; [apply Z.ltb_lt in E; lia|].
  rewrite Nat2Z.id. unfold read_iter.
  assert (Hl0 : n - 0 <= length F) by lia.
  destruct (read_iter_nocc (fuel_of c) (now (io c)) n 0 [] c hs F Hc Hn Hl0 (fuel_of_enough c))
    as (chs & c' & d & F' & R & Ed & Ld & Cd & EF & Sc & Cc & Sd).
  cbn [rev app] in R. rewrite R. exists d, c', F'. rewrite Ed. split; [reflexivity|]. split; [rewrite <- Ed; lia|]. rewrite <- Ed. auto 10.
Qed.

(* read_until_prompt: the whole pending stream (= the horizon), whose only occurrence of the prompt test is its end *)
Lemma rup_loop_nocc fuel : forall start buf c hs S k,
  nocc c hs (cpend c) -> pend (io c) <> [] -> buf ++ cpend c = S ->
  only_tail (prompt_split (prompt c)) S k ->
  tot (pend (io c)) < fuel ->
  exists c', rup_loop fuel start None buf c = (Ret (text (firstn k S)), c') /\
             pend (io c') = [] /\ same_cfg c c' /\ nocc c' (map (fun h => h ++ cpend c) hs) [] /\ same_deaths c c'.
Proof.
  induction fuel as [|f IH]; intros start buf c hs S k Hc Hp HS [Hk Hpre] Hfuel; [lia|].
  rewrite rup_loop_step.
  destruct (iter_step_nocc start READ_CHUNK_SIZE c hs (cpend c) chunk_pos Hc Hp ltac:(right; reflexivity))
    as (new & c1 & F1 & Es & N1 & N2 & N3 & Hcfg & Htot & EF & EF1 & Hc1 & Sd1).
  specialize (EF1 eq_refl). subst F1.
  rewrite Es.
  assert (Hpr : prompt c1 = prompt c) by (destruct Hcfg; assumption).
  rewrite Hpr.
  destruct (pend (io c1)) as [|e rest] eqn:Ep1.
  - assert (E0 : cpend c1 = []) by (unfold cpend; rewrite Ep1; reflexivity).
    assert (E : buf ++ new = S) by (rewrite <- HS, N3, E0, app_nil_r; reflexivity).
    rewrite E, Hk. exists c1. split; [reflexivity|]. split; [exact Ep1|]. split; [exact Hcfg|].
    split; [|exact Sd1]. rewrite N3, E0, app_nil_r. rewrite E0 in Hc1. exact Hc1.
  - assert (Hp1 : pend (io c1) <> []) by (rewrite Ep1; congruence).
    assert (Hrest : cpend c1 <> []).
    { destruct Hc1 as (Hw1 & _). unfold cpend, wfc, wf_pend in *. rewrite Ep1 in *. inversion Hw1 as [|? ? Hx _]; subst.
      unfold cat; simpl. destruct (snd e); [congruence | simpl; congruence]. }
    assert (E : S = (buf ++ new) ++ cpend c1) by (rewrite <- HS, N3, app_assoc; reflexivity).
    rewrite (Hpre _ _ E Hrest).
    destruct (IH start (buf ++ new) c1 _ S k Hc1) as (c' & R1 & R2 & R3 & R4 & R5).
    + exact Hp1.
    + rewrite <- app_assoc, <- N3. exact HS.
    + rewrite Hpr. split; assumption.
    + rewrite Ep1. lia.
    + exists c'. split; [exact R1|]. split; [exact R2|]. split; [eapply same_cfg_trans; eauto|].
      split; [|eapply same_deaths_trans; eauto].
      rewrite map_map in R4. erewrite map_ext; [exact R4|]. intros h. cbn. rewrite N3, app_assoc. reflexivity.
Qed.

(* ------------------------------------------------------------------ send with read-back under silent death strings *)
Lemma nocc_frame c c' hs F :
  pend (io c') = pend (io c) -> deaths c' = deaths c -> nocc c hs F -> nocc c' hs F.
Proof.
  intros Hp Hd (A & B & C & D). unfold nocc, wfc, cpend in *. rewrite Hp, Hd. auto.
Qed.

Lemma map_app_hist (hs : list (list N)) a b :
  map (fun h => h ++ b) (map (fun h => h ++ a) hs) = map (fun h => h ++ a ++ b) hs.
Proof. rewrite map_map. apply map_ext. intros h. rewrite app_assoc. reflexivity. Qed.

(* the horizon is the echo E: nothing beyond it is looked at *)
Lemma send_rb_nocc fuel : forall start s c hs E R,
  nocc c hs E -> slow_ok c -> any_in (blacklist c) s = false ->
  cpend c = E ++ R -> length E = readback_len s -> length s < fuel ->
  exists c', send_loop fuel start s true None c = (Ret tt, c') /\
    wr (io c') = wr (io c) ++ s /\ cpend c' = R /\ nocc c' (map (fun h => h ++ E) hs) [] /\ slow_ok c' /\
    prompt c' = prompt c /\ blacklist c' = blacklist c /\ ctx c' = ctx c /\ same_deaths c c'.
Proof.
  induction fuel as [|f IH]; intros start s c hs E R Hno Hs Hbl Hc HE Hf; [lia|].
  destruct s as [|x s0].
  { exists c. cbn [send_loop]. unfold readback_len in HE. simpl in HE. destruct E; [|discriminate].
    simpl in Hc. rewrite app_nil_r. split; [reflexivity|]. split; [reflexivity|]. split; [exact Hc|].
    split; [|auto using same_deaths_refl].
    erewrite map_ext; [rewrite map_id; exact Hno|]. intros h. apply app_nil_r. }
  rewrite send_loop_cons_rb.
  remember (x :: s0) as s eqn:Es.
  assert (Hls : length s = S (length s0)) by (subst s; reflexivity).
  pose proof slice_pos as Hsl.
  remember (firstn SEND_SLICE s) as chunk eqn:Echunk.
  assert (Hsplit : s = chunk ++ skipn SEND_SLICE s) by (subst chunk; symmetry; apply firstn_skipn).
  assert (Hchunk_ne : 0 < length chunk) by (subst chunk; rewrite firstn_length; lia).
  assert (Hbl2 : any_in (blacklist c) chunk = false /\ any_in (blacklist c) (skipn SEND_SLICE s) = false).
  { rewrite Hsplit, any_in_app in Hbl. apply orb_false_iff in Hbl. exact Hbl. }
  destruct Hbl2 as [Hb1 Hb2].
  destruct (write chunk false c) as [r1 c1] eqn:Ew.
  destruct (write_complete _ _ _ _ _ Hs Ew) as [(-> & W2 & W3 & _) | (_ & _ & _ & W4)]; [|congruence].
  destruct W3 as (P1 & P2 & P3 & P4 & P5 & P6 & P7).
  assert (Hno1 : nocc c1 hs E) by (apply (nocc_frame c c1 hs E P1 P3 Hno)).
  assert (Hc1 : cpend c1 = E ++ R) by (unfold cpend; rewrite P1; exact Hc).
  assert (Hrl : readback_len s = readback_len chunk + readback_len (skipn SEND_SLICE s)).
  { rewrite Hsplit at 1. apply readback_len_app. }
  pose proof (readback_len_ge chunk) as Hge.
  assert (Hpos : 0 < readback_len chunk) by lia.
  destruct (read_n_nocc (readback_len chunk) c1 hs E Hno1 Hpos ltac:(lia)) as (d & c2 & E' & Er & Ld & Cd & EE & Scfg & Hno2 & Sd2).
  rewrite Er.
  assert (Ec2 : cpend c2 = E' ++ R).
  { rewrite Hc1, EE, <- app_assoc in Cd. apply app_inv_head in Cd. symmetry. exact Cd. }
  assert (Hs2 : slow_ok c2).
  { apply (same_cfg_slow c1 c2 Scfg). unfold slow_ok. rewrite P6. exact Hs. }
  destruct Scfg as (S1 & S2 & S3 & S4 & S5 & S6).
  destruct (IH start (skipn SEND_SLICE s) c2 _ E' R Hno2 Hs2) as (c' & R1 & R2 & R3 & R4 & R5 & R6 & R7 & R8 & R9).
  - rewrite S2, P5. exact Hb2.
  - exact Ec2.
  - rewrite EE, app_length in HE. lia.
  - rewrite skipn_length. lia.
  - exists c'. split; [exact R1|]. split; [rewrite R2, S6, W2, <- app_assoc, <- Hsplit; reflexivity|].
    split; [exact R3|]. split; [rewrite map_app_hist, <- EE in R4; exact R4|]. split; [exact R5|].
    split; [congruence|]. split; [congruence|]. split; [congruence|].
    eapply same_deaths_trans; [|exact R9]. eapply same_deaths_trans; [|exact Sd2]. unfold same_deaths. rewrite P3. reflexivity.
Qed.

(* a line with read-back on a channel in sync: the stage is loaded, the line written, exactly its echo consumed -- as
   long as no registered string occurs in (history ++ echo); what follows the echo is not looked at *)
Lemma sendline_rb_nocc line c hs (st : stage) echo rest :
  wfc c -> dinv (deaths c) hs -> slow_ok c -> pend (io c) = [] -> wf_pend st ->
  any_in (blacklist c) (line ++ [CR]) = false ->
  cat st = echo ++ rest -> length echo = readback_len (line ++ [CR]) ->
  (forall e h l, In e (deaths c) -> In h hs -> d_str e = SLit l -> contains l (h ++ echo) = false) ->
  exists c2,
    sendline line true None (load st c) = (Ret tt, c2) /\
    cpend c2 = rest /\ nocc c2 (map (fun h => h ++ echo) hs) [] /\ slow_ok c2 /\
    wr (io c2) = wr (io c) ++ line ++ [CR] /\ prompt c2 = prompt c /\ blacklist c2 = blacklist c /\ ctx c2 = ctx c /\
    same_deaths c c2.
Proof.
  intros Hw Hd Hs Hp Hst Hbl Hcat Hecho Hfree.
  set (c0 := load st c).
  assert (M : map snd (map (fun e : Z * list N => ((now (io c) + fst e)%Z, snd e)) st) = map snd st) by (rewrite map_map; reflexivity).
  assert (Lc : cpend c0 = cat st).
  { unfold c0, load, cpend. cbn. rewrite Hp. cbn [app]. unfold cat. rewrite M. reflexivity. }
  assert (Lw : wfc c0).
  { unfold c0, load, wfc. cbn. rewrite Hp. cbn [app]. unfold wf_pend in *. rewrite Forall_map. eapply Forall_impl; [|exact Hst]. intros e He. exact He. }
  assert (L : nocc c0 hs echo /\ slow_ok c0 /\ wr (io c0) = wr (io c) /\ prompt c0 = prompt c /\
              blacklist c0 = blacklist c /\ ctx c0 = ctx c /\ deaths c0 = deaths c).
  { split; [|unfold c0, load, slow_ok in *; cbn; auto 10].
    split; [exact Lw|]. split; [exact Hd|]. split; [exists rest; rewrite Lc; exact Hcat|]. exact Hfree. }
  destruct L as (L2 & L3 & L4 & L5 & L6 & L7 & L8).
  unfold sendline, send. rewrite L6, Hbl.
  assert (A1 : any_in (blacklist c0) (line ++ [CR]) = false) by (rewrite L6; exact Hbl).
  destruct (send_rb_nocc (S (length (line ++ [CR]))) (now (io c0)) (line ++ [CR]) c0 hs echo rest
              L2 L3 A1 ltac:(rewrite Lc; exact Hcat) Hecho (Nat.lt_succ_diag_r _))
    as (c2 & E2 & W2 & C2 & N2 & S2 & P2 & B2 & X2 & D2).
  exists c2. split; [exact E2|]. split; [exact C2|]. split; [exact N2|]. split; [exact S2|].
  split; [rewrite W2, L4; reflexivity|]. split; [congruence|]. split; [congruence|]. split; [congruence|].
  unfold same_deaths in *. rewrite D2, L8. reflexivity.
Qed.

(* read_until_prompt(own) of the whole pending stream under silent death strings *)
Lemma rup_own_nocc own c hs answer :
  wfc c -> dinv (deaths c) hs -> slow_ok c -> cpend c = answer ++ own -> own <> [] -> prompt_only_at_end own answer ->
  (forall e h l, In e (deaths c) -> In h hs -> d_str e = SLit l -> contains l (h ++ answer ++ own) = false) ->
  exists c3,
    read_until_prompt (Some (SLit own)) None c = (Ret (text answer), c3) /\
    nocc c3 (map (fun h => h ++ answer ++ own) hs) [] /\ slow_ok c3 /\ pend (io c3) = [] /\
    wr (io c3) = wr (io c) /\ prompt c3 = prompt c /\ blacklist c3 = blacklist c /\ ctx c3 = ctx c /\ same_deaths c c3.
Proof.
  intros Hw Hd Hs Hc Hown Hpoe Hfree.
  unfold read_until_prompt.
  set (cp := with_prompt c (Some (SLit own))).
  assert (Np : nocc cp hs (cpend cp)).
  { change (cpend cp) with (cpend c). split; [exact Hw|]. split; [exact Hd|]. split; [exists []; rewrite app_nil_r; reflexivity|].
    rewrite Hc. exact Hfree. }
  assert (Hne : pend (io cp) <> []).
  { apply pend_of_cpend. change (cpend cp) with (cpend c). rewrite Hc. destruct answer; [exact Hown | discriminate]. }
  destruct (rup_loop_nocc (fuel_of c) (now (io c)) [] cp _ (answer ++ own) (length answer) Np Hne)
    as (c3 & R1 & R2 & R3 & R4 & R5).
  { change (cpend cp) with (cpend c). rewrite Hc. reflexivity. }
  { apply only_tail_literal; assumption. }
  { exact (fuel_of_enough c). }
  rewrite R1, firstn_app_exact.
  exists (with_prompt c3 (prompt c)). split; [reflexivity|].
  destruct R3 as (Q1 & Q2 & Q3 & Q4 & Q5 & Q6).
  unfold cp in Q1, Q2, Q3, Q4, Q5, Q6. cbn in Q1, Q2, Q3, Q4, Q5, Q6.
  change (cpend cp) with (cpend c) in R4. rewrite Hc in R4.
  split; [exact R4|]. split; [unfold slow_ok in *; cbn; rewrite Q3; exact Hs|]. split; [exact R2|].
  split; [cbn; exact Q6|]. split; [reflexivity|]. split; [cbn; exact Q2|]. split; [cbn; exact Q4|]. exact R5.
Qed.
