(* ProofEnvUtf8.v -- the environment round-trip theorems of C19 and C09 for arbitrary (non-ASCII) text. *)
From TV Require Import Base BaseLemmas Utf8 Utf8Lemmas Regex Channel ChannelLemmas ProofC02 ProofC03 Hush Session ProofSession ProofC19 Sh ProofC01 ProofC09.
From Coq Require Import ZifyBool ZifyN.

(* text without line terminators *)
Definition text_ok (s : list N) : Prop := Forall scalar s /\ Forall (fun x => x <> CR) s /\ Forall (fun x => x <> LF) s.

Lemma scalar_ascii c : (c < 128)%N -> scalar c.
Proof. intros H. unfold scalar. lia. Qed.

Lemma text_line_utf8 s : text_ok s -> text (utf8_enc s ++ [CR; LF]) = s ++ [LF].
Proof.
  intros (A & B & C). unfold text, norm. rewrite utf8_dec_enc_app by exact A. change (utf8_dec [CR; LF]) with [CR; LF].
  rewrite (replace2_app_no CR LF LF s [CR; LF] B). change (replace2 CR LF LF [CR; LF]) with [LF].
  rewrite (replace2_app_no LF CR LF s [LF] C). reflexivity.
Qed.

Lemma plain_no_eol s : plain s -> Forall (fun x => x <> CR) s /\ Forall (fun x => x <> LF) s.
Proof.
  unfold plain. induction s as [|x s IH]; intros H; [split; constructor|]. cbn [existsb] in H.
  apply orb_false_iff in H. destruct H as [Hx Hs]. destruct (IH Hs) as [A B].
  unfold line_special, mem_N in Hx. unfold CR, LF.
  split; constructor; auto; intros ->; cbn in Hx; discriminate.
Qed.

(* ---- C19: env set then get returns the value, for every text without line terminators / marker bytes ---- *)
Theorem ub_env_roundtrip_utf8 var v P c s1 s2 s3 s4 sts :
  insync c -> prompt c = Some (SLit P) -> P <> [] ->
  plain var -> plain v -> Forall scalar var -> Forall scalar v ->
  let setline := utf8_enc (ub_escape [SETENV; var; v]) in
  let getline := utf8_enc (ub_escape [PRINTENV; var]) in
  any_in (blacklist c) (setline ++ [CR]) = false -> any_in (blacklist c) (getline ++ [CR]) = false ->
  any_in (blacklist c) (ECHO_Q ++ [CR]) = false ->
  prompt_only_at_end P (ZERO ++ [CR; LF]) ->
  prompt_only_at_end P (utf8_enc (var ++ [61%N] ++ v) ++ [CR; LF]) ->
  wf_pend s1 -> cat s1 = (setline ++ [CR; LF]) ++ [] ++ P ->
  wf_pend s2 -> cat s2 = (ECHO_Q ++ [CR; LF]) ++ (ZERO ++ [CR; LF]) ++ P ->
  wf_pend s3 -> cat s3 = (getline ++ [CR; LF]) ++ (utf8_enc (var ++ [61%N] ++ v) ++ [CR; LF]) ++ P ->
  wf_pend s4 -> cat s4 = (ECHO_Q ++ [CR; LF]) ++ (ZERO ++ [CR; LF]) ++ P ->
  exists c', ub_env var (Some v) (s1 :: s2 :: s3 :: s4 :: sts) c = (X0Ok v, c', sts) /\ insync c'.
Proof.
  intros Hin Hpr HP Pvar Pv Svar Sv setline getline Hb1 Hb2 Hb3 Hz Hval W1 C1 W2 C2 W3 C3 W4 C4.
  assert (Pset : plain SETENV) by reflexivity. assert (Pget : plain PRINTENV) by reflexivity.
  assert (Dz : all_digits ZERO) by (repeat constructor).
  assert (Ov : forall rest, ub_override (SETENV :: rest) c = None).
  { intros rest. unfold ub_override. change (list_N_eqb SETENV CRC32) with false. reflexivity. }
  assert (Ov2 : forall rest c0, ub_override (PRINTENV :: rest) c0 = None).
  { intros rest c0. unfold ub_override. change (list_N_eqb PRINTENV CRC32) with false. reflexivity. }
  assert (F1 : Forall plain [SETENV; var; v]) by (repeat constructor; assumption).
  assert (F2 : Forall plain [PRINTENV; var]) by (repeat constructor; assumption).
  destruct (ub_exec_exact [SETENV; var; v] P c s1 s2 (s3 :: s4 :: sts) [] ZERO Hin Hpr HP
              F1 (Ov _) Hb1 Hb3 W1 C1 (prompt_only_at_end_nil P HP)
              W2 C2 Dz ltac:(discriminate) Hz) as (c1 & E1 & Hin1 & _ & _ & Pr1 & Bl1).
  unfold ub_env. rewrite (ub_exec0_iff _ _ _ _ _ _ _ E1). change (dec_val ZERO =? 0)%Z with true. cbv iota.
  assert (Hb2' : any_in (blacklist c1) (utf8_enc (ub_escape [PRINTENV; var]) ++ [CR]) = false) by (rewrite Bl1; exact Hb2).
  assert (Hb3' : any_in (blacklist c1) (ECHO_Q ++ [CR]) = false) by (rewrite Bl1; exact Hb3).
  assert (Pr1' : prompt c1 = Some (SLit P)) by congruence.
  destruct (ub_exec_exact [PRINTENV; var] P c1 s3 s4 sts (utf8_enc (var ++ [61%N] ++ v) ++ [CR; LF]) ZERO Hin1
              Pr1' HP F2 (Ov2 _ _) Hb2' Hb3' W3 C3 Hval W4 C4 Dz ltac:(discriminate) Hz)
    as (c2 & E2 & Hin2 & _).
  rewrite (ub_exec0_iff _ _ _ _ _ _ _ E2). change (dec_val ZERO =? 0)%Z with true. cbv iota.
  exists c2. split; [|exact Hin2]. f_equal. f_equal. f_equal.
  destruct (plain_no_eol var Pvar) as [Vc Vl]. destruct (plain_no_eol v Pv) as [Wc Wl].
  assert (A : text_ok (var ++ [61%N] ++ v)).
  { repeat split; repeat (apply Forall_app; split); auto; repeat constructor; try (apply scalar_ascii; lia); unfold CR, LF; discriminate. }
  rewrite text_line_utf8 by exact A. unfold env_slice.
  replace ((var ++ [61%N] ++ v) ++ [LF]) with ((var ++ [61%N]) ++ (v ++ [LF])) by (rewrite <- !app_assoc; reflexivity).
  replace (length var + 1) with (length (var ++ [61%N])) by (rewrite app_length; reflexivity).
  rewrite skipn_app_exact. apply drop_last_one.
Qed.

(* ---- C09: env(var) returns what the variable holds, for every text without CR ---- *)
Local Open Scope N_scope.

Lemma onlcr_app a b : onlcr (a ++ b) = onlcr a ++ onlcr b.
Proof. unfold onlcr. apply flat_map_app. Qed.

Lemma onlcr_high l : Forall (fun b => 128 <= b) l -> onlcr l = l.
Proof.
  induction 1 as [|b l Hb _ IH]; [reflexivity|]. unfold onlcr in *. cbn [flat_map]. rewrite IH.
  unfold LF. rewrite (eqb_false b 10) by lia. reflexivity.
Qed.

Lemma onlcr_enc v : onlcr (utf8_enc v) = utf8_enc (onlcr v).
Proof.
  induction v as [|c v IH]; [reflexivity|]. unfold utf8_enc in *. cbn [flat_map]. rewrite onlcr_app, IH.
  change (onlcr (c :: v)) with ((if (c =? LF) then [CR; LF] else [c]) ++ onlcr v). rewrite flat_map_app. f_equal.
  destruct (N.lt_ge_cases c 128) as [L|G].
  - rewrite enc1_ascii by exact L. unfold onlcr. cbn [flat_map]. rewrite app_nil_r.
    destruct (c =? LF); [reflexivity|]. cbn [flat_map]. rewrite enc1_ascii by exact L. reflexivity.
  - destruct (enc1_high c G) as [_ Hh]. rewrite (onlcr_high _ Hh). unfold LF. rewrite (eqb_false c 10) by lia.
    cbn [flat_map]. rewrite app_nil_r. reflexivity.
Qed.

Lemma crlf_onlcr_gen l : Forall (fun b => b <> CR) l -> replace2 CR LF LF (onlcr l) = l.
Proof.
  intros H. unfold onlcr. induction H as [|b l Hb _ IH]; [reflexivity|]. cbn [flat_map].
  destruct (N.eqb_spec b LF) as [->|NLF].
  - cbn [app]. change (replace2 CR LF LF (CR :: LF :: flat_map (fun c : N => if (c =? LF)%N then [CR; LF] else [c]) l))
      with (LF :: replace2 CR LF LF (flat_map (fun c : N => if (c =? LF)%N then [CR; LF] else [c]) l)).
    rewrite IH. reflexivity.
  - cbn [app]. rewrite replace2_cons_no by exact Hb. rewrite IH. reflexivity.
Qed.

Lemma scalar_onlcr l : Forall scalar l -> Forall scalar (onlcr l).
Proof.
  induction 1 as [|c l Hc _ IH]; [constructor|]. unfold onlcr in *. cbn [flat_map]. apply Forall_app. split; [|exact IH].
  destruct (c =? LF); [constructor; [apply scalar_ascii; unfold CR; lia | constructor; [apply scalar_ascii; unfold LF; lia | constructor]] | constructor; [exact Hc | constructor]].
Qed.

Lemma text_onlcr_utf8 v : Forall scalar v -> Forall (fun b => b <> CR) v -> text (onlcr (utf8_enc v)) = v.
Proof.
  intros Hs Hc. unfold text, norm. rewrite onlcr_enc, utf8_roundtrip by (apply scalar_onlcr; exact Hs).
  rewrite crlf_onlcr_gen by exact Hc. apply replace2_absent. exact Hc.
Qed.

Local Close Scope N_scope.

Theorem env_get_exact_utf8 var v P c st1 st2 sts :
  insync c -> prompt c = Some (SLit P) -> P <> [] ->
  Forall scalar v -> Forall (fun b => b <> CR) v ->
  any_in (blacklist c) (utf8_enc (get_line var) ++ [CR]) = false ->
  any_in (blacklist c) (ECHO_Q ++ [CR]) = false ->
  (* the shell prints the variable's bytes and a newline *)
  wf_pend st1 -> cat st1 = tty_echo false (utf8_enc (get_line var) ++ [CR]) ++ onlcr (utf8_enc v ++ [LF]) ++ P ->
  prompt_only_at_end P (onlcr (utf8_enc v ++ [LF])) ->
  wf_pend st2 -> cat st2 = tty_echo false (ECHO_Q ++ [CR]) ++ (ZERO ++ [CR; LF]) ++ P ->
  prompt_only_at_end P (ZERO ++ [CR; LF]) ->
  exists c', lx_env_get var (st1 :: st2 :: sts) c = (X0Ok v, c', sts) /\ insync c'.
Proof.
  intros Hin Hpr HP Hs Hc Hb1 Hb2 Hw1 Hc1 Ho1 Hw2 Hc2 Ho2.
  destruct (lx_exec_line_exact (get_line var) P c st1 st2 sts (utf8_enc v ++ [LF]) ZERO Hin Hpr HP Hb1 Hb2 Hw1 Hc1 Ho1 Hw2 Hc2
              ltac:(repeat constructor) ltac:(discriminate) Ho2) as (c' & E & A & _).
  unfold lx_env_get, lx_exec0_line. rewrite E. change (dec_val ZERO =? 0)%Z with true. cbv iota.
  exists c'. split; [|exact A]. f_equal. f_equal. f_equal.
  assert (EQ : utf8_enc v ++ [LF] = utf8_enc (v ++ [LF])) by (rewrite enc_app; reflexivity).
  rewrite EQ, text_onlcr_utf8.
  - unfold get_slice. apply drop_last_one.
  - apply Forall_app. split; [exact Hs | repeat constructor; apply scalar_ascii; unfold LF; lia].
  - apply Forall_app. split; [exact Hc | repeat constructor; discriminate].
Qed.
