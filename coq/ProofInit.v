(* ProofInit.v -- _init_shell after the probe: for every fragmentation of the console's reactions the shell ends up
   configured, with the prompt set, the black-list installed, the sanity check passed and the channel in sync. *)
From TV Require Import Base BaseLemmas Utf8 Regex Channel ChannelLemmas ProofC02 ProofC03 Hush Session ProofSession ProofC04 ProofC04b ProofC06 ProofC19 Sh ProofC01.

(* a line without read-back, then read_until_prompt, on a channel that may still have unread output pending (pre):
   everything up to the prompt is consumed *)
Lemma exchange_nrb_pre line P c (stg : stage) pre rest k :
  quiet c -> cpend c = pre -> prompt c = Some (SLit P) -> wf_pend stg ->
  any_in (blacklist c) (line ++ [CR]) = false ->
  cat stg = rest -> pre ++ rest <> [] -> only_tail (prompt_split (Some (SLit P))) (pre ++ rest) k ->
  exists c1 c2,
    line_nrb line [stg] c = (Ret tt, c1, []) /\
    read_until_prompt None None c1 = (Ret (text (firstn k (pre ++ rest))), c2) /\
    insync c2 /\ wr (io c2) = wr (io c) ++ line ++ [CR] /\ prompt c2 = prompt c /\ blacklist c2 = blacklist c.
Proof.
  intros (Hw & Hd & Hs) Hpre Hpr Hst Hbl Hcat Hne Hot.
  set (c0 := load stg c).
  assert (L : cpend c0 = pre ++ rest /\ wfc c0 /\ deaths c0 = [] /\ slow_ok c0 /\ blacklist c0 = blacklist c /\
              prompt c0 = prompt c /\ wr (io c0) = wr (io c)).
  { unfold c0, load, cpend, wfc, slow_ok in *. cbn.
    assert (M : map snd (map (fun e : Z * list N => ((now (io c) + fst e)%Z, snd e)) stg) = map snd stg) by (rewrite map_map; reflexivity).
    split; [unfold cat in *; rewrite map_app, concat_app, M, Hpre, Hcat; reflexivity|].
    split; [unfold wf_pend in *; apply Forall_app; split; [exact Hw|];
            apply Forall_forall; intros e He; apply in_map_iff in He; destruct He as (e0 & <- & Hin); cbn;
            rewrite Forall_forall in Hst; exact (Hst e0 Hin)|].
    auto. }
  destruct L as (L1 & L2 & L3 & L4 & L5 & L6 & L7).
  unfold line_nrb. cbn [hd_stage tl]. fold c0. unfold sendline.
  destruct (send (line ++ [CR]) false None c0) as [r c1] eqn:E.
  destruct (send_prefix _ _ _ _ L4 E) as [(-> & W & _) | (_ & _ & X)]; [|rewrite L5 in X; congruence].
  unfold send in E. rewrite L5, Hbl in E.
  destruct (send_loop_nrb_spec _ _ _ _ _ _ _ L4 (Nat.lt_succ_diag_r _) E) as (sent & rst & _ & _ & _ & Wc & _).
  destruct Wc as (P1 & P2 & P3 & P4 & P5 & P6 & P7).
  assert (Hw1 : wfc c1) by (unfold wfc; rewrite P1; exact L2).
  assert (Hd1 : deaths c1 = []) by congruence.
  assert (Hc1 : cpend c1 = pre ++ rest) by (unfold cpend; rewrite P1; exact L1).
  assert (Hp1 : pend (io c1) <> []) by (apply pend_of_cpend; rewrite Hc1; exact Hne).
  unfold read_until_prompt.
  destruct (rup_loop_split_independent (fuel_of c1) (now (io c1)) [] c1 (pre ++ rest) k Hw1 Hd1 Hp1 Hc1) as (c2 & R1 & R2 & R3 & R4).
  { rewrite P2, L6, Hpr. exact Hot. }
  { apply fuel_of_enough. }
  exists c1, c2. split; [reflexivity|]. split; [exact R1|].
  destruct R3 as (Q1 & Q2 & Q3 & Q4 & Q5 & Q6).
  split.
  { split; [|exact R2]. split; [unfold wfc; rewrite R2; constructor|]. split; [exact R4|].
    unfold slow_ok in *. rewrite Q3, P6. exact L4. }
  split; [rewrite Q6, W, L7; reflexivity|]. split; congruence.
Qed.

(* the configuration lines: each answered by its echo and the prompt *)
Theorem config_lines_ok P : forall ls (stgs : list stage) c,
  insync c -> prompt c = Some (SLit P) -> P <> [] ->
  Forall (fun l => any_in (blacklist c) (l ++ [CR]) = false) ls ->
  Forall2 (fun l stg => wf_pend stg /\ exists noise, cat stg = noise ++ P /\ prompt_only_at_end P noise) ls stgs ->
  exists c', config_lines ls stgs c = (IOk, c', []) /\ insync c' /\ prompt c' = prompt c /\ blacklist c' = blacklist c /\
             wr (io c') = wr (io c) ++ concat (map (fun l => l ++ [CR]) ls).
Proof.
  induction ls as [|l ls IH]; intros stgs c Hin Hpr HP Hbl Hs.
  - inversion Hs; subst. exists c. cbn. rewrite app_nil_r. auto.
  - inversion Hs as [|? stg ? stgs' (Hw & noise & Hc & Ho) Hs']; subst. inversion Hbl as [|? ? Hb1 Hbl']; subst.
    destruct Hin as [Hq Hp0].
    assert (Hpre : cpend c = []) by (unfold cpend; rewrite Hp0; reflexivity).
    assert (Hne : [] ++ (noise ++ P) <> []) by (cbn; destruct noise; [exact HP | discriminate]).
    destruct (exchange_nrb_pre l P c stg [] (noise ++ P) (length noise) Hq Hpre Hpr Hw Hb1 Hc Hne
                (only_tail_literal P noise HP Ho)) as (c1 & c2 & E1 & E2 & Hin2 & W2 & Pr2 & Bl2).
    cbn [config_lines hd_stage tl].
    assert (E1' : line_nrb l (stg :: stgs') c = (Ret tt, c1, stgs')).
    { unfold line_nrb in *. cbn [hd_stage tl] in *. destruct (sendline l false None (load stg c)). injection E1 as -> ->. reflexivity. }
    rewrite E1', E2.
    assert (Hbl2 : Forall (fun l0 => any_in (blacklist c2) (l0 ++ [CR]) = false) ls) by (rewrite Bl2; exact Hbl').
    destruct (IH stgs' c2 Hin2 ltac:(congruence) HP Hbl2 Hs') as (c' & E & Hin' & Pr' & Bl' & W').
    exists c'. split; [exact E|]. split; [exact Hin'|]. split; [congruence|]. split; [congruence|].
    rewrite W', W2. cbn [map concat]. rewrite <- !app_assoc. reflexivity.
Qed.

(* ---- the part of _init_shell after the probe has been answered ---- *)
Definition init_rest (bl : list N) (ps1line : list N) (cfg : list (list N)) (sts1 : list stage) (c1 : chan)
  : ires * chan * list stage :=
  let c2 := mkChan (io c1) (prompt c1) (deaths c1) (lgs c1) bl (slow c1) (ctx c1) (nextid c1) in
  match line_nrb ps1line sts1 c2 with
  | (Ret _, c3, sts3) =>
      let c4 := with_prompt c3 (Some (SLit TBOT_PROMPT)) in
      match read_until_prompt None None c4 with
      | (Ret _, c5) =>
          match config_lines cfg sts3 c5 with
          | (IOk, c6, sts6) =>
              match sendline SANITY true None (load (hd_stage sts6) c6) with
              | (Ret _, c7) =>
                  match read_until_prompt None None c7 with
                  | (Ret out, c8) => (if list_N_eqb out SANITY_ANSWER then IOk else IUnclean out, c8, tl sts6)
                  | (e, c8) => (IErr (lift_err e), c8, tl sts6)
                  end
              | (e, c7) => (IErr e, c7, tl sts6)
              end
          | r => r
          end
      | (e, c5) => (IErr (lift_err e), c5, sts3)
      end
  | (e, c3, sts3) => (IErr e, c3, sts3)
  end.

Lemma init_shell_unfold fuel t bl ps1 cfg sts c :
  init_shell fuel t bl ps1 cfg sts c =
  match wait_for_shell fuel t sts c with
  | (IOk, c1, sts1) => init_rest bl ps1 cfg sts1 c1
  | r => r
  end.
Proof. reflexivity. Qed.

(* sending does not look at the prompt *)
Lemma write_loop_wp p fuel : forall buf c,
  write_loop fuel buf (with_prompt c p) = let (r, c') := write_loop fuel buf c in (r, with_prompt c' p).
Proof.
  induction fuel as [|f IH]; intros buf c; destruct buf as [|x b]; try reflexivity.
  cbn [write_loop]. change (slow (with_prompt c p)) with (slow c). change (io (with_prompt c p)) with (io c).
  destruct (slow c) as [[d k]|].
  - destruct (io_write _ _) as [n io']. apply (IH _ (with_io c (io_sleep d io'))).
  - destruct (io_write _ _) as [n io']. apply (IH _ (with_io c io')).
Qed.

Lemma write_wp p buf ign c : write buf ign (with_prompt c p) = let (r, c') := write buf ign c in (r, with_prompt c' p).
Proof.
  unfold write. change (blacklist (with_prompt c p)) with (blacklist c).
  destruct (negb ign && any_in (blacklist c) buf); [reflexivity | apply write_loop_wp].
Qed.

Lemma send_loop_nrb_wp p fuel : forall start s c,
  send_loop fuel start s false None (with_prompt c p) =
  let (r, c') := send_loop fuel start s false None c in (r, with_prompt c' p).
Proof.
  induction fuel as [|f IH]; intros start s c; destruct s as [|x s0]; try reflexivity.
  rewrite !send_loop_cons_nrb. rewrite write_wp.
  destruct (write (firstn SEND_SLICE (x :: s0)) false c) as [r1 c1]. destruct r1; try reflexivity. apply IH.
Qed.

Lemma line_nrb_wp p l sts c :
  line_nrb l sts (with_prompt c p) = let '(r, c', s') := line_nrb l sts c in (r, with_prompt c' p, s').
Proof.
  unfold line_nrb, sendline, send.
  change (load (hd_stage sts) (with_prompt c p)) with (with_prompt (load (hd_stage sts) c) p).
  change (blacklist (with_prompt (load (hd_stage sts) c) p)) with (blacklist (load (hd_stage sts) c)).
  destruct (any_in _ _); [reflexivity|].
  change (now (io (with_prompt (load (hd_stage sts) c) p))) with (now (io (load (hd_stage sts) c))).
  rewrite send_loop_nrb_wp. destruct (send_loop _ _ _ _ _ _); reflexivity.
Qed.

Lemma sanity_text : text (onlcr SANITY_ANSWER) = SANITY_ANSWER.
Proof. vm_compute. reflexivity. Qed.

(* for EVERY fragmentation of the console's reactions: after the probe (some of its answer may still be unread:
   pre), the PS1 line, every configuration line and the sanity check succeed; the channel ends up in sync with the
   prompt and the black-list of the shell class installed *)
Theorem init_after_probe_ok bl cfg c1 pre (st_ps1 : stage) (stgs : list stage) (st_san : stage) noise1 :
  quiet c1 -> cpend c1 = pre ->
  any_in bl (PS1_LINE ++ [CR]) = false ->
  Forall (fun l => any_in bl (l ++ [CR]) = false) cfg ->
  any_in bl (SANITY ++ [CR]) = false ->
  wf_pend st_ps1 -> cat st_ps1 = noise1 ++ TBOT_PROMPT -> prompt_only_at_end TBOT_PROMPT (pre ++ noise1) ->
  Forall2 (fun l stg => wf_pend stg /\ exists noise, cat stg = noise ++ TBOT_PROMPT /\ prompt_only_at_end TBOT_PROMPT noise) cfg stgs ->
  wf_pend st_san -> cat st_san = tty_echo false (SANITY ++ [CR]) ++ onlcr SANITY_ANSWER ++ TBOT_PROMPT ->
  prompt_only_at_end TBOT_PROMPT (onlcr SANITY_ANSWER) ->
  exists c', init_rest bl PS1_LINE cfg (st_ps1 :: stgs ++ [st_san]) c1 = (IOk, c', []) /\
             insync c' /\ prompt c' = Some (SLit TBOT_PROMPT) /\ blacklist c' = bl.
Proof.
  intros Hq Hpre Hb1 Hbc Hbs Hw1 Hc1 Ho1 Hs Hws Hcs Hos.
  unfold init_rest.
  set (c2 := mkChan (io c1) (prompt c1) (deaths c1) (lgs c1) bl (slow c1) (ctx c1) (nextid c1)).
  assert (Hq2 : quiet (with_prompt c2 (Some (SLit TBOT_PROMPT)))) by (destruct Hq as (A & B & C); unfold quiet, wfc, slow_ok in *; cbn; auto).
  assert (Hne : (pre ++ noise1) ++ TBOT_PROMPT <> []) by (destruct (pre ++ noise1); discriminate).
  assert (HP : TBOT_PROMPT <> []) by discriminate.
  assert (Hcat1 : cat st_ps1 = noise1 ++ TBOT_PROMPT) by exact Hc1.
  assert (Hne1 : pre ++ (noise1 ++ TBOT_PROMPT) <> []) by (rewrite app_assoc; exact Hne).
  assert (Hot1 : only_tail (prompt_split (Some (SLit TBOT_PROMPT))) (pre ++ (noise1 ++ TBOT_PROMPT)) (length (pre ++ noise1))).
  { rewrite app_assoc. apply only_tail_literal; assumption. }
  destruct (exchange_nrb_pre PS1_LINE TBOT_PROMPT (with_prompt c2 (Some (SLit TBOT_PROMPT))) st_ps1 pre (noise1 ++ TBOT_PROMPT)
              (length (pre ++ noise1)) Hq2 Hpre eq_refl Hw1 Hb1 Hcat1 Hne1 Hot1) as (c3' & c5 & E1 & E2 & Hin5 & _ & Pr5 & Bl5).
  (* relate to the run where the prompt is set after sending *)
  pose proof (line_nrb_wp (Some (SLit TBOT_PROMPT)) PS1_LINE [st_ps1] c2) as Q.
  destruct (line_nrb PS1_LINE [st_ps1] c2) as [[r3 c3] s3] eqn:E3. rewrite E1 in Q. injection Q as <- -> <-.
  assert (E3' : line_nrb PS1_LINE (st_ps1 :: stgs ++ [st_san]) c2 = (Ret tt, c3, stgs ++ [st_san])).
  { unfold line_nrb in *. cbn [hd_stage tl] in *. destruct (sendline PS1_LINE false None (load st_ps1 c2)). injection E3 as -> ->. reflexivity. }
  rewrite E3', E2.
  cbn in Pr5, Bl5.
  assert (Hbc5 : Forall (fun l => any_in (blacklist c5) (l ++ [CR]) = false) cfg) by (rewrite Bl5; exact Hbc).
  (* the configuration lines *)
  assert (G : forall (ss : list stage) c, config_lines cfg (stgs ++ ss) c =
              match config_lines cfg stgs c with (IOk, c', r) => (IOk, c', r ++ ss) | x => x end \/ True) by (intros; right; exact I).
  clear G.
  assert (CL : exists c6, config_lines cfg (stgs ++ [st_san]) c5 = (IOk, c6, [st_san]) /\ insync c6 /\
                          prompt c6 = Some (SLit TBOT_PROMPT) /\ blacklist c6 = bl).
  { clear E1 E2 E3 E3' Hq2 Hot1 Hne1 Hcat1.
    revert c5 Hin5 Pr5 Bl5 Hbc5. clear -Hs HP Hbc. revert stgs Hs.
    induction cfg as [|l ls IH]; intros stgs Hs c5 Hin5 Pr5 Bl5 Hbc5.
    - inversion Hs; subst. exists c5. cbn. auto.
    - inversion Hs as [|? stg ? stgs' (Hw & noise & Hc & Ho) Hs']; subst. inversion Hbc5 as [|? ? Hb1 Hbl']; subst.
      inversion Hbc as [|? ? _ Hbc']; subst.
      destruct Hin5 as [Hq Hp0].
      assert (Hpre : cpend c5 = []) by (unfold cpend; rewrite Hp0; reflexivity).
      assert (Hne : [] ++ (noise ++ TBOT_PROMPT) <> []) by (cbn; destruct noise; discriminate).
      destruct (exchange_nrb_pre l TBOT_PROMPT c5 stg [] (noise ++ TBOT_PROMPT) (length noise) Hq Hpre Pr5 Hw Hb1 Hc Hne
                  (only_tail_literal TBOT_PROMPT noise HP Ho)) as (c1' & c2' & E1 & E2 & Hin2 & _ & Pr2 & Bl2).
      cbn [config_lines app].
      assert (E1' : line_nrb l (stg :: stgs' ++ [st_san]) c5 = (Ret tt, c1', stgs' ++ [st_san])).
      { unfold line_nrb in *. cbn [hd_stage tl] in *. destruct (sendline l false None (load stg c5)). injection E1 as -> ->. reflexivity. }
      match goal with |- context [line_nrb l ?s c5] => replace (line_nrb l s c5) with (@Ret unit tt, c1', stgs' ++ [st_san]) by (symmetry; exact E1') end. rewrite E2.
      apply (IH Hbc' stgs' Hs' c2' Hin2); [congruence | congruence | rewrite Bl2; exact Hbl']. }
  destruct CL as (c6 & E6 & Hin6 & Pr6 & Bl6). rewrite E6. cbn [hd_stage tl].
  (* the sanity check *)
  assert (B1 : any_in (blacklist c6) (SANITY ++ [CR]) = false) by (rewrite Bl6; exact Hbs).
  assert (Hr : onlcr SANITY_ANSWER ++ TBOT_PROMPT <> []) by discriminate.
  assert (OT : only_tail (prompt_split (Some (SLit TBOT_PROMPT))) (onlcr SANITY_ANSWER ++ TBOT_PROMPT) (length (onlcr SANITY_ANSWER)))
    by (apply only_tail_literal; assumption).
  assert (B3 : (@None sstr = None /\ prompt c6 = Some (SLit TBOT_PROMPT)) \/ @None sstr = Some (SLit TBOT_PROMPT)) by (left; auto).
  destruct (exchange SANITY None TBOT_PROMPT c6 st_san (tty_echo false (SANITY ++ [CR])) (onlcr SANITY_ANSWER ++ TBOT_PROMPT)
              (length (onlcr SANITY_ANSWER)) Hin6 Hws B1 Hcs (echo_len_noctl _) Hr OT B3) as (c7 & c8 & Y1 & Y2 & Hin8 & _ & Pr8 & Bl8).
  rewrite Y1, Y2, firstn_app_exact, sanity_text, list_N_eqb_refl.
  exists c8. split; [reflexivity|]. split; [exact Hin8|]. split; congruence.
Qed.

(* ---- a decidable criterion for "the prompt occurs only at the end" ---- *)
Definition poe_b (P out : list N) : bool :=
  forallb (fun i => negb (is_suffix P (firstn i (out ++ P)))) (seq 0 (length (out ++ P))).

Lemma poe_check P out : poe_b P out = true -> prompt_only_at_end P out.
Proof.
  unfold poe_b, prompt_only_at_end. intros H b c E Hc.
  rewrite forallb_forall in H.
  assert (Hl : length b < length (out ++ P)).
  { rewrite E, app_length. destruct c; [congruence | cbn; lia]. }
  specialize (H (length b)).
  assert (F : firstn (length b) (out ++ P) = b) by (rewrite E; apply firstn_app_exact). rewrite F in H.
  apply negb_true_iff, H, in_seq. lia.
Qed.

Lemma poe_complete P out : prompt_only_at_end P out -> poe_b P out = true.
Proof.
  unfold poe_b, prompt_only_at_end. intros H. apply forallb_forall. intros i Hi. apply in_seq in Hi.
  apply negb_true_iff. apply (H (firstn i (out ++ P)) (skipn i (out ++ P))); [symmetry; apply firstn_skipn|].
  intros E. apply (f_equal (@length N)) in E. rewrite skipn_length in E. cbn in E. lia.
Qed.

(* the fixed texts of the initialisation *)
Example sanity_answer_has_no_prompt : prompt_only_at_end TBOT_PROMPT (onlcr SANITY_ANSWER).
Proof. apply poe_check. vm_compute. reflexivity. Qed.

Example ps1_echo_then_prompt_only_at_end :
  prompt_only_at_end TBOT_PROMPT (tty_echo false (PS1_LINE ++ [CR])) /\
  prompt_only_at_end TBOT_PROMPT (tty_echo true (PS1_LINE ++ [CR])).
Proof. split; apply poe_check; vm_compute; reflexivity. Qed.

(* a console that answers every line with its echo and the new prompt (what bash does once PS1 is set): the
   initialisation succeeds for every fragmentation and every timing of the answers, whatever the configuration lines
   are, as long as their echoes do not contain the prompt *)
Theorem init_echo_console_ok bl cfg c1 ectl (st_ps1 : stage) (stgs : list stage) (st_san : stage) :
  quiet c1 -> cpend c1 = [] ->
  any_in bl (PS1_LINE ++ [CR]) = false ->
  Forall (fun l => any_in bl (l ++ [CR]) = false) cfg ->
  any_in bl (SANITY ++ [CR]) = false ->
  wf_pend st_ps1 -> cat st_ps1 = tty_echo ectl (PS1_LINE ++ [CR]) ++ TBOT_PROMPT ->
  Forall2 (fun l stg => wf_pend stg /\ cat stg = tty_echo ectl (l ++ [CR]) ++ TBOT_PROMPT) cfg stgs ->
  forallb (fun l => poe_b TBOT_PROMPT (tty_echo ectl (l ++ [CR]))) cfg = true ->
  wf_pend st_san -> cat st_san = tty_echo false (SANITY ++ [CR]) ++ onlcr SANITY_ANSWER ++ TBOT_PROMPT ->
  exists c', init_rest bl PS1_LINE cfg (st_ps1 :: stgs ++ [st_san]) c1 = (IOk, c', []) /\
             insync c' /\ prompt c' = Some (SLit TBOT_PROMPT) /\ blacklist c' = bl.
Proof.
  intros Hq Hp Hb1 Hbc Hbs Hw1 Hc1 Hs Hpoe Hws Hcs.
  apply (init_after_probe_ok bl cfg c1 [] st_ps1 stgs st_san (tty_echo ectl (PS1_LINE ++ [CR]))); auto.
  - cbn [app]. destruct ps1_echo_then_prompt_only_at_end as [A B]. destruct ectl; assumption.
  - rewrite forallb_forall in Hpoe. clear -Hs Hpoe. induction Hs as [|l stg ls ss (Hw & Hc) Hs IH]; constructor.
    + split; [exact Hw|]. eexists. split; [exact Hc|]. apply poe_check, Hpoe. left; reflexivity.
    + apply IH. intros x Hx. apply Hpoe. right; exact Hx.
  - exact sanity_answer_has_no_prompt.
Qed.

(* the hypotheses are satisfiable: bash's configuration lines on an 80x24 terminal, every answer in one piece *)
Definition s2n (s : list nat) : list N := map N.of_nat s.
Definition BASH_CFG_80x24 : list (list N) :=
  [ [117;110;115;101;116;32;72;73;83;84;70;73;76;69];                                  (* unset HISTFILE *)
    [115;101;116;32;43;111;32;101;109;97;99;115;59;32;115;101;116;32;43;111;32;118;105]; (* set +o emacs; set +o vi *)
    [80;83;50;61;39;39];                                                                 (* PS2='' *)
    [115;116;116;121;32;45;101;99;104;111;99;116;108];                                   (* stty -echoctl *)
    [104;105;115;116;99;104;97;114;115;61;39;39];                                        (* histchars='' *)
    [115;116;116;121;32;99;111;108;115;32;56;48];                                        (* stty cols 80 *)
    [115;116;116;121;32;114;111;119;115;32;50;52] ]%N.                                   (* stty rows 24 *)

Definition one_piece (s : list N) : stage := [(0%Z, s)].

Example init_hypotheses_satisfiable :
  let c1 := with_prompt (lx_chan false []) None in
  let stgs := map (fun l => one_piece (tty_echo true (l ++ [CR]) ++ TBOT_PROMPT)) BASH_CFG_80x24 in
  quiet c1 /\ cpend c1 = [] /\
  any_in BASH_BLACKLIST (PS1_LINE ++ [CR]) = false /\
  Forall (fun l => any_in BASH_BLACKLIST (l ++ [CR]) = false) BASH_CFG_80x24 /\
  any_in BASH_BLACKLIST (SANITY ++ [CR]) = false /\
  Forall2 (fun l stg => wf_pend stg /\ cat stg = tty_echo true (l ++ [CR]) ++ TBOT_PROMPT) BASH_CFG_80x24 stgs /\
  forallb (fun l => poe_b TBOT_PROMPT (tty_echo true (l ++ [CR]))) BASH_CFG_80x24 = true.
Proof.
  cbv zeta. split; [unfold quiet, wfc, wf_pend, slow_ok; cbn; auto|]. split; [reflexivity|].
  split; [vm_compute; reflexivity|].
  split; [repeat constructor|]. split; [vm_compute; reflexivity|].
  split; [|vm_compute; reflexivity].
  unfold BASH_CFG_80x24. cbn [map].
  repeat (constructor; [split; [constructor; [discriminate | constructor] | vm_compute; reflexivity]|]). constructor.
Qed.

(* ---- the probe: wait_for_shell ---- *)
Lemma send_nrb_keeps_time fuel : forall start s tmo c r c',
  slow c = None -> send_loop fuel start s false tmo c = (r, c') -> nowc c' = nowc c /\ slow c' = None.
Proof.
  induction fuel as [|f IH]; intros start s tmo c r c' Hs H.
  - destruct s; cbn in H; injection H as <- <-; auto.
  - destruct s as [|x s0]; [cbn in H; injection H as <- <-; auto|].
    rewrite send_loop_cons_nrb in H.
    destruct (write (firstn SEND_SLICE (x :: s0)) false c) as [r1 c1] eqn:Ew.
    destruct (write_keeps_time _ _ _ _ _ Hs Ew) as [T1 S1].
    destruct r1; try (injection H as <- <-; auto).
    destruct (IH _ _ _ _ _ _ S1 H) as [T2 S2]. split; [congruence | exact S2].
Qed.

(* the probe is answered in time: wait_for_shell returns at the first occurrence of the answer, for EVERY
   fragmentation and timing of the console's output (banner, echo, answer, prompt ...); what follows the piece that
   completed the answer stays pending for the next step of the initialisation *)
Theorem wait_for_shell_answered fuel tmo c (st : stage) (sts : list stage) a :
  quiet c -> slow c = None -> (0 < tmo)%Z -> wf_pend st ->
  any_in (blacklist c) (PROBE ++ [CR]) = false ->
  find_sub PROBE_ANSWER (cpend c ++ cat st) = Some a ->
  a + length PROBE_ANSWER <= ready (Some (now (io c) + tmo)%Z) (pend (io (load st c))) ->
  exists c' data,
    wait_for_shell (S fuel) tmo (st :: sts) c = (IOk, c', sts) /\
    quiet c' /\ cpend c ++ cat st = data ++ cpend c' /\
    firstn (a + length PROBE_ANSWER) data = firstn a (cpend c ++ cat st) ++ PROBE_ANSWER /\
    wr (io c') = wr (io c) ++ PROBE ++ [CR] /\ prompt c' = prompt c /\ blacklist c' = blacklist c.
Proof.
  intros (Hw & Hd & Hs) Hslow Htmo Hst Hbl Hf Hr.
  set (c0 := load st c) in *.
  assert (L : cpend c0 = cpend c ++ cat st /\ wfc c0 /\ deaths c0 = [] /\ slow c0 = None /\ blacklist c0 = blacklist c /\
              prompt c0 = prompt c /\ wr (io c0) = wr (io c) /\ now (io c0) = now (io c)).
  { unfold c0, load, cpend, wfc in *. cbn.
    assert (M : map snd (map (fun e : Z * list N => ((now (io c) + fst e)%Z, snd e)) st) = map snd st) by (rewrite map_map; reflexivity).
    split; [unfold cat in *; rewrite map_app, concat_app, M; reflexivity|].
    split; [unfold wf_pend in *; apply Forall_app; split; [exact Hw|];
            apply Forall_forall; intros e He; apply in_map_iff in He; destruct He as (e0 & <- & Hin); cbn;
            rewrite Forall_forall in Hst; exact (Hst e0 Hin)|].
    auto 10. }
  destruct L as (L1 & L2 & L3 & L4 & L5 & L6 & L7 & L8).
  assert (L4' : slow_ok c0) by (unfold slow_ok; rewrite L4; exact I).
  cbn [wait_for_shell]. unfold line_nrb. cbn [hd_stage tl]. fold c0. unfold sendline.
  destruct (send (PROBE ++ [CR]) false None c0) as [r c1] eqn:E.
  destruct (send_prefix _ _ _ _ L4' E) as [(-> & W & _) | (_ & _ & X)]; [|rewrite L5 in X; congruence].
  unfold send in E. rewrite L5, Hbl in E.
  destruct (send_nrb_keeps_time _ _ _ _ _ _ _ L4 E) as [T1 S1]. unfold nowc in T1.
  destruct (send_loop_nrb_spec _ _ _ _ _ _ _ L4' (Nat.lt_succ_diag_r _) E) as (sent & rst & _ & _ & _ & Wc & _).
  destruct Wc as (P1 & P2 & P3 & P4 & P5 & P6 & P7).
  assert (Hw1 : wfc c1) by (unfold wfc; rewrite P1; exact L2).
  assert (Hd1 : deaths c1 = []) by congruence.
  assert (Hc1 : cpend c1 = cpend c ++ cat st) by (unfold cpend; rewrite P1; exact L1).
  assert (HT : match Some tmo with Some T => (0 < T)%Z | None => True end) by exact Htmo.
  assert (Hl : PROBE_ANSWER <> []) by discriminate.
  assert (Hf1 : find_sub PROBE_ANSWER (cpend c1) = Some a) by (rewrite Hc1; exact Hf).
  assert (Hr1 : a + length PROBE_ANSWER <= ready (deadline (now (io c1)) (Some tmo)) (pend (io c1))).
  { cbn [deadline option_map]. rewrite P1, T1, L8. exact Hr. }
  destruct (expect_literal_live PROBE_ANSWER (Some tmo) c1 a Hw1 Hd1 HT Hl Hf1 Hr1)
    as (r & c2 & data & Ex & _ & _ & _ & Dcat & Dfirst & _ & Hw2 & Dcfg & Dd2).
  rewrite Ex. exists c2, data. split; [reflexivity|].
  destruct Dcfg as (Q1 & Q2 & Q3 & Q4 & Q5 & Q6).
  split.
  { split; [exact Hw2|]. split; [exact Dd2|]. unfold slow_ok. rewrite Q3, S1. exact I. }
  split; [rewrite <- Hc1; exact Dcat|]. split; [rewrite <- Hc1; exact Dfirst|].
  split; [rewrite Q6, W, L7; reflexivity|]. split; congruence.
Qed.

Lemma poe_suffix P u out : prompt_only_at_end P (u ++ out) -> prompt_only_at_end P out.
Proof.
  unfold prompt_only_at_end. intros H b c E Hc.
  specialize (H (u ++ b) c). rewrite <- !app_assoc in H. specialize (H ltac:(rewrite E; reflexivity) Hc).
  destruct (is_suffix P b) eqn:S; [|reflexivity].
  apply is_suffix_spec in S as (t & ->). rewrite app_assoc, is_suffix_app in H. discriminate.
Qed.

(* the whole of _init_shell: the probe is answered in time (first try), every later line is answered with output
   that contains the prompt only at its end -- then the initialisation succeeds for EVERY fragmentation and timing,
   and leaves the channel in sync with the prompt and the black-list of the shell class installed *)
Theorem init_shell_ok fuel tmo bl cfg c (st0 st_ps1 : stage) (stgs : list stage) (st_san : stage) a noise1 :
  quiet c -> slow c = None -> (0 < tmo)%Z -> wf_pend st0 ->
  any_in (blacklist c) (PROBE ++ [CR]) = false ->
  find_sub PROBE_ANSWER (cpend c ++ cat st0) = Some a ->
  a + length PROBE_ANSWER <= ready (Some (now (io c) + tmo)%Z) (pend (io (load st0 c))) ->
  any_in bl (PS1_LINE ++ [CR]) = false ->
  Forall (fun l => any_in bl (l ++ [CR]) = false) cfg ->
  any_in bl (SANITY ++ [CR]) = false ->
  wf_pend st_ps1 -> cat st_ps1 = noise1 ++ TBOT_PROMPT ->
  prompt_only_at_end TBOT_PROMPT (skipn (a + length PROBE_ANSWER) (cpend c ++ cat st0) ++ noise1) ->
  Forall2 (fun l stg => wf_pend stg /\ exists noise, cat stg = noise ++ TBOT_PROMPT /\ prompt_only_at_end TBOT_PROMPT noise) cfg stgs ->
  wf_pend st_san -> cat st_san = tty_echo false (SANITY ++ [CR]) ++ onlcr SANITY_ANSWER ++ TBOT_PROMPT ->
  exists c', init_shell (S fuel) tmo bl PS1_LINE cfg (st0 :: st_ps1 :: stgs ++ [st_san]) c = (IOk, c', []) /\
             insync c' /\ prompt c' = Some (SLit TBOT_PROMPT) /\ blacklist c' = bl.
Proof.
  intros Hq Hslow Htmo Hw0 Hb0 Hf Hr Hb1 Hbc Hbs Hw1 Hc1 Ho1 Hs Hws Hcs.
  destruct (wait_for_shell_answered fuel tmo c st0 (st_ps1 :: stgs ++ [st_san]) a Hq Hslow Htmo Hw0 Hb0 Hf Hr)
    as (c1 & data & E & Hq1 & Dcat & Dfirst & _).
  rewrite init_shell_unfold, E.
  apply (init_after_probe_ok bl cfg c1 (cpend c1) st_ps1 stgs st_san noise1); auto.
  - (* what is still unread is a suffix of what followed the answer *)
    assert (Hlen : a + length PROBE_ANSWER <= length data).
    { apply (f_equal (@length N)) in Dfirst. rewrite firstn_length, app_length, firstn_length in Dfirst.
      pose proof (find_sub_Some _ _ _ Hf) as (x & y & Ex & Lx). rewrite Ex in Dfirst. rewrite app_length in Dfirst. lia. }
    assert (Sk : skipn (a + length PROBE_ANSWER) (cpend c ++ cat st0) =
                 skipn (a + length PROBE_ANSWER) data ++ cpend c1).
    { rewrite Dcat, skipn_app. replace (a + length PROBE_ANSWER - length data) with 0 by lia. reflexivity. }
    rewrite Sk, <- app_assoc in Ho1. exact (poe_suffix _ _ _ Ho1).
  - exact sanity_answer_has_no_prompt.
Qed.

(* the hypotheses about the probe are satisfiable: a banner, the echo of the probe, its answer and bash's own prompt,
   in three pieces arriving 10, 20 and 30 ms after the probe was written *)
Example probe_hypotheses_satisfiable :
  let c := with_prompt (lx_chan false []) None in
  let st0 : stage := [(10%Z, [87; 101; 108; 99; 111; 109; 101; 13; 10]%N ++ firstn 5 (tty_echo true (PROBE ++ [CR])));
                      (20%Z, skipn 5 (tty_echo true (PROBE ++ [CR])) ++ firstn 4 PROBE_ANSWER);
                      (30%Z, skipn 4 PROBE_ANSWER ++ [13; 10; 98; 97; 115; 104; 36; 32]%N)] in
  quiet c /\ slow c = None /\ wf_pend st0 /\ any_in (blacklist c) (PROBE ++ [CR]) = false /\
  find_sub PROBE_ANSWER (cpend c ++ cat st0) = Some 26 /\
  26 + length PROBE_ANSWER <= ready (Some (now (io c) + 204)%Z) (pend (io (load st0 c))) /\
  prompt_only_at_end TBOT_PROMPT
    (skipn (26 + length PROBE_ANSWER) (cpend c ++ cat st0) ++ tty_echo true (PS1_LINE ++ [CR])).
Proof.
  cbv zeta. split; [unfold quiet, wfc, wf_pend, slow_ok; cbn; auto|]. split; [reflexivity|].
  split; [repeat constructor; discriminate|]. split; [vm_compute; reflexivity|].
  split; [vm_compute; reflexivity|]. split; [vm_compute; lia|].
  apply poe_check. vm_compute. reflexivity.
Qed.
