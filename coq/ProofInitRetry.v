(* ProofInitRetry.v -- util.wait_for_shell's retry loop: a console that answers none of the first k probes (what it
   prints during each of those waits does not contain the answer) and answers the next one in time. *)
From TV Require Import Base BaseLemmas Utf8 Regex Channel ChannelLemmas ProofC02 ProofC03 Hush Session ProofSession ProofC04 ProofC04b ProofC06 ProofLive ProofC19 Sh ProofC01 ProofInit ProofC18c.

(* the probe line goes out without read-back: no time passes, nothing is consumed *)
Lemma probe_sent c (st : stage) :
  quiet c -> slow c = None -> wf_pend st -> any_in (blacklist c) (PROBE ++ [CR]) = false ->
  exists c1,
    sendline PROBE false None (load st c) = (Ret tt, c1) /\
    wfc c1 /\ deaths c1 = [] /\ slow c1 = None /\
    cpend c1 = cpend c ++ cat st /\ pend (io c1) = pend (io (load st c)) /\ now (io c1) = now (io c) /\
    wr (io c1) = wr (io c) ++ PROBE ++ [CR] /\ prompt c1 = prompt c /\ blacklist c1 = blacklist c.
Proof.
  intros (Hw & Hd & Hs) Hslow Hst Hbl.
  set (c0 := load st c) in *.
  assert (L : cpend c0 = cpend c ++ cat st /\ wfc c0 /\ deaths c0 = [] /\ slow c0 = None /\ blacklist c0 = blacklist c /\
              prompt c0 = prompt c /\ wr (io c0) = wr (io c) /\ now (io c0) = now (io c)).
  { unfold c0, load, cpend, wfc in *. cbn.
    assert (M : map snd (map (fun e : Z * list N => ((now (io c) + fst e)%Z, snd e)) st) = map snd st) by (rewrite map_map; reflexivity).
    split; [unfold cat in *; rewrite map_app, concat_app, M; reflexivity|].
    split; [unfold wf_pend in *; apply Forall_app; split; [exact Hw|];
            apply Forall_forall; intros e He; apply in_map_iff in He; destruct He as (e0 & <- & Hin); cbn;
            rewrite Forall_forall in Hst; exact (Hst e0 Hin)|].
    auto 10. }
  destruct L as (L1 & L2 & L3 & L4 & L5 & L6 & L7 & L8).
  assert (L4' : slow_ok c0) by (unfold slow_ok; rewrite L4; exact I).
  unfold sendline.
  destruct (send (PROBE ++ [CR]) false None c0) as [r c1] eqn:E.
  destruct (send_prefix _ _ _ _ L4' E) as [(-> & W & _) | (_ & _ & X)]; [|rewrite L5 in X; congruence].
  unfold send in E. rewrite L5, Hbl in E.
  destruct (send_nrb_keeps_time _ _ _ _ _ _ _ L4 E) as [T1 S1]. unfold nowc in T1.
  destruct (send_loop_nrb_spec _ _ _ _ _ _ _ L4' (Nat.lt_succ_diag_r _) E) as (sent & rst & _ & _ & _ & Wc & _).
  destruct Wc as (P1 & P2 & P3 & P4 & P5 & P6 & P7).
  exists c1. split; [reflexivity|].
  split; [unfold wfc; rewrite P1; exact L2|]. split; [congruence|]. split; [exact S1|].
  split; [unfold cpend; rewrite P1; exact L1|]. split; [exact P1|]. split; [congruence|].
  split; [rewrite W, L7; reflexivity|]. split; congruence.
Qed.

Lemma ready_before_shift t T st : ready_before (t + T) (shift t st) = ready_before T st.
Proof.
  induction st as [|[a d] r IH]; [reflexivity|]. cbn [shift map ready_before fst snd]. fold (shift t r). rewrite IH.
  destruct (Z.ltb_spec (t + a) (t + T)), (Z.ltb_spec a T); try reflexivity; lia.
Qed.

Lemma load_insync_pend c (st : stage) : pend (io c) = [] -> pend (io (load st c)) = shift (now (io c)) st.
Proof. intros H. unfold load, shift. cbn. rewrite H. reflexivity. Qed.

(* one unanswered round: everything the console prints during the wait arrives within it and does not contain the
   answer -- the wait ends with TimeoutError exactly tmo later, everything printed has been consumed, and the loop
   goes round again with the 3 s timeout.  General form: output of an earlier command may still be pending *)
Lemma probe_round_timeout_gen fuel tmo c (st : stage) (sts : list stage) :
  quiet c -> slow c = None -> (0 < tmo)%Z -> wf_pend st ->
  any_in (blacklist c) (PROBE ++ [CR]) = false ->
  ready (Some (now (io c) + tmo)%Z) (pend (io (load st c))) = length (cpend c ++ cat st) ->
  contains PROBE_ANSWER (cpend c ++ cat st) = false ->
  exists c2,
    wait_for_shell (S fuel) tmo (st :: sts) c = wait_for_shell fuel 3072%Z sts c2 /\
    insync c2 /\ slow c2 = None /\ now (io c2) = (now (io c) + tmo)%Z /\
    wr (io c2) = wr (io c) ++ PROBE ++ [CR] /\ prompt c2 = prompt c /\ blacklist c2 = blacklist c.
Proof.
  intros Hq Hslow Htmo Hst Hbl Hall Hno.
  destruct (probe_sent c st Hq Hslow Hst Hbl) as (c1 & E & Hw1 & Hd1 & Hs1 & Hc1 & Hp1 & Ht1 & Hwr1 & Hpr1 & Hbl1).
  cbn [wait_for_shell]. unfold line_nrb. cbn [hd_stage tl]. rewrite E.
  assert (Hr : ready (Some (now (io c1) + tmo)%Z) (pend (io c1)) = length (cpend c1)).
  { rewrite Hp1, Ht1, Hc1. exact Hall. }
  pose proof (expect_literal_timed_iff PROBE_ANSWER tmo c1 Hw1 Hd1 Htmo ltac:(discriminate)) as Iff. cbv zeta in Iff.
  assert (Hit : in_time (now (io c1)) (Some tmo) c1) by (cbn; lia).
  pose proof (expect_loop_timed_state (fuel_of c1) (now (io c1)) tmo [SLit PROBE_ANSWER] [] c1 Hw1 Hd1 (fuel_of_enough c1) Hit) as St.
  cbv zeta in St. fold (expect [SLit PROBE_ANSWER] (Some tmo) c1) in St.
  rewrite Hr, firstn_all, Hc1 in Iff. rewrite Hr in St.
  destruct (expect [SLit PROBE_ANSWER] (Some tmo) c1) as [[r| | | | | |] c2] eqn:Ex; try contradiction.
  - destruct Iff as [C _]. congruence.
  - destruct St as [(D1 & D2 & D3 & D4 & D5 & _) | D]; [|exfalso; apply D; reflexivity].
    exists c2. split; [reflexivity|].
    destruct D5 as (Q1 & Q2 & Q3 & Q4 & Q5 & Q6).
    rewrite skipn_all in D2.
    split.
    { split; [split; [exact D3|]; split; [exact D4|]; unfold slow_ok; rewrite Q3, Hs1; exact I|].
      apply cpend_nil_pend; assumption. }
    split; [congruence|]. split; [rewrite D1, Ht1; reflexivity|].
    split; [rewrite Q6; exact Hwr1|]. split; congruence.
Qed.

Lemma probe_round_timeout fuel tmo c (st : stage) (sts : list stage) :
  insync c -> slow c = None -> (0 < tmo)%Z -> wf_pend st ->
  any_in (blacklist c) (PROBE ++ [CR]) = false ->
  within (Some tmo) st -> contains PROBE_ANSWER (cat st) = false ->
  exists c2,
    wait_for_shell (S fuel) tmo (st :: sts) c = wait_for_shell fuel 3072%Z sts c2 /\
    insync c2 /\ slow c2 = None /\ now (io c2) = (now (io c) + tmo)%Z /\
    wr (io c2) = wr (io c) ++ PROBE ++ [CR] /\ prompt c2 = prompt c /\ blacklist c2 = blacklist c.
Proof.
  intros [Hq Hp] Hslow Htmo Hst Hbl Hin Hno.
  assert (Hcp : cpend c = []) by (unfold cpend; rewrite Hp; reflexivity).
  apply probe_round_timeout_gen; try assumption; rewrite Hcp; cbn [app]; [|exact Hno].
  rewrite (load_insync_pend c st Hp). exact (ready_shift (Some tmo) (now (io c)) st Hin).
Qed.

(* what the first k rounds look like: each stage complete within its wait, without the answer *)
Fixpoint silent_rounds (tmo : Z) (sil : list stage) : Prop :=
  match sil with
  | [] => True
  | s :: r => wf_pend s /\ within (Some tmo) s /\ contains PROBE_ANSWER (cat s) = false /\ silent_rounds 3072%Z r
  end.
Definition last_tmo (tmo : Z) (sil : list stage) : Z := match sil with [] => tmo | _ => 3072%Z end.
Fixpoint waited (tmo : Z) (sil : list stage) : Z :=
  match sil with [] => 0%Z | _ :: r => (tmo + waited 3072%Z r)%Z end.

(* the retry loop: k unanswered rounds, then an answer in time -- wait_for_shell returns at the first occurrence of
   the answer in the (k+1)-th reaction, having sent exactly k+1 probe lines, for EVERY fragmentation and timing *)
Theorem wait_for_shell_retries : forall (sil : list stage) fuel tmo c (st : stage) (sts : list stage) a,
  insync c -> slow c = None -> (0 < tmo)%Z ->
  any_in (blacklist c) (PROBE ++ [CR]) = false ->
  silent_rounds tmo sil -> wf_pend st ->
  find_sub PROBE_ANSWER (cat st) = Some a ->
  a + length PROBE_ANSWER <= ready_before (last_tmo tmo sil) st ->
  length sil < fuel ->
  exists c' data,
    wait_for_shell fuel tmo (sil ++ st :: sts) c = (IOk, c', sts) /\
    quiet c' /\ cat st = data ++ cpend c' /\
    firstn (a + length PROBE_ANSWER) data = firstn a (cat st) ++ PROBE_ANSWER /\
    wr (io c') = wr (io c) ++ concat (repeat (PROBE ++ [CR]) (S (length sil))) /\
    prompt c' = prompt c /\ blacklist c' = blacklist c.
Proof.
  induction sil as [|s r IH]; intros fuel tmo c st sts a Hin Hslow Htmo Hbl Hsil Hst Hf Hr Hfuel.
  - destruct fuel as [|f]; [cbn in Hfuel; lia|]. cbn [app last_tmo length repeat concat] in *.
    destruct Hin as [Hq Hp].
    assert (Hcp : cpend c = []) by (unfold cpend; rewrite Hp; reflexivity).
    destruct (wait_for_shell_answered f tmo c st sts a Hq Hslow Htmo Hst Hbl) as (c' & data & E & Hq' & Dc & Df & W & P & B).
    + rewrite Hcp. exact Hf.
    + rewrite (load_insync_pend c st Hp). cbn [ready]. rewrite ready_before_shift. exact Hr.
    + rewrite Hcp in Dc, Df. cbn [app] in Dc, Df. exists c', data. rewrite app_nil_r. auto 10.
  - destruct fuel as [|f]; [cbn in Hfuel; lia|]. cbn [length] in Hfuel.
    destruct Hsil as (Hws & Hwi & Hno & Hrest).
    destruct (probe_round_timeout f tmo c s (r ++ st :: sts) Hin Hslow Htmo Hws Hbl Hwi Hno)
      as (c2 & E & Hin2 & Hs2 & _ & W2 & P2 & B2).
    cbn [app]. rewrite E.
    assert (Hr' : a + length PROBE_ANSWER <= ready_before (last_tmo 3072%Z r) st).
    { cbn [last_tmo] in Hr. destruct r; exact Hr. }
    destruct (IH f 3072%Z c2 st sts a Hin2 Hs2 ltac:(lia) ltac:(rewrite B2; exact Hbl) Hrest Hst Hf Hr' ltac:(lia))
      as (c' & data & E' & Hq' & Dc & Df & W & P & B).
    exists c', data. split; [exact E'|]. split; [exact Hq'|]. split; [exact Dc|]. split; [exact Df|].
    split; [|split; congruence].
    rewrite W, W2. cbn [length repeat concat]. rewrite <- !app_assoc. reflexivity.
Qed.

(* the whole of _init_shell on a console that is slow to come up: k unanswered probes, then the answer, then every
   later line answered with output that contains the prompt only at its end *)
Theorem init_shell_ok_after_retries (sil : list stage) fuel tmo bl cfg c (st0 st_ps1 : stage) (stgs : list stage) (st_san : stage) a noise1 :
  insync c -> slow c = None -> (0 < tmo)%Z ->
  any_in (blacklist c) (PROBE ++ [CR]) = false ->
  silent_rounds tmo sil -> wf_pend st0 ->
  find_sub PROBE_ANSWER (cat st0) = Some a ->
  a + length PROBE_ANSWER <= ready_before (last_tmo tmo sil) st0 ->
  length sil < fuel ->
  any_in bl (PS1_LINE ++ [CR]) = false ->
  Forall (fun l => any_in bl (l ++ [CR]) = false) cfg ->
  any_in bl (SANITY ++ [CR]) = false ->
  wf_pend st_ps1 -> cat st_ps1 = noise1 ++ TBOT_PROMPT ->
  prompt_only_at_end TBOT_PROMPT (skipn (a + length PROBE_ANSWER) (cat st0) ++ noise1) ->
  Forall2 (fun l stg => wf_pend stg /\ exists noise, cat stg = noise ++ TBOT_PROMPT /\ prompt_only_at_end TBOT_PROMPT noise) cfg stgs ->
  wf_pend st_san -> cat st_san = tty_echo false (SANITY ++ [CR]) ++ onlcr SANITY_ANSWER ++ TBOT_PROMPT ->
  exists c', init_shell fuel tmo bl PS1_LINE cfg (sil ++ st0 :: st_ps1 :: stgs ++ [st_san]) c = (IOk, c', []) /\
             insync c' /\ prompt c' = Some (SLit TBOT_PROMPT) /\ blacklist c' = bl.
Proof.
  intros Hin Hslow Htmo Hb0 Hsil Hw0 Hf Hr Hfuel Hb1 Hbc Hbs Hw1 Hc1 Ho1 Hs Hws Hcs.
  destruct (wait_for_shell_retries sil fuel tmo c st0 (st_ps1 :: stgs ++ [st_san]) a Hin Hslow Htmo Hb0 Hsil Hw0 Hf Hr Hfuel)
    as (c1 & data & E & Hq1 & Dcat & Dfirst & _).
  rewrite init_shell_unfold, E.
  apply (init_after_probe_ok bl cfg c1 (cpend c1) st_ps1 stgs st_san noise1); auto.
  - assert (Hlen : a + length PROBE_ANSWER <= length data).
    { apply (f_equal (@length N)) in Dfirst. rewrite firstn_length, app_length, firstn_length in Dfirst.
      pose proof (find_sub_Some _ _ _ Hf) as (x & y & Ex & Lx). rewrite Ex in Dfirst. rewrite app_length in Dfirst. lia. }
    assert (Sk : skipn (a + length PROBE_ANSWER) (cat st0) = skipn (a + length PROBE_ANSWER) data ++ cpend c1).
    { rewrite Dcat, skipn_app. replace (a + length PROBE_ANSWER - length data) with 0 by lia. reflexivity. }
    rewrite Sk, <- app_assoc in Ho1. exact (poe_suffix _ _ _ Ho1).
  - exact sanity_answer_has_no_prompt.
Qed.

(* the hypotheses can be met: two silent rounds (a boot message, then nothing), then echo + answer + prompt *)
Example retries_applicable :
  let s1 : stage := [(10%Z, [66; 111; 111; 116]%N)] in
  let s2 : stage := [] in
  let st : stage := [(5%Z, PROBE ++ [CR; LF]); (7%Z, PROBE_ANSWER ++ [CR; LF; 36; 32]%N)] in
  silent_rounds 205%Z [s1; s2] /\ wf_pend st /\
  find_sub PROBE_ANSWER (cat st) = Some 17 /\ 17 + length PROBE_ANSWER <= ready_before (last_tmo 205%Z [s1; s2]) st.
Proof.
  cbv zeta. split; [|split; [|split]].
  - cbn [silent_rounds within]. repeat split; try (repeat constructor; cbn; try lia; discriminate); vm_compute; reflexivity.
  - repeat constructor; discriminate.
  - vm_compute. reflexivity.
  - vm_compute. lia.
Qed.
