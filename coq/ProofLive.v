(* ProofLive.v -- liveness under a deadline: read_until_prompt returns the output when the whole answer arrives in time,
   for every fragmentation and timing (the timed counterpart of ProofC02's split independence; the expect counterpart
   is in ProofC04b.v). *)
From TV Require Import Base BaseLemmas Utf8 Regex Channel ChannelLemmas ProofC02 ProofC03 ProofC04 ProofSession ProofC04b.
From Coq Require Import ZifyBool.

Lemma cpend_nonempty c : wfc c -> pend (io c) <> [] -> cpend c <> [].
Proof.
  unfold wfc, wf_pend, cpend, cat. intros Hw Hp. destruct (pend (io c)) as [|[a d] r]; [congruence|].
  inversion Hw as [|? ? Hd _]; subst. cbn in *. destruct d; [congruence | discriminate].
Qed.

Lemma rup_loop_timed_live fuel : forall start tmo buf c S k,
  wfc c -> deaths c = [] -> in_time start tmo c -> pend (io c) <> [] -> buf ++ cpend c = S ->
  only_tail (prompt_split (prompt c)) S k ->
  ready (deadline start tmo) (pend (io c)) = length (cpend c) ->
  tot (pend (io c)) < fuel ->
  exists c', rup_loop fuel start tmo buf c = (Ret (text (firstn k S)), c') /\
             pend (io c') = [] /\ same_cfg c c' /\ deaths c' = [] /\ in_time start tmo c' /\ wfc c' /\
             now (io c') = last_time c.
Proof.
  induction fuel as [|f IH]; intros start tmo buf c S k Hw Hd Ht Hp HS [Hk Hpre] Hr Hfuel; [lia|].
  rewrite rup_loop_step.
  assert (Hpos : 0 < ready (deadline start tmo) (pend (io c))).
  { rewrite Hr. pose proof (cpend_nonempty c Hw Hp). destruct (cpend c); [congruence | cbn; lia]. }
  destruct (iter_step_live start tmo READ_CHUNK_SIZE c chunk_pos Hw Hd Ht Hpos)
    as (new & c1 & Es & N1 & N2 & N3 & N4 & Hw1 & Hd1 & Ht1 & Htot & Hlt).
  rewrite Es.
  destruct (iter_step_spec _ _ _ _ _ _ Es chunk_pos Hw) as (Hcfg & _).
  assert (Hpr : prompt c1 = prompt c) by (destruct Hcfg; assumption).
  rewrite Hpr.
  destruct (pend (io c1)) as [|e rest] eqn:Ep1.
  - assert (E : buf ++ new = S).
    { rewrite <- HS, N2. unfold cpend. rewrite Ep1. unfold cat; simpl. rewrite app_nil_r. reflexivity. }
    rewrite E, Hk. exists c1. repeat (split; [solve [auto]|]). rewrite <- Hlt. unfold last_time. rewrite Ep1. reflexivity.
  - assert (Hp1 : pend (io c1) <> []) by (rewrite Ep1; congruence).
    pose proof (cpend_nonempty c1 Hw1 Hp1) as Hrest.
    assert (E : S = (buf ++ new) ++ cpend c1) by (rewrite <- HS, N2, app_assoc; reflexivity).
    rewrite (Hpre _ _ E Hrest).
    destruct (IH start tmo (buf ++ new) c1 S k) as (c' & R1 & R2 & R3 & R4 & R5 & R6 & R7); auto.
    + rewrite Hpr. split; assumption.
    + rewrite Ep1, N4, Hr, N2, app_length. lia.
    + rewrite Ep1. lia.
    + exists c'. split; [exact R1|]. split; [exact R2|]. split; [eapply same_cfg_trans; eauto|]. rewrite R7, Hlt. auto.
Qed.

(* read_until_prompt(prompt=p, timeout=tmo) *)
Theorem rup_timed_live p tmo c S k :
  wfc c -> deaths c = [] -> match tmo with Some T => (0 < T)%Z | None => True end ->
  cpend c = S -> S <> [] -> only_tail (prompt_split (Some p)) S k ->
  ready (deadline (now (io c)) tmo) (pend (io c)) = length S ->
  exists c', read_until_prompt (Some p) tmo c = (Ret (text (firstn k S)), c') /\
             pend (io c') = [] /\ same_cfg c c' /\ deaths c' = [] /\ wfc c' /\ in_time (now (io c)) tmo c' /\
             now (io c') = last_time c.
Proof.
  intros Hw Hd HT HS Hne Hot Hr. unfold read_until_prompt.
  assert (Hp : pend (io c) <> []).
  { intro X. unfold cpend in HS. rewrite X in HS. unfold cat in HS; simpl in HS. congruence. }
  assert (Ht : in_time (now (io c)) tmo (with_prompt c (Some p))) by (unfold in_time; destruct tmo; cbn; [lia | exact I]).
  assert (Hr' : ready (deadline (now (io c)) tmo) (pend (io (with_prompt c (Some p)))) = length (cpend (with_prompt c (Some p)))).
  { change (cpend (with_prompt c (Some p))) with (cpend c). change (io (with_prompt c (Some p))) with (io c). rewrite Hr, HS. reflexivity. }
  destruct (rup_loop_timed_live (fuel_of c) (now (io c)) tmo [] (with_prompt c (Some p)) S k Hw Hd Ht Hp HS Hot
              Hr' (fuel_of_enough c))
    as (c' & R1 & R2 & R3 & R4 & R5 & R6 & R7).
  rewrite R1. exists (with_prompt c' (prompt c)). cbn.
  split; [reflexivity|]. split; [exact R2|].
  split; [destruct R3 as (A1 & A2 & A3 & A4 & A5 & A6); unfold same_cfg; cbn in *; auto 10|].
  split; [exact R4|]. split; [exact R6|]. split; [unfold in_time in *; destruct tmo; cbn in *; auto | exact R7].
Qed.

(* ================================================================== read(n, timeout) is decided by what arrives in time *)
Lemma ready_zero_or_live start T n c r c' :
  iter_step start (Some T) n c = (r, c') -> 0 < n -> wfc c -> deaths c = [] -> in_time start (Some T) c ->
  match r with
  | STimeout => ready (Some (start + T)%Z) (pend (io c)) = 0 /\ pend (io c') = pend (io c) /\ now (io c') = (start + T)%Z
  | SData new => 0 < ready (Some (start + T)%Z) (pend (io c))
  | _ => False
  end.
Proof.
  intros E Hn Hw Hd Ht.
  assert (Hle : (now (io c) <= start + T)%Z) by (unfold in_time in Ht; lia).
  destruct (iter_step_time _ _ _ _ _ _ E Hn Hle) as (T1 & T2 & T3 & T4).
  destruct (iter_step_deaths_nil _ _ _ _ _ _ E Hd) as (_ & Hnd).
  destruct (iter_step_spec _ _ _ _ _ _ E Hn Hw) as (_ & _ & _ & Hres).
  destruct r as [new| | |e mt]; [|..|exfalso; eapply Hnd; reflexivity]; [| |congruence].
  - exact (proj2 (iter_step_data_pos _ _ _ _ _ _ E Hn Hw)).
  - split; [|split; [exact (proj1 Hres) | apply T2; reflexivity]].
    destruct (ready (Some (start + T)%Z) (pend (io c))) eqn:R; [reflexivity|]. exfalso.
    destruct (iter_step_live start (Some T) n c Hn Hw Hd Ht) as (new & c1 & Es & _).
    { cbn [deadline option_map]. rewrite R. lia. }
    rewrite E in Es. discriminate.
Qed.

Lemma read_iter_timed_total fuel : forall start T mx got acc c,
  wfc c -> deaths c = [] -> got < mx -> tot (pend (io c)) < fuel -> in_time start (Some T) c ->
  let r := ready (Some (start + T)%Z) (pend (io c)) in
  match read_iter_loop fuel start (Some T) (Some mx) got acc c with
  | (chs, Ret _, c') => exists d, concat chs = concat (rev acc) ++ d /\ length d = mx - got /\ cpend c = d ++ cpend c' /\
                                  mx - got <= r /\ wfc c' /\ deaths c' = []
  | (chs, ETimeout, c') => r < mx - got /\ now (io c') = (start + T)%Z /\ cpend c' = skipn r (cpend c) /\ wfc c' /\ deaths c' = []
  | _ => False
  end.
Proof.
  induction fuel as [|f IH]; intros start T mx got acc c Hw Hd Hg Hf Ht; [lia|].
  cbv zeta. rewrite read_iter_loop_step.
  pose proof (maxread_pos mx got Hg) as Hn. pose proof (maxread_le mx got) as Hm.
  destruct (iter_step start (Some T) (maxread_of (Some mx) got) c) as [sr c1] eqn:Es.
  pose proof (ready_zero_or_live _ _ _ _ _ _ Es Hn Hw Hd Ht) as Hz.
  destruct (iter_step_spec _ _ _ _ _ _ Es Hn Hw) as (_ & Hw1 & _ & _).
  destruct (iter_step_deaths_nil _ _ _ _ _ _ Es Hd) as (Hd1 & _).
  destruct sr as [new| | |e mt]; try exact Hz.
  - destruct (iter_step_live start (Some T) (maxread_of (Some mx) got) c Hn Hw Hd Ht Hz)
      as (new' & c1' & Es' & N1 & N2 & N3 & N4 & _ & _ & Ht1 & Htot & _).
    rewrite Es in Es'. injection Es' as <- <-. cbn [deadline option_map] in N3, N4.
    assert (Hlen : length new <= mx - got).
    { destruct (iter_step_spec _ _ _ _ _ _ Es Hn Hw) as (_ & _ & _ & _ & L & _). lia. }
    destruct (Nat.eqb (got + length new) mx) eqn:Eq.
    + apply Nat.eqb_eq in Eq. exists new. cbn [rev]. rewrite concat_app. cbn [concat]. rewrite app_nil_r.
      split; [reflexivity|]. split; [lia|]. split; [exact N2|]. split; [lia | auto].
    + apply Nat.eqb_neq in Eq.
      specialize (IH start T mx (got + length new) (new :: acc) c1 Hw1 Hd1 ltac:(lia) ltac:(lia) Ht1).
      cbv zeta in IH. rewrite N4 in IH.
      destruct (read_iter_loop f start (Some T) (Some mx) (got + length new) (new :: acc) c1) as [[chs [u| | | | | |]] c'] eqn:El; try exact IH.
      * destruct IH as (d & D1 & D2 & D3 & D4 & D5). exists (new ++ d).
        cbn [rev] in D1. rewrite concat_app in D1. cbn [concat] in D1. rewrite app_nil_r, <- app_assoc in D1.
        split; [exact D1|]. split; [rewrite app_length; lia|]. split; [rewrite N2, D3, app_assoc; reflexivity|].
        split; [lia | exact D5].
      * destruct IH as (D1 & D2 & D3 & D4). split; [lia|]. split; [exact D2|]. split; [|exact D4].
        rewrite D3, N2. rewrite skipn_app.
        assert (Q : skipn (ready (Some (start + T)%Z) (pend (io c))) new = []) by (apply skipn_all2; lia).
        rewrite Q. cbn [app skipn]. reflexivity.
  - destruct Hz as (Z1 & Z2 & Z3). split; [rewrite Z1; lia|]. split; [exact Z3|].
    split; [rewrite Z1; unfold cpend; rewrite Z2; reflexivity | auto].
Qed.

(* read(n, timeout=T), n > 0, on a channel without death strings -- for every fragmentation and timing: exactly the
   next n bytes iff n bytes arrive strictly before the deadline; otherwise TimeoutError exactly at the deadline, and
   everything that had arrived by then has been consumed (and is lost to the caller) *)
Theorem read_n_timed_iff n T c :
  wfc c -> deaths c = [] -> 0 < n -> (0 < T)%Z ->
  let r := ready (Some (now (io c) + T)%Z) (pend (io c)) in
  match read (Z.of_nat n) (Some T) c with
  | (Ret d, c') => n <= r /\ d = firstn n (cpend c) /\ cpend c = d ++ cpend c'
  | (ETimeout, c') => r < n /\ now (io c') = (now (io c) + T)%Z /\ cpend c' = skipn r (cpend c)
  | _ => False
  end.
Proof.
  intros Hw Hd Hn HT. cbv zeta. unfold read.
  destruct (Z.of_nat n <? 0)%Z eqn:E; [apply Z.ltb_lt in E; lia|].
  rewrite Nat2Z.id. unfold read_iter.
  assert (Ht : in_time (now (io c)) (Some T) c) by (unfold in_time; lia).
  pose proof (read_iter_timed_total (fuel_of c) (now (io c)) T n 0 [] c Hw Hd Hn (fuel_of_enough c) Ht) as Tot.
  cbv zeta in Tot.
  destruct (read_iter_loop (fuel_of c) (now (io c)) (Some T) (Some n) 0 [] c) as [[chs [u| | | | | |]] c'] eqn:El; cbn [lift_err]; try exact Tot.
  - destruct Tot as (d & D1 & D2 & D3 & D4 & _). cbn [rev concat app] in D1. rewrite D1.
    split; [lia|]. split; [|exact D3]. rewrite D3. replace n with (length d) by lia. rewrite firstn_app_exact. reflexivity.
  - destruct Tot as (D1 & D2 & D3 & _). split; [lia|]. auto.
Qed.

(* ================================================================== expect with a timeout: the state after TimeoutError *)
Lemma expect_loop_timed_state fuel : forall start T pats buf c,
  wfc c -> deaths c = [] -> tot (pend (io c)) < fuel -> in_time start (Some T) c ->
  let r := ready (Some (start + T)%Z) (pend (io c)) in
  match expect_loop fuel start (Some T) pats buf c with
  | (Ret _, _) => True
  | (ETimeout, c') => now (io c') = (start + T)%Z /\ cpend c' = skipn r (cpend c) /\ wfc c' /\ deaths c' = [] /\ same_cfg c c' /\
                      try_patterns 0 pats (buf ++ firstn r (cpend c)) = None \/ try_patterns 0 pats buf <> None
  | _ => False
  end.
Proof.
  induction fuel as [|f IH]; intros start T pats buf c Hw Hd Hf Ht; [lia|].
  cbv zeta. rewrite expect_loop_step.
  destruct (iter_step start (Some T) READ_CHUNK_SIZE c) as [sr c1] eqn:Es.
  pose proof (ready_zero_or_live _ _ _ _ _ _ Es chunk_pos Hw Hd Ht) as Hz.
  destruct (iter_step_spec _ _ _ _ _ _ Es chunk_pos Hw) as (Hcfg & Hw1 & _ & _).
  destruct (iter_step_deaths_nil _ _ _ _ _ _ Es Hd) as (Hd1 & _).
  destruct sr as [new| | |e mt]; try exact Hz.
  - destruct (iter_step_live start (Some T) READ_CHUNK_SIZE c chunk_pos Hw Hd Ht Hz)
      as (new' & c1' & Es' & N1 & N2 & N3 & N4 & _ & _ & Ht1 & Htot & _).
    rewrite Es in Es'. injection Es' as <- <-. cbn [deadline option_map] in N3, N4.
    destruct (try_patterns 0 pats (buf ++ new)) as [r|] eqn:Etp; [exact I|].
    specialize (IH start T pats (buf ++ new) c1 Hw1 Hd1 ltac:(lia) Ht1). cbv zeta in IH. rewrite N4 in IH.
    destruct (expect_loop f start (Some T) pats (buf ++ new) c1) as [[r| | | | | |] c'] eqn:El; try exact IH.
    destruct IH as [(D1 & D2 & D3 & D4 & D5 & D6) | D]; [|congruence].
    left. split; [exact D1|]. split.
    { rewrite D2, N2, skipn_app.
      assert (Q : skipn (ready (Some (start + T)%Z) (pend (io c))) new = []) by (apply skipn_all2; lia).
      rewrite Q. reflexivity. }
    split; [exact D3|]. split; [exact D4|]. split; [eapply same_cfg_trans; eauto|].
    rewrite N2, firstn_app, firstn_all2 by lia. rewrite <- app_assoc in D6. exact D6.
  - destruct Hz as (Z1 & Z2 & Z3).
    destruct (try_patterns 0 pats buf) eqn:Eb; [right; congruence|]. left.
    split; [exact Z3|]. split; [rewrite Z1; unfold cpend; rewrite Z2; reflexivity|]. split; [exact Hw1|]. split; [exact Hd1|].
    split; [exact Hcfg|]. rewrite Z1. cbn [firstn]. rewrite app_nil_r. exact Eb.
Qed.

(* read_until_prompt() with the prompt set on the channel *)
Theorem rup_timed_live_chan tmo c S k :
  wfc c -> deaths c = [] -> match tmo with Some T => (0 < T)%Z | None => True end ->
  cpend c = S -> S <> [] -> only_tail (prompt_split (prompt c)) S k ->
  ready (deadline (now (io c)) tmo) (pend (io c)) = length S ->
  exists c', read_until_prompt None tmo c = (Ret (text (firstn k S)), c') /\
             pend (io c') = [] /\ same_cfg c c' /\ deaths c' = [] /\ wfc c' /\ in_time (now (io c)) tmo c' /\
             now (io c') = last_time c.
Proof.
  intros Hw Hd HT HS Hne Hot Hr. unfold read_until_prompt.
  assert (Hp : pend (io c) <> []).
  { intro X. unfold cpend in HS. rewrite X in HS. unfold cat in HS; simpl in HS. congruence. }
  assert (Ht : in_time (now (io c)) tmo c) by (unfold in_time; destruct tmo; [lia | exact I]).
  assert (Hr' : ready (deadline (now (io c)) tmo) (pend (io c)) = length (cpend c)) by (rewrite Hr, HS; reflexivity).
  destruct (rup_loop_timed_live (fuel_of c) (now (io c)) tmo [] c S k Hw Hd Ht Hp HS Hot Hr' (fuel_of_enough c))
    as (c' & R1 & R2 & R3 & R4 & R5 & R6 & R7).
  exists c'. auto 10.
Qed.
