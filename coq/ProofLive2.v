(* ProofLive2.v -- read_until_prompt() under a timeout when the prompt does NOT show up among the bytes that arrive in
   time: TimeoutError exactly at the deadline, everything that had arrived consumed -- for every fragmentation. *)
From TV Require Import Base BaseLemmas Utf8 Regex Channel ChannelLemmas ProofC02 ProofC03 ProofC04 ProofC06 ProofC04b ProofLive.
Local Open Scope nat_scope.

Lemma rup_loop_step f start tmo buf c :
  rup_loop (S f) start tmo buf c =
  match iter_step start tmo READ_CHUNK_SIZE c with
  | (STimeout, c') => (ETimeout, c')
  | (SBlocked, c') => (EBlocked, c')
  | (SDeath e mt, c') => (EDeath e mt, c')
  | (SData new, c') =>
      match prompt_split (prompt c') (buf ++ new) with
      | Some k => (Ret (text (firstn k (buf ++ new))), c')
      | None => rup_loop f start tmo (buf ++ new) c'
      end
  end.
Proof. reflexivity. Qed.

Lemma rup_loop_timed_out fuel : forall start T buf c P,
  wfc c -> deaths c = [] -> tot (pend (io c)) < fuel -> in_time start (Some T) c ->
  prompt c = Some (SLit P) ->
  contains P (buf ++ firstn (ready (Some (start + T)%Z) (pend (io c))) (cpend c)) = false ->
  exists c', rup_loop fuel start (Some T) buf c = (ETimeout, c') /\
    now (io c') = (start + T)%Z /\
    cpend c' = skipn (ready (Some (start + T)%Z) (pend (io c))) (cpend c) /\
    wfc c' /\ deaths c' = [] /\ same_cfg c c'.
Proof.
  induction fuel as [|f IH]; intros start T buf c P Hw Hd Hf Ht Hp Hno; [lia|].
  rewrite rup_loop_step.
  destruct (iter_step start (Some T) READ_CHUNK_SIZE c) as [sr c1] eqn:Es.
  pose proof (ready_zero_or_live _ _ _ _ _ _ Es chunk_pos Hw Hd Ht) as Hz.
  destruct (iter_step_spec _ _ _ _ _ _ Es chunk_pos Hw) as (Hcfg & Hw1 & _ & _).
  destruct (iter_step_deaths_nil _ _ _ _ _ _ Es Hd) as (Hd1 & _).
  destruct sr as [new| | |e mt]; try contradiction.
  - destruct (iter_step_live start (Some T) READ_CHUNK_SIZE c chunk_pos Hw Hd Ht Hz)
      as (new' & c1' & Es' & N1 & N2 & N3 & N4 & _ & _ & Ht1 & Htot & _).
    rewrite Es in Es'. injection Es' as <- <-. cbn [deadline option_map] in N3, N4.
    assert (Hp1 : prompt c1 = Some (SLit P)) by (destruct Hcfg as (Q & _); congruence).
    assert (Hfirst : firstn (ready (Some (start + T)%Z) (pend (io c))) (cpend c) =
                     new ++ firstn (ready (Some (start + T)%Z) (pend (io c1))) (cpend c1)).
    { rewrite N2, firstn_app, firstn_all2 by lia. rewrite N4. reflexivity. }
    rewrite Hp1. cbn [prompt_split].
    destruct (is_suffix P (buf ++ new)) eqn:Suf.
    { exfalso. apply is_suffix_spec in Suf as (t & Et).
      assert (C : contains P (buf ++ firstn (ready (Some (start + T)%Z) (pend (io c))) (cpend c)) = true).
      { apply contains_spec. exists t, (firstn (ready (Some (start + T)%Z) (pend (io c1))) (cpend c1)).
        rewrite Hfirst, app_assoc, Et, <- app_assoc. reflexivity. }
      congruence. }
    destruct (IH start T (buf ++ new) c1 P Hw1 Hd1 ltac:(lia) Ht1 Hp1) as (c' & E & D1 & D2 & D3 & D4 & D5).
    { rewrite <- app_assoc, <- Hfirst. exact Hno. }
    exists c'. split; [exact E|]. split; [exact D1|]. split.
    { rewrite D2, N2, skipn_app, N4.
      assert (Q : skipn (ready (Some (start + T)%Z) (pend (io c))) new = []) by (apply skipn_all2; lia).
      rewrite Q. reflexivity. }
    split; [exact D3|]. split; [exact D4|]. eapply same_cfg_trans; eauto.
  - destruct Hz as (Z1 & Z2 & Z3). exists c1. split; [reflexivity|]. split; [exact Z3|].
    split; [rewrite Z1; unfold cpend; rewrite Z2; reflexivity|]. auto.
Qed.

(* the public operation with an explicit literal prompt *)
Theorem rup_timed_out P T c :
  wfc c -> deaths c = [] -> (0 < T)%Z ->
  contains P (firstn (ready (Some (now (io c) + T)%Z) (pend (io c))) (cpend c)) = false ->
  exists c', read_until_prompt (Some (SLit P)) (Some T) c = (ETimeout, c') /\
    now (io c') = (now (io c) + T)%Z /\
    cpend c' = skipn (ready (Some (now (io c) + T)%Z) (pend (io c))) (cpend c) /\
    wfc c' /\ deaths c' = [] /\ same_cfg c c'.
Proof.
  intros Hw Hd HT Hno. unfold read_until_prompt.
  set (c0 := with_prompt c (Some (SLit P))).
  assert (A : wfc c0 /\ deaths c0 = [] /\ pend (io c0) = pend (io c) /\ now (io c0) = now (io c) /\ cpend c0 = cpend c)
    by (unfold c0, wfc, cpend; cbn; auto).
  destruct A as (A1 & A2 & A3 & A4 & A5).
  destruct (rup_loop_timed_out (fuel_of c) (now (io c)) T [] c0 P A1 A2) as (c' & E & D1 & D2 & D3 & D4 & D5).
  - unfold fuel_of. rewrite total_pending_tot, A3. lia.
  - unfold in_time. rewrite A4. lia.
  - reflexivity.
  - cbn [app]. rewrite A3, A5. exact Hno.
  - rewrite E. exists (with_prompt c' (prompt c)). split; [reflexivity|].
    destruct D5 as (Q1 & Q2 & Q3 & Q4 & Q5 & Q6).
    split; [exact D1|]. split; [unfold cpend in *; cbn; rewrite D2, A3; reflexivity|].
    split; [exact D3|]. split; [exact D4|]. unfold same_cfg. cbn. auto 10.
Qed.
