(* ProofSession.v -- a command/response exchange over a console returns exactly the output and the status,
   for EVERY fragmentation and timing of the console's reactions. *)
From TV Require Import Base BaseLemmas Utf8 Regex Channel ChannelLemmas ProofC02 ProofC03 Hush Session.
From Coq Require Import ZifyBool ZifyN.

(* a channel in sync with its console: nothing pending, no death strings *)
Definition quiet (c : chan) : Prop := wfc c /\ deaths c = [] /\ slow_ok c.
Definition insync (c : chan) : Prop := quiet c /\ pend (io c) = [].

(* ------------------------------------------------------------------ read(n) succeeds when n bytes are coming *)
Lemma cpend_nil_pend c : wfc c -> cpend c = [] -> pend (io c) = [].
Proof.
  unfold wfc, cpend, cat, wf_pend. destruct (pend (io c)) as [|[t d] r]; [reflexivity|].
  intros Hw H. inversion Hw as [|? ? Hd _]; subst. simpl in *. destruct d; [congruence | discriminate].
Qed.

Lemma read_iter_live fuel : forall start mx got acc c,
  wfc c -> deaths c = [] -> got < mx -> mx - got <= length (cpend c) -> tot (pend (io c)) < fuel ->
  exists chs c', read_iter_loop fuel start None (Some mx) got acc c = (chs, Ret tt, c') /\ deaths c' = [].
Proof.
  induction fuel as [|f IH]; intros start mx got acc c Hw Hd Hg Hl Hf; [lia|].
  rewrite read_iter_loop_step.
  assert (Hp : pend (io c) <> []).
  { intros E. unfold cpend in Hl. rewrite E in Hl. unfold cat in Hl. simpl in Hl. lia. }
  pose proof (maxread_pos mx got Hg) as Hn.
  destruct (iter_step_none_data start (maxread_of (Some mx) got) c Hn Hw Hp Hd) as (new & c1 & Es).
  rewrite Es.
  destruct (iter_step_spec _ _ _ _ _ _ Es Hn Hw) as (_ & Hw1 & _ & Hne & Hlen & Hcat & Htot).
  destruct (iter_step_deaths_nil _ _ _ _ _ _ Es Hd) as (Hd1 & _).
  pose proof (maxread_le mx got) as Hm.
  destruct (Nat.eqb (got + length new) mx) eqn:Eq.
  - eauto.
  - apply Nat.eqb_neq in Eq. apply IH; auto; try lia.
    rewrite Hcat, app_length in Hl. lia.
Qed.

Lemma read_n_live n c :
  wfc c -> deaths c = [] -> 0 < n -> n <= length (cpend c) ->
  exists d c', read (Z.of_nat n) None c = (Ret d, c') /\ deaths c' = [].
Proof.
  intros Hw Hd Hn Hl. unfold read.
  destruct (Z.of_nat n <? 0)%Z eqn:E; [apply Z.ltb_lt in E; lia|].
  rewrite Nat2Z.id. unfold read_iter.
  destruct (read_iter_live (fuel_of c) (now (io c)) n 0 [] c Hw Hd Hn ltac:(lia) (fuel_of_enough c))
    as (chs & c' & R & Hd').
  rewrite R. eauto.
Qed.

(* ------------------------------------------------------------------ send with read-back *)
Lemma send_loop_cons_rb f start x s c :
  send_loop (S f) start (x :: s) true None c =
  match write (firstn SEND_SLICE (x :: s)) false c with
  | (Ret _, c1) =>
      match read (Z.of_nat (readback_len (firstn SEND_SLICE (x :: s)))) None c1 with
      | (Ret _, c2) => send_loop f start (skipn SEND_SLICE (x :: s)) true None c2
      | (e, c2) => (lift_err e, c2)
      end
  | (e, c1) => (e, c1)
  end.
Proof. reflexivity. Qed.

Lemma readback_len_app a b : readback_len (a ++ b) = readback_len a + readback_len b.
Proof.
  unfold readback_len. rewrite app_length.
  assert (C : forall x, count_N x (a ++ b) = count_N x a + count_N x b).
  { intros x. induction a as [|y a IH]; simpl; [reflexivity|]. rewrite IH. lia. }
  rewrite !C. lia.
Qed.

Lemma readback_len_ge a : length a <= readback_len a.
Proof. unfold readback_len. lia. Qed.

Lemma same_cfg_slow c c' : same_cfg c c' -> slow_ok c -> slow_ok c'.
Proof. intros (_ & _ & S & _) H. unfold slow_ok in *. rewrite S. exact H. Qed.

(* whatever the partial-write behaviour and the fragmentation of the echo: the payload reaches the console
   completely, exactly its echo is consumed, nothing beyond *)
Lemma send_rb_exact fuel : forall start s c E R,
  quiet c -> any_in (blacklist c) s = false ->
  cpend c = E ++ R -> length E = readback_len s -> length s < fuel ->
  exists c', send_loop fuel start s true None c = (Ret tt, c') /\
    wr (io c') = wr (io c) ++ s /\ cpend c' = R /\ quiet c' /\
    prompt c' = prompt c /\ blacklist c' = blacklist c.
Proof.
  induction fuel as [|f IH]; intros start s c E R (Hw & Hd & Hs) Hbl Hc HE Hf; [lia|].
  destruct s as [|x s0].
  { exists c. cbn [send_loop]. unfold readback_len in HE. simpl in HE. destruct E; [|discriminate].
    simpl in Hc. rewrite app_nil_r. unfold quiet. auto 10. }
  rewrite send_loop_cons_rb.
  remember (x :: s0) as s eqn:Es.
  assert (Hls : length s = S (length s0)) by (subst s; reflexivity).
  pose proof slice_pos as Hsl.
  remember (firstn SEND_SLICE s) as chunk eqn:Echunk.
  assert (Hsplit : s = chunk ++ skipn SEND_SLICE s) by (subst chunk; symmetry; apply firstn_skipn).
  assert (Hchunk_ne : 0 < length chunk).
  { subst chunk. rewrite firstn_length. lia. }
  assert (Hbl2 : any_in (blacklist c) chunk = false /\ any_in (blacklist c) (skipn SEND_SLICE s) = false).
  { rewrite Hsplit, any_in_app in Hbl. apply orb_false_iff in Hbl. exact Hbl. }
  destruct Hbl2 as [Hb1 Hb2].
  destruct (write chunk false c) as [r1 c1] eqn:Ew.
  destruct (write_complete _ _ _ _ _ Hs Ew) as [(-> & W2 & W3 & _) | (_ & _ & _ & W4)]; [|congruence].
  destruct W3 as (P1 & P2 & P3 & P4 & P5 & P6 & P7).
  assert (Hw1 : wfc c1) by (unfold wfc; rewrite P1; exact Hw).
  assert (Hd1 : deaths c1 = []) by congruence.
  assert (Hc1 : cpend c1 = E ++ R) by (unfold cpend; rewrite P1; exact Hc).
  assert (Hrl : readback_len s = readback_len chunk + readback_len (skipn SEND_SLICE s)).
  { rewrite Hsplit at 1. apply readback_len_app. }
  pose proof (readback_len_ge chunk) as Hge.
  assert (Hpos : 0 < readback_len chunk) by lia.
  assert (Hav : readback_len chunk <= length (cpend c1)) by (rewrite Hc1, app_length; lia).
  destruct (read_n_live (readback_len chunk) c1 Hw1 Hd1 Hpos Hav) as (d & c2 & Er & Hd2).
  rewrite Er.
  destruct (read_n_exact _ _ _ _ _ Hw1 Hpos Er) as (Ld & Cd & Scfg & Hw2).
  (* the echo of this slice is a prefix of E *)
  rewrite Hc1 in Cd.
  assert (LdE : length d <= length E) by lia.
  destruct (app_split_len d (cpend c2) E R (eq_sym Cd) LdE) as (E' & EE & Ec2).
  assert (Hs2 : slow_ok c2).
  { apply (same_cfg_slow c1 c2 Scfg). unfold slow_ok. rewrite P6. exact Hs. }
  destruct Scfg as (S1 & S2 & S3 & S4 & S5 & S6).
  destruct (IH start (skipn SEND_SLICE s) c2 E' R) as (c' & R1 & R2 & R3 & R4 & R5 & R6).
  - unfold quiet. auto.
  - rewrite S2, P5. exact Hb2.
  - exact Ec2.
  - rewrite EE, app_length in HE. lia.
  - rewrite skipn_length. lia.
  - exists c'. split; [exact R1|]. split; [rewrite R2, S6, W2, <- app_assoc, <- Hsplit; reflexivity|].
    split; [exact R3|]. split; [exact R4|]. split; congruence.
Qed.

(* ------------------------------------------------------------------ one exchange: a line, its echo, the answer *)
Lemma load_spec st c :
  insync c -> wf_pend st ->
  cpend (load st c) = cat st /\ quiet (load st c) /\ wr (io (load st c)) = wr (io c) /\
  prompt (load st c) = prompt c /\ blacklist (load st c) = blacklist c.
Proof.
  intros [(Hw & Hd & Hs) Hp] Hst. unfold load, cpend, quiet, wfc, slow_ok. cbn. rewrite Hp. cbn [app].
  assert (M : map snd (map (fun e : Z * list N => ((now (io c) + fst e)%Z, snd e)) st) = map snd st).
  { rewrite map_map. reflexivity. }
  split; [unfold cat; rewrite M; reflexivity|].
  split; [|auto].
  split; [|auto].
  unfold wf_pend in *. rewrite Forall_map. eapply Forall_impl; [|exact Hst]. intros e He. exact He.
Qed.

Lemma any_in_firstn bl n s : any_in bl s = false -> any_in bl (firstn n s) = false.
Proof.
  intros H. rewrite <- (firstn_skipn n s), any_in_app in H. apply orb_false_iff in H. tauto.
Qed.

Lemma pend_of_cpend c : cpend c <> [] -> pend (io c) <> [].
Proof. intros H E. apply H. unfold cpend. rewrite E. reflexivity. Qed.

Lemma exchange line popt pr c st echo rest k :
  insync c -> wf_pend st -> any_in (blacklist c) (line ++ [CR]) = false ->
  cat st = echo ++ rest -> length echo = readback_len (line ++ [CR]) -> rest <> [] ->
  only_tail (prompt_split (Some (SLit pr))) rest k ->
  ((popt = None /\ prompt c = Some (SLit pr)) \/ popt = Some (SLit pr)) ->
  exists c2 c3,
    sendline line true None (load st c) = (Ret tt, c2) /\
    read_until_prompt popt None c2 = (Ret (text (firstn k rest)), c3) /\
    insync c3 /\ wr (io c3) = wr (io c) ++ line ++ [CR] /\ prompt c3 = prompt c /\ blacklist c3 = blacklist c.
Proof.
  intros Hin Hst Hbl Hcat Hecho Hrest Hot Hpr.
  destruct (load_spec st c Hin Hst) as (L1 & L2 & L3 & L4 & L5).
  unfold sendline, send. rewrite L5, Hbl.
  assert (A1 : any_in (blacklist (load st c)) (line ++ [CR]) = false) by (rewrite L5; exact Hbl).
  assert (A2 : cpend (load st c) = echo ++ rest) by (rewrite L1; exact Hcat).
  destruct (send_rb_exact (S (length (line ++ [CR]))) (now (io (load st c))) (line ++ [CR]) (load st c) echo rest
              L2 A1 A2 Hecho (Nat.lt_succ_diag_r _))
    as (c2 & S1 & S2 & S3 & (Hw2 & Hd2 & Hs2) & S5 & S6).
  exists c2. rewrite S1.
  assert (Hp2 : pend (io c2) <> []) by (apply pend_of_cpend; rewrite S3; exact Hrest).
  destruct Hpr as [[-> Hprompt] | ->].
  - unfold read_until_prompt.
    destruct (rup_loop_split_independent (fuel_of c2) (now (io c2)) [] c2 rest k Hw2 Hd2 Hp2 S3)
      as (c3 & R1 & R2 & R3 & R4).
    { rewrite S5, L4, Hprompt. exact Hot. }
    { apply fuel_of_enough. }
    exists c3. split; [reflexivity|]. split; [exact R1|].
    destruct R3 as (Q1 & Q2 & Q3 & Q4 & Q5 & Q6).
    split.
    { split; [|exact R2]. split; [unfold wfc; rewrite R2; constructor|]. split; [exact R4|].
      unfold slow_ok in *. rewrite Q3. exact Hs2. }
    split; [rewrite Q6, S2, L3; reflexivity|]. split; congruence.
  - unfold read_until_prompt.
    destruct (rup_loop_split_independent (fuel_of c2) (now (io c2)) [] (with_prompt c2 (Some (SLit pr))) rest k
                Hw2 Hd2 Hp2 S3 Hot (fuel_of_enough c2)) as (c3 & R1 & R2 & R3 & R4).
    rewrite R1. exists (with_prompt c3 (prompt c2)). split; [reflexivity|]. split; [reflexivity|].
    destruct R3 as (Q1 & Q2 & Q3 & Q4 & Q5 & Q6). cbn in Q1, Q2, Q3, Q4, Q5, Q6.
    split.
    { split; [|exact R2]. split; [unfold wfc; cbn; rewrite R2; constructor|]. split; [exact R4|].
      unfold slow_ok in *. cbn. rewrite Q3. exact Hs2. }
    cbn. split; [rewrite Q6, S2, L3; reflexivity|]. split; congruence.
Qed.

(* ------------------------------------------------------------------ exec *)
(* the prompt occurs in the console's answer only as its tail *)
Definition prompt_only_at_end (P out : list N) : Prop :=
  forall b c, out ++ P = b ++ c -> c <> [] -> is_suffix P b = false.

Theorem exec_exact_general cmd ovr P c st1 st2 sts echo1 rest1 k1 echo2 sttxt status :
  insync c -> prompt c = Some (SLit P) -> P <> [] ->
  any_in (blacklist c) (cmd ++ [CR]) = false -> any_in (blacklist c) (ECHO_Q ++ [CR]) = false ->
  wf_pend st1 -> cat st1 = echo1 ++ rest1 -> length echo1 = readback_len (cmd ++ [CR]) -> rest1 <> [] ->
  only_tail (prompt_split (Some (SLit (match ovr with Some o => o | None => P end)))) rest1 k1 ->
  wf_pend st2 -> cat st2 = echo2 ++ sttxt ++ P -> length echo2 = readback_len (ECHO_Q ++ [CR]) ->
  prompt_only_at_end P sttxt ->
  py_int (text sttxt) = Some status ->
  exists c',
    exec_model cmd ovr (st1 :: st2 :: sts) c = (XOk status (post_out ovr (text (firstn k1 rest1))), c', sts) /\
    insync c' /\ wr (io c') = wr (io c) ++ (cmd ++ [CR]) ++ (ECHO_Q ++ [CR]) /\ prompt c' = prompt c /\
    blacklist c' = blacklist c.
Proof.
  intros Hin Hpr HP Hb1 Hb2 Hw1 Hc1 He1 Hr1 Hot1 Hw2 Hc2 He2 Hp2 Hst.
  unfold exec_model. rewrite Hb1. cbn [hd_stage tl].
  destruct (exchange cmd (option_map SLit ovr) (match ovr with Some o => o | None => P end) c st1 echo1 rest1 k1
              Hin Hw1 Hb1 Hc1 He1 Hr1 Hot1) as (c2 & c3 & X1 & X2 & Hin3 & Wr3 & Pr3 & Bl3).
  { destruct ovr; [right; reflexivity | left; auto]. }
  rewrite X1, X2.
  assert (Hr2 : sttxt ++ P <> []) by (destruct sttxt; [exact HP | discriminate]).
  assert (B1 : any_in (blacklist c3) (ECHO_Q ++ [CR]) = false) by (rewrite Bl3; exact Hb2).
  assert (B2 : only_tail (prompt_split (Some (SLit P))) (sttxt ++ P) (length sttxt)) by (apply only_tail_literal; assumption).
  assert (B3 : (@None sstr = None /\ prompt c3 = Some (SLit P)) \/ @None sstr = Some (SLit P)) by (left; split; [reflexivity | congruence]).
  destruct (exchange ECHO_Q None P c3 st2 echo2 (sttxt ++ P) (length sttxt) Hin3 Hw2 B1 Hc2 He2 Hr2 B2 B3)
    as (c5 & c6 & Y1 & Y2 & Hin6 & Wr6 & Pr6 & Bl6).
  rewrite Y1, Y2, firstn_app_exact, Hst.
  exists c6. split; [reflexivity|]. split; [exact Hin6|].
  split; [rewrite Wr6, Wr3, <- !app_assoc; reflexivity|]. split; congruence.
Qed.

(* the ordinary case: exactly the console output between the echoed command and the next prompt, and the status *)
Theorem exec_exact cmd P c st1 st2 sts echo1 out echo2 sttxt status :
  insync c -> prompt c = Some (SLit P) -> P <> [] ->
  any_in (blacklist c) (cmd ++ [CR]) = false -> any_in (blacklist c) (ECHO_Q ++ [CR]) = false ->
  wf_pend st1 -> cat st1 = echo1 ++ out ++ P -> length echo1 = readback_len (cmd ++ [CR]) ->
  prompt_only_at_end P out ->
  wf_pend st2 -> cat st2 = echo2 ++ sttxt ++ P -> length echo2 = readback_len (ECHO_Q ++ [CR]) ->
  prompt_only_at_end P sttxt ->
  py_int (text sttxt) = Some status ->
  exists c',
    exec_model cmd None (st1 :: st2 :: sts) c = (XOk status (text out), c', sts) /\
    insync c' /\ wr (io c') = wr (io c) ++ (cmd ++ [CR]) ++ (ECHO_Q ++ [CR]) /\ prompt c' = prompt c /\
    blacklist c' = blacklist c.
Proof.
  intros Hin Hpr HP Hb1 Hb2 Hw1 Hc1 He1 Ho1 Hw2 Hc2 He2 Ho2 Hst.
  assert (Hr1 : out ++ P <> []) by (destruct out; [exact HP | discriminate]).
  assert (C1 : only_tail (prompt_split (Some (SLit P))) (out ++ P) (length out)) by (apply only_tail_literal; assumption).
  destruct (exec_exact_general cmd None P c st1 st2 sts echo1 (out ++ P) (length out) echo2 sttxt status
              Hin Hpr HP Hb1 Hb2 Hw1 Hc1 He1 Hr1 C1 Hw2 Hc2 He2 Ho2 Hst) as (c' & E & R).
  exists c'. rewrite firstn_app_exact in E. cbn [post_out] in E. auto.
Qed.

(* ------------------------------------------------------------------ text of simple lines *)
Local Open Scope N_scope.
Definition ascii_noeol (l : list N) : Prop := Forall (fun b => b < 128 /\ b <> CR /\ b <> LF) l.

Lemma utf8_dec_cons_ascii a l : a < 128 -> utf8_dec (a :: l) = a :: utf8_dec l.
Proof. intros H. unfold utf8_dec. cbn [length utf8_dec_fuel]. destruct (N.ltb_spec a 128); [reflexivity | lia]. Qed.

Lemma utf8_dec_app_ascii l r : Forall (fun b => b < 128) l -> utf8_dec (l ++ r) = l ++ utf8_dec r.
Proof.
  induction 1 as [|a l Ha _ IH]; [reflexivity|]. cbn [app]. rewrite utf8_dec_cons_ascii by exact Ha. rewrite IH. reflexivity.
Qed.

Lemma utf8_dec_ascii l : Forall (fun b => b < 128) l -> utf8_dec l = l.
Proof. intros H. rewrite <- (app_nil_r l) at 1. rewrite utf8_dec_app_ascii by exact H. cbn. apply app_nil_r. Qed.

Lemma replace2_cons_no a b r x l : x <> a -> replace2 a b r (x :: l) = x :: replace2 a b r l.
Proof.
  intros Hx. destruct l as [|y u]; [reflexivity|].
  change (replace2 a b r (x :: y :: u)) with (if N.eqb x a && N.eqb y b then r :: replace2 a b r u else x :: replace2 a b r (y :: u)).
  rewrite (proj2 (N.eqb_neq x a) Hx). reflexivity.
Qed.

Lemma replace2_app_no a b r l t : Forall (fun x => x <> a) l -> replace2 a b r (l ++ t) = l ++ replace2 a b r t.
Proof.
  induction 1 as [|x l Hx _ IH]; [reflexivity|]. cbn [app]. rewrite replace2_cons_no by exact Hx. rewrite IH. reflexivity.
Qed.

Lemma ascii_noeol_parts l :
  ascii_noeol l -> Forall (fun b => b < 128) l /\ Forall (fun x => x <> CR) l /\ Forall (fun x => x <> LF) l.
Proof. intros H. repeat split; (eapply Forall_impl; [|exact H]); cbn; intros a (A & B & C); assumption. Qed.

Lemma text_line l : ascii_noeol l -> text (l ++ [CR; LF]) = l ++ [LF].
Proof.
  intros H. destruct (ascii_noeol_parts l H) as (A & B & C). unfold text, norm.
  rewrite utf8_dec_app_ascii by exact A. change (utf8_dec [CR; LF]) with [CR; LF].
  rewrite (replace2_app_no CR LF LF l [CR; LF] B). change (replace2 CR LF LF [CR; LF]) with [LF].
  rewrite (replace2_app_no LF CR LF l [LF] C). reflexivity.
Qed.

Lemma text_line_cr l : ascii_noeol l -> text (l ++ [CR]) = l ++ [CR].
Proof.
  intros H. destruct (ascii_noeol_parts l H) as (A & B & C). unfold text, norm.
  rewrite utf8_dec_app_ascii by exact A. change (utf8_dec [CR]) with [CR].
  rewrite (replace2_app_no CR LF LF l [CR] B). change (replace2 CR LF LF [CR]) with [CR].
  rewrite (replace2_app_no LF CR LF l [CR] C). reflexivity.
Qed.

Lemma text_plain l : ascii_noeol l -> text l = l.
Proof.
  intros H. destruct (ascii_noeol_parts l H) as (A & B & C). unfold text, norm.
  rewrite utf8_dec_ascii by exact A.
  rewrite <- (app_nil_r l) at 1. rewrite (replace2_app_no CR LF LF l [] B). cbn [replace2]. rewrite app_nil_r.
  rewrite <- (app_nil_r l) at 1. rewrite (replace2_app_no LF CR LF l [] C). cbn [replace2]. apply app_nil_r.
Qed.

(* ------------------------------------------------------------------ int() of a status line *)
Definition all_digits (ds : list N) : Prop := Forall (fun d => is_digit d = true) ds.
Definition dec_val (ds : list N) : Z := fold_left (fun acc d => (acc * 10 + Z.of_N (d - 48))%Z) ds 0%Z.

Lemma digits_all ds : forall acc b, all_digits ds -> (ds <> [] \/ b = true) ->
  digits ds acc b = Some (fold_left (fun acc d => (acc * 10 + Z.of_N (d - 48))%Z) ds acc).
Proof.
  induction ds as [|d ds IH]; intros acc b H Hne.
  - destruct Hne as [Hne | ->]; [congruence | reflexivity].
  - inversion H as [|? ? Hd Hds]; subst. cbn [digits fold_left]. rewrite Hd. apply IH; auto.
Qed.

Lemma digit_not_space d : is_digit d = true -> is_space d = false.
Proof. unfold is_digit, is_space. lia. Qed.

Lemma digit_not_sign d : is_digit d = true -> d <> 45 /\ d <> 43.
Proof. unfold is_digit. lia. Qed.

Lemma py_int_status ds : all_digits ds -> ds <> [] -> py_int (ds ++ [LF]) = Some (dec_val ds).
Proof.
  intros H Hne. unfold py_int.
  assert (S : strip_sp (ds ++ [LF]) = ds).
  { unfold strip_sp.
    assert (L1 : lstrip_sp (ds ++ [LF]) = ds ++ [LF]).
    { destruct ds as [|d0 ds0]; [congruence|]. inversion H as [|? ? Hd0 _]; subst.
      cbn [app lstrip_sp]. rewrite (digit_not_space d0 Hd0). reflexivity. }
    rewrite L1, rev_app_distr. cbn [rev app].
    assert (L2 : lstrip_sp (LF :: rev ds) = rev ds).
    { cbn [lstrip_sp]. change (is_space LF) with true. cbv iota.
      destruct (rev ds) as [|x xs] eqn:Er; [reflexivity|].
      assert (Hx : is_digit x = true).
      { assert (Hin : In x (rev ds)) by (rewrite Er; left; reflexivity).
        apply in_rev in Hin. unfold all_digits in H. rewrite Forall_forall in H. apply H. exact Hin. }
      cbn [lstrip_sp]. rewrite (digit_not_space x Hx). reflexivity. }
    rewrite L2. apply rev_involutive. }
  rewrite S. destruct ds as [|d0 ds0]; [congruence|].
  inversion H as [|? ? Hd0 _]; subst. destruct (digit_not_sign d0 Hd0) as [N1 N2].
  destruct (N.eqb_spec d0 45) as [->|_]; [congruence|].
  destruct (N.eqb_spec d0 43) as [->|_]; [congruence|].
  assert (G : digits (d0 :: ds0) 0%Z false = Some (dec_val (d0 :: ds0))).
  { apply digits_all; [exact H | left; discriminate]. }
  destruct d0 as [|p]; [exact G|].
  destruct p as [p|p|]; try exact G; destruct p as [p|p|]; try exact G; destruct p as [p|p|]; try exact G;
  destruct p as [p|p|]; try exact G; destruct p as [p|p|]; try exact G; destruct p as [p|p|]; try exact G; try congruence.
Qed.
