(* Proxy.v -- LinuxShell.run() and util.RunCommandProxy: an interactive command on a borrowed copy of the
   machine's channel, the shell prompt registered as a death string while it runs, terminate()/terminate0().
   Hand-written from tbot/machine/linux/{bash,ash,util}.py; tied to /repo by correspondence (props/C10.py runs the
   real Bash/Ash run() over the staged scripted console). *)
From TV Require Import Base Utf8 Regex Channel ChannelCorr Hush Session Sh.

Definition CE : Z := 99.              (* the id of the dynamically created CommandEndedException *)

Inductive pst : Type := PRunning | PEnded | PTerminated.

Record proxy : Type := mkP {
  pc : chan;                          (* the proxy's copy of the channel (shares the transport) *)
  st : pst;
  alive : bool;                       (* _proxy_alive *)
  early : bool;                       (* the death-string exception was constructed *)
  gdone : bool                        (* the generator of cmd_context has finished (terminate was attempted) *)
}.

(* will this operation put bytes on the wire? *)
Definition writes (o : op) (c : chan) : bool :=
  match o with
  | OWrite b => negb (list_N_eqb b []) && negb (any_in (blacklist c) b)
  | OSend isstr b _ _ => let s := payload isstr b in negb (list_N_eqb s []) && negb (any_in (blacklist c) s)
  | OSendline isstr b _ _ => negb (any_in (blacklist c) (payload isstr b ++ [CR]))
  | OSendctl ch => (64 <=? ch)%N && (ch <=? 95)%N
  | _ => false
  end.

Definition died (v : V) : bool :=
  match v with
  | VL [VN 4; VN e; _] => Z.eqb e CE
  | VL [VN 8; _; VL [VN 4; VN e; _]] => Z.eqb e CE
  | _ => false
  end.

Definition V_CE : V := VL [VN 10].

(* run(): borrow, send the command line, register the prompt as death string *)
Definition run_start (cmd : list N) (sts : list stage) (parent : chan) : V * proxy :=
  if any_in (blacklist parent) (cmd ++ [CR]) then (VL [VN 5], mkP parent PTerminated false false true)
  else
    let c1 := load (hd_stage sts) parent in
    match sendline cmd true None c1 with
    | (Ret _, c2) =>
        match prompt c2 with
        | Some p => (VL [VN 0], mkP (push_death p CE c2) PRunning true false false)
        | None => (VL [VN 6], mkP c2 PTerminated false false true)
        end
    | (e, c2) => (V_err V_unit e, mkP c2 PTerminated false false true)
    end.

(* one operation of the test on the proxy; sts: the console's reaction to the line the operation sends (if any) *)
Definition proxy_io (o : op) (sts : list stage) (p : proxy) : V * proxy :=
  match st p with
  | PRunning =>
      let c0 := if writes o (pc p) then load (hd_stage sts) (pc p) else pc p in
      let (v, c1) := run_op o c0 in
      if died v then (V_CE, mkP c1 PEnded (alive p) true (gdone p))
      else (v, mkP c1 PRunning (alive p) (early p) (gdone p))
  | _ => (V_CE, p)                    (* CommandEndedChannel: every I/O raises, nothing reaches the transport *)
  end.

Inductive tres : Type :=
| TOk (status : Z) (out : list N)
| TFailure                            (* terminate0: CommandFailure *)
| TBad (s : list N)                   (* InvalidRetcodeError *)
| TAssert                             (* terminating twice *)
| TBroken                             (* terminate after a terminate that failed: the generator is exhausted *)
| TErr (e : res unit).

Definition V_tres (r : tres) : V :=
  match r with
  | TOk s o => VL [VN 0; VN s; VB o]
  | TFailure => VL [VN 1]
  | TBad s => VL [VN 3; VB s]
  | TAssert => VL [VN 6]
  | TBroken => VL [VN 97]
  | TErr e => VL [VN 2; V_res_unit e]
  end.

Definition terminate (zero : bool) (sts : list stage) (p : proxy) : tres * proxy :=
  if negb (alive p) then (TAssert, p)
  else if gdone p then (TBroken, mkP (pc p) PRunning true (early p) true)
  else
    (* a failing terminate leaves the proxy alive with the real transport restored *)
    let c1 := pop (pc p) in                                  (* leaving with_death_string *)
    let fetch (out : list N) (c2 : chan) : tres * proxy :=
      let c3 := load (hd_stage sts) c2 in
      match sendline ECHO_Q true None c3 with
      | (Ret _, c4) =>
          match read_until_prompt None None c4 with
          | (Ret rs, c5) =>
              match py_int rs with
              | Some n => (if zero && negb (n =? 0)%Z then TFailure else TOk n out, mkP c5 PTerminated false (early p) true)
              | None => (TBad rs, mkP c5 PRunning true (early p) true)
              end
          | (e, c5) => (TErr (lift_err e), mkP c5 PRunning true (early p) true)
          end
      | (e, c4) => (TErr e, mkP c4 PRunning true (early p) true)
      end in
    if early p then fetch [] c1
    else
      match read_until_prompt None None c1 with
      | (Ret out, c2) => fetch out c2
      | (e, c2) => (TErr (lift_err e), mkP c2 PRunning true (early p) true)
      end.

(* leaving the context without an exception in the body: _assert_end *)
Definition leave (p : proxy) : V := if alive p then VL [VN 11] else VL [VN 0].

(* the parent channel afterwards: its own configuration, the transport as the proxy left it *)
Definition after (parent : chan) (p : proxy) : chan := with_io parent (io (pc p)).

(* ------------------------------------------------------------------ scripts *)
Inductive pstep : Type :=
| PIo (o : op) (sts : list stage)
| PTerm (zero : bool) (sts : list stage).

Fixpoint run_script (ss : list pstep) (p : proxy) (acc : list V) : list V * proxy :=
  match ss with
  | [] => (rev acc, p)
  | PIo o sts :: ss' => let (v, p') := proxy_io o sts p in run_script ss' p' (v :: acc)
  | PTerm z sts :: ss' => let (r, p') := terminate z sts p in run_script ss' p' (V_tres r :: acc)
  end.

(* case: ash?, partial-write oracle, command arguments, reactions, the script inside the context, does the
   body raise at its end?, operations tried on the proxy after the context, and a final exec on the machine *)
Definition proxy_model
  (case : bool * list nat * list (list N) * list stage * list pstep * bool * list pstep * option (list (list N) * list stage)) : V :=
  match case with
  | (ash, acc, args, sts, script, boom, post, final) =>
      let parent := lx_chan ash acc in
      let (v0, p0) := run_start (utf8_enc (sh_escape args)) sts parent in
      match st p0 with
      | PRunning =>
          let (vs, p1) := run_script script p0 [] in
          let vleave := if boom then VL [VN 12] else leave p1 in
          let (vpost, p2) := run_script post p1 [] in
          let parent' := after parent p2 in
          match final with
          | Some (fargs, fsts) =>
              let '(r, c', _) := lx_exec fargs fsts parent' in
              VL [v0; VL vs; vleave; VL vpost; V_xres r; VB (wr (io c')); VB (unread c')]
          | None => VL [v0; VL vs; vleave; VL vpost; VL []; VB (wr (io parent')); VB (unread parent')]
          end
      | _ => VL [v0]
      end
  end.
