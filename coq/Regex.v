(* Regex.v -- the fragment of Python's `re` (bytes patterns) that tbot's search strings are
   exercised with: literals, classes, dot, concatenation, alternation, bounded greedy repetition.
   Three layers:  lang (declarative), m (leftmost-first backtracking matcher, continuation style,
   mirrors sre's exploration order), search/search_end built on m. *)
From TV Require Import Base.

Inductive re : Type :=
| REps
| RChr (c : N)
| RCls (neg : bool) (ranges : list (N * N))
| RAny                              (* `.` without DOTALL: anything but LF *)
| RSeq (a b : re)
| RAlt (a b : re)
| RRep (r : re) (lo hi : nat).      (* greedy r{lo,hi}, hi finite *)

Fixpoint in_ranges (c : N) (rs : list (N * N)) : bool :=
  match rs with
  | [] => false
  | (lo, hi) :: rs' => ((lo <=? c)%N && (c <=? hi)%N) || in_ranges c rs'
  end.

Definition cls_ok (neg : bool) (rs : list (N * N)) (c : N) : bool :=
  if neg then negb (in_ranges c rs) else in_ranges c rs.

(* bounded greedy repetition of a body matcher mr: try one more iteration first (it must consume
   something), fall back to the continuation when at least lo iterations have been made *)
Fixpoint rep_with (mr : list N -> (list N -> option (list N)) -> option (list N))
         (k : list N -> option (list N)) (lo hi : nat) (s : list N) {struct hi} : option (list N) :=
  match hi with
  | O => match lo with O => k s | S _ => None end
  | S hi' =>
      match mr s (fun s' => if Nat.ltb (length s') (length s)
                            then rep_with mr k (Nat.pred lo) hi' s' else None) with
      | Some x => Some x
      | None => match lo with O => k s | S _ => None end
      end
  end.

(* m r s k : try to match r at the front of s, then hand the rest to k; first success wins *)
Fixpoint m (r : re) (s : list N) (k : list N -> option (list N)) {struct r} : option (list N) :=
  match r with
  | REps => k s
  | RChr c => match s with x :: s' => if N.eqb x c then k s' else None | [] => None end
  | RCls neg rs => match s with x :: s' => if cls_ok neg rs x then k s' else None | [] => None end
  | RAny => match s with x :: s' => if N.eqb x LF then None else k s' | [] => None end
  | RSeq a b => m a s (fun s' => m b s' k)
  | RAlt a b => match m a s k with Some x => Some x | None => m b s k end
  | RRep r' lo hi => rep_with (m r') k lo hi s
  end.

Definition k_any (s : list N) : option (list N) := Some s.
Definition k_end (s : list N) : option (list N) := match s with [] => Some [] | _ => None end.
(* Python's `$` (no MULTILINE): at the very end, or just before a final LF *)
Definition k_dollar (s : list N) : option (list N) :=
  match s with [] => Some [] | [c] => if N.eqb c LF then Some [c] else None | _ => None end.

(* leftmost match with continuation k: returns (start, stop) *)
Fixpoint search_k (r : re) (k : list N -> option (list N)) (s : list N) (start : nat) : option (nat * nat) :=
  match m r s k with
  | Some rest => Some (start, start + (length s - length rest))
  | None => match s with
            | [] => None
            | _ :: s' => search_k r k s' (S start)
            end
  end.

(* pattern.search(buf) -> span *)
Definition search (r : re) (buf : list N) : option (nat * nat) := search_k r k_any buf 0.
(* re.compile(b"(?:" + p + b")\\Z").search(buf) *)
Definition search_end (r : re) (buf : list N) : option (nat * nat) := search_k r k_end buf 0.
(* re.compile(p + b"$").search(buf) when the `$` binds to the whole pattern *)
Definition search_dollar (r : re) (buf : list N) : option (nat * nat) := search_k r k_dollar buf 0.

(* sre_parse getwidth()[1] *)
Fixpoint maxwidth (r : re) : nat :=
  match r with
  | REps => 0
  | RChr _ | RCls _ _ | RAny => 1
  | RSeq a b => maxwidth a + maxwidth b
  | RAlt a b => Nat.max (maxwidth a) (maxwidth b)
  | RRep r' _ hi => hi * maxwidth r'
  end.

(* declarative language *)
Inductive lang : re -> list N -> Prop :=
| LEps : lang REps []
| LChr c : lang (RChr c) [c]
| LCls neg rs c : cls_ok neg rs c = true -> lang (RCls neg rs) [c]
| LAny c : c <> LF -> lang RAny [c]
| LSeq a b s1 s2 : lang a s1 -> lang b s2 -> lang (RSeq a b) (s1 ++ s2)
| LAltL a b s : lang a s -> lang (RAlt a b) s
| LAltR a b s : lang b s -> lang (RAlt a b) s
| LRep0 r hi : lang (RRep r 0 hi) []
| LRepS r lo hi s1 s2 : s1 <> [] -> lang r s1 -> lang (RRep r (Nat.pred lo) hi) s2 ->
                        lang (RRep r lo (S hi)) (s1 ++ s2).
