(* RegexLemmas.v -- the backtracking matcher is sound and complete for the declarative language;
   search_end finds the LEAST position from which the rest of the buffer is a word of the language. *)
From TV Require Import Base BaseLemmas Regex.

Definition sound_at (r : re) : Prop :=
  forall s k x, m r s k = Some x -> exists s1 s2, s = s1 ++ s2 /\ lang r s1 /\ k s2 = Some x.

Lemma rep_with_sound r' :
  sound_at r' ->
  forall hi lo s k x, rep_with (m r') k lo hi s = Some x ->
    exists s1 s2, s = s1 ++ s2 /\ lang (RRep r' lo hi) s1 /\ k s2 = Some x.
Proof.
  intros Hs. induction hi as [|hi IH]; intros lo s k x H; simpl in H.
  - destruct lo; [|discriminate]. exists [], s. split; [reflexivity|]. split; [constructor | exact H].
  - destruct (m r' s _) as [y|] eqn:E.
    + injection H as ->. apply Hs in E as (s1 & s2 & -> & L1 & Hk).
      destruct (Nat.ltb (length s2) (length (s1 ++ s2))) eqn:El; [|discriminate].
      apply Nat.ltb_lt in El. rewrite app_length in El.
      apply IH in Hk as (t1 & t2 & -> & L2 & Hk2).
      exists (s1 ++ t1), t2. split; [rewrite app_assoc; reflexivity|]. split; [|exact Hk2].
      apply LRepS; auto. destruct s1; [simpl in El; lia | congruence].
    + destruct lo; [|discriminate]. exists [], s. split; [reflexivity|]. split; [constructor | exact H].
Qed.

Lemma m_sound r : sound_at r.
Proof.
  induction r as [|c|neg rs| |a IHa b IHb|a IHa b IHb|r' IH lo hi]; intros s k x H; simpl in H.
  - exists [], s. split; [reflexivity|]. split; [constructor | exact H].
  - destruct s as [|y s]; [discriminate|]. destruct (N.eqb y c) eqn:E; [|discriminate].
    apply N.eqb_eq in E; subst. exists [c], s. split; [reflexivity|]. split; [constructor | exact H].
  - destruct s as [|y s]; [discriminate|]. destruct (cls_ok neg rs y) eqn:E; [|discriminate].
    exists [y], s. split; [reflexivity|]. split; [constructor; exact E | exact H].
  - destruct s as [|y s]; [discriminate|]. destruct (N.eqb y LF) eqn:E; [discriminate|].
    apply N.eqb_neq in E. exists [y], s. split; [reflexivity|]. split; [constructor; exact E | exact H].
  - apply IHa in H as (s1 & s2 & -> & L1 & H). apply IHb in H as (t1 & t2 & -> & L2 & H).
    exists (s1 ++ t1), t2. split; [rewrite app_assoc; reflexivity|]. split; [constructor; assumption | exact H].
  - destruct (m a s k) as [y|] eqn:E.
    + injection H as ->. apply IHa in E as (s1 & s2 & -> & L1 & H). exists s1, s2. auto using LAltL.
    + apply IHb in H as (s1 & s2 & -> & L1 & H). exists s1, s2. auto using LAltR.
  - eapply rep_with_sound; eauto.
Qed.

Definition complete_at (r : re) (s1 : list N) : Prop :=
  forall s2 k x, k s2 = Some x -> exists y, m r (s1 ++ s2) k = Some y.

Lemma m_complete r s1 : lang r s1 -> complete_at r s1.
Proof.
  induction 1 as [|c|neg rs c Hc|c Hc|a b s1 s2 _ IH1 _ IH2|a b s _ IH|a b s _ IH|r hi
                  |r lo hi s1 s2 Hne _ IH1 _ IH2]; intros s3 k x Hk; simpl.
  - eauto.
  - rewrite N.eqb_refl. eauto.
  - rewrite Hc. eauto.
  - apply N.eqb_neq in Hc. rewrite Hc. eauto.
  - rewrite <- app_assoc. destruct (IH2 s3 k x Hk) as [y Hy].
    apply (IH1 (s2 ++ s3) (fun s' => m b s' k) y Hy).
  - destruct (IH s3 k x Hk) as [y Hy]. rewrite Hy. eauto.
  - destruct (m a (s ++ s3) k); [eauto|]. apply (IH s3 k x Hk).
  - destruct hi; simpl; [eauto|]. destruct (m r s3 _); eauto.
  - rewrite <- app_assoc.
    destruct (IH2 s3 k x Hk) as [y Hy]. simpl in Hy.
    assert (Hc : (fun s' => if Nat.ltb (length s') (length (s1 ++ s2 ++ s3))
                            then rep_with (m r) k (Nat.pred lo) hi s' else None) (s2 ++ s3) = Some y).
    { assert (El : Nat.ltb (length (s2 ++ s3)) (length (s1 ++ s2 ++ s3)) = true).
      { apply Nat.ltb_lt. rewrite (app_length s1). destruct s1; [congruence | simpl; lia]. }
      rewrite El. exact Hy. }
    destruct (IH1 (s2 ++ s3) _ y Hc) as [y' Hy']. rewrite Hy'. eauto.
Qed.

(* search_k scans start positions left to right *)
Lemma search_k_spec r k : forall s start a b,
  search_k r k s start = Some (a, b) ->
  exists i, a = start + i /\ i <= length s /\
            (exists rest, m r (skipn i s) k = Some rest) /\
            forall j, j < i -> m r (skipn j s) k = None.
Proof.
  induction s as [|y s IH]; intros start a b H; simpl in H.
  - destruct (m r [] k) as [rest|] eqn:E; [|discriminate]. injection H as <- _.
    exists 0. split; [lia|]. split; [simpl; lia|]. split; [simpl; eauto | intros; lia].
  - destruct (m r (y :: s) k) as [rest|] eqn:E.
    + injection H as <- _. exists 0. split; [lia|]. split; [simpl; lia|]. split; [simpl; eauto | intros; lia].
    + apply IH in H as (i & -> & Hi & Hm & Hl). exists (S i). split; [lia|]. split; [simpl; lia|].
      split; [exact Hm|]. intros [|j] Hj; [exact E | apply Hl; lia].
Qed.

Lemma search_k_none r k : forall s start,
  search_k r k s start = None -> forall j, j <= length s -> m r (skipn j s) k = None.
Proof.
  induction s as [|y s IH]; intros start H j Hj; simpl in H.
  - destruct (m r [] k) eqn:E; [discriminate|]. simpl in Hj. replace j with 0 by lia. exact E.
  - destruct (m r (y :: s) k) eqn:E; [discriminate|].
    destruct j; [exact E|]. simpl. eapply IH; eauto. simpl in Hj; lia.
Qed.

Lemma k_end_spec s x : k_end s = Some x -> s = [].
Proof. destruct s; simpl; congruence. Qed.

(* the end-anchored search used for regex prompts *)
Theorem search_end_spec r buf a b :
  search_end r buf = Some (a, b) ->
  a <= length buf /\ lang r (skipn a buf) /\ forall j, j < a -> ~ lang r (skipn j buf).
Proof.
  unfold search_end. intros H. apply search_k_spec in H as (i & -> & Hi & (rest & Hm) & Hl). simpl.
  split; [exact Hi|]. split.
  - apply m_sound in Hm as (s1 & s2 & E & L & Hk). apply k_end_spec in Hk; subst s2.
    rewrite app_nil_r in E. rewrite E. exact L.
  - intros j Hj L. specialize (Hl j Hj).
    destruct (m_complete _ _ L [] k_end [] eq_refl) as [y Hy]. rewrite app_nil_r in Hy. congruence.
Qed.

Theorem search_end_none r buf :
  search_end r buf = None -> forall j, j <= length buf -> ~ lang r (skipn j buf).
Proof.
  unfold search_end. intros H j Hj L. pose proof (search_k_none _ _ _ _ H j Hj) as Hn.
  destruct (m_complete _ _ L [] k_end [] eq_refl) as [y Hy]. rewrite app_nil_r in Hy. congruence.
Qed.

(* words of the language are no longer than maxwidth (what BoundedPattern relies on) *)
Lemma lang_maxwidth r s : lang r s -> length s <= maxwidth r.
Proof.
  induction 1; simpl; try lia.
  - rewrite app_length. lia.
  - rewrite app_length. simpl in *. lia.
Qed.
