(* Session.v -- command/response sessions over a console: the composition of channel operations done by
   UBootShell.exec/exec0/test/env and by the Linux shells' exec, over a transport whose data is the console's
   REACTION to each line written.  A stage is the reaction to one line (echo, output, prompt) as timed pieces,
   times relative to the moment the line is written; it is loaded into the transport when the line is sent.
   Hand-written from tbot/machine/board/uboot.py and tbot/machine/linux/{bash,ash,util}.py; tied to /repo by
   correspondence (props/C19.py, props/C01.py run the real machine classes over a staged scripted transport). *)
From TV Require Import Base Utf8 Regex Channel Hush.

Definition stage := list (Z * list N).

Definition load (st : stage) (c : chan) : chan :=
  let t := io c in
  with_io c (mkTio (pend t ++ map (fun e => ((now t + fst e)%Z, snd e)) st) (now t) (accept t) (iolog t) (wr t)).

(* ------------------------------------------------------------------ int(str) *)
Definition is_digit (c : N) : bool := ((48 <=? c) && (c <=? 57))%N.
Definition is_space (c : N) : bool :=
  (((9 <=? c) && (c <=? 13)) || ((28 <=? c) && (c <=? 32)) || (c =? 133) || (c =? 160))%N.

Fixpoint lstrip_sp (s : list N) : list N :=
  match s with c :: r => if is_space c then lstrip_sp r else s | [] => [] end.
Definition strip_sp (s : list N) : list N := rev (lstrip_sp (rev (lstrip_sp s))).

(* digits with single underscores between them *)
Fixpoint digits (s : list N) (acc : Z) (prev_digit : bool) : option Z :=
  match s with
  | [] => if prev_digit then Some acc else None
  | c :: r =>
      if is_digit c then digits r (acc * 10 + Z.of_N (c - 48))%Z true
      else if (c =? 95)%N && prev_digit then digits r acc false
      else None
  end.

Definition py_int (s : list N) : option Z :=
  match strip_sp s with
  | 45%N :: r => option_map Z.opp (digits r 0%Z false)
  | 43%N :: r => digits r 0%Z false
  | t => digits t 0%Z false
  end.

(* ------------------------------------------------------------------ exec *)
Definition ECHO_Q : list N := [101; 99; 104; 111; 32; 36; 63]%N.     (* echo $? *)

Inductive xres : Type :=
| XOk (status : Z) (out : list N)
| XBadStatus (s : list N)                 (* InvalidRetcodeError *)
| XErr (e : res unit).                    (* an exception of a channel operation *)

Definition hd_stage (sts : list stage) : stage := match sts with s :: _ => s | [] => [] end.

(* with the crc32 override the prompt ate the LF of the final CR LF: the CR left behind is dropped, the LF restored *)
Definition post_out (ovr : option (list N)) (out : list N) : list N :=
  match ovr with
  | Some _ => (if is_suffix [CR] out then drop_last 1 out else out) ++ [LF]
  | None => out
  end.

(* the common shape of UBootShell.exec and LinuxShell.exec: cmd is the escaped command line (bytes);
   ovr is the per-call prompt of the crc32 workaround (None otherwise) *)
Definition exec_model (cmd : list N) (ovr : option (list N)) (sts : list stage) (c : chan)
  : xres * chan * list stage :=
  (* a line with a forbidden byte is refused before anything reaches the console *)
  if any_in (blacklist c) (cmd ++ [CR]) then (XErr EIllegal, c, sts) else
  let c1 := load (hd_stage sts) c in
  let sts1 := tl sts in
  match sendline cmd true None c1 with
  | (Ret _, c2) =>
      match read_until_prompt (option_map SLit ovr) None c2 with
      | (Ret out, c3) =>
          let out' := post_out ovr out in
          let c4 := load (hd_stage sts1) c3 in
          let sts2 := tl sts1 in
          match sendline ECHO_Q true None c4 with
          | (Ret _, c5) =>
              match read_until_prompt None None c5 with
              | (Ret rs, c6) =>
                  match py_int rs with
                  | Some n => (XOk n out', c6, sts2)
                  | None => (XBadStatus rs, c6, sts2)
                  end
              | (e, c6) => (XErr (lift_err e), c6, sts2)
              end
          | (e, c5) => (XErr e, c5, sts2)
          end
      | (e, c3) => (XErr (lift_err e), c3, sts1)
      end
  | (e, c2) => (XErr e, c2, sts1)
  end.

(* ------------------------------------------------------------------ U-Boot *)
Definition CRC32 : list N := [99; 114; 99; 51; 50]%N.
Definition UB_ARROW : list N := [61; 62; 32]%N.                    (* "=> " *)

(* args are str (code points); the prompt override applies for crc32 on a "=> " prompt *)
Definition ub_override (args : list (list N)) (c : chan) : option (list N) :=
  match args with
  | a0 :: _ =>
      if list_N_eqb a0 CRC32 &&
         match prompt c with Some (SLit p) => list_N_eqb p UB_ARROW | _ => false end
      then Some (LF :: UB_ARROW) else None
  | [] => None
  end.

Definition ub_exec (args : list (list N)) (sts : list stage) (c : chan) : xres * chan * list stage :=
  exec_model (utf8_enc (ub_escape args)) (ub_override args c) sts c.

Inductive x0res : Type :=
| X0Ok (out : list N)
| X0Failure (status : Z)                  (* CommandFailure *)
| X0Other (r : xres).

Definition ub_exec0 (args : list (list N)) (sts : list stage) (c : chan) : x0res * chan * list stage :=
  match ub_exec args sts c with
  | (XOk st out, c', sts') => (if (st =? 0)%Z then X0Ok out else X0Failure st, c', sts')
  | (r, c', sts') => (X0Other r, c', sts')
  end.

Definition SETENV : list N := [115; 101; 116; 101; 110; 118]%N.
Definition PRINTENV : list N := [112; 114; 105; 110; 116; 101; 110; 118]%N.

(* output[len(var) + 1 : -1] *)
Definition env_slice (var out : list N) : list N := drop_last 1 (skipn (length var + 1) out).

Definition ub_env (var : list N) (value : option (list N)) (sts : list stage) (c : chan)
  : x0res * chan * list stage :=
  let cont (sts1 : list stage) (c1 : chan) :=
    match ub_exec0 [PRINTENV; var] sts1 c1 with
    | (X0Ok out, c2, sts2) => (X0Ok (env_slice var out), c2, sts2)
    | r => r
    end in
  match value with
  | None => cont sts c
  | Some v =>
      match ub_exec0 [SETENV; var; v] sts c with
      | (X0Ok _, c1, sts1) => cont sts1 c1
      | r => r
      end
  end.

(* ------------------------------------------------------------------ observation *)
Definition V_res_unit (e : res unit) : V :=
  match e with
  | Ret _ => VN 0 | ETimeout => VN 1 | EBlocked => VN 2 | EDeath x _ => VL [VN 3; VN x]
  | EIllegal => VN 4 | EAssert => VN 5 | EFuel => VN 6
  end.

Definition V_xres (r : xres) : V :=
  match r with
  | XOk st out => VL [VN 0; VN st; VB out]
  | XBadStatus s => VL [VN 1; VB s]
  | XErr e => VL [VN 2; V_res_unit e]
  end.

Definition V_x0res (r : x0res) : V :=
  match r with
  | X0Ok out => VL [VN 0; VB out]
  | X0Failure st => VL [VN 1]
  | X0Other x => VL [VN 2; V_xres x]
  end.

Definition unread (c : chan) : list N := concat (map snd (pend (io c))).

(* a U-Boot machine whose shell is initialised: prompt set, black-list installed *)
Definition UB_BLACKLIST : list N :=
  [0;1;2;3;4;5;6;7;8;9;11;12;14;15;16;17;18;19;20;21;22;23;24;26;27;28;127]%N.

Definition ub_chan (pr : list N) (acc : list nat) : chan :=
  mkChan (mkTio [] 0 acc [] []) (Some (SLit pr)) [] (mkLg [] [] true [] []) UB_BLACKLIST None [] 0.

Inductive ub_call : Type :=
| UExec (args : list (list N))
| UTest (args : list (list N))
| UExec0 (args : list (list N))
| UEnv (var : list N) (value : option (list N)).

Definition ub_step (k : ub_call) (sts : list stage) (c : chan) : V * chan :=
  match k with
  | UExec args => let '(r, c', _) := ub_exec args sts c in (V_xres r, c')
  | UTest args => let '(r, c', _) := ub_exec args sts c in
                  (match r with XOk st _ => VL [VN 0; VN (if (st =? 0)%Z then 1 else 0)] | x => VL [VN 2; V_xres x] end, c')
  | UExec0 args => let '(r, c', _) := ub_exec0 args sts c in (V_x0res r, c')
  | UEnv var v => let '(r, c', _) := ub_env var v sts c in (V_x0res r, c')
  end.

(* every call comes with the console's reactions to the lines it is expected to send *)
Fixpoint ub_run (ks : list (ub_call * list stage)) (c : chan) (acc : list V) : list V * chan :=
  match ks with
  | [] => (rev acc, c)
  | (k, sts) :: ks' => let (v, c') := ub_step k sts c in ub_run ks' c' (v :: acc)
  end.

(* case: prompt, partial-write oracle, calls with their stages *)
Definition ub_model (case : list N * list nat * list (ub_call * list stage)) : V :=
  match case with
  | (pr, acc, ks) =>
      let (vs, c) := ub_run ks (ub_chan pr acc) [] in
      VL [VL vs; VB (wr (io c)); VB (unread c)]
  end.
