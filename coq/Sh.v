(* Sh.v -- Linux shells: shlex.quote as used by Bash.escape / Ash.escape, a model of how a POSIX shell splits a
   command line of quoted words (environment model, validated against the real bash and dash on every run), the
   tty's echo (environment model, validated against a real pty), and exec / exec0 / test as sessions.
   Symbols are N (bytes for the shell and the tty, code points for shlex.quote). *)
From TV Require Import Base Utf8 Regex Channel Hush Session.

(* ------------------------------------------------------------------ shlex.quote *)
(* the same safe set as _hush_quote: re.compile(r"[^\w@%+=:,./-]", re.ASCII) *)
Definition shq_char (c : N) : list N := if (c =? 39)%N then [39; 34; 39; 34; 39]%N else [c].

Definition sh_quote (s : list N) : list N :=
  match s with
  | [] => [39; 39]%N
  | _ => if forallb is_safe s then s else [39%N] ++ flat_map shq_char s ++ [39%N]
  end.

Definition sh_escape (args : list (list N)) : list N := join_sp (map sh_quote args).

(* ------------------------------------------------------------------ the shell's word splitting *)
Inductive qmode : Type := QN | QS | QD.

(* characters with no meaning to the shell outside quotes *)
Definition sh_ordinary (c : N) : bool := is_safe c || (128 <=? c)%N.

(* None = anything but a simple command of literal words: an expansion, a separator, a glob, a comment, an
   operator, an open quote (the model does not say what the shell does then) *)
Fixpoint shparse (inp : list N) (mode : qmode) (cur : list N) (has : bool) (acc : list (list N))
  : option (list (list N)) :=
  match inp with
  | [] => match mode with QN => Some (if has then acc ++ [cur] else acc) | _ => None end
  | c :: r =>
      match mode with
      | QS => if (c =? 39)%N then shparse r QN cur true acc else shparse r QS (cur ++ [c]) true acc
      | QD =>
          if (c =? 34)%N then shparse r QN cur true acc
          else if (c =? 36)%N || (c =? 96)%N then None
          else if (c =? 92)%N then
            match r with
            | [] => None
            | d :: r' =>
                if (d =? 10)%N then shparse r' QD cur true acc
                else if mem_N d [36; 96; 34; 92]%N then shparse r' QD (cur ++ [d]) true acc
                else shparse r' QD (cur ++ [92%N; d]) true acc
            end
          else shparse r QD (cur ++ [c]) true acc
      | QN =>
          if (c =? 39)%N then shparse r QS cur true acc
          else if (c =? 34)%N then shparse r QD cur true acc
          else if (c =? 32)%N || (c =? 9)%N then shparse r QN [] false (if has then acc ++ [cur] else acc)
          else if (c =? 92)%N then
            match r with
            | [] => None
            | d :: r' => if (d =? 10)%N then shparse r' QN cur has acc else shparse r' QN (cur ++ [d]) true acc
            end
          else if sh_ordinary c then shparse r QN (cur ++ [c]) true acc
          else None
      end
  end.

(* NUL cannot be part of a command line *)
Definition sh_words (line : list N) : option (list (list N)) :=
  if mem_N 0%N line then None else shparse line QN [] false [].

(* ------------------------------------------------------------------ the tty *)
Definition TAB : N := 9.

(* what the line discipline echoes for one input byte (ICANON ECHO ICRNL ONLCR; the special characters VINTR,
   VEOF, VERASE ... are exactly the bytes the shell classes black-list and are not covered) *)
Definition echo1 (echoctl : bool) (c : N) : list N :=
  if (c =? CR)%N || (c =? LF)%N then [CR; LF]
  else if (c =? TAB)%N then [c]
  else if ((c <? 32) || (c =? 127))%N then (if echoctl then [94%N; N.lxor c 64] else [c])
  else [c].

Definition tty_echo (echoctl : bool) (s : list N) : list N := flat_map (echo1 echoctl) s.

(* output post-processing ONLCR *)
Definition onlcr (s : list N) : list N := flat_map (fun c => if (c =? LF)%N then [CR; LF] else [c]) s.

(* ------------------------------------------------------------------ exec / exec0 / test *)
Definition lx_exec (args : list (list N)) (sts : list stage) (c : chan) : xres * chan * list stage :=
  exec_model (utf8_enc (sh_escape args)) None sts c.

Definition lx_exec0 (args : list (list N)) (sts : list stage) (c : chan) : x0res * chan * list stage :=
  match lx_exec args sts c with
  | (XOk st out, c', sts') => (if (st =? 0)%Z then X0Ok out else X0Failure st, c', sts')
  | (r, c', sts') => (X0Other r, c', sts')
  end.

Inductive tres : Type := TBool (b : bool) | TOther (r : xres).

Definition lx_test (args : list (list N)) (sts : list stage) (c : chan) : tres * chan * list stage :=
  match lx_exec args sts c with
  | (XOk st _, c', sts') => (TBool (st =? 0)%Z, c', sts')
  | (r, c', sts') => (TOther r, c', sts')
  end.

(* ------------------------------------------------------------------ environment variables (util.posix_environment) *)
Definition EXPORT : list N := [101; 120; 112; 111; 114; 116]%N.             (* export *)
Definition ECHO : list N := [101; 99; 104; 111]%N.                          (* echo *)

(* mach.exec0("export", Raw(f"{escape(var)}={escape(value)}")) *)
Definition export_line (var value : list N) : list N :=
  EXPORT ++ [32%N] ++ sh_quote var ++ [61%N] ++ sh_quote value.

(* the names "!" and "$" are not escaped *)
Definition get_var (var : list N) : list N :=
  if list_N_eqb var [33%N] || list_N_eqb var [36%N] then var else sh_quote var.

(* mach.exec0("printf", "%s\\n", Raw(f'"${{{var}}}"'))[:-1] *)
Definition PRINTF_S : list N := [112; 114; 105; 110; 116; 102; 32; 39; 37; 115; 92; 110; 39; 32]%N.   (* printf '%s\n'  *)
Definition get_line (var : list N) : list N :=
  PRINTF_S ++ [34; 36; 123]%N ++ get_var var ++ [125; 34]%N.

Definition get_slice (out : list N) : list N := drop_last 1 out.

Definition lx_exec_line (line : list N) (sts : list stage) (c : chan) : xres * chan * list stage :=
  exec_model (utf8_enc line) None sts c.

Definition lx_exec0_line (line : list N) (sts : list stage) (c : chan) : x0res * chan * list stage :=
  match lx_exec_line line sts c with
  | (XOk st out, c', sts') => (if (st =? 0)%Z then X0Ok out else X0Failure st, c', sts')
  | (r, c', sts') => (X0Other r, c', sts')
  end.

Definition lx_env_set (var value : list N) (sts : list stage) (c : chan) : x0res * chan * list stage :=
  match lx_exec0_line (export_line var value) sts c with
  | (X0Ok _, c', sts') => (X0Ok value, c', sts')
  | r => r
  end.

Definition lx_env_get (var : list N) (sts : list stage) (c : chan) : x0res * chan * list stage :=
  match lx_exec0_line (get_line var) sts c with
  | (X0Ok out, c', sts') => (X0Ok (get_slice out), c', sts')
  | r => r
  end.

(* what the shell's echo builtin prints for one argument: bash prints it as it is, dash interprets backslash
   escapes (environment model, validated against the real shells) *)
Definition is_octal (c : N) : bool := ((48 <=? c) && (c <=? 55))%N.

Fixpoint octal3 (s : list N) (k : nat) (acc : N) : N * list N :=
  match k, s with
  | S k', d :: r => if is_octal d then octal3 r k' (acc * 8 + (d - 48))%N else (acc, s)
  | _, _ => (acc, s)
  end.

Fixpoint echo_dash_body (fuel : nat) (s : list N) : list N * bool :=   (* (output, stopped by \c) *)
  match fuel with
  | O => ([], false)
  | S f =>
      match s with
      | [] => ([], false)
      | 92%N :: d :: r =>
          let simple (x : N) := let (o, st) := echo_dash_body f r in (x :: o, st) in
          if (d =? 97)%N then simple 7%N
          else if (d =? 98)%N then simple 8%N
          else if (d =? 99)%N then ([], true)
          else if (d =? 101)%N then simple 27%N
          else if (d =? 102)%N then simple 12%N
          else if (d =? 110)%N then simple 10%N
          else if (d =? 114)%N then simple 13%N
          else if (d =? 116)%N then simple 9%N
          else if (d =? 118)%N then simple 11%N
          else if (d =? 92)%N then simple 92%N
          else if (d =? 48)%N then
            let (v, r') := octal3 r 3 0%N in
            let (o, st) := echo_dash_body f r' in ((v mod 256)%N :: o, st)
          else if is_octal d then
            let (v, r') := octal3 (d :: r) 3 0%N in
            let (o, st) := echo_dash_body f r' in ((v mod 256)%N :: o, st)
          else let (o, st) := echo_dash_body f (d :: r) in (92%N :: o, st)
      | c :: r => let (o, st) := echo_dash_body f r in (c :: o, st)
      end
  end.

Definition echo_out (dash : bool) (arg : list N) : list N :=
  if dash then
    let (o, stopped) := echo_dash_body (S (length arg)) arg in if stopped then o else o ++ [LF]
  else arg ++ [LF].

(* ------------------------------------------------------------------ observation *)
Definition TBOT_PROMPT : list N :=
  [84;66;79;84;45;86;69;74;80;86;67;49;81;85;107;57;78;85;70;81;75;36;32]%N.   (* TBOT-VEJPVC1QUk9NUFQK$  *)

Definition BASH_BLACKLIST : list N := [3;4;17;18;19;20;21;22;23;26;28;127]%N.
Definition ASH_BLACKLIST : list N := [3;4;8;9;14;16;17;18;19;20;21;22;23;25;26;27;28;31;127]%N.

Definition lx_chan (ash : bool) (acc : list nat) : chan :=
  mkChan (mkTio [] 0 acc [] []) (Some (SLit TBOT_PROMPT)) [] (mkLg [] [] true [] [])
         (if ash then ASH_BLACKLIST else BASH_BLACKLIST) None [] 0.

Inductive lx_call : Type :=
| LExec (args : list (list N))
| LExec0 (args : list (list N))
| LTest (args : list (list N))
| LEnvSet (var value : list N)
| LEnvGet (var : list N).

Definition V_tres (r : tres) : V :=
  match r with TBool b => VL [VN 0; VN (if b then 1 else 0)] | TOther x => VL [VN 2; V_xres x] end.

Definition lx_step (k : lx_call) (sts : list stage) (c : chan) : V * chan :=
  match k with
  | LExec args => let '(r, c', _) := lx_exec args sts c in (V_xres r, c')
  | LExec0 args => let '(r, c', _) := lx_exec0 args sts c in (V_x0res r, c')
  | LTest args => let '(r, c', _) := lx_test args sts c in (V_tres r, c')
  | LEnvSet var v => let '(r, c', _) := lx_env_set var v sts c in (V_x0res r, c')
  | LEnvGet var => let '(r, c', _) := lx_env_get var sts c in (V_x0res r, c')
  end.

Fixpoint lx_run (ks : list (lx_call * list stage)) (c : chan) (acc : list V) : list V * chan :=
  match ks with
  | [] => (rev acc, c)
  | (k, sts) :: ks' => let (v, c') := lx_step k sts c in lx_run ks' c' (v :: acc)
  end.

Definition lx_model (case : bool * list nat * list (lx_call * list stage)) : V :=
  match case with
  | (ash, acc, ks) =>
      let (vs, c) := lx_run ks (lx_chan ash acc) [] in
      VL [VL vs; VB (wr (io c)); VB (unread c)]
  end.

(* the same on a channel configured for slow sending (slow_send_delay, slow_send_chunksize) *)
Definition lx_chan_slow (ash : bool) (acc : list nat) (sl : Z * nat) : chan :=
  let c0 := lx_chan ash acc in
  mkChan (io c0) (prompt c0) (deaths c0) (lgs c0) (blacklist c0) (Some sl) (ctx c0) (nextid c0).

Definition lx_model_slow (case : bool * list nat * (Z * nat) * list (lx_call * list stage)) : V :=
  match case with
  | (ash, acc, sl, ks) =>
      let (vs, c) := lx_run ks (lx_chan_slow ash acc sl) [] in
      VL [VL vs; VB (wr (io c)); VB (unread c)]
  end.

(* shlex.quote against the model, and the model's word splitting against what the real shells made of the line:
   the observation is returned where the model is stuck, so only definite answers of the model are compared *)
Definition shq_model (case : list (list (list N) * list (list N))) : V :=
  VL (map (fun p : list (list N) * list (list N) =>
             let (args, observed) := p in
             VL [VB (sh_escape args);
                 VL (map VB (match sh_words (utf8_enc (sh_escape args)) with Some ws => ws | None => observed end))])
          case).

Definition shline_model (case : list (list N * list (list N))) : V :=
  VL (map (fun p : list N * list (list N) =>
             let (line, observed) := p in
             VL (map VB (match sh_words line with Some ws => ws | None => observed end)))
          case).

Definition tty_model (case : bool * list N) : V := VB (tty_echo (fst case) (snd case)).

Definition echo_model (case : bool * list N) : V := VB (echo_out (fst case) (snd case)).

(* ------------------------------------------------------------------ _init_shell and subshell() *)
(* util.wait_for_shell: send the probe until its answer shows up (first wait 0.2 s, then 3 s each) *)
Definition PROBE : list N := [101;99;104;111;32;84;66;79;84;92;76;79;71;73;78]%N.        (* echo TBOT\LOGIN *)
Definition PROBE_ANSWER : list N := [84;66;79;84;76;79;71;73;78]%N.                       (* TBOTLOGIN *)
Definition SANITY : list N := [101;99;104;111;32;84;66;79;84;45;83;65;78;73;84;89;45;67;72;69;67;75]%N.   (* echo TBOT-SANITY-CHECK *)
Definition SANITY_ANSWER : list N := [84;66;79;84;45;83;65;78;73;84;89;45;67;72;69;67;75;10]%N.          (* TBOT-SANITY-CHECK\n *)
Definition EXIT_CMD : list N := [101;120;105;116]%N.                                        (* exit *)

Inductive ires : Type :=
| IOk
| IUnclean (out : list N)             (* UncleanShellError *)
| IErr (e : res unit)
| IFuel.

Definition line_nrb (s : list N) (sts : list stage) (c : chan) : res unit * chan * list stage :=
  let (r, c') := sendline s false None (load (hd_stage sts) c) in (r, c', tl sts).

Fixpoint wait_for_shell (fuel : nat) (tmo : Z) (sts : list stage) (c : chan) : ires * chan * list stage :=
  match fuel with
  | O => (IFuel, c, sts)
  | S f =>
      match line_nrb PROBE sts c with
      | (Ret _, c1, sts1) =>
          match expect [SLit PROBE_ANSWER] (Some tmo) c1 with
          | (Ret _, c2) => (IOk, c2, sts1)
          | (ETimeout, c2) => wait_for_shell f 3072%Z sts1 c2
          | (e, c2) => (IErr (lift_err e), c2, sts1)
          end
      | (e, c1, sts1) => (IErr e, c1, sts1)
      end
  end.

(* sendline(line); read_until_prompt()  for every configuration line *)
Fixpoint config_lines (ls : list (list N)) (sts : list stage) (c : chan) : ires * chan * list stage :=
  match ls with
  | [] => (IOk, c, sts)
  | l :: ls' =>
      match line_nrb l sts c with
      | (Ret _, c1, sts1) =>
          match read_until_prompt None None c1 with
          | (Ret _, c2) => config_lines ls' sts1 c2
          | (e, c2) => (IErr (lift_err e), c2, sts1)
          end
      | (e, c1, sts1) => (IErr e, c1, sts1)
      end
  end.

(* first_tmo: 0.2 s rounded to the clock's unit; bl: the class's black-list; ps1line: the PS1 command; cfg: the
   remaining configuration lines of the class (they differ between Bash and Ash and contain the terminal size) *)
Definition init_shell (fuel : nat) (first_tmo : Z) (bl : list N) (ps1line : list N) (cfg : list (list N))
           (sts : list stage) (c : chan) : ires * chan * list stage :=
  match wait_for_shell fuel first_tmo sts c with
  | (IOk, c1, sts1) =>
      let c2 := mkChan (io c1) (prompt c1) (deaths c1) (lgs c1) bl (slow c1) (ctx c1) (nextid c1) in
      match line_nrb ps1line sts1 c2 with
      | (Ret _, c3, sts3) =>
          let c4 := with_prompt c3 (Some (SLit TBOT_PROMPT)) in
          match read_until_prompt None None c4 with
          | (Ret _, c5) =>
              match config_lines cfg sts3 c5 with
              | (IOk, c6, sts6) =>
                  (* shell_sanity_check *)
                  match sendline SANITY true None (load (hd_stage sts6) c6) with
                  | (Ret _, c7) =>
                      match read_until_prompt None None c7 with
                      | (Ret out, c8) => (if list_N_eqb out SANITY_ANSWER then IOk else IUnclean out, c8, tl sts6)
                      | (e, c8) => (IErr (lift_err e), c8, tl sts6)
                      end
                  | (e, c7) => (IErr e, c7, tl sts6)
                  end
              | r => r
              end
          | (e, c5) => (IErr (lift_err e), c5, sts3)
          end
      | (e, c3, sts3) => (IErr e, c3, sts3)
      end
  | r => r
  end.

(* subshell(): spawn the shell, initialise it, run the body, and in `finally` send exit and wait for the prompt *)
Definition subshell_enter (fuel : nat) (first_tmo : Z) (bl ps1line : list N) (cfg : list (list N)) (spawn : list N)
           (sts : list stage) (c : chan) : ires * chan * list stage :=
  match line_nrb spawn sts c with
  | (Ret _, c1, sts1) => init_shell fuel first_tmo bl ps1line cfg sts1 c1
  | (e, c1, sts1) => (IErr e, c1, sts1)
  end.

Definition subshell_leave (sts : list stage) (c : chan) : ires * chan * list stage :=
  match line_nrb EXIT_CMD sts c with
  | (Ret _, c1, sts1) =>
      match read_until_prompt None None c1 with
      | (Ret _, c2) => (IOk, c2, sts1)
      | (e, c2) => (IErr (lift_err e), c2, sts1)
      end
  | (e, c1, sts1) => (IErr e, c1, sts1)
  end.

(* the line that sets the prompt: PROMPT_COMMAND=''; PS1='TBOT-V''EJPVC1QUk9NUFQK$ ' *)
Definition PS1_WORD : list N :=
  [80; 83; 49; 61; 39]%N ++ firstn 6 TBOT_PROMPT ++ [39; 39]%N ++ skipn 6 TBOT_PROMPT ++ [39%N].


Definition PS1_LINE : list N :=
  [80;82;79;77;80;84;95;67;79;77;77;65;78;68;61;39;39;59;32]%N ++ PS1_WORD.   (* PROMPT_COMMAND='';  *)


Definition V_ires (r : ires) : V :=
  match r with
  | IOk => VL [VN 0]
  | IUnclean out => VL [VN 1; VB out]
  | IErr e => VL [VN 2; V_res_unit e]
  | IFuel => VL [VN 9]
  end.

(* case: black-list, PS1 line, configuration lines, stages; the machine connects and initialises its shell *)
Definition init_model (case : list N * list N * list (list N) * list stage) : V :=
  match case with
  | (bl, ps1line, cfg, sts) =>
      let c0 := load (hd_stage sts) (chan_init [] []) in
      let '(r, c, _) := init_shell 50 205%Z bl ps1line cfg (tl sts) c0 in
      VL [V_ires r; VN (now (io c)); VB (wr (io c)); VB (unread c);
          VB (match prompt c with Some (SLit p) => p | _ => [] end)]
  end.

(* case: black-list, PS1 line, configuration lines, the spawn command, stages: the machine connects and initialises
   its shell, enters a subshell (spawn + _init_shell of the inner shell) and leaves it again *)
Definition subshell_sim_model (case : list N * list N * list (list N) * list N * list stage) : V :=
  match case with
  | (bl, ps1line, cfg, spawn, sts) =>
      let c0 := load (hd_stage sts) (chan_init [] []) in
      let '(r1, c1, sts1) := init_shell 50 205%Z bl ps1line cfg (tl sts) c0 in
      match r1 with
      | IOk =>
          let '(r2, c2, sts2) := subshell_enter 50 205%Z bl ps1line cfg spawn sts1 c1 in
          match r2 with
          | IOk =>
              let '(r3, c3, _) := subshell_leave sts2 c2 in
              VL [V_ires r1; V_ires r2; V_ires r3; VN (now (io c3)); VB (wr (io c3)); VB (unread c3)]
          | IUnclean _ => VL []          (* the offending output is compared by C01's init suite *)
          | _ => VL [V_ires r1; V_ires r2; VL []; VN (now (io c2)); VB (wr (io c2)); VB (unread c2)]
          end
      | IUnclean _ => VL []
      | _ => VL [V_ires r1; VL []; VL []; VN (now (io c1)); VB (wr (io c1)); VB (unread c1)]
      end
  end.

