(* SshScp.v -- model of SSHConnector._connect's ssh command line, linux.copy._scp_copy's scp command line and
   the host-pair dispatch of linux.copy.copy().  Hand-written from connector/ssh.py, linux/copy.py, linux/auth.py;
   tied to the code by props/C20.py (recording lab-host stand-ins).  Strings are lists of code points. *)
From TV Require Import Base.

Definition s_ssh : list N := [115; 115; 104]%N.   (* ssh *)
Definition s_scp : list N := [115; 99; 112]%N.   (* scp *)
Definition s_sshpass : list N := [115; 115; 104; 112; 97; 115; 115]%N.   (* sshpass *)
Definition s_o : list N := [45; 111]%N.   (* -o *)
Definition s_p : list N := [45; 112]%N.   (* -p *)
Definition s_P : list N := [45; 80]%N.   (* -P *)
Definition s_i : list N := [45; 105]%N.   (* -i *)
Definition s_batch : list N := [66; 97; 116; 99; 104; 77; 111; 100; 101; 61; 121; 101; 115]%N.   (* BatchMode=yes *)
Definition s_hk : list N := [83; 116; 114; 105; 99; 116; 72; 111; 115; 116; 75; 101; 121; 67; 104; 101; 99; 107; 105; 110; 103; 61; 110; 111]%N.   (* StrictHostKeyChecking=no *)
Definition s_cm : list N := [67; 111; 110; 116; 114; 111; 108; 77; 97; 115; 116; 101; 114; 61; 97; 117; 116; 111]%N.   (* ControlMaster=auto *)
Definition s_cp : list N := [67; 111; 110; 116; 114; 111; 108; 80; 101; 114; 115; 105; 115; 116; 61; 49; 48; 109]%N.   (* ControlPersist=10m *)
Definition s_cpath : list N := [67; 111; 110; 116; 114; 111; 108; 80; 97; 116; 104; 61]%N.   (* ControlPath= *)
Definition s_pc : list N := [47; 37; 67]%N.   (* /%C *)
Definition s_cpcmd : list N := [99; 112]%N.   (* cp *)

Definition AT : N := 64.    (* @ *)
Definition COLON : N := 58. (* : *)

Inductive auth : Type := ANone | AKey (k : list N) | APass (pw : list N).

(* the connection parameters of an ssh-style machine, as its properties return them *)
Record scfg : Type := mkCfg {
  c_port : list N;             (* str(port) *)
  c_user : list N;
  c_host : list N;
  c_ign : bool;                (* ignore_hostkey *)
  c_opts : list (list N);      (* ssh_config *)
  c_auth : auth;
  c_mux : bool                 (* use_multiplexing *)
}.

Definition oflat (opts : list (list N)) : list (list N) := flat_map (fun o => [s_o; o]) opts.
Definition hk_part (c : scfg) : list (list N) := if c_ign c then [s_o; s_hk] else [].
Definition mux_part (c : scfg) (muxdir : list N) : list (list N) :=
  if c_mux c then [s_o; s_cm; s_o; s_cp; s_o; s_cpath ++ muxdir ++ s_pc] else [].
Definition dest (c : scfg) : list N := c_user c ++ AT :: c_host c.

(* SSHConnector._connect: the argv handed to open_channel on the (cloned) jump host *)
Definition ssh_argv (c : scfg) (muxdir : list N) : list (list N) :=
  (match c_auth c with
   | ANone => [s_ssh; s_o; s_batch]
   | AKey k => [s_ssh; s_o; s_batch; s_i; k]
   | APass pw => [s_sshpass; s_p; pw; s_ssh]
   end)
  ++ hk_part c ++ mux_part c muxdir ++ [s_p; c_port c] ++ oflat (c_opts c) ++ [dest c].

(* _scp_copy: the argv handed to local_host.exec0 *)
Definition scp_argv (c : scfg) (muxdir : list N) (to_remote : bool) (localp remotep : list N) : list (list N) :=
  let base := [s_scp; s_P; c_port c] ++ hk_part c ++ oflat (c_opts c) ++ mux_part c muxdir in
  let withauth := match c_auth c with
                  | ANone => base ++ [s_o; s_batch]
                  | AKey k => base ++ [s_o; s_batch; s_i; k]
                  | APass pw => [s_sshpass; s_p; pw] ++ base
                  end in
  let rdest := dest c ++ COLON :: remotep in
  withauth ++ (if to_remote then [localp; rdest] else [rdest; localp]).

(* ------------------------------------------------------------------ reading a command line back *)
Record params : Type := mkPar {
  q_pass : option (list N);        (* password handed to sshpass *)
  q_prog : list N;                 (* ssh / scp *)
  q_port : option (list N);
  q_ident : option (list N);
  q_oopts : list (list N);         (* every -o value, in order *)
  q_pos : list (list N)            (* positional arguments *)
}.

Definition str_eqb := list_N_eqb.

Fixpoint parse_args (portflag : list N) (args : list (list N)) (p : params) : params :=
  match args with
  | f :: v :: rest =>
      if str_eqb f s_o then parse_args portflag rest (mkPar (q_pass p) (q_prog p) (q_port p) (q_ident p) (q_oopts p ++ [v]) (q_pos p))
      else if str_eqb f portflag then parse_args portflag rest (mkPar (q_pass p) (q_prog p) (Some v) (q_ident p) (q_oopts p) (q_pos p))
      else if str_eqb f s_i then parse_args portflag rest (mkPar (q_pass p) (q_prog p) (q_port p) (Some v) (q_oopts p) (q_pos p))
      else mkPar (q_pass p) (q_prog p) (q_port p) (q_ident p) (q_oopts p) (args)
  | _ => mkPar (q_pass p) (q_prog p) (q_port p) (q_ident p) (q_oopts p) args
  end.

Definition parse_cmd (argv : list (list N)) : option params :=
  match argv with
  | a :: rest =>
      if str_eqb a s_sshpass then
        match rest with
        | f :: pw :: prog :: rest' =>
            if str_eqb f s_p then
              Some (parse_args (if str_eqb prog s_scp then s_P else s_p) rest' (mkPar (Some pw) prog None None [] []))
            else None
        | _ => None
        end
      else Some (parse_args (if str_eqb a s_scp then s_P else s_p) rest (mkPar None a None None [] []))
  | [] => None
  end.

(* what the configuration says the parameters are *)
Definition cfg_oopts (c : scfg) (muxdir : list N) : list (list N) :=
  (match c_auth c with APass _ => [] | _ => [s_batch] end)
  ++ (if c_ign c then [s_hk] else [])
  ++ (if c_mux c then [s_cm; s_cp; s_cpath ++ muxdir ++ s_pc] else [])
  ++ c_opts c.
Definition cfg_ident (c : scfg) : option (list N) := match c_auth c with AKey k => Some k | _ => None end.
Definition cfg_pass (c : scfg) : option (list N) := match c_auth c with APass pw => Some pw | _ => None end.

(* ------------------------------------------------------------------ copy(): which branch, whose parameters *)
Inductive hkind : Type := KLocal | KSsh | KParamiko | KOther.

Record mhost : Type := mkHost {
  m_id : nat;            (* identity of the machine object *)
  m_cls : nat;           (* its class (for the same-host test isinstance(h1, type(h2)) either way) *)
  m_kind : hkind;
  m_cfg : scfg;          (* its own connection parameters (meaningful for KSsh / KParamiko) *)
  m_jump : nat           (* for KSsh: identity of the machine it is reached from (self.host) *)
}.

Inductive copyres : Type :=
| CCp (on : nat)                                         (* plain cp on the common host *)
| CScp (local_host : nat) (argv : list (list N))         (* scp run on local_host *)
| CNotImplemented.

Definition is_remote (h : mhost) : bool := match m_kind h with KSsh | KParamiko => true | _ => false end.

(* mirrors the if/elif chain of linux.copy.copy; every parameter is read from the host named here *)
Definition copy_model (muxdir : list N) (h1 h2 : mhost) (path1 path2 : list N) : copyres :=
  if Nat.eqb (m_cls h1) (m_cls h2) then CCp (m_id h1)
  else if (match m_kind h1 with KSsh => true | _ => false end) && Nat.eqb (m_jump h1) (m_id h2)
  then CScp (m_id h2) (scp_argv (m_cfg h1) muxdir false path2 path1)
  else if (match m_kind h2 with KSsh => true | _ => false end) && Nat.eqb (m_jump h2) (m_id h1)
  then CScp (m_id h1) (scp_argv (m_cfg h2) muxdir true path1 path2)
  else if (match m_kind h1 with KLocal => true | _ => false end) && is_remote h2
  then CScp (m_id h1) (scp_argv (m_cfg h2) muxdir true path1 path2)
  else if (match m_kind h2 with KLocal => true | _ => false end) && is_remote h1
  then CScp (m_id h2) (scp_argv (m_cfg h1) muxdir false path2 path1)
  else CNotImplemented.

(* ---- observation ---- *)
Definition V_args (l : list (list N)) : V := VL (map VB l).
Definition V_copy (r : copyres) : V :=
  match r with
  | CCp on => VL [VN 0; VNat on]
  | CScp lh argv => VL [VN 1; VNat lh; V_args argv]
  | CNotImplemented => VL [VN 2]
  end.

(* correspondence entry points *)
Definition ssh_model (case : scfg * list N) : V := V_args (ssh_argv (fst case) (snd case)).
Definition copy_case_model (case : list N * mhost * mhost * list N * list N) : V :=
  match case with (muxdir, h1, h2, p1, p2) => V_copy (copy_model muxdir h1 h2 p1 p2) end.
