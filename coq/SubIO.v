(* SubIO.v -- SubprocessChannelIO.read(n, timeout): the select(2) loop that waits for the pty to become readable,
   looks every MIN_READ_WAIT = 0.3 s whether the subprocess is still alive, and is bounded by end_time.
   Hand-written from tbot/machine/channel/subprocess.py; tied to /repo by correspondence (props/C06.py runs the real
   method with select / os.read / time / the process object replaced by a scripted world).
   Time unit here: 1/5120 s (0.3 s = 1536 units; the dyadic times of the harness are multiples of 5). *)
From TV Require Import Base.

Definition MINW : Z := 1536.

Inductive sres : Type :=
| SRead (t : Z)                   (* os.read is reached at time t (the pty is readable) *)
| SNoData (t : Z)                 (* os.read is reached although nothing is readable: BlockingIOError -> ChannelClosedError *)
| STimeoutAt (t : Z)
| SClosedAt (t : Z)               (* nothing to read and the process has exited *)
| SFuel.

(* the world: the pty becomes readable at `ready` (None: never), the process exits at `dies` (None: never) *)
Definition is_closed (dies : option Z) (now : Z) : bool :=
  match dies with Some d => (d <=? now)%Z | None => false end.

Fixpoint sel_loop (fuel : nat) (endt : option Z) (now : Z) (ready dies : option Z) : sres :=
  match fuel with
  | O => SFuel
  | S f =>
      let wait := match endt with
                  | None => Some MINW
                  | Some e => let r := Z.min MINW (e - now) in if (r <=? 0)%Z then None else Some r
                  end in
      match wait with
      | None => STimeoutAt now
      | Some w =>
          if match ready with Some a => (a <=? now + w)%Z | None => false end
          then SRead (match ready with Some a => Z.max now a | None => now end)
          else
            let now' := (now + w)%Z in
            if is_closed dies now' then SClosedAt now' else sel_loop f endt now' ready dies
      end
  end.

Definition sub_read (fuel : nat) (timeout : option Z) (now : Z) (ready dies : option Z) : sres :=
  if is_closed dies now then
    (if match ready with Some a => (a <=? now)%Z | None => false end then SRead now else SNoData now)
  else sel_loop fuel (option_map (fun T => now + T)%Z timeout) now ready dies.

Definition V_sres (r : sres) : V :=
  match r with
  | SRead t => VL [VN 0; VN t]
  | SNoData t => VL [VN 4; VN t]
  | STimeoutAt t => VL [VN 1; VN t]
  | SClosedAt t => VL [VN 2; VN t]
  | SFuel => VL [VN 9]
  end.

(* enough iterations for the loop to reach its end (a timeout, the data or the exit of the process); without any of
   them the real loop never ends: SFuel *)
Definition horizon (timeout : option Z) (now : Z) (ready dies : option Z) : Z :=
  let far (o : option Z) := match o with Some x => (x - now)%Z | None => 0%Z end in
  Z.max (match timeout with Some T => T | None => 0%Z end) (Z.max (far ready) (far dies)).

Definition fuel_for (timeout : option Z) (now : Z) (ready dies : option Z) : nat :=
  S (S (Z.to_nat (horizon timeout now ready dies / MINW))).

Definition subio_model (case : option Z * Z * option Z * option Z) : V :=
  match case with
  | (tmo, now, ready, dies) => V_sres (sub_read (fuel_for tmo now ready dies) tmo now ready dies)
  end.
