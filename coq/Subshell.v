(* Subshell.v -- an abstract model of nested subshell contexts (Bash.subshell / Ash.subshell): entering spawns a
   child shell that inherits a COPY of the parent's exported variables and working directory (shell options are
   not inherited); the context's `finally` sends `exit`, which drops the
   child, whether the body returned or raised.  Programs are trees of arbitrary shape and depth.  The model is tied
   to /repo by the end-to-end suite of props/C09.py, which runs the same programs (sets, cd, options, nested
   subshells, a raise anywhere) on the real bash and dash against a reference interpreter with this semantics. *)
From TV Require Import Base.

Record frame : Type := mkF { f_env : list (nat * nat); f_cwd : nat; f_opts : list nat }.
Definition stack := list frame.                  (* innermost shell first *)

Inductive sop : Type :=
| SSet (k v : nat)
| SCd (d : nat)
| SOpt (o : nat)
| SBoom                                        (* the test body raises here *)
| SSub (body : list sop) (catch : bool).        (* catch: the test wraps the context in try/except *)

Definition upd (g : frame -> frame) (st : stack) : stack :=
  match st with [] => [] | f :: rest => g f :: rest end.

Fixpoint run_op (o : sop) (st : stack) : stack * bool :=
  match o with
  | SSet k v => (upd (fun f => mkF ((k, v) :: f_env f) (f_cwd f) (f_opts f)) st, false)
  | SCd d => (upd (fun f => mkF (f_env f) d (f_opts f)) st, false)
  | SOpt o => (upd (fun f => mkF (f_env f) (f_cwd f) (o :: f_opts f)) st, false)
  | SBoom => (st, true)
  | SSub body catch =>
      match st with
      | [] => (st, false)
      | f :: rest =>
          let (st1, raised) :=
            (fix run_list (l : list sop) (s : stack) : stack * bool :=
               match l with
               | [] => (s, false)
               | x :: l' => let (s1, r1) := run_op x s in if r1 then (s1, true) else run_list l' s1
               end) body (mkF (f_env f) (f_cwd f) [] :: f :: rest) in
          (tl st1, raised && negb catch)       (* finally: exit -- the child shell is gone *)
      end
  end.

Fixpoint run_list (l : list sop) (s : stack) : stack * bool :=
  match l with
  | [] => (s, false)
  | x :: l' => let (s1, r1) := run_op x s in if r1 then (s1, true) else run_list l' s1
  end.

Lemma run_op_sub body catch f rest :
  run_op (SSub body catch) (f :: rest) =
  let (st1, raised) := run_list body (mkF (f_env f) (f_cwd f) [] :: f :: rest) in (tl st1, raised && negb catch).
Proof. reflexivity. Qed.

(* induction over programs of arbitrary nesting *)
Section Ind.
  Variable P : sop -> Prop.
  Hypothesis Hset : forall k v, P (SSet k v).
  Hypothesis Hcd : forall d, P (SCd d).
  Hypothesis Hopt : forall o, P (SOpt o).
  Hypothesis Hboom : P SBoom.
  Hypothesis Hsub : forall body catch, Forall P body -> P (SSub body catch).
  Fixpoint sop_ind' (o : sop) : P o :=
    match o with
    | SSet k v => Hset k v
    | SCd d => Hcd d
    | SOpt x => Hopt x
    | SBoom => Hboom
    | SSub body catch => Hsub body catch ((fix go (l : list sop) : Forall P l :=
                                 match l with [] => Forall_nil P | x :: l' => Forall_cons x (sop_ind' x) (go l') end) body)
    end.
End Ind.

(* an operation touches the innermost shell only: depth and every outer shell are as before *)
Definition local (o : sop) : Prop :=
  forall st st' r, run_op o st = (st', r) -> length st' = length st /\ tl st' = tl st.

Lemma upd_local g st : length (upd g st) = length st /\ tl (upd g st) = tl st.
Proof. destruct st; cbn; auto. Qed.

Lemma run_list_local body : Forall local body ->
  forall st st' r, run_list body st = (st', r) -> length st' = length st /\ tl st' = tl st.
Proof.
  induction 1 as [|x l Hx _ IH]; intros st st' r H; cbn [run_list] in H.
  - injection H as <- <-. auto.
  - destruct (run_op x st) as [s1 r1] eqn:E. destruct (Hx _ _ _ E) as [L1 T1].
    destruct r1; [injection H as <- <-; auto|].
    destruct (IH _ _ _ H) as [L2 T2]. split; congruence.
Qed.

Theorem every_op_local : forall o, local o.
Proof.
  apply sop_ind'; unfold local.
  - intros k v st st' r [= <- <-]. apply upd_local.
  - intros d st st' r [= <- <-]. apply upd_local.
  - intros o st st' r [= <- <-]. apply upd_local.
  - intros st st' r [= <- <-]. auto.
  - intros body catch Hb st st' r H. destruct st as [|f rest]; [injection H as <- <-; auto|].
    rewrite run_op_sub in H. destruct (run_list body (mkF (f_env f) (f_cwd f) [] :: f :: rest)) as [st1 raised] eqn:E. injection H as <- <-.
    destruct (run_list_local body Hb _ _ _ E) as [L T]. cbn [tl length] in *.
    destruct st1 as [|g st1']; [cbn in L; lia|]. cbn [tl] in *. subst st1'. cbn. auto.
Qed.

(* ISOLATION: whatever the body of a subshell context does -- sets, cd, options, further subshells to any depth --
   and whether it returns or raises at any point, the shell the context was entered from is in exactly the state
   it was in before, and so is every shell around it *)
Theorem subshell_isolates body catch st :
  st <> [] -> fst (run_op (SSub body catch) st) = st.
Proof.
  intros Hne. destruct st as [|f rest]; [congruence|]. rewrite run_op_sub.
  destruct (run_list body (mkF (f_env f) (f_cwd f) [] :: f :: rest)) as [st1 raised] eqn:E. cbn [fst].
  assert (Hb : Forall local body) by (apply Forall_forall; intros x _; apply every_op_local).
  destruct (run_list_local body Hb _ _ _ E) as [L T]. cbn [tl] in T.
  destruct st1 as [|g st1']; [cbn in L; lia|]. exact T.
Qed.

(* the exception, if any, still reaches the caller *)
Theorem subshell_propagates body st f rest : st = f :: rest ->
  snd (run_op (SSub body false) st) = snd (run_list body (mkF (f_env f) (f_cwd f) [] :: f :: rest)).
Proof. intros ->. rewrite run_op_sub. destruct (run_list body _) as [s1 r]; cbn. apply andb_true_r. Qed.

Example subshell_example :
  run_list [SSet 1 10; SSub [SSet 1 20; SCd 5; SSub [SOpt 3; SBoom; SSet 1 30] false; SSet 1 40] true; SSet 2 7] [mkF [] 0 []]
  = ([mkF [(2, 7); (1, 10)] 0 []], false).
Proof. reflexivity. Qed.

(* ---- observation for the correspondence with the real shells ---- *)
Fixpoint lookup (k : nat) (e : list (nat * nat)) : nat :=
  match e with [] => 0 | (k', v) :: e' => if Nat.eqb k k' then v else lookup k e' end.

(* case: program, names to report; result: value ids of the names, cwd id, is option 1 set, raised *)
Definition subshell_model (case : list sop * list nat) : V :=
  let (prog, names) := case in
  let (st, raised) := run_list prog [mkF [] 0 []] in
  match st with
  | f :: _ => VL [VL (map (fun k => VNat (lookup k (f_env f))) names); VNat (f_cwd f);
                  VBool (existsb (Nat.eqb 1) (f_opts f)); VBool raised]
  | [] => VL []
  end.
