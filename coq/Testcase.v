(* Testcase.v -- model of tbot's testcase blocks (tbot/__init__.py:_testcase_block, decorators.py) and of the
   two command-line drivers' verdict logic (main.py / newbot.py), over trees of nested testcases.
   Tied to the code by props/C16.py, which renders every tree as a Python module and runs both CLIs. *)
From TV Require Import Base.

Inductive beh : Type := BPass | BRaise | BSkip | BKbd.

(* a testcase: its name, how it is declared (0 decorator, 1 named decorator, 2 context-manager form), the
   children it calls in order (flag = the call is wrapped in `try: ... except Exception: pass`) and what its
   own body does after the children *)
Inductive tnode : Type :=
| TNode (name form : nat) (children : list (bool * tnode)) (b : beh).

Inductive out : Type := ONone | OExc | OKbd.   (* what escapes a call: nothing, an Exception, KeyboardInterrupt *)

Inductive tev : Type :=
| TBegin (name : nat)
| TEnd (name : nat) (success skipped : bool)
| TExc (kbd : bool)
| TTbotEnd (success : bool).

(* the calls a body makes, in order; `run` is the semantics of a single call *)
Section Children.
Variable run : tnode -> out * list tev.
Fixpoint run_children (cs : list (bool * tnode)) : out * list tev :=
  match cs with
  | [] => (ONone, [])
  | (catch, c) :: rest =>
      let (o, e) := run c in
      match o with
      | ONone => let (o2, e2) := run_children rest in (o2, e ++ e2)
      | OExc => if catch then let (o2, e2) := run_children rest in (o2, e ++ e2) else (OExc, e)
      | OKbd => (OKbd, e)
      end
  end.
End Children.

(* how a body that ran its children with outcome oc and then behaves as b ends *)
Definition body_out (oc : out) (b : beh) : out * bool * bool :=      (* escaping, success flag, skipped flag *)
  match oc with
  | ONone => match b with
             | BPass => (ONone, true, false)
             | BRaise => (OExc, false, false)
             | BSkip => (ONone, true, true)
             | BKbd => (OKbd, false, false)
             end
  | o => (o, false, false)
  end.

Fixpoint run_node (t : tnode) : out * list tev :=
  match t with
  | TNode name form cs b =>
      let (oc, ec) := run_children run_node cs in
      match body_out oc b with
      | (o, s, k) => (o, TBegin name :: ec ++ [TEnd name s k])
      end
  end.

(* the command line: top-level testcases in order; the first escaping exception ends the run *)
Fixpoint run_cli (ts : list tnode) : list tev * Z :=
  match ts with
  | [] => ([TTbotEnd true], 0%Z)
  | t :: rest =>
      let (o, e) := run_node t in
      match o with
      | ONone => let (e2, code) := run_cli rest in (e ++ e2, code)
      | OExc => (e ++ [TExc false; TTbotEnd false], 1%Z)
      | OKbd => (e ++ [TExc true; TTbotEnd false], 130%Z)
      end
  end.

Definition V_tev (e : tev) : V :=
  match e with
  | TBegin n => VL [VN 1; VNat n]
  | TEnd n s k => VL [VN 2; VNat n; VBool s; VBool k]
  | TExc k => VL [VN 3; VBool k]
  | TTbotEnd s => VL [VN 4; VBool s]
  end.

Definition cli_model (ts : list tnode) : V :=
  let (evs, code) := run_cli ts in VL [VL (map V_tev evs); VN code].
