(* Utf8.v -- model of CPython's bytes.decode("utf-8", errors="replace") (code points as N)
   and of str.encode("utf-8").  Validated against CPython by harness (props/envcheck.py). *)
From TV Require Import Base.

Definition REPL : N := 65533.

Definition is_cont (b : N) : bool := (128 <=? b)%N && (b <=? 191)%N.

(* for a lead byte: number of continuation bytes, and the allowed range of the FIRST continuation *)
Definition lead_info (b : N) : option (nat * N * N) :=
  if (b <? 194)%N then None                      (* 80..BF stray, C0 C1 overlong *)
  else if (b <=? 223)%N then Some (1%nat, 128, 191)%N
  else if (b =? 224)%N then Some (2%nat, 160, 191)%N
  else if (b <=? 236)%N then Some (2%nat, 128, 191)%N
  else if (b =? 237)%N then Some (2%nat, 128, 159)%N
  else if (b <=? 239)%N then Some (2%nat, 128, 191)%N
  else if (b =? 240)%N then Some (3%nat, 144, 191)%N
  else if (b <=? 243)%N then Some (3%nat, 128, 191)%N
  else if (b =? 244)%N then Some (3%nat, 128, 143)%N
  else None.

Definition lead_payload (b : N) (k : nat) : N :=
  match k with
  | 1%nat => b - 192
  | 2%nat => b - 224
  | _ => b - 240
  end%N.

(* consume up to k continuation bytes; returns (accumulated code point, complete?, rest) *)
Fixpoint conts (k : nat) (lo hi acc : N) (l : list N) : N * bool * list N :=
  match k with
  | O => (acc, true, l)
  | S k' =>
      match l with
      | c :: l' =>
          if (lo <=? c)%N && (c <=? hi)%N
          then conts k' 128 191 (acc * 64 + (c - 128))%N l'
          else (acc, false, l)
      | [] => (acc, false, l)
      end
  end.

Fixpoint utf8_dec_fuel (fuel : nat) (l : list N) : list N :=
  match fuel with
  | O => []
  | S f =>
      match l with
      | [] => []
      | b :: l' =>
          if (b <? 128)%N then b :: utf8_dec_fuel f l'
          else match lead_info b with
               | None => REPL :: utf8_dec_fuel f l'
               | Some (k, lo, hi) =>
                   match conts k lo hi (lead_payload b k) l' with
                   | (cp, true, rest) => cp :: utf8_dec_fuel f rest
                   | (_, false, rest) => REPL :: utf8_dec_fuel f rest
                   end
               end
      end
  end.
Definition utf8_dec (l : list N) : list N := utf8_dec_fuel (length l) l.

(* str.encode("utf-8") for code points (surrogates excluded by the callers) *)
Definition utf8_enc1 (c : N) : list N :=
  if (c <? 128)%N then [c]
  else if (c <? 2048)%N then [192 + c / 64; 128 + c mod 64]%N
  else if (c <? 65536)%N then [224 + c / 4096; 128 + (c / 64) mod 64; 128 + c mod 64]%N
  else [240 + c / 262144; 128 + (c / 4096) mod 64; 128 + (c / 64) mod 64; 128 + c mod 64]%N.
Definition utf8_enc (s : list N) : list N := flat_map utf8_enc1 s.

(* text = bytes.decode("utf-8","replace").replace("\r\n","\n").replace("\n\r","\n") *)
Definition text (l : list N) : list N := norm (utf8_dec l).
