(* Utf8Lemmas.v -- decoding the UTF-8 encoding of valid text gives back the text, also with anything behind it. *)
From TV Require Import Base BaseLemmas Utf8.
From Coq Require Import ZifyBool ZifyN.
Ltac Zify.zify_post_hook ::= Z.to_euclidean_division_equations.

Local Open Scope N_scope.

(* Unicode scalar values: below 0x110000 and not a surrogate *)
Definition scalar (c : N) : Prop := c < 1114112 /\ ~ (55296 <= c <= 57343).

(* ---- more fuel than bytes makes no difference ---- *)
Lemma conts_length k : forall lo hi acc l cp b rest,
  conts k lo hi acc l = (cp, b, rest) -> (length rest <= length l)%nat.
Proof.
  induction k as [|k IH]; intros lo hi acc l cp b rest H; cbn [conts] in H.
  - injection H as _ _ <-. lia.
  - destruct l as [|c l']; [injection H as _ _ <-; cbn; lia|].
    destruct ((lo <=? c) && (c <=? hi)).
    + apply IH in H. cbn [length]. lia.
    + injection H as _ _ <-. lia.
Qed.

Lemma dec_fuel_indep : forall f1 f2 l, (length l <= f1)%nat -> (length l <= f2)%nat ->
  utf8_dec_fuel f1 l = utf8_dec_fuel f2 l.
Proof.
  induction f1 as [|f1 IH]; intros f2 l H1 H2.
  - destruct l; [destruct f2; reflexivity | cbn in H1; lia].
  - destruct l as [|b l']; [destruct f2; reflexivity|]. cbn [length] in *.
    destruct f2 as [|f2]; [lia|]. cbn [utf8_dec_fuel].
    destruct (b <? 128); [rewrite (IH f2) by lia; reflexivity|].
    destruct (lead_info b) as [[[k lo] hi]|]; [|rewrite (IH f2) by lia; reflexivity].
    destruct (conts k lo hi (lead_payload b k) l') as [[cp ok] rest] eqn:E.
    pose proof (conts_length _ _ _ _ _ _ _ _ E) as Hr.
    destruct ok; rewrite (IH f2 rest) by lia; reflexivity.
Qed.

Lemma dec_fuel_enough f l : (length l <= f)%nat -> utf8_dec_fuel f l = utf8_dec l.
Proof. intros H. unfold utf8_dec. apply dec_fuel_indep; lia. Qed.

Lemma dec_cons b l : utf8_dec (b :: l) =
  if b <? 128 then b :: utf8_dec l
  else match lead_info b with
       | None => REPL :: utf8_dec l
       | Some (k, lo, hi) =>
           match conts k lo hi (lead_payload b k) l with
           | (cp, true, rest) => cp :: utf8_dec rest
           | (_, false, rest) => REPL :: utf8_dec rest
           end
       end.
Proof.
  unfold utf8_dec at 1. cbn [length utf8_dec_fuel].
  destruct (b <? 128); [rewrite dec_fuel_enough by lia; reflexivity|].
  destruct (lead_info b) as [[[k lo] hi]|]; [|rewrite dec_fuel_enough by lia; reflexivity].
  destruct (conts k lo hi (lead_payload b k) l) as [[cp ok] rest] eqn:E.
  pose proof (conts_length _ _ _ _ _ _ _ _ E) as Hr.
  destruct ok; rewrite dec_fuel_enough by lia; reflexivity.
Qed.

(* ---- one character ---- *)
Lemma dec_enc1 c r : scalar c -> utf8_dec (utf8_enc1 c ++ r) = c :: utf8_dec r.
Proof.
  intros [Hc Hs]. unfold utf8_enc1.
  destruct (N.ltb_spec c 128) as [L1|L1].
  { cbn [app]. rewrite dec_cons. destruct (N.ltb_spec c 128); [reflexivity | lia]. }
  destruct (N.ltb_spec c 2048) as [L2|L2].
  { cbn [app]. rewrite dec_cons.
    assert (B0 : 194 <= 192 + c / 64 <= 223) by lia.
    destruct (N.ltb_spec (192 + c / 64) 128); [lia|].
    unfold lead_info. destruct (N.ltb_spec (192 + c / 64) 194); [lia|]. destruct (N.leb_spec (192 + c / 64) 223); [|lia].
    cbn [conts lead_payload].
    assert (B1 : 128 <= 128 + c mod 64 <= 191) by lia.
    destruct (N.leb_spec 128 (128 + c mod 64)); [|lia]. destruct (N.leb_spec (128 + c mod 64) 191); [|lia]. cbn [andb].
    f_equal. lia. }
  destruct (N.ltb_spec c 65536) as [L3|L3].
  { cbn [app]. rewrite dec_cons.
    set (b0 := 224 + c / 4096). set (b1 := 128 + (c / 64) mod 64). set (b2 := 128 + c mod 64).
    assert (B0 : 224 <= b0 <= 239) by (unfold b0; lia).
    destruct (N.ltb_spec b0 128); [lia|].
    assert (B2 : 128 <= b2 <= 191) by (unfold b2; lia).
    assert (R : (b0 - 224) * 4096 + (b1 - 128) * 64 + (b2 - 128) = c) by (unfold b0, b1, b2; lia).
    assert (LI : exists lo hi, lead_info b0 = Some (2%nat, lo, hi) /\ lo <= b1 <= hi /\ 128 <= lo /\ hi <= 191).
    { unfold lead_info. destruct (N.ltb_spec b0 194); [lia|]. destruct (N.leb_spec b0 223); [lia|].
      destruct (N.eqb_spec b0 224).
      - exists 160, 191. split; [reflexivity|]. unfold b0, b1 in *. lia.
      - destruct (N.leb_spec b0 236).
        + exists 128, 191. split; [reflexivity|]. unfold b1. lia.
        + destruct (N.eqb_spec b0 237).
          * exists 128, 159. split; [reflexivity|]. unfold b0, b1 in *. lia.
          * destruct (N.leb_spec b0 239); [|lia]. exists 128, 191. split; [reflexivity|]. unfold b1. lia. }
    destruct LI as (lo & hi & -> & Hb1 & Hlo & Hhi).
    cbn [conts lead_payload].
    destruct (N.leb_spec lo b1); [|lia]. destruct (N.leb_spec b1 hi); [|lia]. cbn [andb].
    destruct (N.leb_spec 128 b2); [|lia]. destruct (N.leb_spec b2 191); [|lia]. cbn [andb].
    f_equal. lia. }
  { cbn [app]. rewrite dec_cons.
    set (b0 := 240 + c / 262144). set (b1 := 128 + (c / 4096) mod 64). set (b2 := 128 + (c / 64) mod 64). set (b3 := 128 + c mod 64).
    assert (B0 : 240 <= b0 <= 244) by (unfold b0; lia).
    destruct (N.ltb_spec b0 128); [lia|].
    assert (B2 : 128 <= b2 <= 191) by (unfold b2; lia).
    assert (B3 : 128 <= b3 <= 191) by (unfold b3; lia).
    assert (R : (((b0 - 240) * 64 + (b1 - 128)) * 64 + (b2 - 128)) * 64 + (b3 - 128) = c) by (unfold b0, b1, b2, b3; lia).
    assert (LI : exists lo hi, lead_info b0 = Some (3%nat, lo, hi) /\ lo <= b1 <= hi /\ 128 <= lo /\ hi <= 191).
    { unfold lead_info. destruct (N.ltb_spec b0 194); [lia|]. destruct (N.leb_spec b0 223); [lia|].
      destruct (N.eqb_spec b0 224); [lia|]. destruct (N.leb_spec b0 236); [lia|]. destruct (N.eqb_spec b0 237); [lia|].
      destruct (N.leb_spec b0 239); [lia|].
      destruct (N.eqb_spec b0 240).
      - exists 144, 191. split; [reflexivity|]. unfold b0, b1 in *. lia.
      - destruct (N.leb_spec b0 243).
        + exists 128, 191. split; [reflexivity|]. unfold b1. lia.
        + destruct (N.eqb_spec b0 244); [|lia]. exists 128, 143. split; [reflexivity|]. unfold b0, b1 in *. lia. }
    destruct LI as (lo & hi & -> & Hb1 & Hlo & Hhi).
    cbn [conts lead_payload].
    destruct (N.leb_spec lo b1); [|lia]. destruct (N.leb_spec b1 hi); [|lia]. cbn [andb].
    destruct (N.leb_spec 128 b2); [|lia]. destruct (N.leb_spec b2 191); [|lia]. cbn [andb].
    destruct (N.leb_spec 128 b3); [|lia]. destruct (N.leb_spec b3 191); [|lia]. cbn [andb].
    f_equal. lia. }
Qed.

(* ---- text ---- *)
Theorem utf8_dec_enc_app s r : Forall scalar s -> utf8_dec (utf8_enc s ++ r) = s ++ utf8_dec r.
Proof.
  induction 1 as [|c s Hc _ IH]; [reflexivity|]. unfold utf8_enc in *. cbn [flat_map].
  rewrite <- app_assoc, dec_enc1 by exact Hc. rewrite IH. reflexivity.
Qed.

Theorem utf8_roundtrip s : Forall scalar s -> utf8_dec (utf8_enc s) = s.
Proof. intros H. rewrite <- (app_nil_r (utf8_enc s)), utf8_dec_enc_app by exact H. cbn. apply app_nil_r. Qed.
