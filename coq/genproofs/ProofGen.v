(* ProofGen.v -- the definitions that tools/translate.py regenerates from the CURRENT source of the repository on every
   run (Gen.v) are the ones the theorems speak about.  Hand-written and stable; it is compiled against the freshly
   generated Gen.v by the C01, C09 and C19 checks.  When the source changes the quoting of U-Boot arguments, a
   black-list, the prompt or a line of the shell initialisation, a proof below no longer goes through. *)
From TV Require Import Base BaseLemmas Utf8 Regex Channel Hush Session Sh SubIO Boot LogEvent Base64 Proxy PathIO SshScp.
From TVG Require Import Gen.
From Coq Require Import ZifyBool ZifyN.

(* ---- uboot.py: _hush_quote ---- *)
Lemma gen_is_safe_model c : gen_is_safe c = is_safe c.
Proof.
  unfold gen_is_safe, is_safe. cbn [mem_N existsb].
  destruct (N.lt_ge_cases c 128) as [H|H].
  - (* ASCII: decided by evaluation *)
    assert (A : forallb (fun n => Bool.eqb (gen_is_safe (N.of_nat n)) (is_safe (N.of_nat n))) (seq 0 128) = true) by (vm_compute; reflexivity).
    rewrite forallb_forall in A. specialize (A (N.to_nat c)). rewrite N2Nat.id in A.
    assert (I : In (N.to_nat c) (seq 0 128)) by (apply in_seq; lia).
    apply Bool.eqb_prop in A; [|exact I]. unfold gen_is_safe, is_safe in A. cbn [mem_N existsb] in A. exact A.
  - (* beyond ASCII both classes are empty (re.ASCII) *)
    repeat match goal with
           | |- context [(?a <=? c)%N] => let Q := fresh in destruct (N.leb_spec a c) as [Q|Q]; cbn [andb orb]
           | |- context [(c <=? ?a)%N] => let Q := fresh in destruct (N.leb_spec c a) as [Q|Q]; cbn [andb orb]; try lia
           | |- context [(c =? ?a)%N] => let Q := fresh in destruct (N.eqb_spec c a) as [Q|Q]; cbn [andb orb]; try lia
           end; reflexivity.
Qed.

Lemma gen_reps_model s : flat_map gen_rep1 (flat_map gen_rep0 s) = flat_map esc_char s.
Proof.
  induction s as [|c s IH]; [reflexivity|]. cbn [flat_map]. rewrite flat_map_app, IH. f_equal.
  unfold gen_rep0, gen_rep1, esc_char.
  destruct (N.eqb_spec c 92) as [->|H1]; [reflexivity|].
  destruct (N.eqb_spec c 39) as [->|H2]; [reflexivity|].
  cbn [flat_map app]. destruct (N.eqb_spec c 39); [congruence | reflexivity].
Qed.

Theorem gen_hush_quote_is_the_model s : gen_hush_quote s = hush_quote s.
Proof.
  unfold gen_hush_quote, hush_quote. destruct s as [|c s]; [reflexivity|].
  assert (F : forallb gen_is_safe (c :: s) = forallb is_safe (c :: s)).
  { generalize (c :: s). induction l as [|x l IH]; [reflexivity|]. cbn [forallb]. rewrite gen_is_safe_model, IH. reflexivity. }
  rewrite F, gen_reps_model. reflexivity.
Qed.
Print Assumptions gen_hush_quote_is_the_model.

(* ---- bash.py / ash.py / util.py: the constants of the shell initialisation ---- *)
Theorem gen_blacklists_are_the_model : GEN_BASH_BL = BASH_BLACKLIST /\ GEN_ASH_BL = ASH_BLACKLIST.
Proof. split; reflexivity. Qed.
Print Assumptions gen_blacklists_are_the_model.

Theorem gen_prompts_are_the_model : GEN_BASH_PROMPT = TBOT_PROMPT /\ GEN_ASH_PROMPT = TBOT_PROMPT.
Proof. split; reflexivity. Qed.
Print Assumptions gen_prompts_are_the_model.

Theorem gen_probe_and_sanity_are_the_model :
  GEN_PROBE = PROBE /\ GEN_PROBE_ANSWER = PROBE_ANSWER /\ GEN_SANITY = SANITY /\ GEN_SANITY_ANSWER = SANITY_ANSWER.
Proof. repeat split; reflexivity. Qed.
Print Assumptions gen_probe_and_sanity_are_the_model.

(* the probe loop of the model is the loop of the source with the source's line, answer and timeouts: the first wait
   (0.2 s = 205 ticks, the value the models init_model / subshell_sim_model pass to init_shell) and 3 s for every retry *)
Theorem gen_probe_loop_is_the_model :
  GEN_PROBE_FIRST_TMO = 205%Z /\
  forall f t sts c,
    wait_for_shell (S f) t sts c =
    match line_nrb GEN_PROBE sts c with
    | (Ret _, c1, sts1) =>
        match expect [SLit GEN_PROBE_ANSWER] (Some t) c1 with
        | (Ret _, c2) => (IOk, c2, sts1)
        | (ETimeout, c2) => wait_for_shell f GEN_PROBE_RETRY_TMO sts1 c2
        | (e, c2) => (IErr (lift_err e), c2, sts1)
        end
    | (e, c1, sts1) => (IErr e, c1, sts1)
    end.
Proof. split; [reflexivity|]. intros f t sts c. reflexivity. Qed.
Print Assumptions gen_probe_loop_is_the_model.

(* the first line _init_shell sends is the PS1 line of the model; every later line is free of black-listed bytes
   (so the model's precondition "the configuration lines pass the black-list" holds for the lines of the source) *)
Theorem gen_init_lines_are_the_model :
  hd_error GEN_BASH_LINES = Some (0, PS1_LINE) /\ hd_error GEN_ASH_LINES = Some (0, PS1_LINE) /\
  forallb (fun l => negb (any_in BASH_BLACKLIST (snd l ++ [49; 48; 50; 52; 13]%N))) GEN_BASH_LINES = true /\
  forallb (fun l => negb (any_in ASH_BLACKLIST (snd l ++ [49; 48; 50; 52; 13]%N))) GEN_ASH_LINES = true.
Proof. repeat split; vm_compute; reflexivity. Qed.
Print Assumptions gen_init_lines_are_the_model.

(* ---- channel.py / subprocess.py: chunk sizes, the echo length of send(read_back=True), the select slice ---- *)
Theorem gen_channel_constants_are_the_model :
  GEN_READ_CHUNK_SIZE = READ_CHUNK_SIZE /\ GEN_SEND_SLICE = SEND_SLICE /\ GEN_MINW = MINW /\
  (forall s, gen_readback_len s = readback_len s).
Proof. repeat split. Qed.
Print Assumptions gen_channel_constants_are_the_model.

(* ---- board/linux.py, board/uboot.py: what the bring-up waits for and how it polls ---- *)
Theorem gen_board_constants_are_the_model :
  GEN_LOGIN_P = LOGIN_P /\ GEN_PASSWORD_P = PASSWORD_P /\ GEN_ASKFIRST_P = ASKFIRST_P /\
  gen_autoboot_re = AUTOBOOT_RE /\ GEN_UB_BL = UB_BLACKLIST /\ GEN_POLL = HALF /\ GEN_POLL_SLEEP = HALF.
Proof. repeat split. Qed.
Print Assumptions gen_board_constants_are_the_model.

(* ---- log.py: EventIO.write ---- *)
Theorem gen_sanitize_is_the_model : forall s, gen_sanitize s = sanitize s.
Proof. intros s. unfold gen_sanitize, sanitize, ESC. cbv zeta. reflexivity. Qed.
Print Assumptions gen_sanitize_is_the_model.

(* ---- path.py: write_bytes ---- *)
Theorem gen_write_bytes_constants_are_the_model :
  (forall d, chunks GEN_B64_WIDTH (b64enc d) = b64_lines d) /\ GEN_TEE_STR = TEE_STR /\
  firstn 3 GEN_WRITE_BYTES_CMD = [[98; 97; 115; 101; 54; 52]; [45; 100]; [45]]%N /\            (* base64 -d - *)
  nth_error GEN_WRITE_BYTES_CMD 4 = Some [116; 101; 101]%N.                                       (* ... | tee *)
Proof. repeat split. Qed.
Print Assumptions gen_write_bytes_constants_are_the_model.

(* ---- the status command of exec (Linux shells and U-Boot) and U-Boot's crc32 work-around ---- *)
Theorem gen_status_command_is_the_model :
  GEN_ECHO_Q = ECHO_Q /\ GEN_UB_ECHO_Q = ECHO_Q /\
  forall args c, gen_ub_override args c = ub_override args c.
Proof. split; [reflexivity|]. split; [reflexivity|]. intros args c. reflexivity. Qed.
Print Assumptions gen_status_command_is_the_model.

(* ---- util.posix_environment: the line env(var, value) sends, the line env(var) sends, the slice of its result ---- *)
Theorem gen_env_lines_are_the_model :
  (forall var value, gen_export_line var value = export_line var value) /\
  (forall var, gen_get_line var = get_line var) /\
  (forall out, drop_last GEN_GET_DROP out = get_slice out).
Proof.
  split; [intros var value; reflexivity|]. split; [intros var; reflexivity|]. intros out; reflexivity.
Qed.
Print Assumptions gen_env_lines_are_the_model.

(* ---- connector/ssh.py: the argv SSHConnector._connect hands to open_channel, for EVERY configuration ---- *)
Theorem gen_ssh_argv_is_the_model :
  forall c muxdir, gen_ssh_argv c muxdir = ssh_argv c muxdir.
Proof.
  intros c muxdir. unfold gen_ssh_argv, ssh_argv, hk_part, mux_part, oflat, dest.
  destruct (c_auth c), (c_ign c), (c_mux c); reflexivity.
Qed.
Print Assumptions gen_ssh_argv_is_the_model.

(* ---- linux/copy.py: the argv _scp_copy hands to exec0, for EVERY configuration, direction and pair of paths ---- *)
Theorem gen_scp_argv_is_the_model :
  forall c muxdir to_remote localp remotep,
  gen_scp_argv c muxdir to_remote localp remotep = scp_argv c muxdir to_remote localp remotep.
Proof.
  intros c muxdir to_remote localp remotep.
  unfold gen_scp_argv, scp_argv, hk_part, mux_part, oflat, dest. cbv zeta.
  destruct (c_auth c), (c_ign c), (c_mux c), to_remote; cbn [app]; rewrite <- ?app_assoc; cbn [app]; reflexivity.
Qed.
Print Assumptions gen_scp_argv_is_the_model.

(* ---- board/uboot.py: UBootShell.env (setenv / printenv and the slice of the printed line) ---- *)
Theorem gen_ub_env_is_the_model :
  forall var value sts c, gen_ub_env var value sts c = ub_env var value sts c.
Proof. intros var value sts c. reflexivity. Qed.
Print Assumptions gen_ub_env_is_the_model.

(* ---- exec0() raises iff the status differs from 0, test() is (status == 0): Bash, Ash, UBootShell ---- *)
Theorem gen_exec0_and_test_are_the_model :
  (forall args sts c, gen_bash_exec0 args sts c = lx_exec0 args sts c) /\
  (forall args sts c, gen_ash_exec0 args sts c = lx_exec0 args sts c) /\
  (forall args sts c, gen_ub_exec0 args sts c = ub_exec0 args sts c) /\
  (forall args sts c, gen_bash_test args sts c = lx_test args sts c) /\
  (forall args sts c, gen_ash_test args sts c = lx_test args sts c).
Proof.
  split; [|split; [|split; [|split]]]; intros args sts c.
  - unfold gen_bash_exec0, lx_exec0. destruct (lx_exec args sts c) as [[[st out| |] c'] sts']; try reflexivity. destruct (st =? 0)%Z; reflexivity.
  - unfold gen_ash_exec0, lx_exec0. destruct (lx_exec args sts c) as [[[st out| |] c'] sts']; try reflexivity. destruct (st =? 0)%Z; reflexivity.
  - unfold gen_ub_exec0, ub_exec0. destruct (ub_exec args sts c) as [[[st out| |] c'] sts']; try reflexivity. destruct (st =? 0)%Z; reflexivity.
  - reflexivity.
  - reflexivity.
Qed.
Print Assumptions gen_exec0_and_test_are_the_model.
