(* C01 placeholder, replaced below *)
From TV Require Import Base.
Theorem C01_placeholder : True. Proof. exact I. Qed.
Print Assumptions C01_placeholder.
