(* C01 -- Linux shell commands get exactly the given args; output and status are exact.
   Property theorems only; proofs are in ProofC01.v and ProofSession.v.  sh_words (the shell's word splitting) and
   tty_echo (the line discipline's echo) are environment models, validated against the real bash, dash and a real
   pty on every run (see Sh.v). *)
From TV Require Import Base Utf8 Regex Channel ChannelLemmas Hush Session ProofSession Sh ProofC01 ProofC09b ProofC04b ProofInit ProofC18c ProofInitRetry.

(* (1) no word splitting, globbing, expansion or injection: the shell splits the line tbot sends into exactly the
       given strings, one argument per string -- for every list of strings without NUL *)
Theorem C01_quoting_is_lossless :
  forall args, Forall nonul args -> sh_words (sh_escape args) = Some args.
Proof. exact sh_quote_roundtrip. Qed.
Print Assumptions C01_quoting_is_lossless.

Theorem C01_bytes_sent_split_into_the_arguments :
  forall args, Forall nonul args -> sh_words (utf8_enc (sh_escape args)) = Some (map utf8_enc args).
Proof. exact sh_sent_roundtrip. Qed.
Print Assumptions C01_bytes_sent_split_into_the_arguments.

(* (2) the read-back length is exactly the length of the tty's echo, for EVERY payload (control bytes, CR, LF
       doubling) once the caret notation is off ... *)
Theorem C01_readback_length_is_echo_length :
  forall s, length (tty_echo false s) = readback_len s.
Proof. exact echo_len_noctl. Qed.
Print Assumptions C01_readback_length_is_echo_length.

(* ... and with ECHOCTL only for payloads without control characters (the defect repaired by `stty -echoctl`) *)
Theorem C01_readback_length_with_echoctl_refuted :
  exists s, length (tty_echo true s) <> readback_len s.
Proof. exact echo_len_ctl_refuted. Qed.
Print Assumptions C01_readback_length_with_echoctl_refuted.

(* (3) exec: for EVERY fragmentation and timing of the console's reaction and every partial-write behaviour the
       result is exactly the program's output (CR LF normalised) and the status printed for `echo $?`; exactly the two
       lines are sent and the channel is in sync again (no residue for the next command) *)
Theorem C01_exec_exact :
  forall args P c st1 st2 sts out ds,
  insync c -> prompt c = Some (SLit P) -> P <> [] ->
  Forall nonul args ->
  any_in (blacklist c) (utf8_enc (sh_escape args) ++ [CR]) = false ->
  any_in (blacklist c) (ECHO_Q ++ [CR]) = false ->
  wf_pend st1 -> cat st1 = tty_echo false (utf8_enc (sh_escape args) ++ [CR]) ++ onlcr out ++ P ->
  prompt_only_at_end P (onlcr out) ->
  wf_pend st2 -> cat st2 = tty_echo false (ECHO_Q ++ [CR]) ++ (ds ++ [CR; LF]) ++ P ->
  all_digits ds -> ds <> [] -> prompt_only_at_end P (ds ++ [CR; LF]) ->
  exists c',
    lx_exec args (st1 :: st2 :: sts) c = (XOk (dec_val ds) (text (onlcr out)), c', sts) /\
    insync c' /\
    wr (io c') = wr (io c) ++ (utf8_enc (sh_escape args) ++ [CR]) ++ (ECHO_Q ++ [CR]) /\
    sh_words (utf8_enc (sh_escape args)) = Some (map utf8_enc args) /\
    prompt c' = prompt c /\ blacklist c' = blacklist c.
Proof. exact lx_exec_exact. Qed.
Print Assumptions C01_exec_exact.

(* (3a) the same on the channels the correspondence suites use, in particular with slow sending configured
        (slow_send_delay, slow_send_chunksize > 0) over a transport with ANY accept pattern (short writes):
        exactly the two lines are written, whatever the chunking *)
Theorem C01_exec_exact_with_slow_sending :
  forall ash acc delay csz args st1 st2 sts out ds,
  0 < csz ->
  let c := lx_chan_slow ash acc (delay, csz) in
  Forall nonul args ->
  any_in (blacklist c) (utf8_enc (sh_escape args) ++ [CR]) = false ->
  any_in (blacklist c) (ECHO_Q ++ [CR]) = false ->
  wf_pend st1 -> cat st1 = tty_echo false (utf8_enc (sh_escape args) ++ [CR]) ++ onlcr out ++ TBOT_PROMPT ->
  prompt_only_at_end TBOT_PROMPT (onlcr out) ->
  wf_pend st2 -> cat st2 = tty_echo false (ECHO_Q ++ [CR]) ++ (ds ++ [CR; LF]) ++ TBOT_PROMPT ->
  all_digits ds -> ds <> [] -> prompt_only_at_end TBOT_PROMPT (ds ++ [CR; LF]) ->
  exists c',
    lx_exec args (st1 :: st2 :: sts) c = (XOk (dec_val ds) (text (onlcr out)), c', sts) /\
    insync c' /\
    wr (io c') = (utf8_enc (sh_escape args) ++ [CR]) ++ (ECHO_Q ++ [CR]) /\
    sh_words (utf8_enc (sh_escape args)) = Some (map utf8_enc args).
Proof. exact lx_exec_exact_slow. Qed.
Print Assumptions C01_exec_exact_with_slow_sending.

(* (3b) the normalised text of ONLCR output is the output itself (ASCII output without CR) *)
Theorem C01_crlf_normalisation :
  forall out, Forall (fun b => (b < 128)%N /\ b <> CR) out -> text (onlcr out) = out.
Proof. exact text_onlcr_ascii. Qed.
Print Assumptions C01_crlf_normalisation.

(* (4) exec0 raises CommandFailure iff the status is non-zero; test returns status == 0 *)
Theorem C01_exec0_and_test :
  forall args sts c st out c' sts',
  lx_exec args sts c = (XOk st out, c', sts') ->
  lx_exec0 args sts c = (if (st =? 0)%Z then X0Ok out else X0Failure st, c', sts') /\
  lx_test args sts c = (TBool (st =? 0)%Z, c', sts').
Proof. exact lx_exec0_iff. Qed.
Print Assumptions C01_exec0_and_test.

(* (5) a forbidden byte anywhere in the line: IllegalDataException, nothing is sent, the channel is untouched *)
Theorem C01_forbidden_byte_rejected :
  forall args sts c,
  any_in (blacklist c) (utf8_enc (sh_escape args) ++ [CR]) = true ->
  lx_exec args sts c = (XErr EIllegal, c, sts).
Proof. exact lx_blacklist_rejects. Qed.
Print Assumptions C01_forbidden_byte_rejected.

(* (6) the shell's initialisation (model init_shell in Sh.v, compared with the real Bash/Ash._init_shell on every run):
       the PS1 word is read by the shell as PS1=<prompt>, while the echo of the line that sets it does not contain
       the prompt -- read_until_prompt cannot return on the echo of its own command *)
Theorem C01_ps1_word_sets_the_prompt : sh_words PS1_WORD = Some [[80; 83; 49; 61]%N ++ TBOT_PROMPT].
Proof. exact ps1_word_sets_the_prompt. Qed.
Print Assumptions C01_ps1_word_sets_the_prompt.

Theorem C01_ps1_echo_has_no_prompt :
  contains TBOT_PROMPT (tty_echo true (PS1_LINE ++ [CR])) = false /\
  contains TBOT_PROMPT (tty_echo false (PS1_LINE ++ [CR])) = false.
Proof. exact ps1_echo_has_no_prompt. Qed.
Print Assumptions C01_ps1_echo_has_no_prompt.

(* (7) _init_shell after the probe has been answered (init_shell = wait_for_shell, then init_rest: lemma
       init_shell_unfold): when the console answers the PS1 line, every configuration line and the sanity check with
       output that contains the prompt only at its end, the initialisation succeeds for EVERY fragmentation and timing
       of those answers, also with part of the probe's answer still unread (pre); afterwards the channel is in sync,
       the prompt is set and the black-list of the shell class is installed *)
Theorem C01_init_after_probe_ok :
  forall bl cfg c1 pre (st_ps1 : stage) (stgs : list stage) (st_san : stage) noise1,
  quiet c1 -> cpend c1 = pre ->
  any_in bl (PS1_LINE ++ [CR]) = false ->
  Forall (fun l => any_in bl (l ++ [CR]) = false) cfg ->
  any_in bl (SANITY ++ [CR]) = false ->
  wf_pend st_ps1 -> cat st_ps1 = noise1 ++ TBOT_PROMPT -> prompt_only_at_end TBOT_PROMPT (pre ++ noise1) ->
  Forall2 (fun l stg => wf_pend stg /\ exists noise, cat stg = noise ++ TBOT_PROMPT /\ prompt_only_at_end TBOT_PROMPT noise) cfg stgs ->
  wf_pend st_san -> cat st_san = tty_echo false (SANITY ++ [CR]) ++ onlcr SANITY_ANSWER ++ TBOT_PROMPT ->
  prompt_only_at_end TBOT_PROMPT (onlcr SANITY_ANSWER) ->
  exists c', init_rest bl PS1_LINE cfg (st_ps1 :: stgs ++ [st_san]) c1 = (IOk, c', []) /\
             insync c' /\ prompt c' = Some (SLit TBOT_PROMPT) /\ blacklist c' = bl.
Proof. exact init_after_probe_ok. Qed.
Print Assumptions C01_init_after_probe_ok.

(* ... in particular on a console that answers every line with its echo and the prompt *)
Theorem C01_init_echo_console_ok :
  forall bl cfg c1 ectl (st_ps1 : stage) (stgs : list stage) (st_san : stage),
  quiet c1 -> cpend c1 = [] ->
  any_in bl (PS1_LINE ++ [CR]) = false ->
  Forall (fun l => any_in bl (l ++ [CR]) = false) cfg ->
  any_in bl (SANITY ++ [CR]) = false ->
  wf_pend st_ps1 -> cat st_ps1 = tty_echo ectl (PS1_LINE ++ [CR]) ++ TBOT_PROMPT ->
  Forall2 (fun l stg => wf_pend stg /\ cat stg = tty_echo ectl (l ++ [CR]) ++ TBOT_PROMPT) cfg stgs ->
  forallb (fun l => poe_b TBOT_PROMPT (tty_echo ectl (l ++ [CR]))) cfg = true ->
  wf_pend st_san -> cat st_san = tty_echo false (SANITY ++ [CR]) ++ onlcr SANITY_ANSWER ++ TBOT_PROMPT ->
  exists c', init_rest bl PS1_LINE cfg (st_ps1 :: stgs ++ [st_san]) c1 = (IOk, c', []) /\
             insync c' /\ prompt c' = Some (SLit TBOT_PROMPT) /\ blacklist c' = bl.
Proof. exact init_echo_console_ok. Qed.
Print Assumptions C01_init_echo_console_ok.

Theorem C01_init_shell_is_probe_then_rest :
  forall fuel t bl ps1 cfg sts c,
  init_shell fuel t bl ps1 cfg sts c =
  match wait_for_shell fuel t sts c with
  | (IOk, c1, sts1) => init_rest bl ps1 cfg sts1 c1
  | r => r
  end.
Proof. exact init_shell_unfold. Qed.
Print Assumptions C01_init_shell_is_probe_then_rest.

(* (8) the probe loop: when the answer to the probe arrives within the probe's timeout, wait_for_shell returns at its
       first occurrence for EVERY fragmentation and timing of the console's output (ready = bytes that arrive
       strictly before the deadline); what follows stays pending *)
Theorem C01_wait_for_shell_answered :
  forall fuel tmo c (st : stage) (sts : list stage) a,
  quiet c -> slow c = None -> (0 < tmo)%Z -> wf_pend st ->
  any_in (blacklist c) (PROBE ++ [CR]) = false ->
  find_sub PROBE_ANSWER (cpend c ++ cat st) = Some a ->
  a + length PROBE_ANSWER <= ready (Some (now (io c) + tmo)%Z) (pend (io (load st c))) ->
  exists c' data,
    wait_for_shell (S fuel) tmo (st :: sts) c = (IOk, c', sts) /\
    quiet c' /\ cpend c ++ cat st = data ++ cpend c' /\
    firstn (a + length PROBE_ANSWER) data = firstn a (cpend c ++ cat st) ++ PROBE_ANSWER /\
    wr (io c') = wr (io c) ++ PROBE ++ [CR] /\ prompt c' = prompt c /\ blacklist c' = blacklist c.
Proof. exact wait_for_shell_answered. Qed.
Print Assumptions C01_wait_for_shell_answered.

(* (9) the whole of _init_shell *)
Theorem C01_init_shell_ok :
  forall fuel tmo bl cfg c (st0 st_ps1 : stage) (stgs : list stage) (st_san : stage) a noise1,
  quiet c -> slow c = None -> (0 < tmo)%Z -> wf_pend st0 ->
  any_in (blacklist c) (PROBE ++ [CR]) = false ->
  find_sub PROBE_ANSWER (cpend c ++ cat st0) = Some a ->
  a + length PROBE_ANSWER <= ready (Some (now (io c) + tmo)%Z) (pend (io (load st0 c))) ->
  any_in bl (PS1_LINE ++ [CR]) = false ->
  Forall (fun l => any_in bl (l ++ [CR]) = false) cfg ->
  any_in bl (SANITY ++ [CR]) = false ->
  wf_pend st_ps1 -> cat st_ps1 = noise1 ++ TBOT_PROMPT ->
  prompt_only_at_end TBOT_PROMPT (skipn (a + length PROBE_ANSWER) (cpend c ++ cat st0) ++ noise1) ->
  Forall2 (fun l stg => wf_pend stg /\ exists noise, cat stg = noise ++ TBOT_PROMPT /\ prompt_only_at_end TBOT_PROMPT noise) cfg stgs ->
  wf_pend st_san -> cat st_san = tty_echo false (SANITY ++ [CR]) ++ onlcr SANITY_ANSWER ++ TBOT_PROMPT ->
  exists c', init_shell (S fuel) tmo bl PS1_LINE cfg (st0 :: st_ps1 :: stgs ++ [st_san]) c = (IOk, c', []) /\
             insync c' /\ prompt c' = Some (SLit TBOT_PROMPT) /\ blacklist c' = bl.
Proof. exact init_shell_ok. Qed.
Print Assumptions C01_init_shell_ok.

(* (7) the probe loop of util.wait_for_shell with retries: the console answers none of the first k probes (what it
       prints during each wait arrives within that wait and does not contain the answer) and answers the next one in
       time -- the loop returns at the first occurrence of the answer in the (k+1)-th reaction, having written exactly
       k+1 probe lines, for EVERY fragmentation and timing of all k+1 reactions (first wait tmo, then 3 s each) *)
Theorem C01_wait_for_shell_retries :
  forall (sil : list stage) fuel tmo c (st : stage) (sts : list stage) a,
  insync c -> slow c = None -> (0 < tmo)%Z ->
  any_in (blacklist c) (PROBE ++ [CR]) = false ->
  silent_rounds tmo sil -> wf_pend st ->
  find_sub PROBE_ANSWER (cat st) = Some a ->
  a + length PROBE_ANSWER <= ready_before (last_tmo tmo sil) st ->
  length sil < fuel ->
  exists c' data,
    wait_for_shell fuel tmo (sil ++ st :: sts) c = (IOk, c', sts) /\
    quiet c' /\ cat st = data ++ cpend c' /\
    firstn (a + length PROBE_ANSWER) data = firstn a (cat st) ++ PROBE_ANSWER /\
    wr (io c') = wr (io c) ++ concat (repeat (PROBE ++ [CR]) (S (length sil))) /\
    prompt c' = prompt c /\ blacklist c' = blacklist c.
Proof. exact wait_for_shell_retries. Qed.
Print Assumptions C01_wait_for_shell_retries.

(* (8) ... and the whole of _init_shell behind it *)
Theorem C01_init_shell_ok_after_retries :
  forall (sil : list stage) fuel tmo bl cfg c (st0 st_ps1 : stage) (stgs : list stage) (st_san : stage) a noise1,
  insync c -> slow c = None -> (0 < tmo)%Z ->
  any_in (blacklist c) (PROBE ++ [CR]) = false ->
  silent_rounds tmo sil -> wf_pend st0 ->
  find_sub PROBE_ANSWER (cat st0) = Some a ->
  a + length PROBE_ANSWER <= ready_before (last_tmo tmo sil) st0 ->
  length sil < fuel ->
  any_in bl (PS1_LINE ++ [CR]) = false ->
  Forall (fun l => any_in bl (l ++ [CR]) = false) cfg ->
  any_in bl (SANITY ++ [CR]) = false ->
  wf_pend st_ps1 -> cat st_ps1 = noise1 ++ TBOT_PROMPT ->
  prompt_only_at_end TBOT_PROMPT (skipn (a + length PROBE_ANSWER) (cat st0) ++ noise1) ->
  Forall2 (fun l stg => wf_pend stg /\ exists noise, cat stg = noise ++ TBOT_PROMPT /\ prompt_only_at_end TBOT_PROMPT noise) cfg stgs ->
  wf_pend st_san -> cat st_san = tty_echo false (SANITY ++ [CR]) ++ onlcr SANITY_ANSWER ++ TBOT_PROMPT ->
  exists c', init_shell fuel tmo bl PS1_LINE cfg (sil ++ st0 :: st_ps1 :: stgs ++ [st_san]) c = (IOk, c', []) /\
             insync c' /\ prompt c' = Some (SLit TBOT_PROMPT) /\ blacklist c' = bl.
Proof. exact init_shell_ok_after_retries. Qed.
Print Assumptions C01_init_shell_ok_after_retries.
