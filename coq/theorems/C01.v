(* C01 -- Linux shell commands get exactly the given args; output and status are exact.
   Property theorems only; proofs are in ProofC01.v and ProofSession.v.  sh_words (the shell's word splitting) and
   tty_echo (the line discipline's echo) are environment models, validated against the real bash, dash and a real
   pty on every run (see Sh.v). *)
From TV Require Import Base Utf8 Regex Channel ChannelLemmas Hush Session ProofSession Sh ProofC01 ProofC09b.

(* (1) no word splitting, globbing, expansion or injection: the shell splits the line tbot sends into exactly the
       given strings, one argument per string -- for every list of strings without NUL *)
Theorem C01_quoting_is_lossless :
  forall args, Forall nonul args -> sh_words (sh_escape args) = Some args.
Proof. exact sh_quote_roundtrip. Qed.
Print Assumptions C01_quoting_is_lossless.

Theorem C01_bytes_sent_split_into_the_arguments :
  forall args, Forall nonul args -> sh_words (utf8_enc (sh_escape args)) = Some (map utf8_enc args).
Proof. exact sh_sent_roundtrip. Qed.
Print Assumptions C01_bytes_sent_split_into_the_arguments.

(* (2) the read-back length is exactly the length of the tty's echo, for EVERY payload (control bytes, CR, LF
       doubling) once the caret notation is off ... *)
Theorem C01_readback_length_is_echo_length :
  forall s, length (tty_echo false s) = readback_len s.
Proof. exact echo_len_noctl. Qed.
Print Assumptions C01_readback_length_is_echo_length.

(* ... and with ECHOCTL only for payloads without control characters (the defect repaired by `stty -echoctl`) *)
Theorem C01_readback_length_with_echoctl_refuted :
  exists s, length (tty_echo true s) <> readback_len s.
Proof. exact echo_len_ctl_refuted. Qed.
Print Assumptions C01_readback_length_with_echoctl_refuted.

(* (3) exec: for EVERY fragmentation and timing of the console's reaction and every partial-write behaviour the
       result is exactly the program's output (CR LF normalised) and the status printed for `echo $?`; exactly the two
       lines are sent and the channel is in sync again (no residue for the next command) *)
Theorem C01_exec_exact :
  forall args P c st1 st2 sts out ds,
  insync c -> prompt c = Some (SLit P) -> P <> [] ->
  Forall nonul args ->
  any_in (blacklist c) (utf8_enc (sh_escape args) ++ [CR]) = false ->
  any_in (blacklist c) (ECHO_Q ++ [CR]) = false ->
  wf_pend st1 -> cat st1 = tty_echo false (utf8_enc (sh_escape args) ++ [CR]) ++ onlcr out ++ P ->
  prompt_only_at_end P (onlcr out) ->
  wf_pend st2 -> cat st2 = tty_echo false (ECHO_Q ++ [CR]) ++ (ds ++ [CR; LF]) ++ P ->
  all_digits ds -> ds <> [] -> prompt_only_at_end P (ds ++ [CR; LF]) ->
  exists c',
    lx_exec args (st1 :: st2 :: sts) c = (XOk (dec_val ds) (text (onlcr out)), c', sts) /\
    insync c' /\
    wr (io c') = wr (io c) ++ (utf8_enc (sh_escape args) ++ [CR]) ++ (ECHO_Q ++ [CR]) /\
    sh_words (utf8_enc (sh_escape args)) = Some (map utf8_enc args) /\
    prompt c' = prompt c /\ blacklist c' = blacklist c.
Proof. exact lx_exec_exact. Qed.
Print Assumptions C01_exec_exact.

(* (3b) the normalised text of ONLCR output is the output itself (ASCII output without CR) *)
Theorem C01_crlf_normalisation :
  forall out, Forall (fun b => (b < 128)%N /\ b <> CR) out -> text (onlcr out) = out.
Proof. exact text_onlcr_ascii. Qed.
Print Assumptions C01_crlf_normalisation.

(* (4) exec0 raises CommandFailure iff the status is non-zero; test returns status == 0 *)
Theorem C01_exec0_and_test :
  forall args sts c st out c' sts',
  lx_exec args sts c = (XOk st out, c', sts') ->
  lx_exec0 args sts c = (if (st =? 0)%Z then X0Ok out else X0Failure st, c', sts') /\
  lx_test args sts c = (TBool (st =? 0)%Z, c', sts').
Proof. exact lx_exec0_iff. Qed.
Print Assumptions C01_exec0_and_test.

(* (5) a forbidden byte anywhere in the line: IllegalDataException, nothing is sent, the channel is untouched *)
Theorem C01_forbidden_byte_rejected :
  forall args sts c,
  any_in (blacklist c) (utf8_enc (sh_escape args) ++ [CR]) = true ->
  lx_exec args sts c = (XErr EIllegal, c, sts).
Proof. exact lx_blacklist_rejects. Qed.
Print Assumptions C01_forbidden_byte_rejected.

(* (6) the shell's initialisation (model init_shell in Sh.v, compared with the real Bash/Ash._init_shell on every run):
       the PS1 word is read by the shell as PS1=<prompt>, while the echo of the line that sets it does not contain
       the prompt -- read_until_prompt cannot return on the echo of its own command *)
Theorem C01_ps1_word_sets_the_prompt : sh_words PS1_WORD = Some [[80; 83; 49; 61]%N ++ TBOT_PROMPT].
Proof. exact ps1_word_sets_the_prompt. Qed.
Print Assumptions C01_ps1_word_sets_the_prompt.

Theorem C01_ps1_echo_has_no_prompt :
  contains TBOT_PROMPT (tty_echo true (PS1_LINE ++ [CR])) = false /\
  contains TBOT_PROMPT (tty_echo false (PS1_LINE ++ [CR])) = false.
Proof. exact ps1_echo_has_no_prompt. Qed.
Print Assumptions C01_ps1_echo_has_no_prompt.
