(* C02 -- read_until_prompt returns exactly the pre-prompt data for any split of the stream.
   Property theorems only: each is closed by `exact` of a lemma proved in ProofC02.v / RegexLemmas.v. *)
From TV Require Import Base BaseLemmas Utf8 Regex RegexLemmas Channel ChannelLemmas ProofC02.

(* (1) Returns only at a moment when everything received so far passes the prompt test, returns
       exactly the text of what precedes the prompt, and has consumed exactly `data`, nothing beyond:
       for EVERY fragmentation, timeout, set of death strings and attached streams. *)
Theorem C02_returns_at_prompt_with_exact_result :
  forall fuel start tmo buf c out c',
  wfc c -> rup_loop fuel start tmo buf c = (Ret out, c') ->
  exists data k,
    data <> [] /\ cpend c = data ++ cpend c' /\
    prompt_split (prompt c) (buf ++ data) = Some k /\
    out = text (firstn k (buf ++ data)) /\ same_cfg c c' /\ wfc c'.
Proof. exact rup_loop_sound. Qed.
Print Assumptions C02_returns_at_prompt_with_exact_result.

(* (1b) ... and it returns at the FIRST such moment: the loop inspects the whole buffer after every piece *)
Theorem C02_returns_as_soon_as_prompt_seen :
  forall f start tmo buf c,
  rup_loop (S f) start tmo buf c =
  match iter_step start tmo READ_CHUNK_SIZE c with
  | (STimeout, c') => (ETimeout, c')
  | (SBlocked, c') => (EBlocked, c')
  | (SDeath e mt, c') => (EDeath e mt, c')
  | (SData new, c') =>
      match prompt_split (prompt c') (buf ++ new) with
      | Some k => (Ret (text (firstn k (buf ++ new))), c')
      | None => rup_loop f start tmo (buf ++ new) c'
      end
  end.
Proof. exact rup_loop_step. Qed.
Print Assumptions C02_returns_as_soon_as_prompt_seen.

(* (2) what the prompt test means: literal prompts -- the buffer ends with the prompt *)
Theorem C02_literal_prompt_test :
  forall pl buf k,
  prompt_split (Some (SLit pl)) buf = Some k <-> buf = firstn k buf ++ pl /\ k = length buf - length pl.
Proof. exact prompt_split_literal. Qed.
Print Assumptions C02_literal_prompt_test.

(* (2b) regex prompts -- the rest of the buffer from k on is a word of the prompt's language, and k is least *)
Theorem C02_regex_prompt_test :
  forall r buf k,
  prompt_split (Some (SRe r)) buf = Some k ->
  k <= length buf /\ lang r (skipn k buf) /\ forall j, j < k -> ~ lang r (skipn j buf).
Proof. exact prompt_split_regex. Qed.
Print Assumptions C02_regex_prompt_test.

Theorem C02_regex_prompt_test_none :
  forall r buf,
  prompt_split (Some (SRe r)) buf = None -> forall j, j <= length buf -> ~ lang r (skipn j buf).
Proof. exact prompt_split_regex_none. Qed.
Print Assumptions C02_regex_prompt_test_none.

(* (3) split independence, prompt configured on the channel: two channels whose transports hold the
       same stream S in ARBITRARY compositions into pieces (and arbitrary arrival times) give the same
       result, text(S[:k]), and leave nothing unread -- literal and regex prompts alike *)
Theorem C02_split_independent_channel_prompt :
  forall c1 c2 S k,
  wfc c1 -> wfc c2 -> deaths c1 = [] -> deaths c2 = [] ->
  prompt c1 = prompt c2 ->
  cpend c1 = S -> cpend c2 = S -> S <> [] ->
  only_tail (prompt_split (prompt c1)) S k ->
  exists c1' c2',
    read_until_prompt None None c1 = (Ret (text (firstn k S)), c1') /\
    read_until_prompt None None c2 = (Ret (text (firstn k S)), c2') /\
    pend (io c1') = [] /\ pend (io c2') = [].
Proof. exact rup_split_independent_channel. Qed.
Print Assumptions C02_split_independent_channel_prompt.

(* (3b) the same with the prompt passed per call; the channel's own prompt is restored afterwards *)
Theorem C02_split_independent_per_call_prompt :
  forall p c1 c2 S k,
  wfc c1 -> wfc c2 -> deaths c1 = [] -> deaths c2 = [] ->
  cpend c1 = S -> cpend c2 = S -> S <> [] ->
  only_tail (prompt_split (Some p)) S k ->
  exists c1' c2',
    read_until_prompt (Some p) None c1 = (Ret (text (firstn k S)), c1') /\
    read_until_prompt (Some p) None c2 = (Ret (text (firstn k S)), c2') /\
    pend (io c1') = [] /\ pend (io c2') = [] /\
    prompt c1' = prompt c1 /\ prompt c2' = prompt c2.
Proof. exact rup_split_independent_per_call. Qed.
Print Assumptions C02_split_independent_per_call_prompt.

(* (4) without a timeout read_until_prompt never raises TimeoutError *)
Theorem C02_no_timeout_without_deadline :
  forall fuel start buf c c', rup_loop fuel start None buf c <> (ETimeout, c').
Proof. exact rup_loop_none_no_timeout. Qed.
Print Assumptions C02_no_timeout_without_deadline.

(* non-vacuity of the hypotheses of (3)/(3b) *)
Theorem C02_hypotheses_satisfiable :
  only_tail (prompt_split (Some (SLit ex_prompt))) ex_stream 5 /\
  only_tail (prompt_split (Some (SRe ex_re))) ex_stream_re 3.
Proof. exact (conj only_tail_example_literal only_tail_example_regex). Qed.
Print Assumptions C02_hypotheses_satisfiable.
