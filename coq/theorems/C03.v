(* C03 -- raw channel I/O neither loses, duplicates, reorders nor over-reads bytes.
   Property theorems only; proofs are in ProofC03.v. *)
From TV Require Import Base BaseLemmas Utf8 Regex Channel ChannelLemmas ProofC03.

(* (1) read(n), n > 0: exactly n bytes, and they are exactly what was taken from the transport *)
Theorem C03_read_n_exact :
  forall n tmo c d c',
  wfc c -> 0 < n -> read (Z.of_nat n) tmo c = (Ret d, c') ->
  length d = n /\ cpend c = d ++ cpend c' /\ same_cfg c c' /\ wfc c'.
Proof. exact read_n_exact. Qed.
Print Assumptions C03_read_n_exact.

(* (1b) whatever the outcome (TimeoutError, death string, blocked), read(n) never takes more than n *)
Theorem C03_read_n_never_overreads :
  forall n tmo c r c',
  wfc c -> 0 < n -> read (Z.of_nat n) tmo c = (r, c') ->
  exists taken, cpend c = taken ++ cpend c' /\ length taken <= n.
Proof. exact read_n_never_overreads. Qed.
Print Assumptions C03_read_n_never_overreads.

(* (2) a bounded iteration never takes more than its maximum; what it yields is a prefix of what it
       took (the rest is lost only with the exception that ended it) *)
Theorem C03_read_iter_bounded :
  forall fuel start tmo mx got acc c chs r c',
  wfc c -> got < mx ->
  read_iter_loop fuel start tmo (Some mx) got acc c = (chs, r, c') ->
  exists yielded lost,
    concat chs = concat (rev acc) ++ yielded /\
    cpend c = (yielded ++ lost) ++ cpend c' /\
    got + length (yielded ++ lost) <= mx /\
    (r = Ret tt -> lost = [] /\ got + length yielded = mx) /\
    same_cfg c c' /\ wfc c'.
Proof. exact read_iter_loop_spec. Qed.
Print Assumptions C03_read_iter_bounded.

(* (3) readline: exactly up to and including the FIRST line ending, nothing beyond *)
Theorem C03_readline_exact :
  forall fuel start tmo le line c out c',
  wfc c -> readline_loop fuel start tmo le line c = (Ret out, c') ->
  exists data,
    data <> [] /\ cpend c = data ++ cpend c' /\ out = text (line ++ data) /\
    is_suffix le (line ++ data) = true /\
    (forall a b, data = a ++ b -> a <> [] -> b <> [] -> is_suffix le (line ++ a) = false) /\
    same_cfg c c' /\ wfc c'.
Proof. exact readline_loop_spec. Qed.
Print Assumptions C03_readline_exact.

(* (4) any interleaving of read(n) / read() / read_iter(max) / readline returns the transport's bytes in
       order, each exactly once, and leaves exactly the rest unread: for every fragmentation *)
Theorem C03_reads_conserve :
  forall tmo ops c outs c',
  wfc c -> Forall rd_ok ops -> run_rds tmo ops c = (Some outs, c') ->
  exists datas, Forall2 (fun o_out d => returned (fst o_out) (snd o_out) d) (combine ops outs) datas /\
                length outs = length ops /\
                cpend c = concat datas ++ cpend c'.
Proof. exact reads_conserve. Qed.
Print Assumptions C03_reads_conserve.

(* (5) write(): for EVERY partial-write behaviour of the transport exactly buf arrives, in order;
       a buffer with a forbidden byte is rejected before anything is sent *)
Theorem C03_write_complete :
  forall buf ign c r c',
  slow_ok c -> write buf ign c = (r, c') ->
  (r = Ret tt /\ wr (io c') = wr (io c) ++ buf /\ wcfg c c' /\
     (ign = false -> any_in (blacklist c) buf = false)) \/
  (r = EIllegal /\ c' = c /\ ign = false /\ any_in (blacklist c) buf = true).
Proof. exact write_complete. Qed.
Print Assumptions C03_write_complete.

(* (6) send(): either the whole payload reaches the transport (and it is free of forbidden bytes), or
       IllegalDataException is raised and NOTHING has been sent -- the sent data is a prefix of the payload *)
Theorem C03_send_prefix :
  forall s c r c',
  slow_ok c -> send s false None c = (r, c') ->
  (r = Ret tt /\ wr (io c') = wr (io c) ++ s /\ any_in (blacklist c) s = false) \/
  (r = EIllegal /\ c' = c /\ any_in (blacklist c) s = true).
Proof. exact send_prefix. Qed.
Print Assumptions C03_send_prefix.

(* (7) sendline appends exactly one CR; sendcontrol sends exactly one byte and is the only bypass *)
Theorem C03_sendline_appends_cr :
  forall s rb tmo c, sendline s rb tmo c = send (s ++ [CR]) rb tmo c.
Proof. exact sendline_is_send. Qed.
Print Assumptions C03_sendline_appends_cr.

Theorem C03_sendcontrol_one_byte :
  forall ch c r c',
  slow_ok c -> sendcontrol ch c = (r, c') ->
  (r = Ret tt /\ wr (io c') = wr (io c) ++ [(ch - 64)%N] /\ (64 <= ch <= 95)%N) \/
  (r = EAssert /\ c' = c).
Proof. exact sendcontrol_one_byte. Qed.
Print Assumptions C03_sendcontrol_one_byte.

(* (8) slow-send: every request is at most slow_send_chunksize bytes and is followed by one sleep *)
Theorem C03_slow_send_step :
  forall f x buf c delay csz,
  slow c = Some (delay, csz) ->
  write_loop (S f) (x :: buf) c =
  let (k, io') := io_write (firstn csz (x :: buf)) (io c) in
  write_loop f (skipn k (x :: buf)) (with_io c (io_sleep delay io')).
Proof. exact write_loop_slow_step. Qed.
Print Assumptions C03_slow_send_step.

(* non-vacuity: a concrete interleaving *)
Theorem C03_example :
  let c := chan_init [(0%Z, [97; 13; 10]%N); (0%Z, [98; 10; 99]%N)] [] in
  fst (run_rds None [RdN 1; RdLine [13; 10]%N; RdIter 2; RdAny] c) = Some [[97]; [10]; [98; 10]; [99]]%N.
Proof. exact reads_conserve_example. Qed.
Print Assumptions C03_example.
