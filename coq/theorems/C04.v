(* C04 -- expect() reports the first match and accounts for every consumed byte.
   Property theorems only; proofs are in ProofC04.v (and ProofC06.v for the deadline). *)
From TV Require Import Base BaseLemmas Utf8 Regex RegexLemmas Channel ChannelLemmas ProofC02 ProofC03 ProofC04 ProofC06 ProofC04b.

(* (1) when expect returns it consumed exactly `data`; the result is computed from the whole of what
       was consumed; nothing else of the channel changed *)
Theorem C04_result_from_all_consumed_data :
  forall fuel start tmo pats buf c r c',
  wfc c -> expect_loop fuel start tmo pats buf c = (Ret r, c') ->
  exists data,
    data <> [] /\ cpend c = data ++ cpend c' /\
    try_patterns 0 pats (buf ++ data) = Some r /\ same_cfg c c' /\ wfc c'.
Proof. exact expect_loop_sound. Qed.
Print Assumptions C04_result_from_all_consumed_data.

(* (2) "as soon as ... and not before; never reads another piece once a match exists":
       the consumed data is a sequence of pieces; after every proper prefix of that sequence no
       pattern matched, after the last piece one does *)
Theorem C04_returns_at_first_piece_with_a_match :
  forall fuel start tmo pats buf c r c',
  wfc c -> expect_loop fuel start tmo pats buf c = (Ret r, c') ->
  exists pieces,
    pieces <> [] /\ Forall (fun p => p <> []) pieces /\
    cpend c = concat pieces ++ cpend c' /\
    try_patterns 0 pats (buf ++ concat pieces) = Some r /\
    (forall k, k < length pieces - 0 -> 0 < k ->
               try_patterns 0 pats (buf ++ concat (firstn k pieces)) = None).
Proof. exact expect_loop_not_before. Qed.
Print Assumptions C04_returns_at_first_piece_with_a_match.

Theorem C04_loop_step :
  forall f start tmo pats buf c,
  expect_loop (S f) start tmo pats buf c =
  match iter_step start tmo READ_CHUNK_SIZE c with
  | (STimeout, c') => (ETimeout, c')
  | (SBlocked, c') => (EBlocked, c')
  | (SDeath e mt, c') => (EDeath e mt, c')
  | (SData new, c') =>
      match try_patterns 0 pats (buf ++ new) with
      | Some r => (Ret r, c')
      | None => expect_loop f start tmo pats (buf ++ new) c'
      end
  end.
Proof. exact expect_loop_step. Qed.
Print Assumptions C04_loop_step.

(* (3) the result names the LOWEST-indexed pattern that matches the consumed data; before / match /
       after are the three parts of the consumed buffer around that pattern's hit, so that
       before ++ match ++ after is the whole of it (byte level; the text fields are text(.) of them) *)
Theorem C04_lowest_index_and_accounting :
  forall pats i buf r,
  try_patterns i pats buf = Some r ->
  exists j p a b,
    nth_error pats j = Some p /\ er_idx r = i + j /\
    (forall j' p', j' < j -> nth_error pats j' = Some p' -> pat_hit p' buf = None) /\
    pat_hit p buf = Some (a, b) /\ a <= b <= length buf /\
    er_match r = sublist a b buf /\
    er_before r = text (firstn a buf) /\ er_after r = text (skipn b buf) /\
    firstn a buf ++ er_match r ++ skipn b buf = buf.
Proof. exact try_patterns_spec. Qed.
Print Assumptions C04_lowest_index_and_accounting.

Theorem C04_no_result_means_no_pattern_matches :
  forall pats i buf,
  try_patterns i pats buf = None -> forall p, In p pats -> pat_hit p buf = None.
Proof. exact try_patterns_none. Qed.
Print Assumptions C04_no_result_means_no_pattern_matches.

(* (4) what a hit is: literals -- the FIRST occurrence *)
Theorem C04_literal_hit_is_first_occurrence :
  forall l buf a b,
  pat_hit (SLit l) buf = Some (a, b) ->
  b = a + length l /\ (exists x y, buf = x ++ l ++ y /\ length x = a) /\
  (forall x y, buf = x ++ l ++ y -> a <= length x).
Proof. exact pat_hit_literal. Qed.
Print Assumptions C04_literal_hit_is_first_occurrence.

Theorem C04_literal_no_hit :
  forall l buf, pat_hit (SLit l) buf = None -> forall x y, buf <> x ++ l ++ y.
Proof. exact pat_hit_literal_none. Qed.
Print Assumptions C04_literal_no_hit.

(* regexes -- the LEFTMOST start position of a word of the language *)
Theorem C04_regex_hit_is_leftmost :
  forall r buf a b,
  pat_hit (SRe r) buf = Some (a, b) ->
  (exists w rest, skipn a buf = w ++ rest /\ lang r w) /\
  (forall j w rest, j < a -> skipn j buf = w ++ rest -> ~ lang r w).
Proof. exact pat_hit_regex. Qed.
Print Assumptions C04_regex_hit_is_leftmost.

Theorem C04_regex_no_hit :
  forall r buf,
  pat_hit (SRe r) buf = None -> forall j w rest, j <= length buf -> skipn j buf = w ++ rest -> ~ lang r w.
Proof. exact pat_hit_regex_none. Qed.
Print Assumptions C04_regex_no_hit.

(* (5) no match: TimeoutError exactly at the deadline; keeps waiting when no timeout was given *)
Theorem C04_timeout_at_deadline :
  forall pats T c r c',
  (0 <= T)%Z -> expect pats (Some T) c = (r, c') ->
  (nowc c' <= nowc c + T)%Z /\ (r = ETimeout -> nowc c' = (nowc c + T)%Z) /\ r <> EBlocked.
Proof. exact deadline_expect. Qed.
Print Assumptions C04_timeout_at_deadline.

Theorem C04_no_timeout_without_deadline :
  forall fuel start pats buf c c', expect_loop fuel start None pats buf c <> (ETimeout, c').
Proof. exact expect_loop_none_no_timeout. Qed.
Print Assumptions C04_no_timeout_without_deadline.

(* (6) liveness: when a match arrives in time, expect returns (a result, not an error) -- for every fragmentation and
       timing.  ready = the number of bytes of the stream that arrive strictly before the deadline (all of them
       without a timeout); monotone = a match never disappears when more data arrives (true of literals) *)
Theorem C04_returns_when_the_match_arrives_in_time :
  forall fuel start tmo pats buf c,
  wfc c -> deaths c = [] -> in_time start tmo c -> monotone pats ->
  try_patterns 0 pats buf = None ->
  try_patterns 0 pats (buf ++ firstn (ready (deadline start tmo) (pend (io c))) (cpend c)) <> None ->
  tot (pend (io c)) < fuel ->
  exists r c', expect_loop fuel start tmo pats buf c = (Ret r, c') /\ deaths c' = [].
Proof. exact expect_loop_live. Qed.
Print Assumptions C04_returns_when_the_match_arrives_in_time.

Theorem C04_literals_are_monotone :
  forall pats, Forall (fun p => exists l, p = SLit l) pats -> monotone pats.
Proof. exact literals_monotone. Qed.
Print Assumptions C04_literals_are_monotone.

(* ... and for one literal the whole result: index, match and `before` are those of the FIRST occurrence in the
   stream, whatever the fragmentation; `after` is the rest of the piece that completed the match *)
Theorem C04_literal_found_independent_of_fragmentation :
  forall l tmo c a,
  wfc c -> deaths c = [] -> match tmo with Some T => (0 < T)%Z | None => True end ->
  l <> [] -> find_sub l (cpend c) = Some a ->
  a + length l <= ready (deadline (now (io c)) tmo) (pend (io c)) ->
  exists r c' data,
    expect [SLit l] tmo c = (Ret r, c') /\
    er_idx r = 0 /\ er_match r = l /\ er_before r = text (firstn a (cpend c)) /\
    cpend c = data ++ cpend c' /\ firstn (a + length l) data = firstn a (cpend c) ++ l /\
    er_after r = text (skipn (a + length l) data) /\ wfc c' /\ same_cfg c c' /\ deaths c' = [].
Proof. exact expect_literal_live. Qed.
Print Assumptions C04_literal_found_independent_of_fragmentation.


(* (7) with a timeout, for every fragmentation and timing: expect(literal, T) returns iff the literal occurs among the
       bytes that arrive strictly before the deadline; otherwise TimeoutError exactly at the deadline -- nothing else
       can happen on a channel without death strings *)
Theorem C04_literal_with_timeout_decided_by_what_arrives_in_time :
  forall l T c,
  wfc c -> deaths c = [] -> (0 < T)%Z -> l <> [] ->
  let R := firstn (ready (Some (now (io c) + T)%Z) (pend (io c))) (cpend c) in
  match expect [SLit l] (Some T) c with
  | (Ret r, c') => contains l R = true /\ er_idx r = 0 /\ er_match r = l
  | (ETimeout, c') => contains l R = false /\ now (io c') = (now (io c) + T)%Z
  | _ => False
  end.
Proof. exact expect_literal_timed_iff. Qed.
Print Assumptions C04_literal_with_timeout_decided_by_what_arrives_in_time.


Theorem C04_example :
  let c := chan_init [(0%Z, [120; 97]%N); (0%Z, [98; 99; 121]%N); (0%Z, [122]%N)] [] in
  match fst (expect [SLit [98; 99]%N; SLit [97; 98]%N] None c) with
  | Ret r => (er_idx r, er_match r, er_before r, er_after r) = (0%nat, [98; 99]%N, [120; 97]%N, [121]%N)
  | _ => False
  end.
Proof. exact expect_example. Qed.
Print Assumptions C04_example.
