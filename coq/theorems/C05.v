(* C05 -- a registered death string aborts the read in which it completes, never earlier.
   Property theorems only; proofs are in ProofC05.v.
   hs = for every registered entry, the data that went through _check since ITS registration.
   dinv ds hs says: every ring is exactly the last 2*len bytes of that data, and the data does not
   (yet) contain the string. *)
From TV Require Import Base BaseLemmas Utf8 Regex RegexLemmas Channel ChannelLemmas ProofC05.

(* (1) the whole of _check, for any set of simultaneously registered literal strings of different
       lengths and any incoming piece (any length, any position of an occurrence relative to the
       scan windows): nothing raised  <=>  afterwards still no string occurs in its data;
       raised => that string occurs in the data received since its registration, ending inside
       this very piece (prefix p of it) *)
Theorem C05_check_raises_iff_string_completed :
  forall incoming c hs,
  dinv (deaths c) hs ->
  match check incoming c with
  | (None, c') => dinv (deaths c') (map (fun h => h ++ incoming) hs)
  | (Some (exc, mt), c') =>
      exists e h p q, In e (deaths c) /\ In h hs /\ incoming = p ++ q /\
                      d_str e = SLit mt /\ d_exc e = exc /\ contains mt (h ++ p) = true
  end.
Proof. exact check_literals. Qed.
Print Assumptions C05_check_raises_iff_string_completed.

(* (1b) the invariant really excludes an occurrence: so "nothing raised" means "no registered string
        occurs in the data received since its registration", i.e. an occurrence is never missed *)
Theorem C05_invariant_means_no_occurrence :
  forall ds hs, dinv ds hs ->
  Forall2 (fun e h => exists l, d_str e = SLit l /\ contains l h = false) ds hs.
Proof. exact dinv_no_occurrence. Qed.
Print Assumptions C05_invariant_means_no_occurrence.

(* (2) never earlier *)
Theorem C05_never_earlier :
  forall incoming c hs exc mt c',
  dinv (deaths c) hs -> check incoming c = (Some (exc, mt), c') ->
  exists e h, In e (deaths c) /\ In h hs /\ d_str e = SLit mt /\ d_exc e = exc /\
              contains mt (h ++ incoming) = true.
Proof. exact ds_sound. Qed.
Print Assumptions C05_never_earlier.

(* (3) whatever read method is in use: every method is a loop of read_iter iterations (read(-1) does
       the same steps inline), and one iteration raises / keeps the invariant exactly as _check does *)
Theorem C05_every_read_iteration :
  forall start tmo n c r c' hs,
  dinv (deaths c) hs -> iter_step start tmo n c = (r, c') ->
  match r with
  | SData new => dinv (deaths c') (map (fun h => h ++ new) hs)
  | SDeath exc mt => exists new e h, In e (deaths c) /\ In h hs /\ d_str e = SLit mt /\ d_exc e = exc /\
                                     contains mt (h ++ new) = true
  | _ => deaths c' = deaths c
  end.
Proof. exact iter_step_deaths. Qed.
Print Assumptions C05_every_read_iteration.

(* (4) registration starts from an empty history (data received BEFORE registration never counts);
       with nothing registered nothing is ever raised *)
Theorem C05_registration :
  forall l exc c hs,
  l <> [] -> dinv (deaths c) hs -> dinv (deaths (push_death (SLit l) exc c)) ([] :: hs).
Proof. exact push_death_inv. Qed.
Print Assumptions C05_registration.

Theorem C05_nothing_registered_nothing_raised :
  forall incoming c, deaths c = [] -> check incoming c = (None, c).
Proof. exact no_deaths_never_raises. Qed.
Print Assumptions C05_nothing_registered_nothing_raised.

(* (5) the combinatorial core: with scan windows no longer than the string, a new occurrence always
       lies within the last 2*len bytes, i.e. inside the ring buffer *)
Theorem C05_window_lemma :
  forall l a w,
  contains l a = false -> contains l (a ++ w) = true -> length w <= length l ->
  contains l (take_last (2 * length l) (a ++ w)) = true.
Proof. exact window_detect. Qed.
Print Assumptions C05_window_lemma.

(* (6) bounded-regex death strings (partial: soundness only) -- what is reported is a word of the
       pattern's language found in the ring buffer *)
Theorem C05_regex_sound_partial :
  forall r ring mt,
  ds_hit (SRe r) ring = Some mt ->
  exists a b, mt = sublist a b ring /\ exists w rest, skipn a ring = w ++ rest /\ lang r w.
Proof. exact ds_hit_regex_sound. Qed.
Print Assumptions C05_regex_sound_partial.

(* the witness of the defect that was repaired (fix: commit fe38290): b"ab" in the single piece b"xxxabyyy" *)
Theorem C05_d1_witness_now_detected :
  let c := push_death (SLit [97; 98]%N) 7 (chan_init [(0%Z, [120; 120; 120; 97; 98; 121; 121; 121]%N)] []) in
  fst (read (-1) None c) = EDeath 7 [97; 98]%N.
Proof. exact d1_witness_detected. Qed.
Print Assumptions C05_d1_witness_now_detected.
