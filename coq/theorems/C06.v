(* C06 -- timeouts are overall deadlines: never exceeded, never cut short (virtual time).
   Property theorems only; proofs are in ProofC06.v.  Time is the clock of the scripted transport:
   it advances only inside ChannelIO.read and time.sleep (the interpreter's own latency is not
   modelled -- the claim is partial in that sense, see DESIGN.md). *)
From TV Require Import Base BaseLemmas Utf8 Regex Channel ChannelLemmas ProofC02 ProofC03 ProofC06 SubIO ProofC06b ProofSession ProofC04b ProofLive ProofLive2.

(* every operation called at time now with timeout T >= 0: has returned or raised by now + T,
   raises TimeoutError exactly AT now + T (never before), however the data trickles in *)
Theorem C06_deadline_read_until_prompt :
  forall p T c r c',
  (0 <= T)%Z -> read_until_prompt p (Some T) c = (r, c') ->
  (nowc c' <= nowc c + T)%Z /\ (r = ETimeout -> nowc c' = (nowc c + T)%Z) /\ r <> EBlocked.
Proof. exact deadline_read_until_prompt. Qed.
Print Assumptions C06_deadline_read_until_prompt.

Theorem C06_deadline_expect :
  forall pats T c r c',
  (0 <= T)%Z -> expect pats (Some T) c = (r, c') ->
  (nowc c' <= nowc c + T)%Z /\ (r = ETimeout -> nowc c' = (nowc c + T)%Z) /\ r <> EBlocked.
Proof. exact deadline_expect. Qed.
Print Assumptions C06_deadline_expect.

Theorem C06_deadline_read_n :
  forall n T c r c',
  (0 <= T)%Z -> read (Z.of_nat (S n)) (Some T) c = (r, c') ->
  (nowc c' <= nowc c + T)%Z /\ (r = ETimeout -> nowc c' = (nowc c + T)%Z) /\ r <> EBlocked.
Proof. exact deadline_read_n. Qed.
Print Assumptions C06_deadline_read_n.

Theorem C06_deadline_read_iter :
  forall fuel start T mx got acc c chs r c',
  (forall m0, mx = Some m0 -> got < m0) ->
  (nowc c <= start + T)%Z -> read_iter_loop fuel start (Some T) mx got acc c = (chs, r, c') ->
  (nowc c' <= start + T)%Z /\ (r = ETimeout -> nowc c' = (start + T)%Z) /\ r <> EBlocked.
Proof. exact read_iter_loop_deadline. Qed.
Print Assumptions C06_deadline_read_iter.

Theorem C06_deadline_readline :
  forall T le c r c',
  (0 <= T)%Z -> readline (Some T) le c = (r, c') ->
  (nowc c' <= nowc c + T)%Z /\ (r = ETimeout -> nowc c' = (nowc c + T)%Z) /\ r <> EBlocked.
Proof. exact deadline_readline. Qed.
Print Assumptions C06_deadline_readline.

(* send with read-back: T is ONE deadline for the whole payload, however many 512-byte slices *)
Theorem C06_deadline_send_readback :
  forall s T c r c',
  (0 <= T)%Z -> slow c = None -> send s true (Some T) c = (r, c') ->
  (nowc c' <= nowc c + T)%Z /\ (r = ETimeout -> nowc c' = (nowc c + T)%Z) /\ r <> EBlocked.
Proof. exact deadline_send_readback. Qed.
Print Assumptions C06_deadline_send_readback.

(* read_until_timeout(T): never raises TimeoutError; returns exactly at now + T *)
Theorem C06_read_until_timeout_returns_at_T :
  forall T c r c',
  (0 <= T)%Z -> read_until_timeout (Some T) c = (r, c') ->
  (nowc c' <= nowc c + T)%Z /\ r <> ETimeout /\ r <> EBlocked /\
  (forall out, r = Ret out -> nowc c' = (nowc c + T)%Z).
Proof. exact deadline_read_until_timeout. Qed.
Print Assumptions C06_read_until_timeout_returns_at_T.

(* ... with exactly the data delivered before the deadline; the first piece left unread (if any)
   arrives at or after the deadline *)
Theorem C06_read_until_timeout_data :
  forall T c out c',
  wfc c -> (0 < T)%Z -> read_until_timeout (Some T) c = (Ret out, c') ->
  exists data, cpend c = data ++ cpend c' /\ out = text data /\
               nowc c' = (nowc c + T)%Z /\
               match pend (io c') with [] => True | (at_, _) :: _ => (nowc c + T <= at_)%Z end.
Proof. exact rut_returns_data_before_deadline. Qed.
Print Assumptions C06_read_until_timeout_data.

(* with no timeout TimeoutError is never raised *)
Theorem C06_no_timeout_rup :
  forall fuel start buf c c', rup_loop fuel start None buf c <> (ETimeout, c').
Proof. exact rup_loop_none_no_timeout. Qed.
Print Assumptions C06_no_timeout_rup.

Theorem C06_no_timeout_expect :
  forall fuel start pats buf c c', expect_loop fuel start None pats buf c <> (ETimeout, c').
Proof. exact expect_loop_none_no_timeout. Qed.
Print Assumptions C06_no_timeout_expect.

Theorem C06_no_timeout_rut :
  forall fuel start buf c out c',
  rut_loop fuel start None buf c <> (Ret out, c') /\ rut_loop fuel start None buf c <> (ETimeout, c').
Proof. exact rut_loop_none_never_returns. Qed.
Print Assumptions C06_no_timeout_rut.

(* the single step all of the above rest on: the remaining time is recomputed before every transport
   read, data is accepted only strictly before the deadline, TimeoutError is raised exactly at it *)
Theorem C06_iteration_deadline_invariant :
  forall start T n c r c',
  iter_step start (Some T) n c = (r, c') -> 0 < n ->
  (now (io c) <= start + T)%Z ->
  (now (io c') <= start + T)%Z /\
  (r = STimeout -> now (io c') = (start + T)%Z) /\
  (forall new, r = SData new -> (now (io c') < start + T)%Z) /\
  r <> SBlocked.
Proof. exact iter_step_time. Qed.
Print Assumptions C06_iteration_deadline_invariant.

(* ---- the transport itself: SubprocessChannelIO.read's select loop (unit 1/5120 s) ---- *)
(* called with timeout T > 0 on a live process: the data is returned the moment it becomes readable, also when that
   is exactly the deadline; TimeoutError is raised exactly at T and only if nothing became readable by then; the
   exit of the process is noticed no later than T; the loop always ends *)
Theorem C06_subprocess_read_deadline :
  forall T now ready dies,
  (0 < T)%Z -> is_closed dies now = false ->
  match sub_read (fuel_for (Some T) now ready dies) (Some T) now ready dies with
  | SRead t => exists a, ready = Some a /\ (a <= now + T)%Z /\ t = Z.max now a
  | STimeoutAt t => t = (now + T)%Z /\ (forall a, ready = Some a -> (now + T < a)%Z)
  | SClosedAt t => (t <= now + T)%Z /\ (forall a, ready = Some a -> (t < a)%Z)
  | SNoData _ | SFuel => False
  end.
Proof. exact sub_read_deadline. Qed.
Print Assumptions C06_subprocess_read_deadline.

Theorem C06_subprocess_read_no_timeout_without_deadline :
  forall fuel now ready dies t, sub_read fuel None now ready dies <> STimeoutAt t.
Proof. exact sub_read_no_timeout. Qed.
Print Assumptions C06_subprocess_read_no_timeout_without_deadline.

(* ---- timed operations are decided by what arrives strictly before the deadline (ready = that many bytes), for every
        fragmentation and timing; channels without death strings *)

(* read(n, T): exactly the next n bytes iff n bytes arrive in time; otherwise TimeoutError exactly at the deadline,
   having consumed (and lost to the caller) everything that had arrived *)
Theorem C06_read_n_decided_by_what_arrives_in_time :
  forall n T c,
  wfc c -> deaths c = [] -> 0 < n -> (0 < T)%Z ->
  let r := ready (Some (now (io c) + T)%Z) (pend (io c)) in
  match read (Z.of_nat n) (Some T) c with
  | (Ret d, c') => n <= r /\ d = firstn n (cpend c) /\ cpend c = d ++ cpend c'
  | (ETimeout, c') => r < n /\ now (io c') = (now (io c) + T)%Z /\ cpend c' = skipn r (cpend c)
  | _ => False
  end.
Proof. exact read_n_timed_iff. Qed.
Print Assumptions C06_read_n_decided_by_what_arrives_in_time.

(* expect(literal, T): returns iff the literal occurs among those bytes, otherwise TimeoutError exactly at the deadline *)
Theorem C06_expect_literal_decided_by_what_arrives_in_time :
  forall l T c,
  wfc c -> deaths c = [] -> (0 < T)%Z -> l <> [] ->
  let R := firstn (ready (Some (now (io c) + T)%Z) (pend (io c))) (cpend c) in
  match expect [SLit l] (Some T) c with
  | (Ret r, c') => contains l R = true /\ er_idx r = 0 /\ er_match r = l
  | (ETimeout, c') => contains l R = false /\ now (io c') = (now (io c) + T)%Z
  | _ => False
  end.
Proof. exact expect_literal_timed_iff. Qed.
Print Assumptions C06_expect_literal_decided_by_what_arrives_in_time.

(* read_until_prompt(p, T): returns the output when the whole answer (ending in the only occurrence of the prompt)
   arrives in time *)
Theorem C06_read_until_prompt_live_under_deadline :
  forall p tmo c S k,
  wfc c -> deaths c = [] -> match tmo with Some T => (0 < T)%Z | None => True end ->
  cpend c = S -> S <> [] -> only_tail (prompt_split (Some p)) S k ->
  ready (deadline (now (io c)) tmo) (pend (io c)) = length S ->
  exists c', read_until_prompt (Some p) tmo c = (Ret (text (firstn k S)), c') /\
             pend (io c') = [] /\ same_cfg c c' /\ deaths c' = [] /\ wfc c' /\ in_time (now (io c)) tmo c' /\
             now (io c') = last_time c.
Proof. exact rup_timed_live. Qed.
Print Assumptions C06_read_until_prompt_live_under_deadline.

(* (12) ... and not cut short the other way either: when the prompt does NOT occur among the bytes that arrive before
        the deadline, read_until_prompt(prompt, timeout=T) raises TimeoutError exactly T after it began, having consumed
        exactly what had arrived by then (what arrives later stays for the next read) -- for EVERY fragmentation *)
Theorem C06_read_until_prompt_times_out_exactly_at_the_deadline :
  forall P T c,
  wfc c -> deaths c = [] -> (0 < T)%Z ->
  contains P (firstn (ready (Some (now (io c) + T)%Z) (pend (io c))) (cpend c)) = false ->
  exists c', read_until_prompt (Some (SLit P)) (Some T) c = (ETimeout, c') /\
    now (io c') = (now (io c) + T)%Z /\
    cpend c' = skipn (ready (Some (now (io c) + T)%Z) (pend (io c))) (cpend c) /\
    wfc c' /\ deaths c' = [] /\ same_cfg c c'.
Proof. exact rup_timed_out. Qed.
Print Assumptions C06_read_until_prompt_times_out_exactly_at_the_deadline.
