(* C07 -- channel ownership: a borrowed or taken channel is unusable via the old handle.
   Property theorems only; proofs are in ProofC07.v.  winv is the invariant of every world reachable
   from the initial one (C07_invariant_reachable). *)
From TV Require Import Base Own ProofC07.

Theorem C07_invariant_reachable :
  forall ops, winv (orun_w ops world0).
Proof. intros ops. apply winv_run. exact winv0. Qed.
Print Assumptions C07_invariant_reachable.

Theorem C07_invariant_step :
  forall o w, winv w -> winv (ostep_w o w).
Proof. exact winv_step. Qed.
Print Assumptions C07_invariant_step.

(* while a borrow is active the lender's channel-io is the Borrowed sentinel, and then EVERY I/O or state
   call on it raises ChannelBorrowedError and changes nothing *)
Theorem C07_lender_is_borrowed :
  forall w h s, winv w -> In (h, s) (frames w) -> h_io (get_h w h) = Borrowed /\ s = Live.
Proof. exact lender_is_borrowed. Qed.
Print Assumptions C07_lender_is_borrowed.

Theorem C07_calls_on_lender_raise :
  forall w h k, h_io (get_h w h) = Borrowed -> ostep (OIO h k) w = (V_res RBorrowedErr, w).
Proof. exact io_on_borrowed. Qed.
Print Assumptions C07_calls_on_lender_raise.

(* the borrower (and the handle returned by take) is Live and starts with the same configuration *)
Theorem C07_borrower_has_full_access :
  forall w h,
  h < length (handles w) -> h_io (get_h w h) = Live ->
  let w' := ostep_w (OBorrow h) w in
  ostep_r (OBorrow h) w = V_res ROk /\
  length (handles w') = S (length (handles w)) /\
  get_h w' (length (handles w)) = mkH Live (h_cfg (get_h w h)) /\
  h_io (get_h w' h) = Borrowed /\ h_cfg (get_h w' h) = h_cfg (get_h w h) /\
  frames w' = (h, Live) :: frames w.
Proof. exact borrow_new_handle. Qed.
Print Assumptions C07_borrower_has_full_access.

Theorem C07_live_handle_reaches_transport :
  forall w h k,
  h_io (get_h w h) = Live ->
  fst (ostep (OIO h k) w) = V_res (match k with KClosed => RVal (tclosed w) | _ => ROk end) /\
  handles (snd (ostep (OIO h k) w)) = handles w /\ frames (snd (ostep (OIO h k) w)) = frames w.
Proof. exact io_on_live. Qed.
Print Assumptions C07_live_handle_reaches_transport.

(* when the borrow ends -- normally or by an exception -- the lender is Live again, same transport *)
Theorem C07_end_of_borrow_restores_lender :
  forall w h s rest raising,
  winv w -> frames w = (h, s) :: rest ->
  let w' := ostep_w (OEnd raising) w in
  h_io (get_h w' h) = Live /\ h_cfg (get_h w' h) = h_cfg (get_h w h) /\ frames w' = rest /\
  tclosed w' = tclosed w.
Proof. exact end_restores_lender. Qed.
Print Assumptions C07_end_of_borrow_restores_lender.

Theorem C07_only_end_pops_frames :
  forall o w, (forall r, o <> OEnd r) -> exists pre, frames (ostep_w o w) = pre ++ frames w.
Proof. exact frames_step. Qed.
Print Assumptions C07_only_end_pops_frames.

(* take(): the new handle is Live with the same configuration, the old one is Taken ... *)
Theorem C07_take :
  forall w h,
  h < length (handles w) -> h_io (get_h w h) = Live ->
  let w' := ostep_w (OTake h) w in
  ostep_r (OTake h) w = V_res ROk /\
  length (handles w') = S (length (handles w)) /\
  get_h w' (length (handles w)) = mkH Live (h_cfg (get_h w h)) /\
  h_io (get_h w' h) = Taken /\ h_cfg (get_h w' h) = h_cfg (get_h w h) /\
  frames w' = frames w.
Proof. exact take_new_handle. Qed.
Print Assumptions C07_take.

(* ... and stays Taken FOR EVER, whatever is done afterwards on any handle ever created *)
Theorem C07_taken_forever :
  forall ops w h,
  winv w -> h < length (handles w) -> h_io (get_h w h) = Taken ->
  h_io (get_h (orun_w ops w) h) = Taken.
Proof. exact taken_forever. Qed.
Print Assumptions C07_taken_forever.

(* on a taken handle: I/O raises ChannelTakenError, `closed` is True, close()/__exit__ do not touch the transport *)
Theorem C07_calls_on_taken_handle :
  forall w h k,
  h_io (get_h w h) = Taken ->
  ostep (OIO h k) w =
  (V_res (match k with KClosed => RVal true | KClose | KExit => ROk | _ => RTakenErr end), w).
Proof. exact io_on_taken. Qed.
Print Assumptions C07_calls_on_taken_handle.

(* borrow()/take() of a handle that is lending or was taken raise and change nothing *)
Theorem C07_borrow_take_of_non_live_raise :
  forall w h,
  h_io (get_h w h) <> Live ->
  ostep (OBorrow h) w = (V_res (err_of (h_io (get_h w h))), w) /\
  ostep (OTake h) w = (V_res (err_of (h_io (get_h w h))), w).
Proof. exact nonlive_borrow_take_raise. Qed.
Print Assumptions C07_borrow_take_of_non_live_raise.

(* later changes to one handle's configuration do not affect any other handle (the copy is deep) *)
Theorem C07_configuration_is_private :
  forall o w j,
  j < length (handles w) -> (forall c, o <> OCfg j c) ->
  h_cfg (get_h (ostep_w o w) j) = h_cfg (get_h w j).
Proof. exact ostep_cfg_frame. Qed.
Print Assumptions C07_configuration_is_private.

Theorem C07_example :
  own_model [OBorrow 0; OIO 0 KRead; OIO 1 KWrite; OTake 1; OEnd true; OIO 0 KSend; OIO 1 KRead; OIO 1 KClosed; OIO 1 KClose; OIO 2 KClosed] =
  VL [VL [VL [VN 0]; VN 0; VN 2]; VL [VL [VN 10]; VN 0; VN 2]; VL [VL [VN 0]; VN 0; VN 2];
      VL [VL [VN 0]; VN 0; VN 3]; VL [VL [VN 0]; VN 0; VN 3]; VL [VL [VN 0]; VN 0; VN 3];
      VL [VL [VN 11]; VN 0; VN 3]; VL [VL [VN 1; VN 1]; VN 0; VN 3]; VL [VL [VN 0]; VN 0; VN 3];
      VL [VL [VN 1; VN 0]; VN 0; VN 3]]%Z.
Proof. exact own_example. Qed.
Print Assumptions C07_example.
