(* C08 -- attached log streams get every read byte once, minus only the suppressed prompt.
   Property theorems only; proofs are in ProofC08.v.
   fwdb is the model's ghost record of the raw bytes handed to the attached streams; every fragment is
   handed to ALL attached streams as the same text (C08_all_streams_same_text). *)
From TV Require Import Base BaseLemmas Utf8 Regex Channel ChannelLemmas ProofC02 ProofC05 ProofC08.

(* (1) suppression on, literal prompt: the invariant  forwarded ++ held = data read since attaching,
       held = the LONGEST suffix of that data which is still a prefix of the prompt,
       is preserved by every _write_stream call, whatever the piece boundaries *)
Theorem C08_suppress_invariant :
  forall p buf c f0 d,
  streams (lgs c) <> [] -> log_prompt (lgs c) = false -> prompt c = Some (SLit p) ->
  sinv p f0 d (lgs c) ->
  sinv p f0 (d ++ buf) (lgs (write_stream buf c)) /\
  streams (lgs (write_stream buf c)) = streams (lgs c) /\
  log_prompt (lgs (write_stream buf c)) = false.
Proof. exact write_stream_suppress. Qed.
Print Assumptions C08_suppress_invariant.

(* (1b) hence what was forwarded is a prefix of the data: everything except the held-back suffix *)
Theorem C08_forwarded_is_prefix :
  forall p f0 d l, sinv p f0 d l -> f0 ++ d = fwdb l ++ held p d.
Proof. exact forwarded_is_all_but_held. Qed.
Print Assumptions C08_forwarded_is_prefix.

(* (1c) only a piece that could still become the prompt is held back, and it is released as soon as it
        cannot: held is a prompt prefix and no longer suffix of the data is one *)
Theorem C08_held_is_prompt_prefix :
  forall p d, exists k, k <= length p /\ held p d = firstn k p.
Proof. exact held_is_prompt_prefix. Qed.
Print Assumptions C08_held_is_prompt_prefix.

Theorem C08_held_is_longest :
  forall p d j,
  length (held p d) < j -> j <= length d -> j <= length p -> take_last j d <> firstn j p.
Proof. exact held_is_longest. Qed.
Print Assumptions C08_held_is_longest.

(* (1d) the incremental computation over the retained bytes equals the computation over everything
        read so far (the reason the for-loop over _streambuf is enough) *)
Theorem C08_overlap_incremental :
  forall p d buf, overlap p (take_last (overlap p d) d ++ buf) = overlap p (d ++ buf).
Proof. exact overlap_incremental. Qed.
Print Assumptions C08_overlap_incremental.

(* (2) attach a suppressing stream, read to the (literal) prompt: the stream holds exactly the output
       without the prompt, the prompt is what is held back, detaching drops it: for every
       fragmentation, timeout-free or not, with or without death strings *)
Theorem C08_stream_holds_output_without_prompt :
  forall sid c out c' p,
  wfc c -> prompt c = Some (SLit p) -> streams (lgs c) = [] -> streambuf (lgs c) = [] ->
  read_until_prompt None None (push_stream sid false c) = (Ret out, c') ->
  exists O, fwdb (lgs c') = fwdb (lgs c) ++ O /\ out = text O /\
            streambuf (lgs c') = p /\ streambuf (lgs (pop c')) = [] /\
            cpend c = (O ++ p) ++ cpend c'.
Proof. exact stream_gets_output_without_prompt. Qed.
Print Assumptions C08_stream_holds_output_without_prompt.

(* (2b) whatever is held back when detaching is dropped: nothing leaks into a later attachment *)
Theorem C08_nothing_leaks_after_detach :
  forall sid prevlp rest c p d f0,
  ctx c = FStream sid prevlp :: rest -> log_prompt (lgs c) = false -> prompt c = Some (SLit p) ->
  sinv p f0 d (lgs c) -> streambuf (lgs (pop c)) = [].
Proof. exact pop_stream_drops_any_held. Qed.
Print Assumptions C08_nothing_leaks_after_detach.

(* (3) suppression off (or no prompt configured): everything read is forwarded at once *)
Theorem C08_show_mode_forwards_everything :
  forall buf c,
  streams (lgs c) <> [] -> (log_prompt (lgs c) = true \/ prompt c = None) ->
  fwdb (lgs (write_stream buf c)) = fwdb (lgs c) ++ buf /\
  streambuf (lgs (write_stream buf c)) = streambuf (lgs c).
Proof. exact write_stream_show. Qed.
Print Assumptions C08_show_mode_forwards_everything.

(* (4) nothing is forwarded while no stream is attached *)
Theorem C08_nothing_forwarded_when_detached :
  forall buf c, streams (lgs c) = [] -> write_stream buf c = c.
Proof. exact write_stream_detached. Qed.
Print Assumptions C08_nothing_forwarded_when_detached.

(* (5) all simultaneously attached streams receive the same text *)
Theorem C08_all_streams_same_text :
  forall frag l,
  sout (emit frag l) = rev (map (fun sid => (sid, utf8_dec frag)) (streams l)) ++ sout l /\
  fwdb (emit frag l) = fwdb l ++ frag.
Proof. exact emit_same_text. Qed.
Print Assumptions C08_all_streams_same_text.

(* (6) text level: for data that no piece boundary can split inside a character (ASCII) the text is the bytes *)
Theorem C08_ascii_text_is_bytes :
  forall l, Forall (fun b => (b < 128)%N) l -> utf8_dec l = l.
Proof. exact utf8_dec_ascii. Qed.
Print Assumptions C08_ascii_text_is_bytes.

(* (7) the full statement is FALSE for regex prompts and for nested attachments with different modes
       (recorded findings, see known_findings.json / DESIGN.md D11); the theorems above are therefore the
       literal-prompt, uniform-mode part of the property.  Witnesses: *)
Theorem C08_regex_prompt_refuted :
  let c0 := push_stream 0 false (push_prompt (SRe d11_re)
              (chan_init [(0%Z, [97; 98; 49; 50; 62; 32]%N)] [])) in
  let (r, c1) := read_until_prompt None None c0 in
  r = Ret [97; 98]%N /\ fwdb (lgs (pop c1)) = [97]%N.
Proof. exact regex_holdback_refuted. Qed.
Print Assumptions C08_regex_prompt_refuted.

Theorem C08_nested_modes_refuted :
  let c0 := push_stream 0 false (push_prompt (SLit [61; 62; 32]%N)
              (chan_init [(0%Z, [61]%N); (0%Z, [120]%N); (0%Z, [121; 61; 62; 32]%N)] [])) in
  let c1 := snd (read 1 None c0) in
  let c2 := snd (read 1 None (push_stream 1 true c1)) in
  let c3 := snd (read_until_prompt None None (pop c2)) in
  fwdb (lgs c2) = [120]%N /\ fwdb (lgs c3) = [120; 61; 121]%N.
Proof. exact nested_modes_refuted. Qed.
Print Assumptions C08_nested_modes_refuted.

Theorem C08_example :
  let c0 := push_stream 0 false (push_prompt (SLit [61; 62; 32]%N)
              (chan_init [(0%Z, [120; 61; 61]%N); (0%Z, [62]%N); (0%Z, [32]%N)] [])) in
  let (r, c1) := read_until_prompt None None c0 in
  (r, fwdb (lgs c1), streambuf (lgs c1), streambuf (lgs (pop c1))) =
  (Ret [120; 61]%N, [120; 61]%N, [61; 62; 32]%N, []).
Proof. exact suppress_example. Qed.
Print Assumptions C08_example.
