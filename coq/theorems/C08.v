From TV Require Import Base.
Theorem C08_placeholder : True. Proof. exact I. Qed.
Print Assumptions C08_placeholder.
