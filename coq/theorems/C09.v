(* C09 -- environment variables round-trip exactly (subshell isolation is decided end-to-end, see DESIGN.md).
   Property theorems only; proofs are in ProofC09.v. *)
From TV Require Import Base Utf8 Utf8Lemmas Regex Channel ChannelLemmas Hush Session ProofSession ProofC19 Sh ProofC01 ProofC09 ProofEnvUtf8 Subshell ProofC09b ProofC04b ProofC18c ProofInit ProofC09c ProofInitRetry ProofC09d ProofC09e.

(* (1) the line env(var, value) sends is read by the shell as  export NAME=VALUE  with exactly the value:
       for all names and values without NUL (leading dashes, backslashes, quotes, $, globs, newlines, blanks ...) *)
Theorem C09_export_assigns_exactly_the_value :
  forall var value, nonul var -> nonul value ->
  sh_words (utf8_enc (export_line var value)) = Some [EXPORT; utf8_enc var ++ [61%N] ++ utf8_enc value].
Proof. exact export_words_sent. Qed.
Print Assumptions C09_export_assigns_exactly_the_value.

(* (2) env(var, value) returns the value and leaves the channel in sync, for every fragmentation *)
Theorem C09_env_set_exact :
  forall var v P c st1 st2 sts,
  insync c -> prompt c = Some (SLit P) -> P <> [] ->
  nonul var -> nonul v ->
  any_in (blacklist c) (utf8_enc (export_line var v) ++ [CR]) = false ->
  any_in (blacklist c) (ECHO_Q ++ [CR]) = false ->
  wf_pend st1 -> cat st1 = tty_echo false (utf8_enc (export_line var v) ++ [CR]) ++ onlcr [] ++ P ->
  wf_pend st2 -> cat st2 = tty_echo false (ECHO_Q ++ [CR]) ++ (ZERO ++ [CR; LF]) ++ P ->
  prompt_only_at_end P (ZERO ++ [CR; LF]) ->
  exists c', lx_env_set var v (st1 :: st2 :: sts) c = (X0Ok v, c', sts) /\ insync c' /\
             sh_words (utf8_enc (export_line var v)) = Some [EXPORT; utf8_enc var ++ [61%N] ++ utf8_enc v].
Proof. exact env_set_exact. Qed.
Print Assumptions C09_env_set_exact.

(* (3) env(var) returns exactly what the variable holds, for every fragmentation (theorem for ASCII values
       without CR; the shell prints the value verbatim through printf '%s\n') *)
Theorem C09_env_get_exact :
  forall var v P c st1 st2 sts,
  insync c -> prompt c = Some (SLit P) -> P <> [] ->
  Forall (fun b => (b < 128)%N /\ b <> CR) v ->
  any_in (blacklist c) (utf8_enc (get_line var) ++ [CR]) = false ->
  any_in (blacklist c) (ECHO_Q ++ [CR]) = false ->
  wf_pend st1 -> cat st1 = tty_echo false (utf8_enc (get_line var) ++ [CR]) ++ onlcr (v ++ [LF]) ++ P ->
  prompt_only_at_end P (onlcr (v ++ [LF])) ->
  wf_pend st2 -> cat st2 = tty_echo false (ECHO_Q ++ [CR]) ++ (ZERO ++ [CR; LF]) ++ P ->
  prompt_only_at_end P (ZERO ++ [CR; LF]) ->
  exists c', lx_env_get var (st1 :: st2 :: sts) c = (X0Ok v, c', sts) /\ insync c'.
Proof. exact env_get_exact. Qed.
Print Assumptions C09_env_get_exact.

(* (4) why the read-back must not go through echo: dash's echo builtin (model validated against /bin/dash)
       changes values with backslashes -- the defect repaired by dc1a7bc *)
Theorem C09_read_back_through_dash_echo_refuted :
  exists v, drop_last 1 (skipn 1 (echo_out true (32%N :: v))) <> v.
Proof. exact dash_echo_refuted. Qed.
Print Assumptions C09_read_back_through_dash_echo_refuted.

(* (3b) the same for ARBITRARY text values (Unicode scalar values, no CR): newlines, non-ASCII, trailing blanks ... *)
Theorem C09_env_get_exact_any_text :
  forall var v P c st1 st2 sts,
  insync c -> prompt c = Some (SLit P) -> P <> [] ->
  Forall scalar v -> Forall (fun b => b <> CR) v ->
  any_in (blacklist c) (utf8_enc (get_line var) ++ [CR]) = false ->
  any_in (blacklist c) (ECHO_Q ++ [CR]) = false ->
  wf_pend st1 -> cat st1 = tty_echo false (utf8_enc (get_line var) ++ [CR]) ++ onlcr (utf8_enc v ++ [LF]) ++ P ->
  prompt_only_at_end P (onlcr (utf8_enc v ++ [LF])) ->
  wf_pend st2 -> cat st2 = tty_echo false (ECHO_Q ++ [CR]) ++ (ZERO ++ [CR; LF]) ++ P ->
  prompt_only_at_end P (ZERO ++ [CR; LF]) ->
  exists c', lx_env_get var (st1 :: st2 :: sts) c = (X0Ok v, c', sts) /\ insync c'.
Proof. exact env_get_exact_utf8. Qed.
Print Assumptions C09_env_get_exact_any_text.

(* (5) subshell isolation in the abstract model of nested shells (Subshell.v; the model's final states are compared
       with the real bash and dash on every generated program): whatever the body does -- sets, cd, options, further
       subshells to any depth -- and whether it returns or raises at any point, the shell the context was entered
       from, and every shell around it, is exactly as before; an uncaught exception still reaches the caller *)
Theorem C09_subshell_isolates :
  forall body catch st, st <> [] -> fst (run_op (SSub body catch) st) = st.
Proof. exact subshell_isolates. Qed.
Print Assumptions C09_subshell_isolates.

Theorem C09_subshell_exception_propagates :
  forall body st f rest, st = f :: rest ->
  snd (run_op (SSub body false) st) = snd (run_list body (mkF (f_env f) (f_cwd f) [] :: f :: rest)).
Proof. exact subshell_propagates. Qed.
Print Assumptions C09_subshell_exception_propagates.

(* (6) the code's side of subshell(): leaving the context sends `exit` and waits for the prompt -- for EVERY
       fragmentation of what the console still prints, the machine is in sync with the outer shell afterwards (so by
       C01_exec_exact the next command's output and status are exact) *)
Theorem C09_subshell_leave_resyncs :
  forall P c (stg : stage) noise,
  insync c -> prompt c = Some (SLit P) -> P <> [] -> wf_pend stg ->
  any_in (blacklist c) (EXIT_CMD ++ [CR]) = false ->
  cat stg = noise ++ P -> prompt_only_at_end P noise ->
  exists c', subshell_leave [stg] c = (IOk, c', []) /\ insync c' /\
             wr (io c') = wr (io c) ++ EXIT_CMD ++ [CR] /\ prompt c' = prompt c.
Proof. exact subshell_leave_resyncs. Qed.
Print Assumptions C09_subshell_leave_resyncs.

(* (7) ... and entering it: the spawn command is sent, the inner shell initialised like any shell (C01's theorem about
       _init_shell): when the probe's answer shows up in time among what the console prints after the spawn command
       and the probe, and the later answers contain the prompt only at their end, the machine is in sync with the inner
       shell, prompt and black-list installed -- for EVERY fragmentation and timing (shift t st = the stage's pieces at
       their absolute times; ready = bytes arriving strictly before the deadline) *)
Theorem C09_subshell_enter_ok :
  forall fuel tmo bl cfg spawn c (st_spawn st0 st_ps1 : stage) (stgs : list stage) (st_san : stage) a noise1,
  insync c -> slow c = None -> (0 < tmo)%Z ->
  wf_pend st_spawn -> any_in (blacklist c) (spawn ++ [CR]) = false ->
  wf_pend st0 -> any_in (blacklist c) (PROBE ++ [CR]) = false ->
  find_sub PROBE_ANSWER (cat st_spawn ++ cat st0) = Some a ->
  a + length PROBE_ANSWER <= ready (Some (now (io c) + tmo)%Z) (shift (now (io c)) st_spawn ++ shift (now (io c)) st0) ->
  any_in bl (PS1_LINE ++ [CR]) = false ->
  Forall (fun l => any_in bl (l ++ [CR]) = false) cfg ->
  any_in bl (SANITY ++ [CR]) = false ->
  wf_pend st_ps1 -> cat st_ps1 = noise1 ++ TBOT_PROMPT ->
  prompt_only_at_end TBOT_PROMPT (skipn (a + length PROBE_ANSWER) (cat st_spawn ++ cat st0) ++ noise1) ->
  Forall2 (fun l stg => wf_pend stg /\ exists noise, cat stg = noise ++ TBOT_PROMPT /\ prompt_only_at_end TBOT_PROMPT noise) cfg stgs ->
  wf_pend st_san -> cat st_san = tty_echo false (SANITY ++ [CR]) ++ onlcr SANITY_ANSWER ++ TBOT_PROMPT ->
  exists c', subshell_enter (S fuel) tmo bl PS1_LINE cfg spawn (st_spawn :: st0 :: st_ps1 :: stgs ++ [st_san]) c = (IOk, c', []) /\
             insync c' /\ prompt c' = Some (SLit TBOT_PROMPT) /\ blacklist c' = bl.
Proof. exact subshell_enter_ok. Qed.
Print Assumptions C09_subshell_enter_ok.

(* (8) the same when the inner shell is slow to come up: the first probe - and any number of further ones - go
       unanswered (what the console prints during each wait arrives within that wait and lacks the answer: e.g. the
       echo of the spawn command and start-up messages), then a probe is answered within its 3 s wait; the machine
       still ends up in sync with the inner shell, for EVERY fragmentation and timing of every reaction *)
Theorem C09_subshell_enter_ok_after_retries :
  forall fuel tmo bl cfg spawn c (st_spawn s1 : stage) (r : list stage)
         (st0 st_ps1 : stage) (stgs : list stage) (st_san : stage) a noise1,
  insync c -> slow c = None -> (0 < tmo)%Z ->
  wf_pend st_spawn -> any_in (blacklist c) (spawn ++ [CR]) = false ->
  any_in (blacklist c) (PROBE ++ [CR]) = false ->
  wf_pend s1 -> within (Some tmo) st_spawn -> within (Some tmo) s1 ->
  contains PROBE_ANSWER (cat st_spawn ++ cat s1) = false ->
  silent_rounds 3072%Z r -> wf_pend st0 ->
  find_sub PROBE_ANSWER (cat st0) = Some a ->
  a + length PROBE_ANSWER <= ready_before 3072%Z st0 ->
  S (length r) < fuel ->
  any_in bl (PS1_LINE ++ [CR]) = false ->
  Forall (fun l => any_in bl (l ++ [CR]) = false) cfg ->
  any_in bl (SANITY ++ [CR]) = false ->
  wf_pend st_ps1 -> cat st_ps1 = noise1 ++ TBOT_PROMPT ->
  prompt_only_at_end TBOT_PROMPT (skipn (a + length PROBE_ANSWER) (cat st0) ++ noise1) ->
  Forall2 (fun l stg => wf_pend stg /\ exists noise, cat stg = noise ++ TBOT_PROMPT /\ prompt_only_at_end TBOT_PROMPT noise) cfg stgs ->
  wf_pend st_san -> cat st_san = tty_echo false (SANITY ++ [CR]) ++ onlcr SANITY_ANSWER ++ TBOT_PROMPT ->
  exists c', subshell_enter fuel tmo bl PS1_LINE cfg spawn (st_spawn :: s1 :: r ++ st0 :: st_ps1 :: stgs ++ [st_san]) c = (IOk, c', []) /\
             insync c' /\ prompt c' = Some (SLit TBOT_PROMPT) /\ blacklist c' = bl.
Proof. exact subshell_enter_ok_after_retries. Qed.
Print Assumptions C09_subshell_enter_ok_after_retries.

(* (9) a whole `with m.subshell(): m.exec(...)` session: entering, one command inside, leaving.  For every
       fragmentation and timing of every reaction the command's output and status are exact, its arguments reach the
       inner shell as given, and after `exit` the machine is in sync with the outer shell again, having written exactly
       the command line, `echo $?` and `exit` after the initialisation *)
Theorem C09_subshell_session_exact :
  forall fuel tmo bl cfg spawn c (st_spawn st0 st_ps1 : stage) (stgs : list stage) (st_san : stage) a noise1
         args (st1 st2 st_exit : stage) out ds noise_exit,
  insync c -> slow c = None -> (0 < tmo)%Z ->
  wf_pend st_spawn -> any_in (blacklist c) (spawn ++ [CR]) = false ->
  wf_pend st0 -> any_in (blacklist c) (PROBE ++ [CR]) = false ->
  find_sub PROBE_ANSWER (cat st_spawn ++ cat st0) = Some a ->
  a + length PROBE_ANSWER <= ready (Some (now (io c) + tmo)%Z) (shift (now (io c)) st_spawn ++ shift (now (io c)) st0) ->
  any_in bl (PS1_LINE ++ [CR]) = false ->
  Forall (fun l => any_in bl (l ++ [CR]) = false) cfg ->
  any_in bl (SANITY ++ [CR]) = false ->
  wf_pend st_ps1 -> cat st_ps1 = noise1 ++ TBOT_PROMPT ->
  prompt_only_at_end TBOT_PROMPT (skipn (a + length PROBE_ANSWER) (cat st_spawn ++ cat st0) ++ noise1) ->
  Forall2 (fun l stg => wf_pend stg /\ exists noise, cat stg = noise ++ TBOT_PROMPT /\ prompt_only_at_end TBOT_PROMPT noise) cfg stgs ->
  wf_pend st_san -> cat st_san = tty_echo false (SANITY ++ [CR]) ++ onlcr SANITY_ANSWER ++ TBOT_PROMPT ->
  Forall nonul args ->
  any_in bl (utf8_enc (sh_escape args) ++ [CR]) = false ->
  any_in bl (ECHO_Q ++ [CR]) = false ->
  wf_pend st1 -> cat st1 = tty_echo false (utf8_enc (sh_escape args) ++ [CR]) ++ onlcr out ++ TBOT_PROMPT ->
  prompt_only_at_end TBOT_PROMPT (onlcr out) ->
  wf_pend st2 -> cat st2 = tty_echo false (ECHO_Q ++ [CR]) ++ (ds ++ [CR; LF]) ++ TBOT_PROMPT ->
  all_digits ds -> ds <> [] -> prompt_only_at_end TBOT_PROMPT (ds ++ [CR; LF]) ->
  any_in bl (EXIT_CMD ++ [CR]) = false ->
  wf_pend st_exit -> cat st_exit = noise_exit ++ TBOT_PROMPT -> prompt_only_at_end TBOT_PROMPT noise_exit ->
  exists c1 c2 c3,
    subshell_enter (S fuel) tmo bl PS1_LINE cfg spawn (st_spawn :: st0 :: st_ps1 :: stgs ++ [st_san]) c = (IOk, c1, []) /\
    lx_exec args [st1; st2] c1 = (XOk (dec_val ds) (text (onlcr out)), c2, []) /\
    subshell_leave [st_exit] c2 = (IOk, c3, []) /\
    insync c3 /\ prompt c3 = Some (SLit TBOT_PROMPT) /\
    wr (io c3) = wr (io c1) ++ (utf8_enc (sh_escape args) ++ [CR]) ++ (ECHO_Q ++ [CR]) ++ (EXIT_CMD ++ [CR]) /\
    sh_words (utf8_enc (sh_escape args)) = Some (map utf8_enc args).
Proof. exact subshell_session_exact. Qed.
Print Assumptions C09_subshell_session_exact.
