(* C10 -- interactive commands: output, exit status and early exit are reported faithfully.
   Property theorems only; proofs are in ProofC10.v (over the models Proxy.v, Session.v, Channel.v). *)
From TV Require Import Base Utf8 Regex Channel ChannelCorr ChannelLemmas ProofC05 Hush Session ProofSession Sh ProofC01 Proxy ProofC10 ProofC10b ProofCalm ProofC10c.

(* (1) after termination, and after an early exit has been noticed, EVERY sequence of proxy operations raises
       CommandEndedException and leaves the proxy and the transport exactly as they were *)
Theorem C10_ended_proxy_stays_silent :
  forall ss p acc, only_io ss -> st p <> PRunning ->
  run_script ss p acc = (rev acc ++ map (fun _ => V_CE) ss, p).
Proof. exact ended_proxy_stays_silent. Qed.
Print Assumptions C10_ended_proxy_stays_silent.

(* (2) a running proxy ends exactly when an interaction raised the shell prompt's death-string exception; the
       caller then gets CommandEndedException, never the data *)
Theorem C10_ends_iff_prompt_exception :
  forall o sts p v p',
  st p = PRunning -> proxy_io o sts p = (v, p') ->
  let c0 := if writes o (pc p) then load (hd_stage sts) (pc p) else pc p in
  (st p' = PEnded <-> died (fst (run_op o c0)) = true) /\
  (st p' = PEnded -> v = V_CE /\ early p' = true) /\
  (st p' <> PEnded -> v = fst (run_op o c0) /\ st p' = PRunning).
Proof. exact ends_iff_prompt_exception. Qed.
Print Assumptions C10_ends_iff_prompt_exception.

(* (3) terminate() / terminate0(): for EVERY fragmentation of what the console still sends, the remaining output of
       the command and the status the shell reports are returned exactly (terminate0 raising iff non-zero), the
       proxy is terminated and the channel is back in sync *)
Theorem C10_terminate_exact :
  forall z P p st2 sts out ds,
  proxy_ok P p -> early p = false ->
  cpend (pc p) = out ++ P -> prompt_only_at_end P out ->
  any_in (blacklist (pc p)) (ECHO_Q ++ [CR]) = false ->
  wf_pend st2 -> cat st2 = tty_echo false (ECHO_Q ++ [CR]) ++ (ds ++ [CR; LF]) ++ P ->
  all_digits ds -> ds <> [] -> prompt_only_at_end P (ds ++ [CR; LF]) ->
  exists p',
    terminate z (st2 :: sts) p =
      (if z && negb (dec_val ds =? 0)%Z then TFailure else TOk (dec_val ds) (text out), p') /\
    st p' = PTerminated /\ alive p' = false /\ insync (pc p').
Proof. exact terminate_exact. Qed.
Print Assumptions C10_terminate_exact.

(* (4) ... and after an early exit terminate() still yields the real status (and no output) *)
Theorem C10_terminate_after_early_exit :
  forall z P p st2 sts ds,
  proxy_ok P p -> early p = true -> pend (io (pc p)) = [] ->
  any_in (blacklist (pc p)) (ECHO_Q ++ [CR]) = false ->
  wf_pend st2 -> cat st2 = tty_echo false (ECHO_Q ++ [CR]) ++ (ds ++ [CR; LF]) ++ P ->
  all_digits ds -> ds <> [] -> prompt_only_at_end P (ds ++ [CR; LF]) ->
  exists p',
    terminate z (st2 :: sts) p = (if z && negb (dec_val ds =? 0)%Z then TFailure else TOk (dec_val ds) [], p') /\
    st p' = PTerminated /\ alive p' = false /\ insync (pc p').
Proof. exact terminate_after_early_exit. Qed.
Print Assumptions C10_terminate_after_early_exit.

(* (5) terminating twice is refused; leaving the context raises exactly when the proxy was not terminated *)
Theorem C10_terminate_twice :
  forall z sts p, alive p = false -> terminate z sts p = (TAssert, p).
Proof. exact terminate_twice. Qed.
Print Assumptions C10_terminate_twice.

Theorem C10_leaving_without_terminate_raises :
  forall p, leave p = VL [VN 11] <-> alive p = true.
Proof. exact leave_refused_iff_alive. Qed.
Print Assumptions C10_leaving_without_terminate_raises.

(* (6) early exit, completely: while the command runs (h = the bytes received since its command line was echoed),
       an interaction raises CommandEndedException IF AND ONLY IF the bytes it consumed complete the shell prompt --
       never on other data, never missed, for every fragmentation and timing (composes C05's ring-buffer theorem
       with the proxy model); otherwise the caller gets the data and the invariant carries on with the longer history *)
Theorem C10_interaction_raises_iff_prompt_received :
  forall P h own tmo sts p v p',
  st p = PRunning -> wfc (pc p) -> only_prompt P (pc p) -> dinv (deaths (pc p)) [h] ->
  proxy_io (ORup (Some (SLit own)) tmo) sts p = (v, p') ->
  (st p' = PEnded ->
     v = V_CE /\ exists data, cpend (pc p) = data ++ cpend (pc p') /\ contains P (h ++ data) = true) /\
  (st p' <> PEnded ->
     st p' = PRunning /\ wfc (pc p') /\ only_prompt P (pc p') /\
     forall out, v = V_data out ->
       exists data, cpend (pc p) = data ++ cpend (pc p') /\ contains P (h ++ data) = false /\
                    dinv (deaths (pc p')) [h ++ data]).
Proof. exact proxy_rup_raises_iff_prompt_received. Qed.
Print Assumptions C10_interaction_raises_iff_prompt_received.

(* (7) run() establishes that invariant with an empty history: the command line is sent, exactly its echo is
       consumed, the shell prompt is the only death string *)
Theorem C10_run_establishes_the_invariant :
  forall cmd P parent stg rest echo sts,
  insync parent -> prompt parent = Some (SLit P) -> P <> [] ->
  any_in (blacklist parent) (cmd ++ [CR]) = false ->
  wf_pend stg -> cat stg = echo ++ rest -> length echo = readback_len (cmd ++ [CR]) ->
  exists p, run_start cmd (stg :: sts) parent = (VL [VN 0], p) /\
    st p = PRunning /\ alive p = true /\ early p = false /\ gdone p = false /\
    wfc (pc p) /\ only_prompt P (pc p) /\ dinv (deaths (pc p)) [[]] /\ cpend (pc p) = rest.
Proof. exact run_start_establishes. Qed.
Print Assumptions C10_run_establishes_the_invariant.

(* (7) conservation, for EVERY fragmentation of the console output: run() sends the command line and registers the
       shell prompt; then the test and the program exchange lines -- each line is echoed, answered, and followed by the
       program's own prompt; the line that makes the program exit is sent; terminate() is called.  As long as the shell
       prompt does not occur in what the console prints while the command runs, the test obtains exactly the program's
       answers, in order, terminate() returns exactly the rest of the output and the status the shell reports
       (terminate0: CommandFailure iff non-zero), and the channel is back in sync. *)
Theorem C10_run_establishes_the_running_invariant :
  forall cmd P parent (stg : stage) (sts : list stage) rest,
  insync parent -> prompt parent = Some (SLit P) -> P <> [] ->
  any_in (blacklist parent) (cmd ++ [CR]) = false ->
  wf_pend stg -> cat stg = tty_echo false (cmd ++ [CR]) ++ rest ->
  exists p, run_start cmd (stg :: sts) parent = (VL [VN 0], p) /\ runningp P p [] rest /\
            wr (io (pc p)) = wr (io parent) ++ cmd ++ [CR] /\ blacklist (pc p) = blacklist parent.
Proof. exact run_start_runningp. Qed.
Print Assumptions C10_run_establishes_the_running_invariant.

Theorem C10_first_output_up_to_the_programs_prompt :
  forall P p h own answer,
  runningp P p h (answer ++ own) -> own <> [] -> prompt_only_at_end own answer ->
  contains P (h ++ answer ++ own) = false ->
  exists p1,
    proxy_io (ORup (Some (SLit own)) None) [] p = (V_data (text answer), p1) /\
    runningp P p1 (h ++ answer ++ own) [] /\ wr (io (pc p1)) = wr (io (pc p)) /\ blacklist (pc p1) = blacklist (pc p).
Proof. exact proxy_rup_own. Qed.
Print Assumptions C10_first_output_up_to_the_programs_prompt.

Theorem C10_conservation :
  forall P own xs p h exit_line (st_exit st_status : stage) (sts : list stage) out ds z,
  runningp P p h [] -> own <> [] ->
  Forall (exch_ok own (blacklist (pc p))) xs ->
  wf_pend st_exit -> any_in (blacklist (pc p)) (exit_line ++ [CR]) = false ->
  cat st_exit = tty_echo false (exit_line ++ [CR]) ++ out ++ P -> prompt_only_at_end P out ->
  contains P (h ++ received xs ++ tty_echo false (exit_line ++ [CR])) = false ->
  any_in (blacklist (pc p)) (ECHO_Q ++ [CR]) = false ->
  wf_pend st_status -> cat st_status = tty_echo false (ECHO_Q ++ [CR]) ++ (ds ++ [CR; LF]) ++ P ->
  all_digits ds -> ds <> [] -> prompt_only_at_end P (ds ++ [CR; LF]) ->
  exists p',
    run_script (flat_map (exch_steps own) xs ++
                [PIo (OSendline false exit_line true None) [st_exit]; PTerm z (st_status :: sts)]) p [] =
      (answers xs ++ [VL [VN 0]; V_tres (if z && negb (dec_val ds =? 0)%Z then TFailure else TOk (dec_val ds) (text out))], p') /\
    st p' = PTerminated /\ alive p' = false /\ insync (pc p').
Proof. exact run_conservation. Qed.
Print Assumptions C10_conservation.

(* ... the same from the machine in sync to the machine in sync *)
Theorem C10_whole_run_session_exact :
  forall cmd P own parent (st_cmd : stage) banner xs exit_line (st_exit st_status : stage) (sts : list stage) out ds z,
  insync parent -> prompt parent = Some (SLit P) -> P <> [] -> own <> [] ->
  any_in (blacklist parent) (cmd ++ [CR]) = false ->
  wf_pend st_cmd -> cat st_cmd = tty_echo false (cmd ++ [CR]) ++ banner ++ own -> prompt_only_at_end own banner ->
  Forall (exch_ok own (blacklist parent)) xs ->
  wf_pend st_exit -> any_in (blacklist parent) (exit_line ++ [CR]) = false ->
  cat st_exit = tty_echo false (exit_line ++ [CR]) ++ out ++ P -> prompt_only_at_end P out ->
  contains P ((banner ++ own) ++ received xs ++ tty_echo false (exit_line ++ [CR])) = false ->
  any_in (blacklist parent) (ECHO_Q ++ [CR]) = false ->
  wf_pend st_status -> cat st_status = tty_echo false (ECHO_Q ++ [CR]) ++ (ds ++ [CR; LF]) ++ P ->
  all_digits ds -> ds <> [] -> prompt_only_at_end P (ds ++ [CR; LF]) ->
  exists p0 p',
    run_start cmd [st_cmd] parent = (VL [VN 0], p0) /\
    run_script (PIo (ORup (Some (SLit own)) None) [] :: flat_map (exch_steps own) xs ++
                [PIo (OSendline false exit_line true None) [st_exit]; PTerm z (st_status :: sts)]) p0 [] =
      (V_data (text banner) :: answers xs ++
       [VL [VN 0]; V_tres (if z && negb (dec_val ds =? 0)%Z then TFailure else TOk (dec_val ds) (text out))], p') /\
    st p' = PTerminated /\ alive p' = false /\ insync (pc p').
Proof. exact run_session_exact. Qed.
Print Assumptions C10_whole_run_session_exact.
