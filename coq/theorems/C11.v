(* C11 -- file contents written through a Path are read back identically.
   Property theorems only; proofs are in ProofC11.v.  The transfer protocol (run() proxy, tee, ^D, terminate0) is
   decided end-to-end; these theorems are the codec and payload facts it relies on. *)
From TV Require Import Base Utf8 Regex Channel ChannelLemmas Hush Session ProofSession ProofC19 Sh Base64 ProofC11 Proxy PathIO ProofC11b ProofC05 ProofAlien ProofC11c ProofC11d.

(* (1) decoding the encoding gives back the data: every byte string, all 256 values, every length *)
Theorem C11_base64_roundtrip :
  forall d, Forall is_byte d -> b64dec (b64enc d) = d.
Proof. exact b64_roundtrip. Qed.
Print Assumptions C11_base64_roundtrip.

(* (2) read_bytes: what `base64 FILE` prints (76-column lines) decodes to the file's bytes *)
Theorem C11_read_bytes_decodes_wrapped_output :
  forall d, Forall is_byte d -> b64dec (b64_wrapped d) = d.
Proof. exact b64_wrapped_roundtrip. Qed.
Print Assumptions C11_read_bytes_decodes_wrapped_output.

(* (3) write_bytes: the lines sent are, concatenated in order, the encoding (nothing lost or duplicated at the
       76-character boundaries) ... *)
Theorem C11_lines_are_the_encoding :
  forall d, concat (b64_lines d) = b64enc d.
Proof. exact b64_lines_concat. Qed.
Print Assumptions C11_lines_are_the_encoding.

(* ... and each line is non-empty, at most 76 characters, over the base64 alphabet *)
Theorem C11_lines_wellformed :
  forall d, Forall is_byte d ->
  Forall (fun p => p <> [] /\ length p <= 76 /\ Forall b64_char p) (b64_lines d).
Proof. exact b64_lines_wellformed. Qed.
Print Assumptions C11_lines_wellformed.

(* (4) such a line holds no blank, no colon and nothing below '+': no forbidden byte of any shell class, no
       control character (echo accounting is exact), and it cannot spell the death string "tee: " *)
Theorem C11_line_characters_harmless :
  forall p c, Forall b64_char p -> In c p -> (43 <= c /\ c <= 122 /\ c <> 58 /\ c <> 32)%N.
Proof. exact b64_line_harmless. Qed.
Print Assumptions C11_line_characters_harmless.

(* (5) read_bytes as a session: the remote prints the 76-column base64 text of the file; for EVERY fragmentation of the
       console's reaction read_bytes returns exactly the file's bytes and leaves the channel in sync *)
Theorem C11_read_bytes_exact :
  forall cmd d P c st1 st2 sts,
  insync c -> prompt c = Some (SLit P) -> P <> [] -> Forall is_byte d ->
  any_in (blacklist c) (utf8_enc cmd ++ [CR]) = false ->
  any_in (blacklist c) (ECHO_Q ++ [CR]) = false ->
  wf_pend st1 -> cat st1 = tty_echo false (utf8_enc cmd ++ [CR]) ++ onlcr (b64_wrapped d) ++ P ->
  prompt_only_at_end P (onlcr (b64_wrapped d)) ->
  wf_pend st2 -> cat st2 = tty_echo false (ECHO_Q ++ [CR]) ++ (ZERO ++ [CR; LF]) ++ P ->
  prompt_only_at_end P (ZERO ++ [CR; LF]) ->
  exists c', read_bytes_model cmd (st1 :: st2 :: sts) c = (X0Ok d, c') /\ insync c'.
Proof. exact read_bytes_exact. Qed.
Print Assumptions C11_read_bytes_exact.

(* (6) write_bytes, the data phase: for EVERY fragmentation of the echoes (stgs: arbitrary timed pieces whose
       concatenation is line CR LF), every partial-write behaviour and with both death strings ("tee: " and the shell
       prompt) registered, all lines are sent completely and in order, exactly their echoes are read back, nothing is
       raised, and the proxy is between two lines again (nothing pending).  `calm` = the registered death strings each
       contain a character that the echo stream never uses (blank / colon), so they cannot fire on it. *)
Theorem C11_write_bytes_data_phase :
  forall lines (stgs : list stage) p hs,
  between p hs ->
  Forall (fun l => l <> [] /\ length l <= 76 /\ Forall b64_char l /\ any_in (blacklist (pc p)) (l ++ [CR]) = false) lines ->
  Forall2 (fun l stg => wf_pend stg /\ cat stg = l ++ [CR; LF]) lines stgs ->
  exists p',
    send_lines lines stgs p = (None, p', []) /\
    between p' (map (fun h => h ++ echoes lines) hs) /\
    wr (io (pc p')) = wr (io (pc p)) ++ sent lines /\
    alive p' = alive p /\ early p' = early p /\ gdone p' = gdone p /\
    ctx (pc p') = ctx (pc p) /\ prompt (pc p') = prompt (pc p) /\ blacklist (pc p') = blacklist (pc p).
Proof. exact send_lines_exact. Qed.
Print Assumptions C11_write_bytes_data_phase.

(* (6b) and what was sent decodes (as `base64 -d` reads it: CR / LF skipped) to the data, for every byte string *)
Theorem C11_sent_lines_decode_to_the_data :
  forall d, Forall is_byte d -> b64dec (sent (b64_lines d)) = d.
Proof. exact sent_lines_decode. Qed.
Print Assumptions C11_sent_lines_decode_to_the_data.

Theorem C11_tee_death_string_cannot_fire_on_echoes : alien okc TEE_STR.
Proof. exact tee_alien. Qed.
Print Assumptions C11_tee_death_string_cannot_fire_on_echoes.

(* (n) write_bytes as a whole session (model write_bytes_model in PathIO.v, compared with the real Path.write_bytes on
       every run): for EVERY byte string and EVERY fragmentation and timing of the console's echoes -- the console
       echoes the command line and every base64 line, and prompts again after ^D -- the session succeeds, the lines
       that were sent decode to exactly the data, and the machine's channel is back in sync *)
Theorem C11_write_bytes_session_exact :
  forall cmd data parent (st_cmd : stage) (st_lines : list stage) (st_eof st_status : stage),
  insync parent -> prompt parent = Some (SLit TBOT_PROMPT) ->
  Forall is_byte data ->
  any_in (blacklist parent) (cmd ++ [CR]) = false ->
  Forall (fun l => any_in (blacklist parent) (l ++ [CR]) = false) (b64_lines data) ->
  any_in (blacklist parent) (ECHO_Q ++ [CR]) = false ->
  wf_pend st_cmd -> cat st_cmd = tty_echo false (cmd ++ [CR]) ->
  Forall2 (fun l stg => wf_pend stg /\ cat stg = l ++ [CR; LF]) (b64_lines data) st_lines ->
  wf_pend st_eof -> cat st_eof = TBOT_PROMPT ->
  wf_pend st_status -> cat st_status = tty_echo false (ECHO_Q ++ [CR]) ++ ([48%N] ++ [CR; LF]) ++ TBOT_PROMPT ->
  exists c',
    write_bytes_model cmd data (st_cmd, st_lines, st_eof, st_status) parent = (WOk (length data), c') /\
    insync c' /\ prompt c' = prompt parent /\ blacklist c' = blacklist parent /\
    b64dec (ProofC11c.sent (b64_lines data)) = data.
Proof. exact write_bytes_exact_tbot_prompt. Qed.
Print Assumptions C11_write_bytes_session_exact.

(* ... and the base64 lines pass the black-lists of both shell classes, whatever the data *)
Theorem C11_base64_lines_pass_the_blacklists :
  forall d, Forall is_byte d ->
  Forall (fun l => any_in BASH_BLACKLIST (l ++ [CR]) = false /\ any_in ASH_BLACKLIST (l ++ [CR]) = false) (b64_lines d).
Proof. exact b64_lines_pass_blacklists. Qed.
Print Assumptions C11_base64_lines_pass_the_blacklists.
