(* C12 -- Path behaves like PurePosixPath and refuses to be used on a foreign host.
   Property theorems only; proofs are in ProofC12.v.  PosixPath.v is an ENVIRONMENT model of
   pathlib.PurePosixPath (validated against the real pathlib on every run); the theorems are about tbot's
   layer on top of it: the host check and the fact that wrapping results again is harmless. *)
From TV Require Import Base BaseLemmas PosixPath ProofC12.

(* the host check: every entry point that accepts Path arguments raises WrongHostError iff one of the
   arguments belongs to a machine that is neither the path's machine nor a clone of it *)
Theorem C12_wrong_host_iff_construct :
  forall h args, t_make h args = TWrongHost <-> foreign h args.
Proof. exact wrong_host_iff_make. Qed.
Print Assumptions C12_wrong_host_iff_construct.

Theorem C12_wrong_host_iff_join :
  forall p args, t_joinpath p args = TWrongHost <-> foreign (tp_host p) args.
Proof. exact wrong_host_iff_joinpath. Qed.
Print Assumptions C12_wrong_host_iff_join.

Theorem C12_wrong_host_iff_reflected_division :
  forall p key, t_rtruediv p key = TWrongHost <-> foreign (tp_host p) [key].
Proof. exact wrong_host_iff_rtruediv. Qed.
Print Assumptions C12_wrong_host_iff_reflected_division.

Theorem C12_wrong_host_iff_relative_to :
  forall p args, t_relative_to p args = TWrongHost <-> foreign (tp_host p) args.
Proof. exact wrong_host_iff_relative_to. Qed.
Print Assumptions C12_wrong_host_iff_relative_to.

Theorem C12_wrong_host_iff_is_relative_to :
  forall p args, t_is_relative_to p args = TWrongHost <-> foreign (tp_host p) args.
Proof. exact wrong_host_iff_is_relative_to. Qed.
Print Assumptions C12_wrong_host_iff_is_relative_to.

Theorem C12_at_host :
  forall p h, t_at_host p h = (if Nat.eqb (tp_host p) h then TOk (pp_str (tp_pp p)) else TWrongHost).
Proof. exact at_host_spec. Qed.
Print Assumptions C12_at_host.

(* otherwise the operation is pathlib's, on the unwrapped segments, on the same host *)
Theorem C12_construct_delegates :
  forall h args segs, prepare h args = Some segs -> t_make h args = TOk (mkTP h (pp_make segs)).
Proof. exact make_ok. Qed.
Print Assumptions C12_construct_delegates.

Theorem C12_with_stem_delegates :
  forall p st, t_with_stem p st = t_with_name p (st ++ pp_suffix (tp_pp p)).
Proof. exact with_stem_is_with_name. Qed.
Print Assumptions C12_with_stem_delegates.

Theorem C12_is_relative_to_iff_relative_to_succeeds :
  forall p args, t_is_relative_to p args = TOk true <-> exists r, t_relative_to p args = TOk r.
Proof. exact is_relative_to_iff. Qed.
Print Assumptions C12_is_relative_to_iff_relative_to_succeeds.

(* tbot wraps every pathlib result in a new Path, i.e. parses its string form again: harmless, because every
   parsed path is a normal form and parsing the string of a normal form gives it back *)
Theorem C12_parse_gives_normal_forms : forall s, wf_pp (pp_parse s).
Proof. exact parse_is_normal. Qed.
Print Assumptions C12_parse_gives_normal_forms.

Theorem C12_rewrapping_a_normal_form_is_identity : forall p, wf_pp p -> pp_parse (pp_str p) = p.
Proof. exact parse_str_roundtrip. Qed.
Print Assumptions C12_rewrapping_a_normal_form_is_identity.

Theorem C12_construction_is_idempotent : forall s, renorm (pp_parse s) = pp_parse s.
Proof. exact renorm_idempotent. Qed.
Print Assumptions C12_construction_is_idempotent.

(* the environment model's relative_to / parents in closed form *)
Theorem C12_relative_to_spec :
  forall p other r,
  pp_relative_to p other = Some r <->
  pp_root p = pp_root other /\ exists rest, pp_tail p = pp_tail other ++ rest /\ r = mkPP [] rest.
Proof. exact relative_to_spec. Qed.
Print Assumptions C12_relative_to_spec.

Theorem C12_example :
  pp_str (pp_make [[47; 97]; [98; 47; 46; 47; 99; 46; 116; 120; 116]; [46; 46]]%N) =
  [47; 97; 47; 98; 47; 99; 46; 116; 120; 116; 47; 46; 46]%N.
Proof. exact path_example. Qed.
Print Assumptions C12_example.
