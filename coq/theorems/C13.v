(* C13 -- machine contexts init once, unwind fully on any failure, and always power off.
   Property theorems only; proofs are in ProofC13.v.  The fault oracle `faults s` is an arbitrary list of
   booleans consumed one per check point, so every statement holds for EVERY placement of ANY number of
   faults in setup, body and teardown.  ext s s' evs: the trace of s' is the trace of s followed by evs. *)
From TV Require Import Base Machine ProofC13.

(* (1) first enter: the whole init sequence in the documented order and then the init() hook -- or, if a
       step or the hook raises, every step that had been entered is left again in exactly the reverse
       order, exactly once, the counter is back at 0 and the error propagates *)
Theorem C13_first_enter :
  forall steps s r s',
  rc s = 0 -> m_enter steps s = (r, s') ->
  match r with
  | None => rc s' = 1 /\ cx s' = rev steps /\ ext s s' (flat_map enter_evs steps ++ [EHook])
  | Some _ =>
      rc s' = 0 /\ cx s' = [] /\
      ((exists pre st post fe, steps = pre ++ st :: post /\ failed_enter st fe /\
          ext s s' (flat_map enter_evs pre ++ fe ++ flat_map exit_evs (rev pre))) \/
       ext s s' (flat_map enter_evs steps ++ [EHook] ++ flat_map exit_evs (rev steps)))
  end.
Proof. exact m_enter_first. Qed.
Print Assumptions C13_first_enter.

(* (2) nested enters and inner exits only count *)
Theorem C13_nested_enter_does_nothing :
  forall steps s n, rc s = S n -> m_enter steps s = (None, set_rc (S (S n)) s).
Proof. exact m_enter_nested. Qed.
Print Assumptions C13_nested_enter_does_nothing.

Theorem C13_inner_exit_does_nothing :
  forall pend s n, rc s = S (S n) -> m_exit pend s = (pend, set_rc (S n) s).
Proof. exact m_exit_inner. Qed.
Print Assumptions C13_inner_exit_does_nothing.

(* (3) the last exit tears down everything on the stack in reverse order, exactly once, whatever the
       teardown steps raise; an error (from the body or from a teardown step) propagates *)
Theorem C13_last_exit_tears_down_in_reverse :
  forall pend s p s',
  rc s = 1 -> m_exit pend s = (p, s') ->
  rc s' = 0 /\ cx s' = [] /\ ext s s' (flat_map exit_evs (cx s)) /\ (pend <> None -> p <> None).
Proof. exact m_exit_last. Qed.
Print Assumptions C13_last_exit_tears_down_in_reverse.

Theorem C13_unwinding_never_stops_early :
  forall stack pend s p s',
  unwind stack pend s = (p, s') ->
  same_frame s s' /\ ext s s' (flat_map exit_evs stack) /\ (pend <> None -> p <> None).
Proof. exact unwind_spec. Qed.
Print Assumptions C13_unwinding_never_stops_early.

(* (4) a failed enter of a step leaves nothing open: in particular, once power-on was ATTEMPTED and raised,
       power-off is still called (FPowerOn); if power_check raises, power-on is not attempted (FPowerCheck);
       a console connector whose second half fails closes the cloned lab-host (FConsole2) *)
Theorem C13_failed_step_leaves_nothing_open :
  forall st s r s',
  enter_step st s = (r, s') ->
  same_frame s s' /\
  match r with
  | None => ext s s' (enter_evs st)
  | Some _ => exists evs, failed_enter st evs /\ ext s s' evs
  end.
Proof. exact enter_step_spec. Qed.
Print Assumptions C13_failed_step_leaves_nothing_open.

(* (5) whole programs (nested, sequential, caught `with m:` blocks), every composition, every fault pattern:
       afterwards the counter is 0, the stack is empty, every completed begin has exactly one end and every
       attempted power-on exactly one power-off *)
Theorem C13_nothing_left_open :
  forall steps p fl r s',
  run steps p (m0 fl) = (r, s') ->
  rc s' = 0 /\ cx s' = [] /\
  (forall k, cnt (is_begin k) (tr s') = cnt (is_end k) (tr s')) /\
  cnt is_on (tr s') = cnt is_off (tr s').
Proof. exact nothing_left_open. Qed.
Print Assumptions C13_nothing_left_open.

Theorem C13_invariant :
  forall steps p s r s',
  minv steps s -> run steps p s = (r, s') -> minv steps s' /\ rc s' = rc s.
Proof. exact run_inv. Qed.
Print Assumptions C13_invariant.

(* (6) where power-off happens: after the teardown of every later-started step, before the earlier ones
       (the connector, the pre-connect steps) *)
Theorem C13_poweroff_position :
  forall pre post,
  flat_map exit_evs (rev (pre ++ SPower :: post)) =
  flat_map exit_evs (rev post) ++ [EOff] ++ flat_map exit_evs (rev pre).
Proof. exact poweroff_position. Qed.
Print Assumptions C13_poweroff_position.

(* non-vacuity: pre-connect, console connector, PowerControl, shell; the init() hook raises *)
Theorem C13_example :
  machine_model ([SPlain 1; SConsole 11 12; SPower; SPlain 20], PWith (PBody 0),
                 [false; false; false; false; false; false; true]) =
  VL [VL [VL [VN 1; VN 1]; VL [VN 2; VN 1]; VL [VN 1; VN 11]; VL [VN 2; VN 11]; VL [VN 1; VN 12]; VL [VN 2; VN 12];
          VL [VN 4]; VL [VN 5]; VL [VN 1; VN 20]; VL [VN 2; VN 20]; VL [VN 7];
          VL [VN 3; VN 20]; VL [VN 6]; VL [VN 3; VN 12]; VL [VN 3; VN 11]; VL [VN 3; VN 1]];
      VL [VN 6]; VN 0]%Z.
Proof. exact machine_example. Qed.
Print Assumptions C13_example.
