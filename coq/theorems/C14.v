(* C14 -- the context never has two live instances of a machine and never leaks one.
   Property theorems only; proofs are in ProofC14.v.
   `truth tb n s`: the managers' view of what is alive equals what the trace says (live_nf), every live class
   is in the teardown order, and the trace is well formed (wf_tr): an Init only when no instance of that class
   is live, a Teardown / a hand-over (Yield) only of the instance that is live at that moment. *)
From TV Require Import Base Context ProofC14.

(* (1) the invariant holds initially and is preserved by EVERY well-formed request program, for every fault
       pattern (cfl s is arbitrary), every flag combination, keep_alive or not, reconfigure blocks,
       teardown_if_alive, raising / skipping bodies; the configuration is restored *)
Theorem C14_invariant_initially :
  forall tb n (deps_ok : forall c dc de, dep_of tb c = Some (dc, de) -> dc < c) k r fl,
  truth n (cstate0 n k r fl).
Proof. intros tb n _ k r fl. exact (truth0 n k r fl). Qed.
Print Assumptions C14_invariant_initially.

Theorem C14_invariant_preserved :
  forall tb n, (forall c dc de, dep_of tb c = Some (dc, de) -> dc < c) ->
  forall d p s r s',
  wfp n p -> crun tb d p s = (r, s') -> truth n s -> pres n s s'.
Proof. exact crun_inv. Qed.
Print Assumptions C14_invariant_preserved.

(* (2) what the invariant says about the trace: at most one live instance per class at every moment, an
       instance is torn down only while it is the live one (hence at most once), and an instance handed to
       a requester is the live, initialised one at that moment *)
Theorem C14_trace_well_formed :
  forall tb n, (forall c dc de, dep_of tb c = Some (dc, de) -> dc < c) ->
  forall d p k r fl res s',
  wfp n p -> crun tb d p (cstate0 n k r fl) = (res, s') ->
  wf_tr (ctr s') /\ (forall c, c < n -> live_nf (ctr s') c = m_inst (getm s' c)).
Proof.
  intros tb n Hd d p k r fl res s' Hw H.
  destruct (crun_inv tb n Hd d p _ _ _ Hw H (truth0 n k r fl)) as ((_ & B & _ & _ & E & _) & _).
  exact (conj E B).
Qed.
Print Assumptions C14_trace_well_formed.

(* (3) a successful request hands over the instance the manager holds, and its class is in the teardown order *)
Theorem C14_handed_over_is_live :
  forall tb n, (forall c dc de, dep_of tb c = Some (dc, de) -> dc < c) ->
  forall d top c reset excl roe s r s',
  enter tb d top c reset excl roe s = (r, s') -> truth n s -> c < n ->
  truth n s' /\ grows c s s' /\
  match r with
  | inr en => e_cls en = c /\ m_inst (getm s' c) = Some (e_inst en) /\ In c (order s')
  | inl _ => True
  end.
Proof. exact enter_inv. Qed.
Print Assumptions C14_handed_over_is_live.

(* (4) a teardown never brings anything (back) to life, always clears the manager -- also when the machine's
       own teardown raises -- and touches only the class and its prerequisites *)
Theorem C14_teardown_clears_and_never_revives :
  forall n d c s r s',
  teardown d c s = (r, s') -> truth n s -> c < n ->
  truth n s' /\ shrinks s s' /\ upper_same c s s' /\ (0 < d -> alive s' c = false).
Proof. exact teardown_inv. Qed.
Print Assumptions C14_teardown_clears_and_never_revives.

(* (5) under keep_alive nothing is alive once the outermost `with ctx:` has been left -- normally or by an
       exception, including one raised by some machine's own teardown *)
Theorem C14_nothing_alive_after_keepalive_context :
  forall tb n, (forall c dc de, dep_of tb c = Some (dc, de) -> dc < c) ->
  forall d body s r s',
  0 < d -> wfp n body -> truth n s -> opn s = 0 -> ka s = true ->
  crun tb d (CWithCtx body) s = (r, s') ->
  forall c, c < n -> alive s' c = false.
Proof. exact nothing_alive_after_keepalive_context. Qed.
Print Assumptions C14_nothing_alive_after_keepalive_context.

(* the dependency table of the correspondence check satisfies the hypothesis of all of the above *)
Theorem C14_table_of_the_check_is_a_chain :
  forall c dc de, dep_of tb5 c = Some (dc, de) -> dc < c.
Proof. exact tb5_deps_ok. Qed.
Print Assumptions C14_table_of_the_check_is_a_chain.

(* (6) NOT proved (decided by the correspondence + oracle only, see DESIGN.md): leak-freedom without
       keep_alive (needs the user-count argument) and "dependants first" at the final exit.  The latter is in
       fact FALSE when a machine's own init/teardown raises while reset_on_error is in effect -- recorded
       finding D14; witness: *)
Theorem C14_dependants_first_refuted :
  ctx_model (tb5, (true, true),
             CWithCtx (CRequest 1 false false None (CRequest 4 false false None CSkip)),
             [false; false; false; true]) =
  VL [VL [VL [VN 1; VN 0; VN 0]; VL [VN 1; VN 1; VN 1]; VL [VN 3; VN 1; VN 1]; VL [VN 1; VN 4; VN 2]; VL [VN 3; VN 4; VN 2];
          VL [VN 5; VN 4]; VL [VN 5; VN 1]; VL [VN 6];
          VL [VN 2; VN 4; VN 2]; VL [VN 2; VN 0; VN 0]; VL [VN 2; VN 1; VN 1]];
      VL [VL [VN 3; VN 3]]; VL [VN 0; VN 0; VN 0; VN 0; VN 0]]%Z.
Proof. exact d14_witness. Qed.
Print Assumptions C14_dependants_first_refuted.
