(* C15 -- context requests: sharing, exclusive, reset and reset_on_error act as documented.
   Property theorems only; proofs are in ProofC15.v.
   The clauses are proved on the implementation model (Context.v).  The last sentence of the property --
   the observable trace of ANY program equals that of the reference model ContextSpec.v -- is NOT proved:
   it is decided by evaluating both models and the real tbot.Context on every generated program
   (suites impl_vs_spec / impl_vs_model); C15 is therefore claimed as partial. *)
From TV Require Import Base Context ContextSpec ProofC14 ProofC15.

(* a request for a machine that is alive and not exclusively held yields the very same instance without
   re-initialising it *)
Theorem C15_shared_same_instance :
  forall tb d c excl roe s i,
  usable s -> m_inst (getm s c) = Some i -> m_avail (getm s c) = true ->
  exists en s',
    enter tb (S d) true c false excl roe s = (inr en, s') /\
    e_cls en = c /\ e_inst en = i /\ ctr s' = CYield c i :: ctr s /\ nxt s' = nxt s.
Proof. exact shared_same_instance. Qed.
Print Assumptions C15_shared_same_instance.

(* under keep_alive an instance stays alive between requests *)
Theorem C15_keep_alive_keeps_instance :
  forall d en pend s,
  e_excl en = false -> e_ka en = true -> (pend = None \/ e_roe en = false) ->
  leave (S d) en pend s =
  (pend, setm s (e_cls en) (mkMgr (m_inst (getm s (e_cls en))) (Nat.pred (m_users (getm s (e_cls en))))
                                   (m_avail (getm s (e_cls en))) (m_hold (getm s (e_cls en))))).
Proof. exact keep_alive_keeps. Qed.
Print Assumptions C15_keep_alive_keeps_instance.

(* while a request holds an instance exclusively every other request (without reset) fails with
   ContextError and leaves the holder's instance -- the whole state -- untouched *)
Theorem C15_exclusive_latches :
  forall tb d c roe s i,
  usable s -> m_inst (getm s c) = Some i -> m_avail (getm s c) = true -> c < length (mgrs s) ->
  exists en s',
    enter tb (S d) true c false true roe s = (inr en, s') /\ e_excl en = true /\
    m_avail (getm s' c) = false /\ m_inst (getm s' c) = Some i.
Proof. exact exclusive_latches. Qed.
Print Assumptions C15_exclusive_latches.

Theorem C15_exclusive_blocks :
  forall tb d top c excl roe s i,
  usable s -> m_inst (getm s c) = Some i -> m_avail (getm s c) = false ->
  enter tb (S d) top c false excl roe s = (inl XCtx, s).
Proof. exact exclusive_blocks. Qed.
Print Assumptions C15_exclusive_blocks.

(* ... and the instance is torn down when the exclusive request ends, even under keep_alive *)
Theorem C15_exclusive_end_tears_down :
  forall n d en pend s r s',
  truth n s -> e_cls en < n -> e_excl en = true ->
  (pend = None \/ e_roe en = false) ->
  alive s (e_cls en) = true ->
  leave (S (S d)) en pend s = (r, s') -> alive s' (e_cls en) = false.
Proof. exact exclusive_end_tears_down. Qed.
Print Assumptions C15_exclusive_end_tears_down.

(* a body left by an exception with reset_on_error in effect: the instance is torn down before anything
   reaches the caller, and an exception does reach the caller *)
Theorem C15_reset_on_error_tears_down :
  forall n d en x s r s',
  truth n s -> e_cls en < n -> e_roe en = true -> x <> XSkip ->
  leave (S (S d)) en (Some x) s = (r, s') ->
  alive s' (e_cls en) = false /\ r <> None.
Proof. exact reset_on_error_tears_down. Qed.
Print Assumptions C15_reset_on_error_tears_down.

(* pytest skips are excepted *)
Theorem C15_skip_does_not_reset :
  forall d en s,
  e_excl en = false -> e_ka en = true ->
  leave (S d) en (Some XSkip) s =
  (Some XSkip, setm s (e_cls en) (mkMgr (m_inst (getm s (e_cls en))) (Nat.pred (m_users (getm s (e_cls en))))
                                        (m_avail (getm s (e_cls en))) (m_hold (getm s (e_cls en))))).
Proof. exact skip_does_not_reset. Qed.
Print Assumptions C15_skip_does_not_reset.

(* when reset_on_error is not in effect the exception changes nothing about the instance's lifetime: the
   request is left in exactly the state a normal exit would produce, and the same exception propagates *)
Theorem C15_without_reset_on_error_exception_changes_nothing :
  forall d en x s,
  e_roe en = false ->
  snd (leave (S d) en (Some x) s) = snd (leave (S d) en None s) /\
  (fst (leave (S d) en None s) = None -> fst (leave (S d) en (Some x) s) = Some x).
Proof. exact no_reset_on_error_is_like_normal_exit. Qed.
Print Assumptions C15_without_reset_on_error_exception_changes_nothing.

(* reset=True yields a freshly initialised instance (concrete run; the general case is exercised by the
   correspondence) and the reference model agrees with the implementation model on a concrete program *)
Theorem C15_reset_example :
  ctx_model (tb5, (false, false),
             CRequest 0 false false None (CRequest 0 true false None (CBody 7)), @nil bool) =
  VL [VL [VL [VN 1; VN 0; VN 0]; VL [VN 3; VN 0; VN 0]; VL [VN 2; VN 0; VN 0]; VL [VN 1; VN 0; VN 1];
          VL [VN 3; VN 0; VN 1]; VL [VN 4; VN 7]; VL [VN 5; VN 0]; VL [VN 2; VN 0; VN 1]; VL [VN 5; VN 0]];
      VL []; VL [VN 0; VN 0; VN 0; VN 0; VN 0]]%Z.
Proof. exact reset_example. Qed.
Print Assumptions C15_reset_example.

Theorem C15_reference_model_agrees_example :
  let case := (tb5, (true, false),
               CWithCtx (CSeq (CTry (CRequest 3 false false (Some true) (CRaise false)))
                              (CRequest 2 true true None (CRequest 0 false false None (CBody 1)))),
               @nil bool) in
  ctx_model case = spec_model case.
Proof. exact spec_agrees_example. Qed.
Print Assumptions C15_reference_model_agrees_example.
