(* C16 -- verdicts are truthful: testcase events and CLI exit status match what happened.
   Property theorems only; proofs are in ProofC16.v.  Trees of nested testcases of any shape and depth;
   run_node is one testcase call, run_cli the command line (both drivers share this logic). *)
From TV Require Import Base Testcase ProofC16.

Theorem C16_events_well_nested : forall t, WN (snd (run_node t)).
Proof. exact events_well_nested. Qed.
Print Assumptions C16_events_well_nested.

Theorem C16_end_event_truthful :
  forall name form cs b,
  exists mid oc s k,
    run_children run_node cs = (oc, mid) /\
    run_node (TNode name form cs b) = (fst (fst (body_out oc b)), TBegin name :: mid ++ [TEnd name s k]) /\
    (s, k) = (snd (fst (body_out oc b)), snd (body_out oc b)) /\
    (k = true <-> (oc = ONone /\ b = BSkip)) /\
    (s = true <-> (oc = ONone /\ (b = BPass \/ b = BSkip))) /\
    (fst (fst (body_out oc b)) = ONone <-> s = true).
Proof. exact end_event_truthful. Qed.
Print Assumptions C16_end_event_truthful.

Theorem C16_nesting_level_restored : forall t d, depth (snd (run_node t)) d = d.
Proof. exact nesting_restored. Qed.
Print Assumptions C16_nesting_level_restored.

Theorem C16_cli_verdict :
  forall ts evs code,
  run_cli ts = (evs, code) ->
  (code = 0%Z <-> Forall (fun t => fst (run_node t) = ONone) ts) /\
  (code = 0%Z -> exists pre, evs = pre ++ [TTbotEnd true]) /\
  (code <> 0%Z ->
     exists before t after,
       ts = before ++ t :: after /\ Forall (fun t0 => fst (run_node t0) = ONone) before /\ escapes t /\
       evs = flat_map (fun t0 => snd (run_node t0)) before ++ snd (run_node t)
             ++ [TExc (match fst (run_node t) with OKbd => true | _ => false end); TTbotEnd false] /\
       code = (match fst (run_node t) with OKbd => 130%Z | _ => 1%Z end)).
Proof. exact cli_verdict. Qed.
Print Assumptions C16_cli_verdict.

Theorem C16_example :
  cli_model [TNode 0 0 [(true, TNode 1 2 [] BRaise); (false, TNode 2 1 [] BSkip)] BPass; TNode 3 0 [] BKbd; TNode 4 0 [] BPass] =
  VL [VL [VL [VN 1; VN 0]; VL [VN 1; VN 1]; VL [VN 2; VN 1; VN 0; VN 0]; VL [VN 1; VN 2]; VL [VN 2; VN 2; VN 1; VN 1];
          VL [VN 2; VN 0; VN 1; VN 0]; VL [VN 1; VN 3]; VL [VN 2; VN 3; VN 0; VN 0]; VL [VN 3; VN 1]; VL [VN 4; VN 0]];
      VN 130]%Z.
Proof. exact cli_example. Qed.
Print Assumptions C16_example.
