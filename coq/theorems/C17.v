(* C17 -- the log is complete and ordered: every write to a log event is stored once and in order, the
   terminal shows exactly the stored text (prefix at each line start) however the text is split over write
   calls, and a reader of the log file gets every document back for every read size.
   Property theorems only; proofs are in ProofC17.v. *)
From TV Require Import Base LogEvent ProofC17.

Theorem C17_stored_is_everything_written :
  forall en pfx ws, stored (ev_run en pfx ws) = concat (map sanitize ws).
Proof. exact stored_is_concat_sanitised. Qed.
Print Assumptions C17_stored_is_everything_written.

Theorem C17_printed_is_rendered_stored_text :
  forall pfx ws,
  let text := concat (map sanitize ws) in
  printed (ev_run true pfx ws) =
  (let (nl, out) := emit pfx text true [] in if nl then out else out ++ [LF]).
Proof. exact printed_is_rendered. Qed.
Print Assumptions C17_printed_is_rendered_stored_text.

Theorem C17_nothing_printed_above_verbosity :
  forall pfx ws, printed (ev_run false pfx ws) = [].
Proof. exact nothing_printed_above_verbosity. Qed.
Print Assumptions C17_nothing_printed_above_verbosity.

Theorem C17_each_character_printed_once :
  forall pfx text, exists marks, render pfx text = expand pfx marks /\ somes marks = text.
Proof. exact printed_characters_once. Qed.
Print Assumptions C17_each_character_printed_once.

Theorem C17_logparser_reads_back_every_document :
  forall n docs, 0 < n -> Forall is_doc docs ->
  parse_file (list N) dec_obj ws_json n (flat_map (fun d => d ++ [LF]) docs) = docs.
Proof. exact logparser_reads_back. Qed.
Print Assumptions C17_logparser_reads_back_every_document.

(* the same for any codec with the three framing properties (prefix-freeness of documents) *)
Theorem C17_parser_any_codec :
  forall (A : Type) (enc : A -> list N) (dec : list N -> option (A * nat)) (is_ws : N -> bool) (good : A -> Prop),
  (forall d rest, good d -> dec (enc d ++ rest) = Some (d, length (enc d))) ->
  (forall d p q, good d -> enc d = p ++ q -> q <> [] -> dec p = None) ->
  (forall d, good d -> exists c r, enc d = c :: r /\ is_ws c = false) ->
  is_ws LF = true -> dec [] = None ->
  forall n docs, 0 < n -> Forall good docs ->
  parse_file A dec is_ws n (file_of A enc docs) = docs.
Proof. exact parse_file_all_docs. Qed.
Print Assumptions C17_parser_any_codec.
