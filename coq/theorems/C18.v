From TV Require Import Base.
Theorem C18_placeholder : True. Proof. exact I. Qed.
Print Assumptions C18_placeholder.
