(* C18 -- board bring-up reaches an in-sync shell for any console timing or times out duly.
   Property theorems only; proofs are in ProofC18.v over the model Boot.v (AskfirstInitializer + LinuxBootLogin).
   The console is ARBITRARY in these theorems: any stages, any fragmentation, any timing.  Times in 2^-10 s. *)
From TV Require Import Base Utf8 Regex Channel ChannelLemmas ProofC06 Hush Session Boot ProofC18 ProofC18b.

(* (1) with a boot timeout T configured, whatever the console does -- trickles, stalls, prints garbage, never shows
       a prompt -- the whole Linux stage (askfirst banner, login, optional delay, password) ends no later than T after
       it began, and it never waits for ever *)
Theorem C18_linux_stage_has_one_deadline :
  forall cfg T sts c r c' sts',
  b_timeout cfg = Some T -> (0 <= T)%Z -> (0 <= b_login_delay cfg)%Z -> (forall n, b_nopw cfg = Some n -> 0 <= n)%Z ->
  slow c = None ->
  bringup cfg sts c = (r, c', sts') ->
  (nowc c' <= nowc c + T)%Z /\ never_blocks r.
Proof. exact bringup_deadline. Qed.
Print Assumptions C18_linux_stage_has_one_deadline.

(* (1b) the login part alone, entered with the timer already running (start = _boot_start set by an earlier stage) *)
Theorem C18_login_respects_a_running_timer :
  forall cfg T start sts c r c' sts',
  b_timeout cfg = Some T -> (0 <= b_login_delay cfg)%Z -> (forall n, b_nopw cfg = Some n -> 0 <= n)%Z ->
  slow c = None -> (nowc c <= start + T)%Z ->
  login_step cfg start sts c = (r, c', sts') ->
  (nowc c' <= start + T)%Z /\ never_blocks r.
Proof. exact login_deadline. Qed.
Print Assumptions C18_login_respects_a_running_timer.

(* (2) the user name is sent only in response to a login prompt: while the wait for the prompt does not return,
       not a byte is sent and the stage does not succeed; and when it returns, what was received ends with the prompt *)
Theorem C18_nothing_sent_without_login_prompt :
  forall cfg start sts c r c' sts',
  login_step cfg start sts c = (r, c', sts') ->
  (forall rem out c1, remaining cfg start c = Some rem -> read_until_prompt (Some (SLit LOGIN_P)) rem c <> (Ret out, c1)) ->
  wr (io c') = wr (io c) /\ r <> BOk.
Proof. exact nothing_sent_without_login_prompt. Qed.
Print Assumptions C18_nothing_sent_without_login_prompt.

Theorem C18_login_prompt_was_received :
  forall rem c out c1,
  wfc c -> read_until_prompt (Some (SLit LOGIN_P)) rem c = (Ret out, c1) ->
  exists data, data <> [] /\ cpend c = data ++ cpend c1 /\ is_suffix LOGIN_P data = true.
Proof. exact login_prompt_was_received. Qed.
Print Assumptions C18_login_prompt_was_received.

(* (3) the U-Boot stage (autoboot intercept, then the prompt poll loop with ^C every second): for an ARBITRARY
       console it ends no later than boot_timeout plus ONE polling interval (2 x 0.5 s) after it began, and never blocks *)
Theorem C18_uboot_stage_deadline :
  forall fuel cfg T sts c r c' sts',
  u_timeout cfg = Some T -> (0 <= T)%Z -> slow c = None ->
  uboot_bringup fuel cfg sts c = (r, c', sts') ->
  (nowc c' <= nowc c + T + 2 * HALF)%Z /\ never_blocks r.
Proof. exact uboot_deadline. Qed.
Print Assumptions C18_uboot_stage_deadline.

(* (2b) the password is sent only in response to a password prompt: on a console where the wait for that prompt
        never returns, the login stage writes at most the Enter after the login delay and the user name *)
Theorem C18_password_only_after_its_prompt :
  forall cfg start sts c r c' sts',
  slow c = None ->
  (forall tmo cx out cy, read_until_prompt (Some (SLit PASSWORD_P)) tmo cx <> (Ret out, cy)) ->
  login_step cfg start sts c = (r, c', sts') ->
  exists pre u, wr (io c') = wr (io c) ++ pre ++ u /\
    (pre = [] \/ pre = [CR]) /\ (u = [] \/ u = utf8_enc (b_user cfg) ++ [CR]).
Proof. exact password_only_after_prompt. Qed.
Print Assumptions C18_password_only_after_its_prompt.

(* (3b) the autoboot keys are sent only in response to the autoboot prompt: while the wait for it does not return,
        nothing is sent and the stage does not succeed *)
Theorem C18_autoboot_keys_only_after_prompt :
  forall fuel cfg sts c r c' sts',
  u_autoboot cfg = true ->
  (forall tmo out c1, read_until_prompt (Some (SRe AUTOBOOT_RE)) tmo c <> (Ret out, c1)) ->
  uboot_bringup fuel cfg sts c = (r, c', sts') ->
  wr (io c') = wr (io c) /\ r <> BOk.
Proof. exact autoboot_keys_only_after_prompt. Qed.
Print Assumptions C18_autoboot_keys_only_after_prompt.
