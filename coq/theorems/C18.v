(* C18 -- board bring-up reaches an in-sync shell for any console timing or times out duly.
   Property theorems only; proofs are in ProofC18.v over the model Boot.v (AskfirstInitializer + LinuxBootLogin).
   The console is ARBITRARY in these theorems: any stages, any fragmentation, any timing.  Times in 2^-10 s. *)
From TV Require Import Base Utf8 Regex Channel ChannelLemmas ProofC06 Hush Session ProofC02 ProofSession ProofC04b ProofLive Boot ProofC18 ProofC18b ProofC18c ProofC18d.

(* (1) with a boot timeout T configured, whatever the console does -- trickles, stalls, prints garbage, never shows
       a prompt -- the whole Linux stage (askfirst banner, login, optional delay, password) ends no later than T after
       it began, and it never waits for ever *)
Theorem C18_linux_stage_has_one_deadline :
  forall cfg T sts c r c' sts',
  b_timeout cfg = Some T -> (0 <= T)%Z -> (0 <= b_login_delay cfg)%Z -> (forall n, b_nopw cfg = Some n -> 0 <= n)%Z ->
  slow c = None ->
  bringup cfg sts c = (r, c', sts') ->
  (nowc c' <= nowc c + T)%Z /\ never_blocks r.
Proof. exact bringup_deadline. Qed.
Print Assumptions C18_linux_stage_has_one_deadline.

(* (1b) the login part alone, entered with the timer already running (start = _boot_start set by an earlier stage) *)
Theorem C18_login_respects_a_running_timer :
  forall cfg T start sts c r c' sts',
  b_timeout cfg = Some T -> (0 <= b_login_delay cfg)%Z -> (forall n, b_nopw cfg = Some n -> 0 <= n)%Z ->
  slow c = None -> (nowc c <= start + T)%Z ->
  login_step cfg start sts c = (r, c', sts') ->
  (nowc c' <= start + T)%Z /\ never_blocks r.
Proof. exact login_deadline. Qed.
Print Assumptions C18_login_respects_a_running_timer.

(* (2) the user name is sent only in response to a login prompt: while the wait for the prompt does not return,
       not a byte is sent and the stage does not succeed; and when it returns, what was received ends with the prompt *)
Theorem C18_nothing_sent_without_login_prompt :
  forall cfg start sts c r c' sts',
  login_step cfg start sts c = (r, c', sts') ->
  (forall rem out c1, remaining cfg start c = Some rem -> read_until_prompt (Some (SLit LOGIN_P)) rem c <> (Ret out, c1)) ->
  wr (io c') = wr (io c) /\ r <> BOk.
Proof. exact nothing_sent_without_login_prompt. Qed.
Print Assumptions C18_nothing_sent_without_login_prompt.

Theorem C18_login_prompt_was_received :
  forall rem c out c1,
  wfc c -> read_until_prompt (Some (SLit LOGIN_P)) rem c = (Ret out, c1) ->
  exists data, data <> [] /\ cpend c = data ++ cpend c1 /\ is_suffix LOGIN_P data = true.
Proof. exact login_prompt_was_received. Qed.
Print Assumptions C18_login_prompt_was_received.

(* (3) the U-Boot stage (autoboot intercept, then the prompt poll loop with ^C every second): for an ARBITRARY
       console it ends no later than boot_timeout plus ONE polling interval (2 x 0.5 s) after it began, and never blocks *)
Theorem C18_uboot_stage_deadline :
  forall fuel cfg T sts c r c' sts',
  u_timeout cfg = Some T -> (0 <= T)%Z -> slow c = None ->
  uboot_bringup fuel cfg sts c = (r, c', sts') ->
  (nowc c' <= nowc c + T + 2 * HALF)%Z /\ never_blocks r.
Proof. exact uboot_deadline. Qed.
Print Assumptions C18_uboot_stage_deadline.

(* (2b) the password is sent only in response to a password prompt: on a console where the wait for that prompt
        never returns, the login stage writes at most the Enter after the login delay and the user name *)
Theorem C18_password_only_after_its_prompt :
  forall cfg start sts c r c' sts',
  slow c = None ->
  (forall tmo cx out cy, read_until_prompt (Some (SLit PASSWORD_P)) tmo cx <> (Ret out, cy)) ->
  login_step cfg start sts c = (r, c', sts') ->
  exists pre u, wr (io c') = wr (io c) ++ pre ++ u /\
    (pre = [] \/ pre = [CR]) /\ (u = [] \/ u = utf8_enc (b_user cfg) ++ [CR]).
Proof. exact password_only_after_prompt. Qed.
Print Assumptions C18_password_only_after_its_prompt.

(* (3b) the autoboot keys are sent only in response to the autoboot prompt: while the wait for it does not return,
        nothing is sent and the stage does not succeed *)
Theorem C18_autoboot_keys_only_after_prompt :
  forall fuel cfg sts c r c' sts',
  u_autoboot cfg = true ->
  (forall tmo out c1, read_until_prompt (Some (SRe AUTOBOOT_RE)) tmo c <> (Ret out, c1)) ->
  uboot_bringup fuel cfg sts c = (r, c', sts') ->
  wr (io c') = wr (io c) /\ r <> BOk.
Proof. exact autoboot_keys_only_after_prompt. Qed.
Print Assumptions C18_autoboot_keys_only_after_prompt.

(* (8) liveness of the login (no askfirst banner, no login delay, a password): when the console's output up to the
       login prompt arrives before the boot timeout expires (ready = bytes arriving strictly before the deadline) and
       the reaction to the user name ends with the password prompt and arrives within the password wait
       (no_password_timeout, capped by what is left of the boot timeout), then user name and password are sent --
       exactly these two lines -- and the stage succeeds within the boot timeout: for EVERY fragmentation and timing *)
Theorem C18_login_succeeds_when_the_prompts_arrive_in_time :
  forall cfg c pw (st_user st_pw : stage) (sts : list stage) noise0 noise1,
  b_askfirst cfg = false -> b_login_delay cfg = 0%Z -> b_password cfg = Some pw ->
  match b_timeout cfg with Some T => (0 < T)%Z | None => True end ->
  match b_nopw cfg with Some n => (0 < n)%Z | None => True end ->
  wfc c -> deaths c = [] -> slow c = None ->
  cpend c = noise0 ++ LOGIN_P -> prompt_only_at_end LOGIN_P noise0 ->
  ready (deadline (now (io c)) (b_timeout cfg)) (pend (io c)) = length (cpend c) ->
  any_in (blacklist c) (utf8_enc (b_user cfg) ++ [CR]) = false ->
  any_in (blacklist c) (utf8_enc pw ++ [CR]) = false ->
  wf_pend st_user -> cat st_user = noise1 ++ PASSWORD_P -> prompt_only_at_end PASSWORD_P noise1 ->
  within (match b_nopw cfg, b_timeout cfg with
          | None, None => None
          | None, Some T => Some (now (io c) + T - last_time c)%Z
          | Some n, None => Some n
          | Some n, Some T => Some (Z.min (now (io c) + T - last_time c) n)
          end) st_user ->
  wf_pend st_pw ->
  exists c',
    bringup cfg (st_user :: st_pw :: sts) c = (BOk, c', sts) /\
    wr (io c') = wr (io c) ++ (utf8_enc (b_user cfg) ++ [CR]) ++ (utf8_enc pw ++ [CR]) /\
    pend (io c') = shift (now (io c')) st_pw /\ wfc c' /\ deaths c' = [] /\
    match b_timeout cfg with Some T => (now (io c') < now (io c) + T)%Z | None => True end.
Proof. exact bringup_succeeds. Qed.
Print Assumptions C18_login_succeeds_when_the_prompts_arrive_in_time.

(* the underlying channel theorem: read_until_prompt with a timeout returns the output when the whole answer arrives
   in time, whatever the fragmentation *)
Theorem C18_read_until_prompt_live_under_deadline :
  forall p tmo c S k,
  wfc c -> deaths c = [] -> match tmo with Some T => (0 < T)%Z | None => True end ->
  cpend c = S -> S <> [] -> only_tail (prompt_split (Some p)) S k ->
  ready (deadline (now (io c)) tmo) (pend (io c)) = length S ->
  exists c', read_until_prompt (Some p) tmo c = (Ret (text (firstn k S)), c') /\
             pend (io c') = [] /\ same_cfg c c' /\ deaths c' = [] /\ wfc c' /\ in_time (now (io c)) tmo c' /\
             now (io c') = last_time c.
Proof. exact rup_timed_live. Qed.
Print Assumptions C18_read_until_prompt_live_under_deadline.

(* (9) liveness of the U-Boot stage: the autoboot prompt (a match of the configured regex at the end of what has been
       printed) arrives before the boot timeout expires, the keys are sent, the U-Boot prompt follows within the first
       0.5 s poll: bring-up succeeds, exactly the keys were written (no ^C), the channel is drained and carries the
       U-Boot prompt -- for EVERY fragmentation and timing *)
Theorem C18_uboot_stage_succeeds_when_the_prompts_arrive_in_time :
  forall fuel cfg c S0 k0 (st_keys : stage) (sts : list stage) noise,
  u_autoboot cfg = true -> u_keys cfg <> [] -> u_prompt cfg <> [] ->
  match u_timeout cfg with Some T => (0 < T)%Z | None => True end ->
  wfc c -> deaths c = [] -> slow c = None ->
  cpend c = S0 -> S0 <> [] -> only_tail (prompt_split (Some (SRe AUTOBOOT_RE))) S0 k0 ->
  ready (deadline (now (io c)) (u_timeout cfg)) (pend (io c)) = length S0 ->
  wf_pend st_keys -> cat st_keys = noise ++ u_prompt cfg -> prompt_only_at_end (u_prompt cfg) noise ->
  within (Some HALF) st_keys ->
  exists c',
    uboot_bringup (S fuel) cfg (st_keys :: sts) c = (BOk, c', sts) /\
    wr (io c') = wr (io c) ++ u_keys cfg /\ pend (io c') = [] /\ prompt c' = Some (SLit (u_prompt cfg)).
Proof. exact uboot_succeeds. Qed.
Print Assumptions C18_uboot_stage_succeeds_when_the_prompts_arrive_in_time.
